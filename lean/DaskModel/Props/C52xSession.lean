import DaskModel.Model.CacheSession
import DaskModel.Props.C52
/-
C52 (extension) - "Computing with a Cache callback active returns the same values as computing without it, INCLUDING
WHEN CACHED RESULTS ARE REUSED", over "repeated computations sharing keys": the statement for a whole session of calls
under one Cache object.  `Props/C52` has the two one-call halves (`cache_transparent`: a sound store is transparent;
`cache_store_stays_sound`: a run leaves a sound store); here the store is threaded through any number of calls by the
model (`Model/CacheSession.lean`), every call with its own graph / request / priorities / workers / batch size /
completion order, the cachey store dropping arbitrary keys between calls.

The one assumption is dask's own: equal keys denote equal values in all the graphs of the session (`CallOK.den`: one
`den` solves the graph equations of every call).  It cannot be dropped: `session_needs_common_denotation`.
-/
namespace Dask.C52x
open Dask.Sched Dask.Diag Dask.C52
variable {α : Type}

/-- what is assumed of every call of the session: the hypotheses of `C01.get_async_correct` (closed acyclic graph,
`num_workers ≥ 1`, `chunksize ∈ {-1} ∪ ℕ⁺`) and the common denotation -/
structure CallOK (den : Key → α) (c : Call α) : Prop where
  hyp : ∃ rank, C01.Hyp c.cfg rank
  graph : GraphOK c.cfg.g c.cfg.results
  den : IsDen c.cfg.g c.P den

/-- what the statement promises of one call of the session: no internal error of the scheduler (the only `error` is the
model's own "adversary named a batch that does not exist"), and a call that ends normally returns, in the nesting of the
request, the values the graphs denote -/
def Transparent (den : Key → α) (c : Call α) (r : Run α) : Prop :=
  (∀ e, r.outcome = .error e → e = .badChoice) ∧
  (r.outcome = .ok .done → ∀ req : Req, (∀ k ∈ req.flat, k ∈ c.cfg.results) →
    nestedGet r.final.cache.get? req = nestedGet (fun k => some (den k)) req)

theorem get?_filter_key {β : Type} (f : Key → Bool) : ∀ (m : Map β) (k : Key),
    Map.get? (m.filter (fun p => f p.1)) k = if f k then Map.get? m k else none := by
  intro m
  induction m with
  | nil => intro k; simp [Map.get?]
  | cons a m ih =>
    intro k
    obtain ⟨k', v⟩ := a
    by_cases hf : f k' = true
    · rw [List.filter_cons_of_pos (by simpa using hf), Map.get?_cons, Map.get?_cons, ih k]
      by_cases hk : k' = k
      · subst hk; simp [hf]
      · simp [hk]
    · rw [List.filter_cons_of_neg (by simpa using hf), Map.get?_cons, ih k]
      by_cases hk : k' = k
      · subst hk; simp [hf]
      · simp [hk]

/-- whatever cachey drops, what remains are stored values -/
theorem evictStore_sub (store : Map α) (ks : List Key) (k : Key) (v : α)
    (h : (evictStore store ks).get? k = some v) : store.get? k = some v := by
  unfold evictStore at h
  rw [get?_filter_key (fun k => !ks.contains k)] at h
  split at h
  · exact h
  · cases h

theorem evictStore_sound {den : Key → α} {store : Map α} (h : StoreSound den store) (ks : List Key) :
    StoreSound den (evictStore store ks) :=
  fun k v hk => h k v (evictStore_sub store ks k v hk)

theorem storeAfter_append (store : Map α) (l1 l2 : List (Ev × State α)) :
    storeAfter store (l1 ++ l2) = storeAfter (storeAfter store l1) l2 := by
  unfold storeAfter
  rw [List.foldl_append]

theorem storeAfter_finish (store : Map α) (b : Bool) (st : State α) : storeAfter store [(Ev.finish b, st)] = store := rfl

theorem patch_acyclic {g : Graph} {rank : Key → Nat}
    (hrank : ∀ k deps d, g.get? k = some (.task deps) → d ∈ deps → rank d < rank k) (store : Map α) :
    ∀ k deps d, (patchGraph g store).get? k = some (.task deps) → d ∈ deps → rank d < rank k := by
  intro k deps d hk hd
  rw [get?_patchGraph] at hk
  split at hk
  · cases hg : g.get? k with
    | none => rw [hg] at hk; cases hk
    | some nd => rw [hg] at hk; cases hk
  · exact hrank k deps d hk hd

/-- a task of the patched graph is a task of the graph whose key is not in the store -/
theorem isTask_patch {g : Graph} {store : Map α} {k : Key} (h : isTask (patchGraph g store) k) :
    isTask g k ∧ store.has k = false := by
  obtain ⟨deps, hk⟩ := h
  rw [get?_patchGraph] at hk
  split at hk
  · cases hg : g.get? k with
    | none => rw [hg] at hk; cases hk
    | some nd => rw [hg] at hk; cases hk
  · rename_i hs
    exact ⟨⟨deps, hk⟩, by simpa using hs⟩

/-- **one call under the Cache, from any sound store**: the scheduler raises no internal error, a normal end returns the
denoted values, every fired key is a task whose result was NOT in the store (cached results are reused, never
recomputed), and the store the call leaves behind is sound again - for every eviction and completion order. -/
theorem cacheCall_spec {den : Key → α} {store : Map α} (hsound : StoreSound den store) {c : Call α} (hc : CallOK den c) :
    Transparent den c (cacheCall store c).1 ∧
    (∀ k ∈ firedKeys (cacheCall store c).1, isTask c.cfg.g k ∧ (evictStore store c.evict).has k = false) ∧
    StoreSound den (cacheCall store c).2 := by
  obtain ⟨rank, hH⟩ := hc.hyp
  have hs := evictStore_sound hsound c.evict
  have hden' := patch_isDen hc.den hs
  have hG' := patch_graphOK hc.graph (evictStore store c.evict)
  have hrank' := patch_acyclic hH.acyclic (evictStore store c.evict)
  obtain ⟨st0, hst, hS, _⟩ := startState_ok { c.cfg with g := patchGraph c.cfg.g (evictStore store c.evict) }
    (patchParams c.P (evictStore store c.evict)) hden' hG'
  have hacc := hS.accessible rank hrank'
  have heq := getAsync_eq hst hacc c.choices
  show Transparent den c (getAsync _ _ c.choices) ∧ (∀ k ∈ firedKeys (getAsync _ _ c.choices), _) ∧
    StoreSound den (storeAfter _ (getAsync _ _ c.choices).log)
  rw [heq]
  rcases mainLoop_spec (cfg := { c.cfg with g := patchGraph c.cfg.g (evictStore store c.evict) })
      (patchParams c.P (evictStore store c.evict)) hden' hH.nw hH.cs rank hrank' c.choices (sys0 st0)
      hS.sysInv with ⟨hbad, _⟩ | ⟨s', o, hok, _⟩
  · rw [hbad]
    refine ⟨⟨?_, ?_⟩, ?_, ?_⟩
    · intro e he
      simp only [Except.error.injEq] at he
      exact he.symm
    · intro h; cases h
    · intro k hk
      simp [firedKeys, sys0] at hk
    · exact hs
  · obtain ⟨⟨rest, hB⟩, _, _, _, _, _⟩ := reach_inv (cfg := { c.cfg with g := patchGraph c.cfg.g (evictStore store c.evict) }) _ hden' hH.nw hH.cs rank hrank' hS hok
    have hfired : ∀ k ∈ preKeys s'.log, isTask c.cfg.g k ∧ (evictStore store c.evict).has k = false := by
      intro k hk
      rcases (hB.preIff k).mp hk with h1 | h1
      · exact isTask_patch (hB.inv.runningTask k h1).2
      · exact isTask_patch (hB.inv.finishedTask k h1).2
    have hstore : ∀ b, StoreSound den (storeAfter (evictStore store c.evict) (s'.log ++ [(Ev.finish b, s'.st)])) := by
      intro b
      rw [storeAfter_append, storeAfter_finish]
      exact storeAfter_sound s'.log hB.snapSound _ hs
    have hpre : ∀ b, firedKeys (α := α) { log := s'.log ++ [(Ev.finish b, s'.st)], outcome := .ok o, final := s'.st }
        = preKeys s'.log := by
      intro b
      show preKeys (s'.log ++ [(Ev.finish b, s'.st)]) = _
      rw [preKeys_append]
      simp [preKeys]
    rw [hok]
    cases o with
    | done =>
      refine ⟨⟨fun e he => (by cases he), ?_⟩, ?_, hstore false⟩
      · intro _ req hreq
        exact cache_transparent hc.den rank hH.acyclic hH.nw hH.cs _ hs hS c.choices s' hok req hreq
      · intro k hk
        exact hfired k (by rw [← hpre false]; exact hk)
    | starved =>
      refine ⟨⟨fun e he => (by cases he), fun h => (by cases h)⟩, ?_, hstore true⟩
      intro k hk
      exact hfired k (by rw [← hpre true]; exact hk)
    | failed j =>
      refine ⟨⟨fun e he => (by cases he), fun h => (by cases h)⟩, ?_, hstore true⟩
      intro k hk
      exact hfired k (by rw [← hpre true]; exact hk)

theorem session_length : ∀ (calls : List (Call α)) (store : Map α), (session store calls).length = calls.length
  | [], _ => rfl
  | c :: cs, store => by simp [session, session_length cs]

/-- **`cache_session_transparent`** - C52's Cache clause for repeated computations sharing keys: start a session of any
number of calls under one Cache object from any sound store (e.g. the empty one).  Every call - whatever cachey evicted
before it, whatever the completion order - raises no internal error, returns the denoted values when it ends normally
(also after failed calls earlier in the session), fires only tasks whose results were not cached, and leaves a sound
store. -/
theorem cache_session_transparent {den : Key → α} : ∀ (calls : List (Call α)) (store : Map α),
    StoreSound den store → (∀ c ∈ calls, CallOK den c) →
    ∀ cr ∈ calls.zip (session store calls),
      Transparent den cr.1 cr.2.1 ∧ (∀ k ∈ firedKeys cr.2.1, isTask cr.1.cfg.g k) ∧ StoreSound den cr.2.2 := by
  intro calls
  induction calls with
  | nil => intro store _ _ cr hcr; simp [session] at hcr
  | cons c cs ih =>
    intro store hsound hok cr hcr
    obtain ⟨h1, h2, h3⟩ := cacheCall_spec hsound (hok c (by simp))
    simp only [session, List.zip_cons_cons, List.mem_cons] at hcr
    rcases hcr with rfl | hcr
    · exact ⟨h1, fun k hk => (h2 k hk).1, h3⟩
    · exact ih _ h3 (fun c' hc' => hok c' (List.mem_cons_of_mem _ hc')) cr hcr

/-- **the same values as computing without the Cache**: a call of the session that ends normally returns exactly what
the same `get` call returns without any callback (`getAsync` on the unpatched graph), for ANY completion order of
either run. -/
theorem cache_session_eq_uncached {den : Key → α} (calls : List (Call α)) (store : Map α)
    (hsound : StoreSound den store) (hok : ∀ c ∈ calls, CallOK den c)
    (cr : Call α × Run α × Map α) (hcr : cr ∈ calls.zip (session store calls))
    (hdone : cr.2.1.outcome = .ok .done) (choices' : List Nat)
    (hdone' : (getAsync cr.1.cfg cr.1.P choices').outcome = .ok .done)
    (req : Req) (hreq : ∀ k ∈ req.flat, k ∈ cr.1.cfg.results) :
    nestedGet cr.2.1.final.cache.get? req = nestedGet (getAsync cr.1.cfg cr.1.P choices').final.cache.get? req := by
  have hc := hok cr.1 (List.of_mem_zip hcr).1
  obtain ⟨rank, hH⟩ := hc.hyp
  rw [((cache_session_transparent calls store hsound hok cr hcr).1).2 hdone req hreq,
    (C01.get_async_correct (P := cr.1.P) hH hc.graph choices').2.1 hdone' req hreq]
  apply nestedGet_congr
  intro k hk
  obtain ⟨nd, hnd⟩ := hc.graph.resultsIn k (hreq k hk)
  rw [C01.den_unique cr.1.cfg cr.1.P rank hH hc.graph.closed den (C01.den cr.1.cfg cr.1.P rank) hc.den
    (C01.den_fixpoint cr.1.cfg cr.1.P rank hH) (rank k + 1) k nd (by omega) hnd]

/-! ## non-vacuity and the necessity of the assumption -/

/-- the diamond of `Props/C01` (0 data; 1, 2 ← 0; 3 ← 1, 2) requested twice with different requests and completion
orders, key 1 evicted in between -/
def exCalls : List (Call Nat) :=
  [{ cfg := { C01.exCfg 1 with results := [1] }, P := C01.exP, choices := [0, 0, 0] },
   { cfg := C01.exCfg 2, P := C01.exP, choices := [0, 0, 0], evict := [] },
   { cfg := C01.exCfg 1, P := C01.exP, choices := [0, 0, 0, 0], evict := [1] }]

example : (session [] exCalls).map (fun rs => (C01.isDone rs.1, firedKeys rs.1, rs.1.final.cache.get? 3, rs.2.map (·.1))) =
    [(true, [1], none, [1]), (true, [2, 3], some 614, [3, 2, 1]), (true, [], some 614, [3, 2])] := by decide

/-- a second graph that reuses the keys of the diamond for other computations -/
def exOther : Call Nat :=
  { cfg := C01.exCfg 1, P := { C01.exP with apply := fun k vs => 1000 * C01.exP.apply k vs }, choices := [0, 0, 0] }

/-- **`session_needs_common_denotation`**: without "equal keys denote equal values" the clause is false of the code - a
second graph that reuses key 1 for another computation is given the first graph's value of key 1. -/
theorem session_needs_common_denotation :
    ∃ (c1 c2 : Call Nat), ((cacheCall (cacheCall [] c1).2 c2).1.outcome = .ok .done) ∧
      (getAsync c2.cfg c2.P [0, 0, 0]).outcome = .ok .done ∧
      (cacheCall (cacheCall [] c1).2 c2).1.final.cache.get? 3 ≠ (getAsync c2.cfg c2.P [0, 0, 0]).final.cache.get? 3 :=
  ⟨{ cfg := { C01.exCfg 1 with results := [1] }, P := C01.exP, choices := [0, 0, 0] }, exOther, by rfl, by rfl, by decide⟩

end Dask.C52x
