import DaskModel.Lemmas.Config
/-!
# C17 — configuration changes are scoped, atomic and spelling-insensitive

Model: `DaskModel/Model/Config.lean` (transliteration of `dask/config.py`).  Dictionaries are insertion-ordered
association lists, so "restores exactly" below includes the *order* of the keys, not only `dict ==`.

Statement clauses and where they are proved
* "Leaving a `set` context restores the configuration exactly as it was on entry …"      `exit_restores`
* "… for any nesting of contexts"                                                       `nested_exit_restores`,
                                                                                        `nested_never_stuck`
* "A set call that raises leaves the configuration unchanged."                          `set_failure_atomic`
  (false of the code before the `fix:` commit: `set_failure_not_atomic_without_rollback`)
* "Inside a context, get returns the set values under either spelling"                  `get_after_assign`,
                                                                                        `get_either_spelling(_path)`, `altName_invol`
* merge/update precedence (later wins)                                                  `update_new_last_wins`, `merge_last_wins`
-/
namespace Dask.C17
open Dask.Config

/-- **exit_restores.** For every configuration and every list of `(key path, value)` items (duplicate keys, both
spellings, paths that descend into a value set earlier in the same call, … — no restriction), if `set(...)`
succeeds then `__exit__` does not raise and gives back the configuration exactly as it was. -/
theorem exit_restores (ops : List (Option (List String × Cfg))) (cfg cfg' : Dict) (record : List Op)
    (h : setInit ops cfg = .ok cfg' record) : rollback record cfg' = some cfg := by
  unfold setInit at h
  cases ha : applyOps ops cfg [] with
  | inl res =>
    obtain ⟨d', rec'⟩ := res
    rw [ha] at h
    simp only [SetResult.ok.injEq] at h
    obtain ⟨r, hrec, hu⟩ := applyOps_undo ops cfg [] d' rec' (Or.inl ha)
    simp only [List.nil_append] at hrec
    rw [← h.1, ← h.2, hrec]
    exact hu
  | inr res =>
    obtain ⟨d', rec'⟩ := res
    rw [ha] at h
    simp only [] at h
    split at h <;> cases h

/-- non-vacuity: a call with a duplicate key under both spellings, a nested path and a path descending into a
value set earlier in the same call succeeds, and its rollback restores `{x: 1, a_b: {c: 2}}`. -/
example :
    setInit [some (["a-b", "c"], Cfg.leaf 5), some (["q"], .node []), some (["q", "r"], .leaf 7),
             some (["a_b"], .leaf 9), some (["x"], .leaf 3)]
            [("x", .leaf 1), ("a_b", .node [("c", .leaf 2)])]
      = .ok [("x", .leaf 3), ("a_b", .leaf 9), ("q", .node [("r", .leaf 7)])]
            [.replace ["a_b", "c"] (.leaf 2), .insert ["q"], .insert ["q", "r"],
             .replace ["a_b"] (.node [("c", .leaf 5)]), .replace ["x"] (.leaf 1)] := by rfl

/-- **set_failure_atomic.** A `set` call that raises (an assignment crosses a non-mapping, or
`check_deprecations` rejects a key) leaves the configuration exactly as it was … -/
theorem set_failure_atomic (ops : List (Option (List String × Cfg))) (cfg cfg' : Dict)
    (h : setInit ops cfg = .raised cfg') : cfg' = cfg := by
  unfold setInit at h
  cases ha : applyOps ops cfg [] with
  | inl res => rw [ha] at h; simp at h
  | inr res =>
    obtain ⟨d', rec'⟩ := res
    rw [ha] at h
    simp only [] at h
    obtain ⟨r, hrec, hu⟩ := applyOps_undo ops cfg [] d' rec' (Or.inr ha)
    simp only [List.nil_append] at hrec
    subst hrec
    unfold rollback at h
    rw [hu] at h
    simpa using h.symm

/-- … and the rollback performed inside `__init__` never raises itself. -/
theorem set_rollback_never_raises (ops : List (Option (List String × Cfg))) (cfg : Dict) :
    setInit ops cfg ≠ .brokenRollback := by
  unfold setInit
  cases ha : applyOps ops cfg [] with
  | inl res => simp
  | inr res =>
    obtain ⟨d', rec'⟩ := res
    obtain ⟨r, hrec, hu⟩ := applyOps_undo ops cfg [] d' rec' (Or.inr ha)
    simp only [List.nil_append] at hrec
    subst hrec
    simp [rollback, hu]

/-- non-vacuity for `set_failure_atomic`: `set({'q.r': 2, 'x.y': 3})` with `x` a scalar does raise. -/
example : setInit [some (["q", "r"], .leaf 2), some (["x", "y"], .leaf 3)] [("x", .leaf 1)]
    = .raised [("x", .leaf 1)] := by rfl

/-- Why the repair was needed (DESIGN.md §6 #6): without the rollback in `__init__` — the code as it was — the
same call leaves `q.r = 2` behind. -/
theorem set_failure_not_atomic_without_rollback :
    ¬ (∀ ops cfg cfg', setInitNoRollback ops cfg = .raised cfg' → cfg' = cfg) := by
  intro h
  have := h [some (["q", "r"], .leaf 2), some (["x", "y"], .leaf 3)] [("x", .leaf 1)]
    [("x", .leaf 1), ("q", .node [("r", .leaf 2)])] (by rfl)
  simp at this

/-! ### nesting -/

/-- **nested_exit_restores.** Any program built from sequencing and (arbitrarily deep) nesting of
`with set(...)` blocks — including blocks whose `set` call raises, the exception then unwinding the enclosing
blocks — ends with the configuration exactly as it started (whether it ends normally or with the exception
still propagating). -/
theorem nested_exit_restores (p : Prog) (cfg : Dict) :
    ∀ o t, exec p cfg = (o, t) → o = .normal cfg ∨ o = .exc cfg := by
  induction p generalizing cfg with
  | skip => intro o t h; simp [exec] at h; exact Or.inl h.1.symm
  | seq a b iha ihb =>
    intro o t h
    simp only [exec] at h
    cases hea : exec a cfg with
    | mk oa ta =>
      rw [hea] at h
      rcases iha cfg oa ta hea with ho | ho
      · subst ho
        simp only [] at h
        cases heb : exec b cfg with
        | mk ob tb =>
          rw [heb] at h
          simp only [Prod.mk.injEq] at h
          rw [← h.1]
          exact ihb cfg ob tb heb
      · subst ho
        simp only [Prod.mk.injEq] at h
        exact Or.inr h.1.symm
  | withSet ops body ih =>
    intro o t h
    simp only [exec] at h
    cases hs : setInit ops cfg with
    | ok d' rec =>
      rw [hs] at h
      simp only [] at h
      have hrb := exit_restores ops cfg d' rec hs
      cases heb : exec body d' with
      | mk ob tb =>
        rw [heb] at h
        rcases ih d' ob tb heb with ho | ho
        · subst ho
          simp only [hrb, Prod.mk.injEq] at h
          exact Or.inl h.1.symm
        · subst ho
          simp only [hrb, Prod.mk.injEq] at h
          exact Or.inr h.1.symm
    | raised d' =>
      rw [hs] at h
      simp only [Prod.mk.injEq] at h
      have := set_failure_atomic ops cfg d' hs
      subst this
      exact Or.inr h.1.symm
    | brokenRollback => exact absurd hs (set_rollback_never_raises ops cfg)

/-- In particular no `__exit__` ever raises, at any depth. -/
theorem nested_never_stuck (p : Prog) (cfg : Dict) : (exec p cfg).1 ≠ .stuck := by
  intro h
  rcases nested_exit_restores p cfg (exec p cfg).1 (exec p cfg).2 rfl with ho | ho <;> rw [ho] at h <;> cases h

/-- non-vacuity: three levels, the innermost `set` raises; two bodies are entered, the exception propagates and
the configuration is back to `{x: 1}`. -/
example :
    exec (.withSet [some (["a", "b"], .leaf 1)]
            (.seq (.withSet [some (["a"], .leaf 2), some (["a_b"], .leaf 3)] .skip)
                  (.withSet [some (["a", "c"], .leaf 4), some (["x", "y"], .leaf 5)] .skip)))
         [("x", .leaf 1)]
      = (.exc [("x", .leaf 1)],
         [[("x", .leaf 1), ("a", .node [("b", .leaf 1)])],
          [("x", .leaf 1), ("a", .leaf 2), ("a_b", .leaf 3)]]) := by rfl

/-! ### get after set -/

/-- Reading back with the *same* spelling: after a successful `_assign(keys, v)`, `get` along `keys` returns `v`. -/
theorem get_after_assign (keys : List String) (v : Cfg) (d d' : Dict) (path : List String) (record : Bool) (r : List Op)
    (h : assign keys v d path record = some (d', r)) : getPath keys (.node d') = .ok v := by
  induction keys generalizing d d' path record r with
  | nil => simp [assign] at h
  | cons k ks ih =>
    cases ks with
    | nil =>
      simp only [assign, Option.some.injEq, Prod.mk.injEq] at h
      obtain ⟨hd, _⟩ := h
      subst hd
      have hc : canonicalName k (dset d (canonicalName k d) v) = canonicalName k d := by
        unfold canonicalName
        by_cases h1 : dhas d k = true
        · simp [h1, dhas_dset_self]
        · by_cases h2 : dhas d (altName k) = true
          · simp only [h1, h2, if_true, Bool.false_eq_true, if_false]
            by_cases hk : altName k = k
            · simp [hk]
            · have : dhas (dset d (altName k) v) k = dhas d k := by
                simp [dhas, dget_dset_other _ _ _ _ hk]
              simp [this, h1, dhas_dset_self]
          · simp [h1, h2, dhas_dset_self]
      simp [getPath, hc, dget_dset_self]
    | cons k2 ks =>
      simp only [assign] at h
      -- in every successful branch `d' = dset d key (node sub')` with the tail assigned inside `sub'`
      have key_step : ∀ sub', d' = dset d (canonicalName k d) (.node sub') →
          getPath (k2 :: ks) (.node sub') = .ok v → getPath (k :: k2 :: ks) (.node d') = .ok v := by
        intro sub' hd hget
        subst hd
        have hc : canonicalName k (dset d (canonicalName k d) (.node sub')) = canonicalName k d := by
          unfold canonicalName
          by_cases h1 : dhas d k = true
          · simp [h1, dhas_dset_self]
          · by_cases h2 : dhas d (altName k) = true
            · simp only [h1, h2, if_true, Bool.false_eq_true, if_false]
              by_cases hk : altName k = k
              · simp [hk]
              · have : dhas (dset d (altName k) (Cfg.node sub')) k = dhas d k := by
                  simp [dhas, dget_dset_other _ _ _ _ hk]
                simp [this, h1, dhas_dset_self]
            · simp [h1, h2, dhas_dset_self]
        simp only [getPath, hc, dget_dset_self]
        exact hget
      cases hg : dget d (canonicalName k d) with
      | none =>
        rw [hg] at h
        simp only [] at h
        cases ha : assign (k2 :: ks) v [] (path ++ [canonicalName k d]) false with
        | none => rw [ha] at h; simp at h
        | some res =>
          rw [ha] at h
          simp only [Option.some.injEq, Prod.mk.injEq] at h
          exact key_step res.1 h.1.symm (ih [] res.1 _ false res.2 ha)
      | some c =>
        rw [hg] at h
        cases c with
        | leaf _ => simp at h
        | node sub =>
          simp only [] at h
          cases ha : assign (k2 :: ks) v sub (path ++ [canonicalName k d]) record with
          | none => rw [ha] at h; simp at h
          | some res =>
            rw [ha] at h
            simp only [Option.some.injEq, Prod.mk.injEq] at h
            exact key_step res.1 h.1.symm (ih sub res.1 _ record res.2 ha)

/-- `k2` is a respelling of `k` that the code treats as the same name. -/
def Respell (k k2 : String) : Prop := k2 = k ∨ (k2 = altName k ∧ altName k2 = k)

/-- **get_either_spelling** (one level). If the dictionary does not already hold *both* spellings as different
keys, a value set under one spelling is read back under the other. The hypotheses are exactly what the code
needs: `altName` is an involution on the name (true for all-hyphen / all-underscore names, false for mixed names
such as `a_b-c`, where `canonical_name` is not symmetric), and the two spellings are not both present. -/
theorem get_either_spelling (k k2 : String) (v : Cfg) (d : Dict) (hr : Respell k k2)
    (hboth : ¬ (dhas d k = true ∧ dhas d (altName k) = true ∧ altName k ≠ k)) :
    getPath [k2] (.node (dset d (canonicalName k d) v)) = .ok v := by
  rcases hr with rfl | ⟨h2, hinv⟩
  · exact get_after_assign [k2] v d _ [] false [] (by simp [assign])
  · subst h2
    by_cases hk : altName k = k
    · rw [hk]; exact get_after_assign [k] v d _ [] false [] (by simp [assign])
    · -- genuinely different spelling
      have hc : canonicalName (altName k) (dset d (canonicalName k d) v) = canonicalName k d := by
        unfold canonicalName
        by_cases h1 : dhas d k = true
        · have h2 : dhas d (altName k) = false := by
            cases hh : dhas d (altName k) with
            | false => rfl
            | true => exact absurd ⟨h1, hh, hk⟩ hboth
          have : dhas (dset d k v) (altName k) = false := by
            have hne : k ≠ altName k := fun e => hk e.symm
            simp only [dhas, dget_dset_other _ _ _ _ hne]
            simpa [dhas] using h2
          simp [h1, this, hinv, dhas_dset_self]
        · by_cases h2 : dhas d (altName k) = true
          · simp [h1, h2, dhas_dset_self]
          · have : dhas (dset d k v) (altName k) = false := by
              have hne : k ≠ altName k := fun e => hk e.symm
              simp only [dhas, dget_dset_other _ _ _ _ hne]
              simpa [dhas] using h2
            simp [h1, h2, this, hinv, dhas_dset_self]
      simp [getPath, hc, dget_dset_self]

/-- Every name that does not mix `-` and `_` has its other spelling as a respelling (`altName` is an involution
there), so the hypotheses `Respell` / `Respells` of the theorems below cover all-hyphen and all-underscore names. -/
theorem respell_alt_of_pure (k : String)
    (h : ¬ (Dask.PyStr.hasChar '_' k = true ∧ Dask.PyStr.hasChar '-' k = true)) : Respell k (altName k) := by
  by_cases e : altName k = k
  · exact Or.inl e
  · refine Or.inr ⟨rfl, ?_⟩
    -- `altName k` is pure as well, and `altName (altName k) = k`
    exact altName_invol k h

/-- the dictionary does not hold both spellings of `k` as two different keys -/
def NoBoth (k : String) (d : Dict) : Prop := ¬ (dhas d k = true ∧ dhas d (altName k) = true ∧ altName k ≠ k)

/-- After storing anything under the canonical name of `k`, every respelling of `k` canonicalises to that same key. -/
theorem canon_respell (k k2 : String) (x : Cfg) (d : Dict) (hr : Respell k k2) (hboth : NoBoth k d) :
    canonicalName k2 (dset d (canonicalName k d) x) = canonicalName k d := by
  have same : canonicalName k (dset d (canonicalName k d) x) = canonicalName k d := by
    unfold canonicalName
    by_cases h1 : dhas d k = true
    · simp [h1, dhas_dset_self]
    · by_cases h2 : dhas d (altName k) = true
      · simp only [h1, h2, if_true, Bool.false_eq_true, if_false]
        by_cases hk : altName k = k
        · simp [hk]
        · have : dhas (dset d (altName k) x) k = dhas d k := by
            simp [dhas, dget_dset_other _ _ _ _ hk]
          simp [this, h1, dhas_dset_self]
      · simp [h1, h2, dhas_dset_self]
  rcases hr with rfl | ⟨h2, hinv⟩
  · exact same
  · subst h2
    by_cases hk : altName k = k
    · rw [hk]; exact same
    · unfold canonicalName
      by_cases h1 : dhas d k = true
      · have h2 : dhas d (altName k) = false := by
          cases hh : dhas d (altName k) with
          | false => rfl
          | true => exact absurd ⟨h1, hh, hk⟩ hboth
        have : dhas (dset d k x) (altName k) = false := by
          have hne : k ≠ altName k := fun e => hk e.symm
          simp only [dhas, dget_dset_other _ _ _ _ hne]
          simpa [dhas] using h2
        simp [h1, this, hinv, dhas_dset_self]
      · by_cases h2 : dhas d (altName k) = true
        · simp [h1, h2, dhas_dset_self]
        · have : dhas (dset d k x) (altName k) = false := by
            have hne : k ≠ altName k := fun e => hk e.symm
            simp only [dhas, dget_dset_other _ _ _ _ hne]
            simpa [dhas] using h2
          simp [h1, h2, this, hinv, dhas_dset_self]

/-- no mapping along the path that `_assign(keys, …)` walks holds both spellings of the segment it is asked for -/
def SpellOK : List String → Dict → Prop
  | [], _ => True
  | k :: ks, d => NoBoth k d ∧
    (match dget d (canonicalName k d) with
     | some (.node sub) => SpellOK ks sub
     | _ => SpellOK ks [])

/-- segment-wise respelling of a key path -/
inductive Respells : List String → List String → Prop
  | nil : Respells [] []
  | cons {k k' : String} {ks ks' : List String} : Respell k k' → Respells ks ks' → Respells (k :: ks) (k' :: ks')

/-- **get_either_spelling, any depth.** After a successful `_assign(keys, v)`, `get` along *any respelling* of the
path (each segment in hyphen or underscore form, independently) returns `v` — provided no mapping on the way held
both spellings of its segment beforehand. -/
theorem get_either_spelling_path (keys : List String) : ∀ (keys' : List String) (v : Cfg) (d d' : Dict)
    (path : List String) (record : Bool) (r : List Op),
    assign keys v d path record = some (d', r) → Respells keys keys' → SpellOK keys d →
    getPath keys' (.node d') = .ok v := by
  induction keys with
  | nil => intro keys' v d d' path record r h; simp [assign] at h
  | cons k ks ih =>
    intro keys' v d d' path record r h hr hok
    cases hr with
    | cons hk hrest =>
      rename_i k' ks'
      cases ks with
      | nil =>
        cases hrest
        simp only [assign, Option.some.injEq, Prod.mk.injEq] at h
        obtain ⟨hd, _⟩ := h
        subst hd
        simp [getPath, canon_respell k k' v d hk hok.1, dget_dset_self]
      | cons k2 ks =>
        simp only [assign] at h
        have key_step : ∀ sub', d' = dset d (canonicalName k d) (.node sub') →
            getPath ks' (.node sub') = .ok v → getPath (k' :: ks') (.node d') = .ok v := by
          intro sub' hd hget
          subst hd
          simp only [getPath, canon_respell k k' (.node sub') d hk hok.1, dget_dset_self]
          exact hget
        have hok2 := hok.2
        cases hg : dget d (canonicalName k d) with
        | none =>
          rw [hg] at h hok2
          simp only [] at h hok2
          cases ha : assign (k2 :: ks) v [] (path ++ [canonicalName k d]) false with
          | none => rw [ha] at h; simp at h
          | some res =>
            rw [ha] at h
            simp only [Option.some.injEq, Prod.mk.injEq] at h
            exact key_step res.1 h.1.symm (ih ks' v [] res.1 _ false res.2 ha hrest hok2)
        | some c =>
          rw [hg] at h hok2
          cases c with
          | leaf _ => simp at h
          | node sub =>
            simp only [] at h hok2
            cases ha : assign (k2 :: ks) v sub (path ++ [canonicalName k d]) record with
            | none => rw [ha] at h; simp at h
            | some res =>
              rw [ha] at h
              simp only [Option.some.injEq, Prod.mk.injEq] at h
              exact key_step res.1 h.1.symm (ih ks' v sub res.1 _ record res.2 ha hrest hok2)

/-- non-vacuity: `set({'a-b.c_d': 5})` on `{a_b: {x: 1}}`, read back as `a_b.c-d`, `a-b.c-d`, … -/
example : SpellOK ["a-b", "c_d"] [("a_b", .node [("x", .leaf 1)])] ∧
    Respells ["a-b", "c_d"] ["a_b", "c-d"] := by
  refine ⟨⟨by unfold NoBoth; decide, ⟨by unfold NoBoth; decide, trivial⟩⟩, ?_⟩
  exact .cons (Or.inr ⟨by decide, by decide⟩) (.cons (Or.inr ⟨by decide, by decide⟩) .nil)

/-! ### update / merge: later wins -/

theorem update_nil (p : Priority) (old : Dict) (dflt : Option Cfg) : update p old [] dflt = some old := by
  simp [update, updateGo]

theorem update_cons_leaf_new (old rest : Dict) (k0 : String) (c : Int) (dflt : Option Cfg) :
    update .new old ((k0, .leaf c) :: rest) dflt = update .new (dset old (canonicalName k0 old) (.leaf c)) rest dflt := by
  simp [update, updateGo, leafWins]

theorem update_cons_node_none (p : Priority) (old rest sub : Dict) (k0 : String) :
    update p old ((k0, .node sub) :: rest) none =
      (update p (curOf old (canonicalName k0 old)) sub none).bind
        fun cur' => update p (dset old (canonicalName k0 old) (.node cur')) rest none := by
  simp only [update, updateGo, subDefaults, truthy, Bool.false_eq_true, if_false, updateNode]
  cases updateGo p sub (curOf old (canonicalName k0 old)) none <;> simp

/-- **update_new_last_wins.** With priority `"new"` (the default, also what `merge` uses), the last scalar item of
`new` is what `get` returns afterwards, whatever `old` and the earlier items were. -/
theorem update_new_last_wins (pre : Dict) (k : String) (c : Int) : ∀ (old d' : Dict),
    update .new old (pre ++ [(k, .leaf c)]) none = some d' → getPath [k] (.node d') = .ok (.leaf c) := by
  induction pre with
  | nil =>
    intro old d' h
    simp only [List.nil_append] at h
    rw [update_cons_leaf_new, update_nil] at h
    simp only [Option.some.injEq] at h
    subst h
    exact get_after_assign [k] (.leaf c) old _ [] false [] (by simp [assign])
  | cons kv pre ih =>
    intro old d' h
    obtain ⟨k0, v0⟩ := kv
    simp only [List.cons_append] at h
    cases v0 with
    | leaf c0 =>
      rw [update_cons_leaf_new] at h
      exact ih _ d' h
    | node sub =>
      rw [update_cons_node_none] at h
      cases hu : update .new (curOf old (canonicalName k0 old)) sub none with
      | none => rw [hu] at h; simp at h
      | some cur' =>
        rw [hu] at h
        simp only [Option.bind_some] at h
        exact ih _ d' h

/-- `merge(*dicts)`: the last scalar item of the last dictionary wins. -/
theorem merge_last_wins (ds : List Dict) (pre : Dict) (k : String) (c : Int) (d' : Dict)
    (h : merge (ds ++ [pre ++ [(k, .leaf c)]]) = some d') : getPath [k] (.node d') = .ok (.leaf c) := by
  unfold merge at h
  rw [List.foldl_append] at h
  simp only [List.foldl_cons, List.foldl_nil] at h
  cases hacc : List.foldl (fun acc d => acc.bind fun r => update .new r d none) (some []) ds with
  | none => rw [hacc] at h; simp at h
  | some r =>
    rw [hacc] at h
    simp only [Option.bind_some] at h
    exact update_new_last_wins pre k c r d' h

theorem update_cons_leaf_old (old rest : Dict) (k0 : String) (c : Int) :
    update .old old ((k0, .leaf c) :: rest) none =
      update .old (if dhas old (canonicalName k0 old) then old else dset old (canonicalName k0 old) (.leaf c)) rest none := by
  by_cases h : dhas old (canonicalName k0 old) = true
  · simp [update, updateGo, leafWins, h, truthy]
  · simp [update, updateGo, leafWins, h]

/-- **update_old_keeps_old.** With priority `"old"` and scalar new values, nothing that is already in `old` changes
(new keys are only added): "the old dictionary has preference". -/
theorem update_old_keeps_old (new : Dict) (hleaf : ∀ kv ∈ new, ∃ c, kv.2 = Cfg.leaf c) : ∀ (old : Dict),
    ∃ d', update .old old new none = some d' ∧ ∀ k x, dget old k = some x → dget d' k = some x := by
  induction new with
  | nil => intro old; exact ⟨old, update_nil _ _ _, fun _ _ h => h⟩
  | cons kv rest ih =>
    intro old
    obtain ⟨k0, v0⟩ := kv
    obtain ⟨c, hc⟩ := hleaf (k0, v0) (List.mem_cons_self)
    simp only at hc
    subst hc
    rw [update_cons_leaf_old]
    have hrest : ∀ kv ∈ rest, ∃ c, kv.2 = Cfg.leaf c := fun kv h => hleaf kv (List.mem_cons_of_mem _ h)
    by_cases h : dhas old (canonicalName k0 old) = true
    · simp only [h, if_true]
      exact ih hrest old
    · simp only [h, Bool.false_eq_true, if_false]
      obtain ⟨d', hd, hk⟩ := ih hrest (dset old (canonicalName k0 old) (.leaf c))
      refine ⟨d', hd, ?_⟩
      intro k x hx
      apply hk
      have hne : canonicalName k0 old ≠ k := by
        intro e
        apply h
        simp [dhas, e, hx]
      rw [dget_dset_other _ _ _ _ hne]
      exact hx

/-! ### collect_env -/

/-- Variables that do not start with `DASK_` are ignored by `collect_env`, wherever they stand. -/
theorem collect_env_ignores_foreign (inherit : Dict) (pre post : List (String × Cfg)) (name : String) (v : Cfg)
    (h : envVarName name = none) :
    collectEnv inherit (pre ++ (name, v) :: post) = collectEnv inherit (pre ++ post) := by
  unfold collectEnv
  simp only [List.foldl_append, List.foldl_cons, h]

/-- A single `DASK_…` variable is readable under its lower-cased, dotted name. -/
theorem collect_env_single (name vn : String) (v : Cfg) (h : envVarName name = some vn) :
    ∃ cfg record, collectEnv [] [(name, v)] = .ok cfg record ∧ get vn cfg = .ok v := by
  unfold collectEnv
  simp only [List.foldl_cons, List.foldl_nil, h, dset, List.map_cons, List.map_nil]
  unfold setInit applyOps
  cases ha : assign (splitKey vn) v [] [] true with
  | none =>
    -- `_assign` into an empty dict cannot fail unless the key list is empty, which `split` never returns
    exfalso
    have hne : splitKey vn ≠ [] := by
      unfold splitKey Dask.PyStr.split
      cases hs : Dask.PyStr.splitL '.' vn.toList with
      | nil =>
        exfalso
        revert hs
        generalize vn.toList = cs
        induction cs with
        | nil => simp [Dask.PyStr.splitL]
        | cons c r ih =>
          simp only [Dask.PyStr.splitL]
          cases Dask.PyStr.splitL '.' r with
          | nil => simp
          | cons p ps => by_cases hc : c = '.' <;> simp [hc]
      | cons p ps => simp
    revert ha
    generalize splitKey vn = keys at hne
    -- on a fresh dict every level is an insert
    have key : ∀ (ks : List String) (path : List String) (rec : Bool), ks ≠ [] → assign ks v [] path rec ≠ none := by
      intro ks
      induction ks with
      | nil => intro _ _ h; exact absurd rfl h
      | cons k rest ih =>
        intro path rec _
        cases rest with
        | nil => simp [assign]
        | cons k2 r2 =>
          simp only [assign, dget, canonicalName, dhas, Option.isSome_none, Bool.false_eq_true, if_false]
          have := ih (path ++ [k]) false (by simp)
          cases hh : assign (k2 :: r2) v [] (path ++ [k]) false with
          | none => exact absurd hh this
          | some res => simp
    exact fun ha => key keys [] true hne ha
  | some res =>
    obtain ⟨d', r⟩ := res
    simp only [applyOps]
    refine ⟨d', [] ++ r, rfl, ?_⟩
    exact get_after_assign (splitKey vn) v [] d' [] true r ha

example : envVarName "DASK_FOO__BAR_BAZ" = some "foo.bar_baz" ∧ envVarName "HOME" = none := by decide

/-- the hypotheses are satisfiable with a genuinely different spelling -/
example : Respell "a-b" "a_b" ∧ altName "a-b" ≠ "a-b" := ⟨Or.inr ⟨by decide, by decide⟩, by decide⟩

/-- …and they are needed: for a *mixed* name the other spelling is not found (the code as it is). -/
example : getPath ["a-b-c"] (.node (dset [] (canonicalName "a_b-c" ([] : Dict)) (.leaf 1))) = .keyError := by rfl

end Dask.C17
