/-
C10 (extension): the DRIVER loop of blockwise fusion is sound.

`dask.blockwise._optimize_blockwise` walks the layer DAG from the layers nobody depends on, and for every Blockwise layer
it reaches gathers a GROUP of producer layers which it hands to `rewrite_blockwise`; the group's root keeps its name, the
other members disappear from the graph.  Model: `Model/OptBW.lean` (`optimizeGroups`; tied by the `optbw` sections of
harness/props/c10.py, which diff the groups of EVERY real pass).

Statements (for every graph, every `keep`, every fuel for which the model terminates):
* `fusion_group_sound`   a layer fused into a group (member other than the root) is a Blockwise layer, is NOT a requested
                         output, and EVERY layer that depends on it lies inside the same group — removing it from the graph
                         loses no key anybody still needs;
* `fusion_group_shape`   the root is a member; a rewritten group has a Blockwise root; a layer that is not Blockwise is
                         passed through alone;
* `all_layers_grouped`   (topological numbering, no layer lists itself twice) every layer of the graph is a member of
                         some group: nothing is dropped by the walk;
* `optimize_blockwise_keeps_outputs`  (same hypotheses) every requested name that is a layer is the ROOT of a group, i.e.
                         a key of the returned graph.
The two hypotheses are evaluated by the driver on every real graph (`topoOK`, `selfOK`: always true there);
`topo_of_topoOK` / `self_of_selfOK` connect the Boolean tests to the propositions.
* `optimizeGroups_fuel_mono`  a result does not change when either fuel is increased (the result is the result of the
                         unbounded loops whenever they terminate).
* `fuse_roots_merges_sound`  (`fuse_roots`) every merge joins a Blockwise consumer with ALL its ≥ 2 dependencies, each of which
                         is used by this consumer only (so deleting those layers loses no key another layer needs) and carries
                         the consumer's annotations.
Not proved: that `defaultFuel` suffices on acyclic graphs (the harness reports an exhausted fuel as a disagreement; on a
cyclic graph the Python loop itself does not terminate); the order-independence of the result (validated: the model walks
in one fixed order, Python in its set order, the groups agree on every generated graph).
-/
import DaskModel.Lemmas.OptBW2
namespace Dask.C10x
open Dask.OptBW

theorem topo_of_topoOK {g : Graph} (h : topoOK g = true) : Topo g := by
  intro q Q hq d hd
  have h1 := List.all_eq_true.mp h (Q, q) (List.mem_zipIdx_iff_getElem?.mpr hq)
  have h2 := List.all_eq_true.mp h1 d hd
  simpa using h2

theorem self_of_selfOK {g : Graph} (h : selfOK g = true) : SelfOK g := by
  intro q Q hq
  have h1 := List.all_eq_true.mp h (Q, q) (List.mem_zipIdx_iff_getElem?.mpr hq)
  simpa using h1

theorem outerInv_init (g : Graph) (keep : List Nat) : OuterInv g keep { stack := roots g, seen := [], out := [] } := by
  refine ⟨by simp, by simp, by simp, ?_⟩
  intro r hr hd
  right
  simp [roots, hr, hd]

/-- **fusion_group_sound**: every layer fused into a group is a Blockwise layer, is not a requested output, and all its
    dependents lie inside the group. -/
theorem fusion_group_sound {g : Graph} {keep : List Nat} {cfg : Bool} {fo fi : Nat} {gs : List Group}
    (h : optimizeGroups g keep cfg fo fi = some gs) {G : Group} (hG : G ∈ gs) {x : Nat} (hx : x ∈ G.mem)
    (hne : x ≠ G.root) :
    (∃ X, g[x]? = some X ∧ X.bw = true) ∧ x ∉ keep ∧ ∀ q Q, g[q]? = some Q → x ∈ Q.deps → q ∈ G.mem := by
  unfold optimizeGroups at h
  obtain ⟨st, hst, rfl⟩ := Option.map_eq_some_iff.mp h
  exact (outerLoop_groups fo _ _ hst (by simp) G hG).fused_ok x hx hne

theorem fusion_group_shape {g : Graph} {keep : List Nat} {cfg : Bool} {fo fi : Nat} {gs : List Group}
    (h : optimizeGroups g keep cfg fo fi = some gs) {G : Group} (hG : G ∈ gs) :
    G.root ∈ G.mem ∧ (∃ R, g[G.root]? = some R ∧ (G.fused = true → R.bw = true)) ∧ (G.fused = false → G.mem = [G.root]) := by
  unfold optimizeGroups at h
  obtain ⟨st, hst, rfl⟩ := Option.map_eq_some_iff.mp h
  have := outerLoop_groups fo _ _ hst (by simp) G hG
  exact ⟨this.root_mem, this.root_layer, this.unfused⟩

/-- every layer is a member of some group (nothing is lost by the stack walk) -/
theorem all_layers_grouped {g : Graph} {keep : List Nat} {cfg : Bool} {fo fi : Nat} {gs : List Group}
    (htopo : Topo g) (hself : SelfOK g) (h : optimizeGroups g keep cfg fo fi = some gs) :
    ∀ x, x < g.length → ∃ G ∈ gs, x ∈ G.mem := by
  unfold optimizeGroups at h
  obtain ⟨st, hst, rfl⟩ := Option.map_eq_some_iff.mp h
  obtain ⟨inv, hstack⟩ := outerLoop_inv hself fo _ _ hst (outerInv_init g keep)
  suffices H : ∀ k x, x < g.length → g.length - x ≤ k → Covered st.out x from
    fun x hx => H (g.length - x) x hx (Nat.le_refl _)
  intro k
  induction k with
  | zero => intro x hx hk; omega
  | succ k ih =>
    intro x hx hk
    cases hdep : dependents g x with
    | nil =>
      rcases inv.tops x hx hdep with h1 | h1
      · exact covered_of_seen inv h1
      · rw [hstack] at h1; simp at h1
    | cons q rest =>
      have hq : q ∈ dependents g x := by rw [hdep]; simp
      obtain ⟨Q, hQ, hxQ⟩ := mem_dependents.mp hq
      have hqlt : q < g.length := by
        rcases Nat.lt_or_ge q g.length with h1 | h1
        · exact h1
        · simp [List.getElem?_eq_none h1] at hQ
      have hxq : x < q := by
        rcases htopo q Q hQ x hxQ with h1 | h1
        · exact h1
        · omega
      obtain ⟨G, hG, hqG⟩ := ih q hqlt (by omega)
      rcases inv.closed G hG q hqG Q hQ x hxQ hx with h1 | h1
      · exact h1
      · rw [hstack] at h1; simp at h1

/-- **optimize_blockwise_keeps_outputs**: every requested name that is a layer of the graph is the root of a group, i.e.
    a layer of the graph `_optimize_blockwise` returns. -/
theorem optimize_blockwise_keeps_outputs {g : Graph} {keep : List Nat} {cfg : Bool} {fo fi : Nat} {gs : List Group}
    (htopo : Topo g) (hself : SelfOK g) (h : optimizeGroups g keep cfg fo fi = some gs)
    {k : Nat} (hk : k ∈ keep) (hlt : k < g.length) : ∃ G ∈ gs, G.root = k := by
  obtain ⟨G, hG, hm⟩ := all_layers_grouped htopo hself h k hlt
  refine ⟨G, hG, ?_⟩
  by_cases hr : k = G.root
  · exact hr.symm
  · exact absurd hk (fusion_group_sound h hG hm hr).2.1

/-- more fuel, same groups -/
theorem optimizeGroups_fuel_mono {g : Graph} {keep : List Nat} {cfg : Bool} {fo fi : Nat} {gs : List Group}
    (h : optimizeGroups g keep cfg fo fi = some gs) (a b : Nat) : optimizeGroups g keep cfg (fo + a) (fi + b) = some gs := by
  unfold optimizeGroups at h ⊢
  obtain ⟨st, hst, rfl⟩ := Option.map_eq_some_iff.mp h
  rw [outerLoop_mono b a fo _ _ hst]
  rfl

/-- **fuse_roots**: every merge joins a Blockwise consumer with all its (at least two) dependencies, each used by this
    consumer only and annotated like it. -/
theorem fuse_roots_merges_sound {g : Graph} {order : List Nat} {r : RSt}
    (h : fuseRoots g order { gone := [], cleared := [], fusedR := [] } = some r) :
    ∀ p ∈ r.fusedR, MergeOK g p :=
  fuseRoots_spec order _ _ h (by simp)

/-- two leaves under a Blockwise consumer, a third leaf and a second consumer on top: both merges happen in ONE walk (the
    first merge resets the consumer's dependencies), in this iteration order … -/
def exRoots : Graph := [
  { bw := false, deps := [], conc := 0, ann := 0, annKeys := [], outInd := [], indices := [] },
  { bw := false, deps := [], conc := 0, ann := 0, annKeys := [], outInd := [], indices := [] },
  { bw := true, deps := [0, 1], conc := 0, ann := 0, annKeys := [], outInd := [0], indices := [(0, some [0]), (1, some [0])] },
  { bw := false, deps := [], conc := 0, ann := 0, annKeys := [], outInd := [], indices := [] },
  { bw := true, deps := [2, 3], conc := 0, ann := 0, annKeys := [], outInd := [0], indices := [(2, some [0]), (3, some [0])] }]

example : (fuseRoots exRoots [0, 1, 2, 3, 4] { gone := [], cleared := [], fusedR := [] }).map (·.fusedR) =
    some [(2, [0, 1]), (4, [2, 3])] := by decide
/-- … but only the lower one when the upper consumer is visited first -/
example : (fuseRoots exRoots [4, 3, 2, 1, 0] { gone := [], cleared := [], fusedR := [] }).map (·.fusedR) =
    some [(2, [0, 1])] := by decide

/-! ### non-vacuity: concrete graphs on which the model terminates and the hypotheses hold -/

/-- `L0` materialized ← `L1 = f(L0)` ← `L2 = f(L1)` ← `L3 = f(L2, L1)`; outputs `L3`:
    `L2` is fused into `L3`, the shared producer `L1` and the materialized layer stay. -/
def exGraph : Graph := [
  { bw := false, deps := [], conc := 0, ann := 0, annKeys := [], outInd := [], indices := [] },
  { bw := true, deps := [0], conc := 0, ann := 0, annKeys := [], outInd := [0], indices := [(0, some [0])] },
  { bw := true, deps := [1], conc := 0, ann := 0, annKeys := [], outInd := [0], indices := [(1, some [0])] },
  { bw := true, deps := [2, 1], conc := 0, ann := 0, annKeys := [], outInd := [0], indices := [(2, some [0]), (1, some [0])] }]

def view (r : Option (List Group)) : Option (List (Nat × Bool × List Nat)) := r.map fun gs => gs.map fun G => (G.root, G.fused, G.mem)

example : view (optimizeGroups exGraph [3] true (defaultFuel exGraph) (defaultFuel exGraph)) =
    some [(0, false, [0]), (1, true, [1]), (3, true, [3, 2])] := by decide
example : topoOK exGraph = true ∧ selfOK exGraph = true := by decide
/-- requesting `L2` as an output keeps it out of the group of `L3` -/
example : view (optimizeGroups exGraph [3, 2] true (defaultFuel exGraph) (defaultFuel exGraph)) =
    some [(0, false, [0]), (1, true, [1]), (2, true, [2]), (3, true, [3])] := by decide
/-- a chain is fused whole in one pass -/
example : view (optimizeGroups (exGraph.take 3) [2] true 40 40) = some [(0, false, [0]), (2, true, [2, 1])] := by decide
/-- the fuel can run out: the theorems speak of the runs that terminate -/
example : optimizeGroups exGraph [3] true 2 40 = none := by decide

end Dask.C10x
