import DaskModel.Model.Chunks
import DaskModel.Lemmas.ChunksNormalize
import DaskModel.Lemmas.ChunksPlanner
import DaskModel.Lemmas.ChunksRechunk
import DaskModel.Lemmas.ChunksPlanLemmas
import DaskModel.Lemmas.ChunksPlanStages
import DaskModel.Lemmas.ChunksLocate
import DaskModel.Lemmas.ChunksAutoLemmas
import DaskModel.Lemmas.ChunksMergeSafe
import DaskModel.Lemmas.ChunksBalance
import DaskModel.Lemmas.ChunksPlanSafe
/-!
# C23 — chunk normalisation and rechunking are exact (theorems)

Statement (properties.jsonl): `normalize_chunks` always returns, for each dimension, positive
chunk sizes (or a single zero for an empty dimension) that add up to the shape, and automatic
chunks stay within the byte limit whenever a single element fits.  Rechunking any array to any
valid target yields exactly the requested chunks and unchanged values, whichever rechunk method
and multi-stage plan is used.

Part 1 (this section): `normalize_chunks` / `blockdims_from_blockshape`.
`auto_chunks` enters only through the tuple it returns (`autoRes`); its own post-condition
(ints ≥ 1, valid tuples, byte limit) is *checked on every real output* by harness/props/c23.py,
not proved (float heuristics) — see `normalize_sum_pos`'s hypothesis `hauto`.
-/
namespace Dask.C23
open Dask.Chunks

/-- `blockdims_from_blockshape((d,), (bd,))` for a positive block size: positive chunks adding up
    to `d`, or `(0,)` for an empty dimension. -/
theorem blockdims_valid {d : Nat} {bd : Int} {r : List Int} (hbd : 0 < bd)
    (h : blockdims1 d bd = .ok r) : DimValid r d := blockdims1_pos hbd h

example : blockdims1 10 4 = .ok [4, 4, 2] := by rfl
example : blockdims1 0 4 = .ok [0] := by rfl
example : blockdims1 5 0 = .error .zeroDiv := by rfl

/-- what the harness checks of `auto_chunks`' result on every call: one entry per dimension, no negative size -/
def AutoOK (shape : List Nat) (autoRes : Option (List Spec)) : Prop :=
  ∀ a, autoRes = some a → a.length = shape.length ∧ ∀ c ∈ a, c.isNeg = false

/-- **normalize_sum_nonneg** (no hypothesis on the user's spec at all — malformed ones included): whenever
    `normalize_chunks` returns, it returns one non-empty tuple per dimension, without a negative size, adding
    up to the shape.  (True of the code since `fix: normalize_chunks rejects negative chunk sizes`; before it
    `normalize_chunks(-2, (5,)) = ((-1,),)`.  The only hypothesis concerns `auto_chunks`' own output.) -/
theorem normalize_sum_nonneg {top shape limit autoRes r} (h : normalize top shape limit autoRes = .ok r)
    (hne : shape ≠ []) (hauto : AutoOK shape autoRes) :
    AllDims DimOK r shape := by
  unfold normalize at h
  cases h1 : preNormalize top shape limit with
  | error e => simp [h1] at h
  | ok chunks =>
    simp only [h1] at h
    have hl := preNormalize_length h1 hne
    split at h
    · cases autoRes with
      | none => simp at h
      | some a => exact finalize_dims h (hauto a rfl).1 hne (hauto a rfl).2
    · exact finalize_dims h hl hne (preNormalize_nonneg h1)

/-- **normalize_sum_pos** (the statement's first sentence): every returned dimension consists of
    positive chunk sizes, or is exactly `(0,)`, and adds up to the shape — for int / -1 / None /
    dict / byte-string / "auto" entries unconditionally, and for explicit tuples (the user's, a
    flat 1-d tuple, or the ones `auto_chunks` builds from `previous_chunks`) provided those tuples
    are themselves positive-or-`(0,)` (they are passed through verbatim; dask allows zero-length
    chunks inside explicit tuples). -/
theorem normalize_sum_pos {top shape limit autoRes r} (h : normalize top shape limit autoRes = .ok r)
    (hne : shape ≠ []) (hauto : AutoOK shape autoRes)
    (hautot : ∀ a, autoRes = some a → TupGood a)
    (htup : TupGood (expandTop top shape.length)) (hflat : FlatGood (expandTop top shape.length)) :
    AllDims DimValid r shape := by
  unfold normalize at h
  cases h1 : preNormalize top shape limit with
  | error e => simp [h1] at h
  | ok chunks =>
    simp only [h1] at h
    have hl := preNormalize_length h1 hne
    have hg := preNormalize_tupGood h1 htup hflat
    split at h
    · cases autoRes with
      | none => simp at h
      | some a => exact finalize_valid h (hauto a rfl).1 hne (hauto a rfl).2 (hautot a rfl)
    · exact finalize_valid h hl hne (preNormalize_nonneg h1) hg

/-- pointwise reading of `AllDims`: the result has one entry per dimension and entry `i` is valid for `shape[i]` -/
theorem normalize_sum_pos_get {top shape limit autoRes r} (h : normalize top shape limit autoRes = .ok r)
    (hne : shape ≠ []) (hauto : AutoOK shape autoRes)
    (hautot : ∀ a, autoRes = some a → TupGood a)
    (htup : TupGood (expandTop top shape.length)) (hflat : FlatGood (expandTop top shape.length)) :
    r.length = shape.length ∧ ∀ i (h1 : i < r.length) (h2 : i < shape.length), DimValid r[i] shape[i] :=
  let H := normalize_sum_pos h hne hauto hautot htup hflat
  ⟨H.length, H.get⟩

/-! non-vacuity: the documented examples, through the model -/
example : normalize (.seq [.int 2, .int 2]) [5, 6] none none = .ok [[2, 2, 1], [2, 2, 2]] := by rfl
example : normalize (.seq [.int 3, .int 2]) [5] none none = .ok [[3, 2]] := by rfl
example : normalize (.seq [.int 5, .none]) [10, 10] none none = .ok [[5, 5], [10]] := by rfl
example : normalize (.dict [(0, .int 2), (1, .int 3)]) [6, 6] none none = .ok [[2, 2, 2], [3, 3]] := by rfl
example : normalize (.seq []) [0, 0] none none = .ok [[0], [0]] := by rfl
example : normalize (.scalar .auto) [20] (some 5) (some [.int 5]) = .ok [[5, 5, 5, 5]] := by rfl
example : normalize (.seq [.bytes 16, .bytes 64]) [5, 5] none none = .error .value := by rfl
/-- witnesses of the repaired defects: negative sizes are rejected (before `auto_chunks` is consulted), zero block size divides by zero -/
example : normalize (.seq [.auto, .int (-2)]) [5, 5] (some 8) none = .error .value := by rfl
example : normalize (.scalar (.int (-2))) [5] none none = .error .value := by rfl
example : normalize (.seq [.tup [7, -2]]) [5] none none = .error .value := by rfl
example : normalize (.scalar (.int 0)) [5] none none = .error .zeroDiv := by rfl
/-- explicit tuples with zero-length chunks pass through (why `normalize_sum_pos` needs `TupGood`) -/
example : normalize (.seq [.tup [3, 0, 2]]) [5] none none = .ok [[3, 0, 2]] := by rfl

/-! ## Part 1b: `auto_chunks` inside the model (Model/ChunksAuto.lean)

Both branches of `auto_chunks` are transliterated; every quantity the code computes in floating point (`size`,
`proposed`, `max_chunk_size`, `multiplier < 1`, `multiplier != last_multiplier`) is a *parameter* (`AOracle`), observed
from the real call by the harness and passed as an exact fraction.  The theorems hold for every value of them. -/

/-- **auto_chunks_post**: whatever the modelled `auto_chunks` returns - for any observed floats, any
    `previous_chunks` - has one entry per dimension, no negative size, and only tuples that are positive or `(0,)`:
    the hypotheses `AutoOK` / `TupGood` of `normalize_sum_nonneg` / `normalize_sum_pos` are theorems now. -/
theorem auto_chunks_post {chunks r : List Spec} {shape : List Nat} {isz : Nat} {prev : Option (List (List Nat))}
    {o : AOracle} (h1 : ∀ c ∈ chunks, c.isNeg = false) (h2 : TupGood chunks)
    (h : autoChunks chunks shape isz prev o = .ok r) :
    r.length = chunks.length ∧ (∀ c ∈ r, c.isNeg = false) ∧ TupGood r := by
  obtain ⟨l, g⟩ := autoChunks_post (allOK_of h1 h2) h
  exact ⟨l, g.nonneg, g.tupGood⟩

/-- **normalize_sum_pos_auto** (first sentence of the statement, `"auto"` / byte-string entries included, with or
    without `previous_chunks`): `normalize_chunks` composed with the modelled `auto_chunks` returns, per dimension,
    positive sizes (or exactly `(0,)`) adding up to the shape - no hypothesis about `auto_chunks` is left. -/
theorem normalize_sum_pos_auto {top shape limit chunks isz prev o ar r}
    (hpre : preNormalize top shape limit = .ok chunks) (hauto : autoChunks chunks shape isz prev o = .ok ar)
    (h : normalize top shape limit (some ar) = .ok r) (hne : shape ≠ [])
    (htup : TupGood (expandTop top shape.length)) (hflat : FlatGood (expandTop top shape.length)) :
    AllDims DimValid r shape := by
  obtain ⟨l, g1, g2⟩ := auto_chunks_post (preNormalize_nonneg hpre) (preNormalize_tupGood hpre htup hflat) hauto
  refine normalize_sum_pos h hne ?_ ?_ htup hflat
  · intro a ha; injection ha with ha; subst ha
    exact ⟨by rw [l]; exact preNormalize_length hpre hne, g1⟩
  · intro a ha; injection ha with ha; subst ha; exact g2

/-- **auto_noprev_within_limit** (second clause of the first sentence, branch without `previous_chunks`): if one
    element fits next to the explicitly chunked dimensions (`itemsize * largest_block <= limit`) and the integer part
    of the observed `size = (limit / itemsize / largest_block) ** (1 / k)` of every recursion level does not exceed
    the exact root (`SizesSound`: `int(size) ^ k * itemsize * largest_block <= limit`; checked on every observed value -
    it fails only when the float root crosses an integer from below), then no dimension is left `"auto"` and the largest block of the
    result is within the byte limit.  (Invariant over the recursion `return auto_chunks(chunks, shape, limit, dtype)`:
    one element still fits after the small dimensions are fixed to their full length.) -/
theorem auto_noprev_within_limit {limit isz : Nat} {shape : List Nat} {chunks r : List Spec} {o : AOracle}
    (h : autoChunks chunks shape isz none o = .ok r) (hs : SizesSound limit isz shape chunks o.sizes)
    (hfit : isz * largestBlockSpec chunks ≤ limit) : hasAuto r = false ∧ isz * largestBlockSpec r ≤ limit := by
  unfold autoChunks at h
  split at h
  · injection h with h; subst h
    rename_i hna
    exact ⟨by simpa using hna, hfit⟩
  · split at h
    · cases h
    · exact autoNoPrev_limit limit isz shape o.sizes chunks r h hs hfit

/-- non-vacuity. `normalize_chunks(("auto", "auto"), (20, 30), limit=64, dtype="i4")`: observed `size = 4.0` -/
example : autoChunks [.auto, .auto] [20, 30] 4 none ⟨[⟨4, 1⟩], false, [], []⟩ = .ok [.int 4, .int 4] := by rfl
example : SizesSound 64 4 [20, 30] [.auto, .auto] [⟨4, 1⟩] ∧ 4 * largestBlockSpec [.auto, .auto] ≤ 64 := by
  refine ⟨sizesSoundB_sound _ _ _ _ _ (by decide), by decide⟩
/-- the three hypotheses of `normalize_sum_pos_auto` for that call -/
example : preNormalize (.scalar .auto) [20, 30] (some 64) = .ok [.auto, .auto] ∧
    normalize (.scalar .auto) [20, 30] (some 64) (some [.int 4, .int 4]) =
      .ok [[4, 4, 4, 4, 4], [4, 4, 4, 4, 4, 4, 4, 2]] := ⟨by rfl, by rfl⟩
/-- a small dimension is fixed to its full length first (`shape[1] = 2 < size = 4`), then `size = 8` -/
example : autoChunks [.auto, .auto, .int 2] [20, 2, 4] 1 none ⟨[⟨4, 1⟩, ⟨8, 1⟩], false, [], []⟩ =
    .ok [.int 8, .tup [2], .int 2] := by rfl
/-- the known finding: `normalize_chunks(["auto"], (8,), limit=16, dtype="i4", previous_chunks=((5, 3),))` observes
    `proposed = 4.0`, `max_chunk_size = 5.0`, keeps `(5, 3)` (20 bytes > 16: within the documented tolerance) -/
example : autoChunks [.auto] [8] 4 (some [[5, 3]]) ⟨[], false, [⟨⟨4, 1⟩, ⟨5, 1⟩⟩], []⟩ = .ok [.tup [5, 3]] := by rfl
/-- the proportional-shrink loop (`reduce_case`): two rounds, the second leaves the multiplier unchanged -/
example : autoChunks [.auto, .auto] [100, 50] 1 (some [[10, 10, 10, 10, 10, 10, 10, 10, 10, 10], [5, 5, 5, 5, 5, 5, 5, 5, 5, 5]])
    ⟨[], true, [⟨⟨89, 10⟩, ⟨10, 1⟩⟩, ⟨⟨44, 10⟩, ⟨5, 1⟩⟩, ⟨⟨89, 10⟩, ⟨10, 1⟩⟩, ⟨⟨44, 10⟩, ⟨5, 1⟩⟩], [true, false]⟩ =
    .ok [.int 8, .int 4] := by rfl

/-! ## Part 2: planner arithmetic (`divide_to_width`, `merge_to_number` fast path) -/

/-- `divide_to_width`: the chunks still add up, none exceeds `max_width`, and positive chunks stay positive. -/
theorem divide_to_width_spec {cs : List Nat} {w : Nat} {r : List Nat} (h : divideToWidth cs w = some r) :
    sum r = sum cs ∧ (∀ x ∈ r, x ≤ w) ∧ ((∀ c ∈ cs, 0 < c) → ∀ x ∈ r, 0 < x) := divideToWidth_spec h

example : divideToWidth [10, 3, 7] 4 = some [3, 3, 4, 3, 3, 4] := by rfl

/-- homogeneous fast path of `merge_to_number`: exactly `max_number` chunks, same total, all positive
    when there were at least `max_number` chunks to begin with. -/
theorem merge_homogeneous_spec {w n M : Nat} {r : List Nat} (h : mergeHomogeneous w n M = some r) :
    r.length = M ∧ sum r = n * w ∧ (M ≤ n → ∀ x ∈ r, 0 < x) := mergeHomogeneous_spec h

example : mergeHomogeneous 2 5 2 = some [6, 4] := by rfl

/-- **merge_to_number_spec** (all three paths, the heap path with its lazy deletion included): whatever
    `merge_to_number` returns has the same total; it has exactly `max_number` chunks when there were more, and is the
    input itself otherwise; positive chunks stay positive.  Zero-length chunks in the input are fine (since
    `fix: merge_to_number … zero-length chunks`: a merged-away chunk is marked `None`, no longer `0`).
    (Invariant of the `while nmerges > 0` loop: every heap entry `(w, i, j)` has `i < j`; a merge keeps the sum of the
    live chunks and removes exactly one of them.  Raising - `heappop` from an empty heap, `chunks[j]` past the end,
    `None + int` - is modelled as an error, so is running out of the model's fuel; that neither happens is
    validated by the function-level diff.) -/
theorem merge_to_number_spec {cs r : List Nat} {M : Nat} (h : mergeToNumberFull cs M = .ok r) :
    sum r = sum cs ∧ ((∀ c ∈ cs, 0 < c) → ∀ x ∈ r, 0 < x) ∧ (M < cs.length → r.length = M) ∧ (cs.length ≤ M → r = cs) :=
  mergeToNumberFull_spec h

example : mergeToNumberFull [5, 1, 1, 7, 2] 3 = .ok [7, 7, 2] := by rfl
example : mergeToNumberFull [1, 2, 3, 4, 5, 6] 2 = .ok [15, 6] := by rfl
example : mergeToNumberFull [3, 3, 3, 3] 0 = .error .raised := by rfl
/-- witnesses of the repaired defect (zero-length chunks of the target were taken for deleted entries: AssertionError /
    IndexError before the fix) -/
example : mergeToNumberFull [3, 0, 0, 2, 0, 1] 3 = .ok [3, 2, 1] := by rfl
example : mergeToNumberFull [0, 0, 0] 2 = .ok [0, 0] := by rfl

/-- **balance_chunksizes_valid**: `_balance_chunksizes` (`rechunk(..., balance=True)`; median chunk length, candidate
    lengths `median ± median // 2`, the candidate with the requested number of chunks and the smallest spread, else the
    input) maps a valid chunking of an axis to a valid chunking of the same axis. -/
theorem balance_chunksizes_valid {n : Nat} {cs : List Nat} (h : StageOK n cs) : StageOK n (balanceChunks cs) :=
  balanceChunks_stage h

example : balanceChunks [400, 400, 200] = [500, 500] := by decide
example : balanceChunks [2, 2, 2, 1] = [3, 3, 1] := by decide
example : balanceChunks [0, 0, 5] = [0, 0, 5] := by decide

/-! ## Part 2b: the stage choice of `plan_rechunk` (`find_split_rechunk`, `find_merge_rechunk`, the loop)

The float-dependent part of `find_merge_rechunk` - the order in which the candidate dimensions are tried
(`sorted(..., key=log(gse)/log(bse))`) - is a *parameter* of the model; the theorems hold for every order (the
harness feeds the order observed in the real call and diffs every real plan against `planRechunk`). -/

/-- **find_split_valid**: `find_split_rechunk` maps valid chunkings of a shape to a valid chunking of that shape. -/
theorem find_split_valid {shape : List Nat} {old new r : List (List Nat)} {limit : Nat} (ho : AllStage shape old)
    (hn : AllStage shape new) (h : findSplit old new limit = .ok r) : AllStage shape r := findSplit_valid ho hn h

/-- **find_merge_valid**: so does `find_merge_rechunk`, whatever the order of its candidates and the byte limit. -/
theorem find_merge_valid {shape : List Nat} {Lnum den : Nat} {old new c : List (List Nat)} {order : List Nat} {hit : Bool}
    (ho : AllStage shape old) (hn : AllStage shape new) (h : findMerge Lnum den old new order = .ok (c, hit)) :
    AllStage shape c := findMerge_valid ho hn h

/-- **find_merge_never_raises**: on valid chunkings whose largest old block is within the limit (`plan_rechunk`
    raises the limit to at least that), for every duplicate-free order of the candidates, `find_merge_rechunk` returns:
    `assert largest_block_size == _largest_block_size(chunks)` and `assert largest_block_size <= block_size_limit`
    hold, `divide_to_width` is never called with width 0 and `// largest_width` never divides by zero - and the
    result's largest block is within the limit.  (Loop invariant `MInv`: the tracked `largest_block_size` is the real
    one, it fits, and the dimensions not yet visited still carry the old chunks.) -/
theorem find_merge_never_raises {shape : List Nat} {Lnum den : Nat} {old new : List (List Nat)} {order : List Nat}
    (ho : AllStage shape old) (hn : AllStage shape new) (hden : 0 < den) (hfit : largestBlockSize old * den ≤ Lnum)
    (hperm : isPermOf order (mergeCandidates old new) = true) :
    ∃ c hit, findMerge Lnum den old new order = .ok (c, hit) ∧ AllStage shape c ∧ largestBlockSize c * den ≤ Lnum :=
  findMerge_safe ho hn hden hfit hperm

example : findMerge 12 1 [[1, 1, 1, 1, 1, 1], [6]] [[6], [1, 1, 1, 1, 1, 1]] [0] = .ok ([[2, 2, 2], [6]], true) := by rfl
example : isPermOf [0] (mergeCandidates [[1, 1, 1, 1, 1, 1], [6]] [[6], [1, 1, 1, 1, 1, 1]]) = true ∧
    largestBlockSize [[1, 1, 1, 1, 1, 1], [6]] * 1 ≤ 12 := by decide

/-- **merge_to_number_total**: for `max_number >= 1` and *any* chunks (zero-length ones included) `merge_to_number`
    returns.  It does not raise - `heappop` never meets an empty heap, `chunks[j]` never runs off the end,
    `chunks[i] + chunks[j]` never adds `None` (heap invariant `HInv`: every entry `(w, i, j)` has a live `i` that is not
    the last live chunk, everything strictly between `i` and `j` is merged away, left indices are pairwise distinct,
    every live chunk with a live chunk to its right owns an entry) - and the `while nmerges > 0` loop terminates: a
    re-insertion turns a stale entry into an accurate one, a merge lowers `nmerges` and leaves at most `len - 1` stale
    entries, so `nmerges * len + stale` steps suffice (within the model's fuel `(n + 2)^2`). -/
theorem merge_to_number_total (cs : List Nat) {M : Nat} (hM : 1 ≤ M) : ∃ r, mergeToNumberFull cs M = .ok r :=
  mergeToNumberFull_total cs hM

/-- **plan_rechunk_total** (with `plan_rechunk_never_raises` as its corollary): on valid chunkings of one shape
    (positive item size) the modelled `plan_rechunk` - `find_split_rechunk` (`assert len(c) <= max_number`, the
    divisions), `merge_to_number`, `find_merge_rechunk` (its two assertions, `divide_to_width`) - returns, for every
    threshold and byte limit: the only error left is an *observed* candidate order that does not fit the model (not a
    permutation of the candidates / too few orders), which the harness reports as a disagreement. -/
theorem plan_rechunk_total {shape : List Nat} {old new : List (List Nat)} {itemsize thr limitBytes : Nat}
    {orders : List (List Nat)} (ho : AllStage shape old) (hn : AllStage shape new) (hi : 0 < itemsize) :
    ∀ e, planRechunk old new itemsize thr limitBytes orders = .error e → e = .oracle := planRechunk_safe ho hn hi

theorem plan_rechunk_never_raises {shape : List Nat} {old new : List (List Nat)} {itemsize thr limitBytes : Nat}
    {orders : List (List Nat)} (ho : AllStage shape old) (hn : AllStage shape new) (hi : 0 < itemsize) :
    planRechunk old new itemsize thr limitBytes orders ≠ .error .raised := by
  intro h; cases planRechunk_safe ho hn hi _ h

/-- **plan_rechunk_stages_valid**: every stage of every plan `plan_rechunk` returns is a valid chunking of the
    array's shape and the last stage is the target - for every threshold, byte limit, item size and candidate
    order (the hypothesis of `plan_compose`, which was only checked at run time before). -/
theorem plan_rechunk_stages_valid {shape : List Nat} {old new : List (List Nat)} {itemsize thr limitBytes : Nat}
    {orders : List (List Nat)} {r : List (List (List Nat))} (ho : AllStage shape old) (hn : AllStage shape new)
    (h : planRechunk old new itemsize thr limitBytes orders = .ok r) :
    (∀ s ∈ r, AllStage shape s) ∧ r.getLast? = some new := planRechunk_valid ho hn h

/-- non-vacuity: a transposition-like 3-d rechunk under a tight limit (30 elements, threshold 2) is planned in three
    stages - a merge pass, then a split+merge pass - exactly as the real `plan_rechunk` does (observed orders
    `[2] [2] [2, 0]`), and the hypotheses hold for it -/
example : planRechunk [[4], [5, 5], [1, 1, 1, 1, 1]] [[1, 1, 1, 1], [6, 1, 1, 1, 1], [5]] 1 2 30 [[2], [2], [2, 0]] =
    .ok [[[2, 2], [5, 5], [2, 3]], [[1, 1, 1, 1], [5, 5], [5]], [[1, 1, 1, 1], [6, 1, 1, 1, 1], [5]]] := by rfl
example : AllStage [4, 10, 5] [[4], [5, 5], [1, 1, 1, 1, 1]] ∧ AllStage [4, 10, 5] [[1, 1, 1, 1], [6, 1, 1, 1, 1], [5]] := by
  simp [AllStage, StageOK, sum]

/-! ## Part 3: rechunk — `_breakpoints` / `_intersect_1d` / `old_to_new`, `_compute_rechunk`, multi-stage plans

`Good old 0 new plan` (Lemmas/ChunksRechunk.lean) says: `plan` has one group per new chunk, and the pieces
`(old_idx, slice(start, stop))` of group `j` are non-empty, lie inside their old chunk, and read consecutive global
ranges from `cumnew[j]` to `cumnew[j+1]`. -/

/-- **intersect1d_covers**: for *every* pair of positive chunkings of the same length the transliterated
    `_intersect_1d(_breakpoints(…))` returns a plan that covers each new chunk exactly (proved through an
    invariant of the state machine over the merged breakpoint list; no bound on sizes). -/
theorem intersect1d_covers {old new : List Nat} (hpo : ∀ c ∈ old, 0 < c) (hpn : ∀ c ∈ new, 0 < c)
    (hsum : sum old = sum new) (hne : old ≠ []) :
    ∃ plan, intersect1d old new = some plan ∧ plan.length = new.length ∧ Good old 0 new plan := by
  obtain ⟨plan, h1, h2⟩ := intersect1d_good hpo hpn hsum hne
  exact ⟨plan, h1, h2.length, h2⟩

/-- **rechunk_identity** / **rechunk_exact_chunks**: slicing the old blocks as the plan says and concatenating
    (what `_compute_rechunk` does) yields exactly the blocks of the *new* chunking of the same data: the requested
    chunks, unchanged values. -/
theorem rechunk_identity {α} {old new : List Nat} (xs : List α) (hpo : ∀ c ∈ old, 0 < c) (hpn : ∀ c ∈ new, 0 < c)
    (hsum : sum old = sum new) (hne : old ≠ []) :
    rechunk1d old new xs = some (splitBy new xs) := by
  obtain ⟨plan, h1, h2⟩ := intersect1d_good hpo hpn hsum hne
  unfold rechunk1d
  rw [h1, Option.map_some, good_values xs h2, List.drop_zero]

theorem rechunk_values_unchanged {α} {old new : List Nat} (xs : List α) (hpo : ∀ c ∈ old, 0 < c) (hpn : ∀ c ∈ new, 0 < c)
    (hsum : sum old = sum new) (hne : old ≠ []) (hlen : xs.length = sum old) :
    ∃ blocks, rechunk1d old new xs = some blocks ∧ blocks.flatten = xs ∧ blocks.length = new.length := by
  refine ⟨splitBy new xs, rechunk_identity xs hpo hpn hsum hne, splitBy_flatten new xs (by omega), ?_⟩
  clear hlen hsum hpn
  induction new generalizing xs with
  | nil => rfl
  | cons c cs ih => simp [splitBy, ih]

example : rechunk1d [2, 2, 1] [2, 3] [10, 11, 12, 13, 14] = some [[10, 11], [12, 13, 14]] := by
  simp [rechunk1d, intersect1d, cumsum0, cumsumFrom, merge, loop, step, finish, applyPlan, splitBy]
example : intersect1d [10, 10, 10, 10, 10] [25, 5, 20] =
    some [[⟨0, 0, 10⟩, ⟨1, 0, 10⟩, ⟨2, 0, 5⟩], [⟨2, 5, 10⟩], [⟨3, 0, 10⟩, ⟨4, 0, 10⟩]] := by
  simp [intersect1d, cumsum0, cumsumFrom, merge, loop, step, finish]

/- `StageOK n cs` (Lemmas/ChunksPlanLemmas.lean): a chunking the planner may use as a stage - non-empty, positive,
   of the axis' length `n`.  `AllStage shape chunks` (Lemmas/ChunksPlanStages.lean): one such chunking per dimension. -/

/-- **plan_compose**: whatever intermediate stages `plan_rechunk` chooses — as long as each is a valid chunking
    of the axis, which harness/props/c23.py checks on every real plan — executing the stages one after the other
    ends with the blocks of the last stage over the unchanged data. -/
theorem plan_compose {α} (xs : List α) : ∀ (cur : List Nat) (stages : List (List Nat)),
    StageOK xs.length cur → (∀ s ∈ stages, StageOK xs.length s) →
    runPlan cur (splitBy cur xs) stages = some (splitBy ((cur :: stages).getLast (by simp)) xs)
  | cur, [], _, _ => by simp [runPlan]
  | cur, nxt :: rest, hc, hs => by
    have hn := hs nxt (by simp)
    obtain ⟨plan, h1, h2⟩ := intersect1d_good hc.2.1 hn.2.1 (by rw [hc.2.2, hn.2.2]) hc.1
    have hv := good_values xs h2
    rw [List.drop_zero] at hv
    simp only [runPlan, h1, hv]
    rw [plan_compose xs nxt rest hn (fun s h => hs s (by simp [h]))]
    simp

example : runPlan [1, 1, 1, 1] (splitBy [1, 1, 1, 1] [5, 6, 7, 8]) [[2, 2], [3, 1], [4]] = some [[5, 6, 7, 8]] := by
  simp [runPlan, intersect1d, cumsum0, cumsumFrom, merge, loop, step, finish, applyPlan, splitBy]

/-- **plan_rechunk_exact**: executing the stages of the *modelled* `plan_rechunk` one after the other
    (`for c in steps: x = _compute_rechunk(x, c)`) along any axis `d` ends with exactly the requested chunks over the
    unchanged data - no hypothesis on the stages any more (they are valid by `plan_rechunk_stages_valid`). -/
theorem plan_rechunk_exact {α} {shape : List Nat} {old new : List (List Nat)} {itemsize thr limitBytes : Nat}
    {orders : List (List Nat)} {r : List (List (List Nat))} (ho : AllStage shape old) (hn : AllStage shape new)
    (h : planRechunk old new itemsize thr limitBytes orders = .ok r) (d n : Nat) (hd : shape[d]? = some n)
    (xs : List α) (hx : xs.length = n) :
    runPlan (old.getD d []) (splitBy (old.getD d []) xs) (r.map (·.getD d [])) = some (splitBy (new.getD d []) xs) := by
  obtain ⟨hs, hl⟩ := planRechunk_valid ho hn h
  obtain ⟨ini, rfl⟩ := List.getLast?_eq_some_iff.1 hl
  have hc : StageOK xs.length (old.getD d []) := hx ▸ AllStage.getD ho hd
  have hst : ∀ s ∈ (ini ++ [new]).map (·.getD d []), StageOK xs.length s := by
    intro s hs'
    obtain ⟨st, hm, rfl⟩ := List.mem_map.1 hs'
    exact hx ▸ AllStage.getD (hs st hm) hd
  rw [plan_compose xs _ _ hc hst]
  congr 2
  simp only [List.map_append, List.map_cons, List.map_nil]
  rw [List.getLast_cons (by simp)]; simp

/-! ## Part 4: element level, and n-d rechunk as the product of the per-axis plans

`planLocate plan j q` walks the pieces of new block `j` to the `(old block, offset)` its element `q` is read from.
`ndLocate` does that on every axis (`intersect_chunks` is the product of the per-axis plans; `getitem` with a tuple
of slices and `concatenate_shaped` act axis by axis - NumPy semantics, trusted and validated at API level).
`gidx chunks [(block, offset), …]` is the global index of an element. -/

/-- **rechunk_locate**: for positive chunkings of equal length, element `q` of new block `j` is read from inside an
    existing old block, at the same global position. -/
theorem rechunk_locate {old new : List Nat} (hpo : ∀ c ∈ old, 0 < c) (hpn : ∀ c ∈ new, 0 < c)
    (hsum : sum old = sum new) (hne : old ≠ []) :
    ∃ plan, intersect1d old new = some plan ∧ ∀ j q m, new[j]? = some m → q < m →
      ∃ i r c, planLocate plan j q = some (i, r) ∧ old[i]? = some c ∧ r < c ∧
        blockStart old i + r = blockStart new j + q := by
  obtain ⟨plan, h1, h2⟩ := intersect1d_good hpo hpn hsum hne
  refine ⟨plan, h1, ?_⟩
  intro j q m hj hq
  obtain ⟨i, r, c, a1, a2, a3, a4⟩ := planLocate_good new plan 0 j q m h2 hj hq
  exact ⟨i, r, c, a1, a2, a3, by omega⟩

example : (intersect1d [2, 2, 1] [2, 3]).map (fun p => planLocate p 1 2) = some (some (2, 0)) := by
  simp [intersect1d, cumsum0, cumsumFrom, merge, loop, step, finish, planLocate, locateIn]

/-- **rechunk_nd_exact**: for valid chunkings `olds`, `news` of one shape (any number of dimensions) `old_to_new`
    returns one plan per axis, and every element `(new block, offset)` of the rechunked array is read from an
    existing element of an old block with the *same global index* on every axis. -/
theorem rechunk_nd_exact {shape : List Nat} {olds news : List (List Nat)} (ho : AllStage shape olds)
    (hn : AllStage shape news) :
    ∃ plans, oldToNew olds news = some plans ∧ ∀ jqs, InBlock news jqs →
      ∃ irs, ndLocate plans jqs = some irs ∧ InBlock olds irs ∧ gidx olds irs = gidx news jqs := by
  obtain ⟨plans, h1, h2⟩ := oldToNew_plansFor shape olds news ho hn
  exact ⟨plans, h1, fun jqs hb => ndLocate_spec shape olds news plans jqs ho hn h2 hb⟩

/-- **rechunk_nd_values** (the statement's "exactly the requested chunks and unchanged values", n-d): view an array
    as a function of the global index; the blocks of a chunking hold `x (gidx chunks ·)`.  The element the rechunk
    graph puts at offset `qs` of new block `js` is the element of `x` that the *new* chunking has there. -/
theorem rechunk_nd_values {α} (x : List Nat → α) {shape : List Nat} {olds news : List (List Nat)}
    (ho : AllStage shape olds) (hn : AllStage shape news) :
    ∃ plans, oldToNew olds news = some plans ∧ ∀ jqs, InBlock news jqs →
      ∃ irs, ndLocate plans jqs = some irs ∧ InBlock olds irs ∧ x (gidx olds irs) = x (gidx news jqs) := by
  obtain ⟨plans, h1, h2⟩ := rechunk_nd_exact ho hn
  refine ⟨plans, h1, fun jqs hb => ?_⟩
  obtain ⟨irs, a1, a2, a3⟩ := h2 jqs hb
  exact ⟨irs, a1, a2, by rw [a3]⟩

example : (oldToNew [[2, 2], [3]] [[1, 3], [1, 2]]).map (fun p => ndLocate p [(1, 2), (1, 1)]) = some (some [(1, 1), (0, 2)]) := by
  simp [oldToNew, intersect1d, cumsum0, cumsumFrom, merge, loop, step, finish, ndLocate, planLocate, locateIn]
example : gidx [[2, 2], [3]] [(1, 1), (0, 2)] = gidx [[1, 3], [1, 2]] [(1, 2), (1, 1)] := by decide

end Dask.C23
