import DaskModel.Model.SDL
/-! # C45 — division planning never splits equal index values (theorems) -/
namespace Dask.C45
open Dask.SDL

/-- `bisectLeft` finds a boundary: everything before it is `< x`. -/
theorem bisectLeft_lt (xs : List Nat) (x : Nat) (j : Nat) (h : j < bisectLeft xs x) :
    ∃ v, xs[j]? = some v ∧ v < x := by
  unfold bisectLeft at h
  induction xs generalizing j with
  | nil => simp at h
  | cons a as ih =>
    simp only [List.takeWhile_cons] at h
    split at h
    · rename_i ha
      cases j with
      | zero => exact ⟨a, by simp, by simpa using ha⟩
      | succ j =>
        simp only [List.length_cons, Nat.add_lt_add_iff_right] at h
        obtain ⟨v, hv, hlt⟩ := ih j h
        exact ⟨v, by simpa using hv, hlt⟩
    · simp at h

/-- …and the element at the boundary (if any) is `≥ x`: no value equal to `x` lies before it. -/
theorem bisectLeft_ge (xs : List Nat) (x : Nat) (v : Nat) (h : xs[bisectLeft xs x]? = some v) : x ≤ v := by
  unfold bisectLeft at h
  induction xs with
  | nil => simp at h
  | cons a as ih =>
    simp only [List.takeWhile_cons] at h
    split at h
    · simp only [List.length_cons, List.getElem?_cons_succ] at h
      exact ih h
    · rename_i ha
      simp at h
      subst h
      simpa using ha

end Dask.C45
