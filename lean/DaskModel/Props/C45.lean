import DaskModel.Lemmas.SDL
import DaskModel.Lemmas.SDLExact
import DaskModel.Lemmas.SDLTotal
/-! # C45 — division planning never splits equal index values (theorems)

Model: `Dask.SDL.sdl` (`Model/SDL.lean`), a transliteration of
`dask.dataframe.io.io.sorted_division_locations`. `sdl seq m = none` models "Python raised"
(empty input, `npartitions = 0`, IndexError inside the loop) or fuel exhaustion. `sdl_total` shows that for a
sorted non-empty input and a valid mode an answer IS produced (no IndexError, fuel suffices), so the
"whenever an answer is produced" theorems below hold for **every** sorted non-empty input and both modes.
The invariant of the loop body (`Lemmas/SDL.lean`: `Inv`, `step_inv`, `loop_inv`) rests on two facts:
every entry of `offsets` is a first-occurrence position (`bisectLeft_mem`), and a sorted sequence
from which `sorted(set(seq))` drops nothing is strictly increasing (`strict_of_no_dup`).
-/
namespace Dask.C45
open Dask.SDL

/-- **Locations strictly increase from 0 to `len(seq)`.** -/
theorem sdl_locations_strict {seq : List Nat} {m : Mode} {divs locs : List Nat} (hs : Sorted seq)
    (h : sdl seq m = some (divs, locs)) :
    locs.head? = some 0 ∧ locs.getLast? = some seq.length ∧ locs.Pairwise (· < ·) := by
  obtain ⟨s, last, hinv, _, _, rfl⟩ := sdl_final hs h
  refine ⟨?_, ?_, ?_⟩
  · rw [List.head?_reverse]
    cases hl : s.locations with
    | nil => have := hinv.last0; rw [hl] at this; cases this
    | cons l ls => have := hinv.last0; rw [hl] at this; simpa [List.getLast?_cons_cons] using this
  · rw [List.getLast?_reverse]; rfl
  · rw [List.pairwise_reverse]
    refine List.pairwise_cons.mpr ⟨?_, hinv.dec⟩
    -- every recorded location indexes into `seq`
    intro l hl
    have hlen := hinv.val.length_eq
    obtain ⟨k, hk, rfl⟩ := List.getElem_of_mem hl
    have : ∀ {ds ls : List Nat}, All2 (fun d l => seq[l]? = some d) ds ls → ∀ l ∈ ls, l < seq.length := by
      intro ds ls hv
      induction hv with
      | nil => intro l hl; cases hl
      | cons hr _ ih =>
        intro l hl
        rcases List.mem_cons.mp hl with rfl | hl
        · exact (List.getElem?_eq_some_iff.mp hr).1
        · exact ih l hl
    exact this hinv.val _ hl

/-- **Each division is the value at its location**; the closing division (location `len(seq)`) is
    the last value. In particular `divisions` and `locations` have the same length. -/
theorem sdl_division_is_value_at_location {seq : List Nat} {m : Mode} {divs locs : List Nat}
    (hs : Sorted seq) (h : sdl seq m = some (divs, locs)) :
    All2 (fun d l => if l = seq.length then seq.getLast? = some d else seq[l]? = some d) divs locs := by
  obtain ⟨s, last, hinv, hlast, rfl, rfl⟩ := sdl_final hs h
  apply All2.reverse
  refine All2.cons (by simpa using hlast) ?_
  refine All2.imp ?_ hinv.val
  intro d l hdl
  have : l < seq.length := (List.getElem?_eq_some_iff.mp hdl).1
  rw [if_neg (by omega)]
  exact hdl

theorem sdl_lengths {seq : List Nat} {m : Mode} {divs locs : List Nat} (hs : Sorted seq)
    (h : sdl seq m = some (divs, locs)) : divs.length = locs.length :=
  (sdl_division_is_value_at_location hs h).length_eq

/-- the last division is the last value of the sequence -/
theorem sdl_last {seq : List Nat} {m : Mode} {divs locs : List Nat} (hs : Sorted seq)
    (h : sdl seq m = some (divs, locs)) : divs.getLast? = seq.getLast? := by
  obtain ⟨s, last, _, hlast, rfl, _⟩ := sdl_final hs h
  rw [List.getLast?_reverse, hlast]; rfl

/-- **Equal values never straddle a boundary**: at every interior boundary `l` the value before it
    is strictly smaller than the value at it (indeed every earlier value is: `FirstOcc`). -/
theorem sdl_no_straddle {seq : List Nat} {m : Mode} {divs locs : List Nat} (hs : Sorted seq)
    (h : sdl seq m = some (divs, locs)) :
    ∀ l ∈ locs, l ≠ 0 → l ≠ seq.length → ∃ a b, seq[l - 1]? = some a ∧ seq[l]? = some b ∧ a < b := by
  obtain ⟨s, last, hinv, _, _, rfl⟩ := sdl_final hs h
  intro l hl hl0 hlen
  simp only [List.mem_reverse, List.mem_cons] at hl
  rcases hl with hl | hl
  · exact absurd hl hlen
  · obtain ⟨v, hv, hbefore⟩ := hinv.first l hl hl0
    obtain ⟨w, hw, hwv⟩ := hbefore (l - 1) (by omega)
    exact ⟨w, v, hw, hv, hwv⟩

/-- stronger form used by C41: *every* value before an interior boundary is strictly smaller than
    the value at the boundary, so a partition `[l_i, l_{i+1})` holds exactly the half-open key range. -/
theorem sdl_boundary_first_occurrence {seq : List Nat} {m : Mode} {divs locs : List Nat} (hs : Sorted seq)
    (h : sdl seq m = some (divs, locs)) :
    ∀ l ∈ locs, l ≠ 0 → l ≠ seq.length → FirstOcc seq l := by
  obtain ⟨s, last, hinv, _, _, rfl⟩ := sdl_final hs h
  intro l hl hl0 hlen
  simp only [List.mem_reverse, List.mem_cons] at hl
  rcases hl with hl | hl
  · exact absurd hl hlen
  · exact hinv.first l hl hl0

/-- FULL STATEMENT of the fourth clause: with at least `n` distinct values `npartitions = n` is met exactly
    (and the function returns). Proved below (`sdl_exact_when_enough_unique`) for every sorted sequence. -/
def ExactWhenEnoughUniqueFullStatement : Prop :=
  ∀ (seq : List Nat) (n : Nat), Sorted seq → 1 ≤ n → n ≤ (dedupSorted seq).length →
    ∃ divs locs, sdl seq (.npartitions n) = some (divs, locs) ∧ locs.length = n + 1

/-- **closed form, duplicate-free sequences.** For a strictly increasing sequence and `1 ≤ n ≤ len` the
    function returns exactly `n` partitions at the ideal locations `j * (len / n) + min j (len % n)`
    (more than `sdl_exact_when_enough_unique` says: the locations themselves; `_partial` because the closed
    form only holds without duplicates). -/
theorem sdl_exact_when_enough_unique_partial (seq : List Nat) (n : Nat) (hstrict : seq.Pairwise (· < ·))
    (hn1 : 1 ≤ n) (hn : n ≤ seq.length) :
    ∃ divs locs, sdl seq (.npartitions n) = some (divs, locs) ∧ locs.length = n + 1 ∧
      locs = (List.range (n + 1)).map (prefixLoc (seq.length / n) (seq.length % n)) := by
  obtain ⟨divs, h⟩ := sdl_exact_nodup seq n hstrict hn1 hn
  exact ⟨divs, _, h, by simp, rfl⟩

/-- **Totality / termination in general.** For every sorted non-empty sequence and both modes (`npartitions ≥ 1`,
    any `chunksize` including 0) `sorted_division_locations` returns: no IndexError on `offsets[ind]` / `seq[i]`
    (also not in the `enforce_exact` step-back), and the loop finishes within the model's fuel — at most two
    iterations per appended boundary (measure `mu`, `step_progress`). -/
theorem sdl_total {seq : List Nat} {m : Mode} (hs : Sorted seq) (hne : seq ≠ [])
    (hm : guardMode m = some ()) : ∃ divs locs, sdl seq m = some (divs, locs) := by
  obtain ⟨s', last, _, h, _, _⟩ := sdl_run hs hne hm
  exact ⟨_, _, h⟩

/-- **Never more than `npartitions` partitions** (any sorted input, duplicates or not): the drift bookkeeping
    keeps the scan position at or beyond the ideal location of the next boundary, and the ideal location of
    boundary `n` is `len(seq)`. -/
theorem sdl_at_most_n {seq : List Nat} {n : Nat} {divs locs : List Nat} (hs : Sorted seq)
    (h : sdl seq (.npartitions n) = some (divs, locs)) : locs.length ≤ n + 1 := by
  have hne : seq ≠ [] := by
    intro he; subst he; simp [sdl] at h
  have hm : guardMode (.npartitions n) = some () := by
    cases n with
    | zero => simp [sdl, guardMode] at h
    | succ k => rfl
  obtain ⟨s', last, _, h', hg, _⟩ := sdl_run hs hne hm
  rw [h] at h'
  simp only [Option.some.injEq, Prod.mk.injEq] at h'
  obtain ⟨_, rfl⟩ := h'
  have hcount := hg.count rfl
  have hlen := hg.inv.val.length_eq
  simp only [nOf] at hcount
  simp only [List.length_reverse, List.length_cons]
  omega

/-- **`npartitions` is met exactly when there are at least that many distinct values** — the full fourth clause
    (`ExactWhenEnoughUniqueFullStatement`), with duplicates (`enforce_exact`: the step-back `ind -= divs_remain -
    offs_remain` keeps `divs_remain ≤ #unique values beyond the last division`, and the scan can only end once
    all `n` divisions are placed) and without (closed form above). Includes totality. -/
theorem sdl_exact_when_enough_unique : ExactWhenEnoughUniqueFullStatement := by
  intro seq n hs hn1 hn
  by_cases hdup : (dedupSorted seq).length < seq.length
  · have hne : seq ≠ [] := by
      intro he; subst he; simp at hdup
    have hm : guardMode (.npartitions n) = some () := by
      cases n with
      | zero => omega
      | succ k => rfl
    obtain ⟨s', last, _, h, hg, hi⟩ := sdl_run hs hne hm
    refine ⟨_, _, h, ?_⟩
    have hoff := (mkParams_dwf hs (.npartitions n)).offs_length (by simp [mkParams, hdup])
    have he : (mkParams seq (.npartitions n)).enforce = true := by
      have : (mkParams seq (.npartitions n)).enforce =
        ((mkParams seq (.npartitions n)).dup && decide (n ≤ (mkParams seq (.npartitions n)).offsets.length)) := rfl
      rw [this, hoff]
      simp [mkParams, hdup, hn]
    have hdone := hg.done he (by omega)
    obtain ⟨hr, _, _⟩ := hg.rem he
    have hlen := hg.inv.val.length_eq
    simp only [nOf] at hr
    simp only [List.length_reverse, List.length_cons]
    omega
  · have hstrict := strict_of_no_dup hs hdup
    have hle := (dedupSorted_sublist seq).length_le
    obtain ⟨divs, locs, h, hl, _⟩ := sdl_exact_when_enough_unique_partial seq n hstrict hn1 (by omega)
    exact ⟨divs, locs, h, hl⟩

example : sdl [1, 3, 4, 7, 9, 12, 20] (.npartitions 3) = some ([1, 7, 12, 20], [0, 3, 5, 7]) := by decide
example : (List.range 4).map (prefixLoc (7 / 3) (7 % 3)) = [0, 3, 5, 7] := by decide

/-! ### non-vacuity: concrete sorted inputs with duplicates on which `sdl` answers -/

example : sdl [0, 0, 1, 1, 1, 1, 2, 2, 4, 5, 5, 5, 5] (.npartitions 4) =
    some ([0, 1, 2, 5, 5], [0, 2, 6, 9, 13]) := by decide
example : sdl [0, 0, 0, 0, 1, 1, 1, 2] (.chunksize 3) = some ([0, 1, 2, 2], [0, 4, 7, 8]) := by decide
example : Sorted [0, 0, 1, 1, 1, 1, 2, 2, 4, 5, 5, 5, 5] := by unfold Sorted; decide
-- `sdl_exact_when_enough_unique` with duplicates: 5 distinct values, n = 5 forces the step-back branch
example : (dedupSorted [0, 0, 1, 1, 1, 1, 2, 2, 4, 5, 5, 5, 5]).length = 5 := by decide
example : sdl [0, 0, 1, 1, 1, 1, 2, 2, 4, 5, 5, 5, 5] (.npartitions 5) =
    some ([0, 1, 2, 4, 5, 5], [0, 2, 6, 8, 9, 13]) := by decide
-- … and an input on which the step-back really happens (`i = 3`, `ind = 2`, 2 unique values left, 3 divisions wanted)
example : sdl [0, 1, 2, 2, 2, 2, 2, 2, 2, 3] (.npartitions 4) = some ([0, 1, 2, 3, 3], [0, 1, 2, 9, 10]) := by decide
example : sdlStats [0, 1, 2, 2, 2, 2, 2, 2, 2, 3] (.npartitions 4) = some (4, 1) := by decide
-- `sdl_at_most_n` is not vacuous when there are fewer distinct values than requested partitions
example : sdl [0, 0, 0, 1, 1, 1] (.npartitions 4) = some ([0, 1, 1], [0, 3, 6]) := by decide
-- `sdl_total`: guard and hypotheses are satisfiable in both modes (also `chunksize = 0`)
example : guardMode (.npartitions 3) = some () ∧ guardMode (.chunksize 0) = some () := by decide
example : sdl [0, 0, 1] (.chunksize 0) = some ([0, 1, 1], [0, 2, 3]) := by decide

end Dask.C45
