import DaskModel.Lemmas.SDL
import DaskModel.Lemmas.SDLExact
/-! # C45 — division planning never splits equal index values (theorems)

Model: `Dask.SDL.sdl` (`Model/SDL.lean`), a transliteration of
`dask.dataframe.io.io.sorted_division_locations`. `sdl seq m = none` models "Python raised"
(empty input, `npartitions = 0`, IndexError inside the loop) or fuel exhaustion; the theorems below
hold for **every** sorted input and both modes whenever an answer is produced.
The invariant of the loop body (`Lemmas/SDL.lean`: `Inv`, `step_inv`, `loop_inv`) rests on two facts:
every entry of `offsets` is a first-occurrence position (`bisectLeft_mem`), and a sorted sequence
from which `sorted(set(seq))` drops nothing is strictly increasing (`strict_of_no_dup`).
-/
namespace Dask.C45
open Dask.SDL

/-- **Locations strictly increase from 0 to `len(seq)`.** -/
theorem sdl_locations_strict {seq : List Nat} {m : Mode} {divs locs : List Nat} (hs : Sorted seq)
    (h : sdl seq m = some (divs, locs)) :
    locs.head? = some 0 ∧ locs.getLast? = some seq.length ∧ locs.Pairwise (· < ·) := by
  obtain ⟨s, last, hinv, _, _, rfl⟩ := sdl_final hs h
  refine ⟨?_, ?_, ?_⟩
  · rw [List.head?_reverse]
    cases hl : s.locations with
    | nil => have := hinv.last0; rw [hl] at this; cases this
    | cons l ls => have := hinv.last0; rw [hl] at this; simpa [List.getLast?_cons_cons] using this
  · rw [List.getLast?_reverse]; rfl
  · rw [List.pairwise_reverse]
    refine List.pairwise_cons.mpr ⟨?_, hinv.dec⟩
    -- every recorded location indexes into `seq`
    intro l hl
    have hlen := hinv.val.length_eq
    obtain ⟨k, hk, rfl⟩ := List.getElem_of_mem hl
    have : ∀ {ds ls : List Nat}, All2 (fun d l => seq[l]? = some d) ds ls → ∀ l ∈ ls, l < seq.length := by
      intro ds ls hv
      induction hv with
      | nil => intro l hl; cases hl
      | cons hr _ ih =>
        intro l hl
        rcases List.mem_cons.mp hl with rfl | hl
        · exact (List.getElem?_eq_some_iff.mp hr).1
        · exact ih l hl
    exact this hinv.val _ hl

/-- **Each division is the value at its location**; the closing division (location `len(seq)`) is
    the last value. In particular `divisions` and `locations` have the same length. -/
theorem sdl_division_is_value_at_location {seq : List Nat} {m : Mode} {divs locs : List Nat}
    (hs : Sorted seq) (h : sdl seq m = some (divs, locs)) :
    All2 (fun d l => if l = seq.length then seq.getLast? = some d else seq[l]? = some d) divs locs := by
  obtain ⟨s, last, hinv, hlast, rfl, rfl⟩ := sdl_final hs h
  apply All2.reverse
  refine All2.cons (by simpa using hlast) ?_
  refine All2.imp ?_ hinv.val
  intro d l hdl
  have : l < seq.length := (List.getElem?_eq_some_iff.mp hdl).1
  rw [if_neg (by omega)]
  exact hdl

theorem sdl_lengths {seq : List Nat} {m : Mode} {divs locs : List Nat} (hs : Sorted seq)
    (h : sdl seq m = some (divs, locs)) : divs.length = locs.length :=
  (sdl_division_is_value_at_location hs h).length_eq

/-- the last division is the last value of the sequence -/
theorem sdl_last {seq : List Nat} {m : Mode} {divs locs : List Nat} (hs : Sorted seq)
    (h : sdl seq m = some (divs, locs)) : divs.getLast? = seq.getLast? := by
  obtain ⟨s, last, _, hlast, rfl, _⟩ := sdl_final hs h
  rw [List.getLast?_reverse, hlast]; rfl

/-- **Equal values never straddle a boundary**: at every interior boundary `l` the value before it
    is strictly smaller than the value at it (indeed every earlier value is: `FirstOcc`). -/
theorem sdl_no_straddle {seq : List Nat} {m : Mode} {divs locs : List Nat} (hs : Sorted seq)
    (h : sdl seq m = some (divs, locs)) :
    ∀ l ∈ locs, l ≠ 0 → l ≠ seq.length → ∃ a b, seq[l - 1]? = some a ∧ seq[l]? = some b ∧ a < b := by
  obtain ⟨s, last, hinv, _, _, rfl⟩ := sdl_final hs h
  intro l hl hl0 hlen
  simp only [List.mem_reverse, List.mem_cons] at hl
  rcases hl with hl | hl
  · exact absurd hl hlen
  · obtain ⟨v, hv, hbefore⟩ := hinv.first l hl hl0
    obtain ⟨w, hw, hwv⟩ := hbefore (l - 1) (by omega)
    exact ⟨w, v, hw, hv, hwv⟩

/-- stronger form used by C41: *every* value before an interior boundary is strictly smaller than
    the value at the boundary, so a partition `[l_i, l_{i+1})` holds exactly the half-open key range. -/
theorem sdl_boundary_first_occurrence {seq : List Nat} {m : Mode} {divs locs : List Nat} (hs : Sorted seq)
    (h : sdl seq m = some (divs, locs)) :
    ∀ l ∈ locs, l ≠ 0 → l ≠ seq.length → FirstOcc seq l := by
  obtain ⟨s, last, hinv, _, _, rfl⟩ := sdl_final hs h
  intro l hl hl0 hlen
  simp only [List.mem_reverse, List.mem_cons] at hl
  rcases hl with hl | hl
  · exact absurd hl hlen
  · exact hinv.first l hl hl0

/-- FULL STATEMENT of the fourth clause: with at least `n` distinct values `npartitions = n` is met exactly
    (and the function returns). Proved below for the duplicate-free case; with duplicates (`enforce_exact`
    branch: the step-back arithmetic on `offsets`) it is validated exhaustively by the tie only. -/
def ExactWhenEnoughUniqueFullStatement : Prop :=
  ∀ (seq : List Nat) (n : Nat), Sorted seq → 1 ≤ n → n ≤ (dedupSorted seq).length →
    ∃ divs locs, sdl seq (.npartitions n) = some (divs, locs) ∧ locs.length = n + 1

/-- **`npartitions` met exactly — `_partial`: duplicate-free sequences.** For a strictly increasing sequence
    and `1 ≤ n ≤ len` the function returns (no IndexError; the model's fuel suffices) exactly `n` partitions,
    at the ideal locations `j * (len / n) + min j (len % n)`. -/
theorem sdl_exact_when_enough_unique_partial (seq : List Nat) (n : Nat) (hstrict : seq.Pairwise (· < ·))
    (hn1 : 1 ≤ n) (hn : n ≤ seq.length) :
    ∃ divs locs, sdl seq (.npartitions n) = some (divs, locs) ∧ locs.length = n + 1 ∧
      locs = (List.range (n + 1)).map (prefixLoc (seq.length / n) (seq.length % n)) := by
  obtain ⟨divs, h⟩ := sdl_exact_nodup seq n hstrict hn1 hn
  exact ⟨divs, _, h, by simp, rfl⟩

example : sdl [1, 3, 4, 7, 9, 12, 20] (.npartitions 3) = some ([1, 7, 12, 20], [0, 3, 5, 7]) := by decide
example : (List.range 4).map (prefixLoc (7 / 3) (7 % 3)) = [0, 3, 5, 7] := by decide

/-! ### non-vacuity: concrete sorted inputs with duplicates on which `sdl` answers -/

example : sdl [0, 0, 1, 1, 1, 1, 2, 2, 4, 5, 5, 5, 5] (.npartitions 4) =
    some ([0, 1, 2, 5, 5], [0, 2, 6, 9, 13]) := by decide
example : sdl [0, 0, 0, 0, 1, 1, 1, 2] (.chunksize 3) = some ([0, 1, 2, 2], [0, 4, 7, 8]) := by decide
example : Sorted [0, 0, 1, 1, 1, 1, 2, 2, 4, 5, 5, 5, 5] := by unfold Sorted; decide

end Dask.C45
