import DaskModel.Model.TaskCache
import DaskModel.Props.C11
/-!
# C11 (stateful part) — a cached token is always the token of the node's current fields

`Task._get_token` caches its result in `_token`; `hash`, `==`, `tokenize` and set membership all read it.
Objects derived by `substitute`, `copy` and pickling must therefore never carry a token computed from other fields.

Full statement: along every history of `force` (ask for the token), `substitute` (rewiring of dependencies),
`copy` / renaming and pickle round trips, starting from freshly constructed nodes, what the code answers for the
token (`nfC`) is the token recomputed from the node's current fields (`nodeNF ∘ erase`) — `cached_token_sound`,
`history_token_sound`.  Together with `node_identity_sound` this gives: derived nodes that compare equal evaluate
alike (`derived_nodes_sound`), and `substitute` evaluates like the original under the substituted environment
(`substN_eval`).
-/
namespace Dask.C11
open Dask.NF Dask.TaskNode

mutual
/-- every filled cache holds the token of the current fields -/
def cacheOK : CNode → Prop
  | .task f args kws cache =>
    (∀ t, cache = some t → t = nodeNF (erase (.task f args kws cache))) ∧ cacheOKL args ∧ cacheOKKw kws
  | .cont _ args => cacheOKL args
  | .dict items => cacheOKP items
  | _ => True
def cacheOKL : List CNode → Prop
  | [] => True
  | a :: as => cacheOK a ∧ cacheOKL as
def cacheOKKw : List (String × CNode) → Prop
  | [] => True
  | (_, v) :: r => cacheOK v ∧ cacheOKKw r
def cacheOKP : List (CNode × CNode) → Prop
  | [] => True
  | (k, v) :: r => cacheOK k ∧ cacheOK v ∧ cacheOKP r
end

mutual
/-- **What the code answers for the token is the token of the node's current fields.** -/
theorem cached_token_sound : ∀ c : CNode, cacheOK c → nfC c = nodeNF (erase c)
  | .lit _, _ => rfl
  | .ref _, _ => rfl
  | .alias _ _, _ => rfl
  | .data _, _ => rfl
  | .task f args kws cache, h => by
    simp only [cacheOK] at h
    cases cache with
    | some t => simp only [nfC]; exact h.1 t rfl
    | none =>
      simp only [nfC, erase, nodeNF]
      rw [nfCL_sound args h.2.1, kwC_sound kws h.2.2]
  | .cont k args, h => by
    simp only [cacheOK] at h
    cases k <;> simp only [nfC, erase, nodeNF, tokensC_sound args h]
  | .dict items, h => by
    simp only [cacheOK] at h
    simp only [nfC, erase, nodeNF, pairTokensC_sound items h]
theorem nfCL_sound : ∀ cs : List CNode, cacheOKL cs → nfCL cs = nodeNFL (eraseL cs)
  | [], _ => rfl
  | a :: as, h => by
    simp only [cacheOKL] at h
    simp only [nfCL, eraseL, nodeNFL, cached_token_sound a h.1, nfCL_sound as h.2]
theorem tokensC_sound : ∀ cs : List CNode, cacheOKL cs → tokensC cs = tokensL (eraseL cs)
  | [], _ => rfl
  | a :: as, h => by
    simp only [cacheOKL] at h
    simp only [tokensC, eraseL, tokensL, cached_token_sound a h.1, tokensC_sound as h.2]
theorem kwC_sound : ∀ kws : List (String × CNode), cacheOKKw kws → kwC kws = kwNF (eraseKw kws)
  | [], _ => rfl
  | (k, v) :: r, h => by
    simp only [cacheOKKw] at h
    simp only [kwC, eraseKw, kwNF, cached_token_sound v h.1, kwC_sound r h.2]
theorem pairTokensC_sound : ∀ ps : List (CNode × CNode), cacheOKP ps → pairTokensC ps = pairTokens (eraseP ps)
  | [], _ => rfl
  | (k, v) :: r, h => by
    simp only [cacheOKP] at h
    simp only [pairTokensC, eraseP, pairTokens, cached_token_sound k h.1, cached_token_sound v h.2.1,
      pairTokensC_sound r h.2.2]
end

/-! ## every way of obtaining a node keeps the invariant -/

mutual
theorem fresh_ok : ∀ n : Node, cacheOK (fresh n) ∧ erase (fresh n) = n
  | .lit _ => ⟨trivial, rfl⟩
  | .ref _ => ⟨trivial, rfl⟩
  | .alias _ _ => ⟨trivial, rfl⟩
  | .data _ => ⟨trivial, rfl⟩
  | .task f args kws => by
    obtain ⟨h1, e1⟩ := freshL_ok args
    obtain ⟨h2, e2⟩ := freshKw_ok kws
    exact ⟨by simp only [fresh, cacheOK]; exact ⟨(by intro t ht; cases ht), h1, h2⟩, by simp only [fresh, erase, e1, e2]⟩
  | .cont k args => by
    obtain ⟨h1, e1⟩ := freshL_ok args
    exact ⟨by simpa only [fresh, cacheOK] using h1, by simp only [fresh, erase, e1]⟩
  | .dict items => by
    obtain ⟨h1, e1⟩ := freshP_ok items
    exact ⟨by simpa only [fresh, cacheOK] using h1, by simp only [fresh, erase, e1]⟩
theorem freshL_ok : ∀ ns : List Node, cacheOKL (freshL ns) ∧ eraseL (freshL ns) = ns
  | [] => ⟨trivial, rfl⟩
  | a :: as => by
    obtain ⟨h1, e1⟩ := fresh_ok a
    obtain ⟨h2, e2⟩ := freshL_ok as
    exact ⟨⟨h1, h2⟩, by simp only [freshL, eraseL, e1, e2]⟩
theorem freshKw_ok : ∀ ns : List (String × Node), cacheOKKw (freshKw ns) ∧ eraseKw (freshKw ns) = ns
  | [] => ⟨trivial, rfl⟩
  | (k, v) :: r => by
    obtain ⟨h1, e1⟩ := fresh_ok v
    obtain ⟨h2, e2⟩ := freshKw_ok r
    exact ⟨⟨h1, h2⟩, by simp only [freshKw, eraseKw, e1, e2]⟩
theorem freshP_ok : ∀ ns : List (Node × Node), cacheOKP (freshP ns) ∧ eraseP (freshP ns) = ns
  | [] => ⟨trivial, rfl⟩
  | (k, v) :: r => by
    obtain ⟨h1, e1⟩ := fresh_ok k
    obtain ⟨h2, e2⟩ := fresh_ok v
    obtain ⟨h3, e3⟩ := freshP_ok r
    exact ⟨⟨h1, h2, h3⟩, by simp only [freshP, eraseP, e1, e2, e3]⟩
end

mutual
/-- asking for the token fills caches with correct tokens and changes no field -/
theorem force_ok : ∀ c : CNode, cacheOK c → cacheOK (forceC c) ∧ erase (forceC c) = erase c
  | .lit _, _ => ⟨trivial, rfl⟩
  | .ref _, _ => ⟨trivial, rfl⟩
  | .alias _ _, _ => ⟨trivial, rfl⟩
  | .data _, _ => ⟨trivial, rfl⟩
  | .task f args kws cache, h => by
    cases cache with
    | some t => exact ⟨by simpa only [forceC] using h, rfl⟩
    | none =>
      simp only [cacheOK] at h
      obtain ⟨h1, e1⟩ := forceL_ok args h.2.1
      obtain ⟨h2, e2⟩ := forceKw_ok kws h.2.2
      refine ⟨?_, by simp only [forceC, erase, e1, e2]⟩
      simp only [forceC, cacheOK]
      refine ⟨?_, h1, h2⟩
      intro t ht
      simp only [Option.some.injEq] at ht
      rw [← ht, cached_token_sound (.task f args kws none) (by simp only [cacheOK]; exact ⟨(by intro t ht; cases ht), h.2.1, h.2.2⟩)]
      simp only [erase, e1, e2]
  | .cont k args, h => by
    simp only [cacheOK] at h
    obtain ⟨h1, e1⟩ := forceL_ok args h
    exact ⟨by simpa only [forceC, cacheOK] using h1, by simp only [forceC, erase, e1]⟩
  | .dict items, h => by
    simp only [cacheOK] at h
    obtain ⟨h1, e1⟩ := forceP_ok items h
    exact ⟨by simpa only [forceC, cacheOK] using h1, by simp only [forceC, erase, e1]⟩
theorem forceL_ok : ∀ cs : List CNode, cacheOKL cs → cacheOKL (forceCL cs) ∧ eraseL (forceCL cs) = eraseL cs
  | [], _ => ⟨trivial, rfl⟩
  | a :: as, h => by
    simp only [cacheOKL] at h
    obtain ⟨h1, e1⟩ := force_ok a h.1
    obtain ⟨h2, e2⟩ := forceL_ok as h.2
    exact ⟨⟨h1, h2⟩, by simp only [forceCL, eraseL, e1, e2]⟩
theorem forceKw_ok : ∀ cs : List (String × CNode), cacheOKKw cs → cacheOKKw (forceCKw cs) ∧ eraseKw (forceCKw cs) = eraseKw cs
  | [], _ => ⟨trivial, rfl⟩
  | (k, v) :: r, h => by
    simp only [cacheOKKw] at h
    obtain ⟨h1, e1⟩ := force_ok v h.1
    obtain ⟨h2, e2⟩ := forceKw_ok r h.2
    exact ⟨⟨h1, h2⟩, by simp only [forceCKw, eraseKw, e1, e2]⟩
theorem forceP_ok : ∀ cs : List (CNode × CNode), cacheOKP cs → cacheOKP (forceCP cs) ∧ eraseP (forceCP cs) = eraseP cs
  | [], _ => ⟨trivial, rfl⟩
  | (k, v) :: r, h => by
    simp only [cacheOKP] at h
    obtain ⟨h1, e1⟩ := force_ok k h.1
    obtain ⟨h2, e2⟩ := force_ok v h.2.1
    obtain ⟨h3, e3⟩ := forceP_ok r h.2.2
    exact ⟨⟨h1, h2, h3⟩, by simp only [forceCP, eraseP, e1, e2, e3]⟩
end

mutual
/-- a node no dependency of which is hit is left unchanged by the substitution -/
theorem substN_noHit (hit : Val → Bool) (new : Val → Val) : ∀ c : CNode, anyHit hit c = false →
    substN hit new (erase c) = erase c
  | .lit _, _ => rfl
  | .ref k, h => by simp only [anyHit] at h; simp [erase, substN, h]
  | .alias k t, h => by simp only [anyHit] at h; simp [erase, substN, h]
  | .data _, _ => rfl
  | .task f args kws cache, h => by
    simp only [anyHit, Bool.or_eq_false_iff] at h
    simp only [erase, substN, substNL_noHit hit new args h.1, substNKw_noHit hit new kws h.2]
  | .cont k args, h => by
    simp only [anyHit] at h
    simp only [erase, substN, substNL_noHit hit new args h]
  | .dict items, h => by
    simp only [anyHit] at h
    simp only [erase, substN, substNP_noHit hit new items h]
theorem substNL_noHit (hit : Val → Bool) (new : Val → Val) : ∀ cs : List CNode, anyHitL hit cs = false →
    substNL hit new (eraseL cs) = eraseL cs
  | [], _ => rfl
  | a :: as, h => by
    simp only [anyHitL, Bool.or_eq_false_iff] at h
    simp only [eraseL, substNL, substN_noHit hit new a h.1, substNL_noHit hit new as h.2]
theorem substNKw_noHit (hit : Val → Bool) (new : Val → Val) : ∀ cs : List (String × CNode), anyHitKw hit cs = false →
    substNKw hit new (eraseKw cs) = eraseKw cs
  | [], _ => rfl
  | (k, v) :: r, h => by
    simp only [anyHitKw, Bool.or_eq_false_iff] at h
    simp only [eraseKw, substNKw, substN_noHit hit new v h.1, substNKw_noHit hit new r h.2]
theorem substNP_noHit (hit : Val → Bool) (new : Val → Val) : ∀ cs : List (CNode × CNode), anyHitP hit cs = false →
    substNP hit new (eraseP cs) = eraseP cs
  | [], _ => rfl
  | (k, v) :: r, h => by
    simp only [anyHitP, Bool.or_eq_false_iff] at h
    simp only [eraseP, substNP, substN_noHit hit new k h.1.1, substN_noHit hit new v h.1.2, substNP_noHit hit new r h.2]
end

mutual
/-- `substitute` keeps the invariant (a rebuilt task starts without a token, an untouched one keeps a token that is
    still right) and acts on the fields as the plain substitution -/
theorem subst_ok (hit : Val → Bool) (new : Val → Val) : ∀ c : CNode, cacheOK c →
    cacheOK (substC hit new c) ∧ erase (substC hit new c) = substN hit new (erase c)
  | .lit _, _ => ⟨trivial, rfl⟩
  | .ref k, _ => by
    simp only [substC, erase, substN]
    split <;> exact ⟨trivial, rfl⟩
  | .alias k t, _ => by
    simp only [substC, erase, substN]
    split <;> exact ⟨trivial, rfl⟩
  | .data _, _ => ⟨trivial, rfl⟩
  | .task f args kws cache, h => by
    simp only [substC]
    split
    · simp only [cacheOK] at h
      obtain ⟨h1, e1⟩ := substL_ok hit new args h.2.1
      obtain ⟨h2, e2⟩ := substKw_ok hit new kws h.2.2
      exact ⟨by simp only [cacheOK]; exact ⟨(by intro t ht; cases ht), h1, h2⟩, by simp only [erase, substN, e1, e2]⟩
    · rename_i hno
      refine ⟨h, ?_⟩
      have : anyHit hit (.task f args kws cache) = false := by
        simp only [anyHit]
        cases hh : (anyHitL hit args || anyHitKw hit kws) with
        | false => rfl
        | true => exact absurd hh hno
      exact (substN_noHit hit new _ this).symm
  | .cont k args, h => by
    simp only [substC]
    split
    · simp only [cacheOK] at h
      obtain ⟨h1, e1⟩ := substL_ok hit new args h
      exact ⟨by simpa only [cacheOK] using h1, by simp only [erase, substN, e1]⟩
    · rename_i hno
      refine ⟨h, ?_⟩
      have : anyHit hit (.cont k args) = false := by
        simp only [anyHit]
        cases hh : anyHitL hit args with
        | false => rfl
        | true => exact absurd hh hno
      exact (substN_noHit hit new _ this).symm
  | .dict items, h => by
    simp only [substC]
    split
    · simp only [cacheOK] at h
      obtain ⟨h1, e1⟩ := substP_ok hit new items h
      exact ⟨by simpa only [cacheOK] using h1, by simp only [erase, substN, e1]⟩
    · rename_i hno
      refine ⟨h, ?_⟩
      have : anyHit hit (.dict items) = false := by
        simp only [anyHit]
        cases hh : anyHitP hit items with
        | false => rfl
        | true => exact absurd hh hno
      exact (substN_noHit hit new _ this).symm
theorem substL_ok (hit : Val → Bool) (new : Val → Val) : ∀ cs : List CNode, cacheOKL cs →
    cacheOKL (substCL hit new cs) ∧ eraseL (substCL hit new cs) = substNL hit new (eraseL cs)
  | [], _ => ⟨trivial, rfl⟩
  | a :: as, h => by
    simp only [cacheOKL] at h
    obtain ⟨h1, e1⟩ := subst_ok hit new a h.1
    obtain ⟨h2, e2⟩ := substL_ok hit new as h.2
    exact ⟨⟨h1, h2⟩, by simp only [substCL, eraseL, substNL, e1, e2]⟩
theorem substKw_ok (hit : Val → Bool) (new : Val → Val) : ∀ cs : List (String × CNode), cacheOKKw cs →
    cacheOKKw (substCKw hit new cs) ∧ eraseKw (substCKw hit new cs) = substNKw hit new (eraseKw cs)
  | [], _ => ⟨trivial, rfl⟩
  | (k, v) :: r, h => by
    simp only [cacheOKKw] at h
    obtain ⟨h1, e1⟩ := subst_ok hit new v h.1
    obtain ⟨h2, e2⟩ := substKw_ok hit new r h.2
    exact ⟨⟨h1, h2⟩, by simp only [substCKw, eraseKw, substNKw, e1, e2]⟩
theorem substP_ok (hit : Val → Bool) (new : Val → Val) : ∀ cs : List (CNode × CNode), cacheOKP cs →
    cacheOKP (substCP hit new cs) ∧ eraseP (substCP hit new cs) = substNP hit new (eraseP cs)
  | [], _ => ⟨trivial, rfl⟩
  | (k, v) :: r, h => by
    simp only [cacheOKP] at h
    obtain ⟨h1, e1⟩ := subst_ok hit new k h.1
    obtain ⟨h2, e2⟩ := subst_ok hit new v h.2.1
    obtain ⟨h3, e3⟩ := substP_ok hit new r h.2.2
    exact ⟨⟨h1, h2, h3⟩, by simp only [substCP, eraseP, substNP, e1, e2, e3]⟩
end

theorem copy_ok : ∀ c : CNode, cacheOK c → cacheOK (copyC c) ∧ erase (copyC c) = erase c
  | .task f args kws cache, h => by
    simp only [cacheOK] at h
    exact ⟨by simp only [copyC, cacheOK]; exact ⟨(by intro t ht; cases ht), h.2.1, h.2.2⟩, rfl⟩
  | .lit _, h => ⟨h, rfl⟩
  | .ref _, h => ⟨h, rfl⟩
  | .alias _ _, h => ⟨h, rfl⟩
  | .data _, h => ⟨h, rfl⟩
  | .cont _ _, h => ⟨h, rfl⟩
  | .dict _, h => ⟨h, rfl⟩

theorem step_ok (op : Op) (c : CNode) (h : cacheOK c) : cacheOK (step op c) := by
  cases op with
  | force => exact (force_ok c h).1
  | subst hit new => exact (subst_ok hit new c h).1
  | copy => exact (copy_ok c h).1
  | pickle => exact h

/-- the invariant holds along every history -/
theorem history_cacheOK : ∀ (ops : List Op) (c : CNode), cacheOK c → cacheOK (run ops c)
  | [], _, h => h
  | op :: ops, c, h => history_cacheOK ops (step op c) (step_ok op c h)

/-- **After any history starting from a freshly built node, the token the code answers with is the token of the
    node's current fields.** -/
theorem history_token_sound (n : Node) (ops : List Op) :
    nfC (run ops (fresh n)) = nodeNF (erase (run ops (fresh n))) :=
  cached_token_sound _ (history_cacheOK ops _ (fresh_ok n).1)

/-! ## consequences for derived nodes -/

section
variable {V : Type} (S : Sem V) (hS : SemOK S) (env : Val → V) (henv : EnvOK env)
include hS henv

/-- two nodes obtained by arbitrary histories: if the code finds their tokens equal they evaluate alike -/
theorem derived_nodes_sound (n m : Node) (ops ops' : List Op)
    (ha : litsUser (erase (run ops (fresh n))) = true) (hb : litsUser (erase (run ops' (fresh m))) = true)
    (hk : keysDistinct S env (erase (run ops (fresh n))))
    (h : ObsEq (nfC (run ops (fresh n))) (nfC (run ops' (fresh m)))) :
    eval S env (erase (run ops (fresh n))) = eval S env (erase (run ops' (fresh m))) := by
  rw [history_token_sound, history_token_sound] at h
  exact node_identity_sound S hS env henv _ _ ha hb hk h

end

mutual
/-- `substitute` evaluates like the original node in the environment seen through the substitution -/
theorem substN_eval {V : Type} (S : Sem V) (env : Val → V) (hit : Val → Bool) (new : Val → Val) : ∀ n : Node,
    eval S env (substN hit new n) = eval S (fun k => if hit k then env (new k) else env k) n
  | .lit _ => rfl
  | .ref k => by
    simp only [substN]
    split <;> simp_all [eval]
  | .alias k t => by
    simp only [substN]
    split <;> simp_all [eval]
  | .data _ => rfl
  | .task f args kws => by
    simp only [substN, eval, substNL_eval S env hit new args, substNKw_eval S env hit new kws]
  | .cont k args => by
    cases k <;> simp only [substN, eval, substNL_eval S env hit new args]
  | .dict items => by
    simp only [substN, eval, substNP_eval S env hit new items]
theorem substNL_eval {V : Type} (S : Sem V) (env : Val → V) (hit : Val → Bool) (new : Val → Val) : ∀ ns : List Node,
    evalL S env (substNL hit new ns) = evalL S (fun k => if hit k then env (new k) else env k) ns
  | [] => rfl
  | a :: as => by simp only [substNL, evalL, substN_eval S env hit new a, substNL_eval S env hit new as]
theorem substNKw_eval {V : Type} (S : Sem V) (env : Val → V) (hit : Val → Bool) (new : Val → Val) :
    ∀ ns : List (String × Node),
    evalKw S env (substNKw hit new ns) = evalKw S (fun k => if hit k then env (new k) else env k) ns
  | [] => rfl
  | (k, v) :: r => by simp only [substNKw, evalKw, substN_eval S env hit new v, substNKw_eval S env hit new r]
theorem substNP_eval {V : Type} (S : Sem V) (env : Val → V) (hit : Val → Bool) (new : Val → Val) :
    ∀ ns : List (Node × Node),
    evalP S env (substNP hit new ns) = evalP S (fun k => if hit k then env (new k) else env k) ns
  | [] => rfl
  | (k, v) :: r => by
    simp only [substNP, evalP, substN_eval S env hit new k, substN_eval S env hit new v, substNP_eval S env hit new r]
end

/-! ## the invariant is not automatic: copying the cache onto a rewired task breaks it -/

/-- a `substitute` that hands the old token on to the rebuilt task (what the code must NOT do) -/
def substKeepToken (hit : Val → Bool) (new : Val → Val) : CNode → CNode
  | .task f args kws cache => .task f (substCL hit new args) (substCKw hit new kws) cache
  | n => substC hit new n

/-- with such a `substitute`, a task whose token was computed before the rewiring keeps answering with the token of
    its old dependencies: the rewired task and its template would compare equal while they read different keys -/
theorem stale_token_witness :
    let t := forceC (fresh (.task 0 [.ref (.str "x")] []))
    let t' := substKeepToken (fun k => k matches .str "x") (fun _ => .str "y") t
    nfC t' = nfC t ∧ nodeNF (erase t') ≠ nodeNF (erase t) ∧ ¬ cacheOK t' := by
  refine ⟨rfl, ?_, ?_⟩
  · simp [substKeepToken, forceC, forceCL, forceCKw, fresh, freshL, freshKw, erase, eraseL, eraseKw, substCL, substC,
      substCKw, nodeNF, nodeNFL]
  · intro h
    simp only [substKeepToken, forceC, fresh, freshL, freshKw, forceCL, forceCKw, substCL, substC, substCKw, cacheOK] at h
    have := h.1 _ rfl
    simp [nfC, nfCL, kwC, erase, eraseL, eraseKw, nodeNF, nodeNFL, kwNF] at this

end Dask.C11
