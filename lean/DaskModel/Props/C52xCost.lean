import DaskModel.Model.CacheCost
import DaskModel.Lemmas.SchedBasic
/-
C52 (extension) - the cost bookkeeping of `Cache` (`_pretask` / `_posttask` / `_finish`), until now validated only:
the duration handed to `cache.put` for a task is its own running time plus the largest duration recorded for one of
its dependencies in the same call (a critical-path length), hence at least its own time and at least the duration of
every dependency; exactly one `put` per posttask, in order; `_finish` forgets the call's times.
-/
namespace Dask.Diag
open Dask.Sched

theorem maxDur_ge (durs : Map Nat) : ∀ (deps : List Key) (d : Key), d ∈ deps → durOf durs d ≤ maxDur durs deps
  | [], _, h => by cases h
  | a :: l, d, h => by
    simp only [maxDur]
    rcases List.mem_cons.1 h with rfl | h'
    · exact Nat.le_max_left _ _
    · exact Nat.le_trans (maxDur_ge durs l d h') (Nat.le_max_right _ _)

/-- the maximum is attained: no dependencies (0) or the duration of one of them -/
theorem maxDur_attained (durs : Map Nat) : ∀ (deps : List Key),
    (deps = [] ∧ maxDur durs deps = 0) ∨ ∃ d ∈ deps, maxDur durs deps = durOf durs d
  | [] => .inl ⟨rfl, rfl⟩
  | a :: l => by
    right
    simp only [maxDur]
    rcases maxDur_attained durs l with ⟨_, h0⟩ | ⟨d, hd, he⟩
    · exact ⟨a, List.mem_cons_self .., by rw [h0]; exact Nat.max_eq_left (Nat.zero_le _)⟩
    · rcases Nat.le_total (durOf durs a) (maxDur durs l) with h | h
      · exact ⟨d, List.mem_cons_of_mem _ hd, by rw [Nat.max_eq_right h, he]⟩
      · exact ⟨a, List.mem_cons_self .., Nat.max_eq_left h⟩

/-- one `_posttask`: what is recorded and handed to `cache.put` -/
theorem costStep_post {s s' : CostSt} {k t : Nat} {deps : List Key} (h : costStep s (.post k t deps) = .ok s') :
    ∃ st, s.starts.get? k = some st ∧
      durOf s'.durs k = (t - st) + maxDur s.durs deps ∧
      s'.puts = s.puts ++ [(k, (t - st) + maxDur s.durs deps)] ∧
      s'.starts = s.starts ∧ (∀ j, j ≠ k → durOf s'.durs j = durOf s.durs j) := by
  unfold costStep at h
  cases hs : s.starts.get? k with
  | none => simp [hs] at h
  | some st =>
    simp only [hs, Except.ok.injEq] at h
    subst h
    refine ⟨st, rfl, ?_, rfl, rfl, ?_⟩
    · simp [durOf, Map.get?_set]
    · intro j hj
      have : ¬ k = j := fun e => hj e.symm
      simp [durOf, Map.get?_set, this]

/-- the recorded duration is at least the task's own running time and at least the duration of every dependency -/
theorem cost_ge_own_and_deps {s s' : CostSt} {k t : Nat} {deps : List Key} (h : costStep s (.post k t deps) = .ok s') :
    ∃ st, s.starts.get? k = some st ∧ t - st ≤ durOf s'.durs k ∧ ∀ d ∈ deps, durOf s.durs d ≤ durOf s'.durs k := by
  obtain ⟨st, h1, h2, -, -, -⟩ := costStep_post h
  refine ⟨st, h1, by omega, fun d hd => ?_⟩
  have := maxDur_ge s.durs deps d hd
  omega

/-- a `_posttask` without `_pretask` is a `KeyError` (never happens under the scheduler: C52.profiler_faithful's order) -/
theorem costStep_post_needs_pre (s : CostSt) (k t : Nat) (deps : List Key) (h : s.starts.get? k = none) :
    costStep s (.post k t deps) = .error (.keyError .result) := by
  simp [costStep, h]

/-- exactly one `cache.put` per posttask, in the order of the posttasks, none for pretask / finish -/
theorem costRun_puts : ∀ (evs : List CEv) (s s' : CostSt), costRun s evs = .ok s' →
    s'.puts.map (·.1) = s.puts.map (·.1) ++ evs.filterMap postKey
  | [], s, s', h => by simp [costRun] at h; subst h; simp
  | e :: rest, s, s', h => by
    unfold costRun at h
    cases hs : costStep s e with
    | error err => simp [hs] at h
    | ok s1 =>
      simp only [hs] at h
      have ih := costRun_puts rest s1 s' h
      rw [ih]
      cases e with
      | pre k t =>
        simp [costStep] at hs; subst hs
        show _ = _ ++ List.filterMap postKey rest
        rfl
      | finish =>
        simp [costStep] at hs; subst hs
        show _ = _ ++ List.filterMap postKey rest
        rfl
      | post k t deps =>
        obtain ⟨st, -, -, hp, -, -⟩ := costStep_post hs
        simp [hp, postKey]

/-- `_finish` forgets the times of the call: a later call starts from empty `starttimes` / `durations` -/
theorem costStep_finish (s : CostSt) : ∃ s', costStep s .finish = .ok s' ∧ s'.starts = [] ∧ s'.durs = [] ∧ s'.puts = s.puts :=
  ⟨_, rfl, rfl, rfl, rfl⟩

/-- chain `1 → 2` (2 depends on 1), own times 2 and 3: the put durations are 2 and 5 -/
example : (costRun {} [.pre 1 1, .post 1 3 [], .pre 2 4, .post 2 7 [1], .finish]).toOption.map (·.puts) = some [(1, 2), (2, 5)] := by
  decide

end Dask.Diag
