import DaskModel.Props.C46
import DaskModel.Model.OverlapTime
/-!
# C46 (time-based windows, review round)

`time_window_local_eq_global`: the timedelta branch of `MapOverlap` (`CreateOverlappingPartitions._layer` fast and slow
path, `_tail_timedelta`, `_combined_parts`, `overlap_chunk` with `before = prev_part_length`) computes every
`(t - W, t]`-local row function exactly as on the concatenated frame, for every partitioning with truthful divisions
(`Truthful`: partition `k` holds times in `[divs[k], divs[k+1])`, divisions nondecreasing). Rows need not be sorted inside
a partition; partitions may be empty or narrower than the window; the code never raises on this branch.
Centered windows / a timedelta `after` are not modelled (validated at API level only).
-/
namespace Dask.C46T
open Dask.Overlap Dask.OverlapTime

variable {α β : Type}

theorem twin_length (W : Int) (g : List (TRow α) → TRow α → β) (pre xs : List (TRow α)) :
    (twin W g pre xs).length = xs.length := by
  induction xs generalizing pre with
  | nil => rfl
  | cons x rest ih => simp [twin, ih]

theorem twin_append (W : Int) (g : List (TRow α) → TRow α → β) (pre xs ys : List (TRow α)) :
    twin W g pre (xs ++ ys) = twin W g pre xs ++ twin W g (pre ++ xs) ys := by
  induction xs generalizing pre with
  | nil => simp [twin]
  | cons x rest ih => simp [twin, ih, List.append_assoc]

theorem tctx_append (W t : Int) (a b : List (TRow α)) : tctx W t (a ++ b) = tctx W t a ++ tctx W t b := by
  simp [tctx, List.filter_append]

/-- only the rows of the preceding context inside the windows of the processed rows matter -/
theorem twin_ctx (W : Int) (g : List (TRow α) → TRow α → β) (xs : List (TRow α)) :
    ∀ (pre pre' : List (TRow α)), (∀ x ∈ xs, tctx W x.1 pre = tctx W x.1 pre') → twin W g pre xs = twin W g pre' xs := by
  induction xs with
  | nil => intros; rfl
  | cons x rest ih =>
    intro pre pre' h
    simp only [twin]
    rw [h x (by simp)]
    congr 1
    apply ih
    intro y hy
    rw [tctx_append, tctx_append, h y (by simp [hy])]

/-- `current.index.min()` is a lower bound of the partition's times -/
theorem tmin_le (cur : List (TRow α)) (m : Int) (h : tmin cur = some m) : ∀ x ∈ cur, m ≤ x.1 := by
  intro x hx
  unfold tmin at h
  exact (List.le_min?_iff h).1 (Int.le_refl _) x.1 (List.mem_map_of_mem hx)

theorem tmin_none (cur : List (TRow α)) (h : tmin cur = none) : cur = [] := by
  unfold tmin at h
  simpa using h


/-- the filter of `_tail_timedelta` applied once more, and then the window filter of a row of `cur` -/
theorem tctx_tailTime (W : Int) (cur : List (TRow α)) (sel : List (List (TRow α))) (x : TRow α) (hx : x ∈ cur) :
    tctx W x.1 (tailTime W cur [tailTime W cur sel]) = tctx W x.1 sel.flatten := by
  cases hm : tmin cur with
  | none => rw [tmin_none cur hm] at hx; cases hx
  | some m =>
    have hle := tmin_le cur m hm x hx
    simp only [tailTime, hm, tctx, List.map_cons, List.map_nil, List.flatten_cons, List.flatten_nil, List.append_nil,
      List.filter_filter]
    have hfl : ∀ ps : List (List (TRow α)), (ps.map (fun p => p.filter (fun r => decide (r.1 > m - W)))).flatten
        = ps.flatten.filter (fun r => decide (r.1 > m - W)) := by
      intro ps
      induction ps with
      | nil => rfl
      | cons p ps ih => simp only [List.map_cons, List.flatten_cons, List.filter_append, ih]
    rw [hfl, List.filter_filter]
    apply List.filter_congr
    intro r _
    by_cases h : r.1 > x.1 - W
    · have : r.1 > m - W := by omega
      simp [h, this]
    · simp [h]

/-- one output partition computed from the combined block is the window function of the partition's rows in the
    context the block provides -/
theorem chunkTime_twin (W : Int) (g : List (TRow α) → TRow α → β) (P cur : List (TRow α)) :
    chunkTime (twinFn W g) (P ++ cur, lenOrNone (some P), none) = twin W g P cur := by
  unfold chunkTime
  rw [Dask.C46.overlapChunk_trim _ _ _ _ _ _ (by simp [twinFn, twin_length])]
  simp only [Nat.sub_zero, List.take_length, twinFn, twin_append, List.nil_append]
  by_cases hP : P = []
  · subst hP; simp [lenOrNone, twin]
  · have hlen : P.length > 0 := by cases P <;> simp_all
    simp only [lenOrNone, hlen, if_true, Option.getD_some]
    rw [List.drop_left' (by simp [twin_length])]

theorem combinedTime_some (W : Int) (sel : List (List (TRow α))) (cur : List (TRow α)) :
    combinedTime W (some (tailTime W cur sel)) cur =
      (tailTime W cur [tailTime W cur sel] ++ cur, lenOrNone (some (tailTime W cur [tailTime W cur sel])), none) := rfl

/-- the `while` loop stops at an index `r` below the start with `r = 0` or `divs[r] ≤ lb` -/
theorem walkBack_spec (lb : Int) : ∀ (l : List Int) (first : Int), l.head? = some first →
    walkBack lb first l < l.length ∧
      (walkBack lb first l = 0 ∨ ∃ d, l[l.length - 1 - walkBack lb first l]? = some d ∧ d ≤ lb) := by
  intro l
  induction l with
  | nil => intro first h; simp at h
  | cons dj rest ih =>
    intro first h
    simp only [List.head?_cons, Option.some.injEq] at h
    subst h
    cases rest with
    | nil => simp [walkBack]
    | cons dj1 rest' =>
      simp only [walkBack]
      by_cases hgt : dj > lb
      · simp only [hgt, if_true]
        have hfirst : dj - (dj - dj1) = dj1 := by omega
        rw [hfirst]
        obtain ⟨h1, h2⟩ := ih dj1 (by simp)
        refine ⟨by simp only [List.length_cons] at h1 ⊢; omega, ?_⟩
        rcases h2 with h2 | ⟨d, hd, hle⟩
        · exact Or.inl h2
        · right
          refine ⟨d, ?_, hle⟩
          simp only [List.length_cons] at h1 hd ⊢
          have : rest'.length + 1 + 1 - 1 - walkBack lb dj1 (dj1 :: rest') = (rest'.length + 1 - 1 - walkBack lb dj1 (dj1 :: rest')) + 1 := by omega
          rw [this, List.getElem?_cons_succ]
          exact hd
      · simp only [hgt, if_false]
        refine ⟨by simp, Or.inr ⟨dj, ?_, by omega⟩⟩
        simp

/-- on the fast path every partition but the last is at least as wide as the window -/
theorem fast_width (W : Int) : ∀ (divs : List Int), slowPath W divs = false →
    ∀ k a b, divs[k]? = some a → divs[k + 1]? = some b → k + 2 < divs.length → W ≤ b - a := by
  intro divs
  induction divs with
  | nil => intro _ k a b ha; simp at ha
  | cons d0 rest ih =>
    intro hs k a b ha hb hk
    match rest, hs, ha, hb, hk, ih with
    | [], _, _, hb, _, _ => simp at hb
    | [d1], _, _, _, hk, _ => simp only [List.length_cons, List.length_nil] at hk; omega
    | d1 :: d2 :: more, hs, ha, hb, hk, ih =>
      simp only [slowPath, deltas, List.any_cons, Bool.or_eq_false_iff, decide_eq_false_iff_not] at hs
      cases k with
      | zero =>
        simp only [List.getElem?_cons_zero, Option.some.injEq, Nat.zero_add, List.getElem?_cons_succ] at ha hb
        omega
      | succ k =>
        simp only [List.getElem?_cons_succ] at ha hb
        exact ih (by simpa [slowPath] using hs.2) k a b ha hb (by simp only [List.length_cons] at hk ⊢; omega)


/-- the divisions tell the truth: partition `k` holds times in `[divs[k], divs[k+1])` (the last one `≥ divs[k]`) -/
structure Truthful (divs : List Int) (parts : List (List (TRow α))) : Prop where
  len : divs.length = parts.length + 1
  mono : ∀ (i j : Nat) (a b : Int), i ≤ j → divs[i]? = some a → divs[j]? = some b → a ≤ b
  lower : ∀ (k : Nat) (p : List (TRow α)) (d : Int), parts[k]? = some p → divs[k]? = some d → ∀ r ∈ p, d ≤ r.1
  upper : ∀ (k : Nat) (p : List (TRow α)) (d : Int), parts[k]? = some p → divs[k + 1]? = some d → k + 1 < parts.length → ∀ r ∈ p, r.1 < d

theorem tctx_nil_of_excl (W t : Int) (ps : List (List (TRow α))) (h : ∀ p ∈ ps, ∀ r ∈ p, r.1 ≤ t - W) :
    tctx W t ps.flatten = [] := by
  simp only [tctx, List.filter_eq_nil_iff, List.mem_flatten, decide_eq_true_eq]
  intro r ⟨p, hp, hr⟩
  have := h p hp r hr
  omega

theorem drop_last_singleton (l : List (List (TRow α))) (p : List (TRow α)) (h : l.getLast? = some p) :
    l.drop (l.length - 1) = [p] := by
  induction l with
  | nil => simp at h
  | cons a t ih =>
    cases t with
    | nil => simp at h; simp [h]
    | cons b t' =>
      rw [List.getLast?_cons_cons] at h
      have := ih h
      simp only [List.length_cons] at this ⊢
      have h2 : t'.length + 1 + 1 - 1 = (t'.length + 1 - 1) + 1 := by omega
      rw [h2, List.drop_succ_cons]
      exact this

/-- what prepend task `i-1` selects is a suffix `before.drop j` of the earlier partitions, and everything it leaves
    out lies outside the window of every row of the current partition -/
theorem selectPrev_spec (W : Int) (divs : List Int) (parts before rest' : List (List (TRow α))) (cur : List (TRow α))
    (ht : Truthful divs parts) (hparts : parts = before ++ cur :: rest') (hi : before.length ≠ 0) :
    ∃ j, selectPrev W divs (slowPath W divs) before.length before = some (before.drop j) ∧
      ∀ p ∈ before.take j, ∀ r ∈ p, ∀ x ∈ cur, r.1 ≤ x.1 - W := by
  have hlen := ht.len
  have hplen : parts.length = before.length + 1 + rest'.length := by rw [hparts]; simp; omega
  have hcur : parts[before.length]? = some cur := by rw [hparts]; simp
  obtain ⟨di, hdi⟩ : ∃ d, divs[before.length]? = some d := ⟨divs[before.length]'(by omega), List.getElem?_eq_getElem _⟩
  have hlow : ∀ x ∈ cur, di ≤ x.1 := ht.lower _ cur di hcur hdi
  have hbefore : ∀ k, k < before.length → parts[k]? = before[k]? := by
    intro k hk; rw [hparts, List.getElem?_append_left hk]
  -- rows of partition k < before.length - ... are below divs[k+1]
  have hup : ∀ k p, before[k]? = some p → k < before.length → ∀ d, divs[k + 1]? = some d → ∀ r ∈ p, r.1 < d := by
    intro k p hp hk d hd r hr
    exact ht.upper k p d (by rw [hbefore k hk]; exact hp) hd (by omega) r hr
  unfold selectPrev
  cases hslow : slowPath W divs with
  | true =>
    simp only [if_true]
    obtain ⟨dz, hdz⟩ : ∃ d, divs[0]? = some d := ⟨divs[0]'(by omega), List.getElem?_eq_getElem _⟩
    obtain ⟨dp, hdp⟩ : ∃ d, divs[before.length - 1]? = some d := ⟨divs[before.length - 1]'(by omega), List.getElem?_eq_getElem _⟩
    have hidx : before.length - 1 + 1 = before.length := by omega
    simp only [startIdx, hidx, hdi, hdz, hdp, Option.map_some]
    have hhead : ((divs.take before.length).reverse).head? = some dp := by
      rw [List.head?_reverse, List.getLast?_eq_getElem?, List.length_take, List.getElem?_take]
      have : min before.length divs.length - 1 = before.length - 1 := by omega
      rw [this]
      simp only [show before.length - 1 < before.length by omega, if_true]
      exact hdp
    have hmin : min before.length divs.length = before.length := Nat.min_eq_left (by omega)
    obtain ⟨hj1, hj2⟩ := walkBack_spec (max (di - W) dz) _ dp hhead
    simp only [List.length_reverse, List.length_take, hmin] at hj1 hj2
    refine ⟨_, rfl, ?_⟩
    intro p hp r hr x hx
    obtain ⟨k, hk, hpk⟩ := List.mem_iff_getElem.mp hp
    simp only [List.length_take] at hk
    have hkj : k < walkBack (max (di - W) dz) dp (divs.take before.length).reverse := by omega
    have hkb : k < before.length := by omega
    have hpk' : before[k]? = some p := by
      rw [List.getElem_take] at hpk
      rw [List.getElem?_eq_getElem hkb, hpk]
    rcases hj2 with h0 | ⟨d, hd, hdle⟩
    · omega
    · rw [List.getElem?_reverse (by simp only [List.length_take]; omega), List.length_take, hmin, List.getElem?_take] at hd
      have hjidx : before.length - 1 - (before.length - 1 - walkBack (max (di - W) dz) dp (divs.take before.length).reverse)
          = walkBack (max (di - W) dz) dp (divs.take before.length).reverse := by omega
      rw [hjidx] at hd
      simp only [hj1, if_true] at hd
      obtain ⟨dk1, hdk1⟩ : ∃ d, divs[k + 1]? = some d := ⟨divs[k + 1]'(by omega), List.getElem?_eq_getElem _⟩
      obtain ⟨dk, hdk⟩ : ∃ d, divs[k]? = some d := ⟨divs[k]'(by omega), List.getElem?_eq_getElem _⟩
      have h1 := hup k p hpk' hkb dk1 hdk1 r hr
      have h2 := ht.mono (k + 1) _ dk1 d (by omega) hdk1 hd
      have h3 := ht.lower k p dk (by rw [hbefore k hkb]; exact hpk') hdk r hr
      have h4 := ht.mono 0 k dz dk (by omega) hdz hdk
      have h5 := hlow x hx
      omega
  | false =>
    simp only [Bool.false_eq_true, if_false]
    cases hl : before.getLast? with
    | none => simp at hl; exact absurd (by simp [hl]) hi
    | some pl =>
      refine ⟨before.length - 1, by simp [drop_last_singleton before pl hl], ?_⟩
      intro p hp r hr x hx
      obtain ⟨k, hk, hpk⟩ := List.mem_iff_getElem.mp hp
      simp only [List.length_take] at hk
      have hkb : k < before.length := by omega
      have hpk' : before[k]? = some p := by
        rw [List.getElem_take] at hpk
        rw [List.getElem?_eq_getElem hkb, hpk]
      obtain ⟨dk1, hdk1⟩ : ∃ d, divs[k + 1]? = some d := ⟨divs[k + 1]'(by omega), List.getElem?_eq_getElem _⟩
      obtain ⟨dp, hdp⟩ : ∃ d, divs[before.length - 1]? = some d := ⟨divs[before.length - 1]'(by omega), List.getElem?_eq_getElem _⟩
      have h1 := hup k p hpk' hkb dk1 hdk1 r hr
      have h2 := ht.mono (k + 1) (before.length - 1) dk1 dp (by omega) hdk1 hdp
      have hidx : before.length - 1 + 1 = before.length := by omega
      have h3 := fast_width W divs hslow (before.length - 1) dp di hdp (by rw [hidx]; exact hdi) (by omega)
      have h5 := hlow x hx
      omega


theorem chunkTime_first (W : Int) (g : List (TRow α) → TRow α → β) (cur : List (TRow α)) :
    chunkTime (twinFn W g) (combinedTime W none cur) = twin W g [] cur := by
  simp only [combinedTime, chunkTime]
  rw [Dask.C46.overlapChunk_trim _ _ _ _ _ _ (by simp [twinFn, twin_length])]
  simp [twinFn]

theorem goTime_spec (W : Int) (g : List (TRow α) → TRow α → β) (divs : List Int) (parts : List (List (TRow α)))
    (ht : Truthful divs parts) :
    ∀ (rest before : List (List (TRow α))), parts = before ++ rest →
      ∃ out, goTime (twinFn W g) W divs (slowPath W divs) before.length before rest = some out ∧
        out.flatten = twin W g before.flatten rest.flatten ∧ out.map List.length = rest.map List.length := by
  intro rest
  induction rest with
  | nil => intro before _; exact ⟨[], rfl, by simp [twin], rfl⟩
  | cons cur rest' ih =>
    intro before hparts
    obtain ⟨r, hr, hrflat, hrlen⟩ := ih (before ++ [cur]) (by rw [hparts]; simp)
    simp only [List.length_append, List.length_singleton] at hr
    have hchunk : ∃ pv, (if before.length = 0 then some none
          else (selectPrev W divs (slowPath W divs) before.length before).map (fun sel => some (tailTime W cur sel))) = some pv ∧
        chunkTime (twinFn W g) (combinedTime W pv cur) = twin W g before.flatten cur := by
      by_cases hi : before.length = 0
      · have hb : before = [] := List.length_eq_zero_iff.mp hi
        subst hb
        exact ⟨none, by simp, by simpa using chunkTime_first W g cur⟩
      · obtain ⟨j, hsel, hexcl⟩ := selectPrev_spec W divs parts before rest' cur ht hparts hi
        refine ⟨some (tailTime W cur (before.drop j)), by simp [hi, hsel], ?_⟩
        rw [combinedTime_some, chunkTime_twin]
        apply twin_ctx
        intro x hx
        rw [tctx_tailTime W cur _ x hx]
        conv => rhs; rw [← List.take_append_drop j before, List.flatten_append, tctx_append]
        rw [tctx_nil_of_excl W x.1 (before.take j) (fun p hp r hr => hexcl p hp r hr x hx), List.nil_append]
    obtain ⟨pv, hpv, hck⟩ := hchunk
    refine ⟨chunkTime (twinFn W g) (combinedTime W pv cur) :: r, ?_, ?_, ?_⟩
    · simp only [goTime, hpv, hr]
    · rw [List.flatten_cons, hck, hrflat, List.flatten_cons, twin_append]
      simp
    · rw [List.map_cons, hck, twin_length, hrlen, List.map_cons]

end Dask.C46T

namespace Dask.C46
open Dask.Overlap Dask.OverlapTime Dask.C46T

/-- **C46 (time-based windows)**: for every row function that looks at the earlier rows within `(t - W, t]`
    (`rolling('Ws')` with any min_periods, `map_overlap(before=Timedelta)`), on every partitioning whose divisions are
    truthful the lowered `MapOverlap(before=Timedelta(W), after=0)` — fast path or slow path over several
    partitions — never raises and yields that function of the concatenated frame, partition lengths preserved.
    Partitions may be empty or narrower than the window. -/
theorem time_window_local_eq_global {α β : Type} (W : Int) (g : List (TRow α) → TRow α → β) (divs : List Int)
    (parts : List (List (TRow α))) (ht : Truthful divs parts) :
    ∃ out, mapOverlapTime (twinFn W g) W divs parts = some out ∧
      out.flatten = twinFn W g parts.flatten ∧ out.map List.length = parts.map List.length := by
  have := goTime_spec W g divs parts ht parts [] (by simp)
  simpa [mapOverlapTime, twinFn] using this

/-- non-vacuity: truthful divisions with a partition narrower than the window and an empty one (slow path) -/
example : Truthful [0, 10, 11, 11, 30] [[(0, some 1), (7, none)], [(10, some 2)], [], [(11, some 5), (30, some 1)]] := by
  refine ⟨by decide, ?_, ?_, ?_⟩
  · intro i j a b hij ha hb
    match i, j with
    | 0, 0 | 0, 1 | 0, 2 | 0, 3 | 0, 4 | 1, 1 | 1, 2 | 1, 3 | 1, 4 | 2, 2 | 2, 3 | 2, 4 | 3, 3 | 3, 4 | 4, 4 =>
      simp at ha hb; omega
    | i + 5, _ => simp at ha
    | _, j + 5 => simp at hb
    | 1, 0 | 2, 0 | 2, 1 | 3, 0 | 3, 1 | 3, 2 | 4, 0 | 4, 1 | 4, 2 | 4, 3 => omega
  · intro k p d hp hd r hr
    match k with
    | 0 | 1 | 2 | 3 => simp at hp hd; subst hp hd; revert r; decide
    | k + 4 => simp at hp
  · intro k p d hp hd hk r hr
    match k with
    | 0 | 1 | 2 => simp at hp hd; subst hp hd; revert r; decide
    | k + 3 => simp at hk; omega

example : slowPath 5 [0, 10, 11, 11, 30] = true := by decide
example : mapOverlapTime (twinFn 5 (gTRollSum 1)) 5 [0, 10, 11, 11, 30]
    [[(0, some 1), (7, none)], [(10, some 2)], [], [(11, some 5), (30, some 1)]]
    = some [[some 1, none], [some 2], [], [some 7, some 1]] := by decide

end Dask.C46
