import DaskModel.Model.BagSample
import DaskModel.Lemmas.BagSample
/-! # C49 — bag sampling returns valid samples reproducibly (theorems)

Statement: `bag.random.sample(b, k)` returns k elements drawn without replacement: a sub-multiset of b,
or all of b when k exceeds its size, as documented. `bag.random.choices` returns k elements of b.
`random_sample` with a fixed random_state returns the same subsequence on every scheduler and
recomputation.

All theorems quantify over an ARBITRARY random oracle `O` (every value a random draw can influence),
every partitioning (`parts : List (List α)`, empty partitions included) and every `split_every ≥ 2`.
`xs ⊆ₘ ys` (`Dask.SubMultiset`): `xs` plus some rest is a permutation of `ys`. -/
namespace Dask.C49
open Dask Dask.BagReduce Dask.BagSample

variable {α : Type}

/-! ## `sample` -/

/-- every task of `sample` satisfies the sample invariant, whatever the oracle and the tree shape -/
theorem sample_reduction_inv (O : Oracle) (k se : Nat) (parts : List (List α)) (sn : List α × Nat)
    (h : reductionIx (fun i p => sampleMapPartitions k (O.geom i) (O.slot i) p)
      (fun depth i inputs => sampleReduce k (O.key depth i) inputs) se parts = some sn) :
    SampleInv k parts.flatten sn :=
  reductionIx_inv (SampleInv k) _ _
    (fun i p => by
      obtain ⟨h1, h2, h3⟩ := sampleMapPartitions_support k (O.geom i) (O.slot i) p
      exact ⟨h1, h3, by rw [h2, h3]⟩)
    (fun d i _ _ hall => sampleReduce_inv k (O.key d i) hall) se parts sn h

/-- **`sample_submultiset`**: for every oracle, partitioning and `split_every ≥ 2`, if `k ≤ |b|` then
    `sample(b, k)` returns (no error) a sub-multiset of `b` of size exactly `k`. -/
theorem sample_submultiset (O : Oracle) (k se : Nat) (hse : 2 ≤ se) (parts : List (List α))
    (hk : k ≤ parts.flatten.length) :
    ∃ xs, sample O k se parts = .ok xs ∧ xs ⊆ₘ parts.flatten ∧ xs.length = k := by
  have hsome := reductionIx_isSome (fun i p => sampleMapPartitions k (O.geom i) (O.slot i) p)
    (fun depth i inputs => sampleReduce k (O.key depth i) inputs) se hse parts
  obtain ⟨sn, hsn⟩ := Option.isSome_iff_exists.mp hsome
  obtain ⟨h1, h2, h3⟩ := sample_reduction_inv O k se parts sn hsn
  have hlen : sn.1.length = k := by rw [h3, h2]; omega
  refine ⟨sn.1, ?_, h1, hlen⟩
  simp only [sample, hsn, finalize, hlen, Nat.lt_irrefl, if_false]

/-- the multiset reading of `sample_submultiset`: no element is returned more often than it occurs -/
theorem sample_count_le [BEq α] [LawfulBEq α] (O : Oracle) (k se : Nat) (hse : 2 ≤ se) (parts : List (List α))
    (hk : k ≤ parts.flatten.length) :
    ∃ xs, sample O k se parts = .ok xs ∧ xs.length = k ∧ ∀ a, xs.count a ≤ parts.flatten.count a := by
  obtain ⟨xs, h1, h2, h3⟩ := sample_submultiset O k se hse parts hk
  exact ⟨xs, h1, h3, fun a => h2.count_le a⟩

example : sample (α := Nat) ⟨fun _ _ => 1, fun _ _ => 0, fun _ _ p => p, fun _ _ _ => 0, fun _ _ => true⟩ 2 2
    [[1, 2, 3], [], [4], [5, 6]] = .ok [5, 6] := by decide

/-- the REDUCE stage does what the documentation says: when `k` exceeds the number of elements it
    returns everything it received -/
theorem sampleReduce_all_when_k_gt (k : Nat) (key : Nat → Nat) (inputs : List (List α × Nat))
    (h : (inputs.map (·.2)).sum < k) : (sampleReduce k key inputs).1 = (inputs.map (·.1)).flatten := by
  simp [sampleReduce, h]

/-- …but `_finalize_sample` then raises: for every oracle, `k > |b|` gives ValueError — never a sample. -/
theorem sample_raises_when_k_gt (O : Oracle) (k se : Nat) (hse : 2 ≤ se) (parts : List (List α))
    (hk : parts.flatten.length < k) : sample O k se parts = .valueError := by
  have hsome := reductionIx_isSome (fun i p => sampleMapPartitions k (O.geom i) (O.slot i) p)
    (fun depth i inputs => sampleReduce k (O.key depth i) inputs) se hse parts
  obtain ⟨sn, hsn⟩ := Option.isSome_iff_exists.mp hsome
  obtain ⟨h1, h2, h3⟩ := sample_reduction_inv O k se parts sn hsn
  have hlen : sn.1.length < k := by rw [h3, h2]; omega
  simp only [sample, hsn, finalize, hlen, if_true]

/-- DESIGN §6 #9 (finding `sample:k>len(b):ValueError-sample-larger-than-population`): the statement
    says `sample(b, k)` returns all of `b` when `k` exceeds its size; the code raises ValueError
    (demanded by the pinned test `test_sample_k_bigger_than_bag_size`). -/
theorem sample_all_when_k_exceeds_refuted :
    ¬ (∀ (O : Oracle) (k se : Nat) (parts : List (List Nat)), 2 ≤ se → parts.flatten.length < k →
        ∃ xs, sample O k se parts = .ok xs ∧ xs.Perm parts.flatten) := by
  intro h
  obtain ⟨xs, hx, _⟩ := h ⟨fun _ _ => 1, fun _ _ => 0, fun _ _ p => p, fun _ _ _ => 0, fun _ _ => true⟩
    4 8 [[0], [1], [2]] (by decide) (by decide)
  rw [sample_raises_when_k_gt _ 4 8 (by decide) _ (by decide)] at hx
  cases hx

/-- `sample_partial`: the full statement restricted to the complement of the finding -/
theorem sample_statement_partial (O : Oracle) (k se : Nat) (hse : 2 ≤ se) (parts : List (List α)) :
    (k ≤ parts.flatten.length → ∃ xs, sample O k se parts = .ok xs ∧ xs ⊆ₘ parts.flatten ∧ xs.length = k) ∧
    (parts.flatten.length < k → sample O k se parts = .valueError) :=
  ⟨sample_submultiset O k se hse parts, sample_raises_when_k_gt O k se hse parts⟩

/-- `split_every = 1` with more than one partition: `Bag.reduction` raises ValueError (repair ec8607a;
    before, the `while k > split_every` loop never made progress and graph construction did not return) -/
theorem sample_split_every_one_raises (O : Oracle) :
    sample O 1 1 [[1], [2]] = .splitEveryError := by rfl

/-! ## `choices` -/

/-- **`choices_elements_of_b`**: whenever `choices(b, k)` returns, it returns exactly `k` elements, each
    of them an element of `b` — for every oracle, partitioning and `split_every`. -/
theorem choices_elements_of_b (O : Oracle) (k se : Nat) (parts : List (List α)) (xs : List α)
    (h : choices O k se parts = .ok xs) : xs.length = k ∧ ∀ x ∈ xs, x ∈ parts.flatten := by
  simp only [choices] at h
  split at h
  · cases h
  · cases h
  · next sn hred =>
    have hinv : ChoiceInv k parts.flatten (some sn) := by
      refine reductionIx_inv (ChoiceInv k) _ _ ?_ ?_ se parts (some sn) (by simpa [choicesRed] using hred)
      · intro i p sn' hsn'
        exact choicesMapPartitions_spec k (O.geom i) p sn' hsn'
      · intro d i qs rs hall sn' hsn'
        simp only [choicesAgg] at hsn'
        split at hsn'
        · cases hsn'
        · next ins hm =>
          obtain ⟨a1, a2, a3⟩ := All2_choice_flatten hall hm
          obtain ⟨b1, b2, b3⟩ := choicesReduce_spec k (O.pick d i) ins sn' a3 hsn'
          exact ⟨b1, fun x hx => a1 x (b2 x hx), by rw [b3, a2]⟩
    obtain ⟨h1, h2, _⟩ := hinv sn rfl
    simp only [finalize] at h
    split at h
    · cases h
    · cases h; exact ⟨h1, h2⟩

/-- `choices` never raises ValueError("Sample larger than population"): `k` may exceed `|b|` -/
theorem choices_no_valueError (O : Oracle) (k se : Nat) (parts : List (List α)) :
    choices O k se parts ≠ .valueError := by
  intro h
  simp only [choices] at h
  split at h
  · cases h
  · cases h
  · next sn hred =>
    have hinv : ChoiceInv k parts.flatten (some sn) := by
      refine reductionIx_inv (ChoiceInv k) _ _ ?_ ?_ se parts (some sn) (by simpa [choicesRed] using hred)
      · intro i p sn' hsn'
        exact choicesMapPartitions_spec k (O.geom i) p sn' hsn'
      · intro d i qs rs hall sn' hsn'
        simp only [choicesAgg] at hsn'
        split at hsn'
        · cases hsn'
        · next ins hm =>
          obtain ⟨a1, a2, a3⟩ := All2_choice_flatten hall hm
          obtain ⟨b1, b2, b3⟩ := choicesReduce_spec k (O.pick d i) ins sn' a3 hsn'
          exact ⟨b1, fun x hx => a1 x (b2 x hx), by rw [b3, a2]⟩
    obtain ⟨h1, _, _⟩ := hinv sn rfl
    simp only [finalize, h1, Nat.lt_irrefl, if_false] at h
    cases h

/-- what a returning task of `choices` on a NON-EMPTY set of elements looks like -/
def ChoiceOk (k : Nat) (q : List α) (o : Option (List α × Nat)) : Prop :=
  q ≠ [] ∧ ∃ sn, o = some sn ∧ sn.1.length = k ∧ (∀ x ∈ sn.1, x ∈ q) ∧ sn.2 = q.length

theorem All2_choiceOk {k : Nat} {qs : List (List α)} {rs : List (Option (List α × Nat))}
    (h : All2 (ChoiceOk k) qs rs) :
    ∃ ins, rs.mapM id = some ins ∧ All2 (ChoiceInv k) qs rs ∧ (rs ≠ [] → qs.flatten ≠ []) := by
  induction h with
  | nil => exact ⟨[], rfl, .nil, fun h => absurd rfl h⟩
  | @cons q o qs rs hqo _ ih =>
    obtain ⟨ins, hm, hall, _⟩ := ih
    obtain ⟨hq, sn, rfl, h1, h2, h3⟩ := hqo
    refine ⟨sn :: ins, by simp [List.mapM_cons, hm], .cons ?_ hall, ?_⟩
    · intro sn' hsn'; cases hsn'; exact ⟨h1, h2, h3⟩
    · intro _ hflat
      simp only [List.flatten_cons, List.append_eq_nil_iff] at hflat
      exact hq hflat.1

/-- **`choices` is total on non-empty bags**: for every oracle, partitioning (empty partitions included)
    and `split_every ≥ 2`, if the bag has at least one element then `choices(b, k)` returns `k` elements
    of `b` — no IndexError / StopIteration / ValueError (`k` may exceed `|b|`). -/
theorem choices_total (O : Oracle) (k se : Nat) (hse : 2 ≤ se) (parts : List (List α)) (hne : parts.flatten ≠ []) :
    ∃ xs, choices O k se parts = .ok xs ∧ xs.length = k ∧ ∀ x ∈ xs, x ∈ parts.flatten := by
  have hsome : (choicesRed O k se parts).isSome := reductionIx_isSome _ _ se hse parts
  obtain ⟨r, hr⟩ := Option.isSome_iff_exists.mp hsome
  have hgen := reductionIx_inv_gen (ChoiceOk k) _ _ parts ?_ ?_ se r hr
  · rcases hgen with ⟨_, _, hnil⟩ | ⟨_, sn, rfl, h1, h2, _⟩
    · exact absurd hnil hne
    · refine ⟨sn.1, ?_, h1, h2⟩
      simp only [choices, hr, finalize, h1, Nat.lt_irrefl, if_false]
  · -- leaves that are not skipped are non-empty (the only partition of a non-empty bag is non-empty)
    intro i p hmem hor
    have hp : p ≠ [] := by
      rcases hor with h1 | h
      · intro hp
        subst hp
        match parts, h1, hmem with
        | [q], _, hm =>
          have : q = [] := by simpa using hm
          subst this
          simp at hne
      · exact h
    obtain ⟨sn, hsn⟩ := Option.isSome_iff_exists.mp (choicesMapPartitions_isSome k (O.geom i) p (Or.inl hp))
    obtain ⟨a1, a2, a3⟩ := choicesMapPartitions_spec k (O.geom i) p sn hsn
    exact ⟨hp, sn, hsn, a1, a2, a3⟩
  · intro d i qs rs hrs hall
    obtain ⟨ins, hm, hinv, hflat⟩ := All2_choiceOk hall
    have hq : qs.flatten ≠ [] := hflat hrs
    obtain ⟨a1, a2, a3⟩ := All2_choice_flatten hinv hm
    refine ⟨hq, ?_⟩
    simp only [choicesAgg, hm]
    -- `choicesReduce` returns: either k = 0, or the concatenated partial samples are non-empty
    have hsome : (choicesReduce k (O.pick d i) ins).isSome := by
      simp only [choicesReduce]
      split
      · rfl
      · next hk =>
        have hne' : (ins.map (·.1)).flatten ≠ [] := by
          -- rs ≠ [] so ins ≠ []; its first partial sample has length k > 0
          cases ins with
          | nil =>
            cases rs with
            | nil => exact absurd rfl hrs
            | cons o rs' =>
              cases o with
              | none => simp [List.mapM_cons] at hm
              | some v =>
                simp only [List.mapM_cons, id_eq, Option.bind_eq_bind, Option.bind_some] at hm
                cases hrest : rs'.mapM id <;> simp [hrest] at hm
          | cons sn ins' =>
            have := a3 sn.1 (by simp)
            intro hnil
            simp only [List.map_cons, List.flatten_cons, List.append_eq_nil_iff] at hnil
            rw [hnil.1] at this
            simp at this; omega
        have : (ins.map (·.1)).flatten.isEmpty = false := by
          cases hfl : (ins.map (·.1)).flatten with
          | nil => exact absurd hfl hne'
          | cons _ _ => rfl
        simp [this]
    obtain ⟨sn, hsn⟩ := Option.isSome_iff_exists.mp hsome
    obtain ⟨b1, b2, b3⟩ := choicesReduce_spec k (O.pick d i) ins sn a3 hsn
    exact ⟨sn, hsn, b1, fun x hx => a1 x (b2 x hx), by rw [b3, a2]⟩

example : choices (α := Nat) ⟨fun _ _ => 1, fun _ _ => 0, fun _ _ p => p, fun _ _ j => j, fun _ _ => true⟩ 3 2
    [[1, 2], [], [4]] = .ok [2, 2, 2] := by decide

/-! ## `random_sample` -/

theorem randomSamplePart_sublist (keep : Nat → Bool) (p : List α) : (randomSamplePart keep p).Sublist p := by
  simp only [randomSamplePart]
  generalize (0 : Nat) = n
  induction p generalizing n with
  | nil => simp
  | cons x p ih =>
    simp only [List.zipIdx_cons, List.filterMap_cons]
    by_cases hk : keep n = true
    · simp only [hk, if_true]; exact (ih (n + 1)).cons₂ _
    · simp only [hk, Bool.false_eq_true, if_false]; exact (ih (n + 1)).cons _

/-- `random_sample` keeps the partitioning and returns a subsequence of every partition … -/
theorem randomSample_parts (O : Oracle) (parts : List (List α)) :
    (randomSample O parts).length = parts.length ∧
    ∀ i (h : i < parts.length), ∃ q, (randomSample O parts)[i]? = some q ∧ q.Sublist parts[i] := by
  refine ⟨by simp [randomSample], ?_⟩
  intro i h
  refine ⟨randomSamplePart (O.keep i) parts[i], ?_, randomSamplePart_sublist _ _⟩
  simp [randomSample, h]

/-- … hence a subsequence of the bag -/
theorem randomSample_sublist (O : Oracle) (parts : List (List α)) :
    (randomSample O parts).flatten.Sublist parts.flatten := by
  simp only [randomSample]
  generalize (0 : Nat) = n
  induction parts generalizing n with
  | nil => simp
  | cons p ps ih =>
    simp only [List.zipIdx_cons, List.map_cons, List.flatten_cons]
    exact (randomSamplePart_sublist _ p).append (ih (n + 1))

/-- **`random_sample_deterministic`**: the result depends on the oracle only through the keep bits of the
    positions that exist — it is a function of (per-partition generator states, partition contents,
    partitioning); nothing else (scheduler, order of execution, recomputation) can influence it. -/
theorem random_sample_deterministic (O O' : Oracle) (parts : List (List α))
    (h : ∀ i j, i < parts.length → O.keep i j = O'.keep i j) : randomSample O parts = randomSample O' parts := by
  simp only [randomSample]
  apply List.map_congr_left
  intro pi hpi
  obtain ⟨p, i⟩ := pi
  have := List.mem_zipIdx hpi
  have hi : i < parts.length := by omega
  have hfun : O.keep i = O'.keep i := funext fun j => h i j hi
  simp only [hfun]

end Dask.C49
