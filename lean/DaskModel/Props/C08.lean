import DaskModel.Lemmas.TaskTerm
import DaskModel.Lemmas.Pickle
import DaskModel.Lemmas.NodeEval
import DaskModel.Lemmas.ExecGraph
/-!
# C08 — legacy → task-spec conversion and execution preserve the graph's meaning

Model: `Dask.TaskTerm` (Model/TaskTerm.lean): `convert_legacy_task` / `convert_legacy_graph`, `Task.__call__`,
`execute_graph` (as dependency recursion) and the statement's legacy semantics `evalObj` ("tuples headed by a callable
are calls, lists and dicts are evaluated elementwise, hashable values equal to a key are references").

Full statement: for every (well-formed) legacy object, converting and evaluating gives the legacy value —
`convert_preserves_eval`, proved for all objects, key sets and environments; graph level
`convertGraph_preserves_eval`. Two `fix:` commits of the review round made the code satisfy it: ca6daad (dict values are
converted, they were dependencies that were never evaluated) and the "non-task tuples are literals" fix (the conversion
evaluated them elementwise although `get_dependencies`, `subs`, `cull` and the statement treat them as literals). The
former refutation witnesses are kept as positive examples (`convert_dict_values_evaluated`,
`convert_non_task_tuple_literal`).
-/
namespace Dask.C08
open Dask.TaskTerm

mutual
theorem convert_eval (keys : List Obj) (env : Obj → Option Obj) :
    ∀ o, o.wf = true → evalNode env (convert keys o) = evalObj keys env o
  | .tuple (h :: args), hw => by
    simp only [Obj.wf, wfList, Bool.and_eq_true] at hw
    by_cases h1 : h.callable = true
    · have ih := convertList_eval keys env args hw.2
      simp only [convert, h1, if_true, evalNode, evalObj, ih, evalKw]
      cases evalObjs keys env args <;> rfl
    · by_cases h2 : inKeys keys (.tuple (h :: args)) = true
      · simp [convert, evalObj, h1, h2, evalNode]
      · simp [convert, evalObj, h1, h2, evalNode]
  | .tuple [], _ => by
    by_cases h2 : inKeys keys (.tuple []) = true <;> simp [convert, evalObj, h2, evalNode]
  | .list xs, hw => by
    simp only [Obj.wf] at hw
    have ih := convertList_eval keys env xs hw
    by_cases hg : (convertList keys xs).any Node.isGraphNode = true
    · simp only [convert, hg, if_true, evalNode, evalObj, ih, evalKw]
      cases evalObjs keys env xs <;> simp [applyFunc]
    · have hg' : (convertList keys xs).any Node.isGraphNode = false := by simpa using hg
      have e := convertList_no_graphNode keys xs hg'
      rw [e, evalNodes_raw] at ih
      simp only [convert, hg', Bool.false_eq_true, if_false, evalNode, evalObj, ← ih, Option.map_some]
  | .dict kvs, hw => by
    simp only [Obj.wf, Bool.and_eq_true] at hw
    have ih := convertVals_eval keys env kvs hw.2
    by_cases hg : (convertVals keys kvs).any Node.isGraphNode = true
    · simp only [convert, hg, if_true, evalNode, evalObj, ih, evalKw]
      cases hv : evalVals keys env kvs with
      | none => rfl
      | some kvs' =>
        have hk : dictKeysOk kvs' [] = true := by
          rw [dictKeysOk_keys kvs' kvs [] (evalVals_keys keys env kvs kvs' hv)]; exact hw.1
        simp [applyFunc, mkDict_flatItems kvs' hk]
    · have hg' : (convertVals keys kvs).any Node.isGraphNode = false := by simpa using hg
      have e := convertVals_no_graphNode keys kvs hg'
      rw [e, evalNodes_rawItems] at ih
      simp only [convert, hg', Bool.false_eq_true, if_false, evalNode, evalObj]
      cases hv : evalVals keys env kvs with
      | none => rw [hv] at ih; cases ih
      | some kvs' =>
        rw [hv] at ih
        simp only [Option.map_some, Option.some.injEq] at ih
        rw [flatItems_inj _ _ ih]; rfl
  | .int n, _ => by
    by_cases h2 : inKeys keys (.int n) = true <;> simp [convert, evalObj, h2, evalNode]
  | .str s, _ => by
    by_cases h2 : inKeys keys (.str s) = true <;> simp [convert, evalObj, h2, evalNode]
  | .none, _ => by simp [convert, evalObj, evalNode]
  | .fn _, _ => by simp [convert, evalObj, evalNode]
  | .quoted _, _ => by simp [convert, evalObj, evalNode]
  | .app _ _ _, _ => by simp [convert, evalObj, evalNode]
theorem convertList_eval (keys : List Obj) (env : Obj → Option Obj) :
    ∀ xs, wfList xs = true → evalNodes env (convertList keys xs) = evalObjs keys env xs
  | [], _ => by simp [convertList, evalNodes, evalObjs]
  | x :: xs, hw => by
    simp only [wfList, Bool.and_eq_true] at hw
    simp only [convertList, evalNodes, evalObjs, convert_eval keys env x hw.1, convertList_eval keys env xs hw.2]
theorem convertVals_eval (keys : List Obj) (env : Obj → Option Obj) :
    ∀ kvs, wfVals kvs = true → evalNodes env (convertVals keys kvs) = (evalVals keys env kvs).map flatItems
  | [], _ => by simp [convertVals, evalNodes, evalVals, flatItems]
  | (k, v) :: rest, hw => by
    simp only [wfVals, Bool.and_eq_true] at hw
    simp only [convertVals, evalNodes, evalNode, evalVals, convert_eval keys env v hw.1,
      convertVals_eval keys env rest hw.2]
    cases evalObj keys env v <;> cases evalVals keys env rest <;> simp [flatItems]
end

/-- **Conversion preserves the legacy value** — the statement at full strength: for every key set, every environment
    and every legacy object (dicts with hashable, pairwise distinct keys), evaluating the converted node gives exactly
    what the legacy semantics gives: tuples headed by a callable are calls, lists and dicts are evaluated elementwise at
    any depth, hashable values equal to a key are references, everything else — non-task tuples included — is a literal. -/
theorem convert_preserves_eval (keys : List Obj) (env : Obj → Option Obj) (o : Obj) (hw : o.wf = true) :
    evalNode env (convert keys o) = evalObj keys env o :=
  convert_eval keys env o hw

/-- the former refutation witness D1, `(f, {"x": "a"})` with key `"a"`: since ca6daad the dict value is evaluated -/
theorem convert_dict_values_evaluated :
    evalNode (fun _ => some (.int 1)) (convert [.str "a"] (.tuple [.fn 0, .dict [(.str "x", .str "a")]])) =
      some (.app 0 [.dict [(.str "x", .int 1)]] []) ∧
    evalObj [.str "a"] (fun _ => some (.int 1)) (.tuple [.fn 0, .dict [(.str "x", .str "a")]]) =
      some (.app 0 [.dict [(.str "x", .int 1)]] []) := by decide

/-- the former refutation witness D2, `(f, (1, "a"))` with key `"a"`: the inner tuple is a literal for both -/
theorem convert_non_task_tuple_literal :
    evalNode (fun _ => some (.int 1)) (convert [.str "a"] (.tuple [.fn 0, .tuple [.int 1, .str "a"]])) =
      some (.app 0 [.tuple [.int 1, .str "a"]] []) ∧
    evalObj [.str "a"] (fun _ => some (.int 1)) (.tuple [.fn 0, .tuple [.int 1, .str "a"]]) =
      some (.app 0 [.tuple [.int 1, .str "a"]] []) := by decide

/-! non-vacuity: the statement's own example (a tuple key nested in a list inside a dict argument) is well-formed -/
example : Obj.wf (.tuple [.fn 1, .dict [(.str "kw", .list [.tuple [.str "x", .int 0], .int 2])]]) = true := by decide
example : evalNode (fun _ => some (.int 5))
    (convert [.tuple [.str "x", .int 0]] (.tuple [.fn 1, .list [.tuple [.str "x", .int 0], .int 2]]))
    = some (.app 1 [.list [.int 5, .int 2]] []) := by decide
example : evalNode (fun _ => some (.int 5))
    (convert [.tuple [.str "x", .int 0]] (.tuple [.fn 1, .dict [(.str "kw", .list [.tuple [.str "x", .int 0], .int 2])]]))
    = some (.app 1 [.dict [(.str "kw", .list [.int 5, .int 2])]] []) := by decide

/-! ### graph level: `convert_legacy_graph` + `execute_graph` vs the legacy denotation -/

/-- evaluating the node stored at top level equals evaluating the nested conversion -/
theorem convertTop_eval (keys : List Obj) (env : Obj → Option Obj) (k v : Obj) (n : Node)
    (h : convertTop keys k v = some n) : evalNode env n = evalNode env (convert keys v) := by
  unfold convertTop at h
  split at h
  · rename_i t ht
    split at h
    · cases h
    · cases h; rw [ht]
  · rename_i o ho; cases h; rw [ho]; simp [evalNode]
  · rename_i r hr
    exfalso
    have := convert_not_graphNode keys v (by rw [hr]; rfl)
    rw [hr] at this; cases this
  · cases h; rfl

theorem lookup_mem {α : Type} (g : List (Obj × α)) (k : Obj) (v : α) (h : g.lookup k = some v) : (k, v) ∈ g := by
  induction g with
  | nil => simp at h
  | cons kv rest ih =>
    obtain ⟨k', v'⟩ := kv
    simp only [List.lookup] at h
    split at h
    · rename_i heq
      have : k = k' := eq_of_beq heq
      cases h; subst this; simp
    · exact List.mem_cons_of_mem _ (ih h)

theorem lookup_convertGraph (keys : List Obj) (k : Obj) : ∀ (g : LGraph),
    (∀ kv ∈ g, convertTop keys kv.1 kv.2 ≠ none) →
    (convertGraph keys g).lookup k = (g.lookup k).bind (convertTop keys k)
  | [], _ => by simp [convertGraph]
  | (k', v) :: rest, hns => by
    have h1 := hns (k', v) (by simp)
    have ih := lookup_convertGraph keys k rest (fun kv hkv => hns kv (List.mem_cons_of_mem _ hkv))
    cases hct : convertTop keys k' v with
    | none => exact absurd hct h1
    | some n =>
      simp only [convertGraph, hct, List.lookup]
      by_cases hk : (k == k') = true
      · have : k = k' := eq_of_beq hk
        subst this
        simp [hct]
      · have hk' : (k == k') = false := by simpa using hk
        simp only [hk', ih]

/-- **`dask.core.get` computes the legacy value** (denotation of the converted graph = legacy denotation), for every
    graph with well-formed values and no entry that aliases itself (`{'a': 'a'}`: `convert_legacy_graph` skips it). -/
theorem convertGraph_preserves_eval (g : LGraph) (keys : List Obj) (cache : Obj → Option Obj)
    (hclean : ∀ kv ∈ g, kv.2.wf = true)
    (hns : ∀ kv ∈ g, convertTop keys kv.1 kv.2 ≠ none) :
    ∀ (fuel : Nat) (k : Obj), evalKeyN (convertGraph keys g) cache fuel k = evalKeyL g keys cache fuel k
  | 0, _ => rfl
  | fuel + 1, k => by
    have ih : evalKeyN (convertGraph keys g) cache fuel = evalKeyL g keys cache fuel :=
      funext (convertGraph_preserves_eval g keys cache hclean hns fuel)
    simp only [evalKeyN, evalKeyL, lookup_convertGraph keys k g hns]
    cases hl : g.lookup k with
    | none => simp
    | some v =>
      have hm := lookup_mem g k v hl
      cases hct : convertTop keys k v with
      | none => exact absurd hct (hns (k, v) hm)
      | some n =>
        simp only [Option.bind_some, hct]
        rw [convertTop_eval keys _ k v n hct, ih]
        exact convert_eval keys _ v (hclean _ hm)

/-! ### dependencies: exactly the keys a node references -/

/-! `evalNode_congr` (the reported dependencies suffice) and `evalNode_missing` (each one is needed) are proved in
    Lemmas/NodeEval.lean by mutual induction over nodes, argument lists and keyword arguments. -/

/-- `deps_exact` for task-spec nodes: the reported dependencies are exactly the keys whose value matters. -/
theorem deps_exact (n : Node) :
    (∀ env env' : Obj → Option Obj, (∀ k ∈ n.deps, env k = env' k) → evalNode env n = evalNode env' n) ∧
    (∀ (env : Obj → Option Obj) (k : Obj), k ∈ n.deps → env k = none → evalNode env n = none) :=
  ⟨fun env env' h => evalNode_congr env env' n h, fun env k hk he => evalNode_missing env k he n hk⟩


/-- **The converted node's dependencies are exactly what `get_dependencies` reports** (the same list, in the same
    order), for every legacy object. -/
theorem deps_exact_legacy (keys : List Obj) (hKt : ∀ k ∈ keys, k.keyTyped = true) (o : Obj) :
    (convert keys o).deps = legacyRefs keys o :=
  convert_deps keys hKt o

/-- the former witnesses: a key inside a dict value is a dependency for both, a key inside a non-task tuple for neither -/
theorem deps_former_witnesses :
    (convert [.str "a"] (.tuple [.fn 0, .dict [(.str "x", .str "a")]])).deps = [.str "a"] ∧
    legacyRefs [.str "a"] (.tuple [.fn 0, .dict [(.str "x", .str "a")]]) = [.str "a"] ∧
    (convert [.str "a"] (.tuple [.fn 0, .tuple [.int 1, .str "a"]])).deps = [] ∧
    legacyRefs [.str "a"] (.tuple [.fn 0, .tuple [.int 1, .str "a"]]) = [] := by decide


/-! ### pickling: `Task.__getstate__/__setstate__`, `NestedContainer.__getstate__/__setstate__`

The slot lists are regenerated from the AST on every run (`Generated/TaskSpecSlots.lean`). A node's dependencies
(`_dependencies`) and everything its value is computed from (`func`, `args`, `kwargs`) are slots, so restoring every
slot preserves both. -/

open Dask.Pickle Dask.Generated.TaskSpecSlots in
/-- **Pickle round trip of a `Task`**: every slot of the restored object holds the original value. -/
theorem task_pickle_roundtrip (o o' : Attrs) (h : taskRoundtrip o = some o') :
    ∀ s ∈ slotsTask, o'.lookup s = o.lookup s := by
  unfold taskRoundtrip at h
  simp only [Option.map_eq_some_iff] at h
  obtain ⟨st, hst, rfl⟩ := h
  exact lookup_zip_mapM o slotsTask st (by decide) hst

open Dask.Pickle Dask.Generated.TaskSpecSlots in
/-- **Pickle round trip of a `List/Tuple/Set/Dict` container**: the `constructor` kwarg that `__getstate__` drops is
    restored from the class, every other slot is unchanged and `kwargs` has the same entries. Needs the class invariant
    that `kwargs["constructor"]` is the class's constructor. -/
theorem container_pickle_roundtrip (ctor : Obj) (o o' : Attrs) (kw : List (Obj × Obj))
    (h : containerRoundtrip ctor o = some o') (hk : o.lookup "kwargs" = some (.dict kw))
    (hc : kw.lookup (.str droppedKwarg) = some ctor) :
    (∀ s ∈ slotsNestedContainer, s ≠ "kwargs" → o'.lookup s = o.lookup s) ∧
    ∃ kw', o'.lookup "kwargs" = some (.dict kw') ∧ ∀ k, kw'.lookup k = kw.lookup k := by
  unfold containerRoundtrip ncGetstate at h
  cases hst : getstate slotsNestedContainer o with
  | none => simp [hst] at h
  | some st =>
    have hz := lookup_zip_mapM o slotsNestedContainer st (by decide) hst
    have hkw : (slotsNestedContainer.zip st).lookup "kwargs" = some (.dict kw) := by
      rw [hz "kwargs" (by decide)]; exact hk
    simp only [hst, hkw, Option.map_some, Option.some.injEq] at h
    subst h
    have h1 : (setSlot (slotsNestedContainer.zip st) "kwargs" (.dict (dictPop kw (.str droppedKwarg)))).lookup "kwargs" =
        some (.dict (dictPop kw (.str droppedKwarg))) := by
      rw [lookup_setSlot]; simp [hkw]
    constructor
    · intro s hs hne
      unfold ncSetstate
      rw [h1]
      simp only [lookup_setSlot, hne, if_false]
      exact hz s hs
    · refine ⟨dictSet (dictPop kw (.str droppedKwarg)) (.str droppedKwarg) ctor, ?_, ?_⟩
      · unfold ncSetstate
        rw [h1]
        simp only [lookup_setSlot, if_true, h1, Option.map_some]
      · intro k
        rw [lookup_dictSet]
        by_cases hkc : k = .str droppedKwarg
        · subst hkc; simp [hc]
        · simp only [hkc, if_false, lookup_dictPop]

open Dask.Pickle in
/-- `Alias.__reduce__` = `(Alias, (key, target))`: rebuilding keeps the target, whatever its truth value -/
theorem alias_pickle_roundtrip (key target : Obj) : aliasInit key (some (aliasInit key (some target))) = target := rfl

/-! ### `execute_graph` as it runs: evaluation in `order`, reference counts, deletion of values no longer needed -/

/-- **The operational `execute_graph` computes the denotation, and its reference counting is safe** (Model/ExecGraph.lean:
    the cache is filled node by node in an order with dependencies first — what `dask.order.order` returns, C06 —,
    `refcount[dep] -= 1`, `del cache[dep]` when the count reaches zero and the key is not requested):
    everything in the returned cache is the value of its key, every key that may not be deleted is in it, and if every
    key has a value the run never fails — no node finds a dependency already deleted, no `del` hits a missing key. -/
theorem execute_graph_operational (g : NGraph) (cache0 : Cache) (keys : Option (List Obj))
    (hnodup : (g.map Prod.fst).Nodup) (htopo : TopoListed g)
    (hdisj : ∀ k ∈ g.map Prod.fst, cache0.lookup k = none) :
    (∀ final, execOrdered g (g.map Prod.fst) cache0 keys = some final →
      (∀ d v, final.lookup d = some v → Computes g (cacheEnv cache0) d v) ∧
      (∀ k ∈ g.map Prod.fst, deletable keys k = false →
        ∃ v, final.lookup k = some v ∧ Computes g (cacheEnv cache0) k v)) ∧
    ((∀ k ∈ g.map Prod.fst, ∃ v, Computes g (cacheEnv cache0) k v) →
      ∃ final, execOrdered g (g.map Prod.fst) cache0 keys = some final) :=
  execute_graph_correct g cache0 keys hnodup htopo hdisj

/-- non-vacuity: `a → b → c` with `keys = ['c']`: `a` and `b` are deleted as soon as their only dependent has run -/
example : execOrdered [(.str "a", .data (.int 1)), (.str "b", .task (.call (.fn 0)) [.ref (.str "a")] []),
      (.str "c", .task (.call (.fn 1)) [.ref (.str "b")] [])] [.str "a", .str "b", .str "c"] [] (some [.str "c"]) =
    some [(.str "c", .app 1 [.app 0 [.int 1] []] [])] := by decide
/-- … and the listing is topological -/
example : TopoListed [(.str "a", .data (.int 1)), (.str "b", .task (.call (.fn 0)) [.ref (.str "a")] [])] := by
  intro P k n R hg d hd _
  match P, hg with
  | [], hg =>
    simp only [List.nil_append, List.cons.injEq, Prod.mk.injEq] at hg
    obtain ⟨⟨_, rfl⟩, _⟩ := hg
    simp [Node.deps] at hd
  | [p], hg =>
    simp only [List.cons_append, List.nil_append, List.cons.injEq, Prod.mk.injEq] at hg
    obtain ⟨rfl, ⟨_, rfl⟩, _⟩ := hg
    simp [Node.deps, depsList, depsKw] at hd
    simp [hd]
  | p :: q :: P', hg =>
    simp only [List.cons_append, List.cons.injEq] at hg
    have := hg.2.2
    simp at this

/-! ### non-vacuity of the graph-level and pickling hypotheses -/

/-- non-vacuity of the graph-level hypotheses: `{'a': 1, 'b': (f, 'a', [2, 'a'])}` -/
example : (∀ kv ∈ ([(.str "a", .int 1), (.str "b", .tuple [.fn 0, .str "a", .list [.int 2, .str "a"]])] : LGraph),
      kv.2.wf = true) ∧
    (∀ kv ∈ ([(.str "a", .int 1), (.str "b", .tuple [.fn 0, .str "a", .list [.int 2, .str "a"]])] : LGraph),
      convertTop [.str "a", .str "b"] kv.1 kv.2 ≠ none) ∧
    (∀ k ∈ [Obj.str "a", .str "b"], k.keyTyped = true) := by decide

open Dask.Pickle Dask.Generated.TaskSpecSlots in
/-- non-vacuity: an object with every slot set survives the round trip -/
example : (taskRoundtrip (slotsTask.map fun s => (s, Obj.str s))).isSome = true := by decide
open Dask.Pickle Dask.Generated.TaskSpecSlots in
example : (containerRoundtrip (.fn 7) (slotsNestedContainer.map fun s =>
    (s, if s = "kwargs" then Obj.dict [(.str droppedKwarg, .fn 7)] else Obj.str s))).isSome = true := by decide

end Dask.C08
