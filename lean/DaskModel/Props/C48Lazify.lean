import DaskModel.Model.BagLazify
import DaskModel.Lemmas.BagLazify
/-! # C48 — bag `optimize` / `lazify` (anchor `dask/bag/core.py:162`): partitions that can be read more than once
stay lists

`lazify_task` removes `list` / `reify` calls in nested positions so that fused chains stream. A key whose value
becomes a one-shot iterator must be read at most once. Four places where the code got this wrong were found by
running random programs (`db.zip(b, b)`; a partition that `concat` / `repartition` hand on as an alias, computed
together with a consumer; the same partition read twice THROUGH such an alias; the renamed copy of a graph that an
`Item` keyword brings along) and repaired in /repo; the model follows the repaired code (`Cfg.fixed`), the original
behaviour is `Cfg.orig` and is refuted below. -/
namespace Dask.BagLazify

/-- **`lazify_top_keeps_list`**: at the top level (`start = True`: the value of a key of the graph) the repaired
    `lazify_task` never removes the `list` / `reify` at the head of a task — also not under the identity wrappers
    of a graph copied under new names -/
theorem lazify_top_keeps_list : (t : Node) → headReify t = true → headReify (lazify Cfg.fixed true t) = true
  | .call .reify args, _ => lazify_reify_top _ args
  | .call .ident [a], h => by
    have := lazify_top_keeps_list a (by simpa [headReify] using h)
    simpa [lazify, Cfg.fixed, headReify] using this
  | .call .ident [], h => by simp [headReify] at h
  | .call .ident (_ :: _ :: _), h => by simp [headReify] at h
  | .call .lazy _, h => by simp [headReify] at h
  | .call .other _, h => by simp [headReify] at h
  | .ref _, h => by simp [headReify] at h
  | .data, h => by simp [headReify] at h
  | .alias _, h => by simp [headReify] at h
  | .lst _, h => by simp [headReify] at h
  | .sub _ _ _, h => by simp [headReify] at h


/-- `lazify(dsk)`: every key of the graph whose value was a list still has a list -/
theorem lazify_graph_keeps_lists (dsk : List (Nat × Node)) (k : Nat) (n : Node) (h : (k, n) ∈ dsk)
    (hr : headReify n = true) : ∃ n', (k, n') ∈ lazifyGraph Cfg.fixed dsk ∧ headReify n' = true :=
  ⟨lazify Cfg.fixed true n, List.mem_map.mpr ⟨(k, n), h, rfl⟩, lazify_top_keeps_list n hr⟩

/-- the keys that MUST keep their list: the output, every key read more than once, and whatever such a key is
    an alias of (an alias hands on the very same object) -/
inductive MustKeep (inner : List (Nat × Node)) (out : Nat) : Nat → Prop
  | out : MustKeep inner out out
  | multi {k : Nat} : k ∈ inner.map (·.1) → 1 < refsInner k inner → MustKeep inner out k
  | alias {a t : Nat} : MustKeep inner out a → targetOf true inner a = some t → MustKeep inner out t

/-- **`keepSet_complete`**: the set the repaired code computes contains every key that must keep its list -/
theorem keepSet_complete (inner : List (Nat × Node)) (out k : Nat) (h : MustKeep inner out k) :
    k ∈ keepSet Cfg.fixed inner out := by
  have hc := closeAliases_closed true inner inner.length
    (out :: (inner.map (·.1)).filter fun k => 1 < refsInner k inner) (missing_le _ _ _)
  simp only [keepSet, Cfg.fixed, if_true]
  induction h with
  | out => exact hc.2 out (by simp)
  | multi hk hr => exact hc.2 _ (List.mem_cons_of_mem _ (List.mem_filter.mpr ⟨hk, by simpa using hr⟩))
  | alias _ ht ih => exact hc.1 _ ih _ ht

/-- **`lazify_sub_safe`**: in a fused task, every inner key that must keep its list (the output, a key read more
    than once, an alias target of such a key) and whose value was a list (head `list` / `reify`, possibly under
    identity wrappers) still is one after `lazify_task` — whatever `start` the fused task itself is lazified with -/
theorem lazify_sub_safe (start : Bool) (inner : List (Nat × Node)) (out : Nat) (deps : List Nat) (k : Nat) (n : Node)
    (hk : MustKeep inner out k) (hl : lookup inner k = some n) (hr : headReify n = true) :
    ∃ n', lookup (innerOf (lazify Cfg.fixed start (.sub inner out deps))) k = some n' ∧ headReify n' = true := by
  have hin := keepSet_complete inner out k hk
  refine ⟨lazify Cfg.fixed true n, ?_, lazify_top_keeps_list n hr⟩
  rw [lookup_lazify_sub, hl]
  have : (k == out || (keepSet Cfg.fixed inner out).contains k) = true := by simp [hin]
  rw [this]; rfl


/-! ## the original code and the intermediate repairs are refuted (concrete graphs of the defects found) -/

/-- `db.zip(b2, b2)` after fusion: key 0 = `reify(map_chunk(f, x))`, key 1 = `reify(zip(0, 0))` (the output) -/
def gZipSelf : Node := .sub [(0, .call .reify [.call .lazy [.ref 9]]), (1, .call .reify [.call .other [.ref 0, .ref 0]])] 1 [9]
/-- `concat([b2, …])` computed with a consumer: key 0 = `reify(map_chunk …)`, the output key 1 is an ALIAS of it -/
def gAliasOut : Node := .sub [(0, .call .reify [.call .lazy [.ref 9]]), (1, .alias 0)] 1 [9]
/-- `db.zip(c, c)` with `c = concat([b2, …])`: the alias 1 of key 0 is read twice by the output -/
def gAliasTwice : Node :=
  .sub [(0, .call .reify [.call .lazy [.ref 9]]), (1, .alias 0), (2, .call .reify [.call .other [.ref 1, .ref 1]])] 2 [9]
/-- a key of a graph copied for an `Item` keyword: `_identity(reify(map_chunk …))` -/
def gCopied : Node := .call .ident [.call .reify [.call .lazy [.ref 9]]]

/-- the state of key 0 after `lazify_task`: `some true` = still a list -/
def key0IsList (cfg : Cfg) (g : Node) : Option Bool := (lookup (innerOf (lazify cfg true g)) 0).map headReify

theorem orig_zip_self_unsafe : key0IsList Cfg.orig gZipSelf = some false ∧ key0IsList Cfg.fixed gZipSelf = some true := by
  decide
theorem multi_only_alias_out_unsafe :
    key0IsList ⟨true, false, false, false⟩ gAliasOut = some false ∧ key0IsList Cfg.fixed gAliasOut = some true := by decide
theorem alias_out_only_alias_twice_unsafe :
    key0IsList ⟨true, true, false, false⟩ gAliasTwice = some false ∧ key0IsList Cfg.fixed gAliasTwice = some true := by decide
theorem no_ident_copied_unsafe :
    headReify (lazify ⟨true, true, true, false⟩ true gCopied) = false ∧ headReify (lazify Cfg.fixed true gCopied) = true := by
  decide

/-! non-vacuity -/
def gAliasTwiceInner : List (Nat × Node) :=
  [(0, .call .reify [.call .lazy [.ref 9]]), (1, .alias 0), (2, .call .reify [.call .other [.ref 1, .ref 1]])]
theorem mustKeep_example : MustKeep gAliasTwiceInner 2 0 :=
  .alias (a := 1) (.multi (k := 1) (by decide) (by decide)) (by decide)
example : ∃ n', lookup (innerOf (lazify Cfg.fixed true (.sub gAliasTwiceInner 2 [9]))) 0 = some n' ∧ headReify n' = true :=
  lazify_sub_safe true gAliasTwiceInner 2 [9] 0 (.call .reify [.call .lazy [.ref 9]]) mustKeep_example rfl (by decide)

end Dask.BagLazify
