import DaskModel.Model.Repack
import DaskModel.Model.GraphMerge
import DaskModel.Lemmas.Restore
import DaskModel.Props.C12
import DaskModel.Props.C14
/-!
# C13 — collections computed together give the same values as computed alone

`dask.compute(c₁, …, cₙ)`: the graphs of the collections are merged, the keys of every collection are asked for
in the order of the collections (`__dask_keys__` of the optimised expression), and `repack` (C14) puts the
results back.  Two things must hold:

* `keys_restored` — after `_HLGExprSequence._tune_down` grouped the operands by their low level optimizer, the
  sequence still reports the keys in operand order (DESIGN.md §6 #32 was the failure of exactly this);
* `merge_sound` — evaluating a key of one collection in the merged graph gives what it gives in the graph of
  that collection alone, as long as keys the graphs share denote the same value.  That shared names denote the
  same value is what tokenisation (C11, C12) is for: `names_determine_values`.

Full statement: `compute_together_eq_alone` below (n collections).
-/
namespace Dask.C13
open Dask.Repack Dask.GraphMerge

/-! ## operand order -/

/-- **The tuned sequence reports its keys in the order of the operands**, whatever optimizers they have. -/
theorem keys_restored {κ : Type} (operands : List (Nat × κ)) :
    keysAfterTune operands = operands.map (fun o => some o.2) := by
  unfold keysAfterTune
  cases h : tuneDown operands with
  | none => rfl
  | some ops =>
    unfold tuneDown at h
    split at h
    · simp at h
    · dsimp only at h
      split at h
      · simp only [Option.some.injEq] at h
        subst h
        simp only
        rw [daskKeys_groupby _ (enumerated_enumFrom operands)]
        have := enumFrom_map_snd 0 operands
        calc (enumFrom 0 operands).map (fun e => some e.2.2)
            = ((enumFrom 0 operands).map (·.2)).map (fun o => some o.2) := by simp [List.map_map]
          _ = operands.map (fun o => some o.2) := by rw [this]
      · simp at h

/-- non-vacuity: bag, array, array, bag (optimizers 2, 1, 1, 2) is really regrouped by `_tune_down` -/
example : (tuneDown [(2, "b1"), (1, "a4"), (1, "a2"), (2, "b2")]).isSome = true := by decide
example : (tuneDown [(2, "b1"), (1, "a4"), (1, "a2"), (2, "b2")]).map flatKeys
    = some [(some 0, "b1"), (some 3, "b2"), (some 1, "a4"), (some 2, "a2")] := by decide

/-! ## merging graphs -/

variable {κ V : Type}

/-- every dependency of every task is defined in the graph -/
def Closed (g : Graph κ V) : Prop := ∀ k t, g k = some t → ∀ d ∈ t.deps, (g d).isSome = true

/-- `get(g, k) = v` -/
def Evals (g : Graph κ V) (k : κ) (v : V) : Prop := ∃ n, evalG g n k = some v

theorem sequence_map_mono {f f' : κ → Option V} : ∀ (l : List κ) (vs : List V),
    (∀ d ∈ l, ∀ x, f d = some x → f' d = some x) → sequence (l.map f) = some vs → sequence (l.map f') = some vs
  | [], vs, _, h => by simpa [sequence] using h
  | d :: l, vs, hf, h => by
    simp only [List.map_cons] at h ⊢
    cases hd : f d with
    | none => simp [hd, sequence] at h
    | some x =>
      rw [hd] at h
      simp only [sequence] at h
      cases hr : sequence (l.map f) with
      | none => simp [hr] at h
      | some r =>
        rw [hr] at h
        have ih := sequence_map_mono l r (fun d' hd' => hf d' (List.mem_cons_of_mem _ hd')) hr
        rw [hf d (by simp) x hd]
        simp only [sequence, ih]
        exact h

theorem evalG_step (g : Graph κ V) (n : Nat) (k : κ) :
    evalG g (n + 1) k = match g k with
      | none => none
      | some t => (sequence (t.deps.map (evalG g n))).map t.fn := rfl

theorem evalG_succ (g : Graph κ V) : ∀ (n : Nat) (k : κ) (v : V), evalG g n k = some v → evalG g (n + 1) k = some v
  | 0, _, _, h => by simp [evalG] at h
  | n + 1, k, v, h => by
    rw [evalG_step] at h ⊢
    cases hk : g k with
    | none => simp [hk] at h
    | some t =>
      rw [hk] at h
      simp only at h ⊢
      cases hs : sequence (t.deps.map (evalG g n)) with
      | none => simp [hs] at h
      | some vs =>
        rw [hs] at h
        rw [sequence_map_mono t.deps vs (fun d _ x hx => evalG_succ g n d x hx) hs]
        exact h

theorem evalG_mono (g : Graph κ V) {n m : Nat} (hnm : n ≤ m) {k : κ} {v : V} (h : evalG g n k = some v) :
    evalG g m k = some v := by
  induction hnm with
  | refl => exact h
  | step _ ih => exact evalG_succ g _ k v ih

/-- the value of a key does not depend on how much fuel found it -/
theorem Evals.unique {g : Graph κ V} {k : κ} {v v' : V} (h : Evals g k v) (h' : Evals g k v') : v = v' := by
  obtain ⟨n, hn⟩ := h
  obtain ⟨m, hm⟩ := h'
  have h1 := evalG_mono g (Nat.le_max_left n m) hn
  have h2 := evalG_mono g (Nat.le_max_right n m) hm
  rw [h1] at h2
  exact Option.some.inj h2

/-- keys of the later graph evaluate in the merged graph as in the later graph -/
theorem merge_right (g1 g2 : Graph κ V) (hc : Closed g2) : ∀ (n : Nat) (k : κ) (v : V),
    (g2 k).isSome = true → evalG g2 n k = some v → evalG (merge g1 g2) n k = some v
  | 0, _, _, _, h => by simp [evalG] at h
  | n + 1, k, v, hk, h => by
    rw [evalG_step] at h ⊢
    cases hg : g2 k with
    | none => simp [hg] at hk
    | some t =>
      rw [hg] at h
      have hm : merge g1 g2 k = some t := by simp [merge, hg]
      rw [hm]
      simp only at h ⊢
      cases hs : sequence (t.deps.map (evalG g2 n)) with
      | none => simp [hs] at h
      | some vs =>
        rw [hs] at h
        rw [sequence_map_mono t.deps vs (fun d hd x hx => merge_right g1 g2 hc n d x (hc k t hg d hd) hx) hs]
        exact h

/-- dependency values found with different amounts of fuel are all found with the largest one -/
theorem sequence_common_fuel (g' : Graph κ V) {f : κ → Option V} : ∀ (l : List κ) (vs : List V),
    (∀ d ∈ l, ∀ x, f d = some x → ∃ m, evalG g' m d = some x) → sequence (l.map f) = some vs →
    ∃ N, sequence (l.map (evalG g' N)) = some vs
  | [], vs, _, h => ⟨0, by simpa [sequence] using h⟩
  | d :: l, vs, hf, h => by
    simp only [List.map_cons] at h
    cases hd : f d with
    | none => simp [hd, sequence] at h
    | some x =>
      rw [hd] at h
      simp only [sequence] at h
      cases hr : sequence (l.map f) with
      | none => simp [hr] at h
      | some r =>
        rw [hr] at h
        obtain ⟨m, hm⟩ := hf d (by simp) x hd
        obtain ⟨N, hN⟩ := sequence_common_fuel g' l r (fun d' hd' => hf d' (List.mem_cons_of_mem _ hd')) hr
        refine ⟨max m N, ?_⟩
        simp only [List.map_cons]
        rw [evalG_mono g' (Nat.le_max_left m N) hm]
        simp only [sequence]
        rw [sequence_map_mono l r (fun d' _ x hx => evalG_mono g' (Nat.le_max_right m N) hx) hN]
        exact h

/-- **Keys of the earlier graph evaluate in the merged graph as in the earlier graph**, provided the keys the
    two graphs share denote the same values. -/
theorem merge_left (g1 g2 : Graph κ V) (hc1 : Closed g1) (hc2 : Closed g2)
    (hag : ∀ k, (g1 k).isSome = true → (g2 k).isSome = true → ∀ v, Evals g1 k v → Evals g2 k v) :
    ∀ (n : Nat) (k : κ) (v : V), (g1 k).isSome = true → evalG g1 n k = some v → Evals (merge g1 g2) k v
  | 0, _, _, _, h => by simp [evalG] at h
  | n + 1, k, v, hk, h => by
    cases hg2 : g2 k with
    | some t2 =>
      obtain ⟨m, hm⟩ := hag k hk (by simp [hg2]) v ⟨n + 1, h⟩
      exact ⟨m, merge_right g1 g2 hc2 m k v (by simp [hg2]) hm⟩
    | none =>
      cases hg1 : g1 k with
      | none => simp [hg1] at hk
      | some t =>
        rw [evalG_step, hg1] at h
        simp only at h
        cases hs : sequence (t.deps.map (evalG g1 n)) with
        | none => simp [hs] at h
        | some vs =>
          rw [hs] at h
          obtain ⟨N, hN⟩ := sequence_common_fuel (merge g1 g2) t.deps vs
            (fun d hd x hx => merge_left g1 g2 hc1 hc2 hag n d x (hc1 k t hg1 d hd) hx) hs
          refine ⟨N + 1, ?_⟩
          have hm : merge g1 g2 k = some t := by simp [merge, hg2, hg1]
          rw [evalG_step, hm]
          simp only
          rw [hN]
          exact h

/-- `merge_sound`: both collections see their own values in the merged graph -/
theorem merge_sound (g1 g2 : Graph κ V) (hc1 : Closed g1) (hc2 : Closed g2)
    (hag : ∀ k, (g1 k).isSome = true → (g2 k).isSome = true → ∀ v, Evals g1 k v → Evals g2 k v) (k : κ) (v : V) :
    ((g1 k).isSome = true → Evals g1 k v → Evals (merge g1 g2) k v) ∧
    ((g2 k).isSome = true → Evals g2 k v → Evals (merge g1 g2) k v) :=
  ⟨fun hk ⟨n, hn⟩ => merge_left g1 g2 hc1 hc2 hag n k v hk hn,
   fun hk ⟨n, hn⟩ => ⟨n, merge_right g1 g2 hc2 n k v hk hn⟩⟩

/-! ## any number of collections -/

theorem closed_merge (g1 g2 : Graph κ V) (hc1 : Closed g1) (hc2 : Closed g2) : Closed (merge g1 g2) := by
  intro k t hk d hd
  simp only [merge] at hk ⊢
  cases hg2 : g2 k with
  | some t2 =>
    rw [hg2] at hk
    simp only [Option.some.injEq] at hk
    subst hk
    have := hc2 k t2 hg2 d hd
    cases hd2 : g2 d with
    | none => simp [hd2] at this
    | some _ => simp
  | none =>
    rw [hg2] at hk
    have := hc1 k t hk d hd
    cases hd2 : g2 d with
    | none => simpa using this
    | some _ => simp

theorem closed_mergeAll : ∀ (gs : List (Graph κ V)), (∀ g ∈ gs, Closed g) → Closed (mergeAll gs)
  | [], _ => by intro k t hk; simp [mergeAll, emptyG] at hk
  | g :: gs, h => closed_merge g (mergeAll gs) (h g (by simp))
      (closed_mergeAll gs (fun g' hg' => h g' (List.mem_cons_of_mem _ hg')))

theorem dom_mergeAll : ∀ (gs : List (Graph κ V)) (k : κ), (mergeAll gs k).isSome = true → ∃ g ∈ gs, (g k).isSome = true
  | [], k, h => by simp [mergeAll, emptyG] at h
  | g :: gs, k, h => by
    simp only [mergeAll, merge] at h
    cases hm : mergeAll gs k with
    | some t =>
      obtain ⟨g', hg', hk'⟩ := dom_mergeAll gs k (by simp [hm])
      exact ⟨g', List.mem_cons_of_mem _ hg', hk'⟩
    | none =>
      rw [hm] at h
      exact ⟨g, by simp, h⟩

/-- every collection sees its own values in the graph merged from all collections -/
theorem mergeAll_sound : ∀ (gs : List (Graph κ V)), (∀ g ∈ gs, Closed g) →
    (∀ g ∈ gs, ∀ g' ∈ gs, ∀ k, (g k).isSome = true → (g' k).isSome = true → ∀ v, Evals g k v → Evals g' k v) →
    ∀ g ∈ gs, ∀ k v, (g k).isSome = true → Evals g k v → Evals (mergeAll gs) k v
  | [], _, _, g, hg, _, _, _, _ => by simp at hg
  | g0 :: rest, hc, hag, g, hg, k, v, hk, hv => by
    have hcr : ∀ g ∈ rest, Closed g := fun g' hg' => hc g' (List.mem_cons_of_mem _ hg')
    have hagr : ∀ g ∈ rest, ∀ g' ∈ rest, ∀ k, (g k).isSome = true → (g' k).isSome = true →
        ∀ v, Evals g k v → Evals g' k v :=
      fun a ha b hb => hag a (List.mem_cons_of_mem _ ha) b (List.mem_cons_of_mem _ hb)
    have ih := mergeAll_sound rest hcr hagr
    have hcm := closed_mergeAll rest hcr
    simp only [mergeAll]
    rcases List.mem_cons.mp hg with rfl | hg'
    · obtain ⟨n, hn⟩ := hv
      refine merge_left g (mergeAll rest) (hc g (by simp)) hcm ?_ n k v hk hn
      intro k' hk1 hk2 v' hv'
      obtain ⟨g', hg', hk'⟩ := dom_mergeAll rest k' hk2
      exact ih g' hg' k' v' hk' (hag g (by simp) g' (List.mem_cons_of_mem _ hg') k' hk1 hk' v' hv')
    · obtain ⟨n, hn⟩ := ih g hg' k v hk hv
      have hdom : (mergeAll rest k).isSome = true := by
        cases hm : mergeAll rest k with
        | some _ => rfl
        | none =>
          -- a key that evaluates is defined
          cases n with
          | zero => simp [evalG] at hn
          | succ n => rw [evalG_step, hm] at hn; simp at hn
      exact ⟨n, merge_right g0 (mergeAll rest) hcm n k v hdom hn⟩

/-- **Computing together = computing alone.**  For collections `(optimizer, output key, graph)`:
    the keys asked of the scheduler are the output keys in the order of the collections, and each of them evaluates
    in the merged graph to what it evaluates to in the graph of its own collection — provided keys shared between
    graphs denote the same value (which equal names guarantee, `names_determine_values`). -/
theorem compute_together_eq_alone (cs : List (Nat × κ × Graph κ V))
    (hc : ∀ c ∈ cs, Closed c.2.2)
    (hag : ∀ c ∈ cs, ∀ c' ∈ cs, ∀ k, (c.2.2 k).isSome = true → (c'.2.2 k).isSome = true →
      ∀ v, Evals c.2.2 k v → Evals c'.2.2 k v) :
    keysAfterTune (cs.map (fun c => (c.1, c.2.1))) = cs.map (fun c => some c.2.1) ∧
    ∀ c ∈ cs, ∀ v, Evals c.2.2 c.2.1 v → Evals (mergeAll (cs.map (·.2.2))) c.2.1 v := by
  refine ⟨?_, ?_⟩
  · rw [keys_restored]
    simp [List.map_map, Function.comp_def]
  · intro c hcmem v hv
    have hdom : (c.2.2 c.2.1).isSome = true := by
      obtain ⟨n, hn⟩ := hv
      cases hm : c.2.2 c.2.1 with
      | some _ => rfl
      | none =>
        cases n with
        | zero => simp [evalG] at hn
        | succ n => rw [evalG_step, hm] at hn; simp at hn
    refine mergeAll_sound (cs.map (·.2.2)) ?_ ?_ c.2.2 (List.mem_map_of_mem hcmem) c.2.1 v hdom hv
    · intro g hg
      obtain ⟨c', hc', rfl⟩ := List.mem_map.mp hg
      exact hc c' hc'
    · intro g hg g' hg'
      obtain ⟨a, ha, rfl⟩ := List.mem_map.mp hg
      obtain ⟨b, hb, rfl⟩ := List.mem_map.mp hg'
      exact hag a ha b hb

/-! ## the whole of `dask.compute(*args)` -/

/-- **`dask.compute(*args)`**: `unpack_collections` extracts the collections `cs` (deduplicated by token); the scheduler
    is asked for the output keys of the optimised expression — which are the collections' keys in order, whatever the
    optimiser grouped — in the merge of their graphs, where each key evaluates to the value `val t` the collection
    computes to alone; and `repack` puts those values back into the argument structure: the result is `args` with
    every collection replaced by the value it computes to alone, nothing else changed. -/
theorem compute_spec (args : List (Tree Nat)) (opt : Nat → Nat) (key : Nat → κ) (graph : Nat → Graph κ V) (val : Nat → V)
    (hc : ∀ t ∈ (unpackArgs args).1, Closed (graph t))
    (hag : ∀ t ∈ (unpackArgs args).1, ∀ t' ∈ (unpackArgs args).1, ∀ k, (graph t k).isSome = true → (graph t' k).isSome = true →
      ∀ v, Evals (graph t) k v → Evals (graph t') k v)
    (hv : ∀ t ∈ (unpackArgs args).1, Evals (graph t) (key t) (val t)) :
    keysAfterTune ((unpackArgs args).1.map (fun t => (opt t, key t))) = (unpackArgs args).1.map (fun t => some (key t)) ∧
    (∀ t ∈ (unpackArgs args).1, Evals (mergeAll ((unpackArgs args).1.map graph)) (key t) (val t)) ∧
    repack ((unpackArgs args).1.map val) (unpackArgs args).2 = some (.tuple (mapCollL val args)) := by
  refine ⟨?_, ?_, C14.repack_unpack val args⟩
  · rw [keys_restored]
    simp [List.map_map, Function.comp_def]
  · intro t ht
    have hdom : (graph t (key t)).isSome = true := by
      obtain ⟨n, hn⟩ := hv t ht
      cases hm : graph t (key t) with
      | some _ => rfl
      | none =>
        cases n with
        | zero => simp [evalG] at hn
        | succ n => rw [evalG_step, hm] at hn; simp at hn
    refine mergeAll_sound _ ?_ ?_ (graph t) (List.mem_map_of_mem ht) (key t) (val t) hdom (hv t ht)
    · intro g hg
      obtain ⟨t', ht', rfl⟩ := List.mem_map.mp hg
      exact hc t' ht'
    · intro g hg g' hg'
      obtain ⟨a, ha, rfl⟩ := List.mem_map.mp hg
      obtain ⟨b, hb, rfl⟩ := List.mem_map.mp hg'
      exact hag a ha b hb

/-! ## equal names denote equal inputs -/

/-- how collection layers are named: `prefix-tokenize(*args)` (from_array, elemwise, from_sequence, pure delayed
    calls, expression `_name`s); the token is kept as its pre-image (md5 assumed injective) -/
def nameOf (pre : String) (args : List NF.Val) : String × NF.Val := (pre, .digest (.tuple (NF.normL args)))

/-- **Equal names ⇒ same operation on observably equal arguments**; so two graphs that share a key define it by
    the same computation, which is the agreement hypothesis of `compute_together_eq_alone`. -/
theorem names_determine_values (p p' : String) (a b : List NF.Val) (h : nameOf p a = nameOf p' b) :
    p = p' ∧ NF.ObsEqL a b := by
  simp only [nameOf, Prod.mk.injEq, NF.Val.digest.injEq, NF.Val.tuple.injEq] at h
  exact ⟨h.1, C12.normL_injective a b h.2⟩

/-! ## non-vacuity: two collections that share a key -/

/-- `x = 1`, `a = x + 1` -/
def gA : Graph String Nat := fun k =>
  if k = "x" then some ⟨[], fun _ => 1⟩
  else if k = "a" then some ⟨["x"], fun vs => vs.headD 0 + 1⟩
  else none
/-- `x = 1`, `b = x * 10` -/
def gB : Graph String Nat := fun k =>
  if k = "x" then some ⟨[], fun _ => 1⟩
  else if k = "b" then some ⟨["x"], fun vs => vs.headD 0 * 10⟩
  else none

example : evalG (mergeAll [gA, gB]) 2 "a" = some 2 ∧ evalG (mergeAll [gA, gB]) 2 "b" = some 10 ∧
    evalG gA 2 "a" = some 2 ∧ evalG gB 2 "b" = some 10 := by decide

/-- without agreement on the shared key the merged graph gives `a` another value: the hypothesis is needed -/
def gB' : Graph String Nat := fun k =>
  if k = "x" then some ⟨[], fun _ => 5⟩
  else if k = "b" then some ⟨["x"], fun vs => vs.headD 0 * 10⟩
  else none

theorem shared_key_must_agree : evalG gA 2 "a" = some 2 ∧ evalG (mergeAll [gA, gB']) 2 "a" = some 6 := by decide

end Dask.C13
