import DaskModel.Lemmas.RelExprLemmas
import DaskModel.Lemmas.OrRewriteLemmas
/-!
# C43 — the DataFrame optimizer preserves results and converges

What is proved (for the modelled expression classes: FromPandas root, Projection (list / scalar),
Filter, Assign, Binop subclasses, Invert, literals):

* `nf_sound` — the symbolic normal form denotes what the expression denotes:
  `nf e = some n → den e = some (denNF n)` for every well-formed source frame;
* `equiv_sound` / `checkStep_sound` — two expressions whose normal forms have the same output
  expressions and equivalent filters (the same SET of conjuncts, or the same truth table over their atoms: `p | p = p`,
  `(p & q) | (p & r) = p & (q | r)`, …) compute the same pandas object
  (this covers, uniformly, projection pushdown through filter/assign/elemwise, projection∘projection
  collapse, filter pushdown and filter∘filter squashing into `p & q`, the assign-shadowing rule, and
  dropping unused assigns: every such rewrite leaves the normal form unchanged);
* `checkTrace_sound` — a whole optimizer trace whose consecutive steps pass the check preserves the
  result (`idempotent_result` is the two-run instance).

The harness records the REAL optimizer's trace (`simplify_once` rounds, `lower_completely`, second
simplify, fuse) for random programs, translates every intermediate expression and requires the
compiled `checkTrace` to accept it; expressions with classes outside the fragment are counted, not
checked (partial). Convergence of the real optimizer is observed (no RuntimeError, fixed point on
re-optimisation), not proved.
-/
namespace Dask.C43
open Dask.RelExpr

structure WF (s : Src) : Prop where
  nodup : s.cols.Nodup
  lens : ∀ r ∈ s.rows, r.length = s.cols.length

theorem ids_map {α β} (l : List (Nat × α)) (f : Nat × α → β) : ids (l.map (fun ir => (ir.1, f ir))) = ids l := by
  simp [ids, List.map_map, Function.comp_def]

theorem setCX_keys_nodup (cols : List (String × CX)) (n : String) (c : CX) (h : (cols.map (·.1)).Nodup) :
    ((setCX cols n c).map (·.1)).Nodup := by
  unfold setCX
  by_cases hany : cols.any (fun x => x.1 == n) = true
  · simp only [hany, if_true, List.map_map]
    have : (cols.map ((fun x => x.1) ∘ fun kv => if (kv.1 == n) = true then (n, c) else kv)) = cols.map (·.1) := by
      apply List.map_congr_left
      intro kv _
      simp only [Function.comp]
      by_cases hk : (kv.1 == n) = true
      · simp [hk]; exact (by simpa using hk : kv.1 = n).symm
      · simp [hk]
    rw [this]; exact h
  · simp only [hany, Bool.false_eq_true, if_false, List.map_append, List.map_cons, List.map_nil]
    rw [List.nodup_append]
    refine ⟨h, by simp, ?_⟩
    intro a ha b hb
    simp only [List.mem_singleton] at hb
    subst hb
    intro heq
    subst heq
    apply hany
    simp only [List.any_eq_true]
    simp only [List.mem_map] at ha
    obtain ⟨kv, hkv, hk⟩ := ha
    exact ⟨kv, hkv, by simp [hk]⟩

/-- column names of a frame normal form are distinct -/
theorem nf_nodup (sc : List String) (hsc : sc.Nodup) :
    ∀ (e : E) (fl : List CX) (cols : List (String × CX)), nf sc e = some (.frame fl cols) → (cols.map (·.1)).Nodup := by
  intro e
  induction e with
  | src =>
    intro fl cols h
    simp only [nf, Option.some.injEq, NF.frame.injEq] at h
    rw [← h.2]; simpa [List.map_map, Function.comp_def] using hsc
  | proj cs f ih =>
    intro fl cols h
    simp only [nf] at h
    cases hf : nf sc f with
    | none => simp [hf] at h
    | some nff =>
      cases nff with
      | frame fl0 cols0 =>
        simp only [hf] at h
        split at h
        · rename_i hc
          simp only [Option.some.injEq, NF.frame.injEq] at h
          rw [← h.2]
          simp only [Bool.and_eq_true, decide_eq_true_eq] at hc
          simpa [List.map_map, Function.comp_def] using hc.1
        · cases h
      | series _ _ => simp [hf] at h
      | scalar _ => simp [hf] at h
  | filter f p ihf _ =>
    intro fl cols h
    simp only [nf] at h
    cases hf : nf sc f with
    | none => simp [hf] at h
    | some nff =>
      cases nff with
      | frame fl0 cols0 =>
        cases hp : nf sc p with
        | none => simp [hf, hp] at h
        | some nfp =>
          cases nfp with
          | series fl1 c =>
            simp only [hf, hp] at h
            split at h
            · simp only [Option.some.injEq, NF.frame.injEq] at h
              rw [← h.2]; exact ihf fl0 cols0 hf
            · cases h
          | frame _ _ => simp [hf, hp] at h
          | scalar _ => simp [hf, hp] at h
      | series fl0 x =>
        cases hp : nf sc p with
        | none => simp [hf, hp] at h
        | some nfp =>
          cases nfp with
          | series fl1 c =>
            simp only [hf, hp] at h
            split at h <;> simp at h
          | frame _ _ => simp [hf, hp] at h
          | scalar _ => simp [hf, hp] at h
      | scalar _ => simp [hf] at h
  | assign f n v ihf _ =>
    intro fl cols h
    simp only [nf] at h
    cases hf : nf sc f with
    | none => simp [hf] at h
    | some nff =>
      cases nff with
      | frame fl0 cols0 =>
        cases hv : nf sc v with
        | none => simp [hf, hv] at h
        | some nfv =>
          cases nfv with
          | series fl1 c =>
            simp only [hf, hv] at h
            split at h
            · simp only [Option.some.injEq, NF.frame.injEq] at h
              rw [← h.2]; exact setCX_keys_nodup _ _ _ (ihf fl0 cols0 hf)
            · cases h
          | scalar c =>
            simp only [hf, hv, Option.some.injEq, NF.frame.injEq] at h
            rw [← h.2]; exact setCX_keys_nodup _ _ _ (ihf fl0 cols0 hf)
          | frame _ _ => simp [hf, hv] at h
      | series _ _ => simp [hf] at h
      | scalar _ => simp [hf] at h
  | col f n _ =>
    intro fl cols h
    simp only [nf] at h
    cases hf : nf sc f with
    | none => simp [hf] at h
    | some nff => cases nff <;> simp [hf] at h <;> (cases hl : lookupCX _ n <;> simp [hl] at h)
  | lit k => intro fl cols h; simp [nf] at h
  | bin op a b _ _ =>
    intro fl cols h
    simp only [nf] at h
    cases ha : nf sc a with
    | none => simp [ha] at h
    | some na =>
      cases hb : nf sc b with
      | none => cases na <;> simp [ha, hb] at h
      | some nb => cases na <;> cases nb <;> simp [ha, hb] at h <;> (split at h <;> simp at h)
  | not a _ =>
    intro fl cols h
    simp only [nf] at h
    cases ha : nf sc a with
    | none => simp [ha] at h
    | some na => cases na <;> simp [ha] at h

theorem setCX_agree (sc : List String) (r : List Cell) (cols : List (String × CX)) (n : String) (c : CX)
    (hnd : (cols.map (·.1)).Nodup) :
    match colIdx (cols.map (·.1)) n with
    | some j => (setCX cols n c).map (·.1) = cols.map (·.1) ∧
        (setCX cols n c).map (fun kv => kv.2.eval sc r) = (cols.map (fun kv => kv.2.eval sc r)).set j (c.eval sc r)
    | none => setCX cols n c = cols ++ [(n, c)] := by
  induction cols with
  | nil => simp [colIdx, setCX]
  | cons kv rest ih =>
    have hnd' : kv.1 ∉ rest.map (·.1) ∧ (rest.map (·.1)).Nodup := by
      have := hnd
      rw [List.map_cons, List.nodup_cons] at this
      exact this
    simp only [List.map_cons, colIdx_cons]
    by_cases hk : (kv.1 == n) = true
    · have hkn : kv.1 = n := by simpa using hk
      simp only [hk, if_true]
      have hrest : ∀ kv' ∈ rest, (kv'.1 == n) = false := by
        intro kv' hm
        simp only [beq_eq_false_iff_ne, ne_eq]
        intro h2
        apply hnd'.1
        rw [hkn, ← h2]
        exact List.mem_map_of_mem hm
      have hmap : rest.map (fun kv => if (kv.1 == n) = true then (n, c) else kv) = rest := by
        have : rest.map (fun kv => if (kv.1 == n) = true then (n, c) else kv) = rest.map id := by
          apply List.map_congr_left
          intro kv' hm
          simp [hrest kv' hm]
        rw [this, List.map_id]
      simp only [setCX, List.any_cons, hk, Bool.true_or, if_true, List.map_cons, hmap, List.set_cons_zero]
      exact ⟨by rw [hkn], trivial⟩
    · simp only [hk, Bool.false_eq_true, if_false]
      have ih' := ih hnd'.2
      cases hci : colIdx (rest.map (·.1)) n with
      | none =>
        simp only [hci] at ih'
        have hany : rest.any (fun x => x.1 == n) = false := by
          cases h : rest.any (fun x => x.1 == n) with
          | false => rfl
          | true =>
            exfalso
            simp only [setCX, h, if_true] at ih'
            have hl := congrArg List.length ih'
            simp at hl
        simp [setCX, hk, hany]
      | some j =>
        simp only [hci] at ih'
        have hany : rest.any (fun x => x.1 == n) = true := by
          have := (colIdx_isSome_iff_mem (rest.map (·.1)) n).mp (by simp [hci])
          simp only [List.mem_map] at this
          obtain ⟨kv', hm, hk'⟩ := this
          simp only [List.any_eq_true]
          exact ⟨kv', hm, by simp [hk']⟩
        simp only [setCX, hany, if_true] at ih'
        simp only [Option.map_some, setCX, List.any_cons, hk, hany, Bool.or_true, if_true, List.map_cons, Bool.false_eq_true, if_false,
          List.set_cons_succ]
        exact ⟨by rw [ih'.1], by rw [ih'.2]⟩

theorem map_filter_eq {α β} (l : List α) (p : α → Bool) (f : α → β) :
    (l.filter p).map f = l.filterMap (fun x => if p x = true then some (f x) else none) := by
  induction l with
  | nil => rfl
  | cons x xs ih => by_cases h : p x = true <;> simp [h, ih]

theorem keep_nil_rows (s : Src) : keep s [] = s.rows.zipIdx.map (fun (r, i) => (i, r)) := by
  simp [keep]

theorem keep_mem_len (s : Src) (hwf : WF s) (fl : List CX) : ∀ ir ∈ keep s fl, ir.2.length = s.cols.length := by
  intro ir hir
  simp only [keep, List.mem_filter, List.mem_map] at hir
  obtain ⟨⟨ri, hri, heq⟩, _⟩ := hir
  subst heq
  exact hwf.lens _ (List.fst_mem_of_mem_zipIdx hri)

/-- **normal forms are sound** -/
theorem nf_sound (s : Src) (hwf : WF s) : ∀ (e : E) (n : NF), nf s.cols e = some n → den s e = some (denNF s n) := by
  intro e
  induction e with
  | src =>
    intro n h
    simp only [nf, Option.some.injEq] at h
    subst h
    simp only [den, denNF, keep_nil_rows, List.map_map, Function.comp_def, Option.some.injEq, Val.frame.injEq]
    refine ⟨by simp, ?_⟩
    apply List.map_congr_left
    intro ri hri
    have hlen := hwf.lens _ (List.fst_mem_of_mem_zipIdx hri)
    have := map_getCell_self s.cols hwf.nodup ri.1 hlen
    simp only [CX.eval]
    rw [this]
  | lit k =>
    intro n h
    simp only [nf, Option.some.injEq] at h
    subst h
    simp [den, denNF]
  | proj cs f ih =>
    intro n h
    simp only [nf] at h
    cases hf : nf s.cols f with
    | none => simp [hf] at h
    | some nff =>
      cases nff with
      | frame fl cols =>
        simp only [hf] at h
        split at h
        · rename_i hc
          simp only [Option.some.injEq] at h
          subst h
          simp only [Bool.and_eq_true, decide_eq_true_eq, List.all_eq_true] at hc
          have hden := ih _ hf
          simp only [den, hden, denNF]
          have hall : cs.all (fun c => (colIdx (cols.map (·.1)) c).isSome) = true := by
            simp only [List.all_eq_true]
            intro c hcm
            have := lookup_agree s.cols [] cols c
            cases hl : lookupCX cols c with
            | none => have := hc.2 c hcm; simp [hl] at this
            | some cx => simp only [hl] at this; exact this.1
          simp only [hall, if_true, List.map_map, Function.comp_def, Option.some.injEq, Val.frame.injEq]
          refine ⟨by simp, ?_⟩
          apply List.map_congr_left
          intro ir _
          simp only [Prod.mk.injEq, true_and]
          apply List.map_congr_left
          intro c hcm
          have := lookup_agree s.cols ir.2 cols c
          cases hl : lookupCX cols c with
          | none => have := hc.2 c hcm; simp [hl] at this
          | some cx => simp only [hl] at this; simp [this.2]
        · cases h
      | series _ _ => simp [hf] at h
      | scalar _ => simp [hf] at h
  | col f nm ih =>
    intro n h
    simp only [nf] at h
    cases hf : nf s.cols f with
    | none => simp [hf] at h
    | some nff =>
      cases nff with
      | frame fl cols =>
        simp only [hf] at h
        cases hl : lookupCX cols nm with
        | none => simp [hl] at h
        | some cx =>
          simp only [hl, Option.map_some, Option.some.injEq] at h
          subst h
          have hden := ih _ hf
          simp only [den, hden, denNF]
          have h0 := lookup_agree s.cols [] cols nm
          simp only [hl] at h0
          simp only [h0.1, if_true, List.map_map, Function.comp_def, Option.some.injEq, Val.series.injEq]
          apply List.map_congr_left
          intro ir _
          have := lookup_agree s.cols ir.2 cols nm
          simp only [hl] at this
          simp [this.2]
      | series _ _ => simp [hf] at h
      | scalar _ => simp [hf] at h
  | filter f p ihf ihp =>
    intro n h
    simp only [nf] at h
    cases hf : nf s.cols f with
    | none => simp [hf] at h
    | some nff =>
      cases nff with
      | frame fl cols =>
        cases hp : nf s.cols p with
        | none => simp [hf, hp] at h
        | some nfp =>
          cases nfp with
          | series fl' c =>
            simp only [hf, hp] at h
            split at h
            · rename_i hss
              simp only [Option.some.injEq] at h
              subst h
              have hdf := ihf _ hf
              have hdp := ihp _ hp
              simp only [den, hdf, hdp, denNF]
              rw [← keep_sameSet s fl fl' hss]
              simp only [ids_map, beq_self_eq_true, if_true, zip_map_map, List.filterMap_map, Function.comp_def,
                Option.some.injEq, Val.frame.injEq, true_and]
              rw [keep_append, map_filter_eq]
            · cases h
          | frame _ _ => simp [hf, hp] at h
          | scalar _ => simp [hf, hp] at h
      | series fl x =>
        cases hp : nf s.cols p with
        | none => simp [hf, hp] at h
        | some nfp =>
          cases nfp with
          | series fl' c =>
            simp only [hf, hp] at h
            split at h
            · rename_i hss
              simp only [Option.some.injEq] at h
              subst h
              have hdf := ihf _ hf
              have hdp := ihp _ hp
              simp only [den, hdf, hdp, denNF]
              rw [← keep_sameSet s fl fl' hss]
              simp only [ids_map, beq_self_eq_true, if_true, zip_map_map, List.filterMap_map, Function.comp_def,
                Option.some.injEq, Val.series.injEq]
              rw [keep_append, map_filter_eq]
            · cases h
          | frame _ _ => simp [hf, hp] at h
          | scalar _ => simp [hf, hp] at h
      | scalar _ => simp [hf] at h
  | assign f nm v ihf ihv =>
    intro n h
    simp only [nf] at h
    cases hf : nf s.cols f with
    | none => simp [hf] at h
    | some nff =>
      cases nff with
      | frame fl cols =>
        have hnd := nf_nodup s.cols hwf.nodup f fl cols hf
        have hdf := ihf _ hf
        cases hv : nf s.cols v with
        | none => simp [hf, hv] at h
        | some nfv =>
          have hdv := ihv _ hv
          cases nfv with
          | series fl' c =>
            simp only [hf, hv] at h
            split at h
            · rename_i hss
              simp only [Option.some.injEq] at h
              subst h
              simp only [den, hdf, hdv, denNF]
              rw [← keep_sameSet s fl fl' hss]
              simp only [ids_map, beq_self_eq_true, if_true, zip_map_map]
              cases hci : colIdx (cols.map (·.1)) nm with
              | some j =>
                have hag := fun r => setCX_agree s.cols r cols nm c hnd
                simp only [hci] at hag
                simp only [List.map_map, Function.comp_def, Option.some.injEq, Val.frame.injEq]
                refine ⟨((hag []).1).symm, ?_⟩
                apply List.map_congr_left
                intro ir _
                rw [(hag ir.2).2]
              | none =>
                have hag := setCX_agree s.cols [] cols nm c hnd
                simp only [hci] at hag
                simp only [hag, List.map_map, Function.comp_def, List.map_append, List.map_cons, List.map_nil]
            · cases h
          | scalar c =>
            simp only [hf, hv, Option.some.injEq] at h
            subst h
            simp only [den, hdf, hdv, denNF]
            cases hci : colIdx (cols.map (·.1)) nm with
            | some j =>
              have hag := fun r => setCX_agree s.cols r cols nm (.const c) hnd
              simp only [hci] at hag
              simp only [List.map_map, Function.comp_def, Option.some.injEq, Val.frame.injEq]
              refine ⟨((hag []).1).symm, ?_⟩
              apply List.map_congr_left
              intro ir _
              rw [(hag ir.2).2]
              simp [CX.eval]
            | none =>
              have hag := setCX_agree s.cols [] cols nm (.const c) hnd
              simp only [hci] at hag
              simp only [hag, List.map_map, Function.comp_def, List.map_append, List.map_cons, List.map_nil, CX.eval]
          | frame _ _ => simp [hf, hv] at h
      | series _ _ => simp [hf] at h
      | scalar _ => simp [hf] at h
  | bin op a b iha ihb =>
    intro n h
    simp only [nf] at h
    cases ha : nf s.cols a with
    | none => simp [ha] at h
    | some na =>
      have hda := iha _ ha
      cases hb : nf s.cols b with
      | none => cases na <;> simp [ha, hb] at h
      | some nb =>
        have hdb := ihb _ hb
        cases na with
        | frame _ _ => cases nb <;> simp [ha, hb] at h
        | series fl x =>
          cases nb with
          | frame _ _ => simp [ha, hb] at h
          | series fl' y =>
            simp only [ha, hb] at h
            split at h
            · rename_i hss
              simp only [Option.some.injEq] at h
              subst h
              simp only [den, hda, hdb, denNF]
              rw [← keep_sameSet s fl fl' hss]
              simp only [ids_map, beq_self_eq_true, if_true, zip_map_map, List.map_map, Function.comp_def, CX.eval]
            · cases h
          | scalar y =>
            simp only [ha, hb, Option.some.injEq] at h
            subst h
            simp only [den, hda, hdb, denNF, List.map_map, Function.comp_def, CX.eval]
        | scalar x =>
          cases nb with
          | frame _ _ => simp [ha, hb] at h
          | series fl' y =>
            simp only [ha, hb, Option.some.injEq] at h
            subst h
            simp only [den, hda, hdb, denNF, List.map_map, Function.comp_def, CX.eval]
          | scalar y =>
            simp only [ha, hb, Option.some.injEq] at h
            subst h
            simp only [den, hda, hdb, denNF]
  | not a ih =>
    intro n h
    simp only [nf] at h
    cases ha : nf s.cols a with
    | none => simp [ha] at h
    | some na =>
      have hda := ih _ ha
      cases na with
      | frame _ _ => simp [ha] at h
      | series fl x =>
        simp only [ha, Option.some.injEq] at h
        subst h
        simp only [den, hda, denNF, List.map_map, Function.comp_def, CX.eval]
      | scalar x =>
        simp only [ha, Option.some.injEq] at h
        subst h
        simp only [den, hda, denNF]

/-- equivalent normal forms denote the same object (filters only matter as a SET of conjuncts) -/
theorem equiv_sound (s : Src) (a b : NF) (h : a.equiv b = true) : denNF s a = denNF s b := by
  cases a <;> cases b <;> simp only [NF.equiv, Bool.and_eq_true, beq_iff_eq] at h <;> try (cases h; done)
  · obtain ⟨hc, hs⟩ := h
    subst hc
    simp only [denNF, keep_filtEquiv s _ _ hs]
  · obtain ⟨hc, hs⟩ := h
    subst hc
    simp only [denNF, keep_filtEquiv s _ _ hs]
  · subst h; rfl

/-- **rule soundness, uniformly**: a rewrite step accepted by the checker preserves the result -/
theorem checkStep_sound (s : Src) (hwf : WF s) (a b : E) (h : checkStep s.cols a b = true) : den s a = den s b := by
  unfold checkStep at h
  cases ha : nf s.cols a with
  | none => simp [ha] at h
  | some x =>
    cases hb : nf s.cols b with
    | none => simp [ha, hb] at h
    | some y =>
      simp only [ha, hb] at h
      rw [nf_sound s hwf a x ha, nf_sound s hwf b y hb, equiv_sound s x y h]

/-- **trace soundness**: if every consecutive pair of a trace is accepted, first and last expression
    compute the same object -/
theorem checkTrace_sound (s : Src) (hwf : WF s) :
    ∀ (es : List E) (e : E), checkTrace s.cols (e :: es) = true → den s e = den s ((e :: es).getLast (by simp)) := by
  intro es
  induction es with
  | nil => intro e _; rfl
  | cons e' rest ih =>
    intro e h
    simp only [checkTrace, Bool.and_eq_true] at h
    rw [checkStep_sound s hwf e e' h.1, ih e' h.2]
    simp [List.getLast_cons]

/-- optimising an already optimised expression: a second accepted trace keeps the result -/
theorem idempotent_result (s : Src) (hwf : WF s) (t1 t2 : List E) (e : E)
    (h1 : checkTrace s.cols (e :: t1) = true)
    (h2 : checkTrace s.cols ((e :: t1).getLast (by simp) :: t2) = true) :
    den s e = den s (((e :: t1).getLast (by simp) :: t2).getLast (by simp)) := by
  rw [checkTrace_sound s hwf t1 e h1, checkTrace_sound s hwf t2 _ h2]

/-! ### named rule schemas as instances (non-vacuity: the checker accepts the rewrites the optimizer performs) -/

/-- projection pushdown through a filter: `f[p][cols] ⟶ f[cols ∪ cols(p)][p'][cols]` -/
example : checkStep ["a", "b", "c"]
    (.proj ["b"] (.filter .src (.bin .gt (.col .src "a") (.lit 1))))
    (.proj ["b"] (.filter (.proj ["a", "b"] .src) (.bin .gt (.col (.proj ["a", "b"] .src) "a") (.lit 1)))) = true := by decide

/-- filter squashing: `f[p][q] ⟶ f[p & q]` -/
example : checkStep ["a", "b"]
    (.filter (.filter .src (.bin .gt (.col .src "a") (.lit 1)))
       (.bin .lt (.col (.filter .src (.bin .gt (.col .src "a") (.lit 1))) "b") (.lit 5)))
    (.filter .src (.bin .and (.bin .gt (.col .src "a") (.lit 1)) (.bin .lt (.col .src "b") (.lit 5)))) = true := by decide

/-- the OR-rewrite `x[(p & q) | (p & r)] ⟶ x[p & (q | r)]` and `x[p | p] ⟶ x[p]` (truth-table equivalence) -/
example : checkStep ["a", "b"]
    (.filter .src (.bin .or (.bin .and (.bin .gt (.col .src "a") (.lit 1)) (.bin .lt (.col .src "b") (.lit 5)))
                            (.bin .and (.bin .gt (.col .src "a") (.lit 1)) (.bin .eq (.col .src "b") (.lit 7)))))
    (.filter .src (.bin .and (.bin .gt (.col .src "a") (.lit 1))
                             (.bin .or (.bin .lt (.col .src "b") (.lit 5)) (.bin .eq (.col .src "b") (.lit 7))))) = true := by decide

/-- dropping an assign that the final projection does not use; projection ∘ projection -/
example : checkStep ["a", "b"]
    (.proj ["a"] (.proj ["a", "b"] (.assign .src "z" (.bin .add (.col .src "a") (.col .src "b")))))
    (.proj ["a"] .src) = true := by decide

/-- an UNSOUND rewrite (dropping the filter) is rejected -/
example : checkStep ["a", "b"]
    (.proj ["b"] (.filter .src (.bin .gt (.col .src "a") (.lit 1))))
    (.proj ["b"] .src) = false := by decide

example : WF ⟨["a", "b"], [[some 1, none], [some 2, some 3]]⟩ := ⟨by decide, by decide⟩

end Dask.C43

/-! ## `rewrite_filters` (the OR-of-AND rewrite of `Filter._simplify_up`), modelled as a function and proved sound -/
namespace Dask.C43
open Dask.OrRewrite

/-- **soundness of `_replace_common_or_components`**: whatever it returns is equivalent to the OR of its inputs -/
theorem replaceCommon_sound (σ : Nat → Bool) (first : P) (ors : List P) (q : P)
    (h : replaceCommon first ors = some q) :
    q.truth σ = (first.truth σ || ors.any (P.truth σ)) := by
  unfold replaceCommon at h
  have hfun : (fun c : P => ((andComps c).eraseDups).all (P.truth σ)) = P.truth σ := by
    funext c; rw [all_eraseDups, ← truth_andComps]
  rw [finish_sound σ _ _ q ?_ (by simp) h]
  · rw [List.any_cons, all_eraseDups, ← truth_andComps, List.any_map]
    simp only [Function.comp_def, hfun]
  · intro comp hc r hr
    simp only [shared, List.mem_filter, List.all_eq_true, List.contains_eq_mem, decide_eq_true_eq] at hr
    rcases List.mem_cons.mp hc with h1 | h1
    · subst h1; exact hr.1
    · exact hr.2 comp h1

/-- **soundness of `rewrite_filters`**: the rewritten predicate selects exactly the same rows -/
theorem rewriteFilters_sound (σ : Nat → Bool) (p : P) : (rewriteFilters p).truth σ = p.truth σ := by
  unfold rewriteFilters
  split
  · rename_i first second rest hoc
    cases hrc : replaceCommon first (second :: rest) with
    | none => rfl
    | some q =>
      simp only [Option.getD_some]
      rw [replaceCommon_sound σ first (second :: rest) q hrc, truth_orComps σ p, hoc]
      simp only [List.any_cons]
  · rfl


/-- **the OR-rewrite strictly shrinks the predicate** whenever it fires -/
theorem replaceCommon_size (first : P) (ors : List P) (q : P) (hors : ors ≠ [])
    (h : replaceCommon first ors = some q) : q.size < first.size + sizeL ors := by
  unfold replaceCommon at h
  have hnd := shared_nodup (andComps first).eraseDups (ors.map (fun c => (andComps c).eraseDups)) (nodup_eraseDups _)
  have hall : ∀ comp ∈ (andComps first).eraseDups :: ors.map (fun c => (andComps c).eraseDups),
      ∀ r ∈ shared (andComps first).eraseDups (ors.map (fun c => (andComps c).eraseDups)), r ∈ comp := by
    intro comp hc r hr
    simp only [shared, List.mem_filter, List.all_eq_true, List.contains_eq_mem, decide_eq_true_eq] at hr
    rcases List.mem_cons.mp hc with h1 | h1
    · subst h1; exact hr.1
    · exact hr.2 comp h1
  have hlen : 2 ≤ ((andComps first).eraseDups :: ors.map (fun c => (andComps c).eraseDups)).length := by
    cases ors with
    | nil => exact absurd rfl hors
    | cons o os => simp
  have hfin := finish_size _ _ q hnd hall hlen h
  have hpos : 0 < sizeL (shared (andComps first).eraseDups (ors.map (fun c => (andComps c).eraseDups))) := by
    unfold finish at h
    cases hout : andOf (shared (andComps first).eraseDups (ors.map (fun c => (andComps c).eraseDups))) with
    | none => simp [hout] at h
    | some outer => exact sizeL_pos_of_andOf _ outer hout
  have htotal : (((andComps first).eraseDups :: ors.map (fun c => (andComps c).eraseDups)).map sizeL).sum ≤ first.size + sizeL ors := by
    simp only [List.map_cons, List.sum_cons, List.map_map]
    have h0 : sizeL (andComps first).eraseDups ≤ first.size := by rw [size_andComps first]; exact sizeL_eraseDups_le _
    have h1 : (ors.map (sizeL ∘ fun c => (andComps c).eraseDups)).sum ≤ sizeL ors := by
      clear h hfin hpos hlen hall hnd hors
      induction ors with
      | nil => simp [sizeL]
      | cons o os ih =>
        simp only [List.map_cons, List.sum_cons, Function.comp_def, sizeL_cons]
        have := sizeL_eraseDups_le (andComps o)
        rw [← size_andComps o] at this
        have ih' := ih
        simp only [Function.comp_def] at ih' ⊢
        omega
    omega
  omega

/-- **termination measure of the OR-rewrite**: `rewrite_filters` either leaves the predicate alone or returns a strictly
    smaller one — `Filter._simplify_up` can fire it only finitely often on a filter -/
theorem rewriteFilters_size (p : P) : rewriteFilters p = p ∨ (rewriteFilters p).size < p.size := by
  unfold rewriteFilters
  split
  · rename_i first second rest hoc
    cases hrc : replaceCommon first (second :: rest) with
    | none => left; rfl
    | some q =>
      right
      simp only [Option.getD_some]
      have := replaceCommon_size first (second :: rest) q (by simp) hrc
      rw [size_orComps p, hoc, sizeL_cons]
      exact this
  · left; rfl

/-- the absorbing clause in every position: `(A & C) | A`, `A | (A & C)`, `(A & B) | A | (A & C)` all become `A` -/
example : rewriteFilters (.or (.and (.atom 0) (.atom 2)) (.atom 0)) = .atom 0 := by decide
example : rewriteFilters (.or (.atom 0) (.and (.atom 0) (.atom 2))) = .atom 0 := by decide
example : rewriteFilters (.or (.or (.and (.atom 0) (.atom 1)) (.atom 0)) (.and (.atom 0) (.atom 2))) = .atom 0 := by decide
/-- shared conjuncts are pulled out: `(A & C) | (A & D) ⟶ A & (C | D)`; nothing shared: unchanged -/
example : rewriteFilters (.or (.and (.atom 0) (.atom 2)) (.and (.atom 3) (.atom 0))) = .and (.atom 0) (.or (.atom 2) (.atom 3)) := by decide
example : rewriteFilters (.or (.and (.atom 0) (.atom 2)) (.atom 3)) = .or (.and (.atom 0) (.atom 2)) (.atom 3) := by decide

end Dask.C43
