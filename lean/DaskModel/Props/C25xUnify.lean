import DaskModel.Lemmas.UnifyPost
/-!
# C25 (extension): the postcondition of `unify_chunks` is a theorem, not a run-time check

`Model/Meta.lean` (`ewLazy`/`ewLens`) CHECKS `unifyPostAxis` on the result of `unifyChunks` and refuses when it fails; the
block-level theorem `pipeline_meta_ok` of `Props/C25.lean` starts from that check. Here it is proved for the model of
`unify_chunks` itself (`Model/Elemwise.lean`, tied to `dask.array.core.unify_chunks` by C19's `unify` section and by the
`unifypost` section of c25.py):

  for all argument lists (any number of arrays, any index strings without a repeated symbol inside one array, zero-length
  dimensions and interior zero-length chunks included) whose lengths along every shared symbol agree up to length-one
  dimensions: whenever `unify_chunks` returns, along every symbol
    * the common chunks `chunkss[s]` are not the empty tuple,
    * every argument that has the symbol is rechunked to `chunkss[s]` or keeps the single chunk `(1,)`
      (a length-one dimension that is broadcast),
    * at least one argument carries `chunkss[s]`.

Not covered: an index symbol repeated within one array (`einsum('ii')`), arrays with a `()` chunk tuple (never built by
dask), unknown (NaN) chunk sizes.
-/
namespace Dask.C25x
open Dask.Elemwise Dask.Meta Dask.UnifyPost

/-- **commonBlockdim_total.** `common_blockdim` keeps the total in every branch, interior zero-length chunks included
    (C19's `commonBlockdim_refines` needs positive chunks and covers the walking branch only). -/
theorem commonBlockdim_total (bds : List (List Nat)) (D : Nat) (c : List Nat) (hne : bds ≠ [])
    (hall : ∀ x ∈ bds, x ≠ [] ∧ x.sum = D) (h : commonBlockdim bds = some c) : c ≠ [] ∧ c.sum = D :=
  commonBlockdim_sum bds D c hne hall h

example : commonBlockdim [[0, 2, 1], [1, 0, 2]] = some [0, 1, 0, 1, 1] := by decide

/-- the two halves of `unifyChunks` -/
theorem unifyChunks_some (args : List UArg) (cs : List (Sym × List Nat)) (news : List Chunks)
    (h : unifyChunks args = some (cs, news)) :
    unifySyms args = some cs ∧ optAll (args.map (newChunks cs)) = some news := by
  unfold unifyChunks at h
  cases h1 : unifySyms args with
  | none => rw [h1] at h; simp at h
  | some cs' =>
    rw [h1] at h
    cases h2 : optAll (args.map (newChunks cs')) with
    | none => simp [h2] at h
    | some news' =>
      simp [h2] at h
      obtain ⟨e1, e2⟩ := h
      subst e1; subst e2
      exact ⟨rfl, h2⟩

/-- **unify_post.** The postcondition that `Meta.ewLazy` checks holds for every symbol of every successful
    `unify_chunks` call on well-formed, broadcast-compatible arguments. -/
theorem unify_post (args : List UArg) (cs : List (Sym × List Nat)) (news : List Chunks)
    (hok : ∀ a ∈ args, argOK a = true) (hb : bcastOK args = true) (h : unifyChunks args = some (cs, news)) :
    ∀ s ∈ syms args, ∃ c, lookupSym cs s = some c ∧ c ≠ [] ∧
      (∀ n ∈ newsOf args news s, n = c ∨ n = [1]) ∧ c ∈ newsOf args news s := by
  intro s hs
  obtain ⟨hcs, hnews⟩ := unifyChunks_some args cs news h
  -- the common chunks of the symbol
  obtain ⟨c, hcbd, hlook⟩ := optAllPairs_lookup (fun s => commonBlockdim (candidates (effPairs args) s))
    (syms args) cs hcs s hs
  obtain ⟨D, hcne, hcall, hlen, o1, ho1, ho1D⟩ := candidates_total args hok hb s hs
  obtain ⟨hcne', hcD⟩ := commonBlockdim_sum _ D c hcne hcall hcbd
  obtain ⟨hz1, hz2⟩ := optAll_zip (newChunks cs) args news hnews
  have hnoempty : ∀ a ∈ args, a.chunks.any List.isEmpty = false := by
    intro a ha
    have h1 := hok a ha
    simp only [argOK, Bool.and_eq_true, List.all_eq_true] at h1
    cases hany : a.chunks.any List.isEmpty with
    | false => rfl
    | true =>
      obtain ⟨x, hx, hxe⟩ := List.any_eq_true.mp hany
      have := h1.1.2 x hx
      rw [hxe] at this; simp at this
  have hnd : ∀ a ∈ args, nodupB a.ind = true := by
    intro a ha
    have h1 := hok a ha
    simp only [argOK, Bool.and_eq_true] at h1
    exact h1.2
  refine ⟨c, hlook, hcne', ?_, ?_⟩
  · -- every argument: the common chunks or the single chunk (1,)
    intro n hn
    unfold newsOf at hn
    obtain ⟨p, hp, hfm⟩ := List.mem_filterMap.mp hn
    obtain ⟨a, nw⟩ := p
    have ha : a ∈ args := (List.of_mem_zip hp).1
    have hnc := hz1 (a, nw) hp
    simp only at hnc hfm
    rw [newChunks_eq cs a (hnoempty a ha)] at hnc
    obtain ⟨hax, _⟩ := optAll_axes (axisRule cs) a.ind a.chunks nw hnc
    cases hf : (a.ind.zip nw).find? (fun q => q.1 == s) with
    | none => rw [hf] at hfm; simp at hfm
    | some q =>
      rw [hf] at hfm
      simp only [Option.map_some, Option.some.injEq] at hfm
      have hq1 : q.1 = s := by simpa using List.find?_some hf
      obtain ⟨o, ho, hrule⟩ := hax q (List.mem_of_find?_eq_some hf)
      rw [hq1, hfm] at hrule
      rw [hq1] at ho
      have hop : (s, o) ∈ pairs args := (pairs_mem args (s, o)).mpr ⟨a, ha, ho⟩
      have hl : o.sum = c.sum ∨ o.sum = 1 := by rw [hcD]; exact hlen o hop
      exact (axisRule_post cs s o c n hlook hl hrule).1
  · -- the argument whose length along s is the common total carries the common chunks
    obtain ⟨a, ha, hoa⟩ := (pairs_mem args (s, o1)).mp ho1
    obtain ⟨nw, hnw⟩ := hz2 a ha
    have hnc := hz1 (a, nw) hnw
    simp only at hnc
    rw [newChunks_eq cs a (hnoempty a ha)] at hnc
    obtain ⟨_, hfind⟩ := optAll_axes (axisRule cs) a.ind a.chunks nw hnc
    obtain ⟨nn, hf, hrule⟩ := hfind (hnd a ha) s o1 hoa
    have hl : o1.sum = c.sum ∨ o1.sum = 1 := Or.inl (by rw [hcD, ho1D])
    have hnn : nn = c := (axisRule_post cs s o1 c nn hlook hl hrule).2 (by rw [hcD, ho1D])
    unfold newsOf
    refine List.mem_filterMap.mpr ⟨(a, nw), hnw, ?_⟩
    simp only [hf, Option.map_some, hnn]

/-- the check of `Model/Meta.lean` in its own words: it never refuses on well-formed, broadcast-compatible arguments -/
theorem unify_post_check (args : List UArg) (cs : List (Sym × List Nat)) (news : List Chunks)
    (hok : ∀ a ∈ args, argOK a = true) (hb : bcastOK args = true) (h : unifyChunks args = some (cs, news)) :
    ∀ s ∈ syms args, unifyPostAxis ((lookupSym cs s).getD []) (newsOf args news s) = true := by
  intro s hs
  obtain ⟨c, hl, hne, hallc, hmem⟩ := unify_post args cs news hok hb h s hs
  simp only [hl, Option.getD_some, unifyPostAxis, Bool.and_eq_true, Bool.not_eq_true', List.all_eq_true,
    List.any_eq_true, Bool.or_eq_true, beq_iff_eq]
  refine ⟨⟨?_, hallc⟩, c, hmem, rfl⟩
  cases c with
  | nil => exact absurd rfl hne
  | cons _ _ => rfl

/-- … hence the executable `postOK` (what the driver evaluates on every real call) can only answer `true` -/
theorem postOK_true (args : List UArg) (hok : ∀ a ∈ args, argOK a = true) (hb : bcastOK args = true) (b : Bool)
    (h : postOK args = some b) : b = true := by
  unfold postOK at h
  cases hu : unifyChunks args with
  | none => rw [hu] at h; simp at h
  | some r =>
    rw [hu] at h
    simp only [Option.map_some, Option.some.injEq] at h
    rw [← h]
    exact List.all_eq_true.mpr fun s hs => unify_post_check args r.1 r.2 hok hb hu s hs

/-! non-vacuity: a broadcast length-one dimension chunked `(0, 1, 0)`, competing chunkings with interior zero-length
    chunks, three arguments; and the hypotheses are needed -/
example :
    let args : List UArg := [⟨[1, 0], [[2, 0, 2], [0, 1, 0]]⟩, ⟨[1, 0], [[1, 3], [3, 2]]⟩, ⟨[0], [[5]]⟩]
    (args.all argOK) = true ∧ bcastOK args = true ∧
      unifyChunks args = some ([(1, [1, 1, 0, 2]), (0, [3, 2])], [[[1, 1, 0, 2], [1]], [[1, 1, 0, 2], [3, 2]], [[3, 2]]]) ∧
      postOK args = some true := by decide
/-- lengths 0 and 2 along one symbol (refused by `broadcast_shapes`): the zero-length argument is left alone and the
    postcondition fails — `bcastOK` is needed -/
example :
    let args : List UArg := [⟨[0], [[0]]⟩, ⟨[0], [[1]]⟩, ⟨[0], [[2]]⟩]
    bcastOK args = false ∧ postOK args = some false := by decide
/-- a symbol repeated within one array: the first axis is the broadcast one — the no-repeat part of `argOK` is needed -/
example :
    let args : List UArg := [⟨[0, 0], [[1], [3]]⟩]
    bcastOK args = true ∧ (args.all argOK) = false ∧ postOK args = some false := by decide

/-! ## the run-time check of `Meta.ewLazy` is redundant

For the elementwise index strings (`tuple(range(ndim))[::-1]`) the hypotheses of `unify_post` follow from what the model
checks BEFORE calling `unify_chunks`: `broadcast_shapes` accepts the two shapes (`bcastOK_ewArgs`: column by column `bdim`
allows only equal lengths or length one), the reversed ranges have no repeated symbol, and every output symbol is a key of
`chunkss`. Only "every axis has at least one chunk" remains as a hypothesis (a dask invariant). -/

theorem ew_check_redundant (ca cb : Chunks) (hca : ∀ x ∈ ca, x ≠ []) (hcb : ∀ x ∈ cb, x ≠ []) (sh : List Nat)
    (hbs : broadcastShapes [shapeOf ca, shapeOf cb] = some sh) (cs : List (Sym × List Nat)) (news : List Chunks)
    (hu : unifyChunks (ewArgs ca cb) = some (cs, news)) :
    (revRange (max ca.length cb.length)).all
      (fun s => unifyPostAxis ((lookupSym cs s).getD []) (newsOf (ewArgs ca cb) news s)) = true := by
  apply List.all_eq_true.mpr
  intro s hs
  refine unify_post_check (ewArgs ca cb) cs news ?_ (bcastOK_ewArgs ca cb sh hbs) hu s (out_syms ca cb s hs)
  intro a ha
  simp only [ewArgs, List.mem_cons, List.not_mem_nil, or_false] at ha
  rcases ha with rfl | rfl
  · exact argOK_ew ca hca
  · exact argOK_ew cb hcb

/-- `ewLazy` without its run-time check -/
def ewLazyUnchecked (ca cb : Chunks) : Option Chunks := do
  let _ ← broadcastShapes [shapeOf ca, shapeOf cb]
  let (cs, _) ← unifyChunks (ewArgs ca cb)
  optAll ((revRange (max ca.length cb.length)).map (lookupSym cs))

theorem ewLazy_eq_unchecked (ca cb : Chunks) (hca : ∀ x ∈ ca, x ≠ []) (hcb : ∀ x ∈ cb, x ≠ []) :
    ewLazy ca cb = ewLazyUnchecked ca cb := by
  unfold ewLazy ewLazyUnchecked
  cases hbs : broadcastShapes [shapeOf ca, shapeOf cb] with
  | none => simp
  | some sh =>
    cases hu : unifyChunks (ewArgs ca cb) with
    | none => simp
    | some r =>
      obtain ⟨cs, news⟩ := r
      have hc := ew_check_redundant ca cb hca hcb sh hbs cs news hu
      cases ho : optAll ((revRange (max ca.length cb.length)).map (lookupSym cs)) with
      | none => simp [ho]
      | some res =>
        simp [ho]
        exact List.all_eq_true.mp hc

example : ewLazy [[2, 0, 2], [0, 1, 0]] [[1, 3], [3, 2]] = some [[1, 1, 0, 2], [3, 2]] ∧
    ewLazyUnchecked [[2, 0, 2], [0, 1, 0]] [[1, 3], [3, 2]] = some [[1, 1, 0, 2], [3, 2]] := by decide

end Dask.C25x
