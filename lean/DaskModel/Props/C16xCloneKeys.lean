import DaskModel.Model.CloneKeys
/-!
# C16 extension — `clone_keys` / `omit_layers` of `_bind_one`

`cloneKeysOf` / `omitLayersOf` (Model/CloneKeys.lean) are the head of `_bind_one` (the key set handed to every
`layer.clone`, and the layer names the two worklists treat as omitted), diffed against the real `bind` / `clone` by
harness/props/c16.py (section `bind_layers`: the `keys=` argument recorded from the real `layer.clone` calls, and the
layers that kept their names). Theorems, for all inputs:
* `clone_keys_mem_iff`: a key is regenerated iff it is a key of the child's graph, not a key of an omitted collection
  (`assume_layers=False`) and not an output key of an omitted layer of the graph (`assume_layers=True`);
* `omit_layers_assume`: with `assume_layers=True` the omitted layers are the caller's;
* `omit_layers_mem_iff`, `omitted_layer_no_clone_key`, `regenerated_layer_has_clone_key`: with `assume_layers=False` a layer
  is copied verbatim iff none of its keys is regenerated (so a layer that is regenerated has a regenerated key and a
  layer that keeps its name keeps all its keys);
* `omitted_keys_not_cloned`: under `assume_layers=True` no output key of an omitted layer is regenerated.
-/
namespace Dask.TaskTerm
open Dask

theorem mem_dropLayer {L : List (Obj × List Obj)} {ck : List Obj} {ln k : Obj} :
    k ∈ dropLayer L ck ln ↔ k ∈ ck ∧ ∀ outs, L.lookup ln = some outs → k ∉ outs := by
  unfold dropLayer
  cases h : L.lookup ln with
  | none => simp
  | some outs => simp [List.mem_filter]

theorem mem_foldl_dropLayer {L : List (Obj × List Obj)} (ol : List Obj) (ck : List Obj) (k : Obj) :
    k ∈ ol.foldl (dropLayer L) ck ↔ k ∈ ck ∧ ∀ ln ∈ ol, ∀ outs, L.lookup ln = some outs → k ∉ outs := by
  induction ol generalizing ck with
  | nil => simp
  | cons a as ih =>
    rw [List.foldl_cons, ih, mem_dropLayer]
    constructor
    · rintro ⟨⟨h1, h2⟩, h3⟩
      refine ⟨h1, ?_⟩
      intro ln hln
      rcases List.mem_cons.mp hln with rfl | h
      · exact h2
      · exact h3 ln h
    · rintro ⟨h1, h2⟩
      exact ⟨⟨h1, h2 a (List.mem_cons_self ..)⟩, fun ln h => h2 ln (List.mem_cons_of_mem _ h)⟩

/-- **clone_keys**: exactly the keys of the child's graph that are neither keys of the omitted collections nor output
    keys of an omitted layer that is a layer of the graph. -/
theorem clone_keys_mem_iff (ext omitKeys omitLayers : List Obj) (L : List (Obj × List Obj)) (k : Obj) :
    k ∈ cloneKeysOf ext omitKeys omitLayers L ↔
      k ∈ ext ∧ k ∉ omitKeys ∧ ∀ ln ∈ omitLayers, ∀ outs, L.lookup ln = some outs → k ∉ outs := by
  unfold cloneKeysOf
  rw [mem_foldl_dropLayer]
  simp [List.mem_filter, and_assoc]

/-- `assume_layers=True` (`omit_keys` is empty): the omitted layers are the caller's, nothing is added. -/
theorem omit_layers_assume (ext omitLayers : List Obj) (L : List (Obj × List Obj)) :
    omitLayersOf ext [] omitLayers L = omitLayers := by
  simp [omitLayersOf]

/-- `assume_layers=True`: no output key of an omitted layer of the graph is regenerated. -/
theorem omitted_keys_not_cloned (ext omitKeys omitLayers : List Obj) (L : List (Obj × List Obj)) (ln : Obj) (outs : List Obj)
    (hln : ln ∈ omitLayers) (hL : L.lookup ln = some outs) (k : Obj) (hk : k ∈ outs) :
    k ∉ cloneKeysOf ext omitKeys omitLayers L := by
  intro h
  exact ((clone_keys_mem_iff ..).mp h).2.2 ln hln outs hL hk

theorem noCloneKey_iff {ck outs : List Obj} : noCloneKey ck outs = true ↔ ∀ k ∈ outs, k ∉ ck := by
  simp [noCloneKey]

/-- `assume_layers=False` (`omit_keys` non-empty): a name is treated as omitted iff the caller listed it or it is a layer
    of the graph none of whose output keys is regenerated. -/
theorem omit_layers_mem_iff (ext omitKeys omitLayers : List Obj) (L : List (Obj × List Obj)) (hne : omitKeys ≠ []) (n : Obj) :
    n ∈ omitLayersOf ext omitKeys omitLayers L ↔
      n ∈ omitLayers ∨ ∃ outs, (n, outs) ∈ L ∧ ∀ k ∈ outs, k ∉ cloneKeysOf ext omitKeys omitLayers L := by
  have h0 : omitKeys.isEmpty = false := by cases omitKeys <;> simp_all
  simp only [omitLayersOf, h0, unionL, List.mem_append, List.mem_filter, List.mem_map, Bool.false_eq_true, if_false]
  constructor
  · rintro (h | ⟨⟨⟨n', outs⟩, ⟨hm, hc⟩, rfl⟩, _⟩)
    · exact Or.inl h
    · exact Or.inr ⟨outs, hm, noCloneKey_iff.mp hc⟩
  · rintro (h | ⟨outs, hm, hc⟩)
    · exact Or.inl h
    · by_cases hin : n ∈ omitLayers
      · exact Or.inl hin
      · exact Or.inr ⟨⟨(n, outs), ⟨hm, noCloneKey_iff.mpr hc⟩, rfl⟩, by simpa using hin⟩

/-- `assume_layers=False`: a layer of the graph that is NOT treated as omitted (it will be regenerated under a new name
    when reached) has an output key that is regenerated. -/
theorem regenerated_layer_has_clone_key (ext omitKeys omitLayers : List Obj) (L : List (Obj × List Obj)) (hne : omitKeys ≠ [])
    (n : Obj) (outs : List Obj) (hm : (n, outs) ∈ L) (hn : n ∉ omitLayersOf ext omitKeys omitLayers L) :
    ∃ k ∈ outs, k ∈ cloneKeysOf ext omitKeys omitLayers L := by
  apply Classical.byContradiction
  intro hc
  apply hn
  rw [omit_layers_mem_iff _ _ _ _ hne]
  exact Or.inr ⟨outs, hm, fun k hk hck => hc ⟨k, hk, hck⟩⟩

theorem fst_unique {L : List (Obj × List Obj)} (hnd : (L.map (·.1)).Nodup) {n : Obj} {a b : List Obj}
    (ha : (n, a) ∈ L) (hb : (n, b) ∈ L) : a = b := by
  induction L with
  | nil => cases ha
  | cons e es ih =>
    rw [List.map_cons, List.nodup_cons] at hnd
    rcases List.mem_cons.mp ha with h1 | h1 <;> rcases List.mem_cons.mp hb with h2 | h2
    · rw [← h1] at h2; cases h2; rfl
    · subst h1; exact absurd (List.mem_map.mpr ⟨_, h2, rfl⟩) hnd.1
    · subst h2; exact absurd (List.mem_map.mpr ⟨_, h1, rfl⟩) hnd.1
    · exact ih hnd.2 h1 h2

/-- `assume_layers=False`, the caller's `omit_layers` being empty there: a layer treated as omitted (copied verbatim,
    keeps its name) has no regenerated key, provided the layer names of the graph are distinct. -/
theorem omitted_layer_no_clone_key (ext omitKeys : List Obj) (L : List (Obj × List Obj)) (hne : omitKeys ≠ [])
    (hnd : (L.map (·.1)).Nodup) (n : Obj) (outs : List Obj) (hm : (n, outs) ∈ L)
    (hn : n ∈ omitLayersOf ext omitKeys [] L) : ∀ k ∈ outs, k ∉ cloneKeysOf ext omitKeys [] L := by
  rcases (omit_layers_mem_iff _ _ _ _ hne n).mp hn with h | ⟨outs', hm', hc⟩
  · cases h
  · have : outs' = outs := fst_unique hnd hm' hm
    exact this ▸ hc

end Dask.TaskTerm
