import DaskModel.Lemmas.BlockViewLemmas
import DaskModel.Lemmas.IntDaskIndexLemmas
/-
C20, extension round: two paths of array indexing that were validated only.

(a) `x.blocks[index]` / `x.partitions[index]` (`BlockView.__getitem__`, model `Model/BlockView.lean`):
    `blocks_den`, `blocks_no_empty_axis`, `blocks_rejects`, `blocks_axis_int`.
(b) a 1-d dask array of integers as index along one axis (`slice_with_int_dask_array_on_axis` with the chunk functions
    `slice_with_int_dask_array` / `slice_with_int_dask_array_aggregate`, model `Model/IntDaskIndex.lean`):
    `int_dask_index_den`, `int_dask_index_flat`, `int_dask_index_raises_iff`, `int_dask_index_needs_bounds_check`.

Both hold for every chunk list (zero-length chunks included), every chunking of the index array (empty chunks
included), no size bound. Not covered: NumPy's behaviour on one block (`x[..., idx, ...]` reads the positions `idx`
along the axis), blockwise's pairing of blocks (every block of x with every chunk of idx, the block's own offset;
`concatenate=True` joins the outputs in block order), N-d arrays (the other axes are carried through unchanged).
-/
namespace Dask.C20
open Dask.Slice1D Dask.NormIndex Dask.Store Dask.BlockView Dask.IntDaskIndex

/-! ## (a) BlockView -/

/-- **`blocks_den`.** Whenever `x.blocks[index]` succeeds: with `idx = normalize_index(index, numblocks)` and `sels`
    the per-axis selections of block numbers (Python's selection `range(nb)[s]` for a slice, `[k]` for an integer —
    `blocks_axis_int` —, the list itself for the one integer list), the graph has one entry per element of
    `product(range(len(sel)) …)` in that order (new block coordinates), its values are the combinations of selected
    old blocks in `itertools.product` order (output block `key` is input block `(sels[a][key[a]])_a`, no lookup fails),
    the new chunks are the selected entries of the old chunks, and every selected block exists. -/
theorem blocks_den (chunks : List (List Nat)) (index : List Entry) (r : Result)
    (h : blockView chunks index = some r) :
    ∃ idx sels, normalizeIndex (chunks.map List.length) index = some idx
      ∧ selAll (chunks.map List.length) idx = some sels
      ∧ r.graph.map Prod.fst = product (sels.map fun s => List.range s.length)
      ∧ r.graph.map Prod.snd = (product sels).map some
      ∧ r.chunks = List.zipWith (fun c s => s.map fun v => c.getD v.toNat 0) chunks sels
      ∧ chunks.length = sels.length
      ∧ (∀ cs ∈ chunks.zip sels, ∀ v ∈ cs.2, 0 ≤ v ∧ v < (cs.1.length : Int)) := by
  unfold blockView at h
  split at h
  · simp at h
  split at h
  · simp at h
  split at h
  · simp at h
  rename_i idx hidx
  split at h
  · simp at h
  rename_i sels hsels
  split at h
  · simp at h
  rename_i newChunks hch
  split at h
  · simp at h
  simp only [Option.some.injEq] at h
  obtain ⟨hz, hl, hb⟩ := selChunks_spec chunks sels newChunks hch
  have hranges : (newChunks.map fun c => List.range c.length) = sels.map fun s => List.range s.length := by
    rw [hz]; exact zipWith_ranges chunks sels hl
  refine ⟨idx, sels, hidx, hsels, ?_, ?_, ?_, hl, hb⟩
  · rw [← h]; simp only [List.map_map]
    rw [← hranges]
    exact List.map_id' _
  · rw [← h]; simp only [List.map_map]
    rw [hranges]
    exact pick_product sels
  · rw [← h]; exact hz

/-- no axis of the result is left without blocks (the `Array` constructor rejects an empty chunk tuple) -/
theorem blocks_no_empty_axis (chunks : List (List Nat)) (index : List Entry) (r : Result)
    (h : blockView chunks index = some r) : ∀ c ∈ r.chunks, c ≠ [] := by
  unfold blockView at h
  split at h
  · simp at h
  split at h
  · simp at h
  split at h
  · simp at h
  split at h
  · simp at h
  split at h
  · simp at h
  rename_i newChunks _
  split at h
  · simp at h
  rename_i hne
  simp only [Option.some.injEq] at h
  intro c hc hce
  apply hne
  rw [List.any_eq_true]
  rw [← h] at hc
  exact ⟨c, hc, by simp [hce]⟩

/-- `None` / `np.newaxis` and a second list are rejected (ValueError) -/
theorem blocks_rejects (chunks : List (List Nat)) (index : List Entry)
    (h : (index.filter isListLike).length > 1 ∨ Entry.newaxis ∈ index) : blockView chunks index = none := by
  unfold blockView
  rcases h with h | h
  · simp [tooManyLists, h]
  · have : index.any isNewaxis = true := List.any_eq_true.mpr ⟨_, h, rfl⟩
    simp [this]

/-- an integer entry `i` on an axis with `nb` blocks: accepted iff `-nb ≤ i < nb`, and then it selects exactly the
    block `i mod nb` (through `slice(k, k + 1)`, so the axis is kept) -/
theorem blocks_axis_int (nb : Nat) (i : Int) :
    (normEntry nb (.int i)).isSome = (decide (-(nb : Int) ≤ i ∧ i < nb)) ∧
    ∀ e, normEntry nb (.int i) = some e → axisSel nb e = some [posifyInt nb i] := by
  constructor
  · simp only [normEntry, checkIntOOB]
    by_cases h : -(nb : Int) ≤ i ∧ i < nb
    · have : (decide (i ≥ (nb : Int)) || decide (i < -(nb : Int))) = false := by
        simp only [Bool.or_eq_false_iff, decide_eq_false_iff_not]; omega
      simp [this, h]
    · have : (decide (i ≥ (nb : Int)) || decide (i < -(nb : Int))) = true := by
        simp only [Bool.or_eq_true, decide_eq_true_eq]; omega
      simp only [this, if_true, Option.isSome_none]
      simp [h]
  · intro e he
    simp only [normEntry] at he
    split at he
    · simp at he
    rename_i hoob
    simp only [Option.some.injEq] at he
    have hb : -(nb : Int) ≤ i ∧ i < nb := by
      simp only [checkIntOOB, Bool.or_eq_true, decide_eq_true_eq, not_or] at hoob; omega
    have hk : 0 ≤ posifyInt nb i ∧ posifyInt nb i < nb := by unfold posifyInt; split <;> omega
    rw [← he]
    generalize posifyInt nb i = k at hk
    have h1 : ¬ (k < 0) := by omega
    have h2 : ¬ (k + 1 < 0) := by omega
    have h3 : min k (nb : Int) = k := by omega
    have h4 : min (k + 1) (nb : Int) = k + 1 := by omega
    have h5 : (k + 1 - k).toNat = 1 := by
      have : k + 1 - k = 1 := by omega
      rw [this]; rfl
    have h6 : k < k + 1 := by omega
    simp [axisSel, pySliceIdx, pyIndices, pyRange, rangeUp, h1, h2, h3, h4, h5, h6, upFrom]

/-- non-vacuity: blocks `[-1, 0]` of the first axis and block 1 of the second, on a 3 × 2 grid -/
example : blockView [[3, 3, 4], [2, 5]] [.lst [-1, 0], .int 1]
    = some ⟨[[4, 3], [5]], [([0, 0], some [2, 1]), ([1, 0], some [0, 1])]⟩ := by decide

example : blockView [[3, 3, 4]] [.sl ⟨some 2, some 1, none⟩] = none := by decide

/-! ## (b) dask integer-array index along one axis -/

/-- **`int_dask_index_den`.** For every chunking `lengths` of the axis (`n = sum`), every chunking of the 1-d index
    array (`idx` = its chunks), all entries in `[-n, n)`: the per-block plan — every block of x filtered by
    `idx - offset` in the chunk function, the outputs concatenated, re-ordered by `idx_final` of the aggregation —
    produces one output chunk per chunk of the index, and output position `p` reads the global element
    `idx[p]` (negative entries after normalisation `idx[p] + n`). -/
theorem int_dask_index_den (lengths : List Nat) (idx : List (List Int))
    (hb : ∀ c ∈ idx, ∀ v ∈ c, -(lengths.sum : Int) ≤ v ∧ v < lengths.sum) :
    plan lengths idx = some (idx.map fun c => c.map (norm lengths.sum)) := by
  induction idx with
  | nil => rfl
  | cons c cs ih =>
    have h1 := aggregate_den lengths c (hb c (by simp))
    have h2 := ih (fun c' hc' => hb c' (by simp [hc']))
    simp [plan, h1, h2]

/-- with an entry outside `[-n, n)` the computation raises (IndexError, as NumPy), and only then -/
theorem int_dask_index_raises_iff (lengths : List Nat) (idx : List (List Int)) :
    plan lengths idx = none ↔ ∃ c ∈ idx, ∃ v ∈ c, ¬ (-(lengths.sum : Int) ≤ v ∧ v < lengths.sum) := by
  constructor
  · intro h
    apply Classical.byContradiction
    intro hne
    have hb : ∀ c ∈ idx, ∀ v ∈ c, -(lengths.sum : Int) ≤ v ∧ v < lengths.sum := by
      intro c hc v hv
      apply Classical.byContradiction
      intro hn
      exact hne ⟨c, hc, v, hv, hn⟩
    rw [int_dask_index_den lengths idx hb] at h
    simp at h
  · intro ⟨c, hc, v, hv, hn⟩
    induction idx with
    | nil => simp at hc
    | cons d ds ih =>
      rcases List.mem_cons.mp hc with rfl | hc'
      · simp [plan, aggregate_oob lengths c _ ⟨v, hv, hn⟩]
      · have := ih hc'
        simp only [plan, this]
        cases aggregate lengths d (chunkOutputs lengths d) <;> rfl

/-- the flat reading of `int_dask_index_den`, stated like `take_den`: the output chunks, concatenated, are the
    normalised indexer; the output chunks along the axis are the chunks of the index array -/
theorem int_dask_index_flat (lengths : List Nat) (idx : List (List Int)) (r : List (List Int))
    (h : plan lengths idx = some r) :
    r.flatten = idx.flatten.map (norm lengths.sum) ∧ r.map List.length = idx.map List.length := by
  have hb : ∀ c ∈ idx, ∀ v ∈ c, -(lengths.sum : Int) ≤ v ∧ v < lengths.sum := by
    intro c hc v hv
    apply Classical.byContradiction
    intro hn
    have := (int_dask_index_raises_iff lengths idx).mpr ⟨c, hc, v, hv, hn⟩
    rw [this] at h
    simp at h
  rw [int_dask_index_den lengths idx hb, Option.some.injEq] at h
  rw [← h]
  constructor
  · rw [List.map_flatten]
  · simp [List.map_map, Function.comp_def]

/-- **The bounds check is needed** (the defect repaired by `fix:` 4ddbb82): without it the aggregation loop leaves
    `idx_final = 0` for an entry that falls into no block and reads the first collected element — on 10 elements in
    chunks (3, 3, 4), the index chunk `[3, 12]` reads positions `[3, 3]` instead of raising. -/
theorem int_dask_index_needs_bounds_check :
    takeAll (chunkOutputs [3, 3, 4] [3, 12]) (aggLoop [3, 12] [3, 3, 4] 0 0 [0, 0]) = some [3, 3] := by decide

/-- non-vacuity: zero-length block of x, empty chunk of the index, duplicates, negative entries, unsorted -/
example : plan [3, 0, 3, 4] [[9, -1], [], [0, 3, 3, 5, -10]] = some [[9, 9], [], [0, 3, 3, 5, 0]] := by decide

example : plan [3, 3, 4] [[3], [12]] = none := by decide

end Dask.C20
