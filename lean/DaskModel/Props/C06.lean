import DaskModel.Model.Order
import DaskModel.Lemmas.OrderFrame
/-!
# C06 — static task ordering is a total order consistent with dependencies

`order()` is ~600 lines of heuristics. Two layers (DESIGN §5 C06):
* a **proved checker**: `validOrder g p = true ↔ ValidOrder g p` where `ValidOrder` is literally the statement
  (a priority for each key of the graph and for no other key, pairwise distinct, greater than the priorities of all
  dependencies inside the graph); every real `order` output of the correspondence run goes through the compiled checker;
* the **frame** around the heuristic core after the `fix:` commit, proved about a transliteration of the
  normalisation loop (`strip`): `order_frame_valid` — stripped non-task leaves at `expected_len - 1 - j` plus *any* core
  that emits the remaining internal keys once and dependencies-first (`CoreOK`) give a `ValidOrder`; ingredients
  `strip_inv` (every dependent of a stripped leaf was stripped before it), `stripPrio_*`.
-/
namespace Dask.C06
open Dask.GraphAlg Dask.Order

/-- the statement, for one graph and one returned priority dict -/
structure ValidOrder (g : Graph) (p : List (Key × Nat)) : Prop where
  /-- a priority for each key of the graph and for no other key -/
  dom : ∀ k, k ∈ p.map Prod.fst ↔ k ∈ g.map Prod.fst
  /-- (the result is a dict: each key once) -/
  fn : (p.map Prod.fst).Nodup
  /-- pairwise distinct priorities -/
  inj : ∀ k k' a, p.lookup k = some a → p.lookup k' = some a → k = k'
  /-- every key's priority is greater than the priorities of all its dependencies inside the graph -/
  topo : ∀ k ds, (k, ds) ∈ g → ∀ d ∈ ds, d ∈ g.map Prod.fst →
    ∃ a b, p.lookup d = some a ∧ p.lookup k = some b ∧ a < b

theorem nodupB_iff : ∀ (l : List Nat), nodupB l = true ↔ l.Nodup
  | [] => by simp [nodupB]
  | x :: xs => by
    simp only [nodupB, Bool.and_eq_true, Bool.not_eq_true', List.nodup_cons, nodupB_iff xs]
    constructor
    · rintro ⟨h1, h2⟩
      refine ⟨?_, h2⟩
      intro hm
      have : xs.contains x = true := by simpa using hm
      rw [this] at h1; cases h1
    · rintro ⟨h1, h2⟩
      refine ⟨?_, h2⟩
      rw [Bool.eq_false_iff]; intro hc
      exact h1 (by simpa using hc)

theorem lookup_mem_of_some {p : List (Key × Nat)} {k a : Nat} (h : p.lookup k = some a) : (k, a) ∈ p := by
  induction p with
  | nil => simp at h
  | cons kv rest ih =>
    obtain ⟨k', v'⟩ := kv
    simp only [List.lookup] at h
    split at h
    · rename_i heq
      have : k = k' := by simpa using heq
      cases h; subst this; simp
    · exact List.mem_cons_of_mem _ (ih h)

theorem lookup_of_mem_nodup : ∀ {p : List (Key × Nat)} {k a : Nat}, (p.map Prod.fst).Nodup → (k, a) ∈ p →
    p.lookup k = some a
  | [], _, _, _, h => by simp at h
  | (k', v') :: rest, k, a, hn, h => by
    simp only [List.map_cons, List.nodup_cons] at hn
    rcases List.mem_cons.mp h with h1 | h2
    · cases h1; simp [List.lookup]
    · have hne : (k == k') = false := by
        rw [Bool.eq_false_iff]; intro hc
        have hkk : k = k' := by simpa using hc
        exact hn.1 (List.mem_map.mpr ⟨(k, a), h2, hkk⟩)
      simp only [List.lookup, hne]
      exact lookup_of_mem_nodup hn.2 h2

/-- with distinct keys: values are duplicate-free iff `lookup` is injective -/
theorem values_nodup_iff_inj : ∀ {p : List (Key × Nat)}, (p.map Prod.fst).Nodup →
    ((p.map Prod.snd).Nodup ↔ ∀ k k' a, p.lookup k = some a → p.lookup k' = some a → k = k')
  | [], _ => by simp
  | (k0, v0) :: rest, hn => by
    have hn' := hn
    simp only [List.map_cons, List.nodup_cons] at hn'
    have ih := values_nodup_iff_inj hn'.2
    simp only [List.map_cons, List.nodup_cons]
    constructor
    · rintro ⟨h1, h2⟩ k k' a hk hk'
      have m1 := lookup_mem_of_some hk
      have m2 := lookup_mem_of_some hk'
      rcases List.mem_cons.mp m1 with e1 | m1 <;> rcases List.mem_cons.mp m2 with e2 | m2
      · cases e1; cases e2; rfl
      · cases e1
        exact absurd (List.mem_map.mpr ⟨(k', v0), m2, rfl⟩) h1
      · cases e2
        exact absurd (List.mem_map.mpr ⟨(k, v0), m1, rfl⟩) h1
      · exact (ih.1 h2) k k' a (lookup_of_mem_nodup hn'.2 m1) (lookup_of_mem_nodup hn'.2 m2)
    · intro hinj
      refine ⟨?_, ih.2 ?_⟩
      · intro hm
        obtain ⟨⟨k1, a1⟩, hm1, he⟩ := List.mem_map.mp hm
        simp only at he; subst he
        have l1 : List.lookup k1 ((k0, a1) :: rest) = some a1 :=
          lookup_of_mem_nodup hn (List.mem_cons_of_mem _ hm1)
        have l0 : List.lookup k0 ((k0, a1) :: rest) = some a1 := by simp [List.lookup]
        have := hinj k1 k0 a1 l1 l0
        subst this
        exact hn'.1 (List.mem_map.mpr ⟨(k1, a1), hm1, rfl⟩)
      · intro k k' a hk hk'
        have m1 := lookup_mem_of_some hk
        have m2 := lookup_mem_of_some hk'
        exact hinj k k' a (lookup_of_mem_nodup hn (List.mem_cons_of_mem _ m1))
          (lookup_of_mem_nodup hn (List.mem_cons_of_mem _ m2))

/-- **The checker decides the statement.** -/
theorem validOrder_iff (g : Graph) (p : List (Key × Nat)) : validOrder g p = true ↔ ValidOrder g p := by
  unfold validOrder
  simp only [Bool.and_eq_true, nodupB_iff, List.all_eq_true, List.contains_eq_mem, decide_eq_true_eq]
  constructor
  · rintro ⟨⟨⟨⟨h1, h2⟩, h3⟩, h4⟩, h5⟩
    refine ⟨fun k => ⟨h3 k, h2 k⟩, h1, (values_nodup_iff_inj h1).1 h4, ?_⟩
    intro k ds hk d hd hdg
    have := h5 (k, ds) hk
    simp only [depsBefore, List.all_eq_true, Bool.or_eq_true, Bool.not_eq_true', List.contains_eq_mem,
      decide_eq_false_iff_not] at this
    rcases this d hd with h | h
    · exact absurd hdg h
    · split at h
      · rename_i a b ha hb
        exact ⟨a, b, ha, hb, by simpa using h⟩
      · cases h
  · rintro ⟨hdom, hfn, hinj, htopo⟩
    refine ⟨⟨⟨⟨hfn, fun k hk => (hdom k).2 hk⟩, fun k hk => (hdom k).1 hk⟩, (values_nodup_iff_inj hfn).2 hinj⟩, ?_⟩
    rintro ⟨k, ds⟩ hk
    simp only [depsBefore, List.all_eq_true, Bool.or_eq_true, Bool.not_eq_true', List.contains_eq_mem,
      decide_eq_false_iff_not]
    intro d hd
    by_cases hdg : d ∈ g.map Prod.fst
    · right
      obtain ⟨a, b, ha, hb, hab⟩ := htopo k ds hk d hd hdg
      simp [ha, hb, hab]
    · exact Or.inl hdg

/-- a valid order on a graph with closed dependencies excludes cycles: along every dependency edge the priority
    strictly decreases -/
theorem validOrder_edge_lt {g : Graph} {p : List (Key × Nat)} (h : ValidOrder g p) {k d : Key} {ds : List Key}
    (hk : (k, ds) ∈ g) (hd : d ∈ ds) (hdg : d ∈ g.map Prod.fst) :
    ∃ a b, p.lookup d = some a ∧ p.lookup k = some b ∧ a < b := h.topo k ds hk d hd hdg

/-! ### the frame around the heuristic core (repaired code) -/

theorem stripPrio_inj {n i j : Nat} (hi : i < n) (hj : j < n) (h : stripPrio n i = stripPrio n j) : i = j := by
  unfold stripPrio at h; omega

/-- with `s` stripped leaves the core numbers at most `n - s` keys (`0 … n-s-1`): every stripped leaf is above -/
theorem stripPrio_gt_core {n s j c : Nat} (hj : j < s) (hs : s ≤ n) (hc : c < n - s) : c < stripPrio n j := by
  unfold stripPrio; omega

/-- a leaf stripped later (it became a leaf only after its dependent was stripped) gets a smaller priority -/
theorem stripPrio_later_lt {n i j : Nat} (hij : i < j) (hj : j < n) : stripPrio n j < stripPrio n i := by
  unfold stripPrio; omega

/-- the *unrepaired* formula `len(dsk) - 1 - n_removed_leaves` (with `len(dsk) = n - j` after `j` removals) collides:
    the third stripped leaf and … in general leaf `j` gets `n - 1 - 2j`, which the core also hands out. -/
theorem old_formula_collides : ∃ n s j c, j < s ∧ s ≤ n ∧ c < n - s ∧ (n - j) - 1 - j = c :=
  ⟨5, 2, 1, 2, by decide, by decide, by decide, by decide⟩


/-! ### the frame theorem: stripped leaves + any well-behaved core give a valid order -/

theorem mem_filter_keys (g : Graph) (ext : List Key) (k : Key) :
    k ∈ (g.filter (fun e => !ext.contains e.1)).map Prod.fst ↔ k ∈ g.map Prod.fst ∧ k ∉ ext := by
  simp only [List.mem_map, List.mem_filter, Bool.not_eq_true', List.contains_eq_mem, decide_eq_false_iff_not]
  constructor
  · rintro ⟨e, ⟨h1, h2⟩, rfl⟩; exact ⟨⟨e, h1, rfl⟩, h2⟩
  · rintro ⟨⟨e, h1, rfl⟩, h2⟩; exact ⟨e, ⟨h1, h2⟩, rfl⟩

theorem depsOf_of_mem (g : Graph) (hn : (g.map Prod.fst).Nodup) : ∀ k ds, (k, ds) ∈ g → depsOf g k = ds := by
  induction g with
  | nil => intro k ds h; simp at h
  | cons e rest ih =>
    obtain ⟨k0, ds0⟩ := e
    intro k ds h
    simp only [List.map_cons, List.nodup_cons] at hn
    rcases List.mem_cons.mp h with h1 | h2
    · cases h1; simp [depsOf, List.lookup]
    · have hne : (k == k0) = false := by
        rw [Bool.eq_false_iff]; intro hc
        have hkk : k = k0 := by simpa using hc
        exact hn.1 (List.mem_map.mpr ⟨(k, ds), h2, hkk⟩)
      have := ih hn.2 k ds h2
      simp only [depsOf, List.lookup, hne] at this ⊢
      exact this

/-- **The frame is correct.** Whatever the heuristic core does, as long as it emits every remaining internal key once
    and after its dependencies (`CoreOK`, checked on every real output through `validOrder`), the priorities that
    `order` returns — stripped non-task leaves at `expected_len - 1 - j`, core keys at `0, 1, …`, external keys
    deleted — satisfy the statement. `g` lists the dependencies of every key of `dsk` after the external keys were
    added as data nodes; `ext` are those external keys. -/
theorem order_frame_valid (g : Graph) (isTask : Key → Bool) (ext core : List Key)
    (hn : (g.map Prod.fst).Nodup) (hext : ∀ e ∈ ext, depsOf g e = [])
    (hc : CoreOK g ext (strip g isTask).stripped core) :
    ValidOrder (g.filter (fun e => !ext.contains e.1))
      (framePrios g.length (strip g isTask).stripped core) := by
  have hi := strip_inv g isTask hn
  have ff := frame_facts g isTask ext core hn hc
  have hSkeys : ∀ x ∈ (strip g isTask).stripped, x ∈ g.map Prod.fst :=
    fun x hx => hi.removedKeys x (hi.strippedRemoved x hx)
  have hSext : ∀ x ∈ (strip g isTask).stripped, x ∉ ext := by
    intro x hx he
    have := hi.strippedDeps x hx
    rw [hext x he] at this; simp at this
  -- every key of the dict is a stripped leaf or a core key, with a known priority
  have hcase : ∀ k a, (framePrios g.length (strip g isTask).stripped core).lookup k = some a →
      (∃ A B, (strip g isTask).stripped = A ++ k :: B ∧ a = stripPrio g.length A.length) ∨
      (∃ A B, core = A ++ k :: B ∧ a = A.length ∧ k ∉ (strip g isTask).stripped) := by
    intro k a hl
    have hk : k ∈ (framePrios g.length (strip g isTask).stripped core).map Prod.fst :=
      List.mem_map.mpr ⟨(k, a), lookup_mem_of_some hl, rfl⟩
    rw [ff.keys] at hk
    rcases List.mem_append.mp hk with h | h
    · obtain ⟨A, B, hs, _⟩ := exists_first_occurrence _ k h
      have := ff.lookS A k B hs
      rw [hl] at this
      exact Or.inl ⟨A, B, hs, by simpa using this⟩
    · obtain ⟨A, B, hs, _⟩ := exists_first_occurrence _ k h
      have := ff.lookC A k B hs
      rw [hl] at this
      exact Or.inr ⟨A, B, hs, by simpa using this, ((hc.dom k).mp h).2.1⟩
  have hlenS : ∀ A k B, (strip g isTask).stripped = A ++ k :: B → A.length < (strip g isTask).stripped.length := by
    intro A k B h; rw [h]; simp
  have hlenC : ∀ A k B, core = A ++ k :: B → A.length < core.length := by
    intro A k B h; rw [h]; simp
  refine ⟨?_, ?_, ?_, ?_⟩
  · -- domain
    intro k
    rw [ff.keys, mem_filter_keys, List.mem_append]
    constructor
    · rintro (h | h)
      · exact ⟨hSkeys k h, hSext k h⟩
      · exact ⟨((hc.dom k).mp h).1, ((hc.dom k).mp h).2.2⟩
    · rintro ⟨h1, h2⟩
      by_cases hs : k ∈ (strip g isTask).stripped
      · exact Or.inl hs
      · exact Or.inr ((hc.dom k).mpr ⟨h1, hs, h2⟩)
  · rw [ff.keys]; exact ff.nodup
  · -- pairwise distinct
    intro k k' a hk hk'
    rcases hcase k a hk with ⟨A, B, hs, ha⟩ | ⟨A, B, hs, ha, hns⟩ <;>
      rcases hcase k' a hk' with ⟨A', B', hs', ha'⟩ | ⟨A', B', hs', ha', hns'⟩
    · have h1 := hlenS A k B hs
      have h2 := hlenS A' k' B' hs'
      have hle := ff.len
      have : A.length = A'.length := by unfold stripPrio at ha ha'; omega
      exact split_same_length (hs ▸ hs') this
    · exfalso
      have h1 := hlenS A k B hs
      have h2 := hlenC A' k' B' hs'
      have hle := ff.len
      unfold stripPrio at ha; omega
    · exfalso
      have h1 := hlenC A k B hs
      have h2 := hlenS A' k' B' hs'
      have hle := ff.len
      unfold stripPrio at ha'; omega
    · have : A.length = A'.length := by omega
      exact split_same_length (hs ▸ hs') this
  · -- dependencies first
    intro k ds hkds d hd hdg
    have hkg : (k, ds) ∈ g := (List.mem_filter.mp hkds).1
    have hdeps : depsOf g k = ds := depsOf_of_mem g hn k ds hkg
    have hkk : k ∈ g.map Prod.fst := List.mem_map.mpr ⟨(k, ds), hkg, rfl⟩
    have hkext : k ∉ ext := by
      have := (List.mem_filter.mp hkds).2
      simpa using this
    have hdk := (mem_filter_keys g ext d).mp hdg
    have hdd : d ∈ depsOf g k := hdeps ▸ hd
    have hle := ff.len
    by_cases hks : k ∈ (strip g isTask).stripped
    · obtain ⟨A, B, hs, _⟩ := exists_first_occurrence _ k hks
      have hlk := ff.lookS A k B hs
      have h1 := hlenS A k B hs
      by_cases hds : d ∈ (strip g isTask).stripped
      · -- both stripped: the dependent `k` was stripped before `d`
        obtain ⟨A', B', hs', _⟩ := exists_first_occurrence _ d hds
        have hkA' : k ∈ A' := hi.before A' d B' hs' k hkk hdd
        obtain ⟨A1, A2, hA', _⟩ := exists_first_occurrence A' k hkA'
        have hs'' : (strip g isTask).stripped = A1 ++ k :: (A2 ++ d :: B') := by rw [hs', hA']; simp
        have hAA : A = A1 := split_nodup_unique hi.strippedNodup hs hs''
        have h2 := hlenS A' d B' hs'
        refine ⟨_, _, ff.lookS A' d B' hs', hlk, ?_⟩
        have : A.length < A'.length := by rw [hAA, hA']; simp
        exact stripPrio_later_lt this (by omega)
      · -- `d` is a core key: below every stripped leaf
        have hdc : d ∈ core := (hc.dom d).mpr ⟨hdk.1, hds, hdk.2⟩
        obtain ⟨A', B', hs', _⟩ := exists_first_occurrence _ d hdc
        have h2 := hlenC A' d B' hs'
        refine ⟨_, _, ff.lookC A' d B' hs', hlk, ?_⟩
        unfold stripPrio; omega
    · have hkc : k ∈ core := (hc.dom k).mpr ⟨hkk, hks, hkext⟩
      have hds : d ∉ (strip g isTask).stripped := by
        intro hds
        obtain ⟨A', B', hs', _⟩ := exists_first_occurrence _ d hds
        have hkA' : k ∈ A' := hi.before A' d B' hs' k hkk hdd
        exact hks (by rw [hs']; exact List.mem_append_left _ hkA')
      have hdc : d ∈ core := (hc.dom d).mpr ⟨hdk.1, hds, hdk.2⟩
      obtain ⟨pre, post, hcs, _⟩ := exists_first_occurrence _ k hkc
      have hdpre : d ∈ pre := hc.topo pre k post hcs d hdd hdc
      obtain ⟨P1, P2, hP, _⟩ := exists_first_occurrence pre d hdpre
      have hcs' : core = P1 ++ d :: (P2 ++ k :: post) := by rw [hcs, hP]; simp
      refine ⟨_, _, ff.lookC P1 d _ hcs', ff.lookC pre k post hcs, ?_⟩
      rw [hP]; simp

/-! ### non-vacuity -/

/-- the repaired answer for `{a,b,c: tasks, L1:[a,b], L2:[b,c]}` (keys a,b,c,L1,L2 = 0..4) is accepted … -/
example : validOrder [(0, []), (1, []), (2, []), (3, [0, 1]), (4, [1, 2])] [(3, 4), (4, 3), (2, 0), (1, 1), (0, 2)] = true := by
  decide
/-- … the answer of the unrepaired code is rejected (duplicate priority 2, `L2` not after `c`/`a`) -/
example : validOrder [(0, []), (1, []), (2, []), (3, [0, 1]), (4, [1, 2])] [(3, 4), (4, 2), (2, 0), (1, 1), (0, 2)] = false := by
  decide
/-- the normalisation loop on the same graph strips `L1` then `L2`, and the frame with the core order `c, b, a` is the
    repaired answer -/
example : (strip [(0, []), (1, []), (2, []), (3, [0, 1]), (4, [1, 2])] (fun k => decide (k < 3))).stripped = [3, 4] := by
  decide
example : framePrios 5 [3, 4] [2, 1, 0] = [(3, 4), (4, 3), (2, 0), (1, 1), (0, 2)] := by decide
/-- a shared data root is removed (and a leaf that thereby drops to one dependency is *not* stripped) -/
example : (strip [(0, []), (1, [0]), (2, [0, 1]), (3, [0, 2])] (fun k => decide (k = 1))).stripped = [3] := by decide
/-- dependencies on keys outside the graph are ignored -/
example : validOrder [(0, [7]), (1, [0, 9])] [(0, 0), (1, 1)] = true := by decide

end Dask.C06
