import DaskModel.Model.Order
/-!
# C06 — static task ordering is a total order consistent with dependencies

`order()` is ~600 lines of heuristics. Two layers (DESIGN §5 C06):
* a **proved checker**: `validOrder g p = true ↔ ValidOrder g p` where `ValidOrder` is literally the statement
  (a priority for each key of the graph and for no other key, pairwise distinct, greater than the priorities of all
  dependencies inside the graph); every real `order` output of the correspondence run goes through the compiled checker;
* the **frame** around the heuristic core after the `fix:` commit (stripped non-task leaves get
  `expected_len - 1 - n_removed_leaves`): these priorities are pairwise distinct and above every core priority
  (`stripPrio_inj`, `stripPrio_gt_core`, `stripPrio_later_lt`).
-/
namespace Dask.C06
open Dask.GraphAlg Dask.Order

/-- the statement, for one graph and one returned priority dict -/
structure ValidOrder (g : Graph) (p : List (Key × Nat)) : Prop where
  /-- a priority for each key of the graph and for no other key -/
  dom : ∀ k, k ∈ p.map Prod.fst ↔ k ∈ g.map Prod.fst
  /-- (the result is a dict: each key once) -/
  fn : (p.map Prod.fst).Nodup
  /-- pairwise distinct priorities -/
  inj : ∀ k k' a, p.lookup k = some a → p.lookup k' = some a → k = k'
  /-- every key's priority is greater than the priorities of all its dependencies inside the graph -/
  topo : ∀ k ds, (k, ds) ∈ g → ∀ d ∈ ds, d ∈ g.map Prod.fst →
    ∃ a b, p.lookup d = some a ∧ p.lookup k = some b ∧ a < b

theorem nodupB_iff : ∀ (l : List Nat), nodupB l = true ↔ l.Nodup
  | [] => by simp [nodupB]
  | x :: xs => by
    simp only [nodupB, Bool.and_eq_true, Bool.not_eq_true', List.nodup_cons, nodupB_iff xs]
    constructor
    · rintro ⟨h1, h2⟩
      refine ⟨?_, h2⟩
      intro hm
      have : xs.contains x = true := by simpa using hm
      rw [this] at h1; cases h1
    · rintro ⟨h1, h2⟩
      refine ⟨?_, h2⟩
      rw [Bool.eq_false_iff]; intro hc
      exact h1 (by simpa using hc)

theorem lookup_mem_of_some {p : List (Key × Nat)} {k a : Nat} (h : p.lookup k = some a) : (k, a) ∈ p := by
  induction p with
  | nil => simp at h
  | cons kv rest ih =>
    obtain ⟨k', v'⟩ := kv
    simp only [List.lookup] at h
    split at h
    · rename_i heq
      have : k = k' := by simpa using heq
      cases h; subst this; simp
    · exact List.mem_cons_of_mem _ (ih h)

theorem lookup_of_mem_nodup : ∀ {p : List (Key × Nat)} {k a : Nat}, (p.map Prod.fst).Nodup → (k, a) ∈ p →
    p.lookup k = some a
  | [], _, _, _, h => by simp at h
  | (k', v') :: rest, k, a, hn, h => by
    simp only [List.map_cons, List.nodup_cons] at hn
    rcases List.mem_cons.mp h with h1 | h2
    · cases h1; simp [List.lookup]
    · have hne : (k == k') = false := by
        rw [Bool.eq_false_iff]; intro hc
        have hkk : k = k' := by simpa using hc
        exact hn.1 (List.mem_map.mpr ⟨(k, a), h2, hkk⟩)
      simp only [List.lookup, hne]
      exact lookup_of_mem_nodup hn.2 h2

/-- with distinct keys: values are duplicate-free iff `lookup` is injective -/
theorem values_nodup_iff_inj : ∀ {p : List (Key × Nat)}, (p.map Prod.fst).Nodup →
    ((p.map Prod.snd).Nodup ↔ ∀ k k' a, p.lookup k = some a → p.lookup k' = some a → k = k')
  | [], _ => by simp
  | (k0, v0) :: rest, hn => by
    have hn' := hn
    simp only [List.map_cons, List.nodup_cons] at hn'
    have ih := values_nodup_iff_inj hn'.2
    simp only [List.map_cons, List.nodup_cons]
    constructor
    · rintro ⟨h1, h2⟩ k k' a hk hk'
      have m1 := lookup_mem_of_some hk
      have m2 := lookup_mem_of_some hk'
      rcases List.mem_cons.mp m1 with e1 | m1 <;> rcases List.mem_cons.mp m2 with e2 | m2
      · cases e1; cases e2; rfl
      · cases e1
        exact absurd (List.mem_map.mpr ⟨(k', v0), m2, rfl⟩) h1
      · cases e2
        exact absurd (List.mem_map.mpr ⟨(k, v0), m1, rfl⟩) h1
      · exact (ih.1 h2) k k' a (lookup_of_mem_nodup hn'.2 m1) (lookup_of_mem_nodup hn'.2 m2)
    · intro hinj
      refine ⟨?_, ih.2 ?_⟩
      · intro hm
        obtain ⟨⟨k1, a1⟩, hm1, he⟩ := List.mem_map.mp hm
        simp only at he; subst he
        have l1 : List.lookup k1 ((k0, a1) :: rest) = some a1 :=
          lookup_of_mem_nodup hn (List.mem_cons_of_mem _ hm1)
        have l0 : List.lookup k0 ((k0, a1) :: rest) = some a1 := by simp [List.lookup]
        have := hinj k1 k0 a1 l1 l0
        subst this
        exact hn'.1 (List.mem_map.mpr ⟨(k1, a1), hm1, rfl⟩)
      · intro k k' a hk hk'
        have m1 := lookup_mem_of_some hk
        have m2 := lookup_mem_of_some hk'
        exact hinj k k' a (lookup_of_mem_nodup hn (List.mem_cons_of_mem _ m1))
          (lookup_of_mem_nodup hn (List.mem_cons_of_mem _ m2))

/-- **The checker decides the statement.** -/
theorem validOrder_iff (g : Graph) (p : List (Key × Nat)) : validOrder g p = true ↔ ValidOrder g p := by
  unfold validOrder
  simp only [Bool.and_eq_true, nodupB_iff, List.all_eq_true, List.contains_eq_mem, decide_eq_true_eq]
  constructor
  · rintro ⟨⟨⟨⟨h1, h2⟩, h3⟩, h4⟩, h5⟩
    refine ⟨fun k => ⟨h3 k, h2 k⟩, h1, (values_nodup_iff_inj h1).1 h4, ?_⟩
    intro k ds hk d hd hdg
    have := h5 (k, ds) hk
    simp only [depsBefore, List.all_eq_true, Bool.or_eq_true, Bool.not_eq_true', List.contains_eq_mem,
      decide_eq_false_iff_not] at this
    rcases this d hd with h | h
    · exact absurd hdg h
    · split at h
      · rename_i a b ha hb
        exact ⟨a, b, ha, hb, by simpa using h⟩
      · cases h
  · rintro ⟨hdom, hfn, hinj, htopo⟩
    refine ⟨⟨⟨⟨hfn, fun k hk => (hdom k).2 hk⟩, fun k hk => (hdom k).1 hk⟩, (values_nodup_iff_inj hfn).2 hinj⟩, ?_⟩
    rintro ⟨k, ds⟩ hk
    simp only [depsBefore, List.all_eq_true, Bool.or_eq_true, Bool.not_eq_true', List.contains_eq_mem,
      decide_eq_false_iff_not]
    intro d hd
    by_cases hdg : d ∈ g.map Prod.fst
    · right
      obtain ⟨a, b, ha, hb, hab⟩ := htopo k ds hk d hd hdg
      simp [ha, hb, hab]
    · exact Or.inl hdg

/-- a valid order on a graph with closed dependencies excludes cycles: along every dependency edge the priority
    strictly decreases -/
theorem validOrder_edge_lt {g : Graph} {p : List (Key × Nat)} (h : ValidOrder g p) {k d : Key} {ds : List Key}
    (hk : (k, ds) ∈ g) (hd : d ∈ ds) (hdg : d ∈ g.map Prod.fst) :
    ∃ a b, p.lookup d = some a ∧ p.lookup k = some b ∧ a < b := h.topo k ds hk d hd hdg

/-! ### the frame around the heuristic core (repaired code) -/

theorem stripPrio_inj {n i j : Nat} (hi : i < n) (hj : j < n) (h : stripPrio n i = stripPrio n j) : i = j := by
  unfold stripPrio at h; omega

/-- with `s` stripped leaves the core numbers at most `n - s` keys (`0 … n-s-1`): every stripped leaf is above -/
theorem stripPrio_gt_core {n s j c : Nat} (hj : j < s) (hs : s ≤ n) (hc : c < n - s) : c < stripPrio n j := by
  unfold stripPrio; omega

/-- a leaf stripped later (it became a leaf only after its dependent was stripped) gets a smaller priority -/
theorem stripPrio_later_lt {n i j : Nat} (hij : i < j) (hj : j < n) : stripPrio n j < stripPrio n i := by
  unfold stripPrio; omega

/-- the *unrepaired* formula `len(dsk) - 1 - n_removed_leaves` (with `len(dsk) = n - j` after `j` removals) collides:
    the third stripped leaf and … in general leaf `j` gets `n - 1 - 2j`, which the core also hands out. -/
theorem old_formula_collides : ∃ n s j c, j < s ∧ s ≤ n ∧ c < n - s ∧ (n - j) - 1 - j = c :=
  ⟨5, 2, 1, 2, by decide, by decide, by decide, by decide⟩

/-! ### non-vacuity -/

/-- the repaired answer for `{a,b,c: tasks, L1:[a,b], L2:[b,c]}` (keys a,b,c,L1,L2 = 0..4) is accepted … -/
example : validOrder [(0, []), (1, []), (2, []), (3, [0, 1]), (4, [1, 2])] [(3, 4), (4, 3), (2, 0), (1, 1), (0, 2)] = true := by
  decide
/-- … the answer of the unrepaired code is rejected (duplicate priority 2, `L2` not after `c`/`a`) -/
example : validOrder [(0, []), (1, []), (2, []), (3, [0, 1]), (4, [1, 2])] [(3, 4), (4, 2), (2, 0), (1, 1), (0, 2)] = false := by
  decide
/-- dependencies on keys outside the graph are ignored -/
example : validOrder [(0, [7]), (1, [0, 9])] [(0, 0), (1, 1)] = true := by decide

end Dask.C06
