import DaskModel.Model.Order
import DaskModel.Lemmas.OrderFrame
import DaskModel.Lemmas.OrderNdeps
import DaskModel.Lemmas.OrderNdepsComplete
/-!
# C06 — static task ordering is a total order consistent with dependencies

`order()` is ~600 lines of heuristics. Three layers (DESIGN §5 C06):
* a **proved checker**: `validOrder g p = true ↔ ValidOrder g p` where `ValidOrder` is literally the statement
  (a priority for each key of the graph and for no other key, pairwise distinct, greater than the priorities of all
  dependencies inside the graph); every real `order` output of the correspondence run goes through the compiled checker;
* the **frame** around the heuristic core after the `fix:` commit, proved about a transliteration of the
  normalisation loop (`strip`): `order_frame_valid` — stripped non-task leaves at `expected_len - 1 - j` plus *any* core
  that emits the remaining internal keys once and dependencies-first (`CoreOK`, decided by `coreOKb`: `coreOKb_iff`)
  give a `ValidOrder`; ingredients `strip_inv` (every dependent of a stripped leaf was stripped before it), `stripPrio_*`;
* **cyclic graphs are rejected**, proved about transliterations of `ndependencies` (Kahn-style count with the explicit
  stack `current`) and of the test `len(total_dependencies) != len(dsk)` composed with `strip` (`orderPrelude`):
  `order_rejects_cyclic`, its converse `order_accepts_acyclic`, `order_raises_iff_cyclic`; the fuel the driver uses
  suffices and no KeyError arises (`order_ndependencies_total`).
Still validated only: that the heuristic core (critical-path walk, `process_runnables`, `add_to_result`) satisfies `CoreOK`.
-/
namespace Dask.C06
open Dask.GraphAlg Dask.Order

/-- the statement, for one graph and one returned priority dict -/
structure ValidOrder (g : Graph) (p : List (Key × Nat)) : Prop where
  /-- a priority for each key of the graph and for no other key -/
  dom : ∀ k, k ∈ p.map Prod.fst ↔ k ∈ g.map Prod.fst
  /-- (the result is a dict: each key once) -/
  fn : (p.map Prod.fst).Nodup
  /-- pairwise distinct priorities -/
  inj : ∀ k k' a, p.lookup k = some a → p.lookup k' = some a → k = k'
  /-- every key's priority is greater than the priorities of all its dependencies inside the graph -/
  topo : ∀ k ds, (k, ds) ∈ g → ∀ d ∈ ds, d ∈ g.map Prod.fst →
    ∃ a b, p.lookup d = some a ∧ p.lookup k = some b ∧ a < b

theorem nodupB_iff : ∀ (l : List Nat), nodupB l = true ↔ l.Nodup
  | [] => by simp [nodupB]
  | x :: xs => by
    simp only [nodupB, Bool.and_eq_true, Bool.not_eq_true', List.nodup_cons, nodupB_iff xs]
    constructor
    · rintro ⟨h1, h2⟩
      refine ⟨?_, h2⟩
      intro hm
      have : xs.contains x = true := by simpa using hm
      rw [this] at h1; cases h1
    · rintro ⟨h1, h2⟩
      refine ⟨?_, h2⟩
      rw [Bool.eq_false_iff]; intro hc
      exact h1 (by simpa using hc)

theorem lookup_mem_of_some {p : List (Key × Nat)} {k a : Nat} (h : p.lookup k = some a) : (k, a) ∈ p := by
  induction p with
  | nil => simp at h
  | cons kv rest ih =>
    obtain ⟨k', v'⟩ := kv
    simp only [List.lookup] at h
    split at h
    · rename_i heq
      have : k = k' := by simpa using heq
      cases h; subst this; simp
    · exact List.mem_cons_of_mem _ (ih h)

theorem lookup_of_mem_nodup : ∀ {p : List (Key × Nat)} {k a : Nat}, (p.map Prod.fst).Nodup → (k, a) ∈ p →
    p.lookup k = some a
  | [], _, _, _, h => by simp at h
  | (k', v') :: rest, k, a, hn, h => by
    simp only [List.map_cons, List.nodup_cons] at hn
    rcases List.mem_cons.mp h with h1 | h2
    · cases h1; simp [List.lookup]
    · have hne : (k == k') = false := by
        rw [Bool.eq_false_iff]; intro hc
        have hkk : k = k' := by simpa using hc
        exact hn.1 (List.mem_map.mpr ⟨(k, a), h2, hkk⟩)
      simp only [List.lookup, hne]
      exact lookup_of_mem_nodup hn.2 h2

/-- with distinct keys: values are duplicate-free iff `lookup` is injective -/
theorem values_nodup_iff_inj : ∀ {p : List (Key × Nat)}, (p.map Prod.fst).Nodup →
    ((p.map Prod.snd).Nodup ↔ ∀ k k' a, p.lookup k = some a → p.lookup k' = some a → k = k')
  | [], _ => by simp
  | (k0, v0) :: rest, hn => by
    have hn' := hn
    simp only [List.map_cons, List.nodup_cons] at hn'
    have ih := values_nodup_iff_inj hn'.2
    simp only [List.map_cons, List.nodup_cons]
    constructor
    · rintro ⟨h1, h2⟩ k k' a hk hk'
      have m1 := lookup_mem_of_some hk
      have m2 := lookup_mem_of_some hk'
      rcases List.mem_cons.mp m1 with e1 | m1 <;> rcases List.mem_cons.mp m2 with e2 | m2
      · cases e1; cases e2; rfl
      · cases e1
        exact absurd (List.mem_map.mpr ⟨(k', v0), m2, rfl⟩) h1
      · cases e2
        exact absurd (List.mem_map.mpr ⟨(k, v0), m1, rfl⟩) h1
      · exact (ih.1 h2) k k' a (lookup_of_mem_nodup hn'.2 m1) (lookup_of_mem_nodup hn'.2 m2)
    · intro hinj
      refine ⟨?_, ih.2 ?_⟩
      · intro hm
        obtain ⟨⟨k1, a1⟩, hm1, he⟩ := List.mem_map.mp hm
        simp only at he; subst he
        have l1 : List.lookup k1 ((k0, a1) :: rest) = some a1 :=
          lookup_of_mem_nodup hn (List.mem_cons_of_mem _ hm1)
        have l0 : List.lookup k0 ((k0, a1) :: rest) = some a1 := by simp [List.lookup]
        have := hinj k1 k0 a1 l1 l0
        subst this
        exact hn'.1 (List.mem_map.mpr ⟨(k1, a1), hm1, rfl⟩)
      · intro k k' a hk hk'
        have m1 := lookup_mem_of_some hk
        have m2 := lookup_mem_of_some hk'
        exact hinj k k' a (lookup_of_mem_nodup hn (List.mem_cons_of_mem _ m1))
          (lookup_of_mem_nodup hn (List.mem_cons_of_mem _ m2))

/-- **The checker decides the statement.** -/
theorem validOrder_iff (g : Graph) (p : List (Key × Nat)) : validOrder g p = true ↔ ValidOrder g p := by
  unfold validOrder
  simp only [Bool.and_eq_true, nodupB_iff, List.all_eq_true, List.contains_eq_mem, decide_eq_true_eq]
  constructor
  · rintro ⟨⟨⟨⟨h1, h2⟩, h3⟩, h4⟩, h5⟩
    refine ⟨fun k => ⟨h3 k, h2 k⟩, h1, (values_nodup_iff_inj h1).1 h4, ?_⟩
    intro k ds hk d hd hdg
    have := h5 (k, ds) hk
    simp only [depsBefore, List.all_eq_true, Bool.or_eq_true, Bool.not_eq_true', List.contains_eq_mem,
      decide_eq_false_iff_not] at this
    rcases this d hd with h | h
    · exact absurd hdg h
    · split at h
      · rename_i a b ha hb
        exact ⟨a, b, ha, hb, by simpa using h⟩
      · cases h
  · rintro ⟨hdom, hfn, hinj, htopo⟩
    refine ⟨⟨⟨⟨hfn, fun k hk => (hdom k).2 hk⟩, fun k hk => (hdom k).1 hk⟩, (values_nodup_iff_inj hfn).2 hinj⟩, ?_⟩
    rintro ⟨k, ds⟩ hk
    simp only [depsBefore, List.all_eq_true, Bool.or_eq_true, Bool.not_eq_true', List.contains_eq_mem,
      decide_eq_false_iff_not]
    intro d hd
    by_cases hdg : d ∈ g.map Prod.fst
    · right
      obtain ⟨a, b, ha, hb, hab⟩ := htopo k ds hk d hd hdg
      simp [ha, hb, hab]
    · exact Or.inl hdg

/-- a valid order on a graph with closed dependencies excludes cycles: along every dependency edge the priority
    strictly decreases -/
theorem validOrder_edge_lt {g : Graph} {p : List (Key × Nat)} (h : ValidOrder g p) {k d : Key} {ds : List Key}
    (hk : (k, ds) ∈ g) (hd : d ∈ ds) (hdg : d ∈ g.map Prod.fst) :
    ∃ a b, p.lookup d = some a ∧ p.lookup k = some b ∧ a < b := h.topo k ds hk d hd hdg

/-! ### the frame around the heuristic core (repaired code) -/

theorem stripPrio_inj {n i j : Nat} (hi : i < n) (hj : j < n) (h : stripPrio n i = stripPrio n j) : i = j := by
  unfold stripPrio at h; omega

/-- with `s` stripped leaves the core numbers at most `n - s` keys (`0 … n-s-1`): every stripped leaf is above -/
theorem stripPrio_gt_core {n s j c : Nat} (hj : j < s) (hs : s ≤ n) (hc : c < n - s) : c < stripPrio n j := by
  unfold stripPrio; omega

/-- a leaf stripped later (it became a leaf only after its dependent was stripped) gets a smaller priority -/
theorem stripPrio_later_lt {n i j : Nat} (hij : i < j) (hj : j < n) : stripPrio n j < stripPrio n i := by
  unfold stripPrio; omega

/-- the *unrepaired* formula `len(dsk) - 1 - n_removed_leaves` (with `len(dsk) = n - j` after `j` removals) collides:
    the third stripped leaf and … in general leaf `j` gets `n - 1 - 2j`, which the core also hands out. -/
theorem old_formula_collides : ∃ n s j c, j < s ∧ s ≤ n ∧ c < n - s ∧ (n - j) - 1 - j = c :=
  ⟨5, 2, 1, 2, by decide, by decide, by decide, by decide⟩


/-! ### the frame theorem: stripped leaves + any well-behaved core give a valid order -/

theorem mem_filter_keys (g : Graph) (ext : List Key) (k : Key) :
    k ∈ (g.filter (fun e => !ext.contains e.1)).map Prod.fst ↔ k ∈ g.map Prod.fst ∧ k ∉ ext := by
  simp only [List.mem_map, List.mem_filter, Bool.not_eq_true', List.contains_eq_mem, decide_eq_false_iff_not]
  constructor
  · rintro ⟨e, ⟨h1, h2⟩, rfl⟩; exact ⟨⟨e, h1, rfl⟩, h2⟩
  · rintro ⟨⟨e, h1, rfl⟩, h2⟩; exact ⟨e, ⟨h1, h2⟩, rfl⟩

theorem depsOf_of_mem (g : Graph) (hn : (g.map Prod.fst).Nodup) : ∀ k ds, (k, ds) ∈ g → depsOf g k = ds := by
  induction g with
  | nil => intro k ds h; simp at h
  | cons e rest ih =>
    obtain ⟨k0, ds0⟩ := e
    intro k ds h
    simp only [List.map_cons, List.nodup_cons] at hn
    rcases List.mem_cons.mp h with h1 | h2
    · cases h1; simp [depsOf, List.lookup]
    · have hne : (k == k0) = false := by
        rw [Bool.eq_false_iff]; intro hc
        have hkk : k = k0 := by simpa using hc
        exact hn.1 (List.mem_map.mpr ⟨(k, ds), h2, hkk⟩)
      have := ih hn.2 k ds h2
      simp only [depsOf, List.lookup, hne] at this ⊢
      exact this

/-- **The frame is correct.** Whatever the heuristic core does, as long as it emits every remaining internal key once
    and after its dependencies (`CoreOK`, checked on every real output through `validOrder`), the priorities that
    `order` returns — stripped non-task leaves at `expected_len - 1 - j`, core keys at `0, 1, …`, external keys
    deleted — satisfy the statement. `g` lists the dependencies of every key of `dsk` after the external keys were
    added as data nodes; `ext` are those external keys. -/
theorem order_frame_valid (g : Graph) (isTask : Key → Bool) (ext core : List Key)
    (hn : (g.map Prod.fst).Nodup) (hext : ∀ e ∈ ext, depsOf g e = [])
    (hc : CoreOK g ext (strip g isTask).stripped core) :
    ValidOrder (g.filter (fun e => !ext.contains e.1))
      (framePrios g.length (strip g isTask).stripped core) := by
  have hi := strip_inv g isTask hn
  have ff := frame_facts g isTask ext core hn hc
  have hSkeys : ∀ x ∈ (strip g isTask).stripped, x ∈ g.map Prod.fst :=
    fun x hx => hi.removedKeys x (hi.strippedRemoved x hx)
  have hSext : ∀ x ∈ (strip g isTask).stripped, x ∉ ext := by
    intro x hx he
    have := hi.strippedDeps x hx
    rw [hext x he] at this; simp at this
  -- every key of the dict is a stripped leaf or a core key, with a known priority
  have hcase : ∀ k a, (framePrios g.length (strip g isTask).stripped core).lookup k = some a →
      (∃ A B, (strip g isTask).stripped = A ++ k :: B ∧ a = stripPrio g.length A.length) ∨
      (∃ A B, core = A ++ k :: B ∧ a = A.length ∧ k ∉ (strip g isTask).stripped) := by
    intro k a hl
    have hk : k ∈ (framePrios g.length (strip g isTask).stripped core).map Prod.fst :=
      List.mem_map.mpr ⟨(k, a), lookup_mem_of_some hl, rfl⟩
    rw [ff.keys] at hk
    rcases List.mem_append.mp hk with h | h
    · obtain ⟨A, B, hs, _⟩ := exists_first_occurrence _ k h
      have := ff.lookS A k B hs
      rw [hl] at this
      exact Or.inl ⟨A, B, hs, by simpa using this⟩
    · obtain ⟨A, B, hs, _⟩ := exists_first_occurrence _ k h
      have := ff.lookC A k B hs
      rw [hl] at this
      exact Or.inr ⟨A, B, hs, by simpa using this, ((hc.dom k).mp h).2.1⟩
  have hlenS : ∀ A k B, (strip g isTask).stripped = A ++ k :: B → A.length < (strip g isTask).stripped.length := by
    intro A k B h; rw [h]; simp
  have hlenC : ∀ A k B, core = A ++ k :: B → A.length < core.length := by
    intro A k B h; rw [h]; simp
  refine ⟨?_, ?_, ?_, ?_⟩
  · -- domain
    intro k
    rw [ff.keys, mem_filter_keys, List.mem_append]
    constructor
    · rintro (h | h)
      · exact ⟨hSkeys k h, hSext k h⟩
      · exact ⟨((hc.dom k).mp h).1, ((hc.dom k).mp h).2.2⟩
    · rintro ⟨h1, h2⟩
      by_cases hs : k ∈ (strip g isTask).stripped
      · exact Or.inl hs
      · exact Or.inr ((hc.dom k).mpr ⟨h1, hs, h2⟩)
  · rw [ff.keys]; exact ff.nodup
  · -- pairwise distinct
    intro k k' a hk hk'
    rcases hcase k a hk with ⟨A, B, hs, ha⟩ | ⟨A, B, hs, ha, hns⟩ <;>
      rcases hcase k' a hk' with ⟨A', B', hs', ha'⟩ | ⟨A', B', hs', ha', hns'⟩
    · have h1 := hlenS A k B hs
      have h2 := hlenS A' k' B' hs'
      have hle := ff.len
      have : A.length = A'.length := by unfold stripPrio at ha ha'; omega
      exact split_same_length (hs ▸ hs') this
    · exfalso
      have h1 := hlenS A k B hs
      have h2 := hlenC A' k' B' hs'
      have hle := ff.len
      unfold stripPrio at ha; omega
    · exfalso
      have h1 := hlenC A k B hs
      have h2 := hlenS A' k' B' hs'
      have hle := ff.len
      unfold stripPrio at ha'; omega
    · have : A.length = A'.length := by omega
      exact split_same_length (hs ▸ hs') this
  · -- dependencies first
    intro k ds hkds d hd hdg
    have hkg : (k, ds) ∈ g := (List.mem_filter.mp hkds).1
    have hdeps : depsOf g k = ds := depsOf_of_mem g hn k ds hkg
    have hkk : k ∈ g.map Prod.fst := List.mem_map.mpr ⟨(k, ds), hkg, rfl⟩
    have hkext : k ∉ ext := by
      have := (List.mem_filter.mp hkds).2
      simpa using this
    have hdk := (mem_filter_keys g ext d).mp hdg
    have hdd : d ∈ depsOf g k := hdeps ▸ hd
    have hle := ff.len
    by_cases hks : k ∈ (strip g isTask).stripped
    · obtain ⟨A, B, hs, _⟩ := exists_first_occurrence _ k hks
      have hlk := ff.lookS A k B hs
      have h1 := hlenS A k B hs
      by_cases hds : d ∈ (strip g isTask).stripped
      · -- both stripped: the dependent `k` was stripped before `d`
        obtain ⟨A', B', hs', _⟩ := exists_first_occurrence _ d hds
        have hkA' : k ∈ A' := hi.before A' d B' hs' k hkk hdd
        obtain ⟨A1, A2, hA', _⟩ := exists_first_occurrence A' k hkA'
        have hs'' : (strip g isTask).stripped = A1 ++ k :: (A2 ++ d :: B') := by rw [hs', hA']; simp
        have hAA : A = A1 := split_nodup_unique hi.strippedNodup hs hs''
        have h2 := hlenS A' d B' hs'
        refine ⟨_, _, ff.lookS A' d B' hs', hlk, ?_⟩
        have : A.length < A'.length := by rw [hAA, hA']; simp
        exact stripPrio_later_lt this (by omega)
      · -- `d` is a core key: below every stripped leaf
        have hdc : d ∈ core := (hc.dom d).mpr ⟨hdk.1, hds, hdk.2⟩
        obtain ⟨A', B', hs', _⟩ := exists_first_occurrence _ d hdc
        have h2 := hlenC A' d B' hs'
        refine ⟨_, _, ff.lookC A' d B' hs', hlk, ?_⟩
        unfold stripPrio; omega
    · have hkc : k ∈ core := (hc.dom k).mpr ⟨hkk, hks, hkext⟩
      have hds : d ∉ (strip g isTask).stripped := by
        intro hds
        obtain ⟨A', B', hs', _⟩ := exists_first_occurrence _ d hds
        have hkA' : k ∈ A' := hi.before A' d B' hs' k hkk hdd
        exact hks (by rw [hs']; exact List.mem_append_left _ hkA')
      have hdc : d ∈ core := (hc.dom d).mpr ⟨hdk.1, hds, hdk.2⟩
      obtain ⟨pre, post, hcs, _⟩ := exists_first_occurrence _ k hkc
      have hdpre : d ∈ pre := hc.topo pre k post hcs d hdd hdc
      obtain ⟨P1, P2, hP, _⟩ := exists_first_occurrence pre d hdpre
      have hcs' : core = P1 ++ d :: (P2 ++ k :: post) := by rw [hcs, hP]; simp
      refine ⟨_, _, ff.lookC P1 d _ hcs', ff.lookC pre k post hcs, ?_⟩
      rw [hP]; simp

/-! ### non-vacuity -/

/-- the repaired answer for `{a,b,c: tasks, L1:[a,b], L2:[b,c]}` (keys a,b,c,L1,L2 = 0..4) is accepted … -/
example : validOrder [(0, []), (1, []), (2, []), (3, [0, 1]), (4, [1, 2])] [(3, 4), (4, 3), (2, 0), (1, 1), (0, 2)] = true := by
  decide
/-- … the answer of the unrepaired code is rejected (duplicate priority 2, `L2` not after `c`/`a`) -/
example : validOrder [(0, []), (1, []), (2, []), (3, [0, 1]), (4, [1, 2])] [(3, 4), (4, 2), (2, 0), (1, 1), (0, 2)] = false := by
  decide
/-- the normalisation loop on the same graph strips `L1` then `L2`, and the frame with the core order `c, b, a` is the
    repaired answer -/
example : (strip [(0, []), (1, []), (2, []), (3, [0, 1]), (4, [1, 2])] (fun k => decide (k < 3))).stripped = [3, 4] := by
  decide
example : framePrios 5 [3, 4] [2, 1, 0] = [(3, 4), (4, 3), (2, 0), (1, 1), (0, 2)] := by decide
/-- a shared data root is removed (and a leaf that thereby drops to one dependency is *not* stripped) -/
example : (strip [(0, []), (1, [0]), (2, [0, 1]), (3, [0, 2])] (fun k => decide (k = 1))).stripped = [3] := by decide
/-- dependencies on keys outside the graph are ignored -/
example : validOrder [(0, [7]), (1, [0, 9])] [(0, 0), (1, 1)] = true := by decide


/-! ### cyclic graphs are rejected (the Kahn-style count `ndependencies` and the test `len(total_dependencies) != len(dsk)`) -/

/-- (a1) every key that receives a total has all its dependencies in `result` *before* it (`total` is newest first) —
    for arbitrary `dependents`, any fuel -/
theorem ndependencies_deps_before {deps dnts : Graph} {fuel : Nat} (hn : (deps.map Prod.fst).Nodup)
    {nn total : List (Key × Nat)} (h : ndependencies deps dnts fuel = some (.ok nn total)) :
    (total.map Prod.fst).Nodup ∧ (∀ k ∈ total.map Prod.fst, k ∈ deps.map Prod.fst) ∧
    ∀ pre k post, total.map Prod.fst = pre ++ k :: post → ∀ d, Edge deps k d → d ∈ post := by
  obtain ⟨ht, hs, _⟩ := ndependencies_sound deps dnts fuel hn h
  exact ⟨ht.nodup, hs, fun pre k post hsplit d e => ht.split pre k post hsplit d e⟩

/-- (a2) hence a key with a total lies on no dependency cycle and depends on no cycle -/
theorem ndependencies_total_acyclic {deps dnts : Graph} {fuel : Nat} (hn : (deps.map Prod.fst).Nodup)
    {nn total : List (Key × Nat)} (h : ndependencies deps dnts fuel = some (.ok nn total)) {k : Key}
    (hk : k ∈ total.map Prod.fst) : ¬ Path deps k k ∧ ∀ c, Path deps k c → ¬ Path deps c c := by
  obtain ⟨ht, _, _⟩ := ndependencies_sound deps dnts fuel hn h
  exact ⟨ht.no_cycle k hk, fun c p => ht.no_cycle c (ht.path_closed p hk)⟩

/-- (a3) if the graph has a cycle, `total_dependencies` is strictly smaller than the graph: the test
    `len(total_dependencies) != len(dsk)` fires -/
theorem ndependencies_cyclic_short {deps dnts : Graph} {fuel : Nat} (hn : (deps.map Prod.fst).Nodup)
    {nn total : List (Key × Nat)} (h : ndependencies deps dnts fuel = some (.ok nn total)) {c : Key}
    (p : Path deps c c) : total.length < deps.length := by
  obtain ⟨ht, hs, _⟩ := ndependencies_sound deps dnts fuel hn h
  have hc : c ∈ deps.map Prod.fst := by
    obtain ⟨x, e, _⟩ := p.cycle_first
    exact edge_mem_keys e
  have := length_lt_of_missing ht.nodup hs hc (fun hm => ht.no_cycle c hm p)
  simpa using this

/-- (a4) keys on a cycle are never stripped leaves or removed data roots: the cycle survives the normalisation loop -/
theorem strip_keeps_cycle (g : Graph) (isTask : Key → Bool) (hn : (g.map Prod.fst).Nodup) {c : Key}
    (p : Path g c c) : c ∈ (strip g isTask).alive ∧ Path (aliveDeps g (strip g isTask)) c c := by
  have q := Dask.Order.strip_keeps_cycle g isTask hn p
  refine ⟨?_, q⟩
  obtain ⟨x, e, _⟩ := q.cycle_first
  have := edge_mem_keys e
  rwa [aliveDeps_keys] at this

/-- **Cyclic graphs never get past the cycle test** (soundness half, any fuel): on a graph with duplicate-free keys
    and a dependency cycle the model of `order` — normalisation loop, `ndependencies`, the test
    `len(total_dependencies) != len(dsk)` — never proceeds to the ordering core; it ends in the raising branch, a
    KeyError, or runs out of fuel. (`order_rejects_cyclic` below removes the last two alternatives.) -/
theorem order_cyclic_never_proceeds (g : Graph) (isTask : Key → Bool) (hn : (g.map Prod.fst).Nodup) {c : Key}
    (p : Path g c c) (fuel : Nat) (nn total : List (Key × Nat)) :
    orderPrelude g isTask fuel ≠ some (.proceeds nn total) := by
  intro h
  unfold orderPrelude at h
  simp only at h
  split at h
  · cases h
  · cases h
  · rename_i nn' total' hnd
    have hi := strip_inv g isTask hn
    have hn' : ((aliveDeps g (strip g isTask)).map Prod.fst).Nodup := by
      rw [aliveDeps_keys]; exact hi.aliveNodup
    have hlt := ndependencies_cyclic_short hn' hnd (Dask.Order.strip_keeps_cycle g isTask hn p)
    have hlen : (aliveDeps g (strip g isTask)).length = (strip g isTask).alive.length := by
      simp [aliveDeps]
    split at h
    · cases h
    · rename_i hne
      simp only [bne_iff_ne, ne_eq, Decidable.not_not] at hne
      omega


/-- the well-formedness `order` establishes before the normalisation loop: `g` lists, for every key of `dsk` *after the
    external keys were added as data nodes*, its dependency set (duplicate-free, closed), each key once -/
structure GraphWF (g : Graph) : Prop where
  keysNodup : (g.map Prod.fst).Nodup
  depsNodup : ∀ e ∈ g, e.2.Nodup
  closed : ∀ e ∈ g, ∀ d ∈ e.2, d ∈ g.map Prod.fst

theorem GraphWF.depsOf_nodup {g : Graph} (wf : GraphWF g) (k : Key) : (depsOf g k).Nodup := by
  unfold depsOf
  cases h : g.lookup k with
  | none => simp
  | some ds => exact wf.depsNodup (k, ds) (mem_of_lookup_some g k ds h)

theorem GraphWF.depsOf_closed {g : Graph} (wf : GraphWF g) (k : Key) : ∀ d ∈ depsOf g k, d ∈ g.map Prod.fst := by
  unfold depsOf
  cases h : g.lookup k with
  | none => simp
  | some ds => exact wf.closed (k, ds) (mem_of_lookup_some g k ds h)

/-- the fuel the driver gives to the cycle test: one loop iteration per remaining key, plus one -/
def preludeFuel (g : Graph) (isTask : Key → Bool) : Nat := ndFuel (aliveDeps g (strip g isTask))

/-- (b1) on the mappings `order` builds, `ndependencies` never raises KeyError and never runs out of the driver's fuel -/
theorem order_ndependencies_total (g : Graph) (isTask : Key → Bool) (wf : GraphWF g) :
    ∃ nn total, ndependencies (aliveDeps g (strip g isTask)) (aliveDependents g (strip g isTask))
      (preludeFuel g isTask) = some (.ok nn total) := by
  have hi := strip_inv g isTask wf.keysNodup
  obtain ⟨total, _, h, _⟩ := ndependencies_total (alive_wf hi wf.depsOf_nodup wf.depsOf_closed)
  exact ⟨_, total, h⟩

/-- **Cyclic graphs are rejected.** For every graph with duplicate-free keys and closed duplicate-free dependency
    sets, and every task/non-task labelling: if some key lies on a dependency cycle then the model of `order` —
    normalisation loop `strip`, `ndependencies` with the driver's fuel, the test `len(total_dependencies) != len(dsk)` —
    ends in the raising branch (not in a KeyError, not out of fuel, and never in the ordering core). -/
theorem order_rejects_cyclic (g : Graph) (isTask : Key → Bool) (wf : GraphWF g) {c : Key} (p : Path g c c) :
    orderPrelude g isTask (preludeFuel g isTask) = some .raisesCycle := by
  obtain ⟨nn, total, h⟩ := order_ndependencies_total g isTask wf
  have hi := strip_inv g isTask wf.keysNodup
  have hn' : ((aliveDeps g (strip g isTask)).map Prod.fst).Nodup := by
    rw [aliveDeps_keys]; exact hi.aliveNodup
  have hlt := ndependencies_cyclic_short hn' h (Dask.Order.strip_keeps_cycle g isTask wf.keysNodup p)
  have hlen : (aliveDeps g (strip g isTask)).length = (strip g isTask).alive.length := by simp [aliveDeps]
  unfold orderPrelude
  simp only [h]
  have : (total.length != (strip g isTask).alive.length) = true := by
    simp only [bne_iff_ne, ne_eq]; omega
  simp [this]

/-- **Acyclic graphs pass the cycle test** (the converse): no key on a cycle ⇒ every remaining key gets a total and
    `order` proceeds to its core with `total_dependencies` defined on exactly the remaining keys. -/
theorem order_accepts_acyclic (g : Graph) (isTask : Key → Bool) (wf : GraphWF g) (hac : ∀ k, ¬ Path g k k) :
    ∃ nn total, orderPrelude g isTask (preludeFuel g isTask) = some (.proceeds nn total) ∧
      (∀ k, k ∈ total.map Prod.fst ↔ k ∈ (strip g isTask).alive) := by
  have hi := strip_inv g isTask wf.keysNodup
  have hwf := alive_wf hi wf.depsOf_nodup wf.depsOf_closed
  obtain ⟨total, h, hall⟩ := ndependencies_complete hwf (fun k p => hac k (path_of_alive hi p))
  obtain ⟨ht, hs, _⟩ := ndependencies_sound _ _ _ hwf.keysNodup h
  rw [aliveDeps_keys] at hall hs
  refine ⟨(aliveDeps g (strip g isTask)).map (fun e => (e.1, e.2.length)), total, ?_, fun k => ⟨hs k, hall k⟩⟩
  have h1 : total.length ≤ (strip g isTask).alive.length := by
    have := List.Nodup.length_le_of_subset ht.nodup hs
    simpa using this
  have h2 : (strip g isTask).alive.length ≤ total.length := by
    have := List.Nodup.length_le_of_subset hi.aliveNodup hall
    simpa using this
  unfold orderPrelude preludeFuel
  simp only [h]
  have : (total.length != (strip g isTask).alive.length) = false := by
    simp only [bne_eq_false_iff_eq]; omega
  simp [this]

/-- the cycle test is exact: the model of `order` raises iff the graph has a dependency cycle -/
theorem order_raises_iff_cyclic (g : Graph) (isTask : Key → Bool) (wf : GraphWF g) :
    orderPrelude g isTask (preludeFuel g isTask) = some .raisesCycle ↔ ∃ c, Path g c c := by
  constructor
  · intro h
    refine Classical.byContradiction fun hno => ?_
    obtain ⟨nn, total, h', _⟩ := order_accepts_acyclic g isTask wf (fun k p => hno ⟨k, p⟩)
    rw [h] at h'; cases h'
  · rintro ⟨c, p⟩; exact order_rejects_cyclic g isTask wf p

/-! non-vacuity of the hypotheses -/
/-- a 3-cycle below a stripped non-task leaf (key 4 depends on the cycle key 1 and on the task 3) -/
example : GraphWF [(0, [2]), (1, [0]), (2, [1]), (3, []), (4, [1, 3])] :=
  ⟨by decide, by decide, by decide⟩
example : Path [(0, [2]), (1, [0]), (2, [1]), (3, []), (4, [1, 3])] 0 0 :=
  Path.cons (b := 2) ⟨[2], rfl, by simp⟩ (Path.cons (b := 1) ⟨[1], rfl, by simp⟩ (Path.single ⟨[0], rfl, by simp⟩))
example : orderPrelude [(0, [2]), (1, [0]), (2, [1]), (3, []), (4, [1, 3])] (fun k => decide (k < 4))
    (preludeFuel [(0, [2]), (1, [0]), (2, [1]), (3, []), (4, [1, 3])] (fun k => decide (k < 4))) = some .raisesCycle := by
  decide
example : (strip [(0, [2]), (1, [0]), (2, [1]), (3, []), (4, [1, 3])] (fun k => decide (k < 4))).stripped = [4] := by
  decide


/-! ### the decidable form of `CoreOK` (what the harness runs on the core order read off every real output) -/

theorem coreTopoB_iff (g : Graph) (core : List Key) : ∀ (rest pre : List Key),
    coreTopoB g core pre rest = true ↔
      ∀ A k B, rest = A ++ k :: B → ∀ d ∈ depsOf g k, d ∈ core → d ∈ pre ∨ d ∈ A
  | [], pre => by
    simp only [coreTopoB, true_iff]
    intro A k B h; simp at h
  | k :: post, pre => by
    simp only [coreTopoB, Bool.and_eq_true, List.all_eq_true, Bool.or_eq_true, Bool.not_eq_true',
      List.contains_eq_mem, decide_eq_true_eq, decide_eq_false_iff_not, coreTopoB_iff g core post (k :: pre)]
    constructor
    · rintro ⟨h1, h2⟩ A k' B hsplit d hd hdc
      cases A with
      | nil =>
        simp only [List.nil_append, List.cons.injEq] at hsplit
        obtain ⟨rfl, rfl⟩ := hsplit
        rcases h1 d hd with h | h
        · exact absurd hdc h
        · exact Or.inl h
      | cons a A' =>
        simp only [List.cons_append, List.cons.injEq] at hsplit
        obtain ⟨rfl, hpost⟩ := hsplit
        rcases h2 A' k' B hpost d hd hdc with h | h
        · rcases List.mem_cons.mp h with rfl | h
          · exact Or.inr (by simp)
          · exact Or.inl h
        · exact Or.inr (List.mem_cons_of_mem _ h)
    · intro h
      refine ⟨?_, ?_⟩
      · intro d hd
        by_cases hdc : d ∈ core
        · rcases h [] k post rfl d hd hdc with h' | h'
          · exact Or.inr h'
          · simp at h'
        · exact Or.inl hdc
      · intro A k' B hpost d hd hdc
        rcases h (k :: A) k' B (by simp [hpost]) d hd hdc with h' | h'
        · exact Or.inl (List.mem_cons_of_mem _ h')
        · rcases List.mem_cons.mp h' with rfl | h'
          · exact Or.inl (by simp)
          · exact Or.inr h'

/-- **the executable check decides `CoreOK`** — so `order_frame_valid` applies to every real output whose core order
    passes `coreOKb` -/
theorem coreOKb_iff (g : Graph) (ext S core : List Key) : coreOKb g ext S core = true ↔ CoreOK g ext S core := by
  unfold coreOKb
  simp only [Bool.and_eq_true, nodupB_iff, List.all_eq_true, Bool.or_eq_true, Bool.not_eq_true',
    List.contains_eq_mem, decide_eq_true_eq, decide_eq_false_iff_not, coreTopoB_iff]
  constructor
  · rintro ⟨⟨⟨h1, h2⟩, h3⟩, h4⟩
    refine ⟨h1, ?_, ?_⟩
    · intro k
      constructor
      · intro hk; exact ⟨(h2 k hk).1.1, (h2 k hk).1.2, (h2 k hk).2⟩
      · rintro ⟨hk, hs, he⟩
        rcases h3 k hk with (h | h) | h
        · exact absurd h hs
        · exact absurd h he
        · exact h
    · intro pre k post hsplit d hd hdc
      rcases h4 pre k post hsplit d hd hdc with h | h
      · simp at h
      · exact h
  · rintro ⟨h1, h2, h3⟩
    refine ⟨⟨⟨h1, ?_⟩, ?_⟩, ?_⟩
    · intro k hk
      have := (h2 k).mp hk
      exact ⟨⟨this.1, this.2.1⟩, this.2.2⟩
    · intro k hk
      by_cases hs : k ∈ S
      · exact Or.inl (Or.inl hs)
      · by_cases he : k ∈ ext
        · exact Or.inl (Or.inr he)
        · exact Or.inr ((h2 k).mpr ⟨hk, hs, he⟩)
    · intro A k B hsplit d hd hdc
      exact Or.inr (h3 A k B hsplit d hd hdc)

/-- `order_frame_valid` in the form the harness uses: the compiled check on (graph with externals, external keys, core
    order read off the real priorities) returned `true` ⇒ the dict `framePrios …` (compared with the real output key
    by key) satisfies the statement -/
theorem order_frame_valid_checked (g : Graph) (isTask : Key → Bool) (ext core : List Key)
    (hn : (g.map Prod.fst).Nodup) (hext : ∀ e ∈ ext, depsOf g e = [])
    (hc : coreOKb g ext (strip g isTask).stripped core = true) :
    ValidOrder (g.filter (fun e => !ext.contains e.1)) (framePrios g.length (strip g isTask).stripped core) :=
  order_frame_valid g isTask ext core hn hext ((coreOKb_iff g ext _ core).mp hc)

/-- non-vacuity: data root 0 shared by the tasks 1, 2; non-task leaf 3 over both is stripped; core order 0, 1, 2 -/
example : coreOKb [(0, []), (1, [0]), (2, [0]), (3, [1, 2])] []
    (strip [(0, []), (1, [0]), (2, [0]), (3, [1, 2])] (fun k => decide (k = 1 ∨ k = 2))).stripped [0, 1, 2] = true := by
  decide
example : coreOKb [(0, []), (1, [0]), (2, [0]), (3, [1, 2])] [] [3] [1, 0, 2] = false := by decide


/-! ### defect found by the 6-node exhaustive space, fixed in /repo (389cb25): an orphaned data root

`order({'a':(f,),'b':(f,),'c':2,'L1':['a','b','c'],'L2':['b','c','L1'],'L3':['c','L2']})` raised `IndexError`. In the
model (keys a,b,c,L1,L2,L3 = 0..5): the shared data root 2 is removed in the first sweep and remembered in
`requires_data_task` of 3 and 4 only; both are stripped in later sweeps. The core reaches a removed root only through
`requires_data_task[item]` of an item it emits, so nothing emitted key 2, `CoreOK` (which demands it, below) could not
be met and `get_target` ran out of leaves. The repaired code emits such roots before the core starts. -/

theorem orphaned_data_root_witness :
    (strip [(0, []), (1, []), (2, []), (3, [0, 1, 2]), (4, [1, 2, 3]), (5, [2, 4])] (fun k => decide (k < 2))).stripped
        = [5, 4, 3] ∧
    (strip [(0, []), (1, []), (2, []), (3, [0, 1, 2]), (4, [1, 2, 3]), (5, [2, 4])] (fun k => decide (k < 2))).alive
        = [0, 1] ∧
    (strip [(0, []), (1, []), (2, []), (3, [0, 1, 2]), (4, [1, 2, 3]), (5, [2, 4])] (fun k => decide (k < 2))).dataRoots
        = [(3, 2), (4, 2)] := by decide

/-- the frame's side condition really asks the core for the orphaned root -/
theorem orphaned_data_root_required (core : List Key)
    (h : CoreOK [(0, []), (1, []), (2, []), (3, [0, 1, 2]), (4, [1, 2, 3]), (5, [2, 4])] [] [5, 4, 3] core) :
    2 ∈ core := (h.dom 2).mpr (by decide)
/-- ... and the repaired output `{L3:5, L2:4, L1:3, c:0, b:1, a:2}` meets it -/
example : coreOKb [(0, []), (1, []), (2, []), (3, [0, 1, 2]), (4, [1, 2, 3]), (5, [2, 4])] [] [5, 4, 3] [2, 1, 0] = true := by
  decide

end Dask.C06
