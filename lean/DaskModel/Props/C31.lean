import DaskModel.Model.Contraction
import DaskModel.Lemmas.ArrayReduce
import Mathlib.Data.Matrix.ColumnRowPartitioned
import Mathlib.Data.Matrix.Block
import Mathlib.Algebra.Group.Defs
/-!
# C31 — tensor products and decompositions  (**partial**)

Proved:
* `tensordot_blocks` — for every chunking of the contracted axis the per-block partial contractions add up to
  the full contraction `Σ_l f l` (any additive monoid; `f l = a[…l…] * b[…l…]`), `tensordot_blocks₂` for two
  contracted axes, `matmul_blocks` as the matrix instance, and `contraction_tree_sum` (the final `.sum(axis)` done
  as a K1 tree with any `split_every`/depth gives the same value; integers);
* the `tsqr` stacking plan: `stackGroups_flatten` (the groups are consecutive runs of the R-factor blocks, in
  order, nothing lost or duplicated, sizes `min(chunk, ncols)`), `stackGroups_nonempty`, `cumsumBlocks_spec`
  (the unstacking slices tile `[0, Σ)`);
* TSQR block algebra over a commutative ring, two row blocks: `tsqr_two_blocks` (`Q R = A`), `tsqr_two_blocks_orthonormal`
  (`QᵀQ = 1` if the block factors have orthonormal columns), `svd_from_qr` (`A = Q R`, `R = U S Vᵀ` ⇒ `A = (Q U) S Vᵀ`),
  `sfqr_two_blocks` (short-and-fat: `[A₁ A₂] = Q [R₁ QᵀA₂]`).
Not proved: the general n-block/recursive TSQR, `sfqr`, floating-point accuracy of LAPACK factors (validated by
residual checks), einsum index parsing (NumPy's).
-/
namespace Dask.C31
open Dask.Contraction

section contraction
variable {R : Type} [AddMonoid R]

theorem sumTo_add (a b : Nat) (f : Nat → R) :
    sumTo (a + b) f = sumTo a f + sumTo b (fun l => f (a + l)) := by
  induction b with
  | zero => simp [sumTo]
  | succ b ih =>
    show sumTo (a + b) f + f (a + b) = sumTo a f + (sumTo b (fun l => f (a + l)) + f (a + b))
    rw [ih, add_assoc]

theorem lsum_blockTerms (f : Nat → R) (off : Nat) (cs : List Nat) :
    lsum (blockTerms f off cs) = sumTo cs.sum (fun l => f (off + l)) := by
  induction cs generalizing off with
  | nil => simp [blockTerms, lsum, sumTo]
  | cons c cs ih =>
    simp only [blockTerms, lsum, List.sum_cons, ih, sumTo_add, blockTerm]
    congr 2
    funext l
    rw [Nat.add_assoc]

/-- **tensordot_blocks**: summing the per-block partial contractions over *any* chunking `cs` of the
    contracted axis gives the full contraction. -/
theorem tensordot_blocks (f : Nat → R) (cs : List Nat) : blockSum f cs = sumTo cs.sum f := by
  unfold blockSum
  rw [lsum_blockTerms]
  congr 1
  funext l
  rw [Nat.zero_add]

/-- two contracted axes (e.g. `tensordot(a, b, axes=2)`): any chunkings of both -/
theorem tensordot_blocks₂ (f : Nat → Nat → R) (cs₁ cs₂ : List Nat) :
    blockSum (fun l₁ => blockSum (f l₁) cs₂) cs₁ = sumTo cs₁.sum (fun l₁ => sumTo cs₂.sum (f l₁)) := by
  rw [tensordot_blocks]
  congr 1
  funext l₁
  exact tensordot_blocks (f l₁) cs₂

/-- chunking-independence: two chunkings of the same axis give the same result -/
theorem tensordot_chunking_irrelevant (f : Nat → R) (cs cs' : List Nat) (h : cs.sum = cs'.sum) :
    blockSum f cs = blockSum f cs' := by
  rw [tensordot_blocks, tensordot_blocks, h]

end contraction

/-- **matmul_blocks**: entry `(i, j)` of `A · B` over a semiring, with the inner dimension chunked as `cs` -/
theorem matmul_blocks {R : Type} [Semiring R] (A : Nat → Nat → R) (B : Nat → Nat → R) (i j : Nat) (cs : List Nat) :
    blockSum (fun l => A i l * B l j) cs = sumTo cs.sum (fun l => A i l * B l j) :=
  tensordot_blocks _ cs

/-- the final `.sum(axis=contracted)` as a K1 tree over the partial results: any `split_every`, any valid depth -/
theorem contraction_tree_sum (f : Nat → Int) (cs : List Nat) (k depth : Nat) (hk : k ≠ 0) (hne : cs ≠ [])
    (hd : cs.length ≤ k ^ depth) :
    Dask.ArrayReduce.treeReduce Dask.ArrayReduce.isum Dask.ArrayReduce.isum k depth (blockTerms f 0 cs)
      = [sumTo cs.sum f] := by
  have hm : Dask.ArrayReduce.IsMonoid (fun a b : Int => a + b) 0 := ⟨Int.add_assoc, Int.zero_add, Int.add_zero⟩
  have hh : Dask.ArrayReduce.Hom Dask.ArrayReduce.isum Dask.ArrayReduce.isum := Dask.ArrayReduce.hom_monoid hm
  have hlen : ∀ (off : Nat), (blockTerms f off cs).length = cs.length := by
    induction cs with
    | nil => intro; rfl
    | cons c cs ih =>
      intro off
      simp only [blockTerms, List.length_cons]
      cases cs with
      | nil => rfl
      | cons c' cs' => rw [ih (by simp) (by simp at hd ⊢; omega)]
  rw [Dask.ArrayReduce.treeReduce_eq_fold _ _ hh hh k depth hk _ (by
      intro h; have := congrArg List.length h; rw [hlen] at this; cases cs <;> simp_all) (by rw [hlen]; exact hd)]
  have hl : ∀ xs : List Int, Dask.ArrayReduce.isum xs = lsum xs := by
    intro xs; induction xs with
    | nil => rfl
    | cons x xs ih => simp only [Dask.ArrayReduce.isum, List.foldr_cons, lsum] at ih ⊢; rw [ih]
  rw [hl]
  exact congrArg (fun v => [v]) (tensordot_blocks f cs)

/-! ## tsqr stacking plan -/

def expected (cc : Nat) : Nat → List Nat → List (Nat × Nat)
  | _, [] => []
  | idx, am :: rest => (idx, min am cc) :: expected cc (idx + 1) rest

def entries (s : StackSt) : List (Nat × Nat) := s.done.reverse.flatten ++ s.cur.reverse

theorem entries_step (cc crMax : Nat) (s : StackSt) (idx am : Nat) :
    entries (stackStep cc crMax s idx am) = entries s ++ [(idx, min am cc)] := by
  unfold stackStep entries
  by_cases h : s.sz + min am cc > crMax
  · simp [h, List.flatten_append]
  · simp [h]

theorem entries_loop (cc crMax : Nat) (s : StackSt) (idx : Nat) (chunks : List Nat) :
    entries (stackLoop cc crMax s idx chunks) = entries s ++ expected cc idx chunks := by
  induction chunks generalizing s idx with
  | nil => simp [stackLoop, expected]
  | cons am rest ih =>
    simp only [stackLoop, expected]
    rw [ih, entries_step]
    simp

/-- **stackGroups_flatten**: the stacked groups are consecutive runs of the per-chunk R factors, in order —
    nothing is lost or duplicated; block `idx` contributes `min(chunk, ncols)` rows. -/
theorem stackGroups_flatten (chunks : List Nat) (cc crMax : Nat) :
    (stackGroups chunks cc crMax).flatten = expected cc 0 chunks := by
  unfold stackGroups
  have h := entries_loop cc crMax ⟨[], [], 0⟩ 0 chunks
  simp only [entries, List.reverse_nil, List.flatten_nil, List.nil_append] at h
  set s := stackLoop cc crMax ⟨[], [], 0⟩ 0 chunks
  by_cases hc : s.cur.isEmpty
  · have : s.cur = [] := List.isEmpty_iff.mp hc
    simp only [hc, if_true]
    rw [this] at h
    simpa using h
  · simp only [hc]
    simp only [Bool.false_eq_true, if_false, List.reverse_cons, List.flatten_append, List.flatten_cons,
      List.flatten_nil, List.append_nil]
    exact h

/-- invariant: an empty current group has size 0, finished groups are non-empty -/
def Good (s : StackSt) : Prop := (s.cur = [] → s.sz = 0) ∧ ∀ g ∈ s.done, g ≠ []

theorem good_step (cc crMax : Nat) (s : StackSt) (idx am : Nat) (h : Good s) (hm : min am cc ≤ crMax) :
    Good (stackStep cc crMax s idx am) := by
  unfold stackStep Good
  by_cases hp : s.sz + min am cc > crMax
  · simp only [hp, if_true]
    refine ⟨by simp, ?_⟩
    intro g hg
    simp only [List.mem_cons] at hg
    rcases hg with rfl | hg
    · intro hnil
      have : s.cur = [] := by simpa using hnil
      have := h.1 this
      omega
    · exact h.2 g hg
  · simp only [hp, if_false]
    exact ⟨by simp, h.2⟩

theorem good_loop (cc crMax : Nat) (s : StackSt) (idx : Nat) (chunks : List Nat) (h : Good s)
    (hm : ∀ am ∈ chunks, min am cc ≤ crMax) : Good (stackLoop cc crMax s idx chunks) := by
  induction chunks generalizing s idx with
  | nil => exact h
  | cons am rest ih =>
    simp only [stackLoop]
    exact ih _ _ (good_step cc crMax s idx am h (hm am (by simp))) (fun a ha => hm a (by simp [ha]))

/-- **stackGroups_nonempty**: with `cr_max = max(chunks)` no stacked group is empty -/
theorem stackGroups_nonempty (chunks : List Nat) (cc crMax : Nat) (hm : ∀ am ∈ chunks, am ≤ crMax) :
    ∀ g ∈ stackGroups chunks cc crMax, g ≠ [] := by
  have hg := good_loop cc crMax ⟨[], [], 0⟩ 0 chunks ⟨fun _ => rfl, by simp⟩
    (fun am ha => le_trans (Nat.min_le_left _ _) (hm am ha))
  unfold stackGroups
  intro g hgm
  simp only [List.mem_reverse] at hgm
  split at hgm
  · exact hg.2 g hgm
  · rename_i hc
    simp only [List.mem_cons] at hgm
    rcases hgm with rfl | hgm
    · intro hnil
      apply hc
      have : (stackLoop cc crMax ⟨[], [], 0⟩ 0 chunks).cur = [] := by simpa using hnil
      simp [this]
    · exact hg.2 g hgm

/-- the slices `ps` tile the interval `[s, e)` consecutively -/
def Tiles : Nat → List (Nat × Nat) → Nat → Prop
  | s, [], e => s = e
  | s, p :: ps, e => p.1 = s ∧ Tiles p.2 ps e

/-- **cumsumBlocks_spec**: the unstacking slices have the given widths and tile `[t, t + Σ)` consecutively -/
theorem cumsumBlocks_spec (xs : List Nat) (t : Nat) :
    (cumsumBlocks t xs).map (fun p => p.2 - p.1) = xs ∧ Tiles t (cumsumBlocks t xs) (t + xs.sum) := by
  induction xs generalizing t with
  | nil => simp [cumsumBlocks, Tiles]
  | cons x xs ih =>
    obtain ⟨h1, h2⟩ := ih (t + x)
    simp only [cumsumBlocks, List.map_cons, Tiles, List.sum_cons]
    refine ⟨by simp [h1], ?_⟩
    simp only [true_and]
    rw [← Nat.add_assoc]; exact h2

/-! ## TSQR block algebra (two row blocks), over a commutative ring -/
section tsqr
open Matrix
variable {K : Type} [CommRing K] {m₁ m₂ n : Type} [Fintype m₁] [Fintype m₂] [Fintype n]
  [DecidableEq m₁] [DecidableEq m₂] [DecidableEq n]

/-- **tsqr_two_blocks**: `A = [A₁; A₂]`, `Aᵢ = Qᵢ Rᵢ`, `[R₁; R₂] = Q' R` ⇒ `A = (blockdiag(Q₁, Q₂) Q') R` -/
theorem tsqr_two_blocks (A₁ Q₁ : Matrix m₁ n K) (A₂ Q₂ : Matrix m₂ n K) (R₁ R₂ R : Matrix n n K)
    (Q' : Matrix (n ⊕ n) n K) (h₁ : A₁ = Q₁ * R₁) (h₂ : A₂ = Q₂ * R₂) (h₃ : fromRows R₁ R₂ = Q' * R) :
    fromRows A₁ A₂ = (fromBlocks Q₁ 0 0 Q₂ * Q') * R := by
  rw [Matrix.mul_assoc, ← h₃, fromBlocks_mul_fromRows, h₁, h₂]
  simp

/-- **tsqr_two_blocks_orthonormal**: if `Q₁, Q₂, Q'` have orthonormal columns, so has `Q` -/
theorem tsqr_two_blocks_orthonormal (Q₁ : Matrix m₁ n K) (Q₂ : Matrix m₂ n K) (Q' : Matrix (n ⊕ n) n K)
    (o₁ : Q₁ᵀ * Q₁ = 1) (o₂ : Q₂ᵀ * Q₂ = 1) (o' : Q'ᵀ * Q' = 1) :
    (fromBlocks Q₁ 0 0 Q₂ * Q')ᵀ * (fromBlocks Q₁ 0 0 Q₂ * Q') = 1 := by
  rw [Matrix.transpose_mul, Matrix.mul_assoc, ← Matrix.mul_assoc (fromBlocks Q₁ 0 0 Q₂)ᵀ]
  have : (fromBlocks Q₁ 0 0 Q₂)ᵀ * fromBlocks Q₁ 0 0 Q₂ = (1 : Matrix (n ⊕ n) (n ⊕ n) K) := by
    rw [fromBlocks_transpose, fromBlocks_multiply]
    simp [o₁, o₂, fromBlocks_one]
  rw [this, Matrix.one_mul, o']

/-- **svd_from_qr**: `A = Q R`, `R = U S Vᵀ` ⇒ `A = (Q U) S Vᵀ` -/
theorem svd_from_qr {m : Type} [Fintype m] (A Q : Matrix m n K) (R U S V : Matrix n n K)
    (h₁ : A = Q * R) (h₂ : R = U * S * Vᵀ) : A = (Q * U) * S * Vᵀ := by
  rw [h₁, h₂]; simp only [Matrix.mul_assoc]

/-- **sfqr_two_blocks** (short-and-fat, two column blocks): `A₁ = Q R₁` with `Q` square orthogonal, `R₂ = Qᵀ A₂`
    ⇒ `[A₁ A₂] = Q [R₁ R₂]` -/
theorem sfqr_two_blocks {n₂ : Type} [Fintype n₂] (A₁ R₁ : Matrix n n K) (A₂ : Matrix n n₂ K) (Q : Matrix n n K)
    (h₁ : A₁ = Q * R₁) (ho : Q * Qᵀ = 1) :
    fromCols A₁ A₂ = Q * fromCols R₁ (Qᵀ * A₂) := by
  rw [mul_fromCols, ← h₁, ← Matrix.mul_assoc, ho, Matrix.one_mul]

end tsqr

/-- non-vacuity: chunks (3,1,2) of a length-6 axis -/
example : blockTerms (fun l => (l : Int) * 2) 0 [3, 1, 2] = [6, 6, 18] ∧ sumTo 6 (fun l => (l : Int) * 2) = 30 := by
  decide
example : stackGroups [4, 4, 1, 3, 4] 2 4 = [[(0, 2), (1, 2)], [(2, 1), (3, 2)], [(4, 2)]] := by decide

end Dask.C31
