import DaskModel.Model.Contraction
import DaskModel.Lemmas.ArrayReduce
import Mathlib.Data.Matrix.ColumnRowPartitioned
import Mathlib.Data.Matrix.Block
import Mathlib.Algebra.Group.Defs
/-!
# C31 — tensor products and decompositions  (**partial**)

Proved:
* `tensordot_blocks` — for every chunking of the contracted axis the per-block partial contractions add up to
  the full contraction `Σ_l f l` (any additive monoid; `f l = a[…l…] * b[…l…]`), `tensordot_blocks₂` for two
  contracted axes, `einsum_blocks` for ANY number of contracted indices each with its own chunking (einsum's `contract_inds`),
  `matmul_blocks` as the matrix instance, and `contraction_tree_sum` (the final `.sum(axis)` done
  as a K1 tree with any `split_every`/depth gives the same value; integers);
* the `tsqr` stacking plan: `stackGroups_flatten` (the groups are consecutive runs of the R-factor blocks, in
  order, nothing lost or duplicated, sizes `min(chunk, ncols)`), `stackGroups_nonempty`, `cumsumBlocks_spec`
  (the unstacking slices tile `[0, Σ)`);
* TSQR block algebra over a commutative ring, two row blocks: `tsqr_two_blocks` (`Q R = A`), `tsqr_two_blocks_orthonormal`
  (`QᵀQ = 1` if the block factors have orthonormal columns), `svd_from_qr` (`A = Q R`, `R = U S Vᵀ` ⇒ `A = (Q U) S Vᵀ`),
  `sfqr_two_blocks` (short-and-fat: `[A₁ A₂] = Q [R₁ QᵀA₂]`);
* the same for ANY number of blocks of any (different) heights, rows indexed by `Σ i, m i` and Mathlib's
  `blockDiagonal'`: `tsqr_n_blocks`, `tsqr_n_blocks_orthonormal`, `tsqr_recursive` (the stacked R factors factored by
  another TSQR level), `sfqr_n_blocks`, `svd_from_qr_orthonormal`.
Not proved: that dask's graph wires exactly these products (the stacking plan is proved and diffed, the factors are
checked by residuals), floating-point accuracy of LAPACK factors, einsum index parsing (NumPy's).
-/
namespace Dask.C31
open Dask.Contraction

section contraction
variable {R : Type} [AddMonoid R]

theorem sumTo_add (a b : Nat) (f : Nat → R) :
    sumTo (a + b) f = sumTo a f + sumTo b (fun l => f (a + l)) := by
  induction b with
  | zero => simp [sumTo]
  | succ b ih =>
    show sumTo (a + b) f + f (a + b) = sumTo a f + (sumTo b (fun l => f (a + l)) + f (a + b))
    rw [ih, add_assoc]

theorem lsum_blockTerms (f : Nat → R) (off : Nat) (cs : List Nat) :
    lsum (blockTerms f off cs) = sumTo cs.sum (fun l => f (off + l)) := by
  induction cs generalizing off with
  | nil => simp [blockTerms, lsum, sumTo]
  | cons c cs ih =>
    simp only [blockTerms, lsum, List.sum_cons, ih, sumTo_add, blockTerm]
    congr 2
    funext l
    rw [Nat.add_assoc]

/-- **tensordot_blocks**: summing the per-block partial contractions over *any* chunking `cs` of the
    contracted axis gives the full contraction. -/
theorem tensordot_blocks (f : Nat → R) (cs : List Nat) : blockSum f cs = sumTo cs.sum f := by
  unfold blockSum
  rw [lsum_blockTerms]
  congr 1
  funext l
  rw [Nat.zero_add]

/-- two contracted axes (e.g. `tensordot(a, b, axes=2)`): any chunkings of both -/
theorem tensordot_blocks₂ (f : Nat → Nat → R) (cs₁ cs₂ : List Nat) :
    blockSum (fun l₁ => blockSum (f l₁) cs₂) cs₁ = sumTo cs₁.sum (fun l₁ => sumTo cs₂.sum (f l₁)) := by
  rw [tensordot_blocks]
  congr 1
  funext l₁
  exact tensordot_blocks (f l₁) cs₂

/-- chunking-independence: two chunkings of the same axis give the same result -/
theorem tensordot_chunking_irrelevant (f : Nat → R) (cs cs' : List Nat) (h : cs.sum = cs'.sum) :
    blockSum f cs = blockSum f cs' := by
  rw [tensordot_blocks, tensordot_blocks, h]

/-- **einsum_blocks**: any number of contracted indices, each with its own chunking: the per-block partial contractions
    over the product grid of blocks add up to the full contraction (einsum's `contract_inds`, tensordot with several
    axes); output indices are pointwise (they parametrise `f`). -/
theorem einsum_blocks : ∀ (css : List (List Nat)) (f : List Nat → R),
    blockSumOver css f = sumOver (css.map List.sum) f
  | [], _ => rfl
  | cs :: css, f => by
    simp only [blockSumOver, List.map_cons, sumOver]
    rw [tensordot_blocks]
    congr 1
    funext i
    exact einsum_blocks css _

/-- … hence independent of how every contracted index is chunked -/
theorem einsum_chunking_irrelevant (css css' : List (List Nat)) (f : List Nat → R)
    (h : css.map List.sum = css'.map List.sum) : blockSumOver css f = blockSumOver css' f := by
  rw [einsum_blocks, einsum_blocks, h]

end contraction

/-- **matmul_blocks**: entry `(i, j)` of `A · B` over a semiring, with the inner dimension chunked as `cs` -/
theorem matmul_blocks {R : Type} [Semiring R] (A : Nat → Nat → R) (B : Nat → Nat → R) (i j : Nat) (cs : List Nat) :
    blockSum (fun l => A i l * B l j) cs = sumTo cs.sum (fun l => A i l * B l j) :=
  tensordot_blocks _ cs

/-- the final `.sum(axis=contracted)` as a K1 tree over the partial results: any `split_every`, any valid depth -/
theorem contraction_tree_sum (f : Nat → Int) (cs : List Nat) (k depth : Nat) (hk : k ≠ 0) (hne : cs ≠ [])
    (hd : cs.length ≤ k ^ depth) :
    Dask.ArrayReduce.treeReduce Dask.ArrayReduce.isum Dask.ArrayReduce.isum k depth (blockTerms f 0 cs)
      = [sumTo cs.sum f] := by
  have hm : Dask.ArrayReduce.IsMonoid (fun a b : Int => a + b) 0 := ⟨Int.add_assoc, Int.zero_add, Int.add_zero⟩
  have hh : Dask.ArrayReduce.Hom Dask.ArrayReduce.isum Dask.ArrayReduce.isum := Dask.ArrayReduce.hom_monoid hm
  have hlen : ∀ (off : Nat), (blockTerms f off cs).length = cs.length := by
    induction cs with
    | nil => intro; rfl
    | cons c cs ih =>
      intro off
      simp only [blockTerms, List.length_cons]
      cases cs with
      | nil => rfl
      | cons c' cs' => rw [ih (by simp) (by simp at hd ⊢; omega)]
  rw [Dask.ArrayReduce.treeReduce_eq_fold _ _ hh hh k depth hk _ (by
      intro h; have := congrArg List.length h; rw [hlen] at this; cases cs <;> simp_all) (by rw [hlen]; exact hd)]
  have hl : ∀ xs : List Int, Dask.ArrayReduce.isum xs = lsum xs := by
    intro xs; induction xs with
    | nil => rfl
    | cons x xs ih => simp only [Dask.ArrayReduce.isum, List.foldr_cons, lsum] at ih ⊢; rw [ih]
  rw [hl]
  exact congrArg (fun v => [v]) (tensordot_blocks f cs)

/-! ## tsqr stacking plan -/

def expected (cc : Nat) : Nat → List Nat → List (Nat × Nat)
  | _, [] => []
  | idx, am :: rest => (idx, min am cc) :: expected cc (idx + 1) rest

def entries (s : StackSt) : List (Nat × Nat) := s.done.reverse.flatten ++ s.cur.reverse

theorem entries_step (cc crMax : Nat) (s : StackSt) (idx am : Nat) :
    entries (stackStep cc crMax s idx am) = entries s ++ [(idx, min am cc)] := by
  unfold stackStep entries
  by_cases h : s.sz + min am cc > crMax
  · simp [h, List.flatten_append]
  · simp [h]

theorem entries_loop (cc crMax : Nat) (s : StackSt) (idx : Nat) (chunks : List Nat) :
    entries (stackLoop cc crMax s idx chunks) = entries s ++ expected cc idx chunks := by
  induction chunks generalizing s idx with
  | nil => simp [stackLoop, expected]
  | cons am rest ih =>
    simp only [stackLoop, expected]
    rw [ih, entries_step]
    simp

/-- **stackGroups_flatten**: the stacked groups are consecutive runs of the per-chunk R factors, in order —
    nothing is lost or duplicated; block `idx` contributes `min(chunk, ncols)` rows. -/
theorem stackGroups_flatten (chunks : List Nat) (cc crMax : Nat) :
    (stackGroups chunks cc crMax).flatten = expected cc 0 chunks := by
  unfold stackGroups
  have h := entries_loop cc crMax ⟨[], [], 0⟩ 0 chunks
  simp only [entries, List.reverse_nil, List.flatten_nil, List.nil_append] at h
  set s := stackLoop cc crMax ⟨[], [], 0⟩ 0 chunks
  by_cases hc : s.cur.isEmpty
  · have : s.cur = [] := List.isEmpty_iff.mp hc
    simp only [hc, if_true]
    rw [this] at h
    simpa using h
  · simp only [hc]
    simp only [Bool.false_eq_true, if_false, List.reverse_cons, List.flatten_append, List.flatten_cons,
      List.flatten_nil, List.append_nil]
    exact h

/-- invariant: an empty current group has size 0, finished groups are non-empty -/
def Good (s : StackSt) : Prop := (s.cur = [] → s.sz = 0) ∧ ∀ g ∈ s.done, g ≠ []

theorem good_step (cc crMax : Nat) (s : StackSt) (idx am : Nat) (h : Good s) (hm : min am cc ≤ crMax) :
    Good (stackStep cc crMax s idx am) := by
  unfold stackStep Good
  by_cases hp : s.sz + min am cc > crMax
  · simp only [hp, if_true]
    refine ⟨by simp, ?_⟩
    intro g hg
    simp only [List.mem_cons] at hg
    rcases hg with rfl | hg
    · intro hnil
      have : s.cur = [] := by simpa using hnil
      have := h.1 this
      omega
    · exact h.2 g hg
  · simp only [hp, if_false]
    exact ⟨by simp, h.2⟩

theorem good_loop (cc crMax : Nat) (s : StackSt) (idx : Nat) (chunks : List Nat) (h : Good s)
    (hm : ∀ am ∈ chunks, min am cc ≤ crMax) : Good (stackLoop cc crMax s idx chunks) := by
  induction chunks generalizing s idx with
  | nil => exact h
  | cons am rest ih =>
    simp only [stackLoop]
    exact ih _ _ (good_step cc crMax s idx am h (hm am (by simp))) (fun a ha => hm a (by simp [ha]))

/-- **stackGroups_nonempty**: with `cr_max = max(chunks)` no stacked group is empty -/
theorem stackGroups_nonempty (chunks : List Nat) (cc crMax : Nat) (hm : ∀ am ∈ chunks, am ≤ crMax) :
    ∀ g ∈ stackGroups chunks cc crMax, g ≠ [] := by
  have hg := good_loop cc crMax ⟨[], [], 0⟩ 0 chunks ⟨fun _ => rfl, by simp⟩
    (fun am ha => le_trans (Nat.min_le_left _ _) (hm am ha))
  unfold stackGroups
  intro g hgm
  simp only [List.mem_reverse] at hgm
  split at hgm
  · exact hg.2 g hgm
  · rename_i hc
    simp only [List.mem_cons] at hgm
    rcases hgm with rfl | hgm
    · intro hnil
      apply hc
      have : (stackLoop cc crMax ⟨[], [], 0⟩ 0 chunks).cur = [] := by simpa using hnil
      simp [this]
    · exact hg.2 g hgm

/-- the slices `ps` tile the interval `[s, e)` consecutively -/
def Tiles : Nat → List (Nat × Nat) → Nat → Prop
  | s, [], e => s = e
  | s, p :: ps, e => p.1 = s ∧ Tiles p.2 ps e

/-- **cumsumBlocks_spec**: the unstacking slices have the given widths and tile `[t, t + Σ)` consecutively -/
theorem cumsumBlocks_spec (xs : List Nat) (t : Nat) :
    (cumsumBlocks t xs).map (fun p => p.2 - p.1) = xs ∧ Tiles t (cumsumBlocks t xs) (t + xs.sum) := by
  induction xs generalizing t with
  | nil => simp [cumsumBlocks, Tiles]
  | cons x xs ih =>
    obtain ⟨h1, h2⟩ := ih (t + x)
    simp only [cumsumBlocks, List.map_cons, Tiles, List.sum_cons]
    refine ⟨by simp [h1], ?_⟩
    simp only [true_and]
    rw [← Nat.add_assoc]; exact h2

/-! ## TSQR block algebra (two row blocks), over a commutative ring -/
section tsqr
open Matrix
variable {K : Type} [CommRing K] {m₁ m₂ n : Type} [Fintype m₁] [Fintype m₂] [Fintype n]
  [DecidableEq m₁] [DecidableEq m₂] [DecidableEq n]

/-- **tsqr_two_blocks**: `A = [A₁; A₂]`, `Aᵢ = Qᵢ Rᵢ`, `[R₁; R₂] = Q' R` ⇒ `A = (blockdiag(Q₁, Q₂) Q') R` -/
theorem tsqr_two_blocks (A₁ Q₁ : Matrix m₁ n K) (A₂ Q₂ : Matrix m₂ n K) (R₁ R₂ R : Matrix n n K)
    (Q' : Matrix (n ⊕ n) n K) (h₁ : A₁ = Q₁ * R₁) (h₂ : A₂ = Q₂ * R₂) (h₃ : fromRows R₁ R₂ = Q' * R) :
    fromRows A₁ A₂ = (fromBlocks Q₁ 0 0 Q₂ * Q') * R := by
  rw [Matrix.mul_assoc, ← h₃, fromBlocks_mul_fromRows, h₁, h₂]
  simp

/-- **tsqr_two_blocks_orthonormal**: if `Q₁, Q₂, Q'` have orthonormal columns, so has `Q` -/
theorem tsqr_two_blocks_orthonormal (Q₁ : Matrix m₁ n K) (Q₂ : Matrix m₂ n K) (Q' : Matrix (n ⊕ n) n K)
    (o₁ : Q₁ᵀ * Q₁ = 1) (o₂ : Q₂ᵀ * Q₂ = 1) (o' : Q'ᵀ * Q' = 1) :
    (fromBlocks Q₁ 0 0 Q₂ * Q')ᵀ * (fromBlocks Q₁ 0 0 Q₂ * Q') = 1 := by
  rw [Matrix.transpose_mul, Matrix.mul_assoc, ← Matrix.mul_assoc (fromBlocks Q₁ 0 0 Q₂)ᵀ]
  have : (fromBlocks Q₁ 0 0 Q₂)ᵀ * fromBlocks Q₁ 0 0 Q₂ = (1 : Matrix (n ⊕ n) (n ⊕ n) K) := by
    rw [fromBlocks_transpose, fromBlocks_multiply]
    simp [o₁, o₂, fromBlocks_one]
  rw [this, Matrix.one_mul, o']

/-- **svd_from_qr**: `A = Q R`, `R = U S Vᵀ` ⇒ `A = (Q U) S Vᵀ` -/
theorem svd_from_qr {m : Type} [Fintype m] (A Q : Matrix m n K) (R U S V : Matrix n n K)
    (h₁ : A = Q * R) (h₂ : R = U * S * Vᵀ) : A = (Q * U) * S * Vᵀ := by
  rw [h₁, h₂]; simp only [Matrix.mul_assoc]

/-- **sfqr_two_blocks** (short-and-fat, two column blocks): `A₁ = Q R₁` with `Q` square orthogonal, `R₂ = Qᵀ A₂`
    ⇒ `[A₁ A₂] = Q [R₁ R₂]` -/
theorem sfqr_two_blocks {n₂ : Type} [Fintype n₂] (A₁ R₁ : Matrix n n K) (A₂ : Matrix n n₂ K) (Q : Matrix n n K)
    (h₁ : A₁ = Q * R₁) (ho : Q * Qᵀ = 1) :
    fromCols A₁ A₂ = Q * fromCols R₁ (Qᵀ * A₂) := by
  rw [mul_fromCols, ← h₁, ← Matrix.mul_assoc, ho, Matrix.one_mul]

end tsqr


section tsqr_n
open Matrix
set_option linter.unusedSectionVars false
variable {K : Type} [CommRing K] {o n p : Type} [Fintype o] [DecidableEq o] [Fintype n] [DecidableEq n]
  [Fintype p] [DecidableEq p]
  {m k : o → Type} [∀ i, Fintype (m i)] [∀ i, Fintype (k i)] [∀ i, DecidableEq (m i)] [∀ i, DecidableEq (k i)]

/-- the blocks `B i` stacked by rows (a row-chunked dask matrix; the chunk heights `k i` may all differ) -/
def stackRows (B : ∀ i, Matrix (k i) n K) : Matrix (Σ i, k i) n K := fun x j => B x.1 x.2 j

theorem blockDiagonal'_mul_stackRows (Q : ∀ i, Matrix (m i) (k i) K) (R : ∀ i, Matrix (k i) n K) :
    blockDiagonal' Q * stackRows R = stackRows (fun i => Q i * R i) := by
  ext ⟨i, r⟩ j
  simp only [Matrix.mul_apply, stackRows, Fintype.sum_sigma, blockDiagonal'_apply]
  rw [Finset.sum_eq_single i]
  · simp
  · intro i' _ hne
    simp [hne.symm]
  · simp

/-- **tsqr_n_blocks**: `A = [A₁; …; A_N]` (any number of row blocks of any heights), `Aᵢ = Qᵢ Rᵢ`, and the stacked
    `[R₁; …; R_N] = Q' R'` ⇒ `A = (blockdiag(Q₁ … Q_N) Q') R'`.  How `Q' R'` was obtained does not matter, so the
    statement also covers dask's recursive case (the stacked R factors are themselves factored by TSQR). -/
theorem tsqr_n_blocks (A : ∀ i, Matrix (m i) n K) (Q : ∀ i, Matrix (m i) (k i) K) (R : ∀ i, Matrix (k i) n K)
    (Q' : Matrix (Σ i, k i) p K) (R' : Matrix p n K)
    (h : ∀ i, A i = Q i * R i) (h' : stackRows R = Q' * R') :
    stackRows A = (blockDiagonal' Q * Q') * R' := by
  rw [Matrix.mul_assoc, ← h', blockDiagonal'_mul_stackRows]
  congr
  funext i
  exact h i

/-- **tsqr_n_blocks_orthonormal**: if every `Qᵢ` and `Q'` have orthonormal columns, so has `Q = blockdiag(Qᵢ) Q'` -/
theorem tsqr_n_blocks_orthonormal (Q : ∀ i, Matrix (m i) (k i) K) (Q' : Matrix (Σ i, k i) p K)
    (hq : ∀ i, (Q i)ᵀ * Q i = 1) (hq' : Q'ᵀ * Q' = 1) :
    (blockDiagonal' Q * Q')ᵀ * (blockDiagonal' Q * Q') = 1 := by
  rw [Matrix.transpose_mul, Matrix.mul_assoc, ← Matrix.mul_assoc (blockDiagonal' Q)ᵀ]
  have : (blockDiagonal' Q)ᵀ * blockDiagonal' Q = (1 : Matrix (Σ i, k i) (Σ i, k i) K) := by
    rw [blockDiagonal'_transpose, ← blockDiagonal'_mul]
    simp only [hq]
    exact blockDiagonal'_one
  rw [this, Matrix.one_mul, hq']

/-- **tsqr_recursive**: the recursive step composes — if the stacked R factors are factored by another TSQR level
    (`Q' = blockdiag(P_g) P'` over a regrouping is abstracted as `Q' = D₂ * Q''`), the result is still a QR of `A` with
    orthonormal `Q`. -/
theorem tsqr_recursive {q : Type} [Fintype q] [DecidableEq q]
    (A : ∀ i, Matrix (m i) n K) (Q : ∀ i, Matrix (m i) (k i) K) (R : ∀ i, Matrix (k i) n K)
    (D₂ : Matrix (Σ i, k i) q K) (Q'' : Matrix q p K) (R' : Matrix p n K)
    (h : ∀ i, A i = Q i * R i) (h' : stackRows R = (D₂ * Q'') * R')
    (hq : ∀ i, (Q i)ᵀ * Q i = 1) (hd : D₂ᵀ * D₂ = 1) (hq'' : Q''ᵀ * Q'' = 1) :
    stackRows A = (blockDiagonal' Q * (D₂ * Q'')) * R' ∧
    (blockDiagonal' Q * (D₂ * Q''))ᵀ * (blockDiagonal' Q * (D₂ * Q'')) = 1 := by
  refine ⟨tsqr_n_blocks A Q R (D₂ * Q'') R' h h', tsqr_n_blocks_orthonormal Q (D₂ * Q'') hq ?_⟩
  rw [Matrix.transpose_mul, Matrix.mul_assoc, ← Matrix.mul_assoc D₂ᵀ, hd, Matrix.one_mul, hq'']

/-- the blocks `B j` side by side (a column-chunked dask matrix) -/
def stackCols {c : o → Type} (B : ∀ j, Matrix n (c j) K) : Matrix n (Σ j, c j) K := fun i x => B x.1 i x.2

/-- **sfqr_n_blocks** (short-and-fat, any number of column blocks): with `Q` square orthogonal (from the QR of the
    first block) and `R_j = Qᵀ A_j` for every block, `[A₁ … A_N] = Q [R₁ … R_N]`. -/
theorem sfqr_n_blocks {c : o → Type} (A : ∀ j, Matrix n (c j) K) (Q : Matrix n n K) (ho : Q * Qᵀ = 1) :
    stackCols A = Q * stackCols (fun j => Qᵀ * A j) := by
  ext i ⟨j, x⟩
  have : (Q * (Qᵀ * A j)) i x = A j i x := by rw [← Matrix.mul_assoc, ho, Matrix.one_mul]
  simp only [stackCols, Matrix.mul_apply] at this ⊢
  exact this.symm

/-- `svd` on top of any QR: `A = Q R`, `R = U S Vᵀ` ⇒ `A = (Q U) S Vᵀ`, and `Q U` keeps orthonormal columns -/
theorem svd_from_qr_orthonormal {r : Type} [Fintype r] [DecidableEq r] {mm : Type} [Fintype mm]
    (Q : Matrix mm r K) (U : Matrix r r K) (hq : Qᵀ * Q = 1) (hu : Uᵀ * U = 1) : (Q * U)ᵀ * (Q * U) = 1 := by
  rw [Matrix.transpose_mul, Matrix.mul_assoc, ← Matrix.mul_assoc Qᵀ, hq, Matrix.one_mul, hu]

/-- non-vacuity: three 2×2 row blocks over ℤ with trivial factors -/
example (A : Fin 3 → Matrix (Fin 2) (Fin 2) Int) :
    stackRows A = (blockDiagonal' (fun _ : Fin 3 => (1 : Matrix (Fin 2) (Fin 2) Int)) *
      (1 : Matrix (Σ _ : Fin 3, Fin 2) (Σ _ : Fin 3, Fin 2) Int)) * stackRows A :=
  tsqr_n_blocks A (fun _ => 1) A 1 (stackRows A) (by simp) (by simp)

end tsqr_n
/-- 'ij,jk,k->i'-like contraction over (j, k) with j chunked (2, 1) and k chunked (1, 0, 2): same value as unchunked -/
example : blockSumOver [[2, 1], [1, 0, 2]] (fun ix => ((ix.getD 0 0 + 1) * (ix.getD 1 0 + 2) : Int)) = 54 ∧
    sumOver [3, 3] (fun ix => ((ix.getD 0 0 + 1) * (ix.getD 1 0 + 2) : Int)) = 54 := by decide

/-- non-vacuity: chunks (3,1,2) of a length-6 axis -/
example : blockTerms (fun l => (l : Int) * 2) 0 [3, 1, 2] = [6, 6, 18] ∧ sumTo 6 (fun l => (l : Int) * 2) = 30 := by
  decide
example : stackGroups [4, 4, 1, 3, 4] 2 4 = [[(0, 2), (1, 2)], [(2, 1), (3, 2)], [(4, 2)]] := by decide

end Dask.C31
