import DaskModel.Lemmas.MaskedRed
import DaskModel.Lemmas.MaskedRedNd
import DaskModel.Props.C33
import DaskModel.Props.C22
/-!
# C33, extension: masked REDUCTIONS at the level of the partial results the tasks hold

`Props/C33.lean` proves the reductions at the element type `Option Int` (the payload under a mask is forgotten and a
block's `nomask` status does not exist).  Here an element is the pair `(data, mask)` numpy.ma stores, a block carries
`block.mask is nomask`, and the chunk / combine / aggregate functions are numpy.ma's own formula
`(self.filled(e).<op>(), _check_mask_axis(mask))` (`Model/MaskedRed.lean`).  For every monoid `(op, e)` — sum `(+, 0)`,
prod `(*, 1)`, any `(or, False)`, all `(and, True)` — every blocking, every `split_every = k ≠ 0`, every valid depth:

* `ma_tree_eq`               — the tree returns ONE partial: payload = fold of the UNMASKED values of all blocks (an element
                               contributes iff its mask bit is false: `ma_contributes_iff_unmasked`), masked iff every block
                               partial is masked, i.e. every block has a real mask and only masked elements;
* `ma_all_masked_block_unit` / `ma_unit_partial_neutral` — an all-masked (or empty, explicitly masked) block yields the partial
                               `(e, masked)`, and such a partial changes nothing in a combine;
* `ma_red_eq_numpy_ma`       — blocks of `from_array` (all share the array's `nomask` status): the tree = numpy.ma's reduction
                               of the whole array, payload AND mask; instances `ma_sum_eq_numpy_ma`, `ma_prod_eq_numpy_ma`,
                               `ma_any_eq_numpy_ma`, `ma_all_eq_numpy_ma`; `ma_sum_spec`; `maChunk_toOpt_eq_mfold` (the old model
                               is this one with the payload forgotten);
* `ma_red_nd_eq`             — the same over SEVERAL axes at once (commutative monoid): every grid of blocks, every per-axis
                               `split_every`, every valid depth (K1 n-d `gridReduce_eq_fold` at the plain product monoid on pairs,
                               transported along "every partial is normalised" with `C22.gridReduce_mapGrid`);
* `ma_all_masked_result_masked` — the result is `masked` iff the array has a mask and every element is masked;
* `ma_min_max_eq`            — min / max = `List.min?` / `List.max?` of the unmasked values, `masked` iff there is none;
* `ma_mean_eq_numpy_ma`      — the `(total, n)` partial: `n` is the number of unmasked elements, and total AND n are masked
                               exactly when everything is masked (dask's `_numel_masked` is a masked sum of ones);
* `ma_average_eq_partial`    — `da.ma.average(a, weights=w)`: numerator = weighted sum of the unmasked values (masked iff all
                               is masked), denominator = total weight of the unmasked positions — the numerator's blocks come
                               out of a per-block ufunc call and are `shrunk`, so the refuted class below applies to it too;
* `ma_var_eq`                — the order-2 moment tree over the unmasked values of every block = `np.ma.var` of the array
                               (`C22.var_eq_numpy` transported), undefined (`masked`) when nothing is unmasked;
* `getmaskarray_nomask_den`, `getdata_den`, `filled_arr_den` — per block on the blocks of `from_array`, `nomask` expanded per
                               block to a full `False` array = the same on the whole array.

**Refuted** for arrays whose blocks went through a per-block numpy.ma masking function (`masked_where`, `masked_greater`, …,
`masked_inside`; they SHRINK a mask without `True` to `nomask` block by block): `ma_red_shrunk_empty_block_refuted` — a
zero-length block becomes `nomask`, its partial is the UNMASKED unit, and the reduction of an array in which every
element is masked returns the unit (0 / 1 / False / True) where numpy.ma returns `masked`.  `ma_red_shrunk_eq_numpy_partial`
is the theorem on the complement (no zero-length block, or not everything masked).
-/
namespace Dask.C33x
open Dask.ArrayReduce Dask.MaskedRed Dask.Masked Dask.Moment

variable {α : Type} {op : α → α → α} {e : α}

/-- **an element contributes iff its mask bit is false** -/
theorem ma_contributes_iff_unmasked (h : IsMonoid op e) (nm : Bool) (xs : List (Masked α)) :
    (maChunk nm op e xs).data = (unmasked xs).foldr op e := foldFilled_eq_unmasked h xs

/-- **the tree of a masked reduction**, any blocks (each with its own `nomask` status) -/
theorem ma_tree_eq (h : IsMonoid op e) (k depth : Nat) (hk : k ≠ 0) (bs : List (MBlock α)) (hne : bs ≠ [])
    (hd : bs.length ≤ k ^ depth) :
    maTree op e k depth bs
      = [⟨(unmasked (bs.map (·.elems)).flatten).foldr op e, bs.all fun b => !b.nomask && allMasked b.elems⟩] := by
  unfold maTree
  rw [treeReduce_eq_fold (maRed op e) (maRed op e) (maRed_hom h) (maRed_hom h) k depth hk _
    (by simpa using hne) (by simpa using hd), maRed_chunks h, foldFilled_eq_unmasked h]

/-- **an all-masked block contributes the unit** … -/
theorem ma_all_masked_block_unit (h : IsMonoid op e) (b : List (Masked α)) (hm : allMasked b = true) :
    chunkOf op e ⟨false, b⟩ = ⟨e, true⟩ := by
  unfold chunkOf maChunk
  simp only [foldFilled_allMasked h b hm, hm, Bool.not_false, Bool.and_self]

/-- … and a partial `(anything, masked)` is neutral in a combine -/
theorem ma_unit_partial_neutral (h : IsMonoid op e) (d : α) (ps : List (Masked α)) :
    maRed op e (⟨d, true⟩ :: ps) = maRed op e ps := by
  unfold maRed maChunk foldFilled allMasked
  simp only [List.map_cons, List.foldr_cons, fill, if_true, h.id_left, List.all_cons, Bool.true_and]

theorem all_and_const (c : Bool) (p : List (Masked α) → Bool) (l : List (List (Masked α))) (hne : l ≠ []) :
    (l.all fun b => c && p b) = (c && l.all p) := by
  cases c with
  | true => simp
  | false =>
    cases l with
    | nil => exact absurd rfl hne
    | cons x xs => simp

/-- **ma_red_eq_numpy_ma**: on the blocks of `from_array(a)` the tree is numpy.ma's reduction of the whole array — payload and
    mask, `nomask` arrays included (`nm = true`: never masked; zero-length chunks contribute the unmasked unit) -/
theorem ma_red_eq_numpy_ma (h : IsMonoid op e) (nm : Bool) (k depth : Nat) (hk : k ≠ 0)
    (blocks : List (List (Masked α))) (hne : blocks ≠ []) (hd : blocks.length ≤ k ^ depth) :
    maTree op e k depth (fromArrayBlocks nm blocks) = [maChunk nm op e blocks.flatten] := by
  rw [ma_tree_eq h k depth hk _ (by simpa [fromArrayBlocks] using hne) (by simpa [fromArrayBlocks] using hd)]
  unfold maChunk fromArrayBlocks
  simp only [List.map_map, Function.comp_def, List.map_id', List.all_map]
  rw [foldFilled_eq_unmasked h, allMasked_flatten]
  congr 2
  exact all_and_const (!nm) allMasked blocks hne

theorem isum_monoid : IsMonoid (fun a b : Int => a + b) 0 := ⟨Int.add_assoc, Int.zero_add, Int.add_zero⟩
theorem iprod_monoid : IsMonoid (fun a b : Int => a * b) 1 := ⟨Int.mul_assoc, Int.one_mul, Int.mul_one⟩
theorem bor_monoid : IsMonoid (fun a b : Bool => a || b) false := ⟨Bool.or_assoc, Bool.false_or, Bool.or_false⟩
theorem band_monoid : IsMonoid (fun a b : Bool => a && b) true := ⟨Bool.and_assoc, Bool.true_and, Bool.and_true⟩

theorem ma_sum_eq_numpy_ma (nm : Bool) (k depth : Nat) (hk : k ≠ 0) (blocks : List (List (Masked Int)))
    (hne : blocks ≠ []) (hd : blocks.length ≤ k ^ depth) :
    maTree (· + ·) 0 k depth (fromArrayBlocks nm blocks) = [maChunk nm (· + ·) 0 blocks.flatten] :=
  ma_red_eq_numpy_ma isum_monoid nm k depth hk blocks hne hd

theorem ma_prod_eq_numpy_ma (nm : Bool) (k depth : Nat) (hk : k ≠ 0) (blocks : List (List (Masked Int)))
    (hne : blocks ≠ []) (hd : blocks.length ≤ k ^ depth) :
    maTree (· * ·) 1 k depth (fromArrayBlocks nm blocks) = [maChunk nm (· * ·) 1 blocks.flatten] :=
  ma_red_eq_numpy_ma iprod_monoid nm k depth hk blocks hne hd

/-- `da.any` on a masked array: `filled(False).any()` of the truth values, masked iff everything is masked -/
theorem ma_any_eq_numpy_ma (nm : Bool) (k depth : Nat) (hk : k ≠ 0) (blocks : List (List (Masked Int)))
    (hne : blocks ≠ []) (hd : blocks.length ≤ k ^ depth) :
    maTree (· || ·) false k depth (fromArrayBlocks nm (blocks.map (List.map truth)))
      = [maChunk nm (· || ·) false (blocks.flatten.map truth)] := by
  rw [ma_red_eq_numpy_ma bor_monoid nm k depth hk _ (by simpa using hne) (by simpa using hd), List.map_flatten]

theorem ma_all_eq_numpy_ma (nm : Bool) (k depth : Nat) (hk : k ≠ 0) (blocks : List (List (Masked Int)))
    (hne : blocks ≠ []) (hd : blocks.length ≤ k ^ depth) :
    maTree (· && ·) true k depth (fromArrayBlocks nm (blocks.map (List.map truth)))
      = [maChunk nm (· && ·) true (blocks.flatten.map truth)] := by
  rw [ma_red_eq_numpy_ma band_monoid nm k depth hk _ (by simpa using hne) (by simpa using hd), List.map_flatten]

/-- what `np.ma.sum` of the whole array is: `masked` iff the array has a mask and all of it is set, else the sum of the
    unmasked values -/
theorem ma_sum_spec (nm : Bool) (xs : List (Masked Int)) :
    (maChunk nm (· + ·) 0 xs).toOpt = if (!nm && allMasked xs) = true then none else some (isum (unmasked xs)) := by
  have := foldFilled_eq_unmasked isum_monoid xs
  unfold Masked.toOpt maChunk
  simp only [this]
  rfl

/-- **ma_all_masked_result_masked**: the result of a masked reduction over the blocks of `from_array(a)` is `masked` iff `a`
    has a mask (is not `nomask`) and EVERY element is masked -/
theorem ma_all_masked_result_masked (h : IsMonoid op e) (nm : Bool) (k depth : Nat) (hk : k ≠ 0)
    (blocks : List (List (Masked α))) (hne : blocks ≠ []) (hd : blocks.length ≤ k ^ depth) :
    ∃ r, maTree op e k depth (fromArrayBlocks nm blocks) = [r] ∧
      (r.mask = true ↔ nm = false ∧ ∀ x ∈ blocks.flatten, x.mask = true) := by
  refine ⟨_, ma_red_eq_numpy_ma h nm k depth hk blocks hne hd, ?_⟩
  unfold maChunk allMasked
  simp only [Bool.and_eq_true, Bool.not_eq_true', List.all_eq_true]

/-- the old model (`Model/Masked.lean`, `Option Int`) is this one with the payload under the mask forgotten -/
theorem maChunk_toOpt_eq_mfold (op : Int → Int → Int) (e : Int) (h : IsMonoid op e) (xs : List (Masked Int)) :
    (maChunk false op e xs).toOpt = mfold op (toM xs) := by
  induction xs with
  | nil => rfl
  | cons x xs ih =>
    have hm : mfold op (toM (x :: xs)) = liftOp op x.toOpt (mfold op (toM xs)) := rfl
    rw [hm, ← ih]
    unfold maChunk Masked.toOpt foldFilled allMasked
    simp only [List.map_cons, List.foldr_cons, List.all_cons, Bool.not_false, Bool.true_and]
    cases hx : x.mask with
    | true => simp [fill, hx, h.id_left, liftOp]
    | false =>
      by_cases ha : (xs.all fun y => y.mask) = true
      · have := foldFilled_allMasked h xs (by simpa [allMasked] using ha)
        unfold foldFilled at this
        simp [fill, hx, ha, liftOp, this, h.id_right]
      · simp [fill, hx, ha, liftOp]


/-! ## several axes at once -/

open Dask.C22 in
/-- **masked sum/prod/any/all over SEVERAL axes at once** (commutative monoid): for every grid of blocks (each with its own
    `nomask` status), every per-axis `split_every`, every valid depth, the n-d tree of numpy.ma's own kernel returns one partial:
    payload = fold of all unmasked values, masked iff every block partial is masked -/
theorem ma_red_nd_eq (h : IsCommMonoid op e) (d : Nat) (ks nb : List Nat) (bs : List (MBlock α))
    (hax : AxesOk (d + 1) ks nb) (hl : bs.length = (cartesian (nb.map List.range)).length) :
    gridReduce (maRed op e) (maRed op e) nb (ks.map some) false (d + 1) (mkGrid nb (bs.map (chunkOf op e)))
      = some [([], ⟨(unmasked (bs.map (·.elems)).flatten).foldr op e, bs.all fun b => !b.nomask && allMasked b.elems⟩)] := by
  have hm : IsMonoid op e := h.toIsMonoid
  have hnorm : (bs.map (chunkOf op e)).map (norm e) = bs.map (chunkOf op e) := by
    rw [List.map_map]
    apply List.map_congr_left
    intro b _
    exact norm_maChunk hm b.nomask b.elems
  have key := gridReduce_mapGrid (norm e) id (fun xs => xs.foldr (pop op) ⟨e, true⟩) (fun xs => xs.foldr (pop op) ⟨e, true⟩)
    (maRed op e) (maRed op e)
    (fun xs => by rw [← maRed_eq_foldr_norm]; exact (norm_maChunk hm false xs).symm)
    (fun xs => by rw [← maRed_eq_foldr_norm]; rfl)
    (ks.map some) false (d + 1) nb (mkGrid nb (bs.map (chunkOf op e)))
  rw [← mkGrid_map, hnorm, gridReduce_eq_fold (pop_comm_monoid h) d ks nb _ hax (by simpa using hl)] at key
  have hfold : (bs.map (chunkOf op e)).foldr (pop op) ⟨e, true⟩ = maRed op e (bs.map (chunkOf op e)) := by
    rw [maRed_eq_foldr_norm, hnorm]
  rw [hfold, maRed_chunks hm, foldFilled_eq_unmasked hm] at key
  cases hg : gridReduce (maRed op e) (maRed op e) nb (ks.map some) false (d + 1) (mkGrid nb (bs.map (chunkOf op e))) with
  | none => rw [hg] at key; simp at key
  | some g =>
    rw [hg] at key
    simp only [Option.map_some, Option.some.injEq] at key
    have : mapGrid id g = g := by
      unfold mapGrid
      simp
    rw [this] at key
    rw [← key]

theorem isum_comm_monoid : IsCommMonoid (fun a b : Int => a + b) 0 := ⟨isum_monoid, Int.add_comm⟩

/-- non-vacuity: a 2 × 2 grid of blocks — an all-masked block, a zero-length `nomask` block, two mixed ones -/
example : gridReduce (maRed (· + ·) 0) (maRed (· + ·) 0) [2, 2] [some 2, some 2] false 1
      (mkGrid [2, 2] (([⟨false, [⟨1, true⟩, ⟨2, true⟩]⟩, ⟨false, [⟨3, false⟩]⟩, ⟨false, [⟨4, true⟩, ⟨5, false⟩]⟩, ⟨false, []⟩] :
        List (MBlock Int)).map (chunkOf (· + ·) 0)))
    = some [([], ⟨8, false⟩)] := by
  have hax : AxesOk 1 [2, 2] [2, 2] := by
    unfold AxesOk
    exact List.Forall₂.cons ⟨by decide, by decide, by decide⟩ (List.Forall₂.cons ⟨by decide, by decide, by decide⟩ List.Forall₂.nil)
  rw [show [some 2, some 2] = [2, 2].map some from rfl, ma_red_nd_eq isum_comm_monoid 0 [2, 2] [2, 2] _ hax (by decide)]
  decide

/-! ## min / max -/

theorem toM_filterMap (xs : List (Masked Int)) : (toM xs).filterMap id = unmasked xs := by
  unfold toM unmasked
  rw [List.filterMap_map]
  rfl

theorem toM_flatten (blocks : List (List (Masked Int))) : (blocks.map toM).flatten = toM blocks.flatten := by
  unfold toM; rw [List.map_flatten]

/-- **ma_min_max_eq**: `da.min` / `da.max` of a masked array = the minimum / maximum of the unmasked values, `masked` iff there
    is none (every blocking — all-masked and zero-length blocks included —, every `split_every`, every valid depth) -/
theorem ma_min_max_eq (k depth : Nat) (hk : k ≠ 0) (blocks : List (List (Masked Int))) (hne : blocks ≠ [])
    (hd : blocks.length ≤ k ^ depth) :
    (redMa min).run1 k depth (blocks.map toM) = some [(unmasked blocks.flatten).min?] ∧
    (redMa max).run1 k depth (blocks.map toM) = some [(unmasked blocks.flatten).max?] := by
  constructor
  · rw [C33.ma_reduce_eq min (fun a b c => Int.min_assoc a b c) k depth hk _ (by simpa using hne) (by simpa using hd),
      C33.mfold_spec min (fun a b c => Int.min_assoc a b c), toM_flatten, toM_filterMap]
    cases unmasked blocks.flatten <;> rfl
  · rw [C33.ma_reduce_eq max (fun a b c => Int.max_assoc a b c) k depth hk _ (by simpa using hne) (by simpa using hd),
      C33.mfold_spec max (fun a b c => Int.max_assoc a b c), toM_flatten, toM_filterMap]
    cases unmasked blocks.flatten <;> rfl

/-! ## mean: the `(total, n)` partial -/

theorem allMasked_ones (xs : List (Masked Int)) : allMasked (ones xs) = allMasked xs := by
  unfold allMasked ones; rw [List.all_map]; rfl

theorem unmasked_ones (xs : List (Masked Int)) : isum (unmasked (ones xs)) = (unmasked xs).length := by
  unfold unmasked ones isum
  induction xs with
  | nil => rfl
  | cons x xs ih =>
    cases hx : x.mask with
    | true => simpa [Masked.toOpt, hx] using ih
    | false =>
      simp only [List.map_cons, List.filterMap_cons, Masked.toOpt, hx] at ih ⊢
      simp only [Bool.false_eq_true, if_false, List.foldr_cons, List.length_cons, ih]
      omega

/-- **ma_mean_eq_numpy_ma**: over the blocks of `from_array(a)` the mean tree delivers `(total, n)` of the whole array;
    `n` = number of unmasked elements, `total` = their sum, and BOTH are masked iff `a` has a mask and everything is masked
    (`mean_agg` divides them: `masked / masked = masked`, trusted) -/
theorem ma_mean_eq_numpy_ma (nm : Bool) (k depth : Nat) (hk : k ≠ 0) (blocks : List (List (Masked Int)))
    (hne : blocks ≠ []) (hd : blocks.length ≤ k ^ depth) :
    maMeanTree k depth (fromArrayBlocks nm blocks) = [maMeanChunk nm blocks.flatten] ∧
    (maMeanChunk nm blocks.flatten).1.data = isum (unmasked blocks.flatten) ∧
    (maMeanChunk nm blocks.flatten).2.data = (unmasked blocks.flatten).length ∧
    (maMeanChunk nm blocks.flatten).1.mask = (!nm && allMasked blocks.flatten) ∧
    (maMeanChunk nm blocks.flatten).2.mask = (!nm && allMasked blocks.flatten) := by
  refine ⟨?_, foldFilled_eq_unmasked isum_monoid _, ?_, rfl, ?_⟩
  · unfold maMeanTree
    have hh := hom_pair _ _ (maRed_hom isum_monoid) (maRed_hom isum_monoid)
    rw [show maMeanComb = fun ps : List (Masked Int × Masked Int) =>
        (maRed (· + ·) 0 (ps.map (·.1)), maRed (· + ·) 0 (ps.map (·.2))) from rfl,
      treeReduce_eq_fold _ _ hh hh k depth hk _ (by simpa [fromArrayBlocks] using hne)
        (by simpa [fromArrayBlocks] using hd)]
    have t1 := maRed_chunks isum_monoid (fromArrayBlocks nm blocks)
    have t2 := maRed_chunks isum_monoid (fromArrayBlocks nm (blocks.map ones))
    simp only [fromArrayBlocks, List.map_map, Function.comp_def, chunkOf, List.map_id', List.all_map] at t1 t2 ⊢
    unfold maMeanChunk
    rw [t1, t2]
    unfold maChunk
    have hones : (List.map (fun x => ones x) blocks).flatten = ones blocks.flatten := by unfold ones; rw [List.map_flatten]
    have a1 := all_and_const (!nm) allMasked blocks hne
    have a2 : (blocks.all fun b => !nm && allMasked (ones b)) = (!nm && blocks.all allMasked) := by
      simp only [allMasked_ones]; exact a1
    rw [hones, a1, a2, allMasked_ones, allMasked_flatten]
  · show foldFilled (· + ·) 0 (ones blocks.flatten) = _
    rw [foldFilled_eq_unmasked isum_monoid]
    exact unmasked_ones _
  · show (!nm && allMasked (ones blocks.flatten)) = _
    rw [allMasked_ones]


/-! ## var -/

theorem unmaskedRat_flatten (blocks : List (List (Masked Int))) :
    (blocks.map unmaskedRat).flatten = unmaskedRat blocks.flatten := by
  unfold unmaskedRat unmasked
  induction blocks with
  | nil => rfl
  | cons b bs ih => simp only [List.map_cons, List.flatten_cons, List.filterMap_append, List.map_append, ih]

/-- **ma_var_eq**: `da.var` of a masked array — every block's order-2 moment partial is the partial of its unmasked values
    (an all-masked block: n = 0, total = 0, M = 0) — returns `np.ma.var`: the variance of the unmasked values -/
theorem ma_var_eq (ddof k depth : Nat) (hk : k ≠ 0) (blocks : List (List (Masked Int))) (hne : blocks ≠ [])
    (hd : blocks.length ≤ k ^ depth) :
    (redVar ddof).run1 k depth (blocks.map unmaskedRat) = some [varSpec ddof (unmaskedRat blocks.flatten)] := by
  rw [C22.var_eq_numpy ddof k depth hk _ (by simpa using hne) (by simpa using hd), unmaskedRat_flatten]

/-- everything masked ⇒ the variance is undefined (`masked`) -/
theorem ma_var_all_masked (ddof : Nat) (xs : List (Masked Int)) (hm : allMasked xs = true) :
    varSpec ddof (unmaskedRat xs) = none := by
  have : unmasked xs = [] := by
    unfold unmasked allMasked at *
    induction xs with
    | nil => rfl
    | cons x xs ih =>
      simp only [List.all_cons, Bool.and_eq_true] at hm
      simp [Masked.toOpt, hm.1, ih hm.2]
  simp [varSpec, unmaskedRat, this]

/-! ## arrays produced by a per-block numpy.ma masking function: masks shrunk to `nomask` block by block -/

theorem any_and_all (b : List (Masked α)) : (anyMasked b && allMasked b) = (!b.isEmpty && allMasked b) := by
  unfold anyMasked allMasked
  cases b with
  | nil => rfl
  | cons x xs => cases hx : x.mask <;> simp [hx]

/-- **ma_red_shrunk_eq_numpy_partial** — proved on the complement of the refuted class: unless some block is zero-length
    while the array is non-empty and completely masked, the tree over the shrunk blocks = numpy.ma on the whole (shrunk) array.
    Full statement (false, see below): the same without `hfind`. -/
theorem ma_red_shrunk_eq_numpy_partial (h : IsMonoid op e) (k depth : Nat) (hk : k ≠ 0)
    (blocks : List (List (Masked α))) (hne : blocks ≠ []) (hd : blocks.length ≤ k ^ depth)
    (hfind : (∃ b ∈ blocks, b = []) → ¬ (blocks.flatten ≠ [] ∧ allMasked blocks.flatten = true)) :
    maTree op e k depth (blocks.map shrunk) = [numpyShrunk op e blocks.flatten] := by
  rw [ma_tree_eq h k depth hk _ (by simpa using hne) (by simpa using hd)]
  unfold numpyShrunk maChunk shrunk
  simp only [List.map_map, Function.comp_def, List.map_id', List.all_map, Bool.not_not]
  rw [foldFilled_eq_unmasked h]
  congr 2
  rw [any_and_all, show (fun b : List (Masked α) => anyMasked b && allMasked b) = fun b => !b.isEmpty && allMasked b from
    funext any_and_all, Bool.eq_iff_iff]
  simp only [List.all_eq_true, Bool.and_eq_true, Bool.not_eq_true', List.isEmpty_eq_false_iff]
  constructor
  · intro hall
    have hfl : allMasked blocks.flatten = true := by
      rw [allMasked_flatten, List.all_eq_true]
      intro b hb; exact (hall b hb).2
    refine ⟨?_, hfl⟩
    cases blocks with
    | nil => exact absurd rfl hne
    | cons b bs =>
      have := (hall b (by simp)).1
      intro hcon
      simp only [List.flatten_cons, List.append_eq_nil_iff] at hcon
      exact this hcon.1
  · intro ⟨hnil, hfl⟩ b hb
    refine ⟨?_, ?_⟩
    · intro hbe
      exact hfind ⟨b, hb, hbe⟩ ⟨hnil, hfl⟩
    · rw [allMasked_flatten, List.all_eq_true] at hfl
      exact hfl b hb

/-- non-vacuity of the hypothesis (an all-masked block next to a mixed one, no zero-length block) -/
example : maTree (· + ·) 0 2 1 (([[⟨1, true⟩, ⟨2, true⟩], [⟨3, false⟩, ⟨4, true⟩]] : List (List (Masked Int))).map shrunk)
    = [numpyShrunk (· + ·) 0 [⟨1, true⟩, ⟨2, true⟩, ⟨3, false⟩, ⟨4, true⟩]] :=
  ma_red_shrunk_eq_numpy_partial isum_monoid 2 1 (by decide) _ (by simp) (by decide) (by decide)

/-- **refuted** without the hypothesis: `da.ma.masked_greater(from_array([1], chunks=((1, 0),)), 0).sum()` — the zero-length
    block comes back from `np.ma.masked_greater` with `nomask`, its partial is the unmasked `0`, and the sum of an array in
    which everything is masked is `0` (not masked); `np.ma.masked_greater([1], 0).sum()` is `masked`.
    Replayed on the real code: corpus/C33/shrunk-empty-block.json -/
theorem ma_red_shrunk_empty_block_refuted :
    maTree (· + ·) 0 2 1 (([[⟨1, true⟩], []] : List (List (Masked Int))).map shrunk) = [⟨0, false⟩] ∧
    numpyShrunk (· + ·) 0 ([[⟨1, true⟩], []] : List (List (Masked Int))).flatten = ⟨0, true⟩ := by
  refine ⟨?_, by decide⟩
  rw [ma_tree_eq isum_monoid 2 1 (by decide) _ (by simp) (by decide)]
  decide

/-! ## average with weights -/

theorem length_eq_of_map_length {β γ : Type} : ∀ (xs : List (List β)) (ys : List (List γ)),
    xs.map List.length = ys.map List.length → xs.length = ys.length
  | [], [], _ => rfl
  | [], _ :: _, h => by simp at h
  | _ :: _, [], h => by simp at h
  | _ :: xs, _ :: ys, h => by
    simp only [List.map_cons, List.cons.injEq] at h
    simp only [List.length_cons, length_eq_of_map_length xs ys h.2]

theorem masks_wprod : ∀ (u : List Int) (v : List (Masked Int)), u.length = v.length →
    allMasked (wprod u v) = allMasked v ∧ anyMasked (wprod u v) = anyMasked v
  | [], [], _ => ⟨rfl, rfl⟩
  | [], _ :: _, h => by simp at h
  | _ :: _, [], h => by simp at h
  | a :: as, y :: ys, h => by
    have ih := masks_wprod as ys (by simpa using h)
    unfold allMasked anyMasked wprod at *
    simp only [List.zipWith_cons_cons, List.all_cons, List.any_cons, ih.1, ih.2, and_self]

/-- **ma_average_eq_partial**: `da.ma.average(a, weights=w)` over aligned blocks.  The numerator is the masked sum of the blocks
    of `multiply(a, w * ~mask, dtype=…)` — a per-block ufunc call whose result has `nomask` when the block has no masked element,
    in particular when it is ZERO-LENGTH (`shrunk`): the tree returns the weighted sum of the UNMASKED values, masked iff
    everything is masked; the denominator (plain sum of `w * ~mask`) is the total weight of the unmasked positions.  Every
    blocking, `split_every`, valid depth — on the complement of the refuted class (`hfind`, stated for the product blocks, which have
    the lengths and masks of the blocks of `a`: `masks_wprod`); without `hfind` it is false as `ma_red_shrunk_empty_block_refuted`. -/
theorem ma_average_eq_partial (k depth : Nat) (hk : k ≠ 0) (wss : List (List Int)) (blocks : List (List (Masked Int)))
    (hne : blocks ≠ []) (hd : blocks.length ≤ k ^ depth) (hal : wss.map List.length = blocks.map List.length)
    (hfind : (∃ b ∈ List.zipWith wprod wss blocks, b = []) →
      ¬ ((List.zipWith wprod wss blocks).flatten ≠ [] ∧ allMasked (List.zipWith wprod wss blocks).flatten = true)) :
    maTree (· + ·) 0 k depth ((List.zipWith wprod wss blocks).map shrunk)
      = [numpyShrunk (· + ·) 0 (wprod wss.flatten blocks.flatten)] ∧
    treeReduce isum isum k depth ((List.zipWith wgtMasked wss blocks).map isum)
      = [isum (wgtMasked wss.flatten blocks.flatten)] ∧
    (numpyShrunk (· + ·) 0 (wprod wss.flatten blocks.flatten)).data = wsumUnmasked wss.flatten blocks.flatten ∧
    (numpyShrunk (· + ·) 0 (wprod wss.flatten blocks.flatten)).mask
      = (anyMasked blocks.flatten && allMasked blocks.flatten) := by
  have hlen := length_eq_of_map_length wss blocks hal
  have hz : (List.zipWith wprod wss blocks).length = blocks.length := by simp [List.length_zipWith, hlen]
  have hz2 : (List.zipWith wgtMasked wss blocks).length = blocks.length := by simp [List.length_zipWith, hlen]
  have hbne : blocks.length ≠ 0 := by simpa using hne
  have hl2 : wss.flatten.length = blocks.flatten.length := by
    rw [List.length_flatten, List.length_flatten, hal]
  refine ⟨?_, ?_, ?_, ?_⟩
  · rw [ma_red_shrunk_eq_numpy_partial isum_monoid k depth hk _ (by intro h0; rw [h0] at hz; exact hbne hz.symm) (by omega) hfind]
    congr 2
    exact C33.zipWith_flatten _ wss blocks hal
  · have hh : Hom isum isum := hom_monoid C33.isum_monoid'
    rw [treeReduce_eq_fold isum isum hh hh k depth hk _
      (by intro h0; have := congrArg List.length h0; simp only [List.length_map, List.length_nil] at this; omega)
      (by simp only [List.length_map]; omega), C33.isum_flatten']
    congr 2
    exact C33.zipWith_flatten _ wss blocks hal
  · show foldFilled (· + ·) 0 (wprod wss.flatten blocks.flatten) = _
    unfold foldFilled wprod wsumUnmasked isum
    rw [List.map_zipWith]
    congr 1
    apply congrFun
    apply congrFun
    congr 1
    funext w x
    cases x.mask <;> simp [fill]
  · have := masks_wprod wss.flatten blocks.flatten hl2
    show (!(!anyMasked (wprod wss.flatten blocks.flatten)) && allMasked (wprod wss.flatten blocks.flatten)) = _
    rw [this.1, this.2, Bool.not_not]

/-- non-vacuity: weights (1 2 | 3), values (5̶ 7 | 4): numerator 7·2 + 4·3 = 26, denominator 2 + 3 = 5 -/
example : (numpyShrunk (· + ·) 0 (wprod [1, 2, 3] [⟨5, true⟩, ⟨7, false⟩, ⟨4, false⟩])).data = 26 ∧
    isum (wgtMasked [1, 2, 3] [⟨5, true⟩, ⟨7, false⟩, ⟨4, false⟩]) = 5 := by decide

/-! ## getmaskarray (`nomask` expanded), getdata, filled on the blocks of `from_array` -/

/-- **getmaskarray_nomask_den**: `da.ma.getmaskarray` applies `np.ma.getmaskarray` per block; a `nomask` block expands to a
    full `False` block of its own length — together the full `False` mask of the whole array; real masks are sliced -/
theorem getmaskarray_nomask_den (chunks : List Nat) (a : MArr) (hwf : a.WF) (hs : chunks.sum = a.data.length) :
    ((a.blocks chunks).map MArr.getmaskarray).flatten = a.getmaskarray := by
  unfold MArr.blocks MArr.getmaskarray
  cases hm : a.mask with
  | none =>
    simp only [List.map_map, Function.comp_def]
    have := replicate_flatten_lengths ((splitChunks chunks a.data).map List.length)
    rw [List.map_map, lengths_splitChunks chunks a.data hs, hs] at this
    exact this
  | some m =>
    have hl := hwf m hm
    simp only [List.map_zipWith]
    have : List.zipWith (fun (mk : List Bool) (_ : List Int) => mk) (splitChunks chunks m) (splitChunks chunks a.data)
        = splitChunks chunks m := by
      have hlen : (splitChunks chunks m).length = (splitChunks chunks a.data).length := by
        rw [length_splitChunks, length_splitChunks]
      generalize splitChunks chunks m = u at hlen
      generalize splitChunks chunks a.data = v at hlen
      induction u generalizing v with
      | nil => rfl
      | cons x xs ih =>
        cases v with
        | nil => simp at hlen
        | cons y ys => simp only [List.zipWith_cons_cons, ih ys (by simpa using hlen)]
    rw [this, flatten_splitChunks chunks m (by omega)]

theorem getdata_den (chunks : List Nat) (a : MArr) (hwf : a.WF) (hs : chunks.sum = a.data.length) :
    ((a.blocks chunks).map MArr.getdata).flatten = a.getdata := by
  unfold MArr.blocks MArr.getdata
  cases hm : a.mask with
  | none =>
    simp only [List.map_map, Function.comp_def, List.map_id']
    exact flatten_splitChunks chunks a.data hs
  | some m =>
    have hl := hwf m hm
    simp only [List.map_zipWith]
    have : List.zipWith (fun (_ : List Bool) (d : List Int) => d) (splitChunks chunks m) (splitChunks chunks a.data)
        = splitChunks chunks a.data := by
      have hlen : (splitChunks chunks m).length = (splitChunks chunks a.data).length := by
        rw [length_splitChunks, length_splitChunks]
      generalize splitChunks chunks m = u at hlen
      generalize splitChunks chunks a.data = v at hlen
      induction u generalizing v with
      | nil => cases v with
        | nil => rfl
        | cons y ys => simp at hlen
      | cons x xs ih =>
        cases v with
        | nil => simp at hlen
        | cons y ys => simp only [List.zipWith_cons_cons, ih ys (by simpa using hlen)]
    rw [this, flatten_splitChunks chunks a.data hs]

/-- `da.ma.filled(a, v)` per block = `np.ma.filled` of the whole array (`nomask`: the data itself) -/
theorem filled_arr_den (v : Int) (chunks : List Nat) (a : MArr) (hwf : a.WF) (hs : chunks.sum = a.data.length) :
    ((a.blocks chunks).map (MArr.filled v)).flatten = a.filled v := by
  unfold MArr.blocks MArr.filled
  cases hm : a.mask with
  | none =>
    simp only [List.map_map, Function.comp_def, List.map_id']
    exact flatten_splitChunks chunks a.data hs
  | some m =>
    have hl := hwf m hm
    simp only [List.map_zipWith]
    have hlens : (splitChunks chunks m).map List.length = (splitChunks chunks a.data).map List.length := by
      rw [lengths_splitChunks chunks m (by omega), lengths_splitChunks chunks a.data hs]
    have := C33.zipWith_flatten (fun (mk : Bool) (d : Int) => if mk then v else d) _ _ hlens
    rw [flatten_splitChunks chunks m (by omega), flatten_splitChunks chunks a.data hs] at this
    exact this

/-- non-vacuity: a `nomask` array in chunks (2, 0, 1) and a masked one -/
example : ((MArr.blocks [2, 0, 1] ⟨[5, 6, 7], none⟩).map MArr.getmaskarray) = [[false, false], [], [false]] := by decide
example : ((MArr.blocks [2, 0, 1] ⟨[5, 6, 7], some [true, false, true]⟩).map (MArr.filled 9)) = [[9, 6], [], [9]] := by decide

/-- non-vacuity of the tree theorems: an all-masked block, a mixed block, a zero-length block; a `nomask` array -/
example : maTree (· + ·) 0 2 2 (fromArrayBlocks false ([[⟨1, true⟩, ⟨2, true⟩], [⟨3, false⟩, ⟨4, true⟩], []] : List (List (Masked Int)))) = [⟨3, false⟩] := by
  rw [ma_sum_eq_numpy_ma false 2 2 (by decide) _ (by simp) (by decide)]; decide
example : maTree (· * ·) 1 2 1 (fromArrayBlocks false ([[⟨5, true⟩], [⟨7, true⟩]] : List (List (Masked Int)))) = [⟨1, true⟩] := by
  rw [ma_prod_eq_numpy_ma false 2 1 (by decide) _ (by simp) (by decide)]; decide
example : maTree (· + ·) 0 2 1 (fromArrayBlocks true ([[⟨5, false⟩], []] : List (List (Masked Int)))) = [⟨5, false⟩] := by
  rw [ma_sum_eq_numpy_ma true 2 1 (by decide) _ (by simp) (by decide)]; decide

end Dask.C33x
