import DaskModel.Lemmas.Gufunc
/-! # C35 (extension) — `dask/array/gufunc.py` end to end: index bookkeeping of `apply_gufunc`

Model: `Model/Gufunc.lean` (signature automaton, guards, the arguments of the `blockwise` call, leaf layers, semantics over
abstract core slices). Helper lemmas: `Lemmas/Gufunc.lean`.

* `gufunc_index_strings_spec` — for the index strings `apply_gufunc` hands to `blockwise` (loop dimensions `__loopdim{d}__`
  right-aligned and shared, core dimensions named per argument, output = the loop dimensions only, `concatenate=True`), K13's
  `_get_coord_mapping` gives argument `k` for output block `o`: along its `j`-th loop axis block `o[j + (mx - n_k)]` (block `0`
  where the argument has a single block), along every core axis ALL blocks in order (`range(nb)`, concatenated).
* `gufunc_eq_vectorize` — for EVERY chunking `oc` of the loop dimensions (zero-length chunks allowed) and every loop index `l`:
  what the graph assembles at `l` is `f` applied to the core slices NumPy's broadcasting selects (`vectorizeAt`): `f` abstract.
  `gufunc_eq_vectorize_multi` (several outputs = `getitem i` of the same call), `argOK_of_plan` (the hypotheses of the theorem
  about the `blockwise` coordinates hold for the strings the model's `plan` returns).
* error guards: `guards_nargs`, `guards_ndim`, `plan_raises_core_multichunk` (the documented ValueError),
  `plan_ok_checks` + `checkDim_none_iff` (a passing call has passed every check of every dimension, in the code's order),
  `chunks_aligned` (the `chunksize` check makes the loop chunks of all arguments equal, so no rechunking is needed),
  `outCore_ok` / `outCore_missing` (KeyError for an output core dimension without a size).
* output layers: `leaf_keys_grid` (the hand-built leaf layer has exactly the keys of the chunk grid `loop blocks × (0,…,0)`),
  `leaf_layer_spec`.
* `_parse_gufunc_signature` (a deterministic automaton with accumulators): `parse_render` (the canonical text of any signature
  parses back to it), `parseSig_ws` (whitespace is irrelevant), `parse_needs_arrow` (malformed ⇒ ValueError), `single_iff`.
-/
namespace Dask.C35x
open Dask.Gufunc Dask.Blockwise Dask.Elemwise
open Dask.MapBlocks (loopDims)

/-! ## 1. `gufunc_eq_vectorize` -/

/-- **gufunc_eq_vectorize** -/
theorem gufunc_eq_vectorize {σ τ : Type} (f : List σ → τ) (mx : Nat) (out dums : List Nat) (dims : List (Nat × Nat))
    (oc : List (List Nat)) (args : List (LArg σ × Arg)) (l : List Nat)
    (hoc : oc.length = mx) (hl : l.length = mx) (hin : ∀ p ∈ oc.zip l, p.2 < p.1.sum)
    (hargs : ∀ p ∈ args, ArgOK mx out dums dims oc p.1 p.2) :
    gufuncAt f mx out dums dims oc args l = some (vectorizeAt f mx (args.map (·.1)) l) := by
  obtain ⟨bl, hloc⟩ := locateAll_some oc l (by omega) hin
  unfold gufuncAt vectorizeAt
  simp only [hloc, Option.bind_eq_bind, Option.bind_some]
  rw [traverse_some_map (g := fun p => p.1.val (npIdx mx p.1 l))
    (fun p hp => argRead_eq mx out dums dims oc l bl p.1 p.2 hoc hloc (hargs p hp))]
  simp [List.map_map, Function.comp_def]

/-- several outputs: output `i` is `getitem(·, i)` of the same `blockwise` result -/
theorem gufunc_eq_vectorize_multi {σ ρ : Type} (f : List σ → List ρ) (i : Nat) (mx : Nat) (out dums : List Nat)
    (dims : List (Nat × Nat)) (oc : List (List Nat)) (args : List (LArg σ × Arg)) (l : List Nat)
    (hoc : oc.length = mx) (hl : l.length = mx) (hin : ∀ p ∈ oc.zip l, p.2 < p.1.sum)
    (hargs : ∀ p ∈ args, ArgOK mx out dums dims oc p.1 p.2) :
    (gufuncAt f mx out dums dims oc args l).map (fun r => r[i]?) = some ((vectorizeAt f mx (args.map (·.1)) l)[i]?) := by
  rw [gufunc_eq_vectorize f mx out dums dims oc args l hoc hl hin hargs]
  rfl

section
variable {ν : Type} [DecidableEq ν]

/-! ## 2. the index strings -/

/-- **gufunc_index_strings_spec.** -/
theorem gufunc_index_strings_spec (sig : Sig ν) (args : List GArg) (os : List (ν × Nat)) (allow : Bool) (P : Plan ν)
    (h : plan sig args os allow = .ok P) (names : List ν)
    (k : Nat) (a : GArg) (cd : List ν) (ha : args[k]? = some a) (hc : sig.ins[k]? = some cd)
    (lnb cnb : List Nat) (dums : List Nat) (dims : List (Nat × Nat)) (o : List Nat)
    (hl : lnb.length = nLoop a cd) (hcn : cnb.length = cd.length)
    (hdn : dums.Nodup) (hge : ∀ s ∈ dums, P.mx ≤ s) (hcover : ∀ n ∈ cd, P.mx + names.idxOf n ∈ dums)
    (hdims : ∀ s ∈ dums, ∃ d, dget dims s = some d)
    (hcons : ∀ p ∈ (cd.map fun n => P.mx + names.idxOf n).zip cnb, p.2 ≠ 1 → dget dims p.1 = some p.2)
    (ho : o.length = P.mx) :
    P.inDims[k]? = some (inDims P.mx a cd) ∧
    argCoords (P.outInd.map (symOf P.mx names)) dums dims true o (bwArg P.mx names k (inDims P.mx a cd) (lnb ++ cnb)) =
      some (List.zipWith (fun nb v => Coord.one (argBlock nb v)) lnb (o.drop (P.mx - nLoop a cd))
            ++ cnb.map fun nb => Coord.many (List.range nb)) := by
  obtain ⟨_, hmx, hout, hin, _, _⟩ := plan_ok_fields sig args os allow P h
  constructor
  · rw [hin]
    simp only [List.getElem?_map, List.getElem?_zip_eq_some, ha, hc, Option.map_eq_some_iff, Prod.exists, Prod.mk.injEq]
    exact ⟨a, cd, ⟨rfl, rfl⟩, rfl⟩
  · rw [hout]
    have hn : nLoop a cd ≤ P.mx := by rw [hmx]; exact nLoop_le_mx sig args k a cd ha hc
    exact index_strings_spec P.mx names a cd k lnb cnb dums dims o hn hl hcn hdn hge hcover hdims hcons ho

/-- the hypotheses of `gufunc_eq_vectorize` about the `blockwise` coordinates hold for the index strings of `plan` -/
theorem argOK_of_plan {σ : Type} (sig : Sig ν) (args : List GArg) (os : List (ν × Nat)) (allow : Bool) (P : Plan ν)
    (h : plan sig args os allow = .ok P) (names : List ν)
    (k : Nat) (a : GArg) (cd : List ν) (ha : args[k]? = some a) (hc : sig.ins[k]? = some cd)
    (la : LArg σ) (dums : List Nat) (dims : List (Nat × Nat)) (oc : List (List Nat))
    (hl : la.lchunks.length = nLoop a cd) (hcn : la.cnb.length = cd.length)
    (hchunks : ∀ p ∈ la.lchunks.zip (oc.drop (P.mx - la.lchunks.length)), p.1 = p.2 ∨ p.1 = [1])
    (hdn : dums.Nodup) (hge : ∀ s ∈ dums, P.mx ≤ s) (hcover : ∀ n ∈ cd, P.mx + names.idxOf n ∈ dums)
    (hdims : ∀ s ∈ dums, ∃ d, dget dims s = some d)
    (hcons : ∀ p ∈ (cd.map fun n => P.mx + names.idxOf n).zip la.cnb, p.2 ≠ 1 → dget dims p.1 = some p.2) :
    ArgOK P.mx (P.outInd.map (symOf P.mx names)) dums dims oc la
      (bwArg P.mx names k (inDims P.mx a cd) (la.lchunks.map List.length ++ la.cnb)) := by
  obtain ⟨_, hmx, _, _, _, _⟩ := plan_ok_fields sig args os allow P h
  have hn : nLoop a cd ≤ P.mx := by rw [hmx]; exact nLoop_le_mx sig args k a cd ha hc
  refine ⟨by omega, hchunks, ?_⟩
  intro o ho
  have := (gufunc_index_strings_spec sig args os allow P h names k a cd ha hc (la.lchunks.map List.length) la.cnb dums dims o
    (by simpa using hl) hcn hdn hge hcover hdims hcons ho).2
  rw [this, hl]

/-! ## 3. the error guards -/
/-! ### the error guards -/

theorem guards_nargs (sig : Sig ν) (args : List GArg) (os : List (ν × Nat)) (allow : Bool)
    (hwf : ∀ a ∈ args, a.wellFormed = true) (hn : sig.ins.length ≠ args.length) :
    plan sig args os allow = .error .nargs := by
  have h1 : args.any (fun a => !a.wellFormed) = false := by
    simp only [List.any_eq_false, Bool.not_eq_true, Bool.not_eq_false']
    exact hwf
  simp [plan, guards, h1, hn]

theorem guards_ndim (sig : Sig ν) (args : List GArg) (os : List (ν × Nat)) (allow : Bool)
    (hwf : ∀ a ∈ args, a.wellFormed = true) (hn : sig.ins.length = args.length)
    (k : Nat) (a : GArg) (cd : List ν) (ha : args[k]? = some a) (hc : sig.ins[k]? = some cd)
    (hlt : a.shape.length < cd.length) :
    plan sig args os allow = .error .ndim := by
  have h1 : args.any (fun a => !a.wellFormed) = false := by
    simp only [List.any_eq_false, Bool.not_eq_true, Bool.not_eq_false']
    exact hwf
  have h2 : (args.zip sig.ins).any (fun p => decide (p.1.shape.length < p.2.length)) = true := by
    simp only [List.any_eq_true, decide_eq_true_eq]
    refine ⟨(a, cd), ?_, hlt⟩
    apply List.mem_iff_getElem?.mpr
    exact ⟨k, by simp [List.getElem?_zip_eq_some, ha, hc]⟩
  simp [plan, guards, h1, hn, h2]

/-- the three checks in the order of the code -/
theorem checkDim_none_iff (allow : Bool) (cs : List (ν × Nat)) (P : List (Dim ν × Nat × List Nat)) (d : Dim ν) :
    checkDim allow cs P d = none ↔
      lengthsDiffer ((occOf P d).map (·.2.1)) = false ∧
      (allow = false → coreTooSmall cs d (occOf P d) = false ∧ chunksDiffer (occOf P d) = false) := by
  unfold checkDim
  simp only
  cases lengthsDiffer ((occOf P d).map (·.2.1)) <;> cases allow <;>
    cases coreTooSmall cs d (occOf P d) <;> cases chunksDiffer (occOf P d) <;> simp

theorem checkDim_coreMulti (cs : List (ν × Nat)) (P : List (Dim ν × Nat × List Nat)) (d : Dim ν)
    (h1 : lengthsDiffer ((occOf P d).map (·.2.1)) = false) (h2 : coreTooSmall cs d (occOf P d) = true) :
    checkDim false cs P d = some (.coreMulti d) := by
  simp [checkDim, h1, h2]

/-- a passing run has passed every check of every dimension -/
theorem plan_ok_checks (sig : Sig ν) (args : List GArg) (os : List (ν × Nat)) (allow : Bool) (P : Plan ν)
    (h : plan sig args os allow = .ok P) :
    (∀ a ∈ args, a.wellFormed = true) ∧ sig.ins.length = args.length ∧
    (∀ p ∈ args.zip sig.ins, p.2.length ≤ p.1.shape.length) ∧
    ∀ d ∈ dimKeys (occs P.mx sig.ins args), checkDim allow P.coreShapes (occs P.mx sig.ins args) d = none := by
  obtain ⟨hg, hmx, _, _, hcs, _⟩ := plan_ok_fields sig args os allow P h
  unfold guards at hg
  split at hg
  · cases hg
  · rename_i h1
    split at hg
    · cases hg
    · rename_i h2
      split at hg
      · cases hg
      · rename_i h3
        simp only at hg
        rw [← hmx, ← hcs] at hg
        refine ⟨?_, by simpa using h2, ?_, ?_⟩
        · intro a ha
          simp only [List.any_eq_true, Bool.not_eq_true', not_exists, not_and, Bool.not_eq_false] at h1
          exact h1 a ha
        · intro p hp
          simp only [List.any_eq_true, decide_eq_true_eq, not_exists, not_and, Nat.not_lt] at h3
          exact h3 p hp
        · intro d hd
          exact (List.findSome?_eq_none_iff.mp hg) d hd

/-- **the documented ValueError.** Without `allow_rechunk`, if (after the three earlier guards) some core dimension's first
    chunk in the first argument that has it is smaller than its size in `core_shapes`, `apply_gufunc` raises -/
theorem plan_raises_core_multichunk (sig : Sig ν) (args : List GArg) (os : List (ν × Nat)) (d : Dim ν)
    (hd : d ∈ dimKeys (occs (maxLoop ((args.zip sig.ins).map fun p => nLoop p.1 p.2)) sig.ins args))
    (hsmall : coreTooSmall (coreShapes sig.ins args os) d
      (occOf (occs (maxLoop ((args.zip sig.ins).map fun p => nLoop p.1 p.2)) sig.ins args) d) = true) :
    ∃ e, plan sig args os false = .error e := by
  cases hp : plan sig args os false with
  | error e => exact ⟨e, rfl⟩
  | ok P =>
    exfalso
    obtain ⟨_, hmx, _, _, hcs, _⟩ := plan_ok_fields sig args os false P hp
    obtain ⟨_, _, _, hall⟩ := plan_ok_checks sig args os false P hp
    rw [hmx, hcs] at hall
    have := (checkDim_none_iff false _ _ d).mp (hall d hd)
    rw [(this.2 rfl).1] at hsmall
    cases hsmall


omit [DecidableEq ν] in
/-- **loop chunks are aligned without any rechunking.** When the `chunksize` check passes, all arguments that have a
    dimension with length > 1 carry the same chunks along it -/
theorem chunks_aligned (occ : List (Dim ν × Nat × List Nat)) (h : chunksDiffer occ = false) :
    ∀ p ∈ occ, ∀ q ∈ occ, p.2.1 > 1 → q.2.1 > 1 → p.2.2 = q.2.2 := by
  intro p hp q hq h1 h2
  unfold chunksDiffer at h
  simp only [gt_iff_lt, decide_eq_false_iff_not, Nat.not_lt] at h
  apply eraseDups_le_one _ h
  · exact List.mem_map.mpr ⟨p, List.mem_filter.mpr ⟨hp, by simpa using h1⟩, rfl⟩
  · exact List.mem_map.mpr ⟨q, List.mem_filter.mpr ⟨hq, by simpa using h2⟩, rfl⟩

/-! ### output core dimensions -/

theorem outCore_ok (cs : List (ν × Nat)) : ∀ (o : List ν) (l : List Nat), outCore cs o = .ok l → o.map (fun n => cs.lookup n) = l.map some
  | [], l, h => by simp [outCore] at h; subst h; rfl
  | n :: r, l, h => by
    simp only [outCore] at h
    cases hl : cs.lookup n with
    | none => rw [hl] at h; cases h
    | some v =>
      rw [hl] at h
      cases hr : outCore cs r with
      | error e => rw [hr] at h; cases h
      | ok t =>
        rw [hr] at h
        injection h with h
        subst h
        simp [hl, outCore_ok cs r t hr]

/-- an output core dimension that neither an input nor `output_sizes` gives a size: KeyError -/
theorem outCore_missing (cs : List (ν × Nat)) : ∀ (o : List ν), (∃ n ∈ o, cs.lookup n = none) →
    ∃ n, outCore cs o = .error (.missingSize n) ∧ n ∈ o ∧ cs.lookup n = none
  | [], h => by obtain ⟨n, hn, _⟩ := h; simp at hn
  | m :: r, h => by
    cases hl : cs.lookup m with
    | none => exact ⟨m, by simp [outCore, hl], by simp, hl⟩
    | some v =>
      have : ∃ n ∈ r, cs.lookup n = none := by
        obtain ⟨n, hn, hnn⟩ := h
        rcases List.mem_cons.mp hn with rfl | hn
        · rw [hl] at hnn; cases hnn
        · exact ⟨n, hn, hnn⟩
      obtain ⟨n, hn1, hn2, hn3⟩ := outCore_missing cs r this
      exact ⟨n, by simp [outCore, hl, hn1], by simp [hn2], hn3⟩

end

/-! ## 4. the output layers -/

theorem leafKey_cons (i : Nat) (t : List Nat) (k : Nat) : leafKey (i :: t) k = i :: leafKey t k := rfl

theorem product_ones (k : Nat) : product (List.replicate k 1) = [List.replicate k 0] := by
  induction k with
  | zero => rfl
  | succ k ih => simp [List.replicate_succ, product, ih, List.range_succ]

/-- **leaf_keys_grid.** The keys of a leaf layer, `key[1:] + (0,)*len(ocd)` for every block key of the `blockwise` result,
    are exactly (and in order) the block grid of an array with chunks `loop chunks + one chunk per output core dimension` -/
theorem leaf_keys_grid (ns : List Nat) (k : Nat) :
    (product ns).map (fun key => leafKey key k) = product (ns ++ List.replicate k 1) := by
  induction ns with
  | nil => simp [product, leafKey, product_ones]
  | cons n r ih =>
    simp only [List.cons_append, product, List.map_flatMap, List.map_map, ← ih]
    rfl

theorem leaf_layer_spec (single : Bool) (i nc : Nat) (keys : List (List Nat)) (lk tk : List Nat) (g : Option Nat) :
    (lk, tk, g) ∈ leafLayer single i nc keys ↔
      tk ∈ keys ∧ lk = tk ++ List.replicate nc 0 ∧ g = (if single then none else some i) := by
  simp only [leafLayer, List.mem_map, leafKey, Prod.mk.injEq]
  constructor
  · rintro ⟨x, hx, rfl, rfl, rfl⟩
    exact ⟨hx, rfl, rfl⟩
  · rintro ⟨h1, rfl, rfl⟩
    exact ⟨tk, h1, rfl, rfl, rfl⟩

/-! ## 5. `_parse_gufunc_signature` -/

/-- **parse_render.** Every signature (names = non-empty words, at least one output) is recovered from its canonical
    text `(a,b),(c)->(d),()`: the automaton returns exactly the core-dimension names per input and per output -/
theorem parse_render (s : Sig (List Char)) (h : SigOK s) : parseSig (render s) = parseStripped (stripWs (render s)) ∧
    parseStripped (render s) = some s :=
  ⟨rfl, parseStripped_render s h⟩

/-- whitespace (Python's `\s`) anywhere in the text is irrelevant -/
theorem parseSig_ws (a b : List Char) (h : stripWs a = stripWs b) : parseSig a = parseSig b := by
  unfold parseSig; rw [h]

/-- malformed: a text without `>` is rejected (ValueError) -/
theorem parse_needs_arrow (cs : List Char) (h : '>' ∉ cs) : parseStripped cs = none := by
  unfold parseStripped
  cases hr : run {} cs with
  | none => rfl
  | some s =>
    simp only
    split
    · rename_i hacc
      rcases run_out cs {} s hr hacc.1 with h1 | h1
      · cases h1
      · exact absurd h1 h
    · rfl

/-- the one-output form is returned exactly when one output argument was read -/
theorem single_iff (s : Sig (List Char)) : s.single = true ↔ s.outs.length = 1 := by
  simp [Sig.single]

example : parseSig " ( i ) , (j,k) -> (i),()".toList = some ⟨[[['i']], [['j'], ['k']]], [[['i']], []]⟩ := by decide
example : parseSig "->()".toList = some ⟨[], [[]]⟩ := by decide
example : parseSig "(i,),->(i)".toList = some ⟨[[['i']]], [[['i']]]⟩ := by decide
example : parseSig "(i)->(),".toList = none ∧ parseSig "(i)(j)->()".toList = none ∧ parseSig "(i,,j)->()".toList = none
    ∧ parseSig "(i)->".toList = none ∧ parseSig "(i)->()->()".toList = none := by decide
example : SigOK ⟨[[['i']], [['j'], ['k', '1']]], [[['i']], []]⟩ := by
  have w : ∀ n ∈ [['i'], ['j'], ['k', '1']], WordOK n := by
    intro n hn
    simp only [List.mem_cons, List.not_mem_nil, or_false] at hn
    rcases hn with rfl | rfl | rfl <;> exact ⟨by simp, by decide⟩
  refine ⟨by simp, ?_, ?_⟩ <;> intro a ha n hn <;> apply w <;>
    simp only [List.mem_cons, List.not_mem_nil, or_false] at ha <;> rcases ha with rfl | rfl <;> simp_all

/-! ## non-vacuity -/

/-- `(i),(i)->()` on a `(4,3)` array chunked `((2,2),(3,))` and a `(3,)` vector: index strings `(L0, i)`, `(i)` → `(L0)` -/
example : (match plan (ν := Nat) ⟨[[7], [7]], [[]]⟩ [⟨[4, 3], [[2, 2], [3]]⟩, ⟨[3], [[3]]⟩] [] false with
    | .ok P => decide (P.outInd = [Dim.loop 0] ∧ P.inDims = [[Dim.loop 0, Dim.core 7], [Dim.core 7]] ∧ P.outCore = [[]])
    | .error _ => false) = true := by decide

/-- the core dimension in two chunks: the documented ValueError -/
example : plan (ν := Nat) ⟨[[7]], [[]]⟩ [⟨[4, 3], [[4], [2, 1]]⟩] [] false = .error (.coreMulti (.core 7)) := by rfl
example : (match plan (ν := Nat) ⟨[[7]], [[]]⟩ [⟨[4, 3], [[4], [2, 1]]⟩] [] true with | .ok _ => true | .error _ => false) = true := by
  decide
/-- loop chunks differ -/
example : plan (ν := Nat) ⟨[[7], [7]], [[]]⟩ [⟨[4, 3], [[1, 3], [3]]⟩, ⟨[4, 3], [[2, 2], [3]]⟩] [] false
    = .error (.chunksize (.loop 0)) := by rfl
/-- an output core dimension without a size -/
example : plan (ν := Nat) ⟨[[7]], [[8]]⟩ [⟨[3], [[3]]⟩] [] false = .error (.missingSize 8) := by rfl

/-- the K13 coordinates for the first example: block `1` of the loop dimension, the whole core dimension -/
example : argCoords [0] [1] [(0, 2), (1, 1)] true [1] (bwArg (ν := Nat) 1 [7] 0 [Dim.loop 0, Dim.core 7] [2, 1])
    = some [.one 1, .many [0]] := by decide

/-- `gufuncAt` on concrete data: `f` = the list of core slices itself -/
example : gufuncAt (σ := Nat) (fun vs => vs) 1 [0] [1] [(0, 2), (1, 1)] [[2, 2]]
    [(⟨[[2, 2]], [1], fun l => 10 * l.headD 0⟩, bwArg (ν := Nat) 1 [7] 0 [Dim.loop 0, Dim.core 7] [2, 1]),
     (⟨[], [1], fun _ => 5⟩, bwArg (ν := Nat) 1 [7] 1 [Dim.core 7] [1])] [3] = some [30, 5] := by decide

end Dask.C35x
