import DaskModel.Lemmas.Blockwise
import DaskModel.Lemmas.Annot
import DaskModel.Lemmas.HLG
import DaskModel.Model.HLG
import DaskModel.Model.Rewrite
import DaskModel.Model.Annot
import DaskModel.Generated.FuseRules
/-! # C10 — high-level graph culling and blockwise fusion (theorems)

Statement (properties.jsonl): culling a high-level graph to any set of keys keeps everything needed to compute them
with unchanged values; a blockwise layer's culled dependencies equal the dependencies of its materialised tasks;
blockwise fusion computes the same values; fused annotations never loosen a constraint.

Proved here (for all inputs, no size bound):
* `coordmap_spec`            — `_get_coord_mapping`'s position arithmetic means what its docstring says, for EVERY
                               enumeration of the dummy-index set (Python set order is unspecified);
* `cull_deps_eq_materialised`— `_cull_dependencies` = dependencies of the task `_make_blockwise_graph` emits (as sets);
* `hlg_cull_sound`           — the layer loop of `HighLevelGraph.cull` (with its quirks) is sound;
* `fuse_annotations_tighten` — over the rule table extracted from the source.
Validated only (see `harness/props/c10.py`): `rewrite_blockwise` / `optimize_blockwise` (fusion) value equality.
-/
namespace Dask.C10
open Dask.Blockwise

/-! ## 1. the coordinate map -/

/-- Well-formedness of one `_get_coord_mapping` call: `dums` is an enumeration of the dummy-index *set*
    (`all_indices - set(out_indices)`), output indices are not repeated, `dims` knows every dummy index. -/
structure WF (out dums : List Sym) (dims : List (Sym × Nat)) (o : List Nat) (a : Arg) : Prop where
  out_nodup : out.Nodup
  dums_nodup : dums.Nodup
  disjoint : ∀ s ∈ dums, s ∉ out
  cover : ∀ s ∈ a.ind, s ∈ out ∨ s ∈ dums
  olen : o.length = out.length
  dims_ok : ∀ s ∈ dums, ∃ d, dget dims s = some d

/-- `dummies` is the flattened list of pairs followed by `0` -/
theorem dummiesTuple_eq (dims : List (Sym × Nat)) (conc : Bool) (dums : List Sym)
    (h : ∀ s ∈ dums, ∃ d, dget dims s = some d) :
    dummiesTuple dims conc dums = some ((dums.map fun s =>
      [Coord.many (List.range ((dget dims s).getD 0)),
       Coord.many (List.replicate (if conc then 1 else (dget dims s).getD 0) 0)]).flatten ++ [Coord.one 0]) := by
  unfold dummiesTuple
  rw [traverse_some_map (g := fun s =>
      [Coord.many (List.range ((dget dims s).getD 0)),
       Coord.many (List.replicate (if conc then 1 else (dget dims s).getD 0) 0)])]
  · rfl
  · intro s hs
    obtain ⟨d, hd⟩ := h s hs
    simp [dummyPair, hd]

/-- One coordinate: looking the symbol up in `zero_pos` / `index_pos` and indexing `out_coords + dummies` at that
    position yields exactly the specified coordinate. -/
theorem coord_spec (out dums : List Sym) (dims : List (Sym × Nat)) (conc : Bool) (o : List Nat)
    (hout : out.Nodup) (hdn : dums.Nodup) (hdisj : ∀ s ∈ dums, s ∉ out) (holen : o.length = out.length)
    (hdims : ∀ s ∈ dums, ∃ d, dget dims s = some d)
    (dm : List Coord) (hdm : dummiesTuple dims conc dums = some dm)
    (p : Sym × Nat) (hp : p.1 ∈ out ∨ p.1 ∈ dums) :
    ((if p.2 == 1 then dget (posMaps out dums).2 p.1 else dget (posMaps out dums).1 p.1).bind
        (pyGet (o.map Coord.one ++ dm))) = specCoord out dims conc o p := by
  rw [dummiesTuple_eq dims conc dums hdims] at hdm
  injection hdm with hdm
  subst hdm
  obtain ⟨s, nb⟩ := p
  simp only at hp ⊢
  rcases hp with hs | hs
  · -- an output index
    have hnd : s ∉ dums := fun h => hdisj s h hs
    have hpm := posMaps_out out dums s hout hs hnd
    unfold specCoord
    simp only [hs, if_true]
    by_cases hnb : nb = 1
    · subst hnb
      simp only [beq_self_eq_true, if_true, hpm.2, Option.bind_some]
      rw [← List.append_assoc]
      exact pyGet_neg_one _ _
    · have : (nb == 1) = false := by simp [hnb]
      simp only [this, hpm.1, Option.bind_some, hnb, if_false, Bool.false_eq_true]
      rw [pyGet_nat]
      have hlt : out.idxOf s < (o.map Coord.one).length := by
        simp [holen]; exact List.idxOf_lt_length_of_mem hs
      rw [List.getElem?_append_left hlt]
      simp
  · -- a dummy index
    have hno : s ∉ out := hdisj s hs
    have hpm := posMaps_dummy out dums s hdn hs
    obtain ⟨d, hd⟩ := hdims s hs
    unfold specCoord
    simp only [hno, if_false, hd, Option.map_some]
    have hidx : dums[dums.idxOf s]? = some s := by
      have hlt := List.idxOf_lt_length_of_mem hs
      rw [List.getElem?_eq_getElem hlt, List.getElem_idxOf hlt]
    have hlen : (o.map Coord.one).length = out.length := by simp [holen]
    have hfl := flatten_pairs_getElem? dums
      (fun s => Coord.many (List.range ((dget dims s).getD 0)))
      (fun s => Coord.many (List.replicate (if conc then 1 else (dget dims s).getD 0) 0)) (dums.idxOf s)
    by_cases hnb : nb = 1
    · subst hnb
      simp only [beq_self_eq_true, if_true, hpm.2, Option.bind_some]
      rw [pyGet_nat, List.getElem?_append_right (by rw [hlen]; omega)]
      have : 2 * dums.idxOf s + 1 + out.length - (o.map Coord.one).length = 2 * dums.idxOf s + 1 := by rw [hlen]; omega
      rw [this]
      have hlt2 : 2 * dums.idxOf s + 1 < ((dums.map fun s =>
          [Coord.many (List.range ((dget dims s).getD 0)),
           Coord.many (List.replicate (if conc then 1 else (dget dims s).getD 0) 0)]).flatten).length := by
        have := hfl.2
        rw [hidx] at this
        exact (List.getElem?_eq_some_iff.mp this).1
      rw [List.getElem?_append_left hlt2, hfl.2, hidx]
      simp [hd]
    · have hb : (nb == 1) = false := by simp [hnb]
      simp only [hb, hpm.1, Option.bind_some, hnb, if_false, Bool.false_eq_true]
      rw [pyGet_nat, List.getElem?_append_right (by rw [hlen]; omega)]
      have : 2 * dums.idxOf s + out.length - (o.map Coord.one).length = 2 * dums.idxOf s := by rw [hlen]; omega
      rw [this]
      have hlt2 : 2 * dums.idxOf s < ((dums.map fun s =>
          [Coord.many (List.range ((dget dims s).getD 0)),
           Coord.many (List.replicate (if conc then 1 else (dget dims s).getD 0) 0)]).flatten).length := by
        have := hfl.1
        rw [hidx] at this
        exact (List.getElem?_eq_some_iff.mp this).1
      rw [List.getElem?_append_left hlt2, hfl.1, hidx]
      simp [hd]

/-- **coordmap_spec.** For every enumeration `dums` of the dummy-index set, every output block `o` and every
    argument, the coordinates `_get_coord_mapping` + `coords[c]` deliver are:
    the output coordinate for an output index held in more than one block, `0` where the argument has one block,
    the whole `range(dims[s])` for a contracted index, and `[0] * (1 if concatenate else dims[s])` for a contracted
    index along which the argument has a single block. In particular the result does not depend on `dums`. -/
theorem coordmap_spec (out dums : List Sym) (dims : List (Sym × Nat)) (conc : Bool) (o : List Nat) (a : Arg)
    (wf : WF out dums dims o a) :
    argCoords out dums dims conc o a = argCoordsSpec out dims conc o a := by
  unfold argCoords argCoordsSpec
  have hdm := dummiesTuple_eq dims conc dums wf.dims_ok
  rw [hdm]
  simp only [Option.bind_eq_bind, Option.bind_some]
  unfold coordMap
  have := traverse_bind (fun (p : Sym × Nat) => if p.2 == 1 then dget (posMaps out dums).2 p.1 else dget (posMaps out dums).1 p.1)
    (pyGet (o.map Coord.one ++ ((dums.map fun s =>
      [Coord.many (List.range ((dget dims s).getD 0)),
       Coord.many (List.replicate (if conc then 1 else (dget dims s).getD 0) 0)]).flatten ++ [Coord.one 0])))
    (a.ind.zip a.nb)
  rw [this]
  apply traverse_congr
  intro p hp
  have hmem : p.1 ∈ a.ind := (List.of_mem_zip hp).1
  exact coord_spec out dums dims conc o wf.out_nodup wf.dums_nodup wf.disjoint wf.olen wf.dims_ok _ hdm p (wf.cover _ hmem)

/-- The coordinates do not depend on the iteration order of the Python set `dummy_indices`. -/
theorem coordmap_order_independent (out d1 d2 : List Sym) (dims : List (Sym × Nat)) (conc : Bool) (o : List Nat) (a : Arg)
    (w1 : WF out d1 dims o a) (w2 : WF out d2 dims o a) :
    argCoords out d1 dims conc o a = argCoords out d2 dims conc o a := by
  rw [coordmap_spec _ _ _ _ _ _ w1, coordmap_spec _ _ _ _ _ _ w2]

/-- non-vacuity: `z_i = f(x_ij, y_j)` with `y` held in one block along the contracted `j` (3 blocks) -/
example : WF [0] [1] [(0, 2), (1, 3)] [1] { name := 1, ind := [0, 1], nb := [2, 3] } :=
  ⟨by decide, by decide, by decide, by decide, rfl, by intro s hs; simp at hs; subst hs; exact ⟨3, rfl⟩⟩
example : argCoords [0] [1] [(0, 2), (1, 3)] false [1] { name := 2, ind := [1, 0], nb := [1, 1] }
    = some [.many [0, 0, 0], .one 0] := by decide

/-! ## 2. culled dependencies = dependencies of the materialised task -/

theorem depsList_eq_flatten (ts : List Term) : Term.depsList ts = (ts.map Term.deps).flatten := by
  induction ts with
  | nil => rfl
  | cons t r ih => simp [Term.depsList, ih]

theorem flattenList_eq_flatten (ls : List LoL) : LoL.flattenList ls = (ls.map LoL.flatten).flatten := by
  induction ls with
  | nil => rfl
  | cons t r ih => simp [LoL.flattenList, ih]

/-- `_lol_product(..., as_taskref=True).dependencies` lists the keys of `flatten(_lol_product(...))` -/
theorem lolTerm_deps (head : Key) (cs : List Coord) : (lolTerm head cs).deps = (lolProduct head cs).flatten := by
  induction cs generalizing head with
  | nil => simp [lolTerm, lolProduct, Term.deps, LoL.flatten]
  | cons c rest ih =>
    cases c with
    | one v => simp [lolTerm, lolProduct, ih]
    | many vs =>
      simp only [lolTerm, lolProduct, Term.deps, LoL.flatten, depsList_eq_flatten, flattenList_eq_flatten,
        List.map_map]
      congr 1
      apply List.map_congr_left
      intro x _
      simp [ih]

/-- the nested list of `_lol_product` flattens to the plain cartesian product -/
theorem lolProduct_flatten (head : Key) (cs : List Coord) : (lolProduct head cs).flatten = keysOf head cs := by
  induction cs generalizing head with
  | nil => simp [lolProduct, keysOf, LoL.flatten]
  | cons c rest ih =>
    cases c with
    | one v => simp [lolProduct, keysOf, ih]
    | many vs =>
      simp only [lolProduct, keysOf, LoL.flatten, flattenList_eq_flatten, List.map_map, List.flatMap]
      congr 1
      apply List.map_congr_left
      intro x _
      simp [ih]

/-- per argument: the sub-term `_make_blockwise_graph` substitutes depends on exactly the keys
    `_cull_dependencies` collects (both fail together when a list would end up inside a key tuple) -/
theorem argTerm_deps (dums : List Sym) (conc : Bool) (a : Arg) (cs : List Coord) :
    (argTerm dums conc a cs).map Term.deps = argDeps dums a cs := by
  unfold argTerm argDeps
  by_cases hio : a.io
  · simp [hio, Term.deps]
  · simp only [hio, Bool.false_eq_true, if_false]
    by_cases hax : (concatAxes dums a).isEmpty
    · simp only [hax, if_true]
      cases plainKey a.name cs <;> simp [Term.deps]
    · simp only [hax, Bool.false_eq_true, if_false]
      cases conc <;> simp [Term.deps, lolTerm_deps]

theorem traverse_map_comp {α β γ : Type} (g : α → Option β) (f : α → Option γ) (φ : β → γ)
    (h : ∀ a, (g a).map φ = f a) (l : List α) : (traverse g l).map (List.map φ) = traverse f l := by
  induction l with
  | nil => rfl
  | cons a r ih =>
    have ha := h a
    cases hga : g a with
    | none => rw [hga] at ha; simp [traverse, hga, ← ha]
    | some b =>
      rw [hga] at ha
      cases hgr : traverse g r with
      | none => rw [hgr] at ih; simp [traverse, hga, hgr, ← ha, ← ih]
      | some bs => rw [hgr] at ih; simp [traverse, hga, hgr, ← ha, ← ih]

/-- **cull_deps_eq_materialised.** For every layer, every enumeration of the dummy indices and every output block:
    `Blockwise._cull_dependencies` succeeds exactly when `_make_blockwise_graph` does, and then lists exactly the
    dependencies of the emitted task (even in the same order; Python compares them as sets). -/
theorem cull_deps_eq_materialised (L : Layer) (dums : List Sym) (o : List Nat) :
    (mkTaskWith L dums o).map Term.depsList = cullDepsWith L dums o := by
  unfold mkTaskWith cullDepsWith
  cases makeDims L.args L.newAxes with
  | none => rfl
  | some dims =>
    simp only [Option.bind_eq_bind, Option.bind_some]
    have hpt : ∀ a : Arg,
        ((argCoords L.outInd dums dims L.concatenate o a).bind (argTerm dums L.concatenate a)).map Term.deps
          = (argCoords L.outInd dums dims L.concatenate o a).bind (argDeps dums a) := by
      intro a
      cases argCoords L.outInd dums dims L.concatenate o a with
      | none => rfl
      | some cs => simpa using argTerm_deps dums L.concatenate a cs
    have := traverse_map_comp _ _ Term.deps hpt L.args
    rw [← this]
    cases traverse (fun a => (argCoords L.outInd dums dims L.concatenate o a).bind (argTerm dums L.concatenate a)) L.args with
    | none => rfl
    | some ts =>
      simp only [Option.map_some, Option.bind_some, Option.pure_def]
      congr 1
      rw [depsList_eq_flatten]
      simp only [List.map_append, List.flatten_append, List.map_map]
      congr 1
      induction L.consts with
      | nil => rfl
      | cons c r ih => simp [Term.deps, ih]

/-- corollary in the form of the statement: same key *sets*, for the enumeration the model's driver uses -/
theorem cull_deps_mem_iff (L : Layer) (o : List Nat) (ks : List Key) (ts : List Term)
    (hk : cullDeps L o = some ks) (ht : mkTask L o = some ts) (k : Key) : k ∈ ks ↔ k ∈ Term.depsList ts := by
  have := cull_deps_eq_materialised L (dummyIndices L.outInd L.args) o
  unfold cullDeps at hk
  unfold mkTask at ht
  rw [hk, ht] at this
  simp at this
  rw [this]

/-- non-vacuity: a contraction with `concatenate=True`, a broadcast argument and a constant -/
example : cullDeps { output := 9, outInd := [0], args := [{ name := 1, ind := [0, 1], nb := [2, 3] }, { name := 2, ind := [1, 0], nb := [1, 1] }],
                     consts := [(5, [0])], concatenate := true } [1]
    = some [(1, [1, 0]), (1, [1, 1]), (1, [1, 2]), (2, [0, 0]), (5, [0])] := by decide

/-! ## 2b. `HighLevelGraph.cull` -/
section HLGCull
open Dask.HLG

def allTasks (ls : List LayerIn) : List HLG.Task := ls.flatMap (·.tasks)

/-- Well-formedness of the layer list as `HighLevelGraph.cull` walks it (outputs first): every layer is
    dependents-first, layers have pairwise disjoint keys, no task of a deeper layer depends on a key of a layer
    walked earlier (the list is a reversed topological order of the layer dependency graph). -/
def TopoH : List LayerIn → Prop
  | [] => True
  | l :: r => TopoL l.tasks ∧ (∀ k ∈ HLG.keysOf l.tasks, k ∉ HLG.keysOf (allTasks r)) ∧
      (∀ t ∈ allTasks r, ∀ x ∈ t.2, x ∉ HLG.keysOf l.tasks) ∧ TopoH r

theorem allTasks_append (a b : List LayerIn) : allTasks (a ++ b) = allTasks a ++ allTasks b := by
  simp [allTasks]

theorem allTasks_cons (l : LayerIn) (r : List LayerIn) : allTasks (l :: r) = l.tasks ++ allTasks r := by
  simp [allTasks]

/-- what the culled graph must contain: requested keys and dependencies of kept tasks -/
def Need (keys0 : List K) (ret : List (List HLG.Task)) (x : K) : Prop := x ∈ keys0 ∨ ∃ t ∈ ret.flatten, x ∈ t.2

/-- loop invariant of `HighLevelGraph.cull`, for the layers `pre` already walked and `rest` still to walk -/
def Inv (keys0 : List K) (pre rest : List LayerIn) (st : List K × List (List HLG.Task)) : Prop :=
  (∀ t ∈ st.2.flatten, t ∈ allTasks pre) ∧
  (∀ x, Need keys0 st.2 x → x ∈ HLG.keysOf (allTasks (pre ++ rest)) →
      x ∈ HLG.keysOf st.2.flatten ∨ (x ∈ HLG.keysOf (allTasks rest) ∧ (x ∈ st.1 ∨ st.1 = [])))

theorem mem_keysOf_append {a b : List HLG.Task} {x : K} : x ∈ HLG.keysOf (a ++ b) ↔ x ∈ HLG.keysOf a ∨ x ∈ HLG.keysOf b := by
  simp [HLG.keysOf]

theorem inv_step (keys0 : List K) (pre : List LayerIn) (l : LayerIn) (r : List LayerIn) (st : List K × List (List HLG.Task))
    (hT : TopoH (l :: r))
    (hdep : ∀ t ∈ allTasks (l :: r), ∀ x ∈ t.2, x ∉ HLG.keysOf (allTasks pre))
    (hinv : Inv keys0 pre (l :: r) st) : Inv keys0 (pre ++ [l]) r (cullStep st l) := by
  obtain ⟨ks, ret⟩ := st
  obtain ⟨hTl, hdisj, hlater, _⟩ := hT
  obtain ⟨hsub, hneed⟩ := hinv
  have hall : allTasks (pre ++ [l] ++ r) = allTasks (pre ++ l :: r) := by simp
  have hpre1 : allTasks (pre ++ [l]) = allTasks pre ++ l.tasks := by simp [allTasks]
  -- facts about a dependency x of a task of layer l that is a key of the graph
  have hdepl : ∀ t ∈ l.tasks, ∀ x ∈ t.2, x ∈ HLG.keysOf (allTasks (pre ++ l :: r)) →
      x ∈ HLG.keysOf l.tasks ∨ x ∈ HLG.keysOf (allTasks r) := by
    intro t ht x hx hxg
    rw [allTasks_append, allTasks_cons] at hxg
    rcases mem_keysOf_append.mp hxg with h | h
    · exact absurd h (hdep t (by rw [allTasks_cons]; exact List.mem_append_left _ ht) x hx)
    · exact mem_keysOf_append.mp h
  unfold cullStep
  simp only
  by_cases hemp : ks.isEmpty
  · -- `if keys_set:` is false: the layer is kept whole
    simp only [hemp, if_true]
    have hks : ks = [] := by simpa using hemp
    refine ⟨?_, ?_⟩
    · intro t ht
      simp only [List.flatten_append, List.flatten_cons, List.flatten_nil, List.append_nil, List.mem_append] at ht
      rw [hpre1]
      rcases ht with ht | ht
      · exact List.mem_append_left _ (hsub t ht)
      · exact List.mem_append_right _ ht
    · intro x hx hxg
      rw [hall] at hxg
      simp only [List.flatten_append, List.flatten_cons, List.flatten_nil, List.append_nil]
      have hcase : x ∈ HLG.keysOf ret.flatten ∨ x ∈ HLG.keysOf l.tasks ∨ x ∈ HLG.keysOf (allTasks r) := by
        rcases hx with hx | ⟨t, ht, hxt⟩
        · rcases hneed x (Or.inl hx) hxg with h | ⟨h, _⟩
          · exact Or.inl h
          · rw [allTasks_cons] at h
            exact Or.inr (mem_keysOf_append.mp h)
        · simp only [List.flatten_append, List.flatten_cons, List.flatten_nil, List.append_nil, List.mem_append] at ht
          rcases ht with ht | ht
          · rcases hneed x (Or.inr ⟨t, ht, hxt⟩) hxg with h | ⟨h, _⟩
            · exact Or.inl h
            · rw [allTasks_cons] at h
              exact Or.inr (mem_keysOf_append.mp h)
          · exact Or.inr (hdepl t ht x hxt hxg)
      rcases hcase with h | h | h
      · exact Or.inl (mem_keysOf_append.mpr (Or.inl h))
      · exact Or.inl (mem_keysOf_append.mpr (Or.inr h))
      · exact Or.inr ⟨h, Or.inr hks⟩
  · simp only [hemp, Bool.false_eq_true, if_false]
    have hksne : ks ≠ [] := by simpa using hemp
    by_cases hkept : (cullLayer l.shortcut l.tasks ks).isEmpty
    · -- `if not culled_deps: continue`
      simp only [hkept, if_true]
      have hk0 : cullLayer l.shortcut l.tasks ks = [] := by simpa using hkept
      refine ⟨?_, ?_⟩
      · intro t ht
        rw [hpre1]
        exact List.mem_append_left _ (hsub t ht)
      · intro x hx hxg
        rw [hall] at hxg
        rcases hneed x hx hxg with h | ⟨h, hk⟩
        · exact Or.inl h
        · rw [allTasks_cons] at h
          rcases mem_keysOf_append.mp h with h | h
          · -- a requested key of this layer would have been kept
            rcases hk with hk | hk
            · have := cullLayer_keeps l.shortcut l.tasks ks x hk h
              rw [hk0] at this
              simp [HLG.keysOf] at this
            · exact absurd hk hksne
          · exact Or.inr ⟨h, hk⟩
    · simp only [hkept, Bool.false_eq_true, if_false]
      have hkeptsub := cullLayer_sub l.shortcut l.tasks ks
      have hnd : (HLG.keysOf (cullLayer l.shortcut l.tasks ks)).Nodup :=
        nodup_sublist_keys _ _ (cullLayer_sublist _ _ _) (topoL_nodup _ hTl)
      refine ⟨?_, ?_⟩
      · intro t ht
        simp only [List.flatten_append, List.flatten_cons, List.flatten_nil, List.append_nil, List.mem_append] at ht
        rw [hpre1]
        rcases ht with ht | ht
        · exact List.mem_append_left _ (hsub t ht)
        · exact List.mem_append_right _ (hkeptsub t ht)
      · intro x hx hxg
        rw [hall] at hxg
        simp only [List.flatten_append, List.flatten_cons, List.flatten_nil, List.append_nil]
        -- keys of deeper layers survive the update of keys_set
        have hupd : ∀ y, y ∈ HLG.keysOf (allTasks r) →
            (y ∈ ks ∨ ∃ t ∈ cullLayer l.shortcut l.tasks ks, y ∈ t.2) →
            y ∈ updKeys ks (reorder l.ord (cullLayer l.shortcut l.tasks ks)) := by
          intro y hy hsrc
          apply updKeys_keeps
          · rcases hsrc with h | ⟨t, ht, hyt⟩
            · exact Or.inl h
            · exact Or.inr ⟨t, reorder_sup _ _ hnd t ht, hyt⟩
          · intro hmem
            obtain ⟨t, ht, hty⟩ := List.mem_map.mp hmem
            have htl : t ∈ l.tasks := hkeptsub t (reorder_sub _ _ t ht)
            exact hdisj y (hty ▸ mem_keysOf htl) hy
        rcases hx with hx | ⟨t, ht, hxt⟩
        · rcases hneed x (Or.inl hx) hxg with h | ⟨h, hk⟩
          · exact Or.inl (mem_keysOf_append.mpr (Or.inl h))
          · rcases hk with hk | hk
            · rw [allTasks_cons] at h
              rcases mem_keysOf_append.mp h with h | h
              · exact Or.inl (mem_keysOf_append.mpr (Or.inr (cullLayer_keeps _ _ _ x hk h)))
              · exact Or.inr ⟨h, Or.inl (hupd x h (Or.inl hk))⟩
            · exact absurd hk hksne
        · simp only [List.flatten_append, List.flatten_cons, List.flatten_nil, List.append_nil, List.mem_append] at ht
          rcases ht with ht | ht
          · rcases hneed x (Or.inr ⟨t, ht, hxt⟩) hxg with h | ⟨h, hk⟩
            · exact Or.inl (mem_keysOf_append.mpr (Or.inl h))
            · rcases hk with hk | hk
              · rw [allTasks_cons] at h
                rcases mem_keysOf_append.mp h with h | h
                · exact Or.inl (mem_keysOf_append.mpr (Or.inr (cullLayer_keeps _ _ _ x hk h)))
                · exact Or.inr ⟨h, Or.inl (hupd x h (Or.inl hk))⟩
              · exact absurd hk hksne
          · rcases hdepl t (hkeptsub t ht) x hxt hxg with h | h
            · exact Or.inl (mem_keysOf_append.mpr (Or.inr (cullLayer_closed _ _ _ hTl t ht x hxt h)))
            · exact Or.inr ⟨h, Or.inl (hupd x h (Or.inr ⟨t, ht, hxt⟩))⟩

theorem inv_loop (keys0 : List K) (pre rest : List LayerIn) (st : List K × List (List HLG.Task))
    (hT : TopoH rest)
    (hdep : ∀ t ∈ allTasks rest, ∀ x ∈ t.2, x ∉ HLG.keysOf (allTasks pre))
    (hinv : Inv keys0 pre rest st) : Inv keys0 (pre ++ rest) [] (rest.foldl cullStep st) := by
  induction rest generalizing pre st with
  | nil => simpa using hinv
  | cons l r ih =>
    simp only [List.foldl_cons]
    have h1 := inv_step keys0 pre l r st hT hdep hinv
    have hT' : TopoH r := hT.2.2.2
    have hdep' : ∀ t ∈ allTasks r, ∀ x ∈ t.2, x ∉ HLG.keysOf (allTasks (pre ++ [l])) := by
      intro t ht x hx hmem
      have : allTasks (pre ++ [l]) = allTasks pre ++ l.tasks := by simp [allTasks]
      rw [this] at hmem
      rcases mem_keysOf_append.mp hmem with h | h
      · exact hdep t (by rw [allTasks_cons]; exact List.mem_append_right _ ht) x hx h
      · exact hT.2.2.1 t ht x hx h
    have := ih (pre ++ [l]) (cullStep st l) hT' hdep' h1
    simpa using this

/-- **hlg_cull_sound.** For a well-formed layer list (reversed topological order, disjoint keys) and ANY iteration
    orders of the `culled_deps` dicts, the graph returned by `HighLevelGraph.cull(keys)`
    (a) contains only tasks of the original graph, unchanged;
    (b) contains every requested key that the graph has;
    (c) is closed: every dependency of a kept task that is a key of the graph is kept. -/
theorem hlg_cull_sound (layers : List LayerIn) (keys : List K) (hT : TopoH layers) :
    (∀ t ∈ (HLG.cull layers keys).flatten, t ∈ allTasks layers) ∧
    (∀ k ∈ keys, k ∈ HLG.keysOf (allTasks layers) → k ∈ HLG.keysOf (HLG.cull layers keys).flatten) ∧
    (∀ t ∈ (HLG.cull layers keys).flatten, ∀ x ∈ t.2, x ∈ HLG.keysOf (allTasks layers) →
        x ∈ HLG.keysOf (HLG.cull layers keys).flatten) := by
  have h0 : Inv keys [] layers (keys, []) := by
    refine ⟨by simp, ?_⟩
    intro x hx hxg
    right
    rcases hx with hx | ⟨t, ht, _⟩
    · exact ⟨by simpa using hxg, Or.inl hx⟩
    · simp at ht
  have h := inv_loop keys [] layers (keys, []) hT (by simp [allTasks, HLG.keysOf]) h0
  simp only [List.nil_append] at h
  obtain ⟨hsub, hneed⟩ := h
  unfold HLG.cull
  refine ⟨hsub, ?_, ?_⟩
  · intro k hk hkg
    rcases hneed k (Or.inl hk) (by simpa using hkg) with h | ⟨h, _⟩
    · exact h
    · simp [allTasks, HLG.keysOf] at h
  · intro t ht x hx hxg
    rcases hneed x (Or.inr ⟨t, ht, hx⟩) (by simpa using hxg) with h | ⟨h, _⟩
    · exact h
    · simp [allTasks, HLG.keysOf] at h

/-- Consequence: requested keys evaluate to the same value tree in the culled graph (tasks are looked up by key;
    the original graph has distinct keys). -/
theorem lookupTask_of_mem (g : List HLG.Task) (hnd : (HLG.keysOf g).Nodup) (t : HLG.Task) (ht : t ∈ g) :
    lookupTask g t.1 = some t.2 := by
  induction g with
  | nil => simp at ht
  | cons a r ih =>
    simp only [HLG.keysOf, List.map_cons, List.nodup_cons] at hnd
    obtain ⟨k, d⟩ := a
    by_cases hk : k = t.1
    · rcases List.mem_cons.mp ht with h | h
      · subst h; simp [lookupTask]
      · exfalso; apply hnd.1; show k ∈ HLG.keysOf r; rw [hk]; exact mem_keysOf h
    · rcases List.mem_cons.mp ht with h | h
      · subst h; simp at hk
      · simp only [lookupTask, hk, if_false]
        exact ih hnd.2 h

theorem lookupTask_none_of_not_mem (g : List HLG.Task) (k : K) (h : k ∉ HLG.keysOf g) : lookupTask g k = none := by
  induction g with
  | nil => rfl
  | cons a r ih =>
    obtain ⟨k0, d⟩ := a
    simp only [HLG.keysOf, List.map_cons, List.mem_cons, not_or] at h
    simp only [lookupTask, Ne.symm h.1, if_false]
    exact ih h.2

theorem lookupTask_some_mem (g : List HLG.Task) (k : K) (h : k ∈ HLG.keysOf g) : ∃ d, lookupTask g k = some d ∧ (k, d) ∈ g := by
  induction g with
  | nil => simp [HLG.keysOf] at h
  | cons a r ih =>
    obtain ⟨k0, d⟩ := a
    by_cases hk : k0 = k
    · subst hk
      exact ⟨d, by simp [lookupTask], by simp⟩
    · simp only [HLG.keysOf, List.map_cons, List.mem_cons] at h
      rcases h with h | h
      · exact absurd h.symm hk
      · obtain ⟨d', h1, h2⟩ := ih h
        exact ⟨d', by simp [lookupTask, hk, h1], by simp [h2]⟩

theorem eval_missing (g : List HLG.Task) (fuel : Nat) (k : K) (h : k ∉ HLG.keysOf g) : HLG.eval g fuel k = .missing k := by
  cases fuel with
  | zero => rfl
  | succ n => simp [HLG.eval, lookupTask_none_of_not_mem g k h]

/-- a sub-graph that is closed under dependencies evaluates its keys like the whole graph -/
theorem eval_eq_of_closed (R G : List HLG.Task) (hsub : ∀ t ∈ R, t ∈ G) (hG : (HLG.keysOf G).Nodup)
    (hcl : ∀ t ∈ R, ∀ x ∈ t.2, x ∈ HLG.keysOf G → x ∈ HLG.keysOf R) :
    ∀ fuel k, k ∈ HLG.keysOf R → HLG.eval R fuel k = HLG.eval G fuel k := by
  intro fuel
  induction fuel with
  | zero => intro k _; rfl
  | succ n ih =>
    intro k hk
    obtain ⟨d, hl, hm⟩ := lookupTask_some_mem R k hk
    have hlg : lookupTask G k = some d := lookupTask_of_mem G hG (k, d) (hsub _ hm)
    simp only [HLG.eval, hl, hlg]
    congr 1
    apply List.map_congr_left
    intro x hx
    by_cases hxg : x ∈ HLG.keysOf G
    · exact ih x (hcl (k, d) hm x hx hxg)
    · have hxr : x ∉ HLG.keysOf R := by
        intro h
        obtain ⟨t, ht, hte⟩ := List.mem_map.mp h
        exact hxg (hte ▸ mem_keysOf (hsub t ht))
      rw [eval_missing R n x hxr, eval_missing G n x hxg]

/-- **Values unchanged.** Every key of the culled graph — in particular every requested key — denotes, in the culled
    graph, the same value tree as in the original graph (for every evaluation depth). -/
theorem hlg_cull_values (layers : List LayerIn) (keys : List K) (hT : TopoH layers)
    (hnd : (HLG.keysOf (allTasks layers)).Nodup) (fuel : Nat) (k : K)
    (hk : k ∈ HLG.keysOf (HLG.cull layers keys).flatten) :
    HLG.eval (HLG.cull layers keys).flatten fuel k = HLG.eval (allTasks layers) fuel k := by
  obtain ⟨h1, _, h3⟩ := hlg_cull_sound layers keys hT
  exact eval_eq_of_closed _ _ h1 hnd h3 fuel k hk

/-- non-vacuity + the `keys_set` quirk: with the dict order `[2, 1]` the leftover key keeps `keys_set` non-empty and
    the unrelated layer is dropped; with `[1, 2]` `keys_set` empties and the unrelated layer is kept whole. Both sound. -/
example : HLG.cull [⟨true, [(3, [2, 1])], [3]⟩, ⟨true, [(2, [1]), (1, [])], [1, 2]⟩, ⟨true, [(9, []), (8, [])], []⟩] [3]
    = [[(3, [2, 1])], [(2, [1]), (1, [])]] := by decide
example : HLG.cull [⟨true, [(3, [2, 1])], [3]⟩, ⟨true, [(2, [1]), (1, [])], [2, 1]⟩, ⟨true, [(9, []), (8, [])], []⟩] [3]
    = [[(3, [2, 1])], [(2, [1]), (1, [])], [(9, []), (8, [])]] := by decide
example : TopoH [⟨true, [(3, [2, 1])], [3]⟩, ⟨true, [(2, [1]), (1, [])], [2, 1]⟩, ⟨true, [(9, []), (8, [])], []⟩] := by
  simp [TopoH, TopoL, allTasks, HLG.keysOf]

end HLGCull

/-! ## 2b'. `rewrite_blockwise`: the index substitution composes block coordinates -/

theorem traverse_getElem? {α β : Type} (f : α → Option β) (l : List α) (r : List β) (h : traverse f l = some r)
    (j : Nat) (a : α) (ha : l[j]? = some a) : ∃ b, f a = some b ∧ r[j]? = some b := by
  induction l generalizing r j with
  | nil => simp at ha
  | cons x t ih =>
    simp only [traverse] at h
    cases hfx : f x with
    | none => rw [hfx] at h; simp at h
    | some y =>
      rw [hfx] at h
      cases htr : traverse f t with
      | none => rw [htr] at h; simp at h
      | some ys =>
        rw [htr] at h
        simp at h
        subst h
        cases j with
        | zero =>
          simp at ha
          subst ha
          exact ⟨y, hfx, by simp⟩
        | succ k =>
          simp only [List.getElem?_cons_succ] at ha ⊢
          exact ih ys htr k ha

/-- **rewrite_coord_sound (output index of the producer).** A consumer entry `(p, cur)` (all symbols of `cur` are
    output indices of the fused layer) is replaced by the producer's entries with the producer's output symbol `s`
    (position `j`) renamed to `cur[j]`. For every output block `o` of the fused layer, the coordinate the FUSED layer
    gives an input of the producer along `s` equals the coordinate the PRODUCER would give it when asked for the block
    `c'` that the consumer reads from `p` for `o` — provided the consumer's `numblocks` for `p` is consistent with the
    producer's inputs (`nbq ≠ 1 → np ≠ 1`: an index along which an input has several blocks is not a single block of
    the producer's output). -/
theorem rewrite_coord_sound (out pout cur : List Sym) (nbp : List Nat) (o c' : List Nat)
    (dimsF dimsP : List (Sym × Nat)) (conc : Bool) (p : Nat)
    (hpn : pout.Nodup)
    (hc : argCoordsSpec out dimsF conc o { name := p, ind := cur, nb := nbp } = some (c'.map Coord.one))
    (j : Nat) (s cj : Sym) (np nbq : Nat)
    (hs : pout[j]? = some s) (hcj : cur[j]? = some cj) (hcjo : cj ∈ out) (hnp : nbp[j]? = some np)
    (hcons : nbq ≠ 1 → np ≠ 1) :
    specCoord out dimsF conc o (cj, nbq) = specCoord pout dimsP conc c' (s, nbq) := by
  have hjlt : j < pout.length := (List.getElem?_eq_some_iff.mp hs).1
  have hsmem : s ∈ pout := by
    have := (List.getElem?_eq_some_iff.mp hs).2
    rw [← this]; exact List.getElem_mem _
  have hidx : pout.idxOf s = j := by
    have := (List.getElem?_eq_some_iff.mp hs).2
    rw [← this]
    exact List.Nodup.idxOf_getElem hpn j hjlt
  unfold specCoord
  simp only [hcjo, hsmem, if_true, hidx]
  by_cases h1 : nbq = 1
  · simp [h1]
  · simp only [h1, if_false]
    have hnp1 : np ≠ 1 := hcons h1
    -- the j-th coordinate the consumer reads from p
    unfold argCoordsSpec at hc
    have hz : (cur.zip nbp)[j]? = some (cj, np) := by
      rw [List.getElem?_zip_eq_some]
      exact ⟨hcj, hnp⟩
    obtain ⟨b, hb, hrb⟩ := traverse_getElem? _ _ _ hc j (cj, np) hz
    unfold specCoord at hb
    simp only [hcjo, if_true, hnp1, if_false] at hb
    rw [List.getElem?_map] at hrb
    cases hcv : c'[j]? with
    | none => rw [hcv] at hrb; simp at hrb
    | some v =>
      rw [hcv] at hrb
      simp at hrb
      rw [← hrb] at hb
      cases hov : o[List.idxOf cj out]? with
      | none => rw [hov] at hb; simp at hb
      | some w =>
        rw [hov] at hb
        simp at hb
        simp [hb]

/-- **rewrite_coord_sound (contracted index of the producer).** A contracted symbol `s` of the producer is renamed to
    a fresh name `f` that is not an output index of the fused layer and has the same number of blocks: the fused layer
    hands over the same list of blocks the producer would. -/
theorem rewrite_coord_sound_contracted (out pout : List Sym) (o c' : List Nat) (dimsF dimsP : List (Sym × Nat))
    (conc : Bool) (s f : Sym) (nbq : Nat) (hs : s ∉ pout) (hf : f ∉ out) (hd : dget dimsF f = dget dimsP s) :
    specCoord out dimsF conc o (f, nbq) = specCoord pout dimsP conc c' (s, nbq) := by
  unfold specCoord
  simp [hs, hf, hd]

/-- non-vacuity: consumer `z_ij = g(y_ji)` (y has 2×3 blocks), producer `y_ab = h(x_ab, w_b)`; output block (2, 1) -/
example : argCoordsSpec [0, 1] [(0, 3), (1, 2)] false [2, 1] { name := 7, ind := [1, 0], nb := [2, 3] }
    = some ([1, 2].map Coord.one) := by decide
example : specCoord [0, 1] [(0, 3), (1, 2)] false [2, 1] (0, 3) = specCoord [5, 6] [(5, 2), (6, 3)] false [1, 2] (6, 3) := by decide

/-! ## 2c. `rewrite_blockwise`: one supply of fresh names for the contracted indices of ALL fused producers -/
section RewriteFresh
open Dask.Rewrite

/-- the invariant: the names handed out so far are exactly `0 … supply-1`, each once -/
def AllocInv (st : St) : Prop := st.allocs.flatten = List.range st.supply

theorem range_append_shift (n k : Nat) : List.range n ++ (List.range k).map (· + n) = List.range (n + k) := by
  induction k with
  | zero => simp
  | succ j ih =>
    rw [List.range_succ, List.map_append, ← List.append_assoc, ih]
    have : n + (j + 1) = (n + j) + 1 := by omega
    rw [this, List.range_succ]
    simp [Nat.add_comm j n]

theorem fuseStep_inv (p : BLayer) (i : Nat) (cur : List String) (st st' : St) (h : fuseStep p i cur st = some st')
    (hinv : AllocInv st) : AllocInv st' := by
  unfold fuseStep at h
  simp only [Option.bind_eq_bind, Option.pure_def] at h
  cases hna : List.foldlM (fun acc kv => Option.map (fun k' => setAxis acc k' kv.snd)
      (dictGet (p.outInd.zip cur ++ (contractedOf p).zip (List.map freshName (List.map (fun x => x + st.supply) (List.range (contractedOf p).length)))) kv.fst))
      st.newAxes p.newAxes with
  | none => rw [hna] at h; simp at h
  | some na =>
    rw [hna] at h
    simp only [Option.bind_some] at h
    injection h with h
    subst h
    unfold AllocInv at hinv ⊢
    simp only [List.flatten_append, List.flatten_cons, List.flatten_nil, List.append_nil, hinv]
    exact range_append_shift st.supply (contractedOf p).length

theorem forLoop_inv (inputs : List BLayer) : ∀ (fuel i : Nat) (st : St) (ch : Bool) (r : St × Bool),
    forLoop inputs fuel i st ch = some r → AllocInv st → AllocInv r.1 := by
  intro fuel
  induction fuel with
  | zero => intro i st ch r h; simp [forLoop] at h
  | succ n ih =>
    intro i st ch r h hinv
    simp only [forLoop] at h
    split at h
    · injection h with h; subst h; exact hinv
    · exact ih _ _ _ _ h hinv
    · split at h
      · exact ih _ _ _ _ h hinv
      · rename_i p hp
        split at h
        · simp at h
        · rename_i st' hst'
          exact ih _ _ _ _ h (fuseStep_inv p _ _ st st' hst' hinv)

theorem whileLoop_inv (inputs : List BLayer) : ∀ (fuel : Nat) (st r : St), whileLoop inputs fuel st = some r →
    AllocInv st → AllocInv r := by
  intro fuel
  induction fuel with
  | zero => intro st r h; simp [whileLoop] at h
  | succ n ih =>
    intro st r h hinv
    simp only [whileLoop] at h
    split at h
    · simp at h
    · rename_i st' changed hfl
      have h1 := forLoop_inv inputs _ _ _ _ _ hfl hinv
      split at h
      · exact ih _ _ h h1
      · injection h with h; subst h; exact h1

/-- **fresh_names_distinct.** In one `rewrite_blockwise` call the generator names handed to the contracted indices of
    the fused producers are pairwise distinct — across producers (two sibling contraction layers never share a
    contracted index name) and within one producer: the `k`-th name handed out is generator position `k`. -/
theorem fresh_names_distinct (fuel : Nat) (inputs : List BLayer) (root : String) (f : Fused)
    (h : rewrite fuel inputs root = some f) :
    f.allocs.flatten.Nodup ∧ ∃ n, f.allocs.flatten = List.range n := by
  unfold rewrite at h
  simp only [Option.bind_eq_bind, Option.pure_def] at h
  cases hr : lookupL inputs root with
  | none => rw [hr] at h; simp at h
  | some r =>
    rw [hr] at h
    simp only [Option.bind_some] at h
    cases hw : whileLoop inputs fuel { indices := r.indices, newAxes := r.newAxes, supply := 0, allocs := [] } with
    | none => rw [hw] at h; simp at h
    | some st =>
      rw [hw] at h
      simp only [Option.bind_some] at h
      injection h with h
      subst h
      have := whileLoop_inv inputs fuel _ st hw (by simp [AllocInv])
      unfold AllocInv at this
      simp only
      rw [this]
      exact ⟨List.nodup_range, st.supply, rfl⟩

/-- the generator itself: `A … Z, A1 … Z1, A2 …` (a test of the first 104 names, not a theorem about all) -/
example : ((List.range 104).map freshName).Nodup := by decide
example : freshName 0 = "A" ∧ freshName 25 = "Z" ∧ freshName 26 = "A1" ∧ freshName 53 = "B2" := by decide

/-- non-vacuity: two sibling producers, each contracting one index, get `A` and `B` -/
example : (rewrite 100 [⟨"z", [".0"], [("y1", some [".0"]), ("y2", some [".0"])], []⟩,
                        ⟨"y1", [".0"], [("a", some [".0", ".1"])], []⟩,
                        ⟨"y2", [".0"], [("b", some [".0", ".1"]), ("c", none)], []⟩] "z").map (fun f => (f.indices, f.allocs))
    = some ([("a", some [".0", "A"]), ("b", some [".0", "B"]), ("c", none)], [[0], [1]]) := by decide

end RewriteFresh

/-! ## 3. fused annotations never loosen a constraint (over the EXTRACTED rule table) -/
section Annotations
open Dask.Annot
open Dask.Generated.FuseRules (rules)

/-- the extracted table has one rule per key … -/
theorem rules_keys_nodup : (rules.map (·.1)).Nodup := by decide
/-- … and these are the combiners the statement names -/
theorem rules_retries : ("retries", Rule.max) ∈ rules := by decide
theorem rules_priority : ("priority", Rule.max) ∈ rules := by decide
theorem rules_resources : ("resources", Rule.mergeWithMax) ∈ rules := by decide
theorem rules_workers : ("workers", Rule.setIntersection) ∈ rules := by decide
theorem rules_allow : ("allow_other_workers", Rule.all) ∈ rules := by decide

/-- generic: a `max` rule yields a value ≥ the value of every input that has the key -/
theorem max_rule_ge (rs : List (String × Rule)) (hnd : (rs.map (·.1)).Nodup) (key : String) (hr : (key, Rule.max) ∈ rs)
    (args : List Ann) (f : Ann) (h : fuse rs args = some f) (a : Ann) (ha : a ∈ args) (r : Int)
    (hv : Annot.lookup a key = some (.int r)) : ∃ r', Annot.lookup f key = some (.int r') ∧ r ≤ r' := by
  have hmem := mem_collect key args a _ ha hv
  cases hc : collect key args with
  | nil => rw [hc] at hmem; simp at hmem
  | cons v vs =>
    obtain ⟨c, hcomb, hl⟩ := fuse_loop_rule args rs _ f key Rule.max hnd hr v vs hc h
    simp only [combine] at hcomb
    cases hi : ints (v :: vs) with
    | none => rw [hi] at hcomb; simp at hcomb
    | some l =>
      rw [hi] at hcomb
      cases l with
      | nil => simp at hcomb
      | cons x xs =>
        simp at hcomb
        subst hcomb
        refine ⟨_, hl, ?_⟩
        apply maxList_ge
        rw [hc] at hmem
        exact ints_mem _ _ hi r hmem

/-- **fuse_annotations_tighten.** With the rule table extracted from `_fuse_annotations`: whenever fusing succeeds,
    for every input annotation dict `a`
    * `retries` and `priority` of the result are ≥ those of `a`;
    * every resource requirement of `a` is ≤ the fused requirement for that resource;
    * the fused `workers` is a subset of `a`'s;
    * fused `allow_other_workers` implies `a`'s. -/
theorem fuse_annotations_tighten (args : List Ann) (f : Ann) (h : fuse rules args = some f) (a : Ann) (ha : a ∈ args) :
    (∀ r, Annot.lookup a "retries" = some (.int r) → ∃ r', Annot.lookup f "retries" = some (.int r') ∧ r ≤ r') ∧
    (∀ p, Annot.lookup a "priority" = some (.int p) → ∃ p', Annot.lookup f "priority" = some (.int p') ∧ p ≤ p') ∧
    (∀ m, Annot.lookup a "resources" = some (.res m) → ∃ m', Annot.lookup f "resources" = some (.res m') ∧
        ∀ k v, (k, v) ∈ m → ∃ v', Annot.lookup m' k = some v' ∧ v ≤ v') ∧
    (∀ w, Annot.lookup a "workers" = some (.set w) → ∃ w', Annot.lookup f "workers" = some (.set w') ∧ ∀ x ∈ w', x ∈ w) ∧
    (∀ b, Annot.lookup a "allow_other_workers" = some (.bool b) →
        ∃ b', Annot.lookup f "allow_other_workers" = some (.bool b') ∧ (b' = true → b = true)) := by
  refine ⟨?_, ?_, ?_, ?_, ?_⟩
  · intro r hv
    exact max_rule_ge rules rules_keys_nodup "retries" rules_retries args f h a ha r hv
  · intro p hv
    exact max_rule_ge rules rules_keys_nodup "priority" rules_priority args f h a ha p hv
  · intro m hv
    have hmem := mem_collect "resources" args a _ ha hv
    cases hc : collect "resources" args with
    | nil => rw [hc] at hmem; simp at hmem
    | cons v vs =>
      obtain ⟨c, hcomb, hl⟩ := fuse_loop_rule args rules _ f "resources" Rule.mergeWithMax rules_keys_nodup rules_resources v vs hc h
      simp only [combine] at hcomb
      cases hi : ress (v :: vs) with
      | none => rw [hi] at hcomb; simp at hcomb
      | some ds =>
        rw [hi] at hcomb
        simp at hcomb
        subst hcomb
        refine ⟨_, hl, ?_⟩
        intro k x hkx
        rw [hc] at hmem
        exact mergeWithMax_ge ds m (ress_mem _ _ hi m hmem) k x hkx
  · intro w hv
    have hmem := mem_collect "workers" args a _ ha hv
    cases hc : collect "workers" args with
    | nil => rw [hc] at hmem; simp at hmem
    | cons v vs =>
      obtain ⟨c, hcomb, hl⟩ := fuse_loop_rule args rules _ f "workers" Rule.setIntersection rules_keys_nodup rules_workers v vs hc h
      simp only [combine] at hcomb
      cases hi : sets (v :: vs) with
      | none => rw [hi] at hcomb; simp at hcomb
      | some l =>
        rw [hi] at hcomb
        cases l with
        | nil => simp at hcomb
        | cons s ss =>
          simp at hcomb
          subst hcomb
          refine ⟨_, hl, ?_⟩
          intro x hx
          rw [hc] at hmem
          exact interAll_sub s ss x hx w (sets_mem _ _ hi w hmem)
  · intro b hv
    have hmem := mem_collect "allow_other_workers" args a _ ha hv
    cases hc : collect "allow_other_workers" args with
    | nil => rw [hc] at hmem; simp at hmem
    | cons v vs =>
      obtain ⟨c, hcomb, hl⟩ := fuse_loop_rule args rules _ f "allow_other_workers" Rule.all rules_keys_nodup rules_allow v vs hc h
      simp only [combine] at hcomb
      cases hi : bools (v :: vs) with
      | none => rw [hi] at hcomb; simp at hcomb
      | some bs =>
        rw [hi] at hcomb
        simp at hcomb
        subst hcomb
        refine ⟨_, hl, ?_⟩
        intro hall
        rw [hc] at hmem
        have hb := bools_mem _ _ hi b hmem
        simp only [List.all_eq_true] at hall
        simpa using hall b hb

/-- keys without a rule (non-fusable annotations) are a plain `toolz.merge` -/
theorem fuse_annotations_other (args : List Ann) (f : Ann) (h : fuse rules args = some f) (k : String)
    (hk : ∀ r ∈ rules, r.1 ≠ k) : Annot.lookup f k = Annot.lookup (mergeAll args) k :=
  fuse_loop_other args rules _ f k hk h

/-- non-vacuity: three layers, every rule fires -/
example : fuse rules [[("retries", .int 2), ("workers", .set [1, 2, 3]), ("resources", .res [("GPU", 1)])],
                      [("retries", .int 5), ("workers", .set [2, 3, 4]), ("allow_other_workers", .bool true)],
                      [("priority", .int (-1)), ("resources", .res [("GPU", 2), ("MEM", 7)]), ("allow_other_workers", .bool false)]]
    = some [("retries", .int 5), ("workers", .set [2, 3]), ("resources", .res [("GPU", 2), ("MEM", 7)]),
            ("allow_other_workers", .bool false), ("priority", .int (-1))] := by decide

end Annotations

end Dask.C10
