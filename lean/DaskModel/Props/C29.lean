import DaskModel.Lemmas.StorePlan
import DaskModel.Lemmas.SetItemPlan
import DaskModel.Lemmas.StoreND
/-!
# C29 — storing arrays writes exactly the array into the targets (theorems)

Statement (properties.jsonl): `da.store` writes every element of each source into the corresponding
target position, including explicit regions, lock settings and `compute=False` followed by a later
compute; `to_npy_stack` → `from_npy_stack` reproduces the array and its chunks along the stacking axis.

`store` maps `load_store_chunk` over the blocks; block `b` writes `target[fuse_slice(region, s_b)] = block`
where `s_b` comes from `slices_from_chunks`. About the transliteration `Model/Store.lean`, for **every**
chunk list, target length and positive-step region (per axis; the N-d write is the product):

* `blocks_mem`, `blocks_count`, `axis_cover`, `axis_disjoint`   `slices_from_chunks` is the product of the
  per-axis block intervals, which tile the axis;
* `fuse_slice_block`      `fuse_slice(region, slice(l0, l1))` selects exactly positions `l0 … l1-1` of what the
  region selects;
* `store_region_den`, `store_plain_den`   the positions written block by block are the consecutive pieces
  `P[l0:l1]` of `P` = the region's (or the target's leading) positions; concatenated they are
  `P[: len(source)]`;
* `store_complete`        when the region selects exactly `len(source)` positions (the documented contract
  `target[region].shape == source.shape`) the writes cover the region exactly;
* `store_writes_disjoint` `P` is strictly increasing, so no target position is written twice: the outcome
  does not depend on the order of the writes (lock / scheduler only matter for the target object itself);
* `npy_chunks_axis`, `npy_chunks_extents`  the chunks recorded by `to_npy_stack` keep the stacking axis'
  chunks and every axis' extent.

Not modelled: `return_stored`/`load_stored` plumbing and `compute=False` graph construction (validated end to end
by the API-level check), negative-step regions (`fuse_slice` raises NotImplementedError — kept as `none`).
-/
namespace Dask.C29
open Dask.Slice1D Dask.SetItem Dask.Store

/-! ## `slices_from_chunks` -/

theorem blocks_mem (chunks : List (List Nat)) (blk : List (Int × Int)) :
    blk ∈ slicesFromChunks chunks ↔ AllIn blk (chunks.map locations) :=
  mem_product _ blk

theorem blocks_count (chunks : List (List Nat)) :
    (slicesFromChunks chunks).length = (chunks.map List.length).foldr (· * ·) 1 := by
  unfold slicesFromChunks
  rw [length_product, List.map_map]
  congr 1
  apply List.map_congr_left
  intro c _
  simp only [Function.comp, locations]
  have h : ∀ (c : List Nat) (acc : Int), (locationsFrom acc c).length = c.length := by
    intro c
    induction c with
    | nil => intro acc; rfl
    | cons l ls ih => intro acc; simp [locationsFrom, ih]
  exact h c 0

theorem axis_cover (lengths : List Nat) (v : Int) (h0 : 0 ≤ v) (h1 : v < ((lengths.sum : Nat) : Int)) :
    ∃ p ∈ locations lengths, p.1 ≤ v ∧ v < p.2 :=
  locationsFrom_cover lengths 0 v h0 (by omega)

theorem axis_disjoint (lengths : List Nat) :
    List.Pairwise (fun p q : Int × Int => p.2 ≤ q.1) (locations lengths) :=
  locationsFrom_disjoint lengths 0

example : slicesFromChunks [[2, 2], [3]] = [[(0, 2), (0, 3)], [(2, 4), (0, 3)]] := by decide

/-! ## `fuse_slice` and the writes of `store` -/

theorem fuse_slice_block (N : Nat) {a : PSlice} {a0 st : Int} {astop : Option Int}
    (hn : optNormalize a = some (a0, astop, st)) (hst : 0 < st) (l0 l1 : Nat) (h : l0 ≤ l1) :
    ∃ f, fuseSlice a ⟨some (l0 : Int), some (l1 : Int), none⟩ = some f ∧
      pySliceIdx N f = some (((rangeUp a0 (min (astop.getD N) N) st).drop l0).take (l1 - l0)) :=
  fuse_block N hn hst l0 l1 h

/-- With a region: block `(l0, l1)` writes `P[l0:l1]`, `P` = the target positions the region selects;
    all blocks together write `P[: len(source)]`, in order. -/
theorem store_region_den (N : Nat) (lengths : List Nat) {a : PSlice} {a0 st : Int} {astop : Option Int}
    (hn : optNormalize a = some (a0, astop, st)) (hst : 0 < st) :
    ∃ plan P, storePlan N (some a) lengths = some plan ∧ pySliceIdx N a = some P ∧
      plan = (locations lengths).map (fun (l0, l1) => (P.drop l0.toNat).take (l1 - l0).toNat) ∧
      plan.flatten = P.take lengths.sum := by
  refine ⟨_, _, ?_, pySliceIdx_region N hn hst, rfl, ?_⟩
  · unfold storePlan locations
    have := storePlan_pieces N (some a) (rangeUp a0 (min (astop.getD N) N) st)
      (fun l0 l1 h => by
        obtain ⟨f, hf1, hf2⟩ := fuse_block N hn hst l0 l1 h
        exact ⟨f, by simp only [storeIndex]; exact hf1, hf2⟩) lengths 0
    exact_mod_cast this
  · rw [flatten_map_eq_flatMap]
    have := pieces_concat (rangeUp a0 (min (astop.getD N) N) st) lengths 0
    simpa [locations] using this

/-- Without a region the block slices themselves are written: `P = 0 … N-1`. -/
theorem store_plain_den (N : Nat) (lengths : List Nat) :
    ∃ plan, storePlan N none lengths = some plan ∧
      plan = (locations lengths).map (fun (l0, l1) => ((rangeUp 0 N 1).drop l0.toNat).take (l1 - l0).toNat) ∧
      plan.flatten = (rangeUp 0 N 1).take lengths.sum := by
  refine ⟨_, ?_, rfl, ?_⟩
  · unfold storePlan locations
    have := storePlan_pieces N none (rangeUp 0 N 1)
      (fun l0 l1 h => ⟨_, rfl, plain_block N l0 l1 h⟩) lengths 0
    exact_mod_cast this
  · rw [flatten_map_eq_flatMap]
    have := pieces_concat (rangeUp 0 N 1) lengths 0
    simpa [locations] using this

/-- When the region selects exactly as many positions as the source is long, the writes cover it exactly. -/
theorem store_complete (N : Nat) (lengths : List Nat) {a : PSlice} {a0 st : Int} {astop : Option Int}
    (hn : optNormalize a = some (a0, astop, st)) (hst : 0 < st)
    (hlen : (rangeUp a0 (min (astop.getD N) N) st).length = lengths.sum) :
    ∃ plan, storePlan N (some a) lengths = some plan ∧ some plan.flatten = pySliceIdx N a := by
  obtain ⟨plan, P, h1, h2, _, h4⟩ := store_region_den N lengths hn hst
  refine ⟨plan, h1, ?_⟩
  rw [h2, h4]
  have hP : P = rangeUp a0 (min (astop.getD N) N) st := by
    have := pySliceIdx_region N hn hst
    rw [h2] at this; injection this
  rw [hP, ← hlen, List.take_length]

/-- non-vacuity of `store_complete`'s hypothesis: `target[1:11:2]` (5 positions) receives a source of chunks (2, 3) -/
example : (rangeUp 1 (min ((some (11 : Int)).getD (12 : Nat)) (12 : Nat)) 2).length = [2, 3].sum := by decide

/-- No target position is written twice. -/
theorem store_writes_disjoint (N : Nat) {a : PSlice} {a0 st : Int} {astop : Option Int}
    (hn : optNormalize a = some (a0, astop, st)) (hst : 0 < st) :
    ∃ P, pySliceIdx N a = some P ∧ List.Pairwise (fun x y => x < y) P :=
  ⟨_, pySliceIdx_region N hn hst, rangeUp_pairwise_lt _ _ hst _⟩

/-- non-vacuity: chunks (2, 3) stored into `target[1:11:2]` of a length-12 target -/
example : storePlan 12 (some ⟨some 1, some 11, some 2⟩) [2, 3] = some [[1, 3], [5, 7, 9]] := by decide
example : optNormalize ⟨some 1, some 11, some 2⟩ = some (1, some 11, 2) := by decide

/-! ## N-d: every position of `target[region]` is written by exactly one block -/

/-- **N-d cover**: block `b` (coordinates in the `slices_from_chunks` grid, `blocks_mem`) writes the target position
    `t` iff on every axis `t_k` lies in the piece `P_k[l0:l1]` of its block `b_k` (`store_region_den`; NumPy writes the
    per-axis product). The positions written by some block are exactly `target[region][: source.shape]`, axis by axis. -/
theorem store_nd_cover (Ps : List (List Int)) (chunks : List (List Nat)) (t : List Int) :
    InRegion Ps chunks t ↔ ∃ b, BlockWrites Ps chunks b t :=
  blockWrites_cover Ps chunks t

/-- **N-d exactly once**: for normalisable positive-step regions no target position is written by two different
    blocks — so the stored values do not depend on the order in which the blocks are written (scheduler, lock). -/
theorem store_nd_exactly_once (axes : List (Nat × PSlice)) (Ps : List (List Int)) (h : RegionAxes axes Ps)
    (chunks : List (List Nat)) (t : List Int) (hin : InRegion Ps chunks t) :
    ∃ b, BlockWrites Ps chunks b t ∧ ∀ b', BlockWrites Ps chunks b' t → b' = b := by
  obtain ⟨b, hb⟩ := (blockWrites_cover Ps chunks t).mp hin
  exact ⟨b, hb, fun b' hb' => blockWrites_unique Ps (regionAxes_nodup axes Ps h) chunks b' b t hb' hb⟩

/-- non-vacuity: a 2-d store of chunks ((2,3),(1,1)) into `target[1:11:2, 0:2]` of a (12, 2) target: position (5, 1)
    is written by block (1, 1) -/
example : RegionAxes [(12, ⟨some 1, some 11, some 2⟩), (2, ⟨some 0, some 2, none⟩)] [[1, 3, 5, 7, 9], [0, 1]] :=
  ⟨⟨1, some 11, 2, by decide, by decide, by decide⟩, ⟨0, some 2, 1, by decide, by decide, by decide⟩, trivial⟩
example : BlockWrites [[1, 3, 5, 7, 9], [0, 1]] [[2, 3], [1, 1]] [1, 1] [5, 1] :=
  ⟨⟨(2, 5), by decide, by decide⟩, ⟨(1, 2), by decide, by decide⟩, trivial⟩
example : InRegion [[1, 3, 5, 7, 9], [0, 1]] [[2, 3], [1, 1]] [5, 1] := ⟨by decide, by decide, trivial⟩

/-! ## npy stacks -/

theorem npy_chunks_axis (axis : Nat) (chunks : List (List Nat)) :
    (npyChunks axis chunks)[axis]? = chunks[axis]? := by
  unfold npyChunks
  rw [npyChunksFrom_get]
  cases chunks[axis]? <;> simp

theorem npy_chunks_extents (axis : Nat) (chunks : List (List Nat)) :
    (npyChunks axis chunks).map List.sum = chunks.map List.sum :=
  npyChunksFrom_sums axis chunks 0

example : npyChunks 1 [[2, 2], [1, 3], [5, 1]] = [[4], [1, 3], [6]] := by decide

end Dask.C29
