import DaskModel.Lemmas.SetItemPlan
import DaskModel.Lemmas.SlicePlan
import DaskModel.Lemmas.SetItemParse
import DaskModel.Lemmas.SetItemNDLemmas
/-!
# C21 — array item assignment equals NumPy assignment (theorems)

Statement (properties.jsonl): for any array, chunking, index and broadcastable value, `x[index] = value`
followed by `compute` gives the array NumPy's assignment gives, and the chunks are unchanged.

`setitem_array` plans the assignment block by block: each block gets block-local indices and the
piece of the value that belongs to it (`value[n_preceding : n_preceding + block_index_size]` along
every non-broadcast axis). NumPy's assignment `x[idx] = v` writes `v[p]` to the `p`-th selected
position. The theorems below are about the transliteration `Model/SetItem.lean`, for **every** chunk
list, slice and index array (no size bound):

* `slice_block_spec`      one block, slice index: "does not overlap" is exact; otherwise the block-local
                          slice reads exactly the selected positions inside the block, `block_index_size`
                          is their number (> 0) and `n_preceding` the number of selected positions before
                          the block;
* `slice_blocks_tile`     over all blocks the per-block selections concatenate to the whole parsed slice:
                          every selected position is assigned in exactly one block, in selection order;
* `value_slices_partition` hence the value pieces `[n_preceding, n_preceding + size)` are consecutive
                          and cover `0 … len(selection)` exactly once;
* `setitem1d_den`         the capstone for one axis: over all blocks the (position, value element) pairs assigned are
                          exactly `zip(selected positions, value)`;
* `int_index_block`, `int_index_sorted`, `int_block_index`  1-d integer-array index: position `k` of the
                          index array goes to the block holding `index[k]` (exactly one), in increasing
                          `k` (so duplicates are written in NumPy's order: last wins), and the block's index
                          array is `index[k] - loc0`;
* `blocks_cover`, `blocks_disjoint`  the chunk locations tile the axis;
* `bool_pieces_chain`     boolean index: `n_preceding` of a block + its `block_index_size` = number of
                          `True` before the block's end;
* `reversed_value_piece`  a value piece on a reversed axis is read mirrored.

* `parse_spec`            `parse_assignment_indices` (slice branch, after `normalize_index`): the reformatted slice
                          selects the original positions, reversed iff flagged, implied size = selection length.

The N-d assembly
(broadcast axes, axis offsets between value and array) and the `where` path for full-shape masks are
validated only.
-/
namespace Dask.C21
open Dask.Slice1D Dask.SetItem

/-! ## slices -/

theorem slice_block_spec (start stop step loc0 loc1 : Int) (hs : 0 < step) (h0 : 0 ≤ start) (hss : start ≤ stop)
    (hl0 : 0 ≤ loc0) (hl : loc0 ≤ loc1) :
    match blockSlice start stop step loc0 loc1 with
    | none => blockPositions start stop step loc0 loc1 = []
    | some b =>
      pySliceIdx (loc1 - loc0).toNat (PSlice.ofInts b.bstart b.bstop step)
          = some ((blockPositions start stop step loc0 loc1).map (fun p => p - loc0)) ∧
      b.size = ((blockPositions start stop step loc0 loc1).length : Int) ∧ 0 < b.size ∧
      b.npre = ((rangeUp start (min stop loc0) step).length : Int) :=
  blockSlice_spec start stop step loc0 loc1 hs h0 hss hl0 hl

/-- non-vacuity: `x[1:9:3]` on chunks (4, 3, 5): the middle block gets `slice(0, 3, 3)`, one element, after one. -/
example : blockSlice 1 9 3 4 7 = some ⟨0, 3, 1, 1⟩ := by decide
example : blockSlice 1 9 3 9 12 = none := by decide

/-- Over the blocks of any chunk list the per-block selections concatenate to the parsed slice. -/
theorem slice_blocks_tile (lengths : List Nat) (start stop step : Int) (hs : 0 < step) (h0 : 0 ≤ start)
    (hstop : stop ≤ ((lengths.sum : Nat) : Int)) :
    ((locations lengths).flatMap fun (l0, l1) => blockPositions start stop step l0 l1) = rangeUp start stop step := by
  unfold locations
  rw [blockPositions_tile start stop step hs lengths 0]
  have : firstGe start step 0 = start := by unfold firstGe; simp; omega
  rw [this]
  congr 1
  omega

/-- non-vacuity: `x[1:9:3]` on chunks (4, 3, 5) — blocks select [1], [4], [7] -/
example : ((locations [4, 3, 5]).map fun (l0, l1) => blockPositions 1 9 3 l0 l1) = [[1], [4], [7]] ∧
    rangeUp 1 9 3 = [1, 4, 7] := by decide

/-- The value pieces are consecutive: what precedes the end of a block is what precedes its start plus
    what the block takes. With `slice_blocks_tile` they cover `0 … len(selection)` exactly once. -/
theorem value_slices_partition (start stop step loc0 loc1 : Int) (hs : 0 < step) (hl : loc0 ≤ loc1) :
    ((rangeUp start (min stop loc1) step).length : Int) =
      ((rangeUp start (min stop loc0) step).length : Int) + ((blockPositions start stop step loc0 loc1).length : Int) := by
  have hfg := firstGe_ge start step loc0 hs
  unfold blockPositions
  by_cases hlt : start < loc0
  · have hsplit := rangeUp_split (min stop loc1) step loc0 hs start hlt
    have e : loc0 + (start - loc0) % step = firstGe start step loc0 := by
      unfold firstGe; have : start - loc0 < 0 := by omega
      simp [this]
    rw [hsplit, e, List.length_append]
    have : min (min stop loc1) loc0 = min stop loc0 := by omega
    rw [this]; simp
  · have e : firstGe start step loc0 = start := by unfold firstGe; simp; omega
    rw [e, rangeUp_nil (by omega : min stop loc0 ≤ start)]
    simp

/-- non-vacuity: `x[1:12:3]` on the block [7, 12): two selected positions before the block, two inside -/
example : (rangeUp 1 (min 12 12) 3).length = 4 ∧ (rangeUp 1 (min 12 7) 3).length = 2 ∧
    (blockPositions 1 12 3 7 12).length = 2 := by decide

/-- **1-d slice assignment, end to end on the plan.** `V` is the value as the blocks read it: the value itself
    for an increasing slice, the mirrored value for a decreasing one (`reversed_value_piece`: the piece
    `[n_preceding, n_preceding+size)` of a reversed axis is read at positions `size-1-p`, i.e. it is that piece of
    `V.reverse`). Over all blocks, the pairs (array position, value element) produced by the per-block assignments
    `x_block[block slice] = V[n_preceding : n_preceding + size]` are exactly `zip(selected positions, V)`:
    every selected position receives its own value element exactly once, whatever the chunking. -/
theorem setitem1d_den {α : Type} (V : List α) (lengths : List Nat) (start stop step : Int) (hs : 0 < step)
    (h0 : 0 ≤ start) (hss : start ≤ stop) (hstop : stop ≤ ((lengths.sum : Nat) : Int)) :
    ((locations lengths).flatMap fun (l0, l1) => blockAssign V start stop step l0 l1)
      = (rangeUp start stop step).zip V :=
  setitem1d_pairs V lengths start stop step hs h0 hss hstop

/-- non-vacuity: `x[1:9:3] = [a, b, c]` on chunks (4, 3, 5) -/
example : ((locations [4, 3, 5]).flatMap fun (l0, l1) => blockAssign [10, 20, 30] 1 9 3 l0 l1)
    = [(1, 10), (4, 20), (7, 30)] := by decide

/-! ## 1-d integer array index -/

theorem int_index_block (index : List Int) (l0 l1 : Int) (k : Nat) :
    k ∈ valueIndicesInt index l0 l1 ↔ ∃ v, index[k]? = some v ∧ l0 ≤ v ∧ v < l1 :=
  mem_valueIndicesInt index l0 l1 k

theorem int_index_sorted (index : List Int) (l0 l1 : Int) :
    List.Pairwise (fun a b => a < b) (valueIndicesInt index l0 l1) :=
  valueIndicesFrom_sorted l0 l1 index 0

theorem int_block_index (index : List Int) (l0 l1 : Int) :
    blockIndexInt index l0 l1 = (valueIndicesInt index l0 l1).filterMap (fun k => (index[k]?).map (fun v => v - l0)) := by
  have := blockIndexInt_eq l0 l1 index 0 [] rfl
  simpa [valueIndicesInt] using this

/-- **Integer-array assignment on the plan**: the block `[l0, l1)` assigns exactly the pairs `(index[k], V[k])`
    whose target lies in it, in increasing `k` — together with `blocks_cover`/`blocks_disjoint` every pair is
    assigned in exactly one block, and a position named several times ends with NumPy's value (the last one). -/
theorem int_index_pairs {α : Type} (index : List Int) (V : List α) (l0 l1 : Int) :
    blockAssignInt index V l0 l1 = (index.zip V).filter (fun p => decide (l0 ≤ p.1) && decide (p.1 < l1)) :=
  blockAssignInt_eq index V l0 l1

example : blockAssignInt [5, 0, 5, 2] ["a", "b", "c", "d"] 4 7 = [(5, "a"), (5, "c")] := by decide

/-- every position of the axis lies in a block… -/
theorem blocks_cover (lengths : List Nat) (v : Int) (h0 : 0 ≤ v) (h1 : v < ((lengths.sum : Nat) : Int)) :
    ∃ p ∈ locations lengths, p.1 ≤ v ∧ v < p.2 :=
  locationsFrom_cover lengths 0 v h0 (by omega)

/-- …and the blocks do not overlap (so: in exactly one). -/
theorem blocks_disjoint (lengths : List Nat) :
    List.Pairwise (fun p q : Int × Int => p.2 ≤ q.1) (locations lengths) :=
  locationsFrom_disjoint lengths 0

example : valueIndicesInt [5, 0, 5, 2] 4 7 = [0, 2] ∧ blockIndexInt [5, 0, 5, 2] 4 7 = [1, 1] := by decide

/-! ## 1-d boolean index -/

theorem bool_pieces_chain (mask : List Bool) (l0 l1 : Nat) (h : l0 ≤ l1) :
    countTrue (mask.take l1) = (blockBool mask l0 l1).2.2 + (blockBool mask l0 l1).2.1 :=
  blockBool_chain mask l0 l1 h

/-- non-vacuity: mask T F T T F on the block [2, 4): 2 `True` before the block's end, 1 before its start, 1 inside -/
example : blockBool [true, false, true, true, false] 2 4 = ([true, true], 2, 1) ∧
    countTrue ([true, false, true, true, false].take 4) = 3 := by decide
example : ∃ p ∈ locations [4, 3, 5], p.1 ≤ 6 ∧ 6 < p.2 := ⟨(4, 7), by decide, by decide, by decide⟩

/-! ## reversed axes -/

theorem reversed_value_piece (size : Nat) (a b : Int) (ha : 0 ≤ a) (hab : a < b) (hb : b ≤ size) :
    ∃ s, reverseValueSlice size a b = some s ∧
      pySliceIdx size s = some ((rangeUp a b 1).map (fun p => (size : Int) - 1 - p)) :=
  reverseValueSlice_spec size a b ha hab hb

example : reverseValueSlice 5 1 3 = some ⟨some 3, some 1, some (-1)⟩ := by decide

/-! ## `parse_assignment_indices` (slice branch) -/

/-- **Full statement, proved.** For every axis length and every slice, after `normalize_index` the slice
    branch of `parse_assignment_indices` returns a slice with integer fields and a positive step that selects
    exactly the positions Python's original slice selects — in reverse order iff the axis is recorded in
    `reverse` — and the implied size is the number of selected positions. -/
theorem parse_spec (n : Nat) (s ns : PSlice) (h : normalizeSlice s n = some ns) :
    ∃ p sel, parseSlice n ns = some p ∧ pySliceIdx n s = some sel ∧
      pySliceIdx n p.index = some (if p.reversed then sel.reverse else sel) ∧
      p.implied = (sel.length : Int) ∧ ∃ a b c, p.index = PSlice.ofInts a b c ∧ 0 < c := by
  obtain ⟨hnorm, hsame⟩ := normalizeSlice_spec h
  obtain ⟨p, sel, h1, h2, h3⟩ := parseSlice_spec n ns hnorm (normalizeSlice_clamp h)
  exact ⟨p, sel, h1, by rw [← hsame]; exact h2, h3⟩

/-- decidable per-input form of the same statement, used for the non-vacuity instances below -/
def parseSpecB (size : Nat) (idx : PSlice) : Bool :=
  match parseSlice size idx, pySliceIdx size idx with
  | some p, some sel =>
    decide (pySliceIdx size p.index = some (if p.reversed then sel.reverse else sel)) &&
    decide (p.implied = (sel.length : Int)) &&
    (match p.index.start, p.index.stop, p.index.step with
     | some _, some _, some c => decide (0 < c)
     | _, _, _ => false)
  | none, none => true
  | _, _ => false

/-- non-vacuity: a strided decreasing slice, a full reversal, an empty decreasing slice (the case repaired by
    fix 2550b44), an increasing strided slice, the empty axis -/
example :
    parseSpecB 8 ⟨some 7, some 2, some (-2)⟩ = true ∧ parseSpecB 8 ⟨none, none, some (-3)⟩ = true ∧
    parseSpecB 5 ⟨some 1, some 3, some (-1)⟩ = true ∧ parseSpecB 6 ⟨some 1, none, some 2⟩ = true ∧
    parseSpecB 0 ⟨none, none, some (-1)⟩ = true := by
  decide
example : (parseSlice 8 ⟨some 7, some 2, some (-2)⟩).map (·.index) = some (PSlice.ofInts 3 8 2) := by decide

/-! ## N-d assembly (`Model/SetItemND.lean`: the loop over the dimensions of a block, and what all blocks assign) -/

open Dask.SetItemND in
/-- **The per-block loop is the conjunction of the axes.** For every list of (parsed index, block location) pairs
    the loop `for dim, (index, (loc0, loc1)) in enumerate(zip(indices, locations))` with its `overlaps = False; break`
    succeeds iff every axis overlaps the block, and `block_indices` is then the list of the per-axis block indices
    (`axisBI`: `blockSlice` for a slice — `slice_block_spec` —, `index - loc0` for an integer, the block's part of an
    integer array). -/
theorem nd_block_indices (dims : List (AIdx × (Int × Int))) :
    (loopDims dims ⟨[], [], [], none⟩).map (·.blockIndices) = axisBIs dims := by
  rw [loopDims_blockIndices]
  cases axisBIs dims <;> simp

open Dask.SetItemND in
/-- …and `block_indices_shape` / `block_preceding_sizes` hold, for the axes not indexed by an integer and in axis
    order, the per-axis `block_index_size` / `n_preceding` from which the value slices are cut. -/
theorem nd_block_sizes (dims : List (AIdx × (Int × Int))) (st : LoopState)
    (h : loopDims dims ⟨[], [], [], none⟩ = some st) :
    st.shape = (dims.filterMap fun d => (axisSizes d.1 d.2).map (·.1)) ∧
    st.preceding = (dims.filterMap fun d => (axisSizes d.1 d.2).map (·.2)) := by
  have := loopDims_sizes dims _ st h
  simpa using this

open Dask.SetItemND in
/-- **N-d assignment on the plan.** `axes` = per axis the parsed index (slice with positive step, integer, or integer
    array — all in bounds) and the length of the value axis matched with it. A vector `t` of (array position, value
    position) pairs — one per axis; no value position for an integer axis — is assigned by some block `b` (on every
    axis the pair is among those the axis' block `b_k` assigns: `blockAssign` / `blockAssignInt`, i.e. block index and
    value piece `[n_preceding, n_preceding + size)`) **iff** it is one of NumPy's pairs on every axis (the `p`-th
    selected position gets value position `p`). Blocks assign nothing else, and every selected element is assigned. -/
theorem setitem_nd_den (axes : List (AIdx × Nat)) (chunks : List (List Nat)) (hok : AxesOK axes chunks)
    (t : List (Int × Option Nat)) :
    NDSelected axes chunks t ↔ ∃ b, NDIn (fsOf axes) chunks b t := by
  rw [← ndAny_selected axes chunks t hok]
  exact ndIn_cover (fsOf axes) chunks t

open Dask.SetItemND in
/-- non-vacuity: `x[1:9:3, 2] = [a, b, c]` on chunks ((4,3,5),(2,2)): element (7, 2) gets value position 2, from the
    block (2, 1) -/
example : AxesOK [(.sl 1 9 3, 3), (.int 2, 0)] [[4, 3, 5], [2, 2]] :=
  ⟨⟨by decide, by decide, by decide, by decide⟩, ⟨by decide, by decide⟩, trivial⟩
open Dask.SetItemND in
example : NDIn (fsOf [(.sl 1 9 3, 3), (.int 2, 0)]) [[4, 3, 5], [2, 2]] [2, 1] [(7, some 2), (2, none)] :=
  ⟨⟨(7, 12), by decide, by decide⟩, ⟨(2, 4), by decide, by decide⟩, trivial⟩
open Dask.SetItemND in
example : loopDims [(.sl 1 9 3, (4, 7)), (.int 2, (2, 4))] ⟨[], [], [], none⟩
    = some ⟨[.sl 0 3 3, .int 0], [some 1], [some 1], none⟩ := by decide

end Dask.C21
