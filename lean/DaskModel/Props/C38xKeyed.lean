import DaskModel.Lemmas.GroupbyXNu
import DaskModel.Lemmas.GroupbyXIdx
import DaskModel.Lemmas.GroupbyXCum
import DaskModel.Generated.GroupbyAggs
/-!
# C38 extension — nunique / idxmin, idxmax / cumulative family on the keyed-partial model, with NaN keys

Model: `Model/GroupbyX.lean` on top of `Model/Groupby.lean` (keyed partial aggregates + key-wise merge). Everything below
holds for ALL frames, partitionings (empty partitions and groups absent from partitions included), `split_every ≥ 1`.

* (a) `groupby_nunique_eq_global`: per-group set union through `NUnique`'s chunk / combine tree / counting root, for a key
  column that may hold NaN, `dropna` both ways, = distinct non-NA values per group of the frame pandas groups.
* (b) `groupby_idxmin_eq_global` / `groupby_idxmax_eq_global`: the REPAIRED merge (partial = (extreme value, its first
  position), merge = lexicographic minimum) gives, for every partitioning and tree shape, the first position of the
  group's extreme value (`idx_result_is_first_extremum`); being commutative it does not depend on the arrival order of the
  partials either (`idx_repaired_arrival_order_irrelevant`). The code AS IT IS (`IdxMin`/`IdxMax` = (idxmin|idxmax, first),
  pinned to the extracted table by `idx_code_merge_is_first`) is refuted: `Props/C38.idx_current_refuted` (idxmin) and
  `idxmax_current_refuted` here.
* (c) `groupby_cum_eq_global`: `cum_raw` of every partition combined with the carried per-group last running values equals
  the cumulative operation over the whole frame, NaN-key group with `dropna=False` included, whenever the SAME `dropna`
  reaches the chunk site and the carry site (`cum_last`); `cum_carry_is_running_value`: every carry table `(cum-last…, i)`
  is the per-group last running value of partitions `0 … i−1`; `cum_carry_dropna_needed`: with `dropna` missing at the carry
  site (flags differ) the result is wrong — the two flags are two sites of the source, the tie observes both.
-/
namespace Dask.C38x
open Dask.Groupby Dask.GroupbyX

/-! ### (a) nunique -/

/-- **groupby nunique** with a NaN-holding key, `dropna` both ways: the tree of `nunique_df_combine`s over the
    `drop_duplicates` partials, counted at the root, is the number of distinct non-NA values of every group of the frame as
    `groupby(dropna=d)` groups it (`none`: the group is not in the result) — every partitioning, every `split_every ≥ 1` -/
theorem groupby_nunique_eq_global (d : Bool) (se : Nat) (hse : 0 < se) (fuel : Nat)
    (parts : List (List (Key × Option Int))) :
    nuniqueD d se fuel parts = nuniqueSpecD d parts.flatten :=
  nuniqueD_eq_global d se hse fuel parts

/-- the NaN group under `dropna=True` is not in the result, whatever the partitioning -/
theorem nunique_nan_group_dropped (se : Nat) (hse : 0 < se) (fuel : Nat) (parts : List (List (Key × Option Int))) :
    nuniqueD true se fuel parts 0 = none := by
  rw [groupby_nunique_eq_global true se hse]
  simp [nuniqueSpecD, groupCells_dropRows_zero]

example : nuniqueD false 2 5 [[(none, some 1), (some 0, some 2)], [(none, some 3), (none, none)], [(none, some 1)]] 0 = some 2
    ∧ nuniqueD true 2 5 [[(none, some 1), (some 0, some 2)], [(none, some 3)], [(none, some 1)]] 0 = none
    ∧ nuniqueD true 2 5 [[(none, some 1), (some 0, some 2)], [(none, some 3)], [(some 0, some 1)]] 1 = some 2 := by decide

/-! ### (b) idxmin / idxmax -/

/-- **idxmin repaired**: partial = (minimum, its first position in the frame) per group, merged lexicographically through the
    tree, = the lexicographic minimum over the whole numbered frame -/
theorem groupby_idxmin_eq_global (k : Nat) (hk : 0 < k) (fuel : Nat) (parts : List (List (Nat × (Option Int × Int)))) :
    idxRepaired 1 k fuel parts = chunk opLex (lexInj 1) (numbered parts.flatten) :=
  idxRepaired_eq_global 1 k hk fuel parts

/-- **idxmax repaired** (values negated) -/
theorem groupby_idxmax_eq_global (k : Nat) (hk : 0 < k) (fuel : Nat) (parts : List (List (Nat × (Option Int × Int)))) :
    idxRepaired (-1) k fuel parts = chunk opLex (lexInj (-1)) (numbered parts.flatten) :=
  idxRepaired_eq_global (-1) k hk fuel parts

/-- what the result means: position `p` holds a row of the group with the extreme value, and every other row of the group
    with a value is worse, or equal and not earlier — pandas' `idxmin`/`idxmax` (first occurrence), label = `idxLabel` -/
theorem idx_result_is_first_extremum (sign : Int) (k : Nat) (hk : 0 < k) (fuel : Nat)
    (parts : List (List (Nat × (Option Int × Int)))) (key : Nat) (m : Int) (p : Nat)
    (h : idxRepaired sign k fuel parts key = some (m, p)) :
    (∃ v l, parts.flatten[p]? = some (key, (some v, l)) ∧ m = sign * v ∧
        idxLabel parts.flatten (some (m, p)) = some l) ∧
      ∀ p' v' l', parts.flatten[p']? = some (key, (some v', l')) → m < sign * v' ∨ (m = sign * v' ∧ p ≤ p') := by
  rw [idxRepaired_eq_global sign k hk] at h
  obtain ⟨⟨v, l, hrow, hm⟩, hall⟩ := chunk_lex_spec sign parts.flatten key m p h
  exact ⟨⟨v, l, hrow, hm, by simp [idxLabel, hrow]⟩, hall⟩

/-- no result for a group ⇔ the group has no value at all in the frame -/
theorem idx_result_none (sign : Int) (k : Nat) (hk : 0 < k) (fuel : Nat) (parts : List (List (Nat × (Option Int × Int))))
    (key : Nat) :
    idxRepaired sign k fuel parts key = none ↔ ∀ (p : Nat) (v l : Int), parts.flatten[p]? ≠ some (key, (some v, l)) := by
  rw [idxRepaired_eq_global sign k hk]
  exact chunk_lex_none sign parts.flatten key

theorem foldl_perm' {α β : Type} (f : β → α → β) (hf : ∀ b x y, f (f b x) y = f (f b y) x) {l₁ l₂ : List α}
    (p : l₁.Perm l₂) : ∀ b, l₁.foldl f b = l₂.foldl f b := by
  induction p with
  | nil => intro b; rfl
  | cons x _ ih => intro b; simp [ih]
  | swap x y l => intro b; simp [hf]
  | trans _ _ ih1 ih2 => intro b; rw [ih1, ih2]

/-- the repaired merge is commutative: the order in which the partials of a group arrive (disk shuffle, `split_out > 1`)
    is irrelevant — unlike `first` -/
theorem idx_repaired_arrival_order_irrelevant (ps qs : List (Nat → Option (Int × Nat))) (hperm : ps.Perm qs) :
    combine opLex ps = combine opLex qs := by
  unfold combine
  apply foldl_perm' _ _ hperm
  intro acc f g
  funext k
  simp only [merge]
  have hc : ∀ x y : Option (Int × Nat), omerge opLex x y = omerge opLex y x := by
    intro x y; cases x <;> cases y <;> simp [omerge, opLex_comm]
  rw [omerge_assoc opLex opLex_assoc, omerge_assoc opLex opLex_assoc, hc (f k) (g k)]

/-- the merge of the code, extracted on every run: `IdxMin`/`IdxMax` still aggregate with `first` (the known finding
    `groupby:idxmin|idxmax:group-spans-partitions:first-partial-wins`); a repair of the source breaks this theorem and
    retires the refutations -/
theorem idx_code_merge_is_first :
    (Dask.Generated.groupbyAggs.filter fun e => e.1 == "IdxMin" || e.1 == "IdxMax") =
      [("IdxMax", "idxmax", "first"), ("IdxMin", "idxmin", "first")] := by decide

/-- the code's merge for idxmax: group 0 = rows (1, label 0) | (5, label 1) in two partitions — the first partial wins -/
theorem idxmax_current_refuted :
    ¬ ∀ (parts : List (List (Nat × (Option Int × Int)))),
        (idxCurrent opArgmax 8 9 parts 0).map (·.2) = idxLabel parts.flatten (idxRepaired (-1) 8 9 parts 0) := by
  intro h
  have := h [[(0, (some 1, 0))], [(0, (some 5, 1))]]
  revert this
  decide

example : idxRepaired 1 2 5 [[(0, (some 5, 10))], [(0, (some 1, 11)), (1, (some 0, 12))], [(0, (some 1, 13))]] 0 = some (1, 1)
    ∧ idxLabel [(0, (some 5, 10)), (0, (some 1, 11)), (1, (some 0, 12)), (0, (some 1, 13))] (some (1, 1)) = some 11 := by
  decide

/-! ### (c) cumulative family -/

/-- **groupby cumsum / cumprod / cumcount across partitions, NaN keys included**: with the same `dropna` at the chunk site and
    at the carry site, `cum_raw` of every partition combined with the carried per-group last running values is the
    cumulative operation over the whole frame — every partitioning (empty partitions, groups absent from partitions), a
    NaN-key group carried like any other when `dropna=False`, NaN-key rows NA when `dropna=True` -/
theorem groupby_cum_eq_global (op : Int → Int → Int) (e : Int) (hassoc : ∀ a b c, op (op a b) c = op a (op b c))
    (hcomm : ∀ a b, op a b = op b a) (hid : ∀ a, op e a = a) (d : Bool) (parts : List (List (Key × Option Int))) :
    (cumDaskD op e d d parts).flatten = cumRawD op d parts.flatten := by
  unfold cumDaskD cumRawD
  rw [cumLoopD_eq, ← prep_flatten]
  exact cumDask_eq_global op e hassoc hcomm hid (parts.map (prep d))

theorem groupby_cumsum_eq_global (d : Bool) (parts : List (List (Key × Option Int))) :
    (cumDaskD (· + ·) 0 d d parts).flatten = cumRawD (· + ·) d parts.flatten :=
  groupby_cum_eq_global _ 0 Int.add_assoc Int.add_comm Int.zero_add d parts

theorem groupby_cumprod_eq_global (d : Bool) (parts : List (List (Key × Option Int))) :
    (cumDaskD (· * ·) 1 d d parts).flatten = cumRawD (· * ·) d parts.flatten :=
  groupby_cum_eq_global _ 1 Int.mul_assoc Int.mul_comm Int.one_mul d parts

theorem groupby_cumcount_eq_global (d : Bool) (parts : List (List (Key × Option Int))) :
    (cumDaskD opCount (-1) d d parts).flatten = cumRawD opCount d parts.flatten :=
  groupby_cum_eq_global _ (-1) (by intro a b c; simp only [opCount]; omega) (by intro a b; simp only [opCount]; omega)
    (by intro a; simp only [opCount]; omega) d parts

/-- **the carry table**: task `(cum-last…, i+1)` — what partition `i+1` is aligned with — holds, for every group (absent or
    all-NA = the initial value), the last running value of the group over partitions `0 … i` of the frame -/
theorem cum_carry_is_running_value (op : Int → Int → Int) (e : Int) (hassoc : ∀ a b c, op (op a b) c = op a (op b c))
    (hcomm : ∀ a b, op a b = op b a) (hid : ∀ a, op e a = a) (d : Bool) (parts : List (List (Key × Option Int)))
    (i : Nat) (c : St) (h : (cumCarryD op e d d parts)[i]? = some c) (g : Nat) :
    (c g).getD e = (cumLast op (prep d (parts.take (i + 1)).flatten) g).getD e := by
  unfold cumCarryD at h
  rw [cumCarryLoopD_eq] at h
  have := carryLoop_none op e hassoc hcomm hid (parts.map (prep d)) i c h g
  rwa [← List.map_take, prep_flatten] at this

/-- one carry table per partition after the first -/
theorem cum_carry_count (op : Int → Int → Int) (e : Int) (d : Bool) (parts : List (List (Key × Option Int))) :
    (cumCarryD op e d d parts).length = parts.length - 1 := by
  unfold cumCarryD
  rw [cumCarryLoopD_eq, carryLoop_length]
  simp

/-- **`dropna` is needed at the carry site**: with `dropna=False` at the chunk but the default (`True`) at `cum_last`, the
    NaN-key group loses its carried value: rows (NaN, 1) | (NaN, 2) give [1], [2] instead of [1], [3] -/
theorem cum_carry_dropna_needed :
    ¬ ∀ (parts : List (List (Key × Option Int))),
        (cumDaskD (· + ·) 0 false true parts).flatten = cumRawD (· + ·) false parts.flatten := by
  intro h
  have := h [[(none, some 1)], [(none, some 2)]]
  revert this
  decide

/-- … and the other way round nothing is lost, but the flags still have to agree for the theorem's proof: the code passes
    one `dropna` dict to both sites (`GroupByCumulative._lower`), which the function-level tie observes -/
example : (cumDaskD (· + ·) 0 false false [[(none, some 1)], [(none, some 2)]]).flatten = [some 1, some 3] := by decide

/-- non-vacuity: a group absent from the middle partitions, a NaN-key group, an all-NA partition of a group -/
example : cumDaskD (· + ·) 0 false false
    [[(none, some 1), (some 1, some 2)], [(some 2, none)], [], [(none, some 3), (some 1, some 4), (some 2, some 5)]]
    = [[some 1, some 2], [none], [], [some 4, some 6, some 5]] := by decide
example : cumDaskD (· + ·) 0 true true
    [[(none, some 1), (some 1, some 2)], [(some 2, none)], [], [(none, some 3), (some 1, some 4), (some 2, some 5)]]
    = [[none, some 2], [none], [], [none, some 6, some 5]] := by decide
example : ((cumCarryD (· + ·) 0 false false
    [[(none, some 1), (some 1, some 2)], [(some 2, none)], [], [(none, some 3)]]).map fun st => [st 0, st 2, st 3])
    = [[some 1, some 2, none], [some 1, some 2, none], [some 1, some 2, none]] := by decide

end Dask.C38x
