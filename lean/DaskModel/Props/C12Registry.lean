import DaskModel.Generated.TokenRegistry
/-!
# C12 (part 3) — the dispatch table of `normalize_token`

`Generated.TokenRegistry.registry` lists every `normalize_token.register(…)` of dask/tokenize.py (extracted from the
source on every run; the harness compares it with the table the running interpreter holds).  The theorems tie the
models to it: each class a model transliterates is dispatched to the normaliser the model follows, no class has two
normalisers, and every registered class is accounted for — modelled, or named in the oracle-only list.  A new or moved
registration makes `registry_complete` (or `modelled_registered`) fail until it is classified.
-/
namespace Dask.C12R
open Dask.Generated.TokenRegistry

/-- the classes the Lean models transliterate, with the normaliser each is dispatched to
    (Model/NormalForm.lean, Model/NormalFormRec.lean, Model/NormalFormPandas.lean, Model/NormalFormPandasX.lean) -/
def modelled : List (String × String × String) :=
  [("_IDENTITY_DISPATCH", "identity", ""), ("(types.MappingProxyType, dict)", "normalize_dict", ""),
   ("set", "normalize_set", ""), ("(tuple, list)", "normalize_seq", ""), ("object", "normalize_object", ""),
   ("np.ndarray", "normalize_array", "numpy"),
   ("pd.RangeIndex", "normalize_range_index", "pandas"), ("pd.Index", "normalize_index", "pandas"),
   ("pd.Series", "normalize_series", "pandas"), ("pd.DataFrame", "normalize_dataframe", "pandas"),
   ("pd.Categorical", "normalize_categorical", "pandas"),
   ("pd.api.extensions.ExtensionArray", "normalize_extension_array", "pandas"),
   ("pd.api.types.CategoricalDtype", "normalize_categorical_dtype", "pandas"),
   ("pd.api.extensions.ExtensionDtype", "normalize_period_dtype", "pandas"),
   -- extension round (Model/NormalFormPandasX.lean)
   ("pd.MultiIndex", "normalize_index", "pandas"), ("pd.arrays.PeriodArray", "normalize_period_array", "pandas"),
   ("pd.arrays.DatetimeArray", "normalize_period_array", "pandas"), ("pd.arrays.TimedeltaArray", "normalize_period_array", "pandas"),
   ("pd.arrays.IntervalArray", "normalize_interval_array", "pandas"),
   ("(pd.arrays.IntegerArray, pd.arrays.FloatingArray, pd.arrays.BooleanArray)", "normalize_masked_extension_array", "pandas"),
   ("type(pd.NA)", "normalize_na", "pandas")]

/-- classes whose normalisers are outside the models: exercised by the oracle-only sections of the harness
    (`opq`, `cat`) -/
def oracleOnly : List String :=
  ["OrderedDict", "literal", "Compose", "(partial, curry)", "(types.MethodType, types.MethodWrapperType)",
   "types.BuiltinFunctionType", "pd.arrays.ArrowExtensionArray",
   "pd.offsets.BaseOffset", "numba.core.serialize.ReduceMixin", "pa.DataType", "pa.Table", "pa.ChunkedArray", "pa.Array",
   "pa.Buffer", "np.ma.masked_array", "np.memmap", "np.ufunc", "np.dtype"]

/-- every class a model transliterates is registered with the normaliser the model follows -/
theorem modelled_registered : ∀ e ∈ modelled, e ∈ registry := by decide

/-- no class is registered twice (within one registration scope): the dispatch is a function of the class -/
theorem one_normaliser_per_class : (registry.map (fun e => (e.1, e.2.2))).Nodup := by decide

/-- **the dispatch table is accounted for**: every registered class is modelled or listed as oracle-only -/
theorem registry_complete : ∀ e ∈ registry, e ∈ modelled ∨ e.1 ∈ oracleOnly := by decide

/-- …and the two lists do not overlap -/
theorem modelled_not_oracle_only : ∀ e ∈ modelled, e.1 ∉ oracleOnly := by decide

end Dask.C12R
