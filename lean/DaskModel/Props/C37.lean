import DaskModel.Lemmas.TreeReduceLemmas
/-!
# C37 — DataFrame reductions and aggregations equal pandas

Full statement (for the modelled logic): for every partitioning of a column (empty partitions
included), every `split_every` (`False`, `None` → 8, any int ≥ 2) the lowered
`ApplyConcatApply` → `TreeReduce(Chunk)` computes the pandas reduction of the concatenated column.

* `split_every_irrelevant` — if chunk / combine / aggregate factor through a monoid homomorphism
  (`h (chunk p) = μ p`, `h (combine bs) = fold (map h bs)`, `aggregate bs = fin (fold (map h bs))`)
  then the tree result is `fin (μ (parts.flatten))` whatever `split_every` is, and the loop
  terminates (`treeLoop` never runs out of the fuel `len + 1`).
* instances: `sum_eq_pandas` / `prod_eq_pandas` / `max_eq_pandas` / `min_eq_pandas` (skipna=True),
  `sum_noskip_eq_pandas` (skipna=False: NaN-absorbing monoid, empty partitions fine), `count_eq_pandas`,
  `mean_eq_pandas` (as the exact pair (Σ, n) that `MeanAggregate` divides), `var_monoid` ((n, Σ, Σ²) is
  a homomorphic image of the column: the exact-algebra content of var/std/sem).
* `max_noskip_eq_pandas` / `min_noskip_eq_pandas` — `max/min(skipna=False)` for EVERY partitioning, empty
  partitions included: true of the code since fix 20e3626 (an empty partition contributes no partial result;
  before, `[[], [1]]` gave NaN — the former `max_noskip_refuted`).
* review round: `tree_eq_single_partition` (the tree over any partitioning = the same chunk/aggregate on ONE
  partition holding everything), `any_eq_pandas` / `all_eq_pandas`, `idxmax_eq_pandas` / `idxmin_eq_pandas`
  (first-best-row monoid, ValueError exactly when pandas raises), `value_counts_eq_pandas` (count of every key,
  NaN a key iff dropna=False), `nlargest_eq_pandas` / `nsmallest_eq_pandas` (top-n tables under merge).

Outside the theorems: float rounding (Chan's merge for var is validated numerically), `min_count`,
dtypes of results, idxmin/idxmax, nunique, value_counts, mode, nlargest/nsmallest, cov/corr,
describe, axis=1 (row-local ⇒ C36) — API level vs pandas.
-/
namespace Dask.C37
open Dask.TreeReduce

section general
variable {M β γ ρ : Type}

theorem treeLoop_spec (m : Mon M) (h : β → M) (combine : List β → β) (k : Nat) (hk : 2 ≤ k)
    (hcomb : ∀ bs, bs ≠ [] → h (combine bs) = m.fold (bs.map h)) :
    ∀ (fuel : Nat) (keys : List β), keys.length < fuel →
      ∃ keys', treeLoop combine k fuel keys = some keys' ∧ m.fold (keys'.map h) = m.fold (keys.map h) ∧
        (keys ≠ [] → keys' ≠ []) := by
  intro fuel
  induction fuel with
  | zero => intro keys h0; omega
  | succ fuel ih =>
    intro keys hlen
    simp only [treeLoop]
    by_cases hgt : keys.length > k
    · simp only [hgt, if_true]
      have hlt := partitionAll_length_lt k hk keys hgt
      obtain ⟨keys', h1, h2, h3⟩ := ih ((partitionAll k keys).map combine) (by simp only [List.length_map]; omega)
      refine ⟨keys', h1, ?_, ?_⟩
      · rw [h2, List.map_map]
        have : (partitionAll k keys).map (h ∘ combine) = (partitionAll k keys).map (fun b => m.fold (b.map h)) := by
          apply List.map_congr_left
          intro b hb
          exact hcomb b (partitionAll_nonempty k (by omega) keys b hb)
        rw [this]
        have h4 : (partitionAll k keys).map (fun b => m.fold (b.map h)) = ((partitionAll k keys).map (List.map h)).map m.fold := by
          rw [List.map_map]; rfl
        rw [h4, Mon.fold_flatten, ← List.map_flatten, partitionAll_flatten k (by omega)]
      · intro hne
        apply h3
        intro hnil
        have := partitionAll_ne_nil k keys hne
        simp only [List.map_eq_nil_iff] at hnil
        exact this hnil
    · simp only [hgt, if_false]
      exact ⟨keys, rfl, rfl, id⟩

/-- **C37 (core)**: the tree reduction is independent of `split_every` and equals the reduction of
    the concatenated column; the loop terminates. -/
theorem split_every_irrelevant (m : Mon M) (μ : List ρ → M) (hμ : Hom m μ)
    (chunk : List ρ → β) (combine : List β → β) (aggregate : List β → γ) (h : β → M) (fin : M → γ)
    (parts : List (List ρ)) (hparts : parts ≠ [])
    (hchunk : ∀ p ∈ parts, h (chunk p) = μ p)
    (hcomb : ∀ bs, bs ≠ [] → h (combine bs) = m.fold (bs.map h))
    (hagg : ∀ bs, bs ≠ [] → aggregate bs = fin (m.fold (bs.map h)))
    (se : Option Nat) (hse : ∀ k, se = some k → 2 ≤ k) :
    aca se chunk combine aggregate parts = some (fin (μ parts.flatten)) := by
  have hkeys : m.fold ((parts.map chunk).map h) = μ parts.flatten := by
    rw [List.map_map, ← hμ.flatten]
    congr 1
    apply List.map_congr_left
    intro p hp
    exact hchunk p hp
  have hne : parts.map chunk ≠ [] := by simpa using hparts
  unfold aca treeReduce
  cases se with
  | none =>
    show some (aggregate (parts.map chunk)) = _
    rw [hagg _ hne, hkeys]
  | some k =>
    obtain ⟨keys', h1, h2, h3⟩ := treeLoop_spec m h combine k (hse k rfl) hcomb ((parts.map chunk).length + 1)
      (parts.map chunk) (by omega)
    simp only [h1, Option.map_some]
    rw [hagg keys' (h3 hne), h2, hkeys]

/-- corollary: two different `split_every` give the same answer -/
theorem split_every_agree (m : Mon M) (μ : List ρ → M) (hμ : Hom m μ)
    (chunk : List ρ → β) (combine : List β → β) (aggregate : List β → γ) (h : β → M) (fin : M → γ)
    (parts : List (List ρ)) (hparts : parts ≠ [])
    (hchunk : ∀ p ∈ parts, h (chunk p) = μ p)
    (hcomb : ∀ bs, bs ≠ [] → h (combine bs) = m.fold (bs.map h))
    (hagg : ∀ bs, bs ≠ [] → aggregate bs = fin (m.fold (bs.map h)))
    (k1 k2 : Nat) (h1 : 2 ≤ k1) (h2 : 2 ≤ k2) :
    aca (some k1) chunk combine aggregate parts = aca (some k2) chunk combine aggregate parts ∧
    aca (some k1) chunk combine aggregate parts = aca none chunk combine aggregate parts := by
  rw [split_every_irrelevant m μ hμ chunk combine aggregate h fin parts hparts hchunk hcomb hagg (some k1)
        (by intro k hk; cases hk; exact h1),
      split_every_irrelevant m μ hμ chunk combine aggregate h fin parts hparts hchunk hcomb hagg (some k2)
        (by intro k hk; cases hk; exact h2),
      split_every_irrelevant m μ hμ chunk combine aggregate h fin parts hparts hchunk hcomb hagg none
        (by intro k hk; cases hk)]
  exact ⟨rfl, rfl⟩

end general

/-- `split_every` values dask accepts are ≥ 2 (or False) -/
theorem splitEvery_ge_two (raw : SE) (se : Option Nat) (h : splitEvery raw = some se) : ∀ k, se = some k → 2 ≤ k := by
  intro k hk
  subst hk
  cases raw with
  | default => simp [splitEvery] at h; omega
  | off => simp [splitEvery] at h
  | n i =>
    simp only [splitEvery] at h
    split at h
    · simp only [Option.some.injEq] at h; omega
    · cases h

/-! ## instances -/

/-- additive monoid of integers -/
def addMon : Mon Int := ⟨(· + ·), 0, Int.add_assoc, Int.zero_add, Int.add_zero⟩
def mulMon : Mon Int := ⟨(· * ·), 1, Int.mul_assoc, Int.one_mul, Int.mul_one⟩
def natAddMon : Mon Nat := ⟨(· + ·), 0, Nat.add_assoc, Nat.zero_add, Nat.add_zero⟩

theorem valid_append (p q : List Cell) : valid (p ++ q) = valid p ++ valid q := by
  simp [valid, List.filterMap_append]

theorem foldl_add_eq (l : List Int) (a : Int) : l.foldl (· + ·) a = a + l.foldr (· + ·) 0 := by
  induction l generalizing a with
  | nil => simp
  | cons x xs ih => simp only [List.foldl_cons, List.foldr_cons]; rw [ih]; omega

theorem foldl_mul_eq (l : List Int) (a : Int) : l.foldl (· * ·) a = a * l.foldr (· * ·) 1 := by
  induction l generalizing a with
  | nil => simp
  | cons x xs ih => simp only [List.foldl_cons, List.foldr_cons]; rw [ih, Int.mul_assoc]

theorem foldl_nat_add_eq (l : List Nat) (a : Nat) : l.foldl (· + ·) a = a + l.foldr (· + ·) 0 := by
  induction l generalizing a with
  | nil => simp
  | cons x xs ih => simp only [List.foldl_cons, List.foldr_cons]; rw [ih]; omega

/-- Σ of the valid cells is a homomorphism -/
def sumValid (p : List Cell) : Int := (valid p).foldr (· + ·) 0

theorem sumValid_hom : Hom addMon sumValid := by
  constructor
  · simp [sumValid, valid, addMon]
  · intro p q
    simp only [sumValid, valid_append, addMon]
    exact addMon.fold_append (valid p) (valid q)

theorem sumK_true (p : List Cell) : sumK true p = some (sumValid p) := by
  simp [sumK, sumValid, foldl_add_eq]

theorem valid_of_all_some (bs : List Cell) (vs : List Int) (h : bs = vs.map some) : valid bs = vs := by
  subst h
  induction vs with
  | nil => simp [valid]
  | cons v vs ih => simpa [valid] using ih

theorem sumValid_cells (bs : List Cell) : sumValid bs = addMon.fold (bs.map (fun c => c.getD 0)) := by
  simp only [sumValid, addMon, Mon.fold]
  induction bs with
  | nil => simp [valid]
  | cons b bs ih =>
    cases b with
    | none => simpa [valid] using ih
    | some v =>
      simp only [valid, List.filterMap_cons, id, List.foldr_cons, List.map_cons, Option.getD_some] at ih ⊢
      rw [ih]

/-- **sum(skipna=True)** equals pandas for every partitioning and every `split_every`. -/
theorem sum_eq_pandas (parts : List (List Cell)) (hparts : parts ≠ []) (se : Option Nat) (hse : ∀ k, se = some k → 2 ≤ k) :
    kernelReduce se (sumK true) parts = some (sumK true parts.flatten) := by
  have := split_every_irrelevant addMon sumValid sumValid_hom (sumK true) (sumK true) (sumK true)
    (fun c => c.getD 0) (fun s => some s) parts hparts
    (by intro p _; simp [sumK_true])
    (by intro bs _; rw [sumK_true]; simp only [Option.getD_some]; exact sumValid_cells bs)
    (by intro bs _; rw [sumK_true, sumValid_cells bs])
    se hse
  simpa [kernelReduce, sumK_true] using this

/-- count of valid cells -/
theorem countK_hom : Hom natAddMon (fun p => countK p) := by
  constructor
  · simp [countK, valid, natAddMon]
  · intro p q; simp [countK, valid_append, natAddMon]

/-- **count** equals pandas for every partitioning and every `split_every`. -/
theorem count_eq_pandas (parts : List (List Cell)) (hparts : parts ≠ []) (se : Option Nat) (hse : ∀ k, se = some k → 2 ≤ k) :
    daskCount se parts = some (countK parts.flatten) := by
  have hf : ∀ bs : List Nat, bs.foldl (· + ·) 0 = natAddMon.fold (bs.map id) := by
    intro bs
    simp only [List.map_id, Mon.fold, natAddMon, foldl_nat_add_eq]
    omega
  exact split_every_irrelevant natAddMon (fun p => countK p) countK_hom countK _ _ id id parts hparts
    (by intro p _; rfl) (by intro bs _; exact hf bs) (by intro bs _; exact hf bs) se hse

/-- **mean** (as the exact pair Σ, n that `MeanAggregate` divides) equals pandas' pair. -/
theorem mean_eq_pandas (parts : List (List Cell)) (hparts : parts ≠ []) (se : Option Nat) (hse : ∀ k, se = some k → 2 ≤ k) :
    daskMean se true parts = some (sumK true parts.flatten, countK parts.flatten) := by
  simp [daskMean, sum_eq_pandas parts hparts se hse, count_eq_pandas parts hparts se hse]

/-- max over valid cells as a monoid: `none` (nothing valid) is the unit -/
def maxMon : Mon (Option Int) where
  op a b := match a, b with
    | none, b => b
    | a, none => a
    | some x, some y => some (if x < y then y else x)
  e := none
  assoc := by
    intro a b c
    cases a <;> cases b <;> cases c <;> simp
    repeat' split
    all_goals omega
  left_id := by intro a; cases a <;> rfl
  right_id := by intro a; cases a <;> rfl

theorem foldl_maxOpt (l : List Int) (a : Option Int) :
    l.foldl maxOpt a = maxMon.op a (l.foldl maxOpt none) := by
  induction l generalizing a with
  | nil => cases a <;> rfl
  | cons x xs ih =>
    simp only [List.foldl_cons]
    rw [ih (maxOpt a x), ih (maxOpt none x)]
    cases a with
    | none => simp [maxOpt, maxMon]
    | some v =>
      simp only [maxOpt]
      rw [← maxMon.assoc]
      congr 1

def maxValid (p : List Cell) : Option Int := (valid p).foldl maxOpt none

theorem maxValid_hom : Hom maxMon maxValid := by
  constructor
  · rfl
  · intro p q
    simp only [maxValid, valid_append, List.foldl_append]
    exact foldl_maxOpt _ _

theorem maxK_true (p : List Cell) : maxK true p = maxValid p := by simp [maxK, maxValid]

theorem maxValid_cells (bs : List Cell) : maxValid bs = maxMon.fold (bs.map id) := by
  induction bs with
  | nil => rfl
  | cons b bs ih =>
    have happ := maxValid_hom.append [b] bs
    simp only [List.singleton_append] at happ
    rw [happ, ih]
    simp only [List.map_cons, id, Mon.fold, List.foldr_cons]
    congr 1
    cases b <;> simp [maxValid, valid, maxOpt]

/-- min over valid cells as a monoid -/
def minMon : Mon (Option Int) where
  op a b := match a, b with
    | none, b => b
    | a, none => a
    | some x, some y => some (if y < x then y else x)
  e := none
  assoc := by
    intro a b c
    cases a <;> cases b <;> cases c <;> simp
    repeat' split
    all_goals omega
  left_id := by intro a; cases a <;> rfl
  right_id := by intro a; cases a <;> rfl

theorem foldl_minOpt (l : List Int) (a : Option Int) :
    l.foldl minOpt a = minMon.op a (l.foldl minOpt none) := by
  induction l generalizing a with
  | nil => cases a <;> rfl
  | cons x xs ih =>
    simp only [List.foldl_cons]
    rw [ih (minOpt a x), ih (minOpt none x)]
    cases a with
    | none => simp [minOpt, minMon]
    | some v =>
      simp only [minOpt]
      rw [← minMon.assoc]
      congr 1

def minValid (p : List Cell) : Option Int := (valid p).foldl minOpt none

theorem minValid_hom : Hom minMon minValid := by
  constructor
  · rfl
  · intro p q
    simp only [minValid, valid_append, List.foldl_append]
    exact foldl_minOpt _ _

theorem minK_true (p : List Cell) : minK true p = minValid p := by simp [minK, minValid]

theorem minValid_cells (bs : List Cell) : minValid bs = minMon.fold (bs.map id) := by
  induction bs with
  | nil => rfl
  | cons b bs ih =>
    have happ := minValid_hom.append [b] bs
    simp only [List.singleton_append] at happ
    rw [happ, ih]
    simp only [List.map_cons, id, Mon.fold, List.foldr_cons]
    congr 1
    cases b <;> simp [minValid, valid, minOpt]

/-- Π of the valid cells is a homomorphism -/
def prodValid (p : List Cell) : Int := (valid p).foldr (· * ·) 1

theorem prodValid_hom : Hom mulMon prodValid := by
  constructor
  · simp [prodValid, valid, mulMon]
  · intro p q
    simp only [prodValid, valid_append, mulMon]
    exact mulMon.fold_append (valid p) (valid q)

theorem prodK_true (p : List Cell) : prodK true p = some (prodValid p) := by
  simp [prodK, prodValid, foldl_mul_eq]

theorem prodValid_cells (bs : List Cell) : prodValid bs = mulMon.fold (bs.map (fun c => c.getD 1)) := by
  simp only [prodValid, mulMon, Mon.fold]
  induction bs with
  | nil => simp [valid]
  | cons b bs ih =>
    cases b with
    | none => simpa [valid] using ih
    | some v =>
      simp only [valid, List.filterMap_cons, id, List.foldr_cons, List.map_cons, Option.getD_some] at ih ⊢
      rw [ih]

/-- **prod(skipna=True)** equals pandas for every partitioning and every `split_every`. -/
theorem prod_eq_pandas (parts : List (List Cell)) (hparts : parts ≠ []) (se : Option Nat) (hse : ∀ k, se = some k → 2 ≤ k) :
    kernelReduce se (prodK true) parts = some (prodK true parts.flatten) := by
  have := split_every_irrelevant mulMon prodValid prodValid_hom (prodK true) (prodK true) (prodK true)
    (fun c => c.getD 1) (fun s => some s) parts hparts
    (by intro p _; simp [prodK_true])
    (by intro bs _; rw [prodK_true]; simp only [Option.getD_some]; exact prodValid_cells bs)
    (by intro bs _; rw [prodK_true, prodValid_cells bs])
    se hse
  simpa [kernelReduce, prodK_true] using this

/-- NaN-absorbing addition: the monoid behind `sum(skipna=False)` (empty partitions contribute `some 0`) -/
def addNaMon : Mon (Option Int) where
  op a b := match a, b with
    | some x, some y => some (x + y)
    | _, _ => none
  e := some 0
  assoc := by intro a b c; cases a <;> cases b <;> cases c <;> simp [Int.add_assoc]
  left_id := by intro a; cases a <;> simp
  right_id := by intro a; cases a <;> simp

theorem sumK_false_cons (c : Cell) (p : List Cell) : sumK false (c :: p) = addNaMon.op c (sumK false p) := by
  cases c with
  | none => simp [sumK, addNaMon]
  | some v =>
    by_cases h : p.any Option.isNone = true
    · simp [sumK, h, addNaMon]
    · simp only [sumK, Bool.not_false, Bool.true_and, List.any_cons, Option.isNone_some, Bool.false_or, h,
        Bool.false_eq_true, if_false, addNaMon, valid, List.filterMap_cons, id]
      rw [foldl_add_eq, foldl_add_eq]
      simp

theorem sumK_false_fold (p : List Cell) : sumK false p = addNaMon.fold (p.map id) := by
  induction p with
  | nil => simp [sumK, valid, Mon.fold, addNaMon]
  | cons c p ih => rw [sumK_false_cons, ih]; simp [Mon.fold]

theorem sumK_false_hom : Hom addNaMon (sumK false) := by
  constructor
  · simp [sumK, valid, addNaMon]
  · intro p q
    rw [sumK_false_fold (p ++ q), sumK_false_fold p, sumK_false_fold q, List.map_append, Mon.fold_append]

/-- **sum(skipna=False)** equals pandas for every partitioning (empty partitions included) and every `split_every`. -/
theorem sum_noskip_eq_pandas (parts : List (List Cell)) (hparts : parts ≠ []) (se : Option Nat) (hse : ∀ k, se = some k → 2 ≤ k) :
    kernelReduce se (sumK false) parts = some (sumK false parts.flatten) := by
  have := split_every_irrelevant addNaMon (sumK false) sumK_false_hom (sumK false) (sumK false) (sumK false) id id parts hparts
    (by intro p _; rfl) (by intro bs _; exact sumK_false_fold bs) (by intro bs _; exact sumK_false_fold bs) se hse
  simpa [kernelReduce] using this

/-- max with an absorbing NaN and an adjoined unit: the monoid behind `max(skipna=False)` on NON-EMPTY blocks -/
def maxNaMon : Mon (Option Cell) where
  op a b := match a, b with
    | none, b => b
    | a, none => a
    | some none, _ => some none
    | _, some none => some none
    | some (some x), some (some y) => some (some (if x < y then y else x))
  e := none
  assoc := by
    intro a b c
    rcases a with _ | _ | a <;> rcases b with _ | _ | b <;> rcases c with _ | _ | c <;> simp
    repeat' split
    all_goals omega
  left_id := by intro a; rcases a with _ | _ | a <;> rfl
  right_id := by intro a; rcases a with _ | _ | a <;> rfl

def muMaxNa (p : List Cell) : Option Cell := if p.isEmpty then none else some (maxK false p)

theorem maxK_false_cons (c : Cell) (p : List Cell) (hp : p ≠ []) :
    maxK false (c :: p) = match c, maxK false p with
      | none, _ => none
      | _, none => none
      | some x, some y => some (if x < y then y else x) := by
  cases c with
  | none => simp [maxK]
  | some x =>
    by_cases hn : p.any Option.isNone = true
    · simp [maxK, hn]
    · have hvalid : valid p ≠ [] := by
        cases p with
        | nil => exact absurd rfl hp
        | cons d ds =>
          cases d with
          | none => simp at hn
          | some v => simp [valid]
      simp only [maxK, Bool.not_false, Bool.true_and, List.any_cons, Option.isNone_some, Bool.false_or, hn,
        Bool.false_eq_true, if_false, valid, List.filterMap_cons, id, List.foldl_cons]
      have h1 := foldl_maxOpt (List.filterMap id p) (maxOpt none x)
      rw [h1]
      cases hm : List.foldl maxOpt none (List.filterMap id p) with
      | none =>
        exfalso
        have : ∀ (l : List Int) (a : Option Int), l ≠ [] → List.foldl maxOpt a l ≠ none := by
          intro l
          induction l with
          | nil => intro a h; exact absurd rfl h
          | cons y ys ih =>
            intro a _
            simp only [List.foldl_cons]
            by_cases hy : ys = []
            · subst hy; cases a <;> simp [maxOpt]
            · exact ih _ hy
        exact this _ none hvalid hm
      | some y => simp [maxOpt, maxMon]

theorem muMaxNa_cons (c : Cell) (p : List Cell) : muMaxNa (c :: p) = maxNaMon.op (some c) (muMaxNa p) := by
  by_cases hp : p = []
  · subst hp
    cases c <;> simp [muMaxNa, maxK, maxNaMon, valid, maxOpt]
  · have hemp : p.isEmpty = false := by cases p <;> simp_all
    simp only [muMaxNa, List.isEmpty_cons, Bool.false_eq_true, if_false, hemp, maxK_false_cons c p hp]
    cases c <;> cases maxK false p <;> simp [maxNaMon]

theorem muMaxNa_fold (p : List Cell) : muMaxNa p = maxNaMon.fold (p.map some) := by
  induction p with
  | nil => simp [muMaxNa, Mon.fold, maxNaMon]
  | cons c p ih => rw [muMaxNa_cons, ih]; simp [Mon.fold]

theorem muMaxNa_hom : Hom maxNaMon muMaxNa := by
  constructor
  · simp [muMaxNa, maxNaMon]
  · intro p q
    rw [muMaxNa_fold (p ++ q), muMaxNa_fold p, muMaxNa_fold q, List.map_append, Mon.fold_append]

/-- the (n, Σ, Σ²) triple that var/std/sem are a function of is a homomorphic image of the column -/
def tripleMon : Mon (Nat × Int × Int) where
  op a b := (a.1 + b.1, a.2.1 + b.2.1, a.2.2 + b.2.2)
  e := (0, 0, 0)
  assoc := by intro a b c; simp [Nat.add_assoc, Int.add_assoc]
  left_id := by intro a; simp
  right_id := by intro a; simp

def triple (p : List Cell) : Nat × Int × Int :=
  ((valid p).length, (valid p).foldr (· + ·) 0, ((valid p).map (fun v => v * v)).foldr (· + ·) 0)

theorem var_monoid : Hom tripleMon triple := by
  constructor
  · simp [triple, valid, tripleMon]
  · intro p q
    simp only [triple, valid_append, tripleMon, List.length_append, List.map_append]
    refine Prod.ext rfl (Prod.ext ?_ ?_)
    · exact addMon.fold_append (valid p) (valid q)
    · exact addMon.fold_append _ _

/-- non-vacuity: a partitioning with an empty and an all-NaN partition, split_every = 2 (two tree levels) -/
example : kernelReduce (some 2) (sumK true) [[some 1, none], [], [none], [some 5], [some (-2), some 3]] = some (some 7) := by decide
example : daskMean (some 2) true [[some 1, none], [], [none], [some 5], [some (-2), some 3]] = some (some 7, 4) := by decide
example : daskMinMax (some 3) (maxK true) [[none], [some 1], [], [some 4], [some 2]] = some (some 4) := by decide

/-! ## max / min after fix 20e3626: an empty partition contributes NO partial result -/

theorem maxValid_single (c : Cell) : maxValid [c] = c := by cases c <;> simp [maxValid, valid, maxOpt]
theorem minValid_single (c : Cell) : minValid [c] = c := by cases c <;> simp [minValid, valid, minOpt]

theorem maxValid_idem (x : List Cell) : maxValid [maxValid x] = maxValid x := maxValid_single _

/-- **max(skipna=True)** equals pandas for every partitioning (empty partitions contribute nothing) and every `split_every`. -/
theorem max_eq_pandas (parts : List (List Cell)) (hparts : parts ≠ []) (se : Option Nat) (hse : ∀ k, se = some k → 2 ≤ k) :
    daskMinMax se (maxK true) parts = some (maxK true parts.flatten) := by
  have hfl : ∀ bs : List (List Cell), maxValid bs.flatten = maxMon.fold (bs.map maxValid) :=
    fun bs => (Hom.flatten maxValid_hom bs).symm
  have := split_every_irrelevant maxMon maxValid maxValid_hom (mmChunk (maxK true)) (mmCombine (maxK true)) (mmAgg (maxK true))
    maxValid id parts hparts
    (by
      intro p _
      simp only [mmChunk]
      split
      · rename_i h; simp only [List.isEmpty_iff] at h; subst h; rfl
      · rw [maxK_true, maxValid_single])
    (by
      intro bs _
      rw [← hfl]
      simp only [mmCombine]
      split
      · rename_i h; simp only [List.isEmpty_iff] at h; rw [h]
      · rw [maxK_true, maxValid_single])
    (by intro bs _; rw [← hfl]; simp [mmAgg, maxK_true])
    se hse
  simpa [daskMinMax, maxK_true] using this

theorem maxK_false_single (c : Cell) : maxK false [c] = c := by cases c <;> simp [maxK, valid, maxOpt]

theorem muMaxNa_single_of_ne (x : List Cell) (hx : x ≠ []) : muMaxNa [maxK false x] = muMaxNa x := by
  have hemp : x.isEmpty = false := by cases x <;> simp_all
  simp [muMaxNa, hemp, maxK_false_single]

/-- **max(skipna=False)** equals pandas for EVERY partitioning, empty partitions included (after fix) -/
theorem max_noskip_eq_pandas (parts : List (List Cell)) (hparts : parts ≠ []) (se : Option Nat) (hse : ∀ k, se = some k → 2 ≤ k) :
    daskMinMax se (maxK false) parts = some (maxK false parts.flatten) := by
  have hfl : ∀ bs : List (List Cell), muMaxNa bs.flatten = maxNaMon.fold (bs.map muMaxNa) :=
    fun bs => (Hom.flatten muMaxNa_hom bs).symm
  have key := split_every_irrelevant maxNaMon muMaxNa muMaxNa_hom (mmChunk (maxK false)) (mmCombine (maxK false)) (mmAgg (maxK false))
    muMaxNa (fun m => m.getD none) parts hparts
    (by
      intro p _
      simp only [mmChunk]
      split
      · rename_i h; simp only [List.isEmpty_iff] at h; subst h; rfl
      · rename_i h
        exact muMaxNa_single_of_ne p (by intro h2; subst h2; simp at h))
    (by
      intro bs _
      rw [← hfl]
      simp only [mmCombine]
      split
      · rename_i h; simp only [List.isEmpty_iff] at h; rw [h]
      · rename_i h
        exact muMaxNa_single_of_ne _ (by intro h2; rw [h2] at h; simp at h))
    (by
      intro bs _
      rw [← hfl]
      simp only [mmAgg, muMaxNa]
      split
      · rename_i h; simp only [List.isEmpty_iff] at h; rw [h]; rfl
      · rfl)
    se hse
  simp only [daskMinMax, key, muMaxNa]
  split
  · rename_i h; simp only [List.isEmpty_iff] at h; rw [h]; rfl
  · rfl

example : daskMinMax none (maxK false) [[], [some 1]] = some (some 1) := by decide
example : daskMinMax (some 2) (maxK false) [[], [], [some 1, some 4], [], [some 2]] = some (some 4) := by decide
example : daskMinMax (some 2) (maxK false) [[], [], [some 1, none], [], [some 2]] = some none := by decide
/-- min with an absorbing NaN and an adjoined unit: the monoid behind `min(skipna=False)` on NON-EMPTY blocks -/
def minNaMon : Mon (Option Cell) where
  op a b := match a, b with
    | none, b => b
    | a, none => a
    | some none, _ => some none
    | _, some none => some none
    | some (some x), some (some y) => some (some (if y < x then y else x))
  e := none
  assoc := by
    intro a b c
    rcases a with _ | _ | a <;> rcases b with _ | _ | b <;> rcases c with _ | _ | c <;> simp
    repeat' split
    all_goals omega
  left_id := by intro a; rcases a with _ | _ | a <;> rfl
  right_id := by intro a; rcases a with _ | _ | a <;> rfl

def muMinNa (p : List Cell) : Option Cell := if p.isEmpty then none else some (minK false p)

theorem minK_false_cons (c : Cell) (p : List Cell) (hp : p ≠ []) :
    minK false (c :: p) = match c, minK false p with
      | none, _ => none
      | _, none => none
      | some x, some y => some (if y < x then y else x) := by
  cases c with
  | none => simp [minK]
  | some x =>
    by_cases hn : p.any Option.isNone = true
    · simp [minK, hn]
    · have hvalid : valid p ≠ [] := by
        cases p with
        | nil => exact absurd rfl hp
        | cons d ds =>
          cases d with
          | none => simp at hn
          | some v => simp [valid]
      simp only [minK, Bool.not_false, Bool.true_and, List.any_cons, Option.isNone_some, Bool.false_or, hn,
        Bool.false_eq_true, if_false, valid, List.filterMap_cons, id, List.foldl_cons]
      have h1 := foldl_minOpt (List.filterMap id p) (minOpt none x)
      rw [h1]
      cases hm : List.foldl minOpt none (List.filterMap id p) with
      | none =>
        exfalso
        have : ∀ (l : List Int) (a : Option Int), l ≠ [] → List.foldl minOpt a l ≠ none := by
          intro l
          induction l with
          | nil => intro a h; exact absurd rfl h
          | cons y ys ih =>
            intro a _
            simp only [List.foldl_cons]
            by_cases hy : ys = []
            · subst hy; cases a <;> simp [minOpt]
            · exact ih _ hy
        exact this _ none hvalid hm
      | some y => simp [minOpt, minMon]

theorem muMinNa_cons (c : Cell) (p : List Cell) : muMinNa (c :: p) = minNaMon.op (some c) (muMinNa p) := by
  by_cases hp : p = []
  · subst hp
    cases c <;> simp [muMinNa, minK, minNaMon, valid, minOpt]
  · have hemp : p.isEmpty = false := by cases p <;> simp_all
    simp only [muMinNa, List.isEmpty_cons, Bool.false_eq_true, if_false, hemp, minK_false_cons c p hp]
    cases c <;> cases minK false p <;> simp [minNaMon]

theorem muMinNa_fold (p : List Cell) : muMinNa p = minNaMon.fold (p.map some) := by
  induction p with
  | nil => simp [muMinNa, Mon.fold, minNaMon]
  | cons c p ih => rw [muMinNa_cons, ih]; simp [Mon.fold]

theorem muMinNa_hom : Hom minNaMon muMinNa := by
  constructor
  · simp [muMinNa, minNaMon]
  · intro p q
    rw [muMinNa_fold (p ++ q), muMinNa_fold p, muMinNa_fold q, List.map_append, Mon.fold_append]


theorem minK_false_single (c : Cell) : minK false [c] = c := by cases c <;> simp [minK, valid, minOpt]

theorem muMinNa_single_of_ne (x : List Cell) (hx : x ≠ []) : muMinNa [minK false x] = muMinNa x := by
  have hemp : x.isEmpty = false := by cases x <;> simp_all
  simp [muMinNa, hemp, minK_false_single]

/-- **min(skipna=False)** equals pandas for EVERY partitioning, empty partitions included (after fix) -/
theorem min_noskip_eq_pandas (parts : List (List Cell)) (hparts : parts ≠ []) (se : Option Nat) (hse : ∀ k, se = some k → 2 ≤ k) :
    daskMinMax se (minK false) parts = some (minK false parts.flatten) := by
  have hfl : ∀ bs : List (List Cell), muMinNa bs.flatten = minNaMon.fold (bs.map muMinNa) :=
    fun bs => (Hom.flatten muMinNa_hom bs).symm
  have key := split_every_irrelevant minNaMon muMinNa muMinNa_hom (mmChunk (minK false)) (mmCombine (minK false)) (mmAgg (minK false))
    muMinNa (fun m => m.getD none) parts hparts
    (by
      intro p _
      simp only [mmChunk]
      split
      · rename_i h; simp only [List.isEmpty_iff] at h; subst h; rfl
      · rename_i h
        exact muMinNa_single_of_ne p (by intro h2; subst h2; simp at h))
    (by
      intro bs _
      rw [← hfl]
      simp only [mmCombine]
      split
      · rename_i h; simp only [List.isEmpty_iff] at h; rw [h]
      · rename_i h
        exact muMinNa_single_of_ne _ (by intro h2; rw [h2] at h; simp at h))
    (by
      intro bs _
      rw [← hfl]
      simp only [mmAgg, muMinNa]
      split
      · rename_i h; simp only [List.isEmpty_iff] at h; rw [h]; rfl
      · rfl)
    se hse
  simp only [daskMinMax, key, muMinNa]
  split
  · rename_i h; simp only [List.isEmpty_iff] at h; rw [h]; rfl
  · rfl


/-- **min(skipna=True)** equals pandas for every partitioning and every `split_every`. -/
theorem min_eq_pandas (parts : List (List Cell)) (hparts : parts ≠ []) (se : Option Nat) (hse : ∀ k, se = some k → 2 ≤ k) :
    daskMinMax se (minK true) parts = some (minK true parts.flatten) := by
  have hfl : ∀ bs : List (List Cell), minValid bs.flatten = minMon.fold (bs.map minValid) :=
    fun bs => (Hom.flatten minValid_hom bs).symm
  have := split_every_irrelevant minMon minValid minValid_hom (mmChunk (minK true)) (mmCombine (minK true)) (mmAgg (minK true))
    minValid id parts hparts
    (by
      intro p _
      simp only [mmChunk]
      split
      · rename_i h; simp only [List.isEmpty_iff] at h; subst h; rfl
      · rw [minK_true, minValid_single])
    (by
      intro bs _
      rw [← hfl]
      simp only [mmCombine]
      split
      · rename_i h; simp only [List.isEmpty_iff] at h; rw [h]
      · rw [minK_true, minValid_single])
    (by intro bs _; rw [← hfl]; simp [mmAgg, minK_true])
    se hse
  simpa [daskMinMax, minK_true] using this



/-! ## Review round: the tree equals ONE partition; any/all, idxmax/idxmin, value_counts, nlargest/nsmallest -/

section general2
variable {M β γ ρ : Type}

theorem aca_map_agg (se : Option Nat) (chunk : List ρ → β) (combine : List β → β) (aggregate : List β → γ) {δ : Type} (g : γ → δ)
    (parts : List (List ρ)) :
    aca se chunk combine (fun bs => g (aggregate bs)) parts = (aca se chunk combine aggregate parts).map g := by
  unfold aca treeReduce
  cases se with
  | none => rfl
  | some k => simp [Option.map_map, Function.comp_def]

/-- the tree over ANY partitioning computes what the same chunk/aggregate compute on ONE partition holding
    the whole column, provided `aggregate` only depends on the monoid value of its inputs -/
theorem tree_eq_single_partition (m : Mon M) (μ : List ρ → M) (hμ : Hom m μ)
    (chunk : List ρ → β) (combine : List β → β) (aggregate : List β → γ) (h : β → M)
    (parts : List (List ρ)) (hparts : parts ≠ [])
    (hchunk : ∀ p, h (chunk p) = μ p)
    (hcomb : ∀ bs, bs ≠ [] → h (combine bs) = m.fold (bs.map h))
    (hagg : ∀ bs bs', bs ≠ [] → bs' ≠ [] → m.fold (bs.map h) = m.fold (bs'.map h) → aggregate bs = aggregate bs')
    (se : Option Nat) (hse : ∀ k, se = some k → 2 ≤ k) :
    aca se chunk combine aggregate parts = some (aggregate [chunk parts.flatten]) := by
  have hkeys : m.fold ((parts.map chunk).map h) = m.fold ([chunk parts.flatten].map h) := by
    have h1 : (parts.map chunk).map h = parts.map μ := by
      rw [List.map_map]
      apply List.map_congr_left
      intro p _
      exact hchunk p
    rw [h1, Hom.flatten hμ]
    simp only [List.map_cons, List.map_nil, Mon.fold, List.foldr_cons, List.foldr_nil, m.right_id, hchunk]
  have hne : parts.map chunk ≠ [] := by simpa using hparts
  unfold aca treeReduce
  cases se with
  | none =>
    show some (aggregate (parts.map chunk)) = _
    rw [hagg _ _ hne (by simp) hkeys]
  | some k =>
    obtain ⟨keys', h1, h2, h3⟩ := treeLoop_spec m h combine k (hse k rfl) hcomb ((parts.map chunk).length + 1)
      (parts.map chunk) (by omega)
    simp only [h1, Option.map_some]
    rw [hagg keys' _ (h3 hne) (by simp) (h2.trans hkeys)]

end general2

/-! ### any / all -/
def orMon : Mon Bool := ⟨(· || ·), false, by intro a b c; cases a <;> cases b <;> cases c <;> rfl, by intro a; rfl, by intro a; cases a <;> rfl⟩
def andMon : Mon Bool := ⟨(· && ·), true, by intro a b c; cases a <;> cases b <;> cases c <;> rfl, by intro a; rfl, by intro a; cases a <;> rfl⟩

theorem anyK_fold (bs : List Bool) : anyK bs = orMon.fold (bs.map id) := by
  induction bs with
  | nil => rfl
  | cons b bs ih => simp only [anyK, List.any_cons, id, List.map_cons, Mon.fold, List.foldr_cons] at ih ⊢; rw [ih]; rfl

theorem allK_fold (bs : List Bool) : allK bs = andMon.fold (bs.map id) := by
  induction bs with
  | nil => rfl
  | cons b bs ih => simp only [allK, List.all_cons, id, List.map_cons, Mon.fold, List.foldr_cons] at ih ⊢; rw [ih]; rfl

theorem anyK_hom : Hom orMon anyK := ⟨rfl, by intro p q; simp [anyK, orMon]⟩
theorem allK_hom : Hom andMon allK := ⟨rfl, by intro p q; simp [allK, andMon]⟩

/-- **any** equals pandas for every partitioning and every `split_every`. -/
theorem any_eq_pandas (parts : List (List Bool)) (hparts : parts ≠ []) (se : Option Nat) (hse : ∀ k, se = some k → 2 ≤ k) :
    kernelReduceB se anyK parts = some (anyK parts.flatten) :=
  split_every_irrelevant orMon anyK anyK_hom anyK anyK anyK id id parts hparts
    (by intro p _; rfl) (by intro bs _; exact anyK_fold bs) (by intro bs _; exact anyK_fold bs) se hse

/-- **all** equals pandas for every partitioning and every `split_every`. -/
theorem all_eq_pandas (parts : List (List Bool)) (hparts : parts ≠ []) (se : Option Nat) (hse : ∀ k, se = some k → 2 ≤ k) :
    kernelReduceB se allK parts = some (allK parts.flatten) :=
  split_every_irrelevant andMon allK allK_hom allK allK allK id id parts hparts
    (by intro p _; rfl) (by intro bs _; exact allK_fold bs) (by intro bs _; exact allK_fold bs) se hse

/-! ### idxmax / idxmin -/

/-- `better` is a strict weak order on values -/
structure SWO (better : Int → Int → Bool) : Prop where
  trans : ∀ a b c, better a b = true → better b c = true → better a c = true
  negtrans : ∀ a b c, better a b = false → better b c = false → better a c = false

theorem gtB_swo : SWO gtB := ⟨by intro a b c; simp only [gtB, decide_eq_true_eq]; omega, by intro a b c; simp only [gtB, decide_eq_false_iff_not]; omega⟩
theorem ltB_swo : SWO ltB := ⟨by intro a b c; simp only [ltB, decide_eq_true_eq]; omega, by intro a b c; simp only [ltB, decide_eq_false_iff_not]; omega⟩

def pickOp (better : Int → Int → Bool) : Option (Int × Int) → Option (Int × Int) → Option (Int × Int)
  | none, b => b
  | a, none => a
  | some x, some y => if better y.2 x.2 then some y else some x

/-- "first best row" as a monoid (associative, NOT commutative: ties go to the left operand) -/
def pickMon {better : Int → Int → Bool} (hb : SWO better) : Mon (Option (Int × Int)) where
  op := pickOp better
  e := none
  left_id := by intro a; cases a <;> rfl
  right_id := by intro a; cases a <;> rfl
  assoc := by
    intro a b c
    rcases a with _ | x <;> rcases b with _ | y <;> rcases c with _ | z <;> try rfl
    · show pickOp better (pickOp better (some x) (some y)) none = pickOp better (some x) (some y)
      cases pickOp better (some x) (some y) <;> rfl
    · show pickOp better (pickOp better (some x) (some y)) (some z) = pickOp better (some x) (pickOp better (some y) (some z))
      simp only [pickOp]
      cases hyx : better y.2 x.2 <;> cases hzy : better z.2 y.2 <;> simp only [Bool.false_eq_true, if_false, if_true, hyx, hzy]
      · have := hb.negtrans _ _ _ hzy hyx
        simp [this]
      · have := hb.trans _ _ _ hzy hyx
        simp [this]

theorem argBest_cons (better : Int → Int → Bool) (x : Int × Int) (xs : List (Int × Int)) :
    argBest better (x :: xs) = pickOp better (some x) (argBest better xs) := by
  simp only [argBest]
  cases argBest better xs <;> rfl

theorem argBest_fold {better} (hb : SWO better) (l : List (Int × Int)) : argBest better l = (pickMon hb).fold (l.map some) := by
  induction l with
  | nil => rfl
  | cons x xs ih => rw [argBest_cons, ih]; rfl

theorem argBest_hom {better} (hb : SWO better) : Hom (pickMon hb) (argBest better) := by
  constructor
  · rfl
  · intro p q
    rw [argBest_fold hb (p ++ q), argBest_fold hb p, argBest_fold hb q, List.map_append, Mon.fold_append]

theorem validRows_append (p q : List LRow) : validRows (p ++ q) = validRows p ++ validRows q := by
  simp [validRows, List.filterMap_append]

theorem argBest_toList (better) (o : Option (Int × Int)) : argBest better o.toList = o := by
  cases o <;> simp [argBest]

theorem argBest_idxCombine {better} (bs : List (List (Int × Int))) :
    argBest better (idxCombine better bs) = argBest better bs.flatten := by
  simp only [idxCombine]
  split
  · rfl
  · exact argBest_toList _ _

theorem head_idxCombine {better} (bs : List (List (Int × Int))) :
    (idxCombine better bs).head? = argBest better bs.flatten := by
  simp only [idxCombine]
  split
  · rename_i hlen
    rcases hx : bs.flatten with _ | ⟨a, _ | ⟨b, t⟩⟩
    · rfl
    · simp [argBest]
    · rw [hx] at hlen; simp at hlen
  · cases argBest better bs.flatten <;> rfl

/-- **idxmax / idxmin** (Series, skipna=True) equals pandas for every partitioning (empty and all-NA partitions
    included) and every `split_every`: the label of the FIRST best valid row of the concatenated series, and
    ValueError exactly when pandas raises (no valid row at all). -/
theorem idx_eq_pandas {better} (hb : SWO better) (parts : List (List LRow)) (hparts : parts ≠ [])
    (se : Option Nat) (hse : ∀ k, se = some k → 2 ≤ k) :
    daskIdx se better parts = some (idxK better parts.flatten) := by
  have hμ : Hom (pickMon hb) (fun p : List LRow => argBest better (validRows p)) := by
    constructor
    · rfl
    · intro p q; rw [validRows_append]; exact (argBest_hom hb).append _ _
  have hfl : ∀ bs : List (List (Int × Int)), argBest better bs.flatten = (pickMon hb).fold (bs.map (argBest better)) :=
    fun bs => (Hom.flatten (argBest_hom hb) bs).symm
  exact split_every_irrelevant (pickMon hb) _ hμ (idxChunk better) (idxCombine better) (idxAgg better)
    (argBest better) (fun o => o.map (·.1)) parts hparts
    (by intro p _; exact argBest_toList _ _)
    (by intro bs _; rw [argBest_idxCombine, hfl])
    (by intro bs _; simp only [idxAgg, head_idxCombine, hfl])
    se hse

theorem idxmax_eq_pandas (parts : List (List LRow)) (hparts : parts ≠ []) (se : Option Nat) (hse : ∀ k, se = some k → 2 ≤ k) :
    daskIdx se gtB parts = some (idxK gtB parts.flatten) := idx_eq_pandas gtB_swo parts hparts se hse
theorem idxmin_eq_pandas (parts : List (List LRow)) (hparts : parts ≠ []) (se : Option Nat) (hse : ∀ k, se = some k → 2 ≤ k) :
    daskIdx se ltB parts = some (idxK ltB parts.flatten) := idx_eq_pandas ltB_swo parts hparts se hse

example : daskIdx (some 2) gtB [[(0, none)], [], [(1, some 3), (2, some 5)], [(3, some 5)], [(4, some 1)]] = some (some 2) := by decide
example : daskIdx (some 2) gtB [[(0, none)], [], [(1, none)]] = some none := by decide

/-! ### value_counts -/

/-- pointwise addition of count functions -/
def fnMon : Mon (Cell → Nat) where
  op f g := fun k => f k + g k
  e := fun _ => 0
  assoc := by intro a b c; funext k; simp [Nat.add_assoc]
  left_id := by intro a; funext k; simp
  right_id := by intro a; funext k; simp

/-- total count recorded for key `k` in a list of (key, count) pairs -/
def sumKey (kv : List (Cell × Nat)) (k : Cell) : Nat := (kv.map (fun e => if e.1 == k then e.2 else 0)).foldr (· + ·) 0

/-- the same with the `dropna` rule of `groupby(level=0, dropna=…)` / `value_counts(dropna=…)` -/
def sumKeyD (dropna : Bool) (kv : List (Cell × Nat)) (k : Cell) : Nat := if dropna && k.isNone then 0 else sumKey kv k

theorem sumKey_append (a b : List (Cell × Nat)) (k : Cell) : sumKey (a ++ b) k = sumKey a k + sumKey b k := by
  induction a with
  | nil => simp [sumKey]
  | cons x xs ih => simp only [sumKey, List.cons_append, List.map_cons, List.foldr_cons] at ih ⊢; rw [ih]; omega

theorem vcLookup_vcAdd (k : Cell) (n : Nat) (t : List (Cell × Nat)) (k' : Cell) :
    vcLookup (vcAdd k n t) k' = vcLookup t k' + (if k == k' then n else 0) := by
  induction t with
  | nil => by_cases h : k = k' <;> simp [vcAdd, vcLookup, h]
  | cons e rest ih =>
    obtain ⟨k'', m⟩ := e
    simp only [vcAdd]
    by_cases h1 : k'' = k
    · subst h1
      by_cases h2 : k'' = k' <;> simp [vcLookup, h2]
    · have h1' : (k'' == k) = false := by simpa using h1
      simp only [h1', Bool.false_eq_true, if_false]
      by_cases h2 : k'' = k'
      · subst h2
        have : (k == k'') = false := by simpa using (fun h => h1 h.symm)
        simp [vcLookup, this]
      · have h2' : (k'' == k') = false := by simpa using h2
        simp only [vcLookup, List.find?_cons, h2'] at ih ⊢
        exact ih

theorem vcLookup_foldl (kv : List (Cell × Nat)) (t : List (Cell × Nat)) (k : Cell) :
    vcLookup (kv.foldl (fun acc e => vcAdd e.1 e.2 acc) t) k = vcLookup t k + sumKey kv k := by
  induction kv generalizing t with
  | nil => simp [sumKey]
  | cons e rest ih =>
    simp only [List.foldl_cons, ih, vcLookup_vcAdd, sumKey, List.map_cons, List.foldr_cons]
    omega

theorem sumKey_cons (e : Cell × Nat) (rest : List (Cell × Nat)) (k : Cell) :
    sumKey (e :: rest) k = (if e.1 == k then e.2 else 0) + sumKey rest k := by
  simp [sumKey]

theorem sumKey_filter_dropna (dropna : Bool) (kv : List (Cell × Nat)) (k : Cell) :
    sumKey (kv.filter (fun e => !dropna || e.1.isSome)) k = sumKeyD dropna kv k := by
  cases dropna with
  | false => simp [sumKeyD, List.filter_eq_self.mpr]
  | true =>
    simp only [Bool.not_true, Bool.false_or, sumKeyD, Bool.true_and]
    induction kv with
    | nil => simp [sumKey]
    | cons e rest ih =>
      obtain ⟨k', m⟩ := e
      cases k' with
      | none =>
        rw [List.filter_cons_of_neg (by simp), ih, sumKey_cons]
        cases k <;> simp
      | some v =>
        rw [List.filter_cons_of_pos (by simp), sumKey_cons, ih, sumKey_cons]
        cases k <;> simp

/-- the count the built table reports for `k` is the `dropna`-filtered total of the pairs -/
theorem vcLookup_vcOfPairs (dropna : Bool) (kv : List (Cell × Nat)) (k : Cell) :
    vcLookup (vcOfPairs dropna kv) k = sumKeyD dropna kv k := by
  simp only [vcOfPairs, vcLookup_foldl, sumKey_filter_dropna]
  simp [vcLookup]

theorem sumKey_vcAdd (k : Cell) (n : Nat) (t : List (Cell × Nat)) (k' : Cell) :
    sumKey (vcAdd k n t) k' = sumKey t k' + (if k == k' then n else 0) := by
  induction t with
  | nil => simp [vcAdd, sumKey]
  | cons e rest ih =>
    obtain ⟨k'', m⟩ := e
    simp only [vcAdd]
    by_cases h1 : k'' = k
    · subst h1
      simp only [beq_self_eq_true, if_true, sumKey_cons]
      by_cases h2 : k'' = k' <;> simp [h2] <;> omega
    · have h1' : (k'' == k) = false := by simpa using h1
      simp only [h1', Bool.false_eq_true, if_false, sumKey_cons, ih]
      omega

theorem sumKey_foldl (kv t : List (Cell × Nat)) (k : Cell) :
    sumKey (kv.foldl (fun acc e => vcAdd e.1 e.2 acc) t) k = sumKey t k + sumKey kv k := by
  induction kv generalizing t with
  | nil => simp [sumKey]
  | cons e rest ih =>
    simp only [List.foldl_cons, ih, sumKey_vcAdd, sumKey_cons]
    omega

theorem sumKeyD_vcOfPairs (dropna : Bool) (kv : List (Cell × Nat)) (k : Cell) :
    sumKeyD dropna (vcOfPairs dropna kv) k = sumKeyD dropna kv k := by
  simp only [sumKeyD]
  split
  · rfl
  · have := sumKey_filter_dropna dropna kv k
    simp only [sumKeyD] at this
    rename_i hc
    simp only [hc] at this
    rw [vcOfPairs, sumKey_foldl, this]
    simp [sumKey]

theorem sumKeyD_hom (dropna : Bool) : Hom fnMon (sumKeyD dropna) := by
  constructor
  · funext k; simp [sumKeyD, sumKey, fnMon]
  · intro p q; funext k
    simp only [sumKeyD, fnMon]
    split <;> simp [sumKey_append]

theorem count_eq_sumKey (p : List Cell) (k : Cell) : p.count k = sumKey (p.map (fun c => (c, 1))) k := by
  induction p with
  | nil => simp [sumKey]
  | cons c rest ih =>
    rw [List.map_cons, sumKey_cons, ← ih, List.count_cons]
    by_cases h : c = k <;> simp [h] <;> omega

theorem countKey_hom (dropna : Bool) : Hom fnMon (countKey dropna) := by
  constructor
  · funext k; simp [countKey, fnMon]
  · intro p q; funext k
    simp only [countKey, fnMon]
    split <;> simp [List.count_append]

/-- **value_counts(dropna)** equals pandas for every partitioning and every `split_every`: for every key the count
    in the table the tree produces is the number of occurrences in the concatenated column (NaN is a key exactly
    when `dropna=False`). -/
theorem value_counts_eq_pandas (dropna : Bool) (parts : List (List Cell)) (hparts : parts ≠ [])
    (se : Option Nat) (hse : ∀ k, se = some k → 2 ≤ k) :
    ∃ out, daskValueCounts se dropna parts = some out ∧ ∀ k, vcLookup out k = countKey dropna parts.flatten k := by
  have key := split_every_irrelevant fnMon (countKey dropna) (countKey_hom dropna)
    (vcChunk dropna) (vcCombine dropna) (fun bs => vcLookup (vcCombine dropna bs)) (sumKeyD dropna) id parts hparts
    (by
      intro p _; funext k
      rw [vcChunk, sumKeyD_vcOfPairs]
      simp only [sumKeyD, countKey, count_eq_sumKey])
    (by
      intro bs _; funext k
      simp only [vcCombine, sumKeyD_vcOfPairs]
      rw [← Hom.flatten (sumKeyD_hom dropna) bs])
    (by
      intro bs _; funext k
      simp only [vcCombine, vcLookup_vcOfPairs, id]
      rw [← Hom.flatten (sumKeyD_hom dropna) bs])
    se hse
  rw [aca_map_agg se (vcChunk dropna) (vcCombine dropna) (vcCombine dropna) vcLookup parts] at key
  cases hd : aca se (vcChunk dropna) (vcCombine dropna) (vcCombine dropna) parts with
  | none => rw [hd] at key; cases key
  | some out =>
    rw [hd] at key
    simp only [Option.map_some, Option.some.injEq, id] at key
    exact ⟨out, hd, fun k => congrFun key k⟩

example : daskValueCounts (some 2) false [[some 1, none], [], [none, some 1], [some 2]] = some [(some 1, 2), (none, 2), (some 2, 1)] := by decide
example : daskValueCounts (some 2) true [[some 1, none], [], [none, some 1], [some 2]] = some [(some 1, 2), (some 2, 1)] := by decide

/-! ### top-k (nlargest / nsmallest) -/

/-- the order used by `nlargest` (descending) / `nsmallest` (ascending): transitive, total, antisymmetric -/
structure TotalLE (le : Int → Int → Bool) : Prop where
  trans : ∀ a b c, le a b = true → le b c = true → le a c = true
  total : ∀ a b, (le a b || le b a) = true
  antisymm : ∀ a b, le a b = true → le b a = true → a = b

def geB (a b : Int) : Bool := decide (b ≤ a)
def leB (a b : Int) : Bool := decide (a ≤ b)
theorem geB_total : TotalLE geB :=
  ⟨by intro a b c; simp only [geB, decide_eq_true_eq]; omega, by intro a b; simp only [geB, Bool.or_eq_true, decide_eq_true_eq]; omega,
   by intro a b; simp only [geB, decide_eq_true_eq]; omega⟩
theorem leB_total : TotalLE leB :=
  ⟨by intro a b c; simp only [leB, decide_eq_true_eq]; omega, by intro a b; simp only [leB, Bool.or_eq_true, decide_eq_true_eq]; omega,
   by intro a b; simp only [leB, decide_eq_true_eq]; omega⟩

abbrev Sorted (le : Int → Int → Bool) (l : List Int) : Prop := l.Pairwise (fun a b => le a b = true)

theorem sorted_unique {le} (hle : TotalLE le) {l₁ l₂ : List Int} (h₁ : Sorted le l₁) (h₂ : Sorted le l₂) (hp : l₁.Perm l₂) : l₁ = l₂ :=
  List.Perm.eq_of_pairwise (le := fun a b => le a b = true) (fun a b _ _ hab hba => hle.antisymm a b hab hba) h₁ h₂ hp

theorem sorted_mergeSort {le} (hle : TotalLE le) (l : List Int) : Sorted le (l.mergeSort le) :=
  List.pairwise_mergeSort (le := le) hle.trans hle.total l

theorem sorted_merge {le} (hle : TotalLE le) {a b : List Int} (ha : Sorted le a) (hb : Sorted le b) : Sorted le (a.merge b le) :=
  List.pairwise_merge (le := le) hle.trans hle.total a b ha hb

/-- sorting a concatenation = merging the sorted halves -/
theorem mergeSort_append {le} (hle : TotalLE le) (a b : List Int) :
    (a ++ b).mergeSort le = (a.mergeSort le).merge (b.mergeSort le) le := by
  apply sorted_unique hle (sorted_mergeSort hle _) (sorted_merge hle (sorted_mergeSort hle _) (sorted_mergeSort hle _))
  exact (List.mergeSort_perm _ le).trans
    (((List.mergeSort_perm a le).append (List.mergeSort_perm b le)).symm.trans (List.merge_perm_append le).symm)

/-- the first `k` elements of a merge only depend on the first `j ≥ k` elements of each operand -/
theorem take_merge_take (le : Int → Int → Bool) : ∀ (k : Nat) (s t : List Int) (j : Nat), k ≤ j →
    (s.merge t le).take k = ((s.take j).merge t le).take k ∧ (s.merge t le).take k = (s.merge (t.take j) le).take k := by
  intro k
  induction k with
  | zero => intro s t j _; simp
  | succ k ihk =>
    intro s
    induction s with
    | nil => intro t j hj; simp [List.take_take, Nat.min_eq_left hj]
    | cons a s ihs =>
      intro t
      induction t with
      | nil => intro j hj; simp [List.take_take, Nat.min_eq_left hj]
      | cons b t iht =>
        intro j hj
        obtain ⟨j', rfl⟩ : ∃ j', j = j' + 1 := ⟨j - 1, by omega⟩
        simp only [List.take_succ_cons]
        by_cases hab : le a b = true
        · simp only [List.cons_merge_cons_pos le _ _ hab, List.take_succ_cons]
          constructor
          · congr 1
            exact (ihk s (b :: t) j' (by omega)).1
          · congr 1
            have := (ihk s (b :: t) (j' + 1) (by omega)).2
            simpa using this
        · simp only [List.cons_merge_cons_neg le _ _ hab, List.take_succ_cons]
          constructor
          · congr 1
            have := (ihk (a :: s) t (j' + 1) (by omega)).1
            simpa using this
          · congr 1
            exact (ihk (a :: s) t j' (by omega)).2

theorem sorted_take {le} {l : List Int} (h : Sorted le l) (n : Nat) : Sorted le (l.take n) :=
  List.Pairwise.sublist (List.take_sublist n l) h

/-- top-n tables: sorted lists of at most `n` values -/
def TopN (le : Int → Int → Bool) (n : Nat) := { l : List Int // Sorted le l ∧ l.length ≤ n }

def topMon {le} (hle : TotalLE le) (n : Nat) : Mon (TopN le n) where
  op a b := ⟨(a.1.merge b.1 le).take n, sorted_take (sorted_merge hle a.2.1 b.2.1) n, by simp; omega⟩
  e := ⟨[], List.Pairwise.nil, by simp⟩
  left_id := by
    intro a; apply Subtype.ext
    show ([].merge a.1 le).take n = a.1
    simp [List.take_of_length_le a.2.2]
  right_id := by
    intro a; apply Subtype.ext
    show (a.1.merge [] le).take n = a.1
    simp [List.take_of_length_le a.2.2]
  assoc := by
    intro a b c; apply Subtype.ext
    show (((a.1.merge b.1 le).take n).merge c.1 le).take n = (a.1.merge ((b.1.merge c.1 le).take n) le).take n
    rw [← (take_merge_take le n (a.1.merge b.1 le) c.1 n (Nat.le_refl _)).1,
        ← (take_merge_take le n a.1 (b.1.merge c.1 le) n (Nat.le_refl _)).2]
    congr 1
    apply sorted_unique hle (sorted_merge hle (sorted_merge hle a.2.1 b.2.1) c.2.1) (sorted_merge hle a.2.1 (sorted_merge hle b.2.1 c.2.1))
    have h1 : ((a.1.merge b.1 le).merge c.1 le).Perm ((a.1 ++ b.1) ++ c.1) :=
      (List.merge_perm_append le).trans ((List.merge_perm_append le).append_right _)
    have h2 : (a.1.merge (b.1.merge c.1 le) le).Perm (a.1 ++ (b.1 ++ c.1)) :=
      (List.merge_perm_append le).trans ((List.merge_perm_append le).append_left _)
    rw [List.append_assoc] at h1
    exact h1.trans h2.symm

def topOf {le} (hle : TotalLE le) (n : Nat) (l : List Int) : TopN le n :=
  ⟨topK le n l, sorted_take (sorted_mergeSort hle l) n, by simp [topK]; omega⟩

theorem topOf_hom {le} (hle : TotalLE le) (n : Nat) : Hom (topMon hle n) (topOf hle n) := by
  constructor
  · apply Subtype.ext; simp [topOf, topK, topMon]
  · intro p q
    apply Subtype.ext
    show ((p ++ q).mergeSort le).take n = (((p.mergeSort le).take n).merge ((q.mergeSort le).take n) le).take n
    rw [mergeSort_append hle, (take_merge_take le n _ _ n (Nat.le_refl _)).1, (take_merge_take le n _ _ n (Nat.le_refl _)).2]

theorem topK_topK {le} (hle : TotalLE le) (n : Nat) (l : List Int) : topK le n (topK le n l) = topK le n l := by
  simp only [topK]
  rw [List.mergeSort_of_pairwise (sorted_take (sorted_mergeSort hle l) n), List.take_take, Nat.min_self]

/-- **nlargest / nsmallest** (values of a Series): for every partitioning and every `split_every` the tree of
    per-partition top-`n` tables yields the top `n` of the concatenated column. -/
theorem topk_eq_pandas {le} (hle : TotalLE le) (n : Nat) (parts : List (List Int)) (hparts : parts ≠ [])
    (se : Option Nat) (hse : ∀ k, se = some k → 2 ≤ k) :
    daskTopK se le n parts = some (topK le n parts.flatten) := by
  have hfl : ∀ bs : List (List Int), topOf hle n bs.flatten = (topMon hle n).fold (bs.map (topOf hle n)) :=
    fun bs => (Hom.flatten (topOf_hom hle n) bs).symm
  exact split_every_irrelevant (topMon hle n) (topOf hle n) (topOf_hom hle n) (topK le n)
    (fun bs => topK le n bs.flatten) (fun bs => topK le n bs.flatten) (topOf hle n) (fun m => m.1) parts hparts
    (by intro p _; apply Subtype.ext; exact topK_topK hle n p)
    (by intro bs _; rw [← hfl]; apply Subtype.ext; exact topK_topK hle n _)
    (by intro bs _; rw [← hfl]; rfl)
    se hse

theorem nlargest_eq_pandas (n : Nat) (parts : List (List Int)) (hparts : parts ≠ []) (se : Option Nat) (hse : ∀ k, se = some k → 2 ≤ k) :
    daskTopK se geB n parts = some (topK geB n parts.flatten) := topk_eq_pandas geB_total n parts hparts se hse
theorem nsmallest_eq_pandas (n : Nat) (parts : List (List Int)) (hparts : parts ≠ []) (se : Option Nat) (hse : ∀ k, se = some k → 2 ≤ k) :
    daskTopK se leB n parts = some (topK leB n parts.flatten) := topk_eq_pandas leB_total n parts hparts se hse

example : ([[1, 5], [], [3, 5], [4], [0]] : List (List Int)) ≠ [] := by decide

/-- instance of `tree_eq_single_partition` (non-vacuity of its hypotheses): `sum` over any partitioning is what the same
    chunk / aggregate compute when the whole column sits in ONE partition -/
theorem sum_tree_eq_single_partition (parts : List (List Cell)) (hparts : parts ≠ []) (se : Option Nat)
    (hse : ∀ k, se = some k → 2 ≤ k) :
    kernelReduce se (sumK true) parts = some (sumK true [sumK true parts.flatten]) := by
  exact tree_eq_single_partition addMon sumValid sumValid_hom (sumK true) (sumK true) (sumK true) (fun c => c.getD 0)
    parts hparts
    (by intro p; simp [sumK_true])
    (by intro bs _; rw [sumK_true]; simp only [Option.getD_some]; exact sumValid_cells bs)
    (by
      intro bs bs' _ _ h
      rw [sumK_true, sumK_true, sumValid_cells bs, sumValid_cells bs', h])
    se hse

/-- **mean(skipna=False)** as the exact pair (NaN-absorbing sum, count) -/
theorem mean_noskip_eq_pandas (parts : List (List Cell)) (hparts : parts ≠ []) (se : Option Nat) (hse : ∀ k, se = some k → 2 ≤ k) :
    daskMean se false parts = some (sumK false parts.flatten, countK parts.flatten) := by
  simp [daskMean, sum_noskip_eq_pandas parts hparts se hse, count_eq_pandas parts hparts se hse]

end Dask.C37
