import DaskModel.Lemmas.TreeReduceLemmas
/-!
# C37 — DataFrame reductions and aggregations equal pandas

Full statement (for the modelled logic): for every partitioning of a column (empty partitions
included), every `split_every` (`False`, `None` → 8, any int ≥ 2) the lowered
`ApplyConcatApply` → `TreeReduce(Chunk)` computes the pandas reduction of the concatenated column.

* `split_every_irrelevant` — if chunk / combine / aggregate factor through a monoid homomorphism
  (`h (chunk p) = μ p`, `h (combine bs) = fold (map h bs)`, `aggregate bs = fin (fold (map h bs))`)
  then the tree result is `fin (μ (parts.flatten))` whatever `split_every` is, and the loop
  terminates (`treeLoop` never runs out of the fuel `len + 1`).
* instances: `sum_eq_pandas` / `prod_eq_pandas` / `max_eq_pandas` / `min_eq_pandas` (skipna=True),
  `sum_noskip_eq_pandas` (skipna=False: NaN-absorbing monoid, empty partitions fine), `count_eq_pandas`,
  `mean_eq_pandas` (as the exact pair (Σ, n) that `MeanAggregate` divides), `var_monoid` ((n, Σ, Σ²) is
  a homomorphic image of the column: the exact-algebra content of var/std/sem).
* `max_noskip_refuted` — `max/min(skipna=False)` is FALSE of the code when a partition is empty
  (`[[], [1]]` gives NaN, pandas 1); `max_noskip_partial` holds when no partition is empty (the
  complement of the finding).

Outside the theorems: float rounding (Chan's merge for var is validated numerically), `min_count`,
dtypes of results, idxmin/idxmax, nunique, value_counts, mode, nlargest/nsmallest, cov/corr,
describe, axis=1 (row-local ⇒ C36) — API level vs pandas.
-/
namespace Dask.C37
open Dask.TreeReduce

section general
variable {M β γ : Type}

theorem treeLoop_spec (m : Mon M) (h : β → M) (combine : List β → β) (k : Nat) (hk : 2 ≤ k)
    (hcomb : ∀ bs, bs ≠ [] → h (combine bs) = m.fold (bs.map h)) :
    ∀ (fuel : Nat) (keys : List β), keys.length < fuel →
      ∃ keys', treeLoop combine k fuel keys = some keys' ∧ m.fold (keys'.map h) = m.fold (keys.map h) ∧
        (keys ≠ [] → keys' ≠ []) := by
  intro fuel
  induction fuel with
  | zero => intro keys h0; omega
  | succ fuel ih =>
    intro keys hlen
    simp only [treeLoop]
    by_cases hgt : keys.length > k
    · simp only [hgt, if_true]
      have hlt := partitionAll_length_lt k hk keys hgt
      obtain ⟨keys', h1, h2, h3⟩ := ih ((partitionAll k keys).map combine) (by simp only [List.length_map]; omega)
      refine ⟨keys', h1, ?_, ?_⟩
      · rw [h2, List.map_map]
        have : (partitionAll k keys).map (h ∘ combine) = (partitionAll k keys).map (fun b => m.fold (b.map h)) := by
          apply List.map_congr_left
          intro b hb
          exact hcomb b (partitionAll_nonempty k (by omega) keys b hb)
        rw [this]
        have h4 : (partitionAll k keys).map (fun b => m.fold (b.map h)) = ((partitionAll k keys).map (List.map h)).map m.fold := by
          rw [List.map_map]; rfl
        rw [h4, Mon.fold_flatten, ← List.map_flatten, partitionAll_flatten k (by omega)]
      · intro hne
        apply h3
        intro hnil
        have := partitionAll_ne_nil k keys hne
        simp only [List.map_eq_nil_iff] at hnil
        exact this hnil
    · simp only [hgt, if_false]
      exact ⟨keys, rfl, rfl, id⟩

/-- **C37 (core)**: the tree reduction is independent of `split_every` and equals the reduction of
    the concatenated column; the loop terminates. -/
theorem split_every_irrelevant (m : Mon M) (μ : List Cell → M) (hμ : Hom m μ)
    (chunk : List Cell → β) (combine : List β → β) (aggregate : List β → γ) (h : β → M) (fin : M → γ)
    (parts : List (List Cell)) (hparts : parts ≠ [])
    (hchunk : ∀ p ∈ parts, h (chunk p) = μ p)
    (hcomb : ∀ bs, bs ≠ [] → h (combine bs) = m.fold (bs.map h))
    (hagg : ∀ bs, bs ≠ [] → aggregate bs = fin (m.fold (bs.map h)))
    (se : Option Nat) (hse : ∀ k, se = some k → 2 ≤ k) :
    aca se chunk combine aggregate parts = some (fin (μ parts.flatten)) := by
  have hkeys : m.fold ((parts.map chunk).map h) = μ parts.flatten := by
    rw [List.map_map, ← hμ.flatten]
    congr 1
    apply List.map_congr_left
    intro p hp
    exact hchunk p hp
  have hne : parts.map chunk ≠ [] := by simpa using hparts
  unfold aca treeReduce
  cases se with
  | none =>
    show some (aggregate (parts.map chunk)) = _
    rw [hagg _ hne, hkeys]
  | some k =>
    obtain ⟨keys', h1, h2, h3⟩ := treeLoop_spec m h combine k (hse k rfl) hcomb ((parts.map chunk).length + 1)
      (parts.map chunk) (by omega)
    simp only [h1, Option.map_some]
    rw [hagg keys' (h3 hne), h2, hkeys]

/-- corollary: two different `split_every` give the same answer -/
theorem split_every_agree (m : Mon M) (μ : List Cell → M) (hμ : Hom m μ)
    (chunk : List Cell → β) (combine : List β → β) (aggregate : List β → γ) (h : β → M) (fin : M → γ)
    (parts : List (List Cell)) (hparts : parts ≠ [])
    (hchunk : ∀ p ∈ parts, h (chunk p) = μ p)
    (hcomb : ∀ bs, bs ≠ [] → h (combine bs) = m.fold (bs.map h))
    (hagg : ∀ bs, bs ≠ [] → aggregate bs = fin (m.fold (bs.map h)))
    (k1 k2 : Nat) (h1 : 2 ≤ k1) (h2 : 2 ≤ k2) :
    aca (some k1) chunk combine aggregate parts = aca (some k2) chunk combine aggregate parts ∧
    aca (some k1) chunk combine aggregate parts = aca none chunk combine aggregate parts := by
  rw [split_every_irrelevant m μ hμ chunk combine aggregate h fin parts hparts hchunk hcomb hagg (some k1)
        (by intro k hk; cases hk; exact h1),
      split_every_irrelevant m μ hμ chunk combine aggregate h fin parts hparts hchunk hcomb hagg (some k2)
        (by intro k hk; cases hk; exact h2),
      split_every_irrelevant m μ hμ chunk combine aggregate h fin parts hparts hchunk hcomb hagg none
        (by intro k hk; cases hk)]
  exact ⟨rfl, rfl⟩

end general

/-- `split_every` values dask accepts are ≥ 2 (or False) -/
theorem splitEvery_ge_two (raw : SE) (se : Option Nat) (h : splitEvery raw = some se) : ∀ k, se = some k → 2 ≤ k := by
  intro k hk
  subst hk
  cases raw with
  | default => simp [splitEvery] at h; omega
  | off => simp [splitEvery] at h
  | n i =>
    simp only [splitEvery] at h
    split at h
    · simp only [Option.some.injEq] at h; omega
    · cases h

/-! ## instances -/

/-- additive monoid of integers -/
def addMon : Mon Int := ⟨(· + ·), 0, Int.add_assoc, Int.zero_add, Int.add_zero⟩
def mulMon : Mon Int := ⟨(· * ·), 1, Int.mul_assoc, Int.one_mul, Int.mul_one⟩
def natAddMon : Mon Nat := ⟨(· + ·), 0, Nat.add_assoc, Nat.zero_add, Nat.add_zero⟩

theorem valid_append (p q : List Cell) : valid (p ++ q) = valid p ++ valid q := by
  simp [valid, List.filterMap_append]

theorem foldl_add_eq (l : List Int) (a : Int) : l.foldl (· + ·) a = a + l.foldr (· + ·) 0 := by
  induction l generalizing a with
  | nil => simp
  | cons x xs ih => simp only [List.foldl_cons, List.foldr_cons]; rw [ih]; omega

theorem foldl_mul_eq (l : List Int) (a : Int) : l.foldl (· * ·) a = a * l.foldr (· * ·) 1 := by
  induction l generalizing a with
  | nil => simp
  | cons x xs ih => simp only [List.foldl_cons, List.foldr_cons]; rw [ih, Int.mul_assoc]

theorem foldl_nat_add_eq (l : List Nat) (a : Nat) : l.foldl (· + ·) a = a + l.foldr (· + ·) 0 := by
  induction l generalizing a with
  | nil => simp
  | cons x xs ih => simp only [List.foldl_cons, List.foldr_cons]; rw [ih]; omega

/-- Σ of the valid cells is a homomorphism -/
def sumValid (p : List Cell) : Int := (valid p).foldr (· + ·) 0

theorem sumValid_hom : Hom addMon sumValid := by
  constructor
  · simp [sumValid, valid, addMon]
  · intro p q
    simp only [sumValid, valid_append, addMon]
    exact addMon.fold_append (valid p) (valid q)

theorem sumK_true (p : List Cell) : sumK true p = some (sumValid p) := by
  simp [sumK, sumValid, foldl_add_eq]

theorem valid_of_all_some (bs : List Cell) (vs : List Int) (h : bs = vs.map some) : valid bs = vs := by
  subst h
  induction vs with
  | nil => simp [valid]
  | cons v vs ih => simpa [valid] using ih

theorem sumValid_cells (bs : List Cell) : sumValid bs = addMon.fold (bs.map (fun c => c.getD 0)) := by
  simp only [sumValid, addMon, Mon.fold]
  induction bs with
  | nil => simp [valid]
  | cons b bs ih =>
    cases b with
    | none => simpa [valid] using ih
    | some v =>
      simp only [valid, List.filterMap_cons, id, List.foldr_cons, List.map_cons, Option.getD_some] at ih ⊢
      rw [ih]

/-- **sum(skipna=True)** equals pandas for every partitioning and every `split_every`. -/
theorem sum_eq_pandas (parts : List (List Cell)) (hparts : parts ≠ []) (se : Option Nat) (hse : ∀ k, se = some k → 2 ≤ k) :
    kernelReduce se (sumK true) parts = some (sumK true parts.flatten) := by
  have := split_every_irrelevant addMon sumValid sumValid_hom (sumK true) (sumK true) (sumK true)
    (fun c => c.getD 0) (fun s => some s) parts hparts
    (by intro p _; simp [sumK_true])
    (by intro bs _; rw [sumK_true]; simp only [Option.getD_some]; exact sumValid_cells bs)
    (by intro bs _; rw [sumK_true, sumValid_cells bs])
    se hse
  simpa [kernelReduce, sumK_true] using this

/-- count of valid cells -/
theorem countK_hom : Hom natAddMon (fun p => countK p) := by
  constructor
  · simp [countK, valid, natAddMon]
  · intro p q; simp [countK, valid_append, natAddMon]

/-- **count** equals pandas for every partitioning and every `split_every`. -/
theorem count_eq_pandas (parts : List (List Cell)) (hparts : parts ≠ []) (se : Option Nat) (hse : ∀ k, se = some k → 2 ≤ k) :
    daskCount se parts = some (countK parts.flatten) := by
  have hf : ∀ bs : List Nat, bs.foldl (· + ·) 0 = natAddMon.fold (bs.map id) := by
    intro bs
    simp only [List.map_id, Mon.fold, natAddMon, foldl_nat_add_eq]
    omega
  exact split_every_irrelevant natAddMon (fun p => countK p) countK_hom countK _ _ id id parts hparts
    (by intro p _; rfl) (by intro bs _; exact hf bs) (by intro bs _; exact hf bs) se hse

/-- **mean** (as the exact pair Σ, n that `MeanAggregate` divides) equals pandas' pair. -/
theorem mean_eq_pandas (parts : List (List Cell)) (hparts : parts ≠ []) (se : Option Nat) (hse : ∀ k, se = some k → 2 ≤ k) :
    daskMean se true parts = some (sumK true parts.flatten, countK parts.flatten) := by
  simp [daskMean, sum_eq_pandas parts hparts se hse, count_eq_pandas parts hparts se hse]

/-- max over valid cells as a monoid: `none` (nothing valid) is the unit -/
def maxMon : Mon (Option Int) where
  op a b := match a, b with
    | none, b => b
    | a, none => a
    | some x, some y => some (if x < y then y else x)
  e := none
  assoc := by
    intro a b c
    cases a <;> cases b <;> cases c <;> simp
    repeat' split
    all_goals omega
  left_id := by intro a; cases a <;> rfl
  right_id := by intro a; cases a <;> rfl

theorem foldl_maxOpt (l : List Int) (a : Option Int) :
    l.foldl maxOpt a = maxMon.op a (l.foldl maxOpt none) := by
  induction l generalizing a with
  | nil => cases a <;> rfl
  | cons x xs ih =>
    simp only [List.foldl_cons]
    rw [ih (maxOpt a x), ih (maxOpt none x)]
    cases a with
    | none => simp [maxOpt, maxMon]
    | some v =>
      simp only [maxOpt]
      rw [← maxMon.assoc]
      congr 1

def maxValid (p : List Cell) : Option Int := (valid p).foldl maxOpt none

theorem maxValid_hom : Hom maxMon maxValid := by
  constructor
  · rfl
  · intro p q
    simp only [maxValid, valid_append, List.foldl_append]
    exact foldl_maxOpt _ _

theorem maxK_true (p : List Cell) : maxK true p = maxValid p := by simp [maxK, maxValid]

theorem maxValid_cells (bs : List Cell) : maxValid bs = maxMon.fold (bs.map id) := by
  induction bs with
  | nil => rfl
  | cons b bs ih =>
    have happ := maxValid_hom.append [b] bs
    simp only [List.singleton_append] at happ
    rw [happ, ih]
    simp only [List.map_cons, id, Mon.fold, List.foldr_cons]
    congr 1
    cases b <;> simp [maxValid, valid, maxOpt]

/-- **max(skipna=True)** equals pandas for every partitioning and every `split_every`. -/
theorem max_eq_pandas (parts : List (List Cell)) (hparts : parts ≠ []) (se : Option Nat) (hse : ∀ k, se = some k → 2 ≤ k) :
    kernelReduce se (maxK true) parts = some (maxK true parts.flatten) := by
  have := split_every_irrelevant maxMon maxValid maxValid_hom (maxK true) (maxK true) (maxK true) id id parts hparts
    (by intro p _; simp [maxK_true]) (by intro bs _; simp only [maxK_true, id]; exact maxValid_cells bs)
    (by intro bs _; simp only [maxK_true, id]; exact maxValid_cells bs) se hse
  simpa [kernelReduce, maxK_true] using this

/-- min over valid cells as a monoid -/
def minMon : Mon (Option Int) where
  op a b := match a, b with
    | none, b => b
    | a, none => a
    | some x, some y => some (if y < x then y else x)
  e := none
  assoc := by
    intro a b c
    cases a <;> cases b <;> cases c <;> simp
    repeat' split
    all_goals omega
  left_id := by intro a; cases a <;> rfl
  right_id := by intro a; cases a <;> rfl

theorem foldl_minOpt (l : List Int) (a : Option Int) :
    l.foldl minOpt a = minMon.op a (l.foldl minOpt none) := by
  induction l generalizing a with
  | nil => cases a <;> rfl
  | cons x xs ih =>
    simp only [List.foldl_cons]
    rw [ih (minOpt a x), ih (minOpt none x)]
    cases a with
    | none => simp [minOpt, minMon]
    | some v =>
      simp only [minOpt]
      rw [← minMon.assoc]
      congr 1

def minValid (p : List Cell) : Option Int := (valid p).foldl minOpt none

theorem minValid_hom : Hom minMon minValid := by
  constructor
  · rfl
  · intro p q
    simp only [minValid, valid_append, List.foldl_append]
    exact foldl_minOpt _ _

theorem minK_true (p : List Cell) : minK true p = minValid p := by simp [minK, minValid]

theorem minValid_cells (bs : List Cell) : minValid bs = minMon.fold (bs.map id) := by
  induction bs with
  | nil => rfl
  | cons b bs ih =>
    have happ := minValid_hom.append [b] bs
    simp only [List.singleton_append] at happ
    rw [happ, ih]
    simp only [List.map_cons, id, Mon.fold, List.foldr_cons]
    congr 1
    cases b <;> simp [minValid, valid, minOpt]

/-- **min(skipna=True)** equals pandas for every partitioning and every `split_every`. -/
theorem min_eq_pandas (parts : List (List Cell)) (hparts : parts ≠ []) (se : Option Nat) (hse : ∀ k, se = some k → 2 ≤ k) :
    kernelReduce se (minK true) parts = some (minK true parts.flatten) := by
  have := split_every_irrelevant minMon minValid minValid_hom (minK true) (minK true) (minK true) id id parts hparts
    (by intro p _; simp [minK_true]) (by intro bs _; simp only [minK_true, id]; exact minValid_cells bs)
    (by intro bs _; simp only [minK_true, id]; exact minValid_cells bs) se hse
  simpa [kernelReduce, minK_true] using this

/-- Π of the valid cells is a homomorphism -/
def prodValid (p : List Cell) : Int := (valid p).foldr (· * ·) 1

theorem prodValid_hom : Hom mulMon prodValid := by
  constructor
  · simp [prodValid, valid, mulMon]
  · intro p q
    simp only [prodValid, valid_append, mulMon]
    exact mulMon.fold_append (valid p) (valid q)

theorem prodK_true (p : List Cell) : prodK true p = some (prodValid p) := by
  simp [prodK, prodValid, foldl_mul_eq]

theorem prodValid_cells (bs : List Cell) : prodValid bs = mulMon.fold (bs.map (fun c => c.getD 1)) := by
  simp only [prodValid, mulMon, Mon.fold]
  induction bs with
  | nil => simp [valid]
  | cons b bs ih =>
    cases b with
    | none => simpa [valid] using ih
    | some v =>
      simp only [valid, List.filterMap_cons, id, List.foldr_cons, List.map_cons, Option.getD_some] at ih ⊢
      rw [ih]

/-- **prod(skipna=True)** equals pandas for every partitioning and every `split_every`. -/
theorem prod_eq_pandas (parts : List (List Cell)) (hparts : parts ≠ []) (se : Option Nat) (hse : ∀ k, se = some k → 2 ≤ k) :
    kernelReduce se (prodK true) parts = some (prodK true parts.flatten) := by
  have := split_every_irrelevant mulMon prodValid prodValid_hom (prodK true) (prodK true) (prodK true)
    (fun c => c.getD 1) (fun s => some s) parts hparts
    (by intro p _; simp [prodK_true])
    (by intro bs _; rw [prodK_true]; simp only [Option.getD_some]; exact prodValid_cells bs)
    (by intro bs _; rw [prodK_true, prodValid_cells bs])
    se hse
  simpa [kernelReduce, prodK_true] using this

/-- NaN-absorbing addition: the monoid behind `sum(skipna=False)` (empty partitions contribute `some 0`) -/
def addNaMon : Mon (Option Int) where
  op a b := match a, b with
    | some x, some y => some (x + y)
    | _, _ => none
  e := some 0
  assoc := by intro a b c; cases a <;> cases b <;> cases c <;> simp [Int.add_assoc]
  left_id := by intro a; cases a <;> simp
  right_id := by intro a; cases a <;> simp

theorem sumK_false_cons (c : Cell) (p : List Cell) : sumK false (c :: p) = addNaMon.op c (sumK false p) := by
  cases c with
  | none => simp [sumK, addNaMon]
  | some v =>
    by_cases h : p.any Option.isNone = true
    · simp [sumK, h, addNaMon]
    · simp only [sumK, Bool.not_false, Bool.true_and, List.any_cons, Option.isNone_some, Bool.false_or, h,
        Bool.false_eq_true, if_false, addNaMon, valid, List.filterMap_cons, id]
      rw [foldl_add_eq, foldl_add_eq]
      simp

theorem sumK_false_fold (p : List Cell) : sumK false p = addNaMon.fold (p.map id) := by
  induction p with
  | nil => simp [sumK, valid, Mon.fold, addNaMon]
  | cons c p ih => rw [sumK_false_cons, ih]; simp [Mon.fold]

theorem sumK_false_hom : Hom addNaMon (sumK false) := by
  constructor
  · simp [sumK, valid, addNaMon]
  · intro p q
    rw [sumK_false_fold (p ++ q), sumK_false_fold p, sumK_false_fold q, List.map_append, Mon.fold_append]

/-- **sum(skipna=False)** equals pandas for every partitioning (empty partitions included) and every `split_every`. -/
theorem sum_noskip_eq_pandas (parts : List (List Cell)) (hparts : parts ≠ []) (se : Option Nat) (hse : ∀ k, se = some k → 2 ≤ k) :
    kernelReduce se (sumK false) parts = some (sumK false parts.flatten) := by
  have := split_every_irrelevant addNaMon (sumK false) sumK_false_hom (sumK false) (sumK false) (sumK false) id id parts hparts
    (by intro p _; rfl) (by intro bs _; exact sumK_false_fold bs) (by intro bs _; exact sumK_false_fold bs) se hse
  simpa [kernelReduce] using this

/-- refuted: `max(skipna=False)` with an empty partition — the empty chunk yields NaN, which then poisons -/
theorem max_noskip_refuted :
    ¬ ∀ (parts : List (List Cell)), parts ≠ [] →
        kernelReduce none (maxK false) parts = some (maxK false parts.flatten) := by
  intro h
  have := h [[], [some 1]] (by decide)
  revert this
  decide

/-- max with an absorbing NaN and an adjoined unit: the monoid behind `max(skipna=False)` on NON-EMPTY blocks -/
def maxNaMon : Mon (Option Cell) where
  op a b := match a, b with
    | none, b => b
    | a, none => a
    | some none, _ => some none
    | _, some none => some none
    | some (some x), some (some y) => some (some (if x < y then y else x))
  e := none
  assoc := by
    intro a b c
    rcases a with _ | _ | a <;> rcases b with _ | _ | b <;> rcases c with _ | _ | c <;> simp
    repeat' split
    all_goals omega
  left_id := by intro a; rcases a with _ | _ | a <;> rfl
  right_id := by intro a; rcases a with _ | _ | a <;> rfl

def muMaxNa (p : List Cell) : Option Cell := if p.isEmpty then none else some (maxK false p)

theorem maxK_false_cons (c : Cell) (p : List Cell) (hp : p ≠ []) :
    maxK false (c :: p) = match c, maxK false p with
      | none, _ => none
      | _, none => none
      | some x, some y => some (if x < y then y else x) := by
  cases c with
  | none => simp [maxK]
  | some x =>
    by_cases hn : p.any Option.isNone = true
    · simp [maxK, hn]
    · have hvalid : valid p ≠ [] := by
        cases p with
        | nil => exact absurd rfl hp
        | cons d ds =>
          cases d with
          | none => simp at hn
          | some v => simp [valid]
      simp only [maxK, Bool.not_false, Bool.true_and, List.any_cons, Option.isNone_some, Bool.false_or, hn,
        Bool.false_eq_true, if_false, valid, List.filterMap_cons, id, List.foldl_cons]
      have h1 := foldl_maxOpt (List.filterMap id p) (maxOpt none x)
      rw [h1]
      cases hm : List.foldl maxOpt none (List.filterMap id p) with
      | none =>
        exfalso
        have : ∀ (l : List Int) (a : Option Int), l ≠ [] → List.foldl maxOpt a l ≠ none := by
          intro l
          induction l with
          | nil => intro a h; exact absurd rfl h
          | cons y ys ih =>
            intro a _
            simp only [List.foldl_cons]
            by_cases hy : ys = []
            · subst hy; cases a <;> simp [maxOpt]
            · exact ih _ hy
        exact this _ none hvalid hm
      | some y => simp [maxOpt, maxMon]

theorem muMaxNa_cons (c : Cell) (p : List Cell) : muMaxNa (c :: p) = maxNaMon.op (some c) (muMaxNa p) := by
  by_cases hp : p = []
  · subst hp
    cases c <;> simp [muMaxNa, maxK, maxNaMon, valid, maxOpt]
  · have hemp : p.isEmpty = false := by cases p <;> simp_all
    simp only [muMaxNa, List.isEmpty_cons, Bool.false_eq_true, if_false, hemp, maxK_false_cons c p hp]
    cases c <;> cases maxK false p <;> simp [maxNaMon]

theorem muMaxNa_fold (p : List Cell) : muMaxNa p = maxNaMon.fold (p.map some) := by
  induction p with
  | nil => simp [muMaxNa, Mon.fold, maxNaMon]
  | cons c p ih => rw [muMaxNa_cons, ih]; simp [Mon.fold]

theorem muMaxNa_hom : Hom maxNaMon muMaxNa := by
  constructor
  · simp [muMaxNa, maxNaMon]
  · intro p q
    rw [muMaxNa_fold (p ++ q), muMaxNa_fold p, muMaxNa_fold q, List.map_append, Mon.fold_append]

/-- partial (complement of the finding): `max(skipna=False)` equals pandas when NO partition is empty -/
theorem max_noskip_partial (parts : List (List Cell)) (hparts : parts ≠ []) (hne : ∀ p ∈ parts, p ≠ [])
    (se : Option Nat) (hse : ∀ k, se = some k → 2 ≤ k) :
    kernelReduce se (maxK false) parts = some (maxK false parts.flatten) := by
  have hflat : parts.flatten ≠ [] := by
    cases parts with
    | nil => exact absurd rfl hparts
    | cons p ps =>
      have := hne p (by simp)
      cases p with
      | nil => exact absurd rfl this
      | cons c cs => simp
  have key := split_every_irrelevant maxNaMon muMaxNa muMaxNa_hom (maxK false) (maxK false) (maxK false)
    (fun c => some c) (fun m => m.getD none) parts hparts
    (by
      intro p hp
      have := hne p hp
      have hemp : p.isEmpty = false := by cases p <;> simp_all
      simp [muMaxNa, hemp])
    (by
      intro bs hbs
      have hemp : bs.isEmpty = false := by cases bs <;> simp_all
      rw [← muMaxNa_fold]
      simp [muMaxNa, hemp])
    (by
      intro bs hbs
      have hemp : bs.isEmpty = false := by cases bs <;> simp_all
      rw [← muMaxNa_fold]
      simp [muMaxNa, hemp])
    se hse
  have hemp : parts.flatten.isEmpty = false := by cases h : parts.flatten <;> simp_all
  simpa [kernelReduce, muMaxNa, hemp] using key

example : ∀ p ∈ [[some 1, none], [some 3]], p ≠ ([] : List Cell) := by decide

/-- the (n, Σ, Σ²) triple that var/std/sem are a function of is a homomorphic image of the column -/
def tripleMon : Mon (Nat × Int × Int) where
  op a b := (a.1 + b.1, a.2.1 + b.2.1, a.2.2 + b.2.2)
  e := (0, 0, 0)
  assoc := by intro a b c; simp [Nat.add_assoc, Int.add_assoc]
  left_id := by intro a; simp
  right_id := by intro a; simp

def triple (p : List Cell) : Nat × Int × Int :=
  ((valid p).length, (valid p).foldr (· + ·) 0, ((valid p).map (fun v => v * v)).foldr (· + ·) 0)

theorem var_monoid : Hom tripleMon triple := by
  constructor
  · simp [triple, valid, tripleMon]
  · intro p q
    simp only [triple, valid_append, tripleMon, List.length_append, List.map_append]
    refine Prod.ext rfl (Prod.ext ?_ ?_)
    · exact addMon.fold_append (valid p) (valid q)
    · exact addMon.fold_append _ _

/-- non-vacuity: a partitioning with an empty and an all-NaN partition, split_every = 2 (two tree levels) -/
example : kernelReduce (some 2) (sumK true) [[some 1, none], [], [none], [some 5], [some (-2), some 3]] = some (some 7) := by decide
example : daskMean (some 2) true [[some 1, none], [], [none], [some 5], [some (-2), some 3]] = some (some 7, 4) := by decide
example : kernelReduce (some 3) (maxK true) [[none], [some 1], [], [some 4], [some 2]] = some (some 4) := by decide

end Dask.C37
