import DaskModel.Model.PadEdge
/-
C24 extension — `da.pad(x, pad_width, mode="edge")` equals `np.pad` for any input chunking (`pad_edge`, mode "edge";
until now validated only).

Full statement for one axis: for every list of blocks (zero-length blocks allowed) and all widths `l`, `r`, the blocks
built by one pass of `pad_edge`'s loop, concatenated, are `np.pad(x, (l, r), mode="edge")` — including *when* an error is
raised (`none` on both sides: an empty axis with a non-zero width) — and the chunks are `(l,) + chunks + (r,)` without
the zero widths. Two axes: the loop (axis 0 on the row slabs, then axis 1 on the column blocks of every row) equals
NumPy's axis-by-axis definition, whose value at `(i, j)` is `x[clip(i - l0), clip(j - l1)]`.
-/
namespace Dask.C24x
open Dask.PadEdge

/-- what `npPadEdge` is, position by position: `out[i] = x[clip(i - l, 0, n - 1)]` for `i < l + n + r` -/
theorem np_pad_edge_index {α} (xs : List α) (l r : Nat) (out : List α) (h : npPadEdge xs l r = some out) :
    out.length = l + xs.length + r ∧ ∀ i, i < l + xs.length + r → out[i]? = xs[edgeIndex xs.length l i]? := by
  cases xs with
  | nil =>
    simp only [npPadEdge] at h
    split at h
    · rename_i h0; obtain ⟨rfl, rfl⟩ := h0; cases h; simp
    · cases h
  | cons x t =>
    simp only [npPadEdge, Option.some.injEq] at h
    subst h
    refine ⟨by simp, fun i hi => ?_⟩
    have hlt := edgeIndex_lt (t.length + 1) l i (by omega)
    simp only [List.length_cons] at hi ⊢
    rw [List.getElem?_map, List.getElem?_range hi]
    simp only [Option.map_some]
    rw [List.getElem?_eq_getElem (by simpa using hlt)]

/-- NumPy raises exactly on an empty axis with a non-zero width -/
theorem np_pad_edge_raises_iff {α} (xs : List α) (l r : Nat) :
    npPadEdge xs l r = none ↔ xs = [] ∧ ¬ (l = 0 ∧ r = 0) := by
  cases xs with
  | nil => simp only [npPadEdge]; split <;> simp_all
  | cons x t => simp [npPadEdge]

private theorem edge_list_eq {α} (x : α) (t : List α) (l r : Nat) (a z : α)
    (ha : (x :: t).head? = some a) (hz : (x :: t).getLast? = some z) :
    npPadEdge (x :: t) l r = some (List.replicate l a ++ (x :: t) ++ List.replicate r z) := by
  simp only [npPadEdge, Option.some.injEq]
  simp only [List.head?_cons, Option.some.injEq] at ha
  subst ha
  apply List.ext_getElem?
  intro i
  by_cases hi : i < l + (t.length + 1) + r
  · rw [List.getElem?_map, List.getElem?_range hi]
    simp only [Option.map_some]
    have hlt := edgeIndex_lt (t.length + 1) l i (by omega)
    by_cases h1 : i < l
    · rw [List.append_assoc, List.getElem?_append_left (by simpa using h1)]
      simp only [List.getElem?_replicate, h1, if_true]
      have : edgeIndex (t.length + 1) l i = 0 := by unfold edgeIndex; omega
      simp [this]
    · by_cases h2 : i < l + (t.length + 1)
      · rw [List.getElem?_append_left (by simp; omega), List.getElem?_append_right (by simp; omega)]
        have : edgeIndex (t.length + 1) l i = i - l := by unfold edgeIndex; omega
        simp only [this, List.length_replicate]
        rw [List.getElem?_eq_getElem]
      · rw [List.getElem?_append_right (by simp; omega)]
        simp only [List.length_append, List.length_replicate, List.length_cons]
        rw [List.getElem?_replicate]
        have hr : i - (l + (t.length + 1)) < r := by omega
        simp only [hr, if_true]
        have : edgeIndex (t.length + 1) l i = t.length := by unfold edgeIndex; omega
        simp only [this]
        rw [List.getLast?_eq_getElem?] at hz
        simp only [List.length_cons, Nat.add_sub_cancel] at hz
        rw [← hz, List.getElem?_eq_getElem]
  · rw [List.getElem?_eq_none (by simp; omega), List.getElem?_eq_none (by simp; omega)]

private theorem piece_flatten {α} (w : Nat) (a : α) : (piece w a).flatten = List.replicate w a := by
  unfold piece; split
  · rename_i h; subst h; simp
  · simp

/-- **pad_edge_den** (one axis, every chunking incl. zero-length blocks, every pair of widths): the blocks of one pass
    of `pad_edge`'s loop assemble to `np.pad(x, (l, r), mode="edge")`; both raise in the same cases -/
theorem pad_edge_den {α} (blocks : List (List α)) (l r : Nat) :
    (padEdgeBlocks blocks l r).map List.flatten = npPadEdge blocks.flatten l r := by
  unfold padEdgeBlocks
  by_cases h0 : l = 0 ∧ r = 0
  · obtain ⟨rfl, rfl⟩ := h0
    simp only [and_self, if_true, Option.map_some]
    cases hx : blocks.flatten with
    | nil => simp [npPadEdge]
    | cons x t =>
      have hh : (x :: t).head? = some x := rfl
      obtain ⟨z, hz⟩ : ∃ z, (x :: t).getLast? = some z := by
        cases hl : (x :: t).getLast? with
        | none => simp at hl
        | some z => exact ⟨z, rfl⟩
      rw [edge_list_eq x t 0 0 x z hh hz]; simp
  · rw [if_neg h0]
    cases hx : blocks.flatten with
    | nil => simp [npPadEdge, h0]
    | cons x t =>
      obtain ⟨z, hz⟩ : ∃ z, (x :: t).getLast? = some z := by
        cases hl : (x :: t).getLast? with
        | none => simp at hl
        | some z => exact ⟨z, rfl⟩
      rw [edge_list_eq x t l r x z rfl hz]
      simp only [List.head?_cons, hz, Option.map_some, List.flatten_append, piece_flatten, hx]

/-- the chunks of the result: `(l,) + chunks + (r,)` without the zero widths (one chunk per pad, whatever the array's chunks) -/
theorem pad_edge_chunks {α} (blocks out : List (List α)) (l r : Nat) (h : padEdgeBlocks blocks l r = some out) :
    out.map List.length
      = (if l = 0 then [] else [l]) ++ blocks.map List.length ++ (if r = 0 then [] else [r]) := by
  unfold padEdgeBlocks at h
  by_cases h0 : l = 0 ∧ r = 0
  · obtain ⟨rfl, rfl⟩ := h0
    simp only [and_self, if_true, Option.some.injEq] at h
    subst h; simp
  · rw [if_neg h0] at h
    split at h
    · simp only [Option.some.injEq] at h
      subst h
      simp only [List.map_append, piece]
      by_cases hl : l = 0 <;> by_cases hr : r = 0 <;> simp [hl, hr]
    · cases h

/-- dask raises exactly when NumPy does: an empty axis and a non-zero width -/
theorem pad_edge_raises_iff {α} (blocks : List (List α)) (l r : Nat) :
    padEdgeBlocks blocks l r = none ↔ blocks.flatten = [] ∧ ¬ (l = 0 ∧ r = 0) := by
  rw [← np_pad_edge_raises_iff, ← pad_edge_den]
  cases padEdgeBlocks blocks l r <;> simp

/-- **pad_edge2_den** (two axes): `pad_edge`'s loop — axis 0 on the row slabs (any row chunking), then axis 1 on the
    column blocks of every row (any column chunking `cut1`) — equals NumPy's axis-by-axis edge pad -/
theorem pad_edge2_den {α} (rowBlocks : List (List (List α))) (l0 r0 : Nat) (cut1 : List α → List (List α))
    (hcut : ∀ row, (cut1 row).flatten = row) (l1 r1 : Nat) :
    padEdge2 rowBlocks l0 r0 cut1 l1 r1 = npPadEdge2 rowBlocks.flatten l0 r0 l1 r1 := by
  unfold padEdge2 npPadEdge2
  rw [← pad_edge_den]
  cases padEdgeBlocks rowBlocks l0 r0 with
  | none => rfl
  | some a =>
    simp only [Option.map_some, Option.bind_eq_bind, Option.bind_some]
    congr 1
    funext row
    rw [pad_edge_den, hcut]

private theorem mapM_some_spec {α β} (f : α → Option β) : ∀ (a : List α) (out : List β), a.mapM f = some out →
    out.length = a.length ∧ ∀ i (hi : i < a.length) (ho : i < out.length), f a[i] = some out[i] := by
  intro a
  induction a with
  | nil => intro out h; simp at h; subst h; simp
  | cons x xs ih =>
    intro out h
    rw [List.mapM_cons] at h
    cases hx : f x with
    | none => simp [hx] at h
    | some y =>
      cases hxs : xs.mapM f with
      | none => simp [hx, hxs] at h
      | some ys =>
        simp [hx, hxs] at h
        subst h
        obtain ⟨hl, hi⟩ := ih ys hxs
        refine ⟨by simp [hl], fun i h1 h2 => ?_⟩
        cases i with
        | zero => simpa using hx
        | succ k => simpa using hi k (by simpa using h1) (by simpa using h2)

/-- the value of NumPy's two-axis edge pad: row `i` of the result is the edge pad of row `clip(i - l0)` of the input,
    so entry `(i, j)` is `x[clip(i - l0, 0, n0 - 1), clip(j - l1, 0, n1 - 1)]` (by `np_pad_edge_index` on that row) -/
theorem np_pad_edge2_index {α} (rows out : List (List α)) (l0 r0 l1 r1 : Nat)
    (h : npPadEdge2 rows l0 r0 l1 r1 = some out) :
    out.length = l0 + rows.length + r0 ∧
    ∀ i, i < l0 + rows.length + r0 →
      ∃ row orow, rows[edgeIndex rows.length l0 i]? = some row ∧ out[i]? = some orow ∧ npPadEdge row l1 r1 = some orow := by
  unfold npPadEdge2 at h
  cases ha : npPadEdge rows l0 r0 with
  | none => simp [ha] at h
  | some a =>
    simp only [ha, Option.bind_eq_bind, Option.bind_some] at h
    obtain ⟨hlen, hidx⟩ := np_pad_edge_index rows l0 r0 a ha
    have hl : out.length = a.length := (mapM_some_spec _ a out h).1
    refine ⟨by omega, fun i hi => ?_⟩
    have hia : i < a.length := by omega
    have := hidx i hi
    rw [List.getElem?_eq_getElem hia] at this
    refine ⟨a[i], out[i]'(by omega), this.symm, List.getElem?_eq_getElem (by omega), ?_⟩
    exact (mapM_some_spec _ a out h).2 i hia (by omega)

/-! non-vacuity / concrete plans -/
example : padEdgeBlocks [[], [10, 11], [12], []] 2 3 = some [[10, 10], [], [10, 11], [12], [], [12, 12, 12]] := by decide
example : padEdgeBlocks [[10, 11], [12]] 0 3 = some [[10, 11], [12], [12, 12, 12]] := by decide
example : padEdgeBlocks ([[], []] : List (List Nat)) 0 0 = some [[], []] := by decide
example : padEdgeBlocks ([[], []] : List (List Nat)) 1 0 = none := by decide
example : npPadEdge [10, 11, 12] 2 3 = some [10, 10, 10, 11, 12, 12, 12, 12] := by decide
example : npPadEdge2 [[0, 1, 2], [3, 4, 5]] 0 0 1 2 = some [[0, 0, 1, 2, 2, 2], [3, 3, 4, 5, 5, 5]] := by decide
example : npPadEdge2 [[0, 1], [3, 4]] 1 1 1 0 = some [[0, 0, 1], [0, 0, 1], [3, 3, 4], [3, 3, 4]] := by decide

end Dask.C24x
