import DaskModel.Lemmas.MergeAsofWalk
import DaskModel.Lemmas.TruthfulPaths
/-! # C39 — merge_asof (theorems)

Model: `Model/MergeAsof.lean` (`pair_partitions`, the padded partition-wise `merge_asof` of `MergeAsofIndexed._layer`,
pandas' per-row semantics as the specification). -/
set_option linter.unusedSimpArgs false
namespace Dask.C39
open Dask.MergeAsof Dask.Divs

/-- **merge_asof: the planned partition-wise computation equals the global one** — for frames whose divisions are
    truthful (left partitions in key order), every plan that passes the certificate `planOK`, every direction, tolerance
    and `allow_exact_matches`: output partition `i` is left partition `i`, row by row in order, each row with the match it
    has in the WHOLE right frame. -/
theorem asof_plan_eq_global (o : Opts) (L R : List Nat) (plan : List (List Piece)) (Lp Rp : List (List Row))
    (hL : Truthful (fun r : Row => r.1) L Lp) (hR : Truthful (fun r : Row => r.1) R Rp)
    (hLs : ∀ P ∈ Lp, Repart.KeySorted (fun r : Row => r.1) P) (hok : planOK L R plan = true) :
    planOut o plan Lp Rp = globalOut o Lp Rp := by
  simp only [planOK, Bool.and_eq_true, beq_iff_eq] at hok
  obtain ⟨hpl, hfrom⟩ := hok
  have hLl : Lp.length + 1 = L.length := hL.1
  have hRl : Rp.length + 1 = R.length := hR.1
  rw [show R.length - 1 = Rp.length by omega] at hfrom
  unfold planOut globalOut
  apply planOut_from o L R Rp hR (L.length - 1) plan Lp 0 (by omega) _ hfrom
  intro t P hP
  have ht : t < Lp.length := (List.getElem?_eq_some_iff.mp hP).1
  refine ⟨⟨L[t]'(by omega), L[t + 1]'(by omega), by simp, by simp, ?_⟩, hLs P (List.mem_of_getElem? hP)⟩
  intro l hl
  have := hL.2.2 t P _ _ hP (List.getElem?_eq_getElem (by omega)) (List.getElem?_eq_getElem (by omega)) l hl
  simp only [Nat.zero_add]
  refine ⟨this.1, ?_⟩
  rcases this.2 with h | ⟨h1, h2⟩
  · exact Or.inl h
  · exact Or.inr ⟨by omega, h2⟩

/-- **`pair_partitions` is total and certified**: for all non-decreasing division vectors of at least one partition
    each, the walk returns (no IndexError, the fuel suffices) and its plan passes the certificate `planOK` -/
theorem pairPartitions_ok (L R : List Nat) (hL : 2 ≤ L.length) (hR : 2 ≤ R.length) (sL : L.Pairwise (· ≤ ·))
    (sR : R.Pairwise (· ≤ ·)) : ∃ plan, pairPartitions L R = some plan ∧ planOK L R plan = true := by
  obtain ⟨n, hn⟩ : ∃ n, L.length = n + 1 := ⟨L.length - 1, by omega⟩
  obtain ⟨m, hm⟩ : ∃ m, R.length = m + 1 := ⟨R.length - 1, by omega⟩
  have hm1 : 1 ≤ m := by omega
  have hn1 : 1 ≤ n := by omega
  unfold pairPartitions
  rw [getD_get? L 0 (by omega)]
  simp only [hn, hm, Nat.add_sub_cancel]
  obtain ⟨jj, hinit, hjm, hprev, hnext⟩ := initLoop_spec R (gv L 0) m hm (m + 1 + 1) 0 (by omega) (by intro h; omega) (by omega)
  rw [hinit]
  simp only []
  have inv : WalkInv L R n m 0 jj [] [] := by
    refine ⟨by omega, rfl, rfl, fun _ => hjm, ?_, by intro _ q hq; simp at hq, fun _ h => Nat.le_of_lt (hnext h), ?_⟩
    · intro _
      show max (gv L 0) (if jj = 0 then 0 else gv R (jj - 1)) = gv L 0
      by_cases hz : jj = 0
      · simp [hz]
      · simp only [hz, if_false]
        exact Nat.max_eq_left (hprev (by omega))
    · intro _ h1
      have h01 := sorted_getD_le L sL 0 (0 + 1) (by omega) (by omega)
      have := hprev h1
      omega
  obtain ⟨plan, hplan, hlen, hok⟩ := pairLoop_ok L R n m hn hm hm1 sL sR (n + 1 + (m + 1) + 2) 0 jj [] [] inv (by omega)
  refine ⟨plan, hplan, ?_⟩
  unfold planOK
  simp only [hn, hm, Nat.add_sub_cancel, hlen, beq_self_eq_true, Bool.true_and]
  exact hok

/-- **merge_asof_eq_global** — frames with truthful known divisions (at least one partition each, left partitions in key
    order): `pair_partitions` returns a plan, and the partition-wise padded `merge_asof` along that plan gives every left
    row, in order, exactly the match it has in the whole right frame — for every direction, tolerance and
    `allow_exact_matches`. (pandas' per-row semantics `asof` is the specification; `by=` is not modelled.) -/
theorem merge_asof_eq_global (o : Opts) (L R : List Nat) (Lp Rp : List (List Row))
    (hL : Truthful (fun r : Row => r.1) L Lp) (hR : Truthful (fun r : Row => r.1) R Rp)
    (hLs : ∀ P ∈ Lp, Repart.KeySorted (fun r : Row => r.1) P) (hLn : Lp ≠ []) (hRn : Rp ≠ []) :
    ∃ plan, pairPartitions L R = some plan ∧ planOut o plan Lp Rp = globalOut o Lp Rp := by
  have h1 : 2 ≤ L.length := by
    have := hL.1; have : 0 < Lp.length := List.length_pos_iff.mpr hLn; omega
  have h2 : 2 ≤ R.length := by
    have := hR.1; have : 0 < Rp.length := List.length_pos_iff.mpr hRn; omega
  obtain ⟨plan, hplan, hok⟩ := pairPartitions_ok L R h1 h2 hL.2.1 hR.2.1
  exact ⟨plan, hplan, asof_plan_eq_global o L R plan Lp Rp hL hR hLs hok⟩

/-! non-vacuity: a plan of the real walk passes the certificate, frames that are truthful, and what comes out -/
example : pairPartitions [2, 5, 8] [0, 3, 8, 12] =
    some [[⟨0, none, some 3⟩, ⟨1, some 3, none⟩], [⟨1, none, some 8⟩, ⟨2, some 8, none⟩]] := by decide
example : planOK [2, 5, 8] [0, 3, 8, 12] [[⟨0, none, some 3⟩, ⟨1, some 3, none⟩], [⟨1, none, some 8⟩, ⟨2, some 8, none⟩]] = true := by
  decide
example : Truthful (fun r : Row => r.1) [2, 5, 8] ([[2, 4], [5, 8]].map fun p => p.map fun k => (k, 0)) :=
  Truthful.map ((truthfulB_iff _ _).mp (by decide)) _ (by
    intro p r hr
    obtain ⟨k, hk, rfl⟩ := List.mem_map.mp hr
    exact ⟨k, hk, rfl⟩)
example : Repart.KeySorted (fun r : Row => r.1) [(2, 0), (4, 1)] := by unfold Repart.KeySorted; decide
/-- the boundary case "the left frame's last key lies on a right partition boundary": the last left partition is
    closed on the right, so key 8 must meet right partition 2 (which holds the exact match) -/
example : planOut ⟨.backward, true, none⟩ [[⟨0, none, some 3⟩, ⟨1, some 3, none⟩], [⟨1, none, some 8⟩, ⟨2, some 8, none⟩]]
    [[(2, 0), (4, 1)], [(5, 2), (8, 3)]] [[(0, 0), (2, 1)], [(3, 2), (7, 3)], [(8, 4), (12, 5)]] =
    [[((2, 0), some (2, 1)), ((4, 1), some (3, 2))], [((5, 2), some (3, 2)), ((8, 3), some (8, 4))]] := by decide
/-- a plan that keeps the last piece open at the boundary (`upper = None` instead of `R[j+1]`) fails the certificate
    and gives the wrong match for key 8 -/
example : planOK [2, 5, 8] [0, 3, 8, 12] [[⟨0, none, some 3⟩, ⟨1, some 3, none⟩], [⟨1, none, none⟩]] = false := by decide
example : planOut ⟨.backward, true, none⟩ [[⟨0, none, some 3⟩, ⟨1, some 3, none⟩], [⟨1, none, none⟩]]
    [[(2, 0), (4, 1)], [(5, 2), (8, 3)]] [[(0, 0), (2, 1)], [(3, 2), (7, 3)], [(8, 4), (12, 5)]] =
    [[((2, 0), some (2, 1)), ((4, 1), some (3, 2))], [((5, 2), some (3, 2)), ((8, 3), some (7, 3))]] := by decide
example : asof ⟨.nearest, true, some 2⟩ 5 [(1, 0), (4, 1), (6, 2), (9, 3)] = some (4, 1) := by decide
example : asof ⟨.backward, false, none⟩ 4 [(1, 0), (4, 1), (6, 2)] = some (1, 0) := by decide
example : asof ⟨.forward, true, some 1⟩ 2 [(1, 0), (4, 1), (6, 2)] = none := by decide

end Dask.C39
