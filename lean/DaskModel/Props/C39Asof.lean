import DaskModel.Lemmas.MergeAsof
import DaskModel.Lemmas.TruthfulPaths
/-! # C39 — merge_asof (theorems)

Model: `Model/MergeAsof.lean` (`pair_partitions`, the padded partition-wise `merge_asof` of `MergeAsofIndexed._layer`,
pandas' per-row semantics as the specification). -/
set_option linter.unusedSimpArgs false
namespace Dask.C39
open Dask.MergeAsof Dask.Divs

/-- **merge_asof: the planned partition-wise computation equals the global one** — for frames whose divisions are
    truthful (left partitions in key order), every plan that passes the certificate `planOK`, every direction, tolerance
    and `allow_exact_matches`: output partition `i` is left partition `i`, row by row in order, each row with the match it
    has in the WHOLE right frame. -/
theorem asof_plan_eq_global (o : Opts) (L R : List Nat) (plan : List (List Piece)) (Lp Rp : List (List Row))
    (hL : Truthful (fun r : Row => r.1) L Lp) (hR : Truthful (fun r : Row => r.1) R Rp)
    (hLs : ∀ P ∈ Lp, Repart.KeySorted (fun r : Row => r.1) P) (hok : planOK L R plan = true) :
    planOut o plan Lp Rp = globalOut o Lp Rp := by
  simp only [planOK, Bool.and_eq_true, beq_iff_eq] at hok
  obtain ⟨hpl, hfrom⟩ := hok
  have hLl : Lp.length + 1 = L.length := hL.1
  have hRl : Rp.length + 1 = R.length := hR.1
  rw [show R.length - 1 = Rp.length by omega] at hfrom
  unfold planOut globalOut
  apply planOut_from o L R Rp hR (L.length - 1) plan Lp 0 (by omega) _ hfrom
  intro t P hP
  have ht : t < Lp.length := (List.getElem?_eq_some_iff.mp hP).1
  refine ⟨⟨L[t]'(by omega), L[t + 1]'(by omega), by simp, by simp, ?_⟩, hLs P (List.mem_of_getElem? hP)⟩
  intro l hl
  have := hL.2.2 t P _ _ hP (List.getElem?_eq_getElem (by omega)) (List.getElem?_eq_getElem (by omega)) l hl
  simp only [Nat.zero_add]
  refine ⟨this.1, ?_⟩
  rcases this.2 with h | ⟨h1, h2⟩
  · exact Or.inl h
  · exact Or.inr ⟨by omega, h2⟩

/-! non-vacuity: a plan of the real walk passes the certificate, frames that are truthful, and what comes out -/
example : pairPartitions [2, 5, 8] [0, 3, 8, 12] =
    some [[⟨0, none, some 3⟩, ⟨1, some 3, none⟩], [⟨1, none, some 8⟩, ⟨2, some 8, none⟩]] := by decide
example : planOK [2, 5, 8] [0, 3, 8, 12] [[⟨0, none, some 3⟩, ⟨1, some 3, none⟩], [⟨1, none, some 8⟩, ⟨2, some 8, none⟩]] = true := by
  decide
example : Truthful (fun r : Row => r.1) [2, 5, 8] ([[2, 4], [5, 8]].map fun p => p.map fun k => (k, 0)) :=
  Truthful.map ((truthfulB_iff _ _).mp (by decide)) _ (by
    intro p r hr
    obtain ⟨k, hk, rfl⟩ := List.mem_map.mp hr
    exact ⟨k, hk, rfl⟩)
example : Repart.KeySorted (fun r : Row => r.1) [(2, 0), (4, 1)] := by unfold Repart.KeySorted; decide
/-- the boundary case "the left frame's last key lies on a right partition boundary": the last left partition is
    closed on the right, so key 8 must meet right partition 2 (which holds the exact match) -/
example : planOut ⟨.backward, true, none⟩ [[⟨0, none, some 3⟩, ⟨1, some 3, none⟩], [⟨1, none, some 8⟩, ⟨2, some 8, none⟩]]
    [[(2, 0), (4, 1)], [(5, 2), (8, 3)]] [[(0, 0), (2, 1)], [(3, 2), (7, 3)], [(8, 4), (12, 5)]] =
    [[((2, 0), some (2, 1)), ((4, 1), some (3, 2))], [((5, 2), some (3, 2)), ((8, 3), some (8, 4))]] := by decide
/-- a plan that keeps the last piece open at the boundary (`upper = None` instead of `R[j+1]`) fails the certificate
    and gives the wrong match for key 8 -/
example : planOK [2, 5, 8] [0, 3, 8, 12] [[⟨0, none, some 3⟩, ⟨1, some 3, none⟩], [⟨1, none, none⟩]] = false := by decide
example : planOut ⟨.backward, true, none⟩ [[⟨0, none, some 3⟩, ⟨1, some 3, none⟩], [⟨1, none, none⟩]]
    [[(2, 0), (4, 1)], [(5, 2), (8, 3)]] [[(0, 0), (2, 1)], [(3, 2), (7, 3)], [(8, 4), (12, 5)]] =
    [[((2, 0), some (2, 1)), ((4, 1), some (3, 2))], [((5, 2), some (3, 2)), ((8, 3), some (7, 3))]] := by decide
example : asof ⟨.nearest, true, some 2⟩ 5 [(1, 0), (4, 1), (6, 2), (9, 3)] = some (4, 1) := by decide
example : asof ⟨.backward, false, none⟩ 4 [(1, 0), (4, 1), (6, 2)] = some (1, 0) := by decide
example : asof ⟨.forward, true, some 1⟩ 2 [(1, 0), (4, 1), (6, 2)] = none := by decide

end Dask.C39
