import DaskModel.Model.MergePlan
import DaskModel.Props.C39
/-! # C39 — the plan `Merge._lower` picks (theorems)

Model: `Model/MergePlan.lean`. Every plan is covered by a theorem of this property:
`single` → `joinWith_flatten_left` (right side single: inner / left / leftsemi), `inner_flatten_right`, `right_flatten_right`
(left side single: inner / right); `aligned` → `index_join_eq_global` / `index_outer_eq_global` (Props/C39Align.lean);
`broadcast` → `broadcast_inner_eq_global` (inner) / `broadcast_split_eq_global` (`lower_broadcast_sound`: the broadcast
side is never the one whose unmatched rows are kept, never `outer`); `hash` → `hash_join_*`. -/
set_option linter.unusedSimpArgs false
namespace Dask.C39
open Dask.Join Dask.MergePlan

/-! ## which plan `Merge._lower` picks, and that each plan is covered by a theorem -/

theorem rightOnly_append_right (L R₁ R₂ : List Row) : rightOnly L (R₁ ++ R₂) = rightOnly L R₁ ++ rightOnly L R₂ := by
  unfold rightOnly
  rw [List.filter_append, List.map_append]

theorem right_append_right (L R₁ R₂ : List Row) : (right L (R₁ ++ R₂)).Perm (right L R₁ ++ right L R₂) := by
  unfold right
  rw [rightOnly_append_right]
  -- inner L (R₁ ++ R₂) ++ (o₁ ++ o₂) ~ (inner L R₁ ++ o₁) ++ (inner L R₂ ++ o₂)
  refine (List.Perm.append_right _ (inner_append_right L R₁ R₂)).trans ?_
  rw [List.append_assoc, List.append_assoc]
  refine List.Perm.append_left _ ?_
  rw [← List.append_assoc, ← List.append_assoc]
  exact List.Perm.append_right _ List.perm_append_comm

/-- **single-partition plan, left side single** (`how` = right): every right partition meets the whole left frame -/
theorem right_flatten_right (L : List Row) : ∀ Rs : List (List Row), (right L Rs.flatten).Perm (Rs.flatMap fun r => right L r)
  | [] => by simp [right, inner, joinWith, matching, gInner, rightOnly]
  | r :: Rs => by
    rw [List.flatten_cons, List.flatMap_cons]
    exact (right_append_right L r Rs.flatten).trans (List.Perm.append_left _ (right_flatten_right L Rs))

/-- when the single-partition plan is chosen, the single side is one the join distributes over -/
theorem lower_single_sound (x : In) (h : lower x = .single) :
    (x.nl ≤ 1 ∧ x.nr ≤ 1) ∨ (x.nl = 1 ∧ (x.how = .right ∨ x.how = .inner)) ∨
    (x.nr = 1 ∧ (x.how = .left ∨ x.how = .inner ∨ x.how = .leftsemi)) := by
  unfold lower at h
  by_cases hs : isSingle x = true
  · unfold isSingle at hs
    simp only [Bool.or_eq_true, Bool.and_eq_true, beq_iff_eq] at hs
    rcases hs with (h1 | ⟨h1, h2⟩) | ⟨h1, h2⟩
    · left; omega
    · right; left; exact ⟨h1, h2⟩
    · right; right; exact ⟨h1, by rcases h2 with (h | h) | h <;> simp [h]⟩
  · simp only [hs, Bool.false_eq_true, if_false] at h
    split at h
    · cases h
    · split at h <;> cases h

/-- a broadcast plan never broadcasts the side whose unmatched rows must be kept, never serves `outer`, and splits
    exactly when the join is not `inner` -/
theorem lower_broadcast_sound (x : In) (ls sp : Bool) (rp : Option Nat) (h : lower x = .broadcast ls sp rp) :
    x.how ≠ .outer ∧ (x.how = .left → ls = false) ∧ (x.how = .right → ls = true) ∧ (x.how = .leftsemi → ls = false) ∧
    (sp = true ↔ x.how ≠ .inner) ∧
    (x.how ≠ .inner → (if ls then x.rightIndex else x.leftIndex) = false) := by
  unfold lower at h
  split at h
  · cases h
  · split at h
    · cases h
    · split at h
      · next hb =>
        simp only [Plan.broadcast.injEq] at h
        obtain ⟨h1, h2, _⟩ := h
        unfold isBroadcast at hb
        simp only [Bool.and_eq_true, Bool.or_eq_true, beq_iff_eq, Bool.not_eq_true', bne_iff_ne, ne_eq] at hb
        obtain ⟨⟨⟨⟨⟨hhow, hside⟩, hsemi⟩, _⟩, hidx⟩, _⟩ := hb
        subst h1 h2
        cases hh : x.how <;> cases hl : bcastLeft x <;> simp_all
      · cases h

/-! non-vacuity / the decisions on concrete inputs -/
example : lower ⟨1, 5, .inner, none, false, false, false, false, none, false, false⟩ = .single := by decide
example : lower ⟨1, 5, .left, none, false, false, false, false, none, false, false⟩ = .hash true true 5 := by decide
example : lower ⟨2, 40, .inner, none, false, false, false, false, none, false, false⟩ = .broadcast true false none := by decide
example : lower ⟨2, 16, .inner, none, false, false, false, false, none, false, false⟩ = .hash true true 16 := by decide
example : lower ⟨6, 3, .left, some true, false, false, false, false, some 2, false, false⟩ = .broadcast false true (some 2) := by
  decide
/-- after 5e52220: no broadcast when the side that would be split joins on its index -/
example : lower ⟨5, 2, .left, some true, false, false, true, false, none, false, false⟩ = .hash true true 5 := by decide
example : lower ⟨3, 4, .outer, none, true, true, true, true, none, false, false⟩ = .aligned := by decide
example : right [(1, 0)] [(1, 0), (2, 1)] = [(1, some 0, some 0), (2, none, some 1)] := by decide

end Dask.C39
