import DaskModel.Model.UniqueNd
import DaskModel.Lemmas.UniqueNaNLemmas
import DaskModel.Props.C27xNaN
/-!
C27 extension — `da.unique(ar, return_inverse=True)` on an N-D array (the `ravel` in front, the `reshape` at the end),
for every chunking of the ravelled array, float data with NaN included.

  reshape_ravel            `ravel` then `reshape(orig_shape)` is the identity on a rectangular array
  unique_nd_inverse_den    values = `np.unique(ar)`; `inverse[i][j]` = position of `ar[i][j]` in them (all NaNs: the last
                           one), in the SHAPE of `ar` — for every chunking (empty / all-NaN chunks, boundaries anywhere,
                           not aligned to the rows)
  unique_nd_shape          the inverse has the rows and row lengths of `ar`
  unique_nd_reconstruct    NumPy's contract `values[inverse] == ar` position by position (NaN = NaN)
-/
namespace Dask.C27xNd
open Dask.Chunks Dask.Counting Dask.UniqueNaN Dask.UniqueNd

/-- **reshape_ravel** -/
theorem reshape_ravel {α : Type} (w : Nat) (rows : List (List α)) (hw : ∀ row ∈ rows, row.length = w) :
    reshape2 rows.length w (ravel2 rows) = rows := by
  induction rows with
  | nil => rfl
  | cons a t ih =>
    have ha : a.length = w := hw a (by simp)
    have ht := ih (fun row h => hw row (by simp [h]))
    simp only [ravel2] at ht ⊢
    simp [reshape2, List.take_left' ha, List.drop_left' ha, ht]

theorem values_eq (blocks : List (List FV)) :
    (uniqueChunkedF blocks).map (·.value) = npUnique blocks.flatten := by
  rw [Dask.C27xNaN.unique_nan_chunked_char, List.map_map]
  exact List.map_id _

/-- **unique_nd_inverse_den** -/
theorem unique_nd_inverse_den (w : Nat) (rows : List (List FV)) (blocks : List (List FV))
    (hw : ∀ row ∈ rows, row.length = w) (hb : blocks.flatten = ravel2 rows) :
    uniqueNdInverse rows.length w blocks
      = (npUnique (ravel2 rows), rows.map (·.map (fun v => (npUnique (ravel2 rows)).idxOf v))) := by
  unfold uniqueNdInverse
  simp only [values_eq, hb]
  congr 1
  have h1 : (ravel2 rows).map (inverseOfF (npUnique (ravel2 rows)))
      = ravel2 (rows.map (·.map (fun v => (npUnique (ravel2 rows)).idxOf v))) := by
    unfold ravel2
    rw [List.map_flatten]
    congr 1
    apply List.map_congr_left
    intro row hrow
    apply List.map_congr_left
    intro v hv
    exact Dask.UniqueNaN.inverseOfF_eq _ v (List.mem_flatten.2 ⟨row, hrow, hv⟩)
  rw [h1]
  have := reshape_ravel w (rows.map (·.map (fun v => (npUnique (ravel2 rows)).idxOf v)))
    (by intro row h; obtain ⟨r0, hr0, rfl⟩ := List.mem_map.1 h; simpa using hw r0 hr0)
  simpa using this

/-- **unique_nd_shape** -/
theorem unique_nd_shape (w : Nat) (rows : List (List FV)) (blocks : List (List FV))
    (hw : ∀ row ∈ rows, row.length = w) (hb : blocks.flatten = ravel2 rows) :
    (uniqueNdInverse rows.length w blocks).2.map List.length = rows.map List.length := by
  rw [unique_nd_inverse_den w rows blocks hw hb]
  simp [List.map_map, Function.comp_def]

theorem getElem?_idxOf (l : List FV) (v : FV) (h : v ∈ l) : l[l.idxOf v]? = some v := by
  induction l with
  | nil => cases h
  | cons a t ih =>
    by_cases e : a = v
    · subst e; simp
    · have hm : v ∈ t := by
        rcases List.mem_cons.1 h with h | h
        · exact absurd h.symm e
        · exact h
      have hb : (a == v) = false := by simpa using e
      simp [List.idxOf_cons, hb, ih hm]

/-- **unique_nd_reconstruct** -/
theorem unique_nd_reconstruct (w : Nat) (rows : List (List FV)) (blocks : List (List FV))
    (hw : ∀ row ∈ rows, row.length = w) (hb : blocks.flatten = ravel2 rows) :
    (uniqueNdInverse rows.length w blocks).2.map (·.map (fun k => (uniqueNdInverse rows.length w blocks).1[k]?))
      = rows.map (·.map some) := by
  rw [unique_nd_inverse_den w rows blocks hw hb]
  simp only [List.map_map]
  apply List.map_congr_left
  intro row hrow
  simp only [Function.comp_def, List.map_map]
  apply List.map_congr_left
  intro v hv
  exact getElem?_idxOf _ v ((mem_npUnique _ v).2 (List.mem_flatten.2 ⟨row, hrow, hv⟩))

example : uniqueNdInverse 2 3 [[some 3, none], [], [none, some 1, none], [some 3]]
    = ([some 1, some 3, none], [[1, 2, 2], [0, 2, 1]]) := by decide

end Dask.C27xNd
