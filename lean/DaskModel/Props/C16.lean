import DaskModel.Model.Rename
import DaskModel.Lemmas.TaskTerm
import DaskModel.Lemmas.RenameLayer
/-!
# C16 — graph manipulation keeps values and changes only keys and ordering

Model: `Dask.TaskTerm` (Model/Rename.lean): `clone`/`bind` regenerate keys with `clone_key(·, seed)` — modelled as a
renaming `ρ` that is assumed injective (hash collision freedom of `tokenize`) — rewrite every reference
(`renameNode` = `GraphNode.substitute`, `cloneValue` = `Layer.clone.clone_value`) and wrap the regenerated leaves in
`chunks.bind(node, blocker)`; `checkpoint` aggregates with `chunks.checkpoint` in a tree (`checkpointReduce`).
-/
namespace Dask.C16
open Dask.TaskTerm

mutual
theorem evalNode_rename (ρ : Obj → Obj) (env env' : Obj → Option Obj) (h : ∀ k, env' (ρ k) = env k) :
    ∀ n : Node, evalNode env' (renameNode ρ n) = evalNode env n
  | .alias t => by simp [renameNode, evalNode, h]
  | .data v => by simp [renameNode, evalNode]
  | .ref k => by simp [renameNode, evalNode, h]
  | .raw v => by simp [renameNode, evalNode]
  | .task f args kw => by
    simp only [renameNode, evalNode, evalNodes_rename ρ env env' h args, evalKw_rename ρ env env' h kw]
theorem evalNodes_rename (ρ : Obj → Obj) (env env' : Obj → Option Obj) (h : ∀ k, env' (ρ k) = env k) :
    ∀ ns : List Node, evalNodes env' (renameNodes ρ ns) = evalNodes env ns
  | [] => by simp [renameNodes, evalNodes]
  | n :: ns => by
    simp only [renameNodes, evalNodes, evalNode_rename ρ env env' h n, evalNodes_rename ρ env env' h ns]
theorem evalKw_rename (ρ : Obj → Obj) (env env' : Obj → Option Obj) (h : ∀ k, env' (ρ k) = env k) :
    ∀ ns : List (Obj × Node), evalKw env' (renameKw ρ ns) = evalKw env ns
  | [] => by simp [renameKw, evalKw]
  | (a, n) :: ns => by
    simp only [renameKw, evalKw, evalNode_rename ρ env env' h n, evalKw_rename ρ env env' h ns]
end

theorem lookup_renameGraph (ρ : Obj → Obj) (hinj : ∀ a b, ρ a = ρ b → a = b) (k : Obj) : ∀ g : NGraph,
    (renameGraph ρ g).lookup (ρ k) = (g.lookup k).map (renameNode ρ)
  | [] => by simp [renameGraph]
  | (k', n) :: rest => by
    have ih := lookup_renameGraph ρ hinj k rest
    unfold renameGraph at ih ⊢
    simp only [List.map_cons, List.lookup]
    by_cases hk : (k == k') = true
    · have : k = k' := eq_of_beq hk
      subst this
      simp
    · have hk' : (k == k') = false := by simpa using hk
      have hne : (ρ k == ρ k') = false := by
        rw [Bool.eq_false_iff]; intro hc
        have := hinj _ _ (eq_of_beq hc)
        subst this; simp at hk'
      simp only [hne, hk', ih]

/-- **clone keeps values**: the regenerated key `ρ k` denotes in the renamed graph what `k` denotes in the original
    (collections in `omit` are those on which `ρ` is the identity). -/
theorem clone_values (ρ : Obj → Obj) (hinj : ∀ a b, ρ a = ρ b → a = b) (g : NGraph)
    (cache cache' : Obj → Option Obj) (hc : ∀ k, cache' (ρ k) = cache k) :
    ∀ (fuel : Nat) (k : Obj), evalKeyN (renameGraph ρ g) cache' fuel (ρ k) = evalKeyN g cache fuel k
  | 0, _ => rfl
  | fuel + 1, k => by
    have ih := clone_values ρ hinj g cache cache' hc fuel
    simp only [evalKeyN, lookup_renameGraph ρ hinj k g]
    cases hl : g.lookup k with
    | none => simp [hc]
    | some n => simp only [Option.map_some]; exact evalNode_rename ρ _ _ ih n

/-- **clone shares no keys with the original except the omitted ones**: if `ρ` sends every non-omitted key outside
    the original key set (freshness of `clone_key`) then a key of the clone that is also an original key is omitted. -/
theorem clone_keys_disjoint (ρ : Obj → Obj) (g : NGraph) (omitted : List Obj)
    (hfresh : ∀ k ∈ g.map Prod.fst, k ∉ omitted → ρ k ∉ g.map Prod.fst)
    (hid : ∀ k ∈ omitted, ρ k = k) :
    ∀ k' ∈ (renameGraph ρ g).map Prod.fst, k' ∈ g.map Prod.fst → k' ∈ omitted := by
  intro k' hk' hk'g
  simp only [renameGraph, List.map_map, List.mem_map, Function.comp] at hk'
  obtain ⟨⟨k, n⟩, hkn, rfl⟩ := hk'
  have hkg : k ∈ g.map Prod.fst := List.mem_map.mpr ⟨(k, n), hkn, rfl⟩
  by_cases ho : k ∈ omitted
  · simpa [hid k ho] using ho
  · exact absurd hk'g (hfresh k hkg ho)

/-- **bind keeps values**: once the blocker has a value, the bound node computes what the node computes … -/
theorem bind_values (env : Obj → Option Obj) (blocker : Obj) (n : Node) (x : Obj) (hb : env blocker = some x) :
    evalNode env (bindNode blocker n) = evalNode env n := by
  simp only [bindNode, evalNode, evalNodes, evalKw, hb]
  cases evalNode env n <;> simp [applyFunc]

/-- … and cannot run before: the blocker is one of its dependencies and a missing blocker blocks evaluation. -/
theorem bind_waits (env : Obj → Option Obj) (blocker : Obj) (n : Node) :
    blocker ∈ (bindNode blocker n).deps ∧ (env blocker = none → evalNode env (bindNode blocker n) = none) := by
  constructor
  · simp [bindNode, Node.deps, depsList]
  · intro hb
    simp only [bindNode, evalNode, evalNodes, evalKw, hb]
    cases evalNode env n <;> rfl

/-- the dependencies of a renamed node are the renamed dependencies -/
theorem deps_renameNode_alias (ρ : Obj → Obj) (t : Obj) : (renameNode ρ (.alias t)).deps = [ρ t] := by
  simp [renameNode, Node.deps]

/-! ### `Layer.clone` at layer level (highlevelgraph.py 263-288)

`cloneSpecLayer` / `cloneLegacyLayer` (Model/Rename.lean) are the whole loop of `Layer.clone`, the function that the
driver runs against the real method. `keys` is the set of replaced keys, `keyedRho keys ρ` the renaming that is actually
applied (`clone_key` on `keys`, identity elsewhere); `D` is any finite universe containing the layer's keys and every key
it references. `CloneCtx` asks that the applied renaming is injective on `D` — `layer_clone_ctx_of_fresh` derives it from
`clone_key` being injective on `keys` and fresh. (The global injectivity that `clone_values` asks for can *not* hold for
`keyedRho` with a fresh `ρ` — `k` and `ρ k` would both be sent to `ρ k` — which is why the layer theorems are stated
relative to `D`.) -/

/-- `CloneCtx` from the assumption on `clone_key`: injective on the replaced keys, fresh w.r.t. the universe -/
theorem layer_clone_ctx_of_fresh (keys D : List Obj) (ρ : Obj → Obj) (g : NGraph)
    (hk : ∀ kn ∈ g, kn.1 ∈ D) (hd : ∀ kn ∈ g, ∀ d ∈ kn.2.deps, d ∈ D)
    (hinj : ∀ a ∈ keys, ∀ b ∈ keys, ρ a = ρ b → a = b) (hfresh : ∀ a ∈ keys, ρ a ∉ D) : CloneCtx keys D ρ g :=
  ⟨hk, hd, keyedRho_inj_on keys D ρ hinj hfresh⟩

/-- **`Layer.clone` keeps values** (no blocker): fuel for fuel, the cloned layer computes under the regenerated key
    what the original computes under `k`; `hclosed` = entries that are not regenerated (omitted) do not refer to
    regenerated keys -/
theorem layer_clone_values {keys D : List Obj} {ρ : Obj → Obj} {g : NGraph} (H : CloneCtx keys D ρ g)
    (hclosed : ∀ kn ∈ g, kn.1 ∉ keys → ∀ d ∈ kn.2.deps, d ∉ keys)
    (cache cache' : Obj → Option Obj) (hc : ∀ k ∈ D, cache' (keyedRho keys ρ k) = cache k) (fuel : Nat) :
    ∀ k ∈ D, evalKeyN (cloneSpecLayer keys ρ none g).1 cache' fuel (keyedRho keys ρ k) = evalKeyN g cache fuel k :=
  cloneSpecLayer_values H hclosed cache cache' hc fuel

/-- **`Layer.clone(…, bind_to=blocker)` keeps values**: once the blocker has a value, `k` computes `v` in the original
    iff the regenerated key computes `v` in the cloned layer -/
theorem layer_clone_bound_values {keys D : List Obj} {ρ : Obj → Obj} {g : NGraph} (H : CloneCtx keys D ρ g)
    (hclosed : ∀ kn ∈ g, kn.1 ∉ keys → ∀ d ∈ kn.2.deps, d ∉ keys) (b x : Obj)
    (hbf : ∀ k ∈ D, keyedRho keys ρ k ≠ b)
    (cache cache' : Obj → Option Obj) (hbv : cache' b = some x) (hc : ∀ k ∈ D, cache' (keyedRho keys ρ k) = cache k) :
    ∀ k ∈ D, ∀ v, Computes g cache k v ↔ Computes (cloneSpecLayer keys ρ (some b) g).1 cache' (keyedRho keys ρ k) v := by
  have h := cloneSpecLayer_bound_values H hclosed b x hbf cache cache' hbv hc
  intro k hk v
  exact ⟨fun ⟨f, hf⟩ => ⟨f + 1, h.1 f k hk v hf⟩, fun ⟨f, hf⟩ => ⟨f, h.2 f k hk v hf⟩⟩

/-- **a bound layer runs only after the blocker**: as long as neither the blocker nor a regenerated key has a value,
    no regenerated key of the layer can be evaluated, at any depth (leaves read the blocker through `chunks.bind`, every
    other regenerated entry reads a regenerated key) -/
theorem layer_clone_waits {keys D : List Obj} {ρ : Obj → Obj} {g : NGraph} (H : CloneCtx keys D ρ g) (b : Obj)
    (hbf : ∀ k ∈ D, keyedRho keys ρ k ≠ b)
    (cache' : Obj → Option Obj) (hbv : cache' b = none) (hc : ∀ k ∈ keys, cache' (ρ k) = none) (fuel : Nat) :
    ∀ k ∈ D, k ∈ keys → evalKeyN (cloneSpecLayer keys ρ (some b) g).1 cache' fuel (ρ k) = none :=
  cloneSpecLayer_waits H b hbf cache' hbv hc fuel

/-- **every regenerated entry that references no regenerated key is wrapped** in `chunks.bind(·, blocker)`, contributes
    to `bound`, depends on the blocker and cannot be evaluated without it -/
theorem layer_clone_leaf_wrapped {keys : List Obj} (ρ : Obj → Obj) (b : Obj) {k : Obj} {n : Node} (hk : k ∈ keys)
    (hl : ∀ d ∈ n.deps, d ∉ keys) :
    cloneSpecEntry keys ρ (some b) k n = ((ρ k, bindNode b (renameNode (keyedRho keys ρ) n)), true) ∧
    b ∈ (cloneSpecEntry keys ρ (some b) k n).1.2.deps ∧
    ∀ env : Obj → Option Obj, env b = none → evalNode env (cloneSpecEntry keys ρ (some b) k n).1.2 = none := by
  have e := cloneSpecEntry_leaf ρ b hk ((specLeaf_true_iff keys n).mpr hl)
  rw [e]
  exact ⟨rfl, (bind_waits (fun _ => none) b _).1, fun env h => (bind_waits env b _).2 h⟩

/-- … an entry that references a regenerated key is renamed but not wrapped (it waits through that key) … -/
theorem layer_clone_inner_not_wrapped {keys : List Obj} (ρ : Obj → Obj) (bindTo : Option Obj) {k d : Obj} {n : Node}
    (hk : k ∈ keys) (hd : d ∈ n.deps) (hdk : d ∈ keys) :
    cloneSpecEntry keys ρ bindTo k n = ((ρ k, renameNode (keyedRho keys ρ) n), false) ∧
    ρ d ∈ (cloneSpecEntry keys ρ bindTo k n).1.2.deps := by
  have e := cloneSpecEntry_inner ρ bindTo hk ((specLeaf_false_iff keys n).mpr ⟨d, hd, hdk⟩)
  rw [e, renameNode_deps]
  exact ⟨rfl, List.mem_map.mpr ⟨d, hd, keyedRho_of_mem hdk⟩⟩

/-- … and **entries outside `keys` are untouched** -/
theorem layer_clone_untouched {keys : List Obj} (ρ : Obj → Obj) (bindTo : Option Obj) {k : Obj} (n : Node) (hk : k ∉ keys) :
    cloneSpecEntry keys ρ bindTo k n = ((k, n), false) :=
  cloneSpecEntry_outside ρ bindTo n hk

/-- **`bound` is true iff some leaf was wrapped** (and a blocker was given) -/
theorem layer_clone_bound_iff (keys : List Obj) (ρ : Obj → Obj) (bindTo : Option Obj) (g : NGraph) :
    (cloneSpecLayer keys ρ bindTo g).2 = true ↔
      ∃ b, bindTo = some b ∧ ∃ kn ∈ g, kn.1 ∈ keys ∧ ∀ d ∈ kn.2.deps, d ∉ keys := by
  simp only [cloneSpecLayer_bound_iff, specLeaf_true_iff]

/-! the legacy branch (`clone_value`) -/

/-- `is_leaf` of `clone_value` ⇔ the value references none of the replaced keys (in the sense of `keys_in_tasks`) -/
theorem legacy_clone_leaf_iff (keys : List Obj) (ρ : Obj → Obj) (v : Obj) :
    (cloneValue keys ρ v).2 = false ↔ legacyRefs keys v = [] := by
  rw [cloneValue_flag]; cases legacyRefs keys v <;> simp

/-- legacy `bound` is true iff some regenerated value without reference to a regenerated key was wrapped -/
theorem legacy_clone_bound_iff (keys : List Obj) (ρ : Obj → Obj) (bindTo : Option Obj) (bindFn : Obj) (g : LGraph) :
    (cloneLegacyLayer keys ρ bindTo bindFn g).2 = true ↔
      ∃ b, bindTo = some b ∧ ∃ kv ∈ g, kv.1 ∈ keys ∧ legacyRefs keys kv.2 = [] :=
  cloneLegacyLayer_bound_iff keys ρ bindTo bindFn g

/-- a legacy leaf is wrapped as `(chunks.bind, value, bind_to)` and then lists the blocker among its dependencies -/
theorem legacy_clone_leaf_wrapped {keys : List Obj} (ρ : Obj → Obj) (allKeys : List Obj) (s : String) (bindFn : Obj)
    {k v : Obj} (hk : k ∈ keys) (hl : legacyRefs keys v = []) (hf : bindFn.callable = true) (hb : Obj.str s ∈ allKeys) :
    cloneLegacyEntryB keys ρ (some (.str s)) bindFn k v = ((ρ k, .tuple [bindFn, (cloneValue keys ρ v).1, .str s]), true) ∧
    Obj.str s ∈ legacyRefs allKeys (cloneLegacyEntryB keys ρ (some (.str s)) bindFn k v).1.2 := by
  rw [cloneLegacyEntryB_leaf ρ (.str s) bindFn hk hl]
  exact ⟨rfl, legacy_bound_refs_blocker allKeys bindFn _ (.str s) hf rfl hb rfl (fun _ h => by cases h) (fun _ h => by cases h)⟩

theorem legacy_clone_untouched {keys : List Obj} (ρ : Obj → Obj) (bindTo : Option Obj) (bindFn : Obj) {k : Obj} (v : Obj)
    (hk : k ∉ keys) : cloneLegacyEntryB keys ρ bindTo bindFn k v = ((k, v), false) :=
  cloneLegacyEntryB_outside ρ bindTo bindFn v hk

/-! non-vacuity of the layer theorems: `a = f0(1)`, `b = f1(a, o)`, `o` omitted; `ρ` appends a prime -/
section LayerExample
def exRho : Obj → Obj
  | .str s => .str (s ++ "'")
  | o => o
def exG : NGraph :=
  [(.str "a", .task (.call (.fn 0)) [.raw (.int 1)] []),
   (.str "b", .task (.call (.fn 1)) [.ref (.str "a"), .ref (.str "o")] []),
   (.str "o", .data (.int 7))]
def exKeys : List Obj := [.str "a", .str "b"]
def exD : List Obj := [.str "a", .str "b", .str "o"]

example : CloneCtx exKeys exD exRho exG :=
  layer_clone_ctx_of_fresh exKeys exD exRho exG (by decide) (by decide) (by decide) (by decide)
example : ∀ kn ∈ exG, kn.1 ∉ exKeys → ∀ d ∈ kn.2.deps, d ∉ exKeys := by decide
example : ∀ k ∈ exD, keyedRho exKeys exRho k ≠ .str "blk" := by decide
/-- the leaf `a` is wrapped, the inner `b` is renamed only, `o` is untouched, `bound` is set -/
example : cloneSpecLayer exKeys exRho (some (.str "blk")) exG =
    ([(.str "a'", .task .bindFirst [.task (.call (.fn 0)) [.raw (.int 1)] [], .ref (.str "blk")] []),
      (.str "b'", .task (.call (.fn 1)) [.ref (.str "a'"), .ref (.str "o")] []),
      (.str "o", .data (.int 7))], true) := by rfl
example : (cloneSpecLayer exKeys exRho none exG).2 = false := by rfl
example : legacyRefs [.str "a"] (.tuple [.fn 0, .int 1]) = [] := by decide
end LayerExample

/-! ### checkpoint: the aggregation tree reaches every input and computes `None` -/

/-- `x` feeds (transitively) into `y` through the entries of the reduce layer -/
inductive Feeds (L : List (Obj × List Obj)) : Obj → Obj → Prop
  | refl (x) : Feeds L x x
  | step {x k y ins} : (k, ins) ∈ L → x ∈ ins → Feeds L k y → Feeds L x y

theorem Feeds.mono {L L' : List (Obj × List Obj)} (h : ∀ e ∈ L, e ∈ L') {x y : Obj} (f : Feeds L x y) : Feeds L' x y := by
  induction f with
  | refl x => exact Feeds.refl x
  | step he hx _ ih => exact Feeds.step (h _ he) hx ih

theorem Feeds.trans {L : List (Obj × List Obj)} {x m y : Obj} (f : Feeds L x m) (g : Feeds L m y) : Feeds L x y := by
  induction f with
  | refl _ => exact g
  | step he hx _ ih => exact Feeds.step he hx (ih g)

theorem checkpointReduce_feeds (name : Obj) (mk : Nat → Obj) (se : Nat) (orig : List Obj) :
    ∀ (fuel : Nat) (mapKeys : List Obj) (layer : List (Obj × List Obj)),
      (∀ x ∈ orig, ∃ m ∈ mapKeys, Feeds layer x m) →
      ∀ x ∈ orig, Feeds (checkpointReduce name mk se fuel mapKeys layer) x name
  | 0, mapKeys, layer, h, x, hx => by
    obtain ⟨m, hm, hf⟩ := h x hx
    simp only [checkpointReduce]
    have hf' : Feeds (layer ++ [(name, mapKeys)]) x m := hf.mono (fun e he => by simp [he])
    have : Feeds (layer ++ [(name, mapKeys)]) m name :=
      Feeds.step (k := name) (ins := mapKeys) (by simp) hm (Feeds.refl _)
    exact hf'.trans this
  | fuel + 1, mapKeys, layer, h, x, hx => by
    unfold checkpointReduce
    split
    · apply checkpointReduce_feeds name mk se orig fuel _ _ _ x hx
      intro y hy
      obtain ⟨m, hm, hf⟩ := h y hy
      have hmono : ∀ e ∈ layer, e ∈ layer ++ [(mk layer.length, mapKeys.take se)] := fun e he => by simp [he]
      -- m is either among the first `se` pending keys (now feeding the new node) or still pending
      have hsplit : m ∈ mapKeys.take se ∨ m ∈ mapKeys.drop se := by
        have := List.take_append_drop se mapKeys
        rw [← this] at hm
        exact List.mem_append.mp hm
      rcases hsplit with hmt | hmd
      · refine ⟨mk layer.length, by simp, ?_⟩
        have h1 : Feeds (layer ++ [(mk layer.length, mapKeys.take se)]) y m := hf.mono hmono
        have h2 : Feeds (layer ++ [(mk layer.length, mapKeys.take se)]) m (mk layer.length) :=
          Feeds.step (k := mk layer.length) (ins := mapKeys.take se) (by simp) hmt (Feeds.refl _)
        exact h1.trans h2
      · exact ⟨m, by simp [hmd], hf.mono hmono⟩
    · obtain ⟨m, hm, hf⟩ := h x hx
      have hf' : Feeds (layer ++ [(name, mapKeys)]) x m := hf.mono (fun e he => by simp [he])
      have : Feeds (layer ++ [(name, mapKeys)]) m name :=
        Feeds.step (k := name) (ins := mapKeys) (by simp) hm (Feeds.refl _)
      exact hf'.trans this

/-- **checkpoint waits for every chunk**: every input key feeds, through the reduce layer, into the final node. -/
theorem checkpoint_reaches_all (name : Obj) (mk : Nat → Obj) (se fuel : Nat) (mapKeys : List Obj) :
    ∀ x ∈ mapKeys, Feeds (checkpointReduce name mk se fuel mapKeys []) x name :=
  checkpointReduce_feeds name mk se mapKeys fuel mapKeys [] (fun x hx => ⟨x, hx, Feeds.refl x⟩)

/-- **… and computes to `None`**: a `chunks.checkpoint` task evaluates to `None` whenever all its inputs evaluate. -/
theorem checkpoint_none (env : Obj → Option Obj) (ins : List Node) (vs : List Obj) (h : evalNodes env ins = some vs) :
    evalNode env (.task .constNone ins []) = some .none := by
  simp [evalNode, h, evalKw, applyFunc]


/-! ### which regenerated Blockwise layers are bound -/

/-- **A regenerated layer all of whose inputs are omitted is a leaf** — whatever kind the inputs are (array names or
    `TaskRef`s to Delayed / Item / scalar collections): it is the layer `bind` wraps in `chunks.bind(·, blocker)`. -/
theorem blockwiseLeaf_of_all_omitted (names : List Obj) (indices : List BwArg) (numblocks : List Obj)
    (hi : ∀ a ∈ indices, match a with
      | .name k => k ∉ names
      | .ref k => k ∉ names
      | .other => True)
    (hn : ∀ k ∈ numblocks, k ∉ names) : blockwiseLeaf names indices numblocks = true := by
  unfold blockwiseLeaf
  simp only [Bool.and_eq_true, Bool.not_eq_true', List.any_eq_false, List.contains_eq_mem, decide_eq_true_eq]
  constructor
  · intro a ha
    have := hi a ha
    cases a <;> simp_all
  · intro k hk; simpa using hn k hk

/-- conversely a layer with a regenerated input (by name or by `TaskRef`) is not a leaf -/
theorem blockwiseLeaf_false_of_ref (names : List Obj) (indices : List BwArg) (numblocks : List Obj) (k : Obj)
    (hk : k ∈ names) (h : BwArg.ref k ∈ indices ∨ BwArg.name k ∈ indices) :
    blockwiseLeaf names indices numblocks = false := by
  unfold blockwiseLeaf
  rw [Bool.and_eq_false_iff]
  left
  simp only [Bool.not_eq_false', List.any_eq_true]
  rcases h with h | h
  · exact ⟨_, h, by simpa using hk⟩
  · exact ⟨_, h, by simpa using hk⟩

/-- a leaf layer's task is wrapped by `bindNode`, hence waits for the blocker (`bind_waits`) and keeps its value
    (`bind_values`) -/
example : blockwiseLeaf [.str "y"] [.name (.str "x"), .ref (.str "d")] [.str "x"] = true := by decide
example : blockwiseLeaf [.str "y", .str "d"] [.name (.str "x"), .ref (.str "d")] [.str "x"] = false := by decide

/-! non-vacuity -/
example : checkpointReduce (.str "cp") (fun i => .tuple [.str "cp", .int i]) 2 10
    [.int 1, .int 2, .int 3, .int 4, .int 5] [] =
    [(.tuple [.str "cp", .int 0], [.int 1, .int 2]), (.tuple [.str "cp", .int 1], [.int 3, .int 4]),
     (.tuple [.str "cp", .int 2], [.int 5, .tuple [.str "cp", .int 0]]),
     (.str "cp", [.tuple [.str "cp", .int 1], .tuple [.str "cp", .int 2]])] := by decide

end Dask.C16
