import DaskModel.Model.Rename
import DaskModel.Lemmas.TaskTerm
import DaskModel.Lemmas.RenameLayer
import DaskModel.Lemmas.RenameLegacy
import DaskModel.Lemmas.RenameBind
import DaskModel.Lemmas.RenameBlockwise
import DaskModel.Lemmas.RenameCheckpoint
/-!
# C16 — graph manipulation keeps values and changes only keys and ordering

Model: `Dask.TaskTerm` (Model/Rename.lean): `clone`/`bind` regenerate keys with `clone_key(·, seed)` — modelled as a
renaming `ρ` that is assumed injective and fresh (hash collision freedom of `tokenize`) — rewrite every reference
(`renameNode` = `GraphNode.substitute`, `cloneValue` = `Layer.clone.clone_value`) and wrap the regenerated leaves in
`chunks.bind(node, blocker)`; `checkpoint` aggregates with `chunks.checkpoint` in a tree (`checkpointReduce`).

Sections (helper lemmas live in Lemmas/Rename*.lean; every model function named here is run against the real function
by harness/props/c16.py):
* key regeneration of single nodes / whole graphs under a globally injective renaming: `clone_values`,
  `clone_keys_disjoint`, `bind_values`, `bind_waits`;
* `Layer.clone` as a whole (`cloneSpecLayer`, `cloneLegacyLayer`): `layer_clone_*`, `legacy_clone_*`;
* `_bind_one`'s bookkeeping over layer names (`bindOne`): `bind_one_*`;
* `checkpoint`: `checkpoint_reaches_all`, `checkpoint_none`, fuel and shape of the tree (`checkpoint_fuel_*`, `checkpoint_shape`);
* `Blockwise.clone` (`blockwiseLeaf`, `blockwiseClone`): `blockwiseLeaf_*`, `blockwise_clone_*`.
-/
namespace Dask.C16
open Dask.TaskTerm

mutual
theorem evalNode_rename (ρ : Obj → Obj) (env env' : Obj → Option Obj) (h : ∀ k, env' (ρ k) = env k) :
    ∀ n : Node, evalNode env' (renameNode ρ n) = evalNode env n
  | .alias t => by simp [renameNode, evalNode, h]
  | .data v => by simp [renameNode, evalNode]
  | .ref k => by simp [renameNode, evalNode, h]
  | .raw v => by simp [renameNode, evalNode]
  | .task f args kw => by
    simp only [renameNode, evalNode, evalNodes_rename ρ env env' h args, evalKw_rename ρ env env' h kw]
theorem evalNodes_rename (ρ : Obj → Obj) (env env' : Obj → Option Obj) (h : ∀ k, env' (ρ k) = env k) :
    ∀ ns : List Node, evalNodes env' (renameNodes ρ ns) = evalNodes env ns
  | [] => by simp [renameNodes, evalNodes]
  | n :: ns => by
    simp only [renameNodes, evalNodes, evalNode_rename ρ env env' h n, evalNodes_rename ρ env env' h ns]
theorem evalKw_rename (ρ : Obj → Obj) (env env' : Obj → Option Obj) (h : ∀ k, env' (ρ k) = env k) :
    ∀ ns : List (Obj × Node), evalKw env' (renameKw ρ ns) = evalKw env ns
  | [] => by simp [renameKw, evalKw]
  | (a, n) :: ns => by
    simp only [renameKw, evalKw, evalNode_rename ρ env env' h n, evalKw_rename ρ env env' h ns]
end

theorem lookup_renameGraph (ρ : Obj → Obj) (hinj : ∀ a b, ρ a = ρ b → a = b) (k : Obj) : ∀ g : NGraph,
    (renameGraph ρ g).lookup (ρ k) = (g.lookup k).map (renameNode ρ)
  | [] => by simp [renameGraph]
  | (k', n) :: rest => by
    have ih := lookup_renameGraph ρ hinj k rest
    unfold renameGraph at ih ⊢
    simp only [List.map_cons, List.lookup]
    by_cases hk : (k == k') = true
    · have : k = k' := eq_of_beq hk
      subst this
      simp
    · have hk' : (k == k') = false := by simpa using hk
      have hne : (ρ k == ρ k') = false := by
        rw [Bool.eq_false_iff]; intro hc
        have := hinj _ _ (eq_of_beq hc)
        subst this; simp at hk'
      simp only [hne, hk', ih]

/-- **clone keeps values**: the regenerated key `ρ k` denotes in the renamed graph what `k` denotes in the original
    (collections in `omit` are those on which `ρ` is the identity). -/
theorem clone_values (ρ : Obj → Obj) (hinj : ∀ a b, ρ a = ρ b → a = b) (g : NGraph)
    (cache cache' : Obj → Option Obj) (hc : ∀ k, cache' (ρ k) = cache k) :
    ∀ (fuel : Nat) (k : Obj), evalKeyN (renameGraph ρ g) cache' fuel (ρ k) = evalKeyN g cache fuel k
  | 0, _ => rfl
  | fuel + 1, k => by
    have ih := clone_values ρ hinj g cache cache' hc fuel
    simp only [evalKeyN, lookup_renameGraph ρ hinj k g]
    cases hl : g.lookup k with
    | none => simp [hc]
    | some n => simp only [Option.map_some]; exact evalNode_rename ρ _ _ ih n

/-- **clone shares no keys with the original except the omitted ones**: if `ρ` sends every non-omitted key outside
    the original key set (freshness of `clone_key`) then a key of the clone that is also an original key is omitted. -/
theorem clone_keys_disjoint (ρ : Obj → Obj) (g : NGraph) (omitted : List Obj)
    (hfresh : ∀ k ∈ g.map Prod.fst, k ∉ omitted → ρ k ∉ g.map Prod.fst)
    (hid : ∀ k ∈ omitted, ρ k = k) :
    ∀ k' ∈ (renameGraph ρ g).map Prod.fst, k' ∈ g.map Prod.fst → k' ∈ omitted := by
  intro k' hk' hk'g
  simp only [renameGraph, List.map_map, List.mem_map, Function.comp] at hk'
  obtain ⟨⟨k, n⟩, hkn, rfl⟩ := hk'
  have hkg : k ∈ g.map Prod.fst := List.mem_map.mpr ⟨(k, n), hkn, rfl⟩
  by_cases ho : k ∈ omitted
  · simpa [hid k ho] using ho
  · exact absurd hk'g (hfresh k hkg ho)

/-- **bind keeps values**: once the blocker has a value, the bound node computes what the node computes … -/
theorem bind_values (env : Obj → Option Obj) (blocker : Obj) (n : Node) (x : Obj) (hb : env blocker = some x) :
    evalNode env (bindNode blocker n) = evalNode env n := by
  simp only [bindNode, evalNode, evalNodes, evalKw, hb]
  cases evalNode env n <;> simp [applyFunc]

/-- … and cannot run before: the blocker is one of its dependencies and a missing blocker blocks evaluation. -/
theorem bind_waits (env : Obj → Option Obj) (blocker : Obj) (n : Node) :
    blocker ∈ (bindNode blocker n).deps ∧ (env blocker = none → evalNode env (bindNode blocker n) = none) := by
  constructor
  · simp [bindNode, Node.deps, depsList]
  · intro hb
    simp only [bindNode, evalNode, evalNodes, evalKw, hb]
    cases evalNode env n <;> rfl

/-- the dependencies of a renamed node are the renamed dependencies -/
theorem deps_renameNode_alias (ρ : Obj → Obj) (t : Obj) : (renameNode ρ (.alias t)).deps = [ρ t] := by
  simp [renameNode, Node.deps]

/-! ### `Layer.clone` at layer level (highlevelgraph.py 263-288)

`cloneSpecLayer` / `cloneLegacyLayer` (Model/Rename.lean) are the whole loop of `Layer.clone`, the function that the
driver runs against the real method. `keys` is the set of replaced keys, `keyedRho keys ρ` the renaming that is actually
applied (`clone_key` on `keys`, identity elsewhere); `D` is any finite universe containing the layer's keys and every key
it references. `CloneCtx` asks that the applied renaming is injective on `D` — `layer_clone_ctx_of_fresh` derives it from
`clone_key` being injective on `keys` and fresh. (The global injectivity that `clone_values` asks for can *not* hold for
`keyedRho` with a fresh `ρ` — `k` and `ρ k` would both be sent to `ρ k` — which is why the layer theorems are stated
relative to `D`.) -/

/-- `CloneCtx` from the assumption on `clone_key`: injective on the replaced keys, fresh w.r.t. the universe -/
theorem layer_clone_ctx_of_fresh (keys D : List Obj) (ρ : Obj → Obj) (g : NGraph)
    (hk : ∀ kn ∈ g, kn.1 ∈ D) (hd : ∀ kn ∈ g, ∀ d ∈ kn.2.deps, d ∈ D)
    (hinj : ∀ a ∈ keys, ∀ b ∈ keys, ρ a = ρ b → a = b) (hfresh : ∀ a ∈ keys, ρ a ∉ D) : CloneCtx keys D ρ g :=
  ⟨hk, hd, keyedRho_inj_on keys D ρ hinj hfresh⟩

/-- **`Layer.clone` keeps values** (no blocker): fuel for fuel, the cloned layer computes under the regenerated key
    what the original computes under `k`; `hclosed` = entries that are not regenerated (omitted) do not refer to
    regenerated keys -/
theorem layer_clone_values {keys D : List Obj} {ρ : Obj → Obj} {g : NGraph} (H : CloneCtx keys D ρ g)
    (hclosed : ∀ kn ∈ g, kn.1 ∉ keys → ∀ d ∈ kn.2.deps, d ∉ keys)
    (cache cache' : Obj → Option Obj) (hc : ∀ k ∈ D, cache' (keyedRho keys ρ k) = cache k) (fuel : Nat) :
    ∀ k ∈ D, evalKeyN (cloneSpecLayer keys ρ none g).1 cache' fuel (keyedRho keys ρ k) = evalKeyN g cache fuel k :=
  cloneSpecLayer_values H hclosed cache cache' hc fuel

/-- **`Layer.clone(…, bind_to=blocker)` keeps values**: once the blocker has a value, `k` computes `v` in the original
    iff the regenerated key computes `v` in the cloned layer -/
theorem layer_clone_bound_values {keys D : List Obj} {ρ : Obj → Obj} {g : NGraph} (H : CloneCtx keys D ρ g)
    (hclosed : ∀ kn ∈ g, kn.1 ∉ keys → ∀ d ∈ kn.2.deps, d ∉ keys) (b x : Obj)
    (hbf : ∀ k ∈ D, keyedRho keys ρ k ≠ b)
    (cache cache' : Obj → Option Obj) (hbv : cache' b = some x) (hc : ∀ k ∈ D, cache' (keyedRho keys ρ k) = cache k) :
    ∀ k ∈ D, ∀ v, Computes g cache k v ↔ Computes (cloneSpecLayer keys ρ (some b) g).1 cache' (keyedRho keys ρ k) v := by
  have h := cloneSpecLayer_bound_values H hclosed b x hbf cache cache' hbv hc
  intro k hk v
  exact ⟨fun ⟨f, hf⟩ => ⟨f + 1, h.1 f k hk v hf⟩, fun ⟨f, hf⟩ => ⟨f, h.2 f k hk v hf⟩⟩

/-- **a bound layer runs only after the blocker**: as long as neither the blocker nor a regenerated key has a value,
    no regenerated key of the layer can be evaluated, at any depth (leaves read the blocker through `chunks.bind`, every
    other regenerated entry reads a regenerated key) -/
theorem layer_clone_waits {keys D : List Obj} {ρ : Obj → Obj} {g : NGraph} (H : CloneCtx keys D ρ g) (b : Obj)
    (hbf : ∀ k ∈ D, keyedRho keys ρ k ≠ b)
    (cache' : Obj → Option Obj) (hbv : cache' b = none) (hc : ∀ k ∈ keys, cache' (ρ k) = none) (fuel : Nat) :
    ∀ k ∈ D, k ∈ keys → evalKeyN (cloneSpecLayer keys ρ (some b) g).1 cache' fuel (ρ k) = none :=
  cloneSpecLayer_waits H b hbf cache' hbv hc fuel

/-- **every regenerated entry that references no regenerated key is wrapped** in `chunks.bind(·, blocker)`, contributes
    to `bound`, depends on the blocker and cannot be evaluated without it -/
theorem layer_clone_leaf_wrapped {keys : List Obj} (ρ : Obj → Obj) (b : Obj) {k : Obj} {n : Node} (hk : k ∈ keys)
    (hl : ∀ d ∈ n.deps, d ∉ keys) :
    cloneSpecEntry keys ρ (some b) k n = ((ρ k, bindNode b (renameNode (keyedRho keys ρ) n)), true) ∧
    b ∈ (cloneSpecEntry keys ρ (some b) k n).1.2.deps ∧
    ∀ env : Obj → Option Obj, env b = none → evalNode env (cloneSpecEntry keys ρ (some b) k n).1.2 = none := by
  have e := cloneSpecEntry_leaf ρ b hk ((specLeaf_true_iff keys n).mpr hl)
  rw [e]
  exact ⟨rfl, (bind_waits (fun _ => none) b _).1, fun env h => (bind_waits env b _).2 h⟩

/-- … an entry that references a regenerated key is renamed but not wrapped (it waits through that key) … -/
theorem layer_clone_inner_not_wrapped {keys : List Obj} (ρ : Obj → Obj) (bindTo : Option Obj) {k d : Obj} {n : Node}
    (hk : k ∈ keys) (hd : d ∈ n.deps) (hdk : d ∈ keys) :
    cloneSpecEntry keys ρ bindTo k n = ((ρ k, renameNode (keyedRho keys ρ) n), false) ∧
    ρ d ∈ (cloneSpecEntry keys ρ bindTo k n).1.2.deps := by
  have e := cloneSpecEntry_inner ρ bindTo hk ((specLeaf_false_iff keys n).mpr ⟨d, hd, hdk⟩)
  rw [e, renameNode_deps]
  exact ⟨rfl, List.mem_map.mpr ⟨d, hd, keyedRho_of_mem hdk⟩⟩

/-- … and **entries outside `keys` are untouched** -/
theorem layer_clone_untouched {keys : List Obj} (ρ : Obj → Obj) (bindTo : Option Obj) {k : Obj} (n : Node) (hk : k ∉ keys) :
    cloneSpecEntry keys ρ bindTo k n = ((k, n), false) :=
  cloneSpecEntry_outside ρ bindTo n hk

/-- **`bound` is true iff some leaf was wrapped** (and a blocker was given) -/
theorem layer_clone_bound_iff (keys : List Obj) (ρ : Obj → Obj) (bindTo : Option Obj) (g : NGraph) :
    (cloneSpecLayer keys ρ bindTo g).2 = true ↔
      ∃ b, bindTo = some b ∧ ∃ kn ∈ g, kn.1 ∈ keys ∧ ∀ d ∈ kn.2.deps, d ∉ keys := by
  simp only [cloneSpecLayer_bound_iff, specLeaf_true_iff]

/-! the legacy branch (`clone_value`) -/

/-- `is_leaf` of `clone_value` ⇔ the value references none of the replaced keys (in the sense of `keys_in_tasks`) -/
theorem legacy_clone_leaf_iff (keys : List Obj) (ρ : Obj → Obj) (v : Obj) :
    (cloneValue keys ρ v).2 = false ↔ legacyRefs keys v = [] := by
  rw [cloneValue_flag]; cases legacyRefs keys v <;> simp

/-- legacy `bound` is true iff some regenerated value without reference to a regenerated key was wrapped -/
theorem legacy_clone_bound_iff (keys : List Obj) (ρ : Obj → Obj) (bindTo : Option Obj) (bindFn : Obj) (g : LGraph) :
    (cloneLegacyLayer keys ρ bindTo bindFn g).2 = true ↔
      ∃ b, bindTo = some b ∧ ∃ kv ∈ g, kv.1 ∈ keys ∧ legacyRefs keys kv.2 = [] :=
  cloneLegacyLayer_bound_iff keys ρ bindTo bindFn g

/-- a legacy leaf is wrapped as `(chunks.bind, value, bind_to)` and then lists the blocker among its dependencies -/
theorem legacy_clone_leaf_wrapped {keys : List Obj} (ρ : Obj → Obj) (allKeys : List Obj) (s : String) (bindFn : Obj)
    {k v : Obj} (hk : k ∈ keys) (hl : legacyRefs keys v = []) (hf : bindFn.callable = true) (hb : Obj.str s ∈ allKeys) :
    cloneLegacyEntryB keys ρ (some (.str s)) bindFn k v = ((ρ k, .tuple [bindFn, (cloneValue keys ρ v).1, .str s]), true) ∧
    Obj.str s ∈ legacyRefs allKeys (cloneLegacyEntryB keys ρ (some (.str s)) bindFn k v).1.2 := by
  rw [cloneLegacyEntryB_leaf ρ (.str s) bindFn hk hl]
  exact ⟨rfl, legacy_bound_refs_blocker allKeys bindFn _ (.str s) hf rfl hb rfl (fun _ h => by cases h) (fun _ h => by cases h)⟩

/-- **`Layer.clone` keeps the values of a legacy layer** (no blocker) under the statement's legacy semantics
    (`evalKeyL`: calls, elementwise lists and dicts, key-typed hashable values equal to a key are references): fuel for
    fuel, the cloned layer computes under the regenerated key what the original computes under `k`. `LegacyCtx`: the
    universe contains the keys and the key-like atoms of the values, the applied renaming is injective on it, keys and
    regenerated keys are key-typed hashable non-task objects, entries that are not regenerated do not refer to
    regenerated keys. (With a blocker the legacy wrapper `(chunks.bind, value, blocker)` calls a function the legacy
    model leaves uninterpreted; that case is covered on the task-spec side by `layer_clone_bound_values`.) -/
theorem legacy_clone_values {keys D : List Obj} {ρ : Obj → Obj} {g : LGraph} (H : LegacyCtx keys D ρ g) (bindFn : Obj)
    (cache cache' : Obj → Option Obj) (hc : ∀ k ∈ D, cache' (keyedRho keys ρ k) = cache k) (fuel : Nat) :
    ∀ k ∈ D,
      evalKeyL (cloneLegacyLayer keys ρ none bindFn g).1 ((cloneLegacyLayer keys ρ none bindFn g).1.map Prod.fst) cache' fuel
        (keyedRho keys ρ k) = evalKeyL g (g.map Prod.fst) cache fuel k :=
  cloneLegacyLayer_values H bindFn cache cache' hc fuel

theorem legacy_clone_untouched {keys : List Obj} (ρ : Obj → Obj) (bindTo : Option Obj) (bindFn : Obj) {k : Obj} (v : Obj)
    (hk : k ∉ keys) : cloneLegacyEntryB keys ρ bindTo bindFn k v = ((k, v), false) :=
  cloneLegacyEntryB_outside ρ bindTo bindFn v hk

/-! non-vacuity of the layer theorems: `a = f0(1)`, `b = f1(a, o)`, `o` omitted; `ρ` appends a prime -/
section LayerExample
def exRho : Obj → Obj
  | .str s => .str (s ++ "'")
  | o => o
def exG : NGraph :=
  [(.str "a", .task (.call (.fn 0)) [.raw (.int 1)] []),
   (.str "b", .task (.call (.fn 1)) [.ref (.str "a"), .ref (.str "o")] []),
   (.str "o", .data (.int 7))]
def exKeys : List Obj := [.str "a", .str "b"]
def exD : List Obj := [.str "a", .str "b", .str "o"]

example : CloneCtx exKeys exD exRho exG :=
  layer_clone_ctx_of_fresh exKeys exD exRho exG (by decide) (by decide) (by decide) (by decide)
example : ∀ kn ∈ exG, kn.1 ∉ exKeys → ∀ d ∈ kn.2.deps, d ∉ exKeys := by decide
example : ∀ k ∈ exD, keyedRho exKeys exRho k ≠ .str "blk" := by decide
/-- the leaf `a` is wrapped, the inner `b` is renamed only, `o` is untouched, `bound` is set -/
example : cloneSpecLayer exKeys exRho (some (.str "blk")) exG =
    ([(.str "a'", .task .bindFirst [.task (.call (.fn 0)) [.raw (.int 1)] [], .ref (.str "blk")] []),
      (.str "b'", .task (.call (.fn 1)) [.ref (.str "a'"), .ref (.str "o")] []),
      (.str "o", .data (.int 7))], true) := by rfl
example : (cloneSpecLayer exKeys exRho none exG).2 = false := by rfl
example : legacyRefs [.str "a"] (.tuple [.fn 0, .int 1]) = [] := by decide
/-- non-vacuity of `legacy_clone_values`: `a = (f0, 1)`, `b = (f1, a, [o, {"x": a}])`, `o = 7` omitted -/
def exLG : LGraph :=
  [(.str "a", .tuple [.fn 0, .int 1]),
   (.str "b", .tuple [.fn 1, .str "a", .list [.str "o", .dict [(.str "x", .str "a")]]]),
   (.str "o", .int 7)]
example : LegacyCtx exKeys [.str "a", .str "b", .str "o", .int 1, .int 7] exRho exLG :=
  ⟨by decide, by decide, keyedRho_inj_on _ _ _ (by decide) (by decide), by decide, by decide, by decide, by decide⟩
example : (cloneLegacyLayer exKeys exRho none (.fn 99) exLG).1 =
    [(.str "a'", .tuple [.fn 0, .int 1]),
     (.str "b'", .tuple [.fn 1, .str "a'", .list [.str "o", .dict [(.str "x", .str "a'")]]]),
     (.str "o", .int 7)] := by decide
end LayerExample

/-! ### `_bind_one`: the bookkeeping over layer names (graph_manipulation.py 328-408)

`bindOne` (Model/Rename.lean) is the function the driver runs against the real `bind`/`clone`: the two worklists
(`layers_to_clone`, `layers_to_copy_verbatim`, Python sets popped in an order chosen by the parameters `sel1`/`sel2` — all
theorems hold for every choice), `new_layers` (here: where each layer comes from) and `new_deps`. A layer of the child's
graph is abstracted to its dependency names and the `is_bound` flag its `Layer.clone` returns. -/

/-- the assumptions, in decidable form: the child's graph is a valid HighLevelGraph containing the child's layers,
    `clone_key` is injective on its layer names and fresh (w.r.t. the child's and the blocker's names), the blocker's
    graph `B` is a valid HighLevelGraph that contains the blocker's key as a layer -/
structure BindInput (G : LayerMap) (child : List Obj) (ρ : Obj → Obj) (blk : Option Obj) (B : List (Obj × List Obj)) : Prop where
  depsIn : ∀ e ∈ G, ∀ d ∈ e.2.1, d ∈ G.map Prod.fst
  childIn : ∀ l ∈ child, l ∈ G.map Prod.fst
  inj : ∀ a ∈ G.map Prod.fst, ∀ b ∈ G.map Prod.fst, ρ a = ρ b → a = b
  freshG : ∀ a ∈ G.map Prod.fst, ρ a ∉ G.map Prod.fst
  freshB : ∀ a ∈ G.map Prod.fst, ρ a ∉ B.map Prod.fst
  closedB : ∀ e ∈ B, ∀ d ∈ e.2, d ∈ B.map Prod.fst
  blkIn : ∀ b, blk = some b → b ∈ B.map Prod.fst

theorem BindInput.hyp {G : LayerMap} {child : List Obj} {ρ : Obj → Obj} {blk : Option Obj} {B : List (Obj × List Obj)}
    (h : BindInput G child ρ blk B) : BindHyp G child ρ blk (bindInit blk B) :=
  bindHyp_of
    ⟨fun l _ _ hl d hd => (isSome_lookup_iff G d).mpr (h.depsIn _ (mem_of_lookup G l _ hl) d hd),
     fun l hl => (isSome_lookup_iff G l).mpr (h.childIn l hl)⟩
    (fun a b ha hb => h.inj a ((isSome_lookup_iff G a).mp ha) b ((isSome_lookup_iff G b).mp hb))
    (fun a ha => lookup_none_of_not_mem G _ (h.freshG a ((isSome_lookup_iff G a).mp ha)))
    (fun a ha => lookup_none_of_not_mem B _ (h.freshB a ((isSome_lookup_iff G a).mp ha)))
    (fun n _ hn d hd => (isSome_lookup_iff B d).mpr (h.closedB _ (mem_of_lookup B n _ hn) d hd))
    (fun b hb => (isSome_lookup_iff B b).mpr (h.blkIn b hb))

section BindOne
variable {G : LayerMap} {om child : List Obj} {ρ : Obj → Obj} {blk : Option Obj} {B : List (Obj × List Obj)}
  {sel1 sel2 : List Obj → Nat} {fuel : Nat} {acc : BindAcc}

/-- **the loops terminate and raise no KeyError**: with fuel `bindFuel` (number of child layers + twice the number of
    dependency edges) `bindOne` returns a graph, for every pop order -/
theorem bind_one_total (h : BindInput G child ρ blk B) (om : List Obj) (sel1 sel2 : List Obj → Nat)
    (hf : bindFuel G child ≤ fuel) : ∃ acc, bindOne G child om ρ blk B sel1 sel2 fuel = .ok acc :=
  bindOne_ok om h.hyp sel1 sel2 hf

/-- **(a) the result is a well-formed HighLevelGraph**: `new_layers` and `new_deps` have the same (duplicate-free) keys
    and every name in any dependency set is a layer of the result -/
theorem bind_one_wellformed (h : BindInput G child ρ blk B) (hB : (B.map Prod.fst).Nodup)
    (hr : bindOne G child om ρ blk B sel1 sel2 fuel = .ok acc) :
    acc.layers.map Prod.fst = acc.deps.map Prod.fst ∧ (acc.layers.map Prod.fst).Nodup ∧
    ∀ e ∈ acc.deps, ∀ x ∈ e.2, x ∈ acc.layers.map Prod.fst := by
  obtain ⟨verb, acc1, I1, I2⟩ := bindOne_invs h.hyp hr
  obtain ⟨hk, hc⟩ := res_wf h.hyp I1 I2
  have hn := bindOne_nodup hB hr
  refine ⟨hk, hn, ?_⟩
  intro e he x hx
  have hl : acc.deps.lookup e.1 = some e.2 := lookup_eq_of_mem_nodup (by rw [← hk]; exact hn) he
  exact (isSome_lookup_iff _ x).mp (hc e.1 e.2 hl x hx)

/-- **(b) a layer is regenerated iff it is reachable** from the child's layers along dependencies without entering an
    omitted layer (`Regen`; the child's own layers are regenerated even when they are listed in `omit`), it is stored
    under its regenerated name, and the recorded flag is the `is_bound` its `Layer.clone` returned -/
theorem bind_one_regenerated_iff (h : BindInput G child ρ blk B)
    (hr : bindOne G child om ρ blk B sel1 sel2 fuel = .ok acc) (n l : Obj) (bnd : Bool) :
    acc.layers.lookup n = some (.cloned l bnd) ↔
      n = ρ l ∧ Regen G om child l ∧ ∃ ds leaf, G.lookup l = some (ds, leaf) ∧ bnd = (blk.isSome && leaf) := by
  obtain ⟨verb, acc1, I1, I2⟩ := bindOne_invs h.hyp hr
  exact res_regen_iff h.hyp I1 I2 n l bnd

/-- **(b) a layer is copied verbatim iff** it is an omitted layer that a regenerated layer depends on, or a transitive
    dependency of one (`Verb`), and the blocker's graph does not already contain it. `hcons`: where the blocker's graph
    and the child's graph share a layer name they agree on its dependencies (they are the same layer). -/
theorem bind_one_verbatim_iff (h : BindInput G child ρ blk B)
    (hcons : ∀ n ds0 ds leaf, (bindInit blk B).deps.lookup n = some ds0 → G.lookup n = some (ds, leaf) → ∀ d ∈ ds, d ∈ ds0)
    (hr : bindOne G child om ρ blk B sel1 sel2 fuel = .ok acc) (n : Obj) :
    acc.layers.lookup n = some .verbatim ↔ Verb G om child n ∧ (bindInit blk B).layers.lookup n = none := by
  obtain ⟨verb, acc1, I1, I2⟩ := bindOne_invs h.hyp hr
  exact res_verbatim_iff h.hyp I1 I2 hcons n

/-- a verbatim layer keeps its dependencies -/
theorem bind_one_verbatim_deps (h : BindInput G child ρ blk B)
    (hr : bindOne G child om ρ blk B sel1 sel2 fuel = .ok acc) {n : Obj} (hv : acc.layers.lookup n = some .verbatim) :
    ∃ ds leaf, G.lookup n = some (ds, leaf) ∧ acc.deps.lookup n = some ds := by
  obtain ⟨verb, acc1, I1, I2⟩ := bindOne_invs h.hyp hr
  exact (res_verbatim h.hyp I1 I2 hv).2.2

/-- **(c) the new dependencies of a regenerated layer**: the regenerated names of its non-omitted dependencies, its
    omitted dependencies under their own names, and the blocker's key when the layer was bound -/
theorem bind_one_new_deps (h : BindInput G child ρ blk B)
    (hr : bindOne G child om ρ blk B sel1 sel2 fuel = .ok acc) {l : Obj} {ds : List Obj} {leaf : Bool}
    (hl : Regen G om child l) (hG : G.lookup l = some (ds, leaf)) :
    ∃ nd, acc.deps.lookup (ρ l) = some nd ∧
      ∀ x, x ∈ nd ↔ (∃ d ∈ ds, d ∉ om ∧ x = ρ d) ∨ (x ∈ ds ∧ x ∈ om) ∨ (leaf = true ∧ blk = some x) := by
  obtain ⟨verb, acc1, I1, I2⟩ := bindOne_invs h.hyp hr
  exact ⟨_, res_regen_deps h.hyp I1 I2 hl hG, fun x => mem_newDepOf⟩

/-- … so **every bound layer depends on the checkpoint layer** -/
theorem bind_one_bound_depends_on_blocker (h : BindInput G child ρ blk B)
    (hr : bindOne G child om ρ blk B sel1 sel2 fuel = .ok acc) {n l b : Obj}
    (hc : acc.layers.lookup n = some (.cloned l true)) (hb : blk = some b) :
    ∃ nd, acc.deps.lookup n = some nd ∧ b ∈ nd ∧ (acc.layers.lookup b).isSome := by
  obtain ⟨verb, acc1, I1, I2⟩ := bindOne_invs h.hyp hr
  obtain ⟨rfl, hreg, ds, leaf, hG, hbl⟩ := (res_regen_iff h.hyp I1 I2 n l true).mp hc
  have hleaf : leaf = true := by subst hb; simpa using hbl.symm
  refine ⟨_, res_regen_deps h.hyp I1 I2 hreg hG, mem_newDepOf.mpr (Or.inr (Or.inr ⟨hleaf, hb⟩)), ?_⟩
  have h0 := h.hyp.blkIn b hb
  rw [(res_init I1 I2 b h0).1]; exact h0

/-- **(d) regenerated names are fresh**: a layer of the result that carries a name of the child's graph is one of the
    blocker's layers or an omitted (`Verb`) layer — no regenerated layer keeps an original name -/
theorem bind_one_original_names (h : BindInput G child ρ blk B)
    (hr : bindOne G child om ρ blk B sel1 sel2 fuel = .ok acc) {n : Obj} (hn : n ∈ acc.layers.map Prod.fst)
    (hG : n ∈ G.map Prod.fst) : ((bindInit blk B).layers.lookup n).isSome ∨ Verb G om child n := by
  obtain ⟨verb, acc1, I1, I2⟩ := bindOne_invs h.hyp hr
  exact res_original_names h.hyp I1 I2 ((isSome_lookup_iff _ n).mpr hn) ((isSome_lookup_iff _ n).mpr hG)

/-- the blocker's graph is part of the result, unchanged -/
theorem bind_one_blocker_kept (h : BindInput G child ρ blk B)
    (hr : bindOne G child om ρ blk B sel1 sel2 fuel = .ok acc) {n : Obj} (hn : ((bindInit blk B).layers.lookup n).isSome) :
    acc.layers.lookup n = (bindInit blk B).layers.lookup n ∧ acc.deps.lookup n = (bindInit blk B).deps.lookup n := by
  obtain ⟨verb, acc1, I1, I2⟩ := bindOne_invs h.hyp hr
  exact res_init I1 I2 n hn

/-- **the result does not depend on the order in which Python pops the two sets** (nor on the fuel) -/
theorem bind_one_order_independent (h : BindInput G child ρ blk B)
    (hcons : ∀ n ds0 ds leaf, (bindInit blk B).deps.lookup n = some ds0 → G.lookup n = some (ds, leaf) → ∀ d ∈ ds, d ∈ ds0)
    {sel1' sel2' : List Obj → Nat} {fuel' : Nat} {acc' : BindAcc}
    (hr : bindOne G child om ρ blk B sel1 sel2 fuel = .ok acc)
    (hr' : bindOne G child om ρ blk B sel1' sel2' fuel' = .ok acc') (n : Obj) :
    acc.layers.lookup n = acc'.layers.lookup n := by
  obtain ⟨verb, acc1, I1, I2⟩ := bindOne_invs h.hyp hr
  obtain ⟨verb', acc1', I1', I2'⟩ := bindOne_invs h.hyp hr'
  cases ho : acc.layers.lookup n with
  | some o => exact (res_layers_determined h.hyp hcons I1 I2 I1' I2' n o ho).symm
  | none =>
    cases ho' : acc'.layers.lookup n with
    | none => rfl
    | some o' => rw [res_layers_determined h.hyp hcons I1' I2' I1 I2 n o' ho'] at ho; cases ho

end BindOne

/-- `b` is reachable from `a` along the dependency map of a HighLevelGraph -/
inductive DepPath (deps : List (Obj × List Obj)) : Obj → Obj → Prop
  | direct {a b : Obj} {ds : List Obj} : deps.lookup a = some ds → b ∈ ds → DepPath deps a b
  | step {a m b : Obj} {ds : List Obj} : deps.lookup a = some ds → m ∈ ds → DepPath deps m b → DepPath deps a b

/-- **every regenerated layer runs after the checkpoint**: in the HighLevelGraph that `bind` returns, the checkpoint
    layer is reachable from every regenerated layer along `dependencies` — directly for the layers `Layer.clone` bound,
    through a regenerated input for the others. Assumes the child's graph is acyclic (`rank`) and that `Layer.clone`
    binds every regenerated layer that has no regenerated input (`hleaf`; `layer_clone_leaf_wrapped` /
    `blockwiseLeaf_of_all_omitted` are the per-layer facts behind it). -/
theorem bind_one_regenerated_reaches_blocker {G : LayerMap} {om child : List Obj} {ρ : Obj → Obj} {b : Obj}
    {B : List (Obj × List Obj)} {sel1 sel2 : List Obj → Nat} {fuel : Nat} {acc : BindAcc}
    (h : BindInput G child ρ (some b) B) (hr : bindOne G child om ρ (some b) B sel1 sel2 fuel = .ok acc)
    (rank : Obj → Nat) (hrank : ∀ l ds leaf, G.lookup l = some (ds, leaf) → ∀ d ∈ ds, rank d < rank l)
    (hleaf : ∀ l ds leaf, Regen G om child l → G.lookup l = some (ds, leaf) → (∀ d ∈ ds, d ∈ om) → leaf = true) :
    ∀ l, Regen G om child l → DepPath acc.deps (ρ l) b := by
  obtain ⟨verb, acc1, I1, I2⟩ := bindOne_invs h.hyp hr
  have key : ∀ n l, rank l = n → Regen G om child l → DepPath acc.deps (ρ l) b := by
    intro n
    induction n using Nat.strongRecOn with
    | _ n ih =>
      intro l hn hl
      have hin := hl.inG h.hyp.wf
      cases hG : G.lookup l with
      | none => rw [hG] at hin; cases hin
      | some e =>
        obtain ⟨ds, leaf⟩ := e
        have hdeps := res_regen_deps h.hyp I1 I2 hl hG
        by_cases hall : ∀ d ∈ ds, d ∈ om
        · have := hleaf l ds leaf hl hG hall
          exact DepPath.direct hdeps (mem_newDepOf.mpr (Or.inr (Or.inr ⟨this, rfl⟩)))
        · have : ∃ d, d ∈ ds ∧ d ∉ om := by
            apply Classical.byContradiction
            intro hne
            apply hall
            intro d hd
            apply Classical.byContradiction
            intro hdo
            exact hne ⟨d, hd, hdo⟩
          obtain ⟨d, hd, hdo⟩ := this
          have hlt := hrank l ds leaf hG d hd
          exact DepPath.step hdeps (mem_newDepOf.mpr (Or.inl ⟨d, hd, hdo, rfl⟩))
            (ih (rank d) (hn ▸ hlt) d rfl (Regen.step hl hG hd hdo))
  exact fun l hl => key (rank l) l rfl hl

/-! non-vacuity: `z = f(y, w)`, `y = g(x)`, `w = h(x)`, `x = k(src)`; omit `x`; blocker `cp` over a parent `p` -/
section BindExample
def bxG : LayerMap :=
  [(.str "z", ([.str "y", .str "w"], false)), (.str "y", ([.str "x"], true)), (.str "w", ([.str "x"], true)),
   (.str "x", ([.str "src"], true)), (.str "src", ([], true))]
def bxB : List (Obj × List Obj) := [(.str "cp", [.str "p"]), (.str "p", [])]

example : BindInput bxG [.str "z"] exRho (some (.str "cp")) bxB :=
  ⟨by decide, by decide, by decide, by decide, by decide, by decide, fun b h => by cases h; decide⟩
example : ∀ n ds0 ds leaf, (bindInit (some (.str "cp")) bxB).deps.lookup n = some ds0 → bxG.lookup n = some (ds, leaf) →
    ∀ d ∈ ds, d ∈ ds0 := by
  intro n ds0 ds leaf h0 hG
  have h1 : n ∈ [Obj.str "cp", .str "p"] := mem_keys_of_lookup _ n _ h0
  have h2 : n ∈ [Obj.str "z", .str "y", .str "w", .str "x", .str "src"] := mem_keys_of_lookup _ n _ hG
  simp only [List.mem_cons, List.not_mem_nil, or_false] at h1 h2
  rcases h1 with rfl | rfl <;> simp at h2
set_option maxRecDepth 8192 in
/-- two bound layers (`y'`, `w'` depend on `cp`), a shared omitted layer `x` and its dependency `src` copied verbatim -/
example : bindOne bxG [.str "z"] [.str "x"] exRho (some (.str "cp")) bxB (fun _ => 0) (fun w => w.length) (bindFuel bxG [.str "z"]) =
    .ok ⟨[(.str "cp", .blocker), (.str "p", .blocker), (.str "z'", .cloned (.str "z") false),
          (.str "y'", .cloned (.str "y") true), (.str "w'", .cloned (.str "w") true), (.str "x", .verbatim), (.str "src", .verbatim)],
         [(.str "cp", [.str "p"]), (.str "p", []), (.str "z'", [.str "y'", .str "w'"]), (.str "y'", [.str "x", .str "cp"]),
          (.str "w'", [.str "x", .str "cp"]), (.str "x", [.str "src"]), (.str "src", [])]⟩ := by rfl
/-- hypotheses of `bind_one_regenerated_reaches_blocker` on the example: a rank function, and every layer all of whose
    inputs are omitted is flagged as a leaf -/
def bxRank : Obj → Nat
  | .str "z" => 3 | .str "y" => 2 | .str "w" => 2 | .str "x" => 1 | _ => 0
example : ∀ l ds leaf, bxG.lookup l = some (ds, leaf) → ∀ d ∈ ds, bxRank d < bxRank l := by
  intro l ds leaf h
  have hm := mem_of_lookup bxG l _ h
  have : ∀ e ∈ bxG, ∀ d ∈ e.2.1, bxRank d < bxRank e.1 := by decide
  exact this _ hm
example : ∀ l ds leaf, Regen bxG [.str "x"] [.str "z"] l → bxG.lookup l = some (ds, leaf) → (∀ d ∈ ds, d ∈ [Obj.str "x"]) → leaf = true := by
  intro l ds leaf _ h
  have hm := mem_of_lookup bxG l _ h
  have : ∀ e ∈ bxG, (∀ d ∈ e.2.1, d ∈ [Obj.str "x"]) → e.2.2 = true := by decide
  exact this _ hm
/-- the known finding at model level: a child that is itself omitted is regenerated all the same (`Regen.base`) -/
example : Regen bxG [.str "z"] [.str "z"] (.str "z") := Regen.base (by simp)
end BindExample

/-! ### checkpoint: the aggregation tree reaches every input and computes `None` -/

/-- `x` feeds (transitively) into `y` through the entries of the reduce layer -/
inductive Feeds (L : List (Obj × List Obj)) : Obj → Obj → Prop
  | refl (x) : Feeds L x x
  | step {x k y ins} : (k, ins) ∈ L → x ∈ ins → Feeds L k y → Feeds L x y

theorem Feeds.mono {L L' : List (Obj × List Obj)} (h : ∀ e ∈ L, e ∈ L') {x y : Obj} (f : Feeds L x y) : Feeds L' x y := by
  induction f with
  | refl x => exact Feeds.refl x
  | step he hx _ ih => exact Feeds.step (h _ he) hx ih

theorem Feeds.trans {L : List (Obj × List Obj)} {x m y : Obj} (f : Feeds L x m) (g : Feeds L m y) : Feeds L x y := by
  induction f with
  | refl _ => exact g
  | step he hx _ ih => exact Feeds.step he hx (ih g)

theorem checkpointReduce_feeds (name : Obj) (mk : Nat → Obj) (se : Nat) (orig : List Obj) :
    ∀ (fuel : Nat) (mapKeys : List Obj) (layer : List (Obj × List Obj)),
      (∀ x ∈ orig, ∃ m ∈ mapKeys, Feeds layer x m) →
      ∀ x ∈ orig, Feeds (checkpointReduce name mk se fuel mapKeys layer) x name
  | 0, mapKeys, layer, h, x, hx => by
    obtain ⟨m, hm, hf⟩ := h x hx
    simp only [checkpointReduce]
    have hf' : Feeds (layer ++ [(name, mapKeys)]) x m := hf.mono (fun e he => by simp [he])
    have : Feeds (layer ++ [(name, mapKeys)]) m name :=
      Feeds.step (k := name) (ins := mapKeys) (by simp) hm (Feeds.refl _)
    exact hf'.trans this
  | fuel + 1, mapKeys, layer, h, x, hx => by
    unfold checkpointReduce
    split
    · apply checkpointReduce_feeds name mk se orig fuel _ _ _ x hx
      intro y hy
      obtain ⟨m, hm, hf⟩ := h y hy
      have hmono : ∀ e ∈ layer, e ∈ layer ++ [(mk layer.length, mapKeys.take se)] := fun e he => by simp [he]
      -- m is either among the first `se` pending keys (now feeding the new node) or still pending
      have hsplit : m ∈ mapKeys.take se ∨ m ∈ mapKeys.drop se := by
        have := List.take_append_drop se mapKeys
        rw [← this] at hm
        exact List.mem_append.mp hm
      rcases hsplit with hmt | hmd
      · refine ⟨mk layer.length, by simp, ?_⟩
        have h1 : Feeds (layer ++ [(mk layer.length, mapKeys.take se)]) y m := hf.mono hmono
        have h2 : Feeds (layer ++ [(mk layer.length, mapKeys.take se)]) m (mk layer.length) :=
          Feeds.step (k := mk layer.length) (ins := mapKeys.take se) (by simp) hmt (Feeds.refl _)
        exact h1.trans h2
      · exact ⟨m, by simp [hmd], hf.mono hmono⟩
    · obtain ⟨m, hm, hf⟩ := h x hx
      have hf' : Feeds (layer ++ [(name, mapKeys)]) x m := hf.mono (fun e he => by simp [he])
      have : Feeds (layer ++ [(name, mapKeys)]) m name :=
        Feeds.step (k := name) (ins := mapKeys) (by simp) hm (Feeds.refl _)
      exact hf'.trans this

/-- **checkpoint waits for every chunk**: every input key feeds, through the reduce layer, into the final node. -/
theorem checkpoint_reaches_all (name : Obj) (mk : Nat → Obj) (se fuel : Nat) (mapKeys : List Obj) :
    ∀ x ∈ mapKeys, Feeds (checkpointReduce name mk se fuel mapKeys []) x name :=
  checkpointReduce_feeds name mk se mapKeys fuel mapKeys [] (fun x hx => ⟨x, hx, Feeds.refl x⟩)

/-- **… and computes to `None`**: a `chunks.checkpoint` task evaluates to `None` whenever all its inputs evaluate. -/
theorem checkpoint_none (env : Obj → Option Obj) (ins : List Node) (vs : List Obj) (h : evalNodes env ins = some vs) :
    evalNode env (.task .constNone ins []) = some .none := by
  simp [evalNode, h, evalKw, applyFunc]


/-! #### the fuel of the aggregation loop and the shape of the tree

`checkpointReduce` silently emits a flat final node when its fuel runs out; `checkpointReduce?` (same loop, `none` when the
fuel runs out while `len(map_keys) > split_every`) makes that visible. `checkpoint` only calls the loop with
`split_every = False` (0) or `split_every ≥ 2` (it raises `ValueError` below 2). -/

/-- **the fuel the driver uses (`len + 1`) suffices** and then both versions agree, for every legal `split_every` -/
theorem checkpoint_fuel_suffices (name : Obj) (mk : Nat → Obj) (se : Nat) (hse : se = 0 ∨ 2 ≤ se) (mapKeys : List Obj)
    (fuel : Nat) (hf : mapKeys.length ≤ fuel) :
    ∃ r, checkpointReduce? name mk se fuel mapKeys [] = some r ∧ checkpointReduce name mk se fuel mapKeys [] = r := by
  have hs : (checkpointReduce? name mk se fuel mapKeys []).isSome := by
    rcases hse with rfl | h2
    · rw [checkpointReduce?_flat]; rfl
    · exact checkpointReduce?_isSome name mk se h2 fuel mapKeys [] (by omega)
  cases h : checkpointReduce? name mk se fuel mapKeys [] with
  | none => rw [h] at hs; cases hs
  | some r => exact ⟨r, rfl, checkpointReduce?_eq name mk se fuel mapKeys [] r h⟩

/-- **the result does not depend on the fuel** once it is at least `len(map_keys)` -/
theorem checkpoint_fuel_independent (name : Obj) (mk : Nat → Obj) (se : Nat) (hse : se = 0 ∨ 2 ≤ se) (mapKeys : List Obj)
    (fuel fuel' : Nat) (hf : mapKeys.length ≤ fuel) (hf' : mapKeys.length ≤ fuel') :
    checkpointReduce name mk se fuel mapKeys [] = checkpointReduce name mk se fuel' mapKeys [] := by
  obtain ⟨r, h1, e1⟩ := checkpoint_fuel_suffices name mk se hse mapKeys fuel hf
  obtain ⟨r', h1', e1'⟩ := checkpoint_fuel_suffices name mk se hse mapKeys fuel' hf'
  rw [e1, e1']
  rcases Nat.le_total fuel fuel' with hle | hle
  · have := checkpointReduce?_mono_le name mk se hle mapKeys [] r h1
    rw [h1'] at this; exact (Option.some.inj this).symm
  · have := checkpointReduce?_mono_le name mk se hle mapKeys [] r' h1'
    rw [h1] at this; exact Option.some.inj this

/-- **shape**: every non-final entry of the reduce layer is `(name, i)` (`i` = its position) with exactly `split_every`
    inputs, the final entry is `name` with at most `split_every` inputs (`split_every ≥ 2`) -/
theorem checkpoint_shape (name : Obj) (mk : Nat → Obj) (se : Nat) (hse : 2 ≤ se) (mapKeys : List Obj) (fuel : Nat)
    (hf : mapKeys.length ≤ fuel) :
    ∃ mid last, checkpointReduce name mk se fuel mapKeys [] = mid ++ [(name, last)] ∧
      (∀ e ∈ mid, e.2.length = se) ∧ last.length ≤ se ∧ (∀ i (h : i < mid.length), (mid[i]).1 = mk i) := by
  obtain ⟨r, h1, e1⟩ := checkpoint_fuel_suffices name mk se (Or.inr hse) mapKeys fuel hf
  obtain ⟨mid, last, e, hm, hl, hk⟩ := checkpointReduce?_shape name mk se fuel mapKeys [] r h1
  exact ⟨mid, last, by rw [e1, e]; simp, hm, hl (by omega), fun i h => by simpa using hk i h⟩

/-- why `checkpoint` has to reject `split_every = 1`: the loop would not terminate (no fuel is enough) -/
theorem checkpoint_split_every_one_diverges (name : Obj) (mk : Nat → Obj) (mapKeys : List Obj) (h : 1 < mapKeys.length)
    (fuel : Nat) : checkpointReduce? name mk 1 fuel mapKeys [] = none :=
  checkpointReduce?_se1_diverges name mk fuel mapKeys [] h

example : checkpointReduce? (.str "cp") (fun i => .tuple [.str "cp", .int i]) 2 3 [.int 1, .int 2, .int 3, .int 4, .int 5] [] =
    some [(.tuple [.str "cp", .int 0], [.int 1, .int 2]), (.tuple [.str "cp", .int 1], [.int 3, .int 4]),
     (.tuple [.str "cp", .int 2], [.int 5, .tuple [.str "cp", .int 0]]),
     (.str "cp", [.tuple [.str "cp", .int 1], .tuple [.str "cp", .int 2]])] := by decide
/-- with too little fuel the explicit version says so (the silent one returns a flat, wrong layer) -/
example : checkpointReduce? (.str "cp") (fun i => .tuple [.str "cp", .int i]) 2 1 [.int 1, .int 2, .int 3, .int 4, .int 5] [] = none := by
  decide

/-! ### which regenerated Blockwise layers are bound -/

/-- **A regenerated layer all of whose inputs are omitted is a leaf** — whatever kind the inputs are (array names or
    `TaskRef`s to Delayed / Item / scalar collections): it is the layer `bind` wraps in `chunks.bind(·, blocker)`. -/
theorem blockwiseLeaf_of_all_omitted (names : List Obj) (indices : List BwArg) (numblocks : List Obj)
    (hi : ∀ a ∈ indices, match a with
      | .name k => k ∉ names
      | .ref k => k ∉ names
      | .other => True)
    (hn : ∀ k ∈ numblocks, k ∉ names) : blockwiseLeaf names indices numblocks = true := by
  unfold blockwiseLeaf
  simp only [Bool.and_eq_true, Bool.not_eq_true', List.any_eq_false, List.contains_eq_mem, decide_eq_true_eq]
  constructor
  · intro a ha
    have := hi a ha
    cases a <;> simp_all
  · intro k hk; simpa using hn k hk

/-- conversely a layer with a regenerated input (by name or by `TaskRef`) is not a leaf -/
theorem blockwiseLeaf_false_of_ref (names : List Obj) (indices : List BwArg) (numblocks : List Obj) (k : Obj)
    (hk : k ∈ names) (h : BwArg.ref k ∈ indices ∨ BwArg.name k ∈ indices) :
    blockwiseLeaf names indices numblocks = false := by
  unfold blockwiseLeaf
  rw [Bool.and_eq_false_iff]
  left
  simp only [Bool.not_eq_false', List.any_eq_true]
  rcases h with h | h
  · exact ⟨_, h, by simpa using hk⟩
  · exact ⟨_, h, by simpa using hk⟩

/-- a leaf layer's task is wrapped by `bindNode`, hence waits for the blocker (`bind_waits`) and keeps its value
    (`bind_values`) -/
example : blockwiseLeaf [.str "y"] [.name (.str "x"), .ref (.str "d")] [.str "x"] = true := by decide
example : blockwiseLeaf [.str "y", .str "d"] [.name (.str "x"), .ref (.str "d")] [.str "x"] = false := by decide

/-! ### `Blockwise.clone`: the whole rewrite (blockwise.py 746-820)

`blockwiseClone` renames exactly the `indices` entries (names with an index / TaskRef keys) and `numblocks` keys that
are in `names`, renames the output and the task key, and — iff the layer is a leaf and a blocker is given — appends
`(TaskRef(bind_to), None)` and wraps the task in `chunks.bind(task, <that argument>)`. -/

/-- `bound` ⇔ a blocker was given and the layer is a leaf; the wrapper reads the appended argument -/
theorem blockwise_clone_bound_iff (names : List Obj) (ρ : Obj → Obj) (bindTo : Option Obj) (L : BwLayer) :
    ((blockwiseClone names ρ bindTo L).2 = true ↔ bindTo.isSome = true ∧ blockwiseLeaf names L.indices L.numblocks = true) ∧
    (blockwiseClone names ρ bindTo L).1.wrapped = (if (blockwiseClone names ρ bindTo L).2 then some L.indices.length else none) ∧
    (blockwiseClone names ρ bindTo L).1.output = ρ L.output := by
  refine ⟨by rw [blockwiseClone_bound]; simp, blockwiseClone_wrapped names ρ bindTo L, (blockwiseClone_output names ρ bindTo L).1⟩

/-- **the rewritten layer refers to the regenerated name of an input iff that input is regenerated**, and keeps the
    original name iff it is not -/
theorem blockwise_clone_refers_regenerated_iff (names : List Obj) (ρ : Obj → Obj) (bindTo : Option Obj) (L : BwLayer) {k : Obj}
    (hk : k ∈ argRefs L.indices)
    (hfresh : ∀ a ∈ argRefs L.indices, ρ a ∉ argRefs L.indices ∧ bindTo ≠ some (ρ a) ∧ bindTo ≠ some a)
    (hinj : ∀ a ∈ argRefs L.indices, ∀ b ∈ argRefs L.indices, ρ a = ρ b → a = b) :
    (ρ k ∈ argRefs (blockwiseClone names ρ bindTo L).1.indices ↔ k ∈ names) ∧
    (k ∈ argRefs (blockwiseClone names ρ bindTo L).1.indices ↔ k ∉ names) :=
  blockwiseClone_refers_regenerated_iff names ρ bindTo L hk hfresh hinj

/-- **consistency with `_bind_one`**: when the inputs in `names` are exactly the non-omitted ones, the names the rewritten
    layer refers to are exactly the dependency set `_bind_one` records for the regenerated layer (`bind_one_new_deps`) -/
theorem blockwise_clone_refs_eq_new_deps (names om : List Obj) (ρ : Obj → Obj) (bindTo : Option Obj) (L : BwLayer)
    (hn : ∀ d ∈ argRefs L.indices, d ∈ names ↔ d ∉ om) (x : Obj) :
    x ∈ argRefs (blockwiseClone names ρ bindTo L).1.indices ↔
      x ∈ newDepOf ρ om bindTo (argRefs L.indices) (blockwiseLeaf names L.indices L.numblocks) :=
  blockwiseClone_refs_eq_newDep names om ρ bindTo L hn x

/-- `y = f(x, d)` with `x` regenerated, the Delayed `d` omitted: only `x` is renamed; with both omitted the layer is bound -/
example : blockwiseClone [.str "x", .str "y"] exRho (some (.str "cp")) ⟨.str "y", [.name (.str "x"), .ref (.str "d"), .other], [.str "x"], .str "y"⟩ =
    (⟨.str "y'", [.name (.str "x'"), .ref (.str "d"), .other], [.str "x'"], .str "y'", none⟩, false) := by rfl
example : blockwiseClone [.str "y"] exRho (some (.str "cp")) ⟨.str "y", [.name (.str "x"), .ref (.str "d"), .other], [.str "x"], .str "y"⟩ =
    (⟨.str "y'", [.name (.str "x"), .ref (.str "d"), .other, .ref (.str "cp")], [.str "x"], .str "y'", some 3⟩, true) := by rfl
example : ∀ a ∈ argRefs [BwArg.name (.str "x"), .ref (.str "d"), .other],
    exRho a ∉ argRefs [BwArg.name (.str "x"), .ref (.str "d"), .other] ∧ some (Obj.str "cp") ≠ some (exRho a) ∧ some (Obj.str "cp") ≠ some a := by
  decide

/-! non-vacuity -/
example : checkpointReduce (.str "cp") (fun i => .tuple [.str "cp", .int i]) 2 10
    [.int 1, .int 2, .int 3, .int 4, .int 5] [] =
    [(.tuple [.str "cp", .int 0], [.int 1, .int 2]), (.tuple [.str "cp", .int 1], [.int 3, .int 4]),
     (.tuple [.str "cp", .int 2], [.int 5, .tuple [.str "cp", .int 0]]),
     (.str "cp", [.tuple [.str "cp", .int 1], .tuple [.str "cp", .int 2]])] := by decide

end Dask.C16
