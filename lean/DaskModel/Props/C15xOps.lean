import DaskModel.Model.DelayedOps
import DaskModel.Props.C15
import DaskModel.Props.C15Unpack
/-!
# C15 (extension) — operators, item / attribute access and method calls on Delayed values

`Model/DelayedOps.lean` extends the program AST by `d <op> x`, `x <op> d`, `-d`, `d[i]`, `d.attr`, `d.m(…)`.  The code
turns each of them into ONE task (`call_function`, for `d.attr` the one-entry layer of `DelayedAttr.dask`); `lower` is that
translation into the core AST, `shapeOf` the task as the real graph holds it.

* `delayed_eval_ops` — **full**: the graph evaluates the key of the program to the value of the same program run eagerly
  (operators, `getitem`, `getattr`, methods abstract functions), under the hypotheses of `delayed_eval` (H1 equal keys ⇒
  equal values, H2 the key of a node differs from the keys below it).
* `op_task` / `shape_task_agree` — the node's task has the operator as its callable and the operands, rebuilt around
  references, as arguments; the arguments the real task holds (`shapeOf`) evaluate to what the model's task applies
  the callable to, and the real dependencies are the model's.
* `operator_keys_deterministic` — the key of an operator node is a function of the operator and the operand tokens
  (a Delayed operand contributes its key): observably equal operands ⇒ equal keys, equal keys ⇒ same operator and
  observably equal operands (C12 `normL_injective`), in particular equal keys of the Delayed operands.
  `attr_keys_deterministic`, `method_keys_deterministic` likewise.
* `skey_sound` — H1 is discharged for pure nodes: two programs with the same symbolic key denote the same value as
  soon as the GIVEN keys (leaves, impure / named calls) do.
* `dask_key_name_respected` — a given name is the key whatever the purity and the arguments, and the graph evaluates
  that key to the eager value.
-/
namespace Dask.C15x
open Dask.GraphMerge Dask.Delayed Dask.DelayedOps Dask.C13

set_option linter.unusedSectionVars false

/-! ## the translation -/

theorem decode_code (c : Callable) : decode (code c) = c := by
  cases c with
  | fn f =>
    have h1 : (7 * f) % 7 = 0 := by omega
    have h2 : (7 * f) / 7 = f := by omega
    simp [code, decode, h1, h2]
  | binop o =>
    have h1 : (7 * o + 1) % 7 = 1 := by omega
    have h2 : (7 * o + 1) / 7 = o := by omega
    simp [code, decode, h1, h2]
  | rbinop o =>
    have h1 : (7 * o + 2) % 7 = 2 := by omega
    have h2 : (7 * o + 2) / 7 = o := by omega
    simp [code, decode, h1, h2]
  | unop o =>
    have h1 : (7 * o + 3) % 7 = 3 := by omega
    have h2 : (7 * o + 3) / 7 = o := by omega
    simp [code, decode, h1, h2]
  | getitem => simp [code, decode]
  | getattr => simp [code, decode]
  | method m =>
    have h1 : (7 * m + 6) % 7 = 6 := by omega
    have h2 : (7 * m + 6) / 7 = m := by omega
    simp [code, decode, h1, h2]

theorem code_injective (c c' : Callable) (h : code c = code c') : c = c' := by
  rw [← decode_code c, ← decode_code c', h]

theorem lower_nm : ∀ e : X, (lower e).nm = e.nm
  | .leaf _ _ => rfl
  | .call _ _ _ _ => rfl
  | .binop _ _ _ _ => rfl
  | .rbinop _ _ _ _ => rfl
  | .unop _ _ _ => rfl
  | .getitem _ _ _ => rfl
  | .getattr _ _ _ => rfl
  | .method _ _ _ _ _ => rfl

/-- every operation is one call whose function is the node's callable and whose arguments are its operands -/
theorem lower_eq (e : X) (h : isLeaf e = false) : lower e = .call e.nm (code (callableOf e)) (lowerL (argsOf e)) := by
  cases e <;> simp_all [isLeaf, lower, callableOf, argsOf, lowerL, lowerA, X.nm]

section
variable {V : Type} (S : XSem V)

mutual
/-- the translated program run eagerly is the program run eagerly -/
theorem eval_lower : ∀ e : X, evalE (toSem S) (lower e) = evalX S e
  | .leaf _ _ => rfl
  | .call _ _ f args => by
    simp only [lower, evalE, evalX, toSem, decode_code, applyC]
    exact congrArg _ (eval_lowerL args)
  | .binop _ o l r => by
    simp only [lower, evalE, evalArgs, evalArg, evalX]
    rw [eval_lower l, eval_lowerA r]
    simp only [toSem, decode_code, applyC]
  | .rbinop _ o l r => by
    simp only [lower, evalE, evalArgs, evalArg, evalX]
    rw [eval_lower r, eval_lowerA l]
    simp only [toSem, decode_code, applyC]
  | .unop _ o x => by
    simp only [lower, evalE, evalArgs, evalArg, evalX]
    rw [eval_lower x]
    simp only [toSem, decode_code, applyC]
  | .getitem _ x i => by
    simp only [lower, evalE, evalArgs, evalArg, evalX]
    rw [eval_lower x, eval_lowerA i]
    simp only [toSem, decode_code, applyC]
  | .getattr _ x a => by
    simp only [lower, evalE, evalArgs, evalArg, evalX]
    rw [eval_lower x]
    simp only [toSem, decode_code, applyC]
  | .method _ _ x m args => by
    simp only [lower, evalE, evalArgs, evalArg, evalX]
    rw [eval_lower x, eval_lowerL args]
    simp only [toSem, decode_code, applyC]
theorem eval_lowerA : ∀ a : XA, evalArg (toSem S) (lowerA a) = evalXA S a
  | .lit _ => rfl
  | .sub e => by simp only [lowerA, evalArg, evalXA]; exact eval_lower e
  | .list xs => by simp only [lowerA, evalArg, evalXA, eval_lowerL xs]; rfl
  | .tuple xs => by simp only [lowerA, evalArg, evalXA, eval_lowerL xs]; rfl
  | .dict kvs => by simp only [lowerA, evalArg, evalXA, eval_lowerP kvs]; rfl
theorem eval_lowerL : ∀ as : List XA, evalArgs (toSem S) (lowerL as) = evalXL S as
  | [] => rfl
  | a :: as => by simp only [lowerL, evalArgs, evalXL, eval_lowerA a, eval_lowerL as]
theorem eval_lowerP : ∀ ps : List (XA × XA), evalPairs (toSem S) (lowerP ps) = evalXP S ps
  | [] => rfl
  | (k, v) :: r => by simp only [lowerP, evalPairs, evalXP, eval_lowerA k, eval_lowerA v, eval_lowerP r]
end
end

mutual
/-- the Delayed values of the translated program are the translated Delayed values of the program -/
theorem sub_lower : ∀ e : X, subexprs (lower e) = (subX e).map lower
  | .leaf _ _ => rfl
  | .call _ _ _ args => by simp only [lower, subexprs, subX, List.map_cons, sub_lowerL args]
  | .binop _ _ l r => by
    simp only [lower, subexprs, subexprsL, subexprsA, subX, List.map_cons, List.map_append, List.append_nil,
      sub_lower l, sub_lowerA r]
  | .rbinop _ _ l r => by
    simp only [lower, subexprs, subexprsL, subexprsA, subX, List.map_cons, List.map_append, List.append_nil,
      sub_lower r, sub_lowerA l]
  | .unop _ _ x => by
    simp only [lower, subexprs, subexprsL, subexprsA, subX, List.map_cons, List.append_nil, sub_lower x]
  | .getitem _ x i => by
    simp only [lower, subexprs, subexprsL, subexprsA, subX, List.map_cons, List.map_append, List.append_nil,
      sub_lower x, sub_lowerA i]
  | .getattr _ x _ => by
    simp only [lower, subexprs, subexprsL, subexprsA, subX, List.map_cons, List.append_nil, sub_lower x]
  | .method _ _ x _ args => by
    simp only [lower, subexprs, subexprsL, subexprsA, subX, List.map_cons, List.map_append, sub_lower x, sub_lowerL args]
theorem sub_lowerA : ∀ a : XA, subexprsA (lowerA a) = (subXA a).map lower
  | .lit _ => rfl
  | .sub e => by simp only [lowerA, subexprsA, subXA, sub_lower e]
  | .list xs => by simp only [lowerA, subexprsA, subXA, sub_lowerL xs]
  | .tuple xs => by simp only [lowerA, subexprsA, subXA, sub_lowerL xs]
  | .dict kvs => by simp only [lowerA, subexprsA, subXA, sub_lowerP kvs]
theorem sub_lowerL : ∀ as : List XA, subexprsL (lowerL as) = (subXL as).map lower
  | [] => rfl
  | a :: as => by simp only [lowerL, subexprsL, subXL, List.map_append, sub_lowerA a, sub_lowerL as]
theorem sub_lowerP : ∀ ps : List (XA × XA), subexprsP (lowerP ps) = (subXP ps).map lower
  | [] => rfl
  | (k, v) :: r => by
    simp only [lowerP, subexprsP, subXP, List.map_append, sub_lowerA k, sub_lowerA v, sub_lowerP r]
end

/-! ## the main theorem -/

section
variable {V : Type} [Inhabited V] (S : XSem V)

/-- **The graph `delayed` builds for a program with operators, item / attribute access and method calls evaluates the key
    of the program to the value of the program run eagerly — and to nothing else.**
    `U`: the Delayed values in play; H1 `hname`: equal keys denote equal values (discharged for pure nodes by
    `skey_sound`); H2 `hfresh`: the key of a node is not the key of a Delayed value below it. -/
theorem delayed_eval_ops (U : List X)
    (hname : ∀ s₁ ∈ U, ∀ s₂ ∈ U, s₁.nm = s₂.nm → evalX S s₁ = evalX S s₂)
    (hfresh : ∀ e ∈ U, ∀ s ∈ (subX e).tail, s.nm ≠ e.nm)
    (e : X) (hU : ∀ s ∈ subX e, s ∈ U) :
    Evals (graphOfX S e) e.nm (evalX S e) ∧ ∀ v, Evals (graphOfX S e) e.nm v → v = evalX S e := by
  have key := C15.delayed_eval (toSem S) (U.map lower)
    (by
      intro s₁ h₁ s₂ h₂ hnm
      obtain ⟨x₁, hx₁, rfl⟩ := List.mem_map.mp h₁
      obtain ⟨x₂, hx₂, rfl⟩ := List.mem_map.mp h₂
      rw [eval_lower, eval_lower]
      rw [lower_nm, lower_nm] at hnm
      exact hname x₁ hx₁ x₂ hx₂ hnm)
    (by
      intro nm f args hmem s hs
      obtain ⟨x, hx, hxe⟩ := List.mem_map.mp hmem
      have hsub := sub_lower x
      rw [hxe] at hsub
      simp only [subexprs] at hsub
      have hnm : x.nm = nm := by
        have := lower_nm x
        rw [hxe] at this
        exact this.symm
      -- the Delayed values below the call are the translated proper sub-programs of `x`
      have htail : subexprsL args = ((subX x).tail).map lower := by
        have := congrArg List.tail hsub
        simpa [List.map_tail] using this
      rw [htail] at hs
      obtain ⟨y, hy, rfl⟩ := List.mem_map.mp hs
      rw [lower_nm, ← hnm]
      exact hfresh x hx y hy)
    (lower e)
    (by
      intro s hs
      rw [sub_lower] at hs
      obtain ⟨y, hy, rfl⟩ := List.mem_map.mp hs
      exact List.mem_map_of_mem (hU y hy))
  rw [lower_nm, eval_lower] at key
  exact key

/-- **one task per operation, the operator function as callable**: under the node's key the graph holds a task whose
    dependencies are the keys of the Delayed operands and which applies the node's callable to the operands rebuilt
    around the dependency values -/
theorem op_task (e : X) (h : isLeaf e = false) :
    ∃ t, graphOfX S e e.nm = some t ∧
      t.deps = (directSubsL (lowerL (argsOf e))).map E.nm ∧
      ∀ vs, t.fn vs = applyC S (callableOf e) (argsEnv (toSem S) (envOf t.deps vs) (lowerL (argsOf e))) := by
  refine ⟨taskOf (toSem S) (code (callableOf e)) (lowerL (argsOf e)), ?_, rfl, ?_⟩
  · simp only [graphOfX]
    rw [lower_eq e h]
    simp [graphOf, extend]
  · intro vs
    simp only [taskOf, toSem, decode_code]
end

/-! ## the task in the real graph (`shapeOf`) against the model's task -/

open Dask.DelayedUnpack in
mutual
theorem toPV_lower : ∀ a : XA, C15Unpack.toPV (lowerA a) = DelayedOps.toPV a
  | .lit _ => rfl
  | .sub e => by simp only [lowerA, C15Unpack.toPV, DelayedOps.toPV, lower_nm]
  | .list xs => by simp only [lowerA, C15Unpack.toPV, DelayedOps.toPV, toPVL_lower xs]
  | .tuple xs => by simp only [lowerA, C15Unpack.toPV, DelayedOps.toPV, toPVL_lower xs]
  | .dict kvs => by simp only [lowerA, C15Unpack.toPV, DelayedOps.toPV, toPVP_lower kvs]
theorem toPVL_lower : ∀ as : List XA, C15Unpack.toPVL (lowerL as) = DelayedOps.toPVL as
  | [] => rfl
  | a :: as => by simp only [lowerL, C15Unpack.toPVL, DelayedOps.toPVL, toPV_lower a, toPVL_lower as]
theorem toPVP_lower : ∀ ps : List (XA × XA), C15Unpack.toPVP (lowerP ps) = DelayedOps.toPVP ps
  | [] => rfl
  | (k, v) :: r => by
    simp only [lowerP, C15Unpack.toPVP, DelayedOps.toPVP, toPV_lower k, toPV_lower v, toPVP_lower r]
end

open Dask.DelayedUnpack in
mutual
/-- the Delayed keys `unpack_collections` meets inside an argument are the keys of the model's direct sub-programs -/
theorem delayedKeys_toPV : ∀ a : Arg, delayedKeys (C15Unpack.toPV a) = (directSubs a).map E.nm
  | .lit _ => rfl
  | .sub _ => rfl
  | .list xs => by simp only [C15Unpack.toPV, delayedKeys, directSubs, delayedKeys_toPVL xs]
  | .tuple xs => by simp only [C15Unpack.toPV, delayedKeys, directSubs, delayedKeys_toPVL xs]
  | .dict kvs => by simp only [C15Unpack.toPV, delayedKeys, directSubs, delayedKeys_toPVP kvs]
theorem delayedKeys_toPVL : ∀ as : List Arg, delayedKeysL (C15Unpack.toPVL as) = (directSubsL as).map E.nm
  | [] => rfl
  | a :: as => by
    simp only [C15Unpack.toPVL, delayedKeysL, directSubsL, List.map_append, delayedKeys_toPV a, delayedKeys_toPVL as]
theorem delayedKeys_toPVP : ∀ ps : List (Arg × Arg), delayedKeysP (C15Unpack.toPVP ps) = (directSubsP ps).map E.nm
  | [] => rfl
  | (k, v) :: r => by
    simp only [C15Unpack.toPVP, delayedKeysP, directSubsP, List.map_append, delayedKeys_toPV k, delayedKeys_toPV v,
      delayedKeys_toPVP r]
end

open Dask.DelayedUnpack in
theorem mem_callArgs_colls (q : Nat) (ps : List PV) : q ∈ (callArgs ps []).2.2 ↔ q ∈ delayedKeysL ps := by
  induction ps with
  | nil => simp [callArgs, delayedKeysL]
  | cons p ps ih =>
    simp only [callArgs, List.map_cons, List.map_nil, List.flatten_cons, List.flatten_nil, List.append_nil,
      List.mem_append, delayedKeysL] at ih ⊢
    rw [C15Unpack.mem_colls q p, ih]

section
variable {V : Type} [Inhabited V] (S : XSem V) (cv : Dask.DelayedUnpack.CK → V → V)

open Dask.DelayedUnpack in
/-- **the task the real graph holds (`shapeOf`) and the model's task agree**: same callable; the real arguments —
    references, containers rebuilt by `unpack_collections` — evaluate on any environment to the arguments the model's
    task applies the callable to (as soon as `tuple(…)` of a computed list is the tuple of its elements); and the
    collections passed as `dependencies=` are, as a set, the dependencies of the model's task. -/
theorem shape_task_agree (hcv : ∀ vs, cv .tuple (S.mkList vs) = S.mkTuple vs) (hcs : ∀ vs, cv .set (S.mkList vs) = S.mkList vs)
    (hcl : ∀ vs, cv .list (S.mkList vs) = S.mkList vs) (e : X) (h : isLeaf e = false) :
    ∃ sh, shapeOf e = some sh ∧ sh.callable = callableOf e ∧ sh.legacy = isLegacy e ∧
      (∀ env : Nat → V, sh.args.map (evalTT (C15Unpack.semOf (toSem S) cv) env) = argsEnv (toSem S) env (lowerL (argsOf e))) ∧
      (∀ q, q ∈ sh.deps ↔ q ∈ (directSubsL (lowerL (argsOf e))).map E.nm) := by
  refine ⟨{ callShape (callableOf e) (DelayedOps.toPVL (argsOf e)) with legacy := isLegacy e }, by simp [shapeOf, h], rfl, rfl, ?_, ?_⟩
  · intro env
    simp only [callShape]
    have hconv : ∀ k vs, (C15Unpack.semOf (toSem S) cv).conv k ((C15Unpack.semOf (toSem S) cv).build .list vs) =
        (C15Unpack.semOf (toSem S) cv).build k vs := by
      intro k vs
      cases k
      · exact hcl vs
      · exact hcv vs
      · exact hcs vs
    rw [(C15Unpack.call_args_eval (C15Unpack.semOf (toSem S) cv) env hconv (DelayedOps.toPVL (argsOf e)) []).1]
    rw [C15Unpack.argsEnv_is_evalPVL (toSem S) cv env, toPVL_lower]
    generalize DelayedOps.toPVL (argsOf e) = ps
    induction ps with
    | nil => rfl
    | cons p ps ih => simp only [List.map_cons, evalPVL, ih]
  · intro q
    simp only [callShape]
    rw [mem_callArgs_colls, ← toPVL_lower, delayedKeys_toPVL]
end


/-! ## symbolic keys: pure nodes satisfy H1 by construction -/

section
variable {V : Type} (S : XSem V) (G : Nat → V)

mutual
/-- the value a symbolic key stands for, `G` giving the values of the given keys -/
def den : SK → V
  | .given n => G n
  | .pure c args => applyC S c (denL args)
def denA : SA → V
  | .lit v => S.lit v
  | .key k => den k
  | .list xs => S.mkList (denL xs)
  | .tuple xs => S.mkTuple (denL xs)
  | .dict kvs => S.mkDict (denP kvs)
def denL : List SA → List V
  | [] => []
  | a :: as => denA a :: denL as
def denP : List (SA × SA) → List (V × V)
  | [] => []
  | (k, v) :: r => (denA k, denA v) :: denP r
end

variable (U : List X) (hg : ∀ s ∈ U, ∀ n, skey s = .given n → evalX S s = G n)
include hg

mutual
/-- the eager value of a program is a function of its symbolic key -/
theorem skey_den : ∀ e : X, (∀ s ∈ subX e, s ∈ U) → evalX S e = den S G (skey e)
  | .leaf nm v, hU => by
    rw [hg (.leaf nm v) (hU _ (by simp [subX])) nm (by simp [skey])]
    simp [skey, den]
  | .call nm p f args, hU => by
    cases p with
    | true =>
      simp only [skey, if_true, den, applyC, evalX]
      rw [skey_denL args (fun s hs => hU s (by simp [subX, hs]))]
    | false =>
      rw [hg (.call nm false f args) (hU _ (by simp [subX])) nm (by simp [skey])]
      simp [skey, den]
  | .binop nm o l r, hU => by
    simp only [skey, den, denL, denA, applyC, evalX]
    rw [skey_den l (fun s hs => hU s (by simp [subX, hs])), skey_denA r (fun s hs => hU s (by simp [subX, hs]))]
  | .rbinop nm o l r, hU => by
    simp only [skey, den, denL, denA, applyC, evalX]
    rw [skey_den r (fun s hs => hU s (by simp [subX, hs])), skey_denA l (fun s hs => hU s (by simp [subX, hs]))]
  | .unop nm o x, hU => by
    simp only [skey, den, denL, denA, applyC, evalX]
    rw [skey_den x (fun s hs => hU s (by simp [subX, hs]))]
  | .getitem nm x i, hU => by
    simp only [skey, den, denL, denA, applyC, evalX]
    rw [skey_den x (fun s hs => hU s (by simp [subX, hs])), skey_denA i (fun s hs => hU s (by simp [subX, hs]))]
  | .getattr nm x a, hU => by
    simp only [skey, den, denL, denA, applyC, evalX]
    rw [skey_den x (fun s hs => hU s (by simp [subX, hs]))]
  | .method nm p x m args, hU => by
    cases p with
    | true =>
      simp only [skey, if_true, den, denL, denA, applyC, evalX]
      rw [skey_den x (fun s hs => hU s (by simp [subX, hs])), skey_denL args (fun s hs => hU s (by simp [subX, hs]))]
    | false =>
      rw [hg (.method nm false x m args) (hU _ (by simp [subX])) nm (by simp [skey])]
      simp [skey, den]
theorem skey_denA : ∀ a : XA, (∀ s ∈ subXA a, s ∈ U) → evalXA S a = denA S G (skeyA a)
  | .lit _, _ => rfl
  | .sub e, hU => by simp only [evalXA, skeyA, denA]; exact skey_den e (by simpa [subXA] using hU)
  | .list xs, hU => by simp only [evalXA, skeyA, denA, skey_denL xs (by simpa [subXA] using hU)]
  | .tuple xs, hU => by simp only [evalXA, skeyA, denA, skey_denL xs (by simpa [subXA] using hU)]
  | .dict kvs, hU => by simp only [evalXA, skeyA, denA, skey_denP kvs (by simpa [subXA] using hU)]
theorem skey_denL : ∀ as : List XA, (∀ s ∈ subXL as, s ∈ U) → evalXL S as = denL S G (skeyL as)
  | [], _ => rfl
  | a :: as, hU => by
    simp only [evalXL, skeyL, denL]
    rw [skey_denA a (fun s hs => hU s (by simp [subXL, hs])), skey_denL as (fun s hs => hU s (by simp [subXL, hs]))]
theorem skey_denP : ∀ ps : List (XA × XA), (∀ s ∈ subXP ps, s ∈ U) → evalXP S ps = denP S G (skeyP ps)
  | [], _ => rfl
  | (k, v) :: r, hU => by
    simp only [evalXP, skeyP, denP]
    rw [skey_denA k (fun s hs => hU s (by simp [subXP, hs])), skey_denA v (fun s hs => hU s (by simp [subXP, hs])),
      skey_denP r (fun s hs => hU s (by simp [subXP, hs]))]
end

/-- **operators, item / attribute access and pure calls are pure ⇒ H1 holds for them**: two programs with the same
    symbolic key (same operation on operands with the same keys, recursively down to the given keys) denote the same
    value, as soon as the GIVEN keys — leaves, impure and named calls — denote one value each -/
theorem skey_sound (a b : X) (ha : ∀ s ∈ subX a, s ∈ U) (hb : ∀ s ∈ subX b, s ∈ U) (h : skey a = skey b) :
    evalX S a = evalX S b := by
  rw [skey_den S G U hg a ha, skey_den S G U hg b hb, h]
end

/-! ## key rules -/

open Dask.NF

theorem opKey_eq_pureKey (fn lk : String) (ops : List Val) : opKey fn lk ops = C15.pureKey fn lk ops [] := rfl

/-- **operators are pure: the key of `d <op> x` is a function of the operator and of the operand tokens, and an injective
    one.**  (1) observably equal operands (for Delayed operands: equal keys) give the same key; (2) the same key means
    the same operator (name and token of the operator leaf) and observably equal operands — different operands get
    different keys (C12 `normL_injective`). -/
theorem operator_keys_deterministic (fn fn' lk lk' : String) (ops ops' : List Val) :
    (fn = fn' → lk = lk' → ObsEqL ops ops' → WFL ops → WFL ops' → opKey fn lk ops = opKey fn' lk' ops') ∧
    (opKey fn lk ops = opKey fn' lk' ops' → fn = fn' ∧ lk = lk' ∧ ObsEqL ops ops') := by
  constructor
  · intro h1 h2 h3 w w'
    subst h1; subst h2
    simp only [opKey, tokNFKw, List.isEmpty_nil, if_true, normL, norm]
    rw [normL_deterministic ops ops' h3 w w']
  · intro h
    exact C15.pure_keys_distinct fn fn' lk lk' ops ops' h

/-- both operands Delayed: the key of `a <op> b` equals the key of `a' <op> b'` iff the operand keys are equal -/
theorem operator_keys_of_delayed_operands (fn lk a b a' b' : String) :
    opKey fn lk [delTok a, delTok b] = opKey fn lk [delTok a', delTok b'] ↔ a = a' ∧ b = b' := by
  constructor
  · intro h
    obtain ⟨_, _, hops⟩ := (operator_keys_deterministic fn fn lk lk _ _).2 h
    obtain ⟨h1, hr⟩ := hops.cons_inv
    obtain ⟨h2, _⟩ := hr.cons_inv
    exact ⟨h1.str_inv, h2.str_inv⟩
  · rintro ⟨rfl, rfl⟩
    rfl

/-- a Delayed operand and a plain operand: `d <op> x` vs `d' <op> x'` -/
theorem operator_keys_mixed (fn lk a a' : String) (x x' : Val) (h : opKey fn lk [delTok a, x] = opKey fn lk [delTok a', x']) :
    a = a' ∧ ObsEq x x' := by
  obtain ⟨_, _, hops⟩ := (operator_keys_deterministic fn fn lk lk _ _).2 h
  obtain ⟨h1, hr⟩ := hops.cons_inv
  obtain ⟨h2, _⟩ := hr.cons_inv
  exact ⟨h1.str_inv, h2⟩

/-- `d.attr`: the key is an injective function of the key of `d` and the attribute name -/
theorem attr_keys_deterministic (o o' a a' : String) : attrKey o a = attrKey o' a' ↔ o = o' ∧ a = a' := by
  constructor
  · intro h
    simp only [attrKey, delTok, tokNFKw, List.isEmpty_nil, if_true, normL, norm, Prod.mk.injEq, Val.digest.injEq,
      Val.tuple.injEq, List.cons.injEq, Val.str.injEq, true_and, and_true] at h
    exact h
  · rintro ⟨rfl, rfl⟩
    rfl

/-- pure method calls `d.m(*args, pure=True, **kwargs)`: the same key means the same method name, the same object key,
    observably equal positional arguments and, keyword by keyword (in any written order), observably equal keyword
    arguments -/
theorem method_keys_deterministic (m m' o o' : String) (args args' : List Val) (kw kw' : List (String × Val))
    (h : methodKey m o args kw = methodKey m' o' args' kw') :
    m = m' ∧ o = o' ∧ ObsEqL args args' ∧
      ∃ kw'', All₂ (fun p q : String × Val => p.1 = q.1 ∧ ObsEq p.2 q.2) kw kw'' ∧ kw''.Perm kw' := by
  have h' : C15.pureKey (methodPrefix m) m (delTok o :: args) kw = C15.pureKey (methodPrefix m') m' (delTok o' :: args') kw' := h
  obtain ⟨_, hm, hargs, hkw⟩ := C15.pure_keys_distinct_kw _ _ _ _ _ _ _ _ h'
  obtain ⟨ho, hr⟩ := hargs.cons_inv
  exact ⟨hm, ho.str_inv, hr, hkw⟩

/-- **`dask_key_name` is respected**: the given name is the key whatever the purity, the function and the arguments … -/
theorem dask_key_name_is_key (n : String) (pure : Bool) (fn tok uuid : String) : callName (some n) pure fn tok uuid = n := rfl

/-- without `dask_key_name` a pure call is named by its token, an impure one by a fresh uuid -/
theorem callName_default (pure : Bool) (fn tok uuid : String) :
    callName none pure fn tok uuid = fn ++ "-" ++ (if pure then tok else uuid) := rfl

/-- **purity rules**: operators (`delayed(op, pure=True)`, nothing passed at the call) are pure whatever the configuration;
    a method call (`call_function` without `pure`) is pure only if asked — by `pure=True` at the call or by the
    configuration — and impure when `pure=False` is passed even under `delayed_pure=True` -/
theorem purity_rules (cfg : Bool) (p : Bool) :
    effPure none (some true) cfg = true ∧ effPure none none cfg = cfg ∧ effPure (some p) none cfg = p ∧
    effPure (some p) (some (!p)) cfg = p := ⟨rfl, rfl, rfl, rfl⟩

section
variable {V : Type} [Inhabited V] (S : XSem V)

/-- … **and the graph evaluates that key to the value of the eager call**: `delayed_eval_ops` does not care where the key
    of a node comes from — function call and method call under an arbitrary name `n` -/
theorem dask_key_name_respected (U : List X)
    (hname : ∀ s₁ ∈ U, ∀ s₂ ∈ U, s₁.nm = s₂.nm → evalX S s₁ = evalX S s₂)
    (hfresh : ∀ e ∈ U, ∀ s ∈ (subX e).tail, s.nm ≠ e.nm) (n : Nat) (p : Bool) :
    (∀ f args, (∀ s ∈ subX (.call n p f args), s ∈ U) →
      Evals (graphOfX S (.call n p f args)) n (S.app f (evalXL S args))) ∧
    (∀ x m args, (∀ s ∈ subX (.method n p x m args), s ∈ U) →
      Evals (graphOfX S (.method n p x m args)) n (S.method m (evalX S x) (evalXL S args))) := by
  constructor
  · intro f args hU
    have := (delayed_eval_ops S U hname hfresh (.call n p f args) hU).1
    simpa [X.nm, evalX] using this
  · intro x m args hU
    have := (delayed_eval_ops S U hname hfresh (.method n p x m args) hU).1
    simpa [X.nm, evalX] using this
end


/-! ## non-vacuity: `t = (2 - (x + 1))[x.real]`, `u = (x + 1).count([x], 3)` over one leaf `x`, the sum `x + 1` shared -/

def arithX : XSem Nat where
  lit := id
  app := fun _ vs => vs.foldl (· + ·) 0
  binop := fun o a b => match o with
    | 0 => a + b
    | _ => a - b
  unop := fun _ a => a + 100
  getitem := fun a i => 10 * a + i
  getattr := fun a n => a * n
  method := fun m a vs => m + a + vs.foldl (· + ·) 0
  mkList := fun vs => vs.foldl (· + ·) 0
  mkTuple := fun vs => vs.foldl (· + ·) 0
  mkDict := fun kvs => kvs.foldl (fun a p => a + p.1 * p.2) 0

def px : X := .leaf 10 5
def psum : X := .binop 11 0 px (.lit 1)                      -- x + 1 = 6
def pdiff : X := .rbinop 12 1 (.lit 8) psum                   -- 8 - (x + 1) = 2
def pattr : X := .getattr 13 px 3                             -- x.<3> = 15
def pitem : X := .getitem 14 pdiff (.sub pattr)               -- 10 * 2 + 15 = 35
def pmeth : X := .method 15 true psum 7 [.list [.sub px], .lit 3]   -- 7 + 6 + (5 + 3) = 21
def pneg : X := .unop 16 0 pmeth                              -- 121
def ptop : X := .call 17 false 0 [.sub pitem, .tuple [.sub pneg, .sub psum]]   -- 35 + (121 + 6) = 162

example : evalX arithX ptop = 162 := by decide
example : evalG (graphOfX arithX ptop) 6 17 = some 162 := by decide
/-- the reflected operator: the task applies `partial(_swap, sub)` to `(ref psum, 8)` and computes `8 - 6` -/
example : evalG (graphOfX arithX pdiff) 3 12 = some 2 := by decide
example : (shapeOf pdiff).map (fun s => (s.legacy, s.callable, s.deps)) = some (false, .rbinop 1, [11]) := by decide
example : (shapeOf pattr).map (fun s => (s.legacy, s.callable, s.deps)) = some (true, .getattr, [10]) := by decide
/-- the method call depends on the object, not on a DelayedAttr -/
example : (shapeOf pmeth).map (fun s => s.deps) = some [11, 10] := by decide

/-- the hypotheses of `delayed_eval_ops` hold for this program (H1, H2) -/
example : (∀ s₁ ∈ subX ptop, ∀ s₂ ∈ subX ptop, s₁.nm = s₂.nm → evalX arithX s₁ = evalX arithX s₂) ∧
    (∀ e ∈ subX ptop, ∀ s ∈ (subX e).tail, s.nm ≠ e.nm) := by
  constructor
  · intro s₁ h₁ s₂ h₂
    have key : ∀ s ∈ subX ptop, evalX arithX s = match s.nm with
        | 10 => 5 | 11 => 6 | 12 => 2 | 13 => 15 | 14 => 35 | 15 => 21 | 16 => 121 | _ => 162 := by decide
    intro h
    rw [key s₁ h₁, key s₂ h₂, h]
  · decide

/-- the hypotheses of the key theorems are satisfiable: `x + 1`, `x + 1` (same key) and `x + 2` (another key) -/
example : opKey "add" "add-leaf" [delTok "x", .int 1] = opKey "add" "add-leaf" [delTok "x", .int 1] ∧
    opKey "add" "add-leaf" [delTok "x", .int 1] ≠ opKey "add" "add-leaf" [delTok "x", .int 2] := by
  refine ⟨rfl, fun h => ?_⟩
  obtain ⟨_, h2⟩ := operator_keys_mixed _ _ _ _ _ _ h
  cases h2

/-- the shared sum has one symbolic key wherever it occurs, and it differs from the key of `x + 2` -/
example : skey psum = skey (.binop 99 0 px (.lit 1)) ∧ skey psum ≠ skey (.binop 11 0 px (.lit 2)) := by
  constructor
  · rfl
  · simp [skey, psum, skeyA]

end Dask.C15x
