import DaskModel.Model.UniqueNaN
import DaskModel.Lemmas.UniqueNaNLemmas
import DaskModel.Props.C27
/-!
C27 extension — `da.unique` (values, `return_index`, `return_counts`) on FLOAT data containing NaN, for every chunking.

The statement of C27 quantifies over "integer/float arrays with duplicates and NaN"; `Props/C27.lean` proves the
unique clause over totally ordered exact values (the harness interned NaN as the largest value, i.e. it ASSUMED that
the code treats NaN as one more value equal to itself).  Here the float semantics the code actually runs on is modelled:
IEEE `==` (`ieq`: NaN equals nothing), `np.unique` collapsing the NaNs into one trailing entry (`npUnique`), and the
loop body of `_unique_internal` with its `if v != v: m = ar != ar` branch (`mask`).

  unique_nan_mask         the loop's selection = equality of values with NaN = NaN (what the interning assumed)
  unique_nan_merge        `_unique_internal` per part, then on the concatenation = once on everything
                          (any parts, any nesting — hence any tree of partial merges)
  unique_nan_den          `da.unique` per chunk + merge = `_unique_internal` on the whole array, EVERY chunking
                          (empty chunks, NaN anywhere, all-NaN chunks)
  unique_nan_spec_char    … which is NumPy's answer: `np.unique` values, each with its FIRST position and its
                          multiplicity, all NaNs being one value
  unique_nan_chunked_char the two combined
  unique_nan_inverse_den  `return_inverse`: the `matches` formula (IEEE `==` or both NaN, times `arange`, summed) gives
                          for every element the position of its value in `np.unique`'s values (NaN: the last one)
-/
namespace Dask.C27xNaN
open Dask.Chunks Dask.Counting Dask.UniqueNaN

/-- **unique_nan_mask**: `m = ar == v`, replaced by `ar != ar` when `v != v`, selects exactly the rows whose value is
    `v` when NaN counts as equal to NaN. -/
theorem unique_nan_mask (v : FV) (r : FRow) : mask v r = (r.value == v) := mask_eq_beq v r

/-- **unique_nan_merge**: `_unique_internal` applied per part and again on the concatenation is `_unique_internal`
    applied once to everything — for float rows with NaN. -/
theorem unique_nan_merge (rs : List (List FRow)) :
    uniqueInternalF ((rs.map uniqueInternalF).flatten) = uniqueInternalF rs.flatten := by
  rw [uniqueInternalF_split, uniqueInternalF_split rs.flatten, nums_parts, nanU_parts, nums_flatten, nanU_flatten,
    Dask.C27.unique_merge, Dask.C27.unique_merge]

/-- **unique_nan_den**: `da.unique(return_index, return_counts)` of a float array with NaN, chunked in any way,
    is `_unique_internal` on the whole array. -/
theorem unique_nan_den (bs : List (List FV)) : uniqueChunkedF bs = uniqueSpecF bs.flatten := by
  obtain ⟨rs, h1, h2⟩ := chunkRowsF_eq bs 0
  unfold uniqueChunkedF uniqueSpecF
  rw [h1, unique_nan_merge, h2]

/-- **unique_nan_spec_char**: the right-hand side in NumPy's terms. -/
theorem unique_nan_spec_char (xs : List FV) :
    uniqueSpecF xs = (npUnique xs).map (fun v => ⟨v, xs.idxOf v, xs.count v⟩) := by
  unfold uniqueSpecF uniqueInternalF
  rw [values_rowsOfF]
  apply List.map_congr_left
  intro v hv
  have hm : v ∈ xs := (mem_npUnique xs v).1 hv
  have hmask : mask v = fun r => r.value == v := funext (mask_eq_beq v)
  rw [hmask, cntF v xs 0]
  have := idxF v xs 0 hm
  unfold selF at this
  rw [this, Nat.zero_add]

/-- **unique_nan_chunked_char**: `da.unique(return_index, return_counts)` for every chunking, in NumPy's terms. -/
theorem unique_nan_chunked_char (bs : List (List FV)) :
    uniqueChunkedF bs = (npUnique bs.flatten).map (fun v => ⟨v, bs.flatten.idxOf v, bs.flatten.count v⟩) := by
  rw [unique_nan_den, unique_nan_spec_char]

/-- `np.unique`'s values are exactly the values of the array (NaN = NaN) -/
theorem unique_nan_values_mem (xs : List FV) (v : FV) : v ∈ npUnique xs ↔ v ∈ xs := mem_npUnique xs v

/-- **unique_nan_inverse_den**: the masked-sum formula of `return_inverse` with its NaN clause picks, for every element
    of the array, the position of its value in the unique values. -/
theorem unique_nan_inverse_den (xs : List FV) (v : FV) (hv : v ∈ xs) :
    inverseOfF (npUnique xs) v = (npUnique xs).idxOf v ∧ (npUnique xs).idxOf v < (npUnique xs).length :=
  ⟨inverseOfF_eq xs v hv, List.idxOf_lt_length_of_mem ((mem_npUnique xs v).2 hv)⟩

example : [none, some 4, none, some 0, some 4].map (inverseOfF (npUnique [none, some 4, none, some 0, some 4]))
    = [2, 1, 2, 0, 1] := by rfl

/-! concrete evaluations: NaN runs straddling chunk boundaries, an all-NaN chunk, empty chunks -/
example : uniqueChunkedF [[some 3, none], [none, some 1], [], [none], [some 3]]
    = [⟨some 1, 3, 1⟩, ⟨some 3, 0, 2⟩, ⟨none, 1, 3⟩] := by rfl
example : uniqueChunkedF [[none, none], [none]] = [⟨none, 0, 3⟩] := by rfl
example : uniqueChunkedF [[], []] = [] := by rfl
example : (npUnique [none, some 4, none, some 0, some 4]) = [some 0, some 4, none] := by rfl

end Dask.C27xNaN
