import DaskModel.Model.Repart
namespace Dask.C44
open Dask.Repart
theorem placeholder : pairs [0, 2, 5] = [(0, 2), (2, 5)] := by decide
end Dask.C44
