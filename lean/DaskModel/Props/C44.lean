import DaskModel.Lemmas.Repart
import DaskModel.Lemmas.Truthful
import DaskModel.Lemmas.RepartDivs
import DaskModel.Lemmas.RepartSize
import DaskModel.Lemmas.RepartWalk
import DaskModel.Lemmas.RepartFloat
import DaskModel.Props.C45
/-! # C44 — repartitioning preserves rows, order and requested layout (theorems) -/
namespace Dask.C44
open Dask.Repart Dask.SDL

/-- **RepartitionToFewer**: for every list of partitions and every raw boundary vector that starts at 0,
    is non-decreasing and ends at or below the number of input partitions (`BoundsOK`; this is what
    `int(i * (old / new))` is checked against), the layer evaluates, has one partition per boundary
    pair (`n` for `n + 1` boundaries) and concatenating the outputs gives the input rows in order. -/
theorem tofewer_rows {α : Type} (parts : List (List α)) (raw : List Nat) (h : BoundsOK raw parts.length) :
    ∃ out, toFewer parts raw = some out ∧ out.length = raw.length - 1 ∧ out.flatten = parts.flatten := by
  obtain ⟨bs, hc, hlen, h0, hl, hm, hle⟩ := clean_spec h
  refine ⟨(chunks parts bs).map List.flatten, ?_, ?_, ?_⟩
  · unfold toFewer
    rw [hc]
    exact evalLayer_toFewerLayer parts bs hle hm
  · rw [List.length_map, chunks_length, hlen]
  · rw [← List.flatten_flatten, chunks_flatten parts bs 0 parts.length h0 hl hm, pySlice_full]

/-- every output partition of ToFewer is a contiguous run of input partitions -/
theorem tofewer_contiguous {α : Type} (parts : List (List α)) (raw : List Nat) (h : BoundsOK raw parts.length) :
    ∃ bs, cleanBoundaries raw parts.length = some bs ∧
      toFewer parts raw = some ((pairs bs).map fun (s, e) => (pySlice parts s e).flatten) := by
  obtain ⟨bs, hc, _, _, _, hm, hle⟩ := clean_spec h
  refine ⟨bs, hc, ?_⟩
  unfold toFewer
  rw [hc]
  simpa [chunks, Function.comp_def] using evalLayer_toFewerLayer parts bs hle hm

/-- **`_nsplits`**: the split counts add up to the requested number of partitions, one per input partition -/
theorem nsplits_sum {new old : Nat} {ks : List Nat} (h : nsplits new old = some ks) :
    ks.sum = new ∧ ks.length = old := by
  unfold nsplits at h
  split at h
  · cases h
  · rename_i ho
    cases h
    obtain ⟨o, rfl⟩ : ∃ o, old = o + 1 := ⟨old - 1, by omega⟩
    have hdm := Nat.div_add_mod new (o + 1)
    refine ⟨?_, by simp⟩
    simp only [List.sum_append, List.sum_replicate_nat, List.sum_cons, List.sum_nil, Nat.add_sub_cancel]
    generalize new / (o + 1) = q at hdm ⊢
    rw [Nat.succ_mul] at hdm
    omega

/-- hypothesis on the positions at which a partition of `len` rows is cut into `k` pieces
    (`np.linspace(0, len, k + 1).astype(int)`: checked against the exact double model on every run) -/
def PosOK (posOf : Nat → Nat → Option (List Nat)) : Prop :=
  ∀ len k pos, posOf len k = some pos →
    pos.length = k + 1 ∧ pos.head? = some 0 ∧ pos.getLast? = some len ∧ pos.Pairwise (· ≤ ·)

/-- **RepartitionToMore**: exactly `sum nsplits` partitions, rows and order preserved -/
theorem tomore_rows {α : Type} (posOf : Nat → Nat → Option (List Nat)) (hpos : PosOK posOf) :
    ∀ (parts : List (List α)) (ks : List Nat) (out : List (List α)),
      toMoreWith posOf parts ks = some out → out.length = ks.sum ∧ out.flatten = parts.flatten
  | [], [], out, h => by simp [toMoreWith] at h; subst h; simp
  | [], _ :: _, _, h => by simp [toMoreWith] at h
  | _ :: _, [], _, h => by simp [toMoreWith] at h
  | p :: ps, k :: ks, out, h => by
    simp only [toMoreWith, Option.bind_eq_bind, Option.bind_eq_some_iff, Option.pure_def,
      Option.some.injEq] at h
    obtain ⟨here, hhere, rest, hrest, rfl⟩ := h
    obtain ⟨ih1, ih2⟩ := tomore_rows posOf hpos ps ks rest hrest
    have key : here.length = k ∧ here.flatten = p := by
      unfold splitOne at hhere
      split at hhere
      · rename_i hk
        cases hhere
        subst hk
        simp
      · simp only [Option.map_eq_some_iff] at hhere
        obtain ⟨pos, hp, rfl⟩ := hhere
        obtain ⟨hl, h0, hlast, hm⟩ := hpos _ _ _ hp
        rw [cut_eq_chunks]
        refine ⟨by rw [chunks_length, hl]; omega, ?_⟩
        rw [chunks_flatten p pos 0 p.length h0 hlast hm, pySlice_full]
    simp only [List.length_append, List.flatten_append, List.sum_cons, List.flatten_cons, key.1, key.2, ih1, ih2]
    exact ⟨trivial, trivial⟩

/-- the part of `PosOK` that needs no float reasoning holds for the modelled `split_evenly` -/
theorem splitPositions_shape {len k : Nat} {pos : List Nat} (h : splitPositions len k = some pos) :
    pos.length = k + 1 ∧ pos.head? = some 0 ∧ pos.getLast? = some len := by
  unfold splitPositions at h
  split at h
  · cases h
  · rename_i hk
    cases h
    refine ⟨by simp, ?_, by simp⟩
    obtain ⟨k', rfl⟩ : ∃ k', k = k' + 1 := ⟨k - 1, by omega⟩
    simp [List.range_succ_eq_map, mulNat_zero, F64.trunc]

/-- **repartition(npartitions = n) with n ≥ old yields exactly n partitions** through ToMore -/
theorem tomore_npartitions {α : Type} (parts : List (List α)) (new : Nat) (out : List (List α))
    (hmono : PosOK splitPositions) (h : toMore parts new = some out) :
    out.length = new ∧ out.flatten = parts.flatten := by
  unfold toMore at h
  simp only [Option.bind_eq_some_iff] at h
  obtain ⟨ks, hks, hout⟩ := h
  obtain ⟨h1, h2⟩ := tomore_rows splitPositions hmono parts ks out hout
  exact ⟨by rw [h1, (nsplits_sum hks).1], h2⟩

/-! ### the float hypotheses discharged in the exact double model -/

/-- `tomore_rows` with the hypothesis on the cut positions only for the `(len(partition), k)` pairs that occur -/
theorem tomore_rows_on {α : Type} (posOf : Nat → Nat → Option (List Nat)) :
    ∀ (parts : List (List α)) (ks : List Nat) (out : List (List α)),
      (∀ p ∈ parts, ∀ k ∈ ks, ∀ pos, posOf p.length k = some pos →
        pos.length = k + 1 ∧ pos.head? = some 0 ∧ pos.getLast? = some p.length ∧ pos.Pairwise (· ≤ ·)) →
      toMoreWith posOf parts ks = some out → out.length = ks.sum ∧ out.flatten = parts.flatten
  | [], [], out, _, h => by simp [toMoreWith] at h; subst h; simp
  | [], _ :: _, _, _, h => by simp [toMoreWith] at h
  | _ :: _, [], _, _, h => by simp [toMoreWith] at h
  | p :: ps, k :: ks, out, hpos, h => by
    simp only [toMoreWith, Option.bind_eq_bind, Option.bind_eq_some_iff, Option.pure_def,
      Option.some.injEq] at h
    obtain ⟨here, hhere, rest, hrest, rfl⟩ := h
    obtain ⟨ih1, ih2⟩ := tomore_rows_on posOf ps ks rest
      (fun p' hp' k' hk' => hpos p' (List.mem_cons_of_mem _ hp') k' (List.mem_cons_of_mem _ hk')) hrest
    have key : here.length = k ∧ here.flatten = p := by
      unfold splitOne at hhere
      split at hhere
      · rename_i hk
        cases hhere
        subst hk
        simp
      · simp only [Option.map_eq_some_iff] at hhere
        obtain ⟨pos, hp, rfl⟩ := hhere
        obtain ⟨hl, h0, hlast, hm⟩ := hpos p List.mem_cons_self k List.mem_cons_self pos hp
        rw [cut_eq_chunks]
        refine ⟨by rw [chunks_length, hl]; omega, ?_⟩
        rw [chunks_flatten p pos 0 p.length h0 hlast hm, pySlice_full]
    simp only [List.length_append, List.flatten_append, List.sum_cons, List.flatten_cons, key.1, key.2, ih1, ih2]
    exact ⟨trivial, trivial⟩

/-- **RepartitionToFewer without float hypotheses**: in exact IEEE double arithmetic the boundaries
    `int(i * (old / new))` satisfy `BoundsOK` (`Lemmas/RepartFloat.lean`: rounding is monotone; the last boundary is at
    most `old` after two roundings), so `repartition(npartitions = new)` to fewer partitions keeps rows and order and
    yields exactly `new` partitions — for fewer than `2^50` input partitions. -/
theorem tofewer_rows_ieee {α : Type} (parts : List (List α)) (new : Nat) (hn : 0 < new) (hle : new ≤ parts.length)
    (hsmall : 3 * parts.length < 2 ^ 52) :
    ∃ raw out, toFewerRaw new parts.length = some raw ∧ toFewer parts raw = some out ∧
      out.length = new ∧ out.flatten = parts.flatten := by
  obtain ⟨raw, hraw, hb⟩ := toFewerRaw_boundsOK new parts.length hn hle (by rw [Dask.TextBlocks.S_eq]; exact hsmall)
  obtain ⟨out, h1, h2, h3⟩ := tofewer_rows parts raw hb
  refine ⟨raw, out, hraw, h1, ?_, h3⟩
  have : raw.length = new + 1 := by
    unfold toFewerRaw at hraw
    have hn0 : new ≠ 0 := by omega
    simp only [hn0, if_false, Option.some.injEq] at hraw
    subst hraw; simp
  omega

/-- **RepartitionToMore without float hypotheses**: `split_evenly`'s positions are non-decreasing in exact IEEE double
    arithmetic (`splitPositions_mono`), so `repartition(npartitions = new ≥ old)` through ToMore yields exactly `new`
    partitions with rows and order kept — for `new ≤ 2^52` and partitions of at most `2^53` rows. -/
theorem tomore_rows_ieee {α : Type} (parts : List (List α)) (new : Nat) (out : List (List α))
    (hrows : ∀ p ∈ parts, p.length ≤ 2 ^ 53) (hnew : new ≤ 2 ^ 52) (h : toMore parts new = some out) :
    out.length = new ∧ out.flatten = parts.flatten := by
  unfold toMore at h
  simp only [Option.bind_eq_some_iff] at h
  obtain ⟨ks, hks, hout⟩ := h
  have hkle : ∀ k ∈ ks, k ≤ new := by
    intro k hk
    unfold nsplits at hks
    split at hks
    · cases hks
    · rename_i ho
      cases hks
      have hdm := Nat.div_add_mod new parts.length
      have hpos : 0 < parts.length := Nat.pos_of_ne_zero ho
      have h1 : new / parts.length ≤ parts.length * (new / parts.length) := Nat.le_mul_of_pos_left _ hpos
      simp only [List.mem_append, List.mem_replicate, List.mem_singleton] at hk
      rcases hk with ⟨_, rfl⟩ | rfl <;> omega
  obtain ⟨h1, h2⟩ := tomore_rows_on splitPositions parts ks out
    (by
      intro p hp k hk pos hpos
      obtain ⟨e1, e2, e3⟩ := splitPositions_shape hpos
      refine ⟨e1, e2, e3, ?_⟩
      have hk0 : 0 < k := by
        apply Nat.pos_of_ne_zero
        intro h0; subst h0
        simp [splitPositions] at hpos
      exact splitPositions_mono p.length k hk0
        (by rw [Dask.TextBlocks.S_eq]; exact Nat.le_trans (hkle k hk) hnew) (hrows p hp) pos hpos)
    hout
  exact ⟨by rw [h1, (nsplits_sum hks).1], h2⟩

/-- number of partitions of the expression `Repartition._lower` picks -/
def kindCount (new old : Nat) : Kind → Nat
  | .fewer => new      -- `tofewer_rows`: `new + 1` boundaries
  | .same => old
  | .more => new       -- `tomore_npartitions`
  | .divisions d => d.length - 1

/-- **`repartition(npartitions = n)` lowers to an expression with exactly `n` partitions in every
    branch** (this is the statement that was false before the fix of defect #22: the interpolated
    divisions could collapse to fewer than `n + 1` entries) -/
theorem lower_npartitions (new old : Nat) (interp : Option (List Nat)) :
    kindCount new old (lowerKind new old interp) = new := by
  unfold lowerKind
  split
  · rfl
  · split
    · rename_i h; simp [kindCount, h]
    · cases interp with
      | none => rfl
      | some ds =>
        simp only
        split
        · rename_i h; simp [kindCount, h]
        · rfl

/-- **RepartitionSize**: whatever the split counts `ks` (one per input partition, from `1 + mem_usage // size`) and
    the chunk lengths `lens` (no empty chunk, together covering all `sum ks` pieces — what `iter_chunks` yields:
    `iterChunks_spec`), the layer evaluates, yields one partition per chunk, and keeps rows and order. -/
theorem repartition_size_rows {α : Type} (posOf : Nat → Nat → Option (List Nat)) (hpos : PosOK posOf)
    (parts : List (List α)) (ks lens : List Nat) (out : List (List α))
    (hk : ks.length = parts.length) (hkpos : ∀ k ∈ ks, 0 < k)
    (hlpos : ∀ l ∈ lens, 0 < l) (hne : lens ≠ []) (hsum : lens.sum = ks.sum)
    (h : repartitionSizeWith posOf parts ks lens = some out) :
    out.length = lens.length ∧ out.flatten = parts.flatten := by
  unfold repartitionSizeWith at h
  simp only [Option.bind_eq_some_iff] at h
  obtain ⟨pieces, hpieces, bs, hbs, hout⟩ := h
  have hlen_le : ∀ (l : List Nat), (∀ k ∈ l, 0 < k) → l.length ≤ l.sum := by
    intro l
    induction l with
    | nil => intro _; exact Nat.le_refl _
    | cons a as ih =>
      intro hl
      have h1 := hl a List.mem_cons_self
      have h2 := ih (fun k hk => hl k (List.mem_cons_of_mem _ hk))
      simp only [List.sum_cons, List.length_cons]; omega
  -- the pieces: `sum ks` of them, same rows
  have hp : pieces.length = ks.sum ∧ pieces.flatten = parts.flatten := by
    unfold sizePieces at hpieces
    split at hpieces
    · rename_i hall
      cases hpieces
      refine ⟨?_, rfl⟩
      have : ∀ (l : List Nat), l.all (· == 1) = true → l.sum = l.length := by
        intro l
        induction l with
        | nil => intro _; rfl
        | cons a as ih =>
          intro hl
          simp only [List.all_cons, Bool.and_eq_true, beq_iff_eq] at hl
          simp only [List.sum_cons, List.length_cons, ih hl.2, hl.1]; omega
      rw [this ks hall, hk]
    · exact tomore_rows posOf hpos parts ks pieces hpieces
  have hnle : parts.length ≤ lens.sum := by
    rw [hsum, ← hk]; exact hlen_le ks hkpos
  obtain ⟨bs', hbs', hbl, hb0, hblast, hbm, hble⟩ := sizeBoundaries_spec hlpos hne hnle
  rw [hbs'] at hbs
  cases hbs
  have hle' : ∀ b ∈ bs, b ≤ pieces.length := by
    intro b hb; rw [hp.1, ← hsum]; exact hble b hb
  rw [evalLayer_toFewerLayer pieces bs hle' hbm] at hout
  cases hout
  refine ⟨by rw [List.length_map, chunks_length, hbl]; omega, ?_⟩
  rw [← List.flatten_flatten, chunks_flatten pieces bs 0 lens.sum hb0 hblast hbm, ← hp.2]
  have : lens.sum = pieces.length := by rw [hp.1, hsum]
  rw [this, pySlice_full]

/-- `_nsplits = 1 + mem_usage // size` never asks for zero pieces (hypothesis `hkpos` above) -/
theorem sizeNsplits_pos {usages : List Nat} {size : Nat} {ks : List Nat} (h : sizeNsplits usages size = some ks) :
    ks.length = usages.length ∧ ∀ k ∈ ks, 0 < k := by
  unfold sizeNsplits at h
  split at h
  · cases h
  · cases h
    refine ⟨by simp, ?_⟩
    intro k hk
    simp only [List.mem_map] at hk
    obtain ⟨u, _, rfl⟩ := hk
    exact Nat.lt_of_lt_of_le Nat.zero_lt_one (Nat.le_add_right 1 _)

/-- **`iter_chunks`** (re-exported from `Lemmas/RepartSize`): the chunk lengths cover every size exactly once and no
    chunk is empty — the hypotheses `hlpos`, `hsum` of `repartition_size_rows` for integer memory usages -/
theorem iter_chunks_lengths {sizes : List Nat} {max : Nat} {lens : List Nat} (h : iterChunks sizes max = some lens) :
    lens.sum = sizes.length ∧ ∀ l ∈ lens, 0 < l := iterChunks_spec h

example : iterChunks [48, 16, 96, 0] 100 = some [2, 2] := by decide
example : iterChunks [48, 16, 101] 100 = none := by decide
example : sizeNsplits [48, 250, 96] 100 = some [1, 3, 1] := by decide
example : sizeBoundaries [2, 2] 4 = some [0, 2, 4] := by decide
example : repartitionSizeWith (fun len k => some ((List.range k).map (fun i => i * len / k) ++ [len]))
    [[1, 2, 3], [4], [5, 6, 7, 8, 9, 10], []] [1, 1, 1, 1] [2, 2] = some [[1, 2, 3, 4], [5, 6, 7, 8, 9, 10]] := by decide
example : repartitionSizeWith (fun len k => some ((List.range k).map (fun i => i * len / k) ++ [len]))
    [[1, 2, 3, 4], [5]] [2, 1] [1, 2] = some [[1, 2], [3, 4, 5]] := by decide

/-! ### RepartitionDivisions: rows, order, divisions -/

open Dask.Divs (Truthful ValidDivs)

/-- FULL STATEMENT for `repartition(divisions = b)` — rows, order and divisions exactly `b`, for frames whose
    partitions are in index order (`KeySorted`; every frame dask builds with known divisions from sorted data).
    Proved below: `divisions_rows_order_truthful` (together with totality: `divisions_total`). -/
def DivisionsFullStatement : Prop :=
  ∀ (α : Type) (key : α → Nat) (parts : List (List α)) (a b : List Nat) (force : Bool) (out : List (List α)),
    ValidDivs a → ValidDivs b → Truthful key a parts → (∀ p ∈ parts, KeySorted key p) →
    repartitionDivisions key parts a b force = some out →
    out.flatten = parts.flatten ∧ Truthful key b out

/-- the statement WITHOUT the index-order hypothesis on the partitions (as the build round wrote it) is false:
    `boundary_slice` regroups the rows of a partition by key range, so a partition that is not in index order
    comes out reordered (dask does the same: recorded as a finding of C44) -/
theorem divisions_order_needs_sorted_partitions :
    ¬ (∀ (parts : List (List (Nat × Nat))) (a b : List Nat) (out : List (List (Nat × Nat))),
        ValidDivs a → ValidDivs b → Truthful (·.1) a parts →
        repartitionDivisions (·.1) parts a b false = some out → out.flatten = parts.flatten) := by
  intro h
  have := h [[(2, 0), (1, 1)]] [0, 3] [0, 2, 3] [[(1, 1)], [(2, 0)]]
    ⟨by decide, by decide, by decide⟩ ⟨by decide, by decide, by decide⟩
    ⟨rfl, by decide, by
      intro i p lo hi hp hlo hhi r hr
      cases i with
      | zero =>
        simp only [List.getElem?_cons_zero, List.getElem?_cons_succ, Option.some.injEq, Nat.zero_add] at hp hlo hhi
        subst hp; subst hlo; subst hhi
        simp only [List.mem_cons, List.not_mem_nil, or_false] at hr
        rcases hr with rfl | rfl <;> simp
      | succ i => simp at hp⟩
    (by decide)
  revert this
  decide

/-- **`repartition(divisions = b)` keeps rows and order and yields exactly divisions `b` — full statement.**
    Proof: loop invariants for both walks of `RepartitionDivisions._layer` (`Lemmas/RepartWalk.lean`: `W1Inv`,
    `walk1_total`, `tail_total`, `end_facts`; `Lemmas/RepartWalk2.lean`: `walk2_spec`), a semantic invariant on the
    evaluated pieces (`sem_step`, `sem_next`, `close_last`), for the code as repaired in /repo 5d1a6bb. -/
theorem divisions_rows_order_truthful : DivisionsFullStatement := by
  intro α key parts a b force out hva hvb ht hsorted h
  have f : FrameOK key a parts := ⟨ht, hsorted, hva⟩
  -- the guards passed, otherwise no layer
  have hg : ∃ g, dlGuards a b force = some g := by
    unfold repartitionDivisions divisionsLayer at h
    cases hgd : dlGuards a b force with
    | none => simp [hgd] at h
    | some g => exact ⟨g, rfl⟩
  obtain ⟨g, hg⟩ := hg
  obtain ⟨out', h1, h2, h3⟩ := divisions_walk_correct f hvb hg
  rw [h] at h1
  cases h1
  exact ⟨h2, h3⟩

/-- **totality**: whenever the ValueError guards of `_layer` accept the division vectors (`force`: `b[0] ≤ a[0]` and
    `a[-1] ≤ b[-1]`; otherwise equal ends), the two walks finish without IndexError / KeyError, within the model's
    fuel, and the layer evaluates (every key it refers to exists). -/
theorem divisions_total {α : Type} (key : α → Nat) (parts : List (List α)) (a b : List Nat) (force : Bool)
    (hva : ValidDivs a) (hvb : ValidDivs b) (ht : Truthful key a parts) (hsorted : ∀ p ∈ parts, KeySorted key p)
    (g : Nat × Nat × Nat × Nat) (hg : dlGuards a b force = some g) :
    ∃ out, repartitionDivisions key parts a b force = some out := by
  obtain ⟨out, h1, _, _⟩ := divisions_walk_correct (key := key) ⟨ht, hsorted, hva⟩ hvb hg
  exact ⟨out, h1⟩

example : ValidDivs [0, 3, 3] ∧ ValidDivs [0, 2, 4, 5] ∧ ValidDivs [2, 2] := by
  refine ⟨⟨by decide, by decide, by decide⟩, ⟨by decide, by decide, by decide⟩, ⟨by decide, by decide, by decide⟩⟩
example : dlGuards [0, 3, 3, 5] [0, 2, 4, 5] false = some (0, 5, 5, 4) := by decide
example : dlGuards [5, 10] [0, 2, 10, 12] true = some (0, 10, 12, 10) := by decide
example : dlGuards [5, 10] [6, 10] true = none := by decide

/-- **rows, order and truthful divisions for certified layers** (kept: the certificate is what the harness evaluates
    on every layer the REAL `_layer()` builds, independently of the model of the walks). For every frame that is truthful for
    the old divisions `a` with partitions in index order, every new division vector `b` (non-decreasing), and every
    layer `L` that `RepartitionDivisions._layer` returns and that passes the decidable certificate `layerOK a b L`
    (each piece used exactly once and in order; the slices of each old partition form a gap-free chain over its key
    range; each piece fits the key range of the new partition it is assigned to): the layer evaluates without a
    missing key, the output rows are the input rows in the same order, and the output is truthful for `b` — i.e.
    `repartition(divisions=b)` yields exactly divisions `b`. -/
theorem divisions_rows_order_truthful_partial {α : Type} (key : α → Nat) (parts : List (List α))
    (a b : List Nat) (force : Bool) (L : DLayer)
    (ht : Truthful key a parts) (hsorted : ∀ p ∈ parts, KeySorted key p)
    (hb : b.Pairwise (· ≤ ·)) (hL : divisionsLayer a b force = some L) (hok : layerOK a b L = true) :
    ∃ out, repartitionDivisions key parts a b force = some out ∧ out.flatten = parts.flatten ∧
      Truthful key b out := by
  have hb1 : b ≠ [] := by
    intro he
    have := divisionsLayer_count a b force L hL
    rw [he] at this
    simp at this
  obtain ⟨out, h1, h2, h3⟩ := layer_sound key parts a b L ht hsorted hb hb1 hok
  refine ⟨out, ?_, h2, h3⟩
  unfold repartitionDivisions
  rw [hL]; exact h1

/-- **`repartition(divisions = d)` has exactly `len(d) − 1` partitions** whenever the layer is built
    (first half of "yields exactly divisions d": `_divisions()` returns `d` itself) -/
theorem divisions_npartitions (a b : List Nat) (force : Bool) (L : DLayer)
    (h : divisionsLayer a b force = some L) : L.out.length + 1 = b.length :=
  divisionsLayer_count a b force L h

/-- **from_pandas_rows**: `from_pandas(df, npartitions=… | chunksize=…)` on a sorted frame cuts the rows at the
    planned locations: the partitions concatenate to the frame, in order, one partition per division interval. -/
theorem from_pandas_rows {α : Type} (rows : List α) (key : α → Nat) (m : Mode) (divs locs : List Nat)
    (hs : Sorted (rows.map key)) (h : sdl (rows.map key) m = some (divs, locs)) :
    (cut rows locs).flatten = rows ∧ (cut rows locs).length + 1 = divs.length := by
  obtain ⟨h0, hlast, hpw⟩ := Dask.C45.sdl_locations_strict hs h
  have hlen := Dask.C45.sdl_lengths hs h
  rw [List.length_map] at hlast
  have hpos : 0 < locs.length := by
    cases locs with
    | nil => simp at h0
    | cons _ _ => simp
  refine ⟨?_, by rw [cut_eq_chunks, chunks_length]; omega⟩
  rw [cut_eq_chunks, chunks_flatten rows locs 0 rows.length h0 hlast (hpw.imp (fun h => Nat.le_of_lt h)), pySlice_full]


/-! ### non-vacuity -/

example : BoundsOK [0, 1, 2, 4, 5, 6, 8, 9, 10, 12, 13, 15] 15 :=
  ⟨rfl, by decide, by intro l h; cases h; decide, by decide⟩
example : toFewerBoundaries 11 15 = some [0, 1, 2, 4, 5, 6, 8, 9, 10, 12, 13, 15] := by decide +kernel
-- `len = 26, k = 46`: `step = 26/46 < 1` (a double below 1: finer than 2^-52), positions differ from `i*26//46` (12, 12 | 23)
example : splitPositions 26 46 = some [0, 0, 1, 1, 2, 2, 3, 3, 4, 5, 5, 6, 6, 7, 7, 8, 9, 9, 10, 10, 11, 11, 12, 12, 13, 14, 14,
    15, 15, 16, 16, 17, 18, 18, 19, 19, 20, 20, 21, 22, 22, 23, 23, 24, 24, 25, 26] := by decide +kernel
example : splitPositions 3 7 = some [0, 0, 0, 1, 1, 2, 2, 3] := by decide +kernel
-- the raw boundaries before `_clean_new_division_boundaries` repairs the last one: `int(11 * (15 / 11)) = 14`
example : toFewerRaw 11 15 = some [0, 1, 2, 4, 5, 6, 8, 9, 10, 12, 13, 14] := by decide +kernel
example : toFewer [[1], [2, 3], [], [4]] [0, 1, 3] = some [[1], [2, 3, 4]] := by decide
example : nsplits 8 3 = some [2, 2, 4] := by decide
example : toMoreWith (fun len k => some ((List.range k).map (fun i => i * len / k) ++ [len]))
    [[1, 2, 3], [4]] [2, 1] = some [[1], [2, 3], [4]] := by decide
/-- the witness of defect #22: interpolating the divisions (0,1,2,4,5) of the 13-row frame to 8 points
    gives `[0,0,1,1,2,3,4,5]`, which collapses to 6 entries — the repaired `_lower` picks ToMore -/
example : lowerKind 7 1 (some [0, 0, 1, 1, 2, 3, 4, 5]) = .more := by decide
example : lowerKind 4 2 (some [0, 2, 5, 7, 9]) = .divisions [0, 2, 5, 7, 9] := by decide
-- non-vacuity of `divisions_rows_order_truthful_partial`: certified layers (plain, force beyond both ends with a dummy
-- partition, single last division in old and new)
example : (divisionsLayer [0, 3, 3, 5] [0, 2, 4, 5] false).map (layerOK [0, 3, 3, 5] [0, 2, 4, 5]) = some true := by decide
example : (divisionsLayer [5, 10] [0, 2, 10, 12] true).map (layerOK [5, 10] [0, 2, 10, 12]) = some true := by decide
example : (divisionsLayer [0, 4, 4] [0, 2, 4, 4] false).map (layerOK [0, 4, 4] [0, 2, 4, 4]) = some true := by decide
example : KeySorted (fun (r : Nat × Nat) => r.1) [(3, 2), (5, 3), (5, 4)] := by unfold KeySorted; decide
/-- witness of the defect repaired in /repo 5d1a6bb (found through the certificate): a single-label frame
    `a = (2, 2)` repartitioned with `force` to `(0, 1, 2, 2)`. Before the fix the temporary divisions started at
    `a[0]` and came out as `(2, 1, 2, 2)`; only the first (empty) slice was ever used and every row was lost.
    With the temporary divisions starting at `b[0]` the layer is certified and the rows arrive in the last partition. -/
example : (divisionsLayer [2, 2] [0, 1, 2, 2] true).map (fun L => (L.c, L.out, layerOK [2, 2] [0, 1, 2, 2] L)) =
    some ([0, 1, 2, 2], [[0], [1], [2]], true) := by decide
example : repartitionDivisions (fun (r : Nat × Nat) => r.1) [[(2, 0), (2, 1), (2, 2)]] [2, 2] [0, 1, 2, 2] true =
    some [[], [], [(2, 0), (2, 1), (2, 2)]] := by decide
example : repartitionDivisions (fun (r : Nat × Nat) => r.1) [[(0, 0), (1, 1)], [], [(3, 2), (5, 3), (5, 4)]]
    [0, 3, 3, 5] [0, 2, 4, 5] false = some [[(0, 0), (1, 1)], [(3, 2)], [(5, 3), (5, 4)]] := by decide

end Dask.C44
