import DaskModel.Model.DelayedUnpack
import DaskModel.Model.Delayed
/-!
# C15 (part 2) — `unpack_collections` of dask/delayed.py rebuilds every argument with its own types

A delayed call keeps its arguments as ONE task; `unpack_collections` turns every argument into a task that, run on the
values of the Delayed objects inside it, gives the argument back with those values in place.

Full statement: for every nesting of lists, tuples, sets, dicts, slices, dataclasses, namedtuples (and list / tuple /
set iterators) around Delayed values, in positional and keyword arguments alike,
  * the task evaluates to the argument of the eager call (`unpack_eval`, `call_args_eval`): every level keeps its type;
  * the task refers to exactly the Delayed values of the argument and every reference is among the reported
    dependencies (`mem_refs`, `mem_colls`, `refs_covered`, `call_refs_covered`);
  * an argument without Delayed values is passed as the object it is and does not look at dependency values
    (`evalPV_env_irrelevant`, `evalTT_congr`).
`unpacked_arg_is_argEnv` ties this to the program model of `Props/C15.lean` (`delayed_eval` assumes exactly this of a
task's arguments).  `inner_levels_must_restore_their_type` is the witness that restoring the type of the outermost
container only would be wrong.
Assumed of the value algebra: `tuple(xs)` / `set(xs)` of a computed list `xs` is the tuple / set of its elements.
-/
namespace Dask.C15Unpack
open Dask.DelayedUnpack

theorem isEmpty_iff_nil (l : List Nat) : l.isEmpty = true ↔ l = [] := List.isEmpty_iff

section
variable {V : Type} (S : Sem V) (env : Nat → V)

mutual
/-- converting the iterators inside an object into the containers they iterate over does not change its value -/
theorem evalPV_deiter : ∀ p : PV, evalPV S env (deiter p) = evalPV S env p
  | .lit v => rfl
  | .del k => rfl
  | .cont k xs => by simp only [deiter, evalPV, evalPVL_deiter xs]
  | .iter k xs => by simp only [deiter, evalPV, evalPVL_deiter xs]
  | .dict kvs => by simp only [deiter, evalPV, evalPVP_deiter kvs]
  | .slice a b c => by simp only [deiter, evalPV, evalPV_deiter a, evalPV_deiter b, evalPV_deiter c]
  | .dataclass cls fs => by simp only [deiter, evalPV, evalPVL_deiter fs]
  | .namedtuple cls fs => by simp only [deiter, evalPV, evalPVL_deiter fs]
theorem evalPVL_deiter : ∀ xs : List PV, evalPVL S env (deiterL xs) = evalPVL S env xs
  | [] => rfl
  | x :: xs => by simp only [deiterL, evalPVL, evalPV_deiter x, evalPVL_deiter xs]
theorem evalPVP_deiter : ∀ kvs : List (PV × PV), evalPVP S env (deiterP kvs) = evalPVP S env kvs
  | [] => rfl
  | (k, v) :: r => by simp only [deiterP, evalPVP, evalPV_deiter k, evalPV_deiter v, evalPVP_deiter r]
end
end

set_option linter.unusedSectionVars false in
section
variable {V : Type} (S : Sem V) (env : Nat → V)
variable (hconv : ∀ k vs, S.conv k (S.build .list vs) = S.build k vs)
include hconv

theorem eval_rebuild (k : CK) (ts : List TT) : evalTT S env (rebuild k ts) = S.build k (evalTTL S env ts) := by
  cases k <;> simp only [rebuild, evalTT, hconv]

mutual
/-- **The task built for an argument evaluates, on the values of the Delayed objects inside, to the argument itself with
    every Delayed replaced by its value** — whatever the nesting: lists stay lists, tuples tuples, sets sets at every
    depth, dict keys keep their values, slices, dataclasses and namedtuples are rebuilt with their own class. -/
theorem unpack_eval : ∀ p : PV, evalTT S env (unpack p).1 = evalPV S env p
  | .lit v => rfl
  | .del k => rfl
  | .cont k xs => by
    simp only [unpack]
    split
    · simp only [evalTT, evalPV_deiter, evalPV]
    · rw [eval_rebuild S env hconv, unpackL_eval xs]; rfl
  | .iter k xs => by
    simp only [unpack]
    split
    · simp only [evalTT, evalPV_deiter, evalPV]
    · rw [eval_rebuild S env hconv, unpackL_eval xs]; rfl
  | .dict kvs => by
    simp only [unpack]
    split
    · simp only [evalTT, evalPV_deiter, evalPV]
    · simp only [evalTT, evalPV, unpackP_eval kvs]
  | .slice a b c => by
    simp only [unpack]
    split
    · simp only [evalTT, evalPV_deiter, evalPV]
    · simp only [evalTT, evalPV, unpack_eval a, unpack_eval b, unpack_eval c]
  | .dataclass cls fs => by
    simp only [unpack]
    split
    · simp only [evalTT, evalPV_deiter, evalPV]
    · simp only [evalTT, evalPV, unpackL_eval fs]
  | .namedtuple cls fs => by
    simp only [unpack]
    split
    · simp only [evalTT, evalPV_deiter, evalPV]
    · simp only [evalTT, evalPV, unpackL_eval fs]
theorem unpackL_eval : ∀ xs : List PV, evalTTL S env (unpackL xs).1 = evalPVL S env xs
  | [] => rfl
  | x :: xs => by simp only [unpackL, evalTTL, evalPVL, unpack_eval x, unpackL_eval xs]
theorem unpackP_eval : ∀ kvs : List (PV × PV), evalTTP S env (unpackP kvs).1 = evalPVP S env kvs
  | [] => rfl
  | (k, v) :: r => by simp only [unpackP, evalTTP, evalPVP, unpack_eval k, unpack_eval v, unpackP_eval r]
end
end

/-! ## the dependencies -/

mutual
/-- the collections reported for an argument are exactly the Delayed values inside it -/
theorem mem_colls (q : Nat) : ∀ p : PV, q ∈ (unpack p).2 ↔ q ∈ delayedKeys p
  | .lit v => by simp [unpack, delayedKeys]
  | .del k => by simp [unpack, delayedKeys]
  | .cont k xs => by
    simp only [unpack, delayedKeys]
    split
    · rename_i h
      rw [isEmpty_iff_nil] at h
      rw [← mem_collsL q xs, h]
    · rw [mem_collsL q xs]
  | .iter k xs => by
    simp only [unpack, delayedKeys]
    split
    · rename_i h
      rw [isEmpty_iff_nil] at h
      rw [← mem_collsL q xs, h]
    · rw [mem_collsL q xs]
  | .dict kvs => by
    simp only [unpack, delayedKeys]
    split
    · rename_i h
      simp only [List.isEmpty_iff, List.append_eq_nil_iff] at h
      rw [← mem_collsP q kvs, h.1, h.2]
      simp
    · rw [List.mem_append, mem_collsP q kvs]
  | .slice a b c => by
    simp only [unpack, delayedKeys]
    split
    · rename_i h
      rw [isEmpty_iff_nil] at h
      simp only [List.mem_append, ← mem_colls q a, ← mem_colls q b, ← mem_colls q c]
      rw [← List.mem_append, ← List.mem_append, h]
    · simp only [List.mem_append, mem_colls q a, mem_colls q b, mem_colls q c]
  | .dataclass cls fs => by
    simp only [unpack, delayedKeys]
    split
    · rename_i h
      rw [isEmpty_iff_nil] at h
      rw [← mem_collsL q fs, h]
    · rw [mem_collsL q fs]
  | .namedtuple cls fs => by
    simp only [unpack, delayedKeys]
    split
    · rename_i h
      rw [isEmpty_iff_nil] at h
      rw [← mem_collsL q fs, h]
    · rw [mem_collsL q fs]
theorem mem_collsL (q : Nat) : ∀ xs : List PV, q ∈ (unpackL xs).2 ↔ q ∈ delayedKeysL xs
  | [] => by simp [unpackL, delayedKeysL]
  | x :: xs => by simp only [unpackL, delayedKeysL, List.mem_append, mem_colls q x, mem_collsL q xs]
theorem mem_collsP (q : Nat) : ∀ kvs : List (PV × PV),
    (q ∈ (unpackP kvs).2.1 ∨ q ∈ (unpackP kvs).2.2) ↔ q ∈ delayedKeysP kvs
  | [] => by simp [unpackP, delayedKeysP]
  | (k, v) :: r => by
    simp only [unpackP, delayedKeysP, List.mem_append, ← mem_colls q k, ← mem_colls q v, ← mem_collsP q r]
    constructor
    · rintro ((h | h) | (h | h))
      · exact Or.inl (Or.inl h)
      · exact Or.inr (Or.inl h)
      · exact Or.inl (Or.inr h)
      · exact Or.inr (Or.inr h)
    · rintro ((h | h) | (h | h))
      · exact Or.inl (Or.inl h)
      · exact Or.inr (Or.inl h)
      · exact Or.inl (Or.inr h)
      · exact Or.inr (Or.inr h)
end

theorem refs_rebuild (k : CK) (ts : List TT) : refs (rebuild k ts) = refsL ts := by
  cases k <;> simp only [rebuild, refs]

mutual
/-- **The task refers to exactly the Delayed values of the argument** (each of them is among the reported collections,
    `mem_colls`): no reference without its dependency, no dependency that is not used. -/
theorem mem_refs (q : Nat) : ∀ p : PV, q ∈ refs (unpack p).1 ↔ q ∈ delayedKeys p
  | .lit v => by simp [unpack, delayedKeys, refs]
  | .del k => by simp [unpack, delayedKeys, refs]
  | .cont k xs => by
    simp only [unpack, delayedKeys]
    split
    · rename_i h
      rw [isEmpty_iff_nil] at h
      rw [← mem_collsL q xs, h]; simp [refs]
    · rw [refs_rebuild, mem_refsL q xs]
  | .iter k xs => by
    simp only [unpack, delayedKeys]
    split
    · rename_i h
      rw [isEmpty_iff_nil] at h
      rw [← mem_collsL q xs, h]; simp [refs]
    · rw [refs_rebuild, mem_refsL q xs]
  | .dict kvs => by
    simp only [unpack, delayedKeys]
    split
    · rename_i h
      simp only [List.isEmpty_iff, List.append_eq_nil_iff] at h
      rw [← mem_collsP q kvs, h.1, h.2]
      simp [refs]
    · simp only [refs, mem_refsP q kvs]
  | .slice a b c => by
    simp only [unpack, delayedKeys]
    split
    · rename_i h
      rw [isEmpty_iff_nil] at h
      simp only [List.mem_append, ← mem_colls q a, ← mem_colls q b, ← mem_colls q c]
      rw [← List.mem_append, ← List.mem_append, h]; simp [refs]
    · simp only [refs, List.mem_append, mem_refs q a, mem_refs q b, mem_refs q c]
  | .dataclass cls fs => by
    simp only [unpack, delayedKeys]
    split
    · rename_i h
      rw [isEmpty_iff_nil] at h
      rw [← mem_collsL q fs, h]; simp [refs]
    · simp only [refs, mem_refsL q fs]
  | .namedtuple cls fs => by
    simp only [unpack, delayedKeys]
    split
    · rename_i h
      rw [isEmpty_iff_nil] at h
      rw [← mem_collsL q fs, h]; simp [refs]
    · simp only [refs, mem_refsL q fs]
theorem mem_refsL (q : Nat) : ∀ xs : List PV, q ∈ refsL (unpackL xs).1 ↔ q ∈ delayedKeysL xs
  | [] => by simp [unpackL, delayedKeysL, refsL]
  | x :: xs => by simp only [unpackL, delayedKeysL, refsL, List.mem_append, mem_refs q x, mem_refsL q xs]
theorem mem_refsP (q : Nat) : ∀ kvs : List (PV × PV), q ∈ refsP (unpackP kvs).1 ↔ q ∈ delayedKeysP kvs
  | [] => by simp [unpackP, delayedKeysP, refsP]
  | (k, v) :: r => by
    simp only [unpackP, delayedKeysP, refsP, List.mem_append, mem_refs q k, mem_refs q v, mem_refsP q r]
end

/-- every reference of the task has its collection among the dependencies handed to `HighLevelGraph.from_collections` -/
theorem refs_covered (p : PV) : ∀ q ∈ refs (unpack p).1, q ∈ (unpack p).2 :=
  fun q h => (mem_colls q p).mpr ((mem_refs q p).mp h)

section
variable {V : Type} (S : Sem V)

mutual
/-- the eager value only depends on the values of the Delayed objects inside the argument -/
theorem evalPV_congr (env env' : Nat → V) : ∀ p : PV, (∀ q ∈ delayedKeys p, env q = env' q) → evalPV S env p = evalPV S env' p
  | .lit v, _ => rfl
  | .del k, h => by simp only [evalPV]; exact h k (by simp [delayedKeys])
  | .cont k xs, h => by simp only [evalPV, evalPVL_congr env env' xs (by simpa [delayedKeys] using h)]
  | .iter k xs, h => by simp only [evalPV, evalPVL_congr env env' xs (by simpa [delayedKeys] using h)]
  | .dict kvs, h => by simp only [evalPV, evalPVP_congr env env' kvs (by simpa [delayedKeys] using h)]
  | .slice a b c, h => by
    simp only [delayedKeys, List.mem_append] at h
    simp only [evalPV, evalPV_congr env env' a (fun q hq => h q (Or.inl (Or.inl hq))),
      evalPV_congr env env' b (fun q hq => h q (Or.inl (Or.inr hq))), evalPV_congr env env' c (fun q hq => h q (Or.inr hq))]
  | .dataclass cls fs, h => by simp only [evalPV, evalPVL_congr env env' fs (by simpa [delayedKeys] using h)]
  | .namedtuple cls fs, h => by simp only [evalPV, evalPVL_congr env env' fs (by simpa [delayedKeys] using h)]
theorem evalPVL_congr (env env' : Nat → V) : ∀ xs : List PV, (∀ q ∈ delayedKeysL xs, env q = env' q) →
    evalPVL S env xs = evalPVL S env' xs
  | [], _ => rfl
  | x :: xs, h => by
    simp only [delayedKeysL, List.mem_append] at h
    simp only [evalPVL, evalPV_congr env env' x (fun q hq => h q (Or.inl hq)),
      evalPVL_congr env env' xs (fun q hq => h q (Or.inr hq))]
theorem evalPVP_congr (env env' : Nat → V) : ∀ kvs : List (PV × PV), (∀ q ∈ delayedKeysP kvs, env q = env' q) →
    evalPVP S env kvs = evalPVP S env' kvs
  | [], _ => rfl
  | (k, v) :: r, h => by
    simp only [delayedKeysP, List.mem_append] at h
    simp only [evalPVP, evalPV_congr env env' k (fun q hq => h q (Or.inl (Or.inl hq))),
      evalPV_congr env env' v (fun q hq => h q (Or.inl (Or.inr hq))), evalPVP_congr env env' r (fun q hq => h q (Or.inr hq))]
end

/-- an object without Delayed values inside does not look at the dependency values at all -/
theorem evalPV_env_irrelevant (env env' : Nat → V) (p : PV) (h : delayedKeys p = []) : evalPV S env p = evalPV S env' p :=
  evalPV_congr S env env' p (by rw [h]; intro q hq; cases hq)

/-- the task only looks at the values of the collections it reports: environments that agree on them give the same
    value (so the graph needs nothing but those dependencies) -/
theorem evalTT_congr (hconv : ∀ k vs, S.conv k (S.build .list vs) = S.build k vs) (env env' : Nat → V) (p : PV)
    (h : ∀ q ∈ (unpack p).2, env q = env' q) : evalTT S env (unpack p).1 = evalTT S env' (unpack p).1 := by
  rw [unpack_eval S env hconv, unpack_eval S env' hconv]
  exact evalPV_congr S env env' p (fun q hq => h q ((mem_colls q p).mpr hq))
end

/-! ## one delayed call -/

section
variable {V : Type} (S : Sem V) (env : Nat → V)

/-- **`call_function`**: the positional and keyword arguments of the task `Task(name, func, *args2, **dask_kwargs)`
    evaluate, on the dependency values, to the arguments of the eager call — keyword by keyword, any nesting. -/
theorem call_args_eval (hconv : ∀ k vs, S.conv k (S.build .list vs) = S.build k vs)
    (args : List PV) (kwargs : List (String × PV)) :
    (callArgs args kwargs).1.map (evalTT S env) = args.map (evalPV S env) ∧
    (callArgs args kwargs).2.1.map (fun p => (p.1, evalTT S env p.2)) = kwargs.map (fun p => (p.1, evalPV S env p.2)) := by
  constructor
  · simp only [callArgs, List.map_map]
    apply List.map_congr_left
    intro p _
    exact unpack_eval S env hconv p
  · simp only [callArgs, List.map_map]
    apply List.map_congr_left
    intro p _
    simp only [Function.comp, unpack_eval S env hconv p.2]

/-- every reference inside the call's arguments is among the collections the call depends on -/
theorem call_refs_covered (args : List PV) (kwargs : List (String × PV)) :
    (∀ t ∈ (callArgs args kwargs).1, ∀ q ∈ refs t, q ∈ (callArgs args kwargs).2.2) ∧
    (∀ p ∈ (callArgs args kwargs).2.1, ∀ q ∈ refs p.2, q ∈ (callArgs args kwargs).2.2) := by
  constructor
  · intro t ht q hq
    simp only [callArgs, List.mem_map] at ht
    obtain ⟨r, ⟨p, hp, rfl⟩, rfl⟩ := ht
    simp only [callArgs, List.mem_append, List.mem_flatten, List.mem_map]
    exact Or.inl ⟨(unpack p).2, ⟨unpack p, ⟨p, hp, rfl⟩, rfl⟩, refs_covered p q hq⟩
  · intro p hp q hq
    simp only [callArgs, List.mem_map] at hp
    obtain ⟨r, ⟨kv, hkv, rfl⟩, rfl⟩ := hp
    simp only [callArgs, List.mem_append, List.mem_flatten, List.mem_map]
    exact Or.inr ⟨(unpack kv.2).2, ⟨(kv.1, unpack kv.2), ⟨kv, hkv, rfl⟩, rfl⟩, refs_covered kv.2 q hq⟩
end

/-! ## the bridge to the program model of `Props/C15.lean`

`delayed_eval` takes for granted that, inside a task, an argument is "the same containers around the dependency values"
(`Delayed.argEnv`).  That is what the modelled `unpack_collections` delivers: -/

mutual
def toPV : Delayed.Arg → PV
  | .lit v => .lit v
  | .sub e => .del e.nm
  | .list xs => .cont .list (toPVL xs)
  | .tuple xs => .cont .tuple (toPVL xs)
  | .dict kvs => .dict (toPVP kvs)
def toPVL : List Delayed.Arg → List PV
  | [] => []
  | a :: as => toPV a :: toPVL as
def toPVP : List (Delayed.Arg × Delayed.Arg) → List (PV × PV)
  | [] => []
  | (k, v) :: r => (toPV k, toPV v) :: toPVP r
end

/-- the value algebra of the program model seen as one of this file (`cv`: how `tuple(…)` / `set(…)` act on values;
    sets, slices, dataclasses and namedtuples do not occur in the program model) -/
def semOf {V : Type} (S : Delayed.Sem V) (cv : CK → V → V) : Sem V where
  lit := S.lit
  build := fun k vs => match k with | .list => S.mkList vs | .tuple => S.mkTuple vs | .set => S.mkList vs
  conv := cv
  mkDict := S.mkDict
  mkSlice := fun a _ _ => a
  mkDC := fun _ vs => S.mkList vs
  mkNT := fun _ vs => S.mkList vs

section
variable {V : Type} (S : Delayed.Sem V) (cv : CK → V → V) (env : Nat → V)

mutual
theorem argEnv_is_evalPV : ∀ a : Delayed.Arg, Delayed.argEnv S env a = evalPV (semOf S cv) env (toPV a)
  | .lit v => rfl
  | .sub e => rfl
  | .list xs => by simp only [Delayed.argEnv, toPV, evalPV, semOf, argsEnv_is_evalPVL xs]
  | .tuple xs => by simp only [Delayed.argEnv, toPV, evalPV, semOf, argsEnv_is_evalPVL xs]
  | .dict kvs => by simp only [Delayed.argEnv, toPV, evalPV, semOf, pairsEnv_is_evalPVP kvs]
theorem argsEnv_is_evalPVL : ∀ as : List Delayed.Arg, Delayed.argsEnv S env as = evalPVL (semOf S cv) env (toPVL as)
  | [] => rfl
  | a :: as => by simp only [Delayed.argsEnv, toPVL, evalPVL, argEnv_is_evalPV a, argsEnv_is_evalPVL as]
theorem pairsEnv_is_evalPVP : ∀ ps : List (Delayed.Arg × Delayed.Arg),
    Delayed.pairsEnv S env ps = evalPVP (semOf S cv) env (toPVP ps)
  | [] => rfl
  | (k, v) :: r => by simp only [Delayed.pairsEnv, toPVP, evalPVP, argEnv_is_evalPV k, argEnv_is_evalPV v, pairsEnv_is_evalPVP r]
end

/-- **the task `unpack_collections` builds for an argument of the program model evaluates to `argEnv`** — what
    `delayed_eval` builds on — as soon as `tuple(…)` of a computed list is the tuple of its elements -/
theorem unpacked_arg_is_argEnv (hcv : ∀ vs, cv .tuple (S.mkList vs) = S.mkTuple vs) (hcs : ∀ vs, cv .set (S.mkList vs) = S.mkList vs)
    (hcl : ∀ vs, cv .list (S.mkList vs) = S.mkList vs) (a : Delayed.Arg) :
    evalTT (semOf S cv) env (unpack (toPV a)).1 = Delayed.argEnv S env a := by
  rw [argEnv_is_evalPV S cv env a]
  apply unpack_eval
  intro k vs
  cases k
  · exact hcl vs
  · exact hcv vs
  · exact hcs vs
end

/-! ## non-vacuity, and why every level has to restore its type -/

/-- values as trees: a container is a node tagged with its kind -/
inductive Tr where
  | atom (n : Nat)
  | node (tag : Nat) (xs : List Tr)
  deriving Repr

def tagOf : CK → Nat | .list => 0 | .tuple => 1 | .set => 2

def trSem : Sem Tr where
  lit := .atom
  build := fun k vs => .node (tagOf k) vs
  conv := fun k v => match v with | .node _ xs => .node (tagOf k) xs | a => a
  mkDict := fun kvs => .node 3 (kvs.flatMap (fun p => [p.1, p.2]))
  mkSlice := fun a b c => .node 4 [a, b, c]
  mkDC := fun c vs => .node (10 + c) vs
  mkNT := fun c vs => .node (20 + c) vs

theorem trSem_conv : ∀ k vs, trSem.conv k (trSem.build .list vs) = trSem.build k vs := fun _ _ => rfl

/-- `f([(a, 10)], shape=(a, b), cfg={'k': {a, 1}})`: the tuple inside the list, the tuple passed by keyword and the set
    inside the dict all come back as tuple / tuple / set -/
example : let env : Nat → Tr := fun k => .atom (100 + k)
    let args := [PV.cont .list [.cont .tuple [.del 1, .lit 10]]]
    let kw := [("shape", PV.cont .tuple [.del 1, .del 2]), ("cfg", PV.dict [(.lit 7, .cont .set [.del 1, .lit 1])])]
    (callArgs args kw).1.map (evalTT trSem env) = [.node 0 [.node 1 [.atom 101, .atom 10]]] ∧
    (callArgs args kw).2.1.map (fun p => (p.1, evalTT trSem env p.2))
      = [("shape", .node 1 [.atom 101, .atom 102]), ("cfg", .node 3 [.atom 7, .node 2 [.atom 101, .atom 1]])] ∧
    (callArgs args kw).2.2 = [1, 1, 2, 1] := by
  simp [callArgs, unpack, unpackL, unpackP, rebuild, evalTT, evalTTL, evalTTP, evalPV, trSem, tagOf]

/-- restoring the type of the outermost container only is not enough: the task `List(List(ref, 10))` for the argument
    `[(a, 10)]` evaluates to a list of a LIST -/
theorem inner_levels_must_restore_their_type :
    let env : Nat → Tr := fun k => .atom (100 + k)
    evalTT trSem env (.list [.list [.ref 1, .obj (.lit 10)]]) ≠ evalPV trSem env (.cont .list [.cont .tuple [.del 1, .lit 10]]) := by
  simp [evalTT, evalTTL, evalPV, evalPVL, trSem, tagOf]

end Dask.C15Unpack
