import DaskModel.Lemmas.Join
set_option linter.unusedSimpArgs false
/-! # C39 — joins and concatenation equal pandas (theorems)

Model: `Model/Join.lean`. The pandas semantics of a merge on one pair of in-memory frames is the
specification (`inner`, `left`, `leftsemi`, `rightOnly`, `outer`, `right`; NaN keys match NaN keys as
in pandas); the theorems say that dask's partition plans produce the same multiset of output rows. -/
namespace Dask.C39
open Dask.Join

theorem flatMap_append_perm {α β : Type} (f g : α → List β) :
    ∀ xs : List α, (xs.flatMap fun x => f x ++ g x).Perm (xs.flatMap f ++ xs.flatMap g)
  | [] => List.Perm.refl _
  | x :: xs => by
    simp only [List.flatMap_cons]
    have ih := flatMap_append_perm f g xs
    -- f x ++ g x ++ rest ~ f x ++ F ++ (g x ++ G)
    refine (List.Perm.append_left _ ih).trans ?_
    rw [List.append_assoc, List.append_assoc]
    refine List.Perm.append_left _ ?_
    rw [← List.append_assoc, ← List.append_assoc]
    exact List.Perm.append_right _ List.perm_append_comm

theorem flatMap_perm_congr {α β : Type} (f g : α → List β) (xs : List α) (h : ∀ x ∈ xs, (f x).Perm (g x)) :
    (xs.flatMap f).Perm (xs.flatMap g) := by
  induction xs with
  | nil => exact List.Perm.refl _
  | cons x xs ih =>
    simp only [List.flatMap_cons]
    exact List.Perm.append (h x List.mem_cons_self) (ih fun y hy => h y (List.mem_cons_of_mem _ hy))

/-- **hash_join_eq_global (inner)** -/
theorem hash_join_inner (h : Nat → Nat) (n : Nat) (hn : 0 < n) (L R : List Row) :
    (hashJoin inner h n L R).Perm (inner L R) :=
  hashJoin_joinWith_perm gInner gInner_key h n hn L R

/-- **hash_join_eq_global (left)**: unmatched left rows appear exactly once -/
theorem hash_join_left (h : Nat → Nat) (n : Nat) (hn : 0 < n) (L R : List Row) :
    (hashJoin left h n L R).Perm (left L R) :=
  hashJoin_joinWith_perm gLeft gLeft_key h n hn L R

/-- **hash_join_eq_global (leftsemi)** -/
theorem hash_join_leftsemi (h : Nat → Nat) (n : Nat) (hn : 0 < n) (L R : List Row) :
    (hashJoin leftsemi h n L R).Perm (leftsemi L R) :=
  hashJoin_joinWith_perm gSemi gSemi_key h n hn L R

theorem hash_rightOnly (h : Nat → Nat) (n : Nat) (hn : 0 < n) (L R : List Row) :
    (hashJoin rightOnly h n L R).Perm (rightOnly L R) := by
  unfold hashJoin
  have : (fun p => rightOnly (part h n p L) (part h n p R)) =
      fun p => (rightOnly L R).filter fun o => (fun o : Out => h o.1 % n) o == p := by
    funext p; exact rightOnly_part h n p L R
  rw [this]
  exact classes_perm (fun o : Out => h o.1 % n) n _ (fun _ _ => Nat.mod_lt _ hn)

/-- **hash_join_eq_global (outer)** -/
theorem hash_join_outer (h : Nat → Nat) (n : Nat) (hn : 0 < n) (L R : List Row) :
    (hashJoin outer h n L R).Perm (outer L R) := by
  unfold hashJoin outer
  refine (flatMap_append_perm _ _ _).trans ?_
  exact List.Perm.append (hash_join_left h n hn L R) (hash_rightOnly h n hn L R)

/-- **hash_join_eq_global (right)** -/
theorem hash_join_right (h : Nat → Nat) (n : Nat) (hn : 0 < n) (L R : List Row) :
    (hashJoin right h n L R).Perm (right L R) := by
  unfold hashJoin right
  refine (flatMap_append_perm _ _ _).trans ?_
  exact List.Perm.append (hash_join_inner h n hn L R) (hash_rightOnly h n hn L R)

/-- a left-driven join distributes over concatenation of the left side (exactly, order included) -/
theorem joinWith_append_left (g : Row → List Row → List Out) (L₁ L₂ R : List Row) :
    joinWith g (L₁ ++ L₂) R = joinWith g L₁ R ++ joinWith g L₂ R := by
  unfold joinWith; rw [List.flatMap_append]

theorem joinWith_flatten_left (g : Row → List Row → List Out) (Ls : List (List Row)) (R : List Row) :
    joinWith g Ls.flatten R = Ls.flatMap fun l => joinWith g l R := by
  induction Ls with
  | nil => rfl
  | cons l Ls ih => rw [List.flatten_cons, joinWith_append_left, ih, List.flatMap_cons]

/-- **broadcast_join_eq_global (how ≠ inner, right side broadcast)**: every partition of the big side is
    split by the hash of the small side's partitioning and piece `j` meets small partition `j` -/
theorem broadcast_split_eq_global (g : Row → List Row → List Out) (hg : ∀ l ms o, o ∈ g l ms → o.1 = l.1)
    (h : Nat → Nat) (m : Nat) (hm : 0 < m) (Ls : List (List Row)) (R : List Row) :
    (broadcastSplit (joinWith g) h m Ls R).Perm (joinWith g Ls.flatten R) := by
  rw [joinWith_flatten_left]
  unfold broadcastSplit
  exact flatMap_perm_congr _ _ _ fun l _ => hashJoin_joinWith_perm g hg h m hm l R

theorem inner_append_right (L R₁ R₂ : List Row) : (inner L (R₁ ++ R₂)).Perm (inner L R₁ ++ inner L R₂) := by
  unfold inner joinWith
  have : (fun l => gInner l (matching l (R₁ ++ R₂))) = fun l => gInner l (matching l R₁) ++ gInner l (matching l R₂) := by
    funext l; simp [matching, gInner, List.filter_append]
  rw [this]
  exact flatMap_append_perm _ _ L

theorem inner_flatten_right (L : List Row) : ∀ Rs : List (List Row),
    (inner L Rs.flatten).Perm (Rs.flatMap fun r => inner L r)
  | [] => by simp [inner, joinWith, matching, gInner]
  | r :: Rs => by
    rw [List.flatten_cons, List.flatMap_cons]
    exact (inner_append_right L r Rs.flatten).trans (List.Perm.append_left _ (inner_flatten_right L Rs))

/-- **broadcast_join_eq_global (inner)**: every partition of one side against every partition of the other -/
theorem broadcast_inner_eq_global (Ls Rs : List (List Row)) :
    (broadcastInner Ls Rs).Perm (inner Ls.flatten Rs.flatten) := by
  unfold broadcastInner
  have h1 : inner Ls.flatten Rs.flatten = Ls.flatMap fun l => inner l Rs.flatten := joinWith_flatten_left gInner Ls _
  rw [h1]
  exact flatMap_perm_congr _ _ _ fun l _ => (inner_flatten_right l Rs).symm

/-- **why a leftsemi join must not broadcast its left side** (defect #21, repaired): filtering the whole
    left frame against each right partition separately emits a left row once per matching partition -/
theorem leftsemi_left_broadcast_refuted :
    ¬ ∀ (L : List Row) (Rs : List (List Row)), (semiLeftBroadcast L Rs).Perm (leftsemi L Rs.flatten) := by
  intro h
  have := (h [(4, 0)] [[(4, 0)], [(4, 1)]]).length_eq
  revert this
  decide

/-- concat(axis=0) of frames is the concatenation of their partitions -/
theorem concat_axis0_den {α : Type} (frames : List (List (List α))) :
    (frames.flatten).flatten = (frames.map List.flatten).flatten := by
  rw [List.flatten_flatten]

theorem eq_map_range {α : Type} (n : Nat) (xs : List α) (f : Nat → α) (hlen : xs.length = n)
    (h : ∀ p, p < n → xs[p]? = some (f p)) : xs = (List.range n).map f := by
  apply List.ext_getElem?
  intro p
  by_cases hp : p < n
  · rw [h p hp, List.getElem?_map, List.getElem?_range hp]; rfl
  · rw [List.getElem?_eq_none (by omega), List.getElem?_eq_none (by simp; omega)]

/-- **partition-wise join = global join given co-location** (frame level): if partition `p` of both frames
    holds exactly the rows whose key is in class `p` — hash bucket after a shuffle, or interval of the aligned
    divisions for an index join — then joining the partitions pairwise and concatenating yields the global join
    as a multiset, for every left-driven join (inner, left, leftsemi). -/
theorem colocated_join_eq_global (g : Row → List Row → List Out) (hg : ∀ l ms o, o ∈ g l ms → o.1 = l.1)
    (c : Nat → Nat) (n : Nat) (hc : ∀ k, c k < n) (L R : List Row) (Ls Rs : List (List Row))
    (hLl : Ls.length = n) (hRl : Rs.length = n)
    (hL : ∀ p, p < n → Ls[p]? = some (partBy c p L)) (hR : ∀ p, p < n → Rs[p]? = some (partBy c p R)) :
    (List.zipWith (joinWith g) Ls Rs).flatten.Perm (joinWith g L R) := by
  rw [eq_map_range n Ls _ hLl hL, eq_map_range n Rs _ hRl hR, List.zipWith_map, List.zipWith_self,
    ← List.flatMap_def]
  exact classJoin_joinWith_perm g hg c n hc L R


/-! ## the order of the rows inside the co-located partitions does not matter -/

/-- the per-row expansion does not depend on the order of the matches (up to the order of its output) -/
def PermInv (g : Row → List Row → List Out) : Prop := ∀ l ms ms', ms.Perm ms' → (g l ms).Perm (g l ms')

theorem gInner_permInv : PermInv gInner := fun _ _ _ h => List.Perm.map _ h

theorem gLeft_permInv : PermInv gLeft := by
  intro l ms ms' h
  unfold gLeft
  have : ms.isEmpty = ms'.isEmpty := by
    have := h.length_eq
    cases ms <;> cases ms' <;> simp_all
  rw [this]
  split
  · exact List.Perm.refl _
  · exact gInner_permInv l ms ms' h

theorem gSemi_permInv : PermInv gSemi := by
  intro l ms ms' h
  unfold gSemi
  have : ms.isEmpty = ms'.isEmpty := by
    have := h.length_eq
    cases ms <;> cases ms' <;> simp_all
  rw [this]

theorem joinWith_perm (g : Row → List Row → List Out) (hg : PermInv g) (L L' R R' : List Row) (hL : L.Perm L')
    (hR : R.Perm R') : (joinWith g L R).Perm (joinWith g L' R') := by
  unfold joinWith
  refine (List.Perm.flatMap_right _ hL).trans ?_
  apply flatMap_perm_congr
  intro l _
  exact hg l _ _ (List.Perm.filter _ hR)

theorem flatten_perm_of_pointwise {α : Type} : ∀ (As Bs : List (List α)), As.length = Bs.length →
    (∀ (p : Nat) (A B : List α), As[p]? = some A → Bs[p]? = some B → A.Perm B) → As.flatten.Perm Bs.flatten
  | [], [], _, _ => List.Perm.refl _
  | [], _ :: _, h, _ => by simp at h
  | _ :: _, [], h, _ => by simp at h
  | A :: As, B :: Bs, h, hp => by
    rw [List.flatten_cons, List.flatten_cons]
    exact List.Perm.append (hp 0 A B rfl rfl)
      (flatten_perm_of_pointwise As Bs (by simpa using h) fun p A' B' hA hB => hp (p + 1) A' B' (by simpa using hA) (by simpa using hB))

/-- **partition-wise join = global join given co-location, rows in ANY order inside the partitions** (what a real
    shuffle delivers: partition `p` of each frame is a permutation of the rows whose key is in class `p`) -/
theorem colocated_join_perm (g : Row → List Row → List Out) (hg : ∀ l ms o, o ∈ g l ms → o.1 = l.1) (hgp : PermInv g)
    (c : Nat → Nat) (n : Nat) (hc : ∀ k, c k < n) (L R : List Row) (Ls Rs : List (List Row))
    (hLl : Ls.length = n) (hRl : Rs.length = n)
    (hL : ∀ (p : Nat) (P : List Row), Ls[p]? = some P → P.Perm (partBy c p L))
    (hR : ∀ (p : Nat) (P : List Row), Rs[p]? = some P → P.Perm (partBy c p R)) :
    (List.zipWith (joinWith g) Ls Rs).flatten.Perm (joinWith g L R) := by
  refine List.Perm.trans ?_ (classJoin_joinWith_perm g hg c n hc L R)
  unfold classJoin
  rw [List.flatMap_def]
  apply flatten_perm_of_pointwise
  · simp [hLl, hRl]
  · intro p A B hA hB
    rw [List.getElem?_zipWith] at hA
    cases hl : Ls[p]? with
    | none => simp [hl] at hA
    | some Lp =>
      cases hr : Rs[p]? with
      | none => simp [hl, hr] at hA
      | some Rp =>
        simp only [hl, hr, Option.map_some, Option.bind_some, Option.some.injEq] at hA
        subst hA
        have hp : p < n := by
          have := (List.getElem?_eq_some_iff.mp hl).1; omega
        rw [List.getElem?_map, List.getElem?_range hp] at hB
        simp only [Option.map_some, Option.some.injEq] at hB
        subst hB
        exact joinWith_perm g hgp _ _ _ _ (hL p Lp hl) (hR p Rp hr)
example : PermInv gLeft := gLeft_permInv
example : [(4, 1), (2, 0)].Perm (partBy (fun k => k % 2) 0 [(2, 0), (3, 5), (4, 1)]) := by decide

/-- the index join of two frames repartitioned to common divisions `d` is the instance `c = interval index`: -/
example : partBy (fun k => if k < 5 then 0 else 1) 1 [(2, 0), (7, 1), (5, 2)] = [(7, 1), (5, 2)] := by decide

/-! non-vacuity -/
example : inner [(1, 0), (2, 1), (1, 2)] [(1, 0), (3, 1), (1, 2)] =
    [(1, some 0, some 0), (1, some 0, some 2), (1, some 2, some 0), (1, some 2, some 2)] := by decide
example : left [(1, 0), (2, 1)] [(1, 0)] = [(1, some 0, some 0), (2, some 1, none)] := by decide
example : leftsemi [(2, 0), (4, 1), (3, 2)] [(4, 0), (0, 1), (2, 2), (1, 3), (4, 4), (3, 5), (4, 6)] =
    [(2, some 0, none), (4, some 1, none), (3, some 2, none)] := by decide
example : outer [(1, 0)] [(2, 0)] = [(1, some 0, none), (2, none, some 0)] := by decide
example : hashJoin inner (fun k => k) 2 [(1, 0), (2, 1), (1, 2)] [(1, 0), (2, 1)] =
    [(2, some 1, some 1), (1, some 0, some 0), (1, some 2, some 0)] := by decide

end Dask.C39
