import DaskModel.Model.ChunkPercentile
import DaskModel.Props.C32
import Mathlib.Data.Rat.Floor
import Mathlib.Data.List.Perm.Subperm
import Mathlib.Algebra.BigOperators.Group.List.Basic
/-!
# C32 (extension) — the approximate percentile lies within the DATA, end to end

`Props/C32.lean` proves the clauses of the statement relative to the values handed to `merge_percentiles`
("the merged extremes are the data's min/max" was trusted: NumPy's per-chunk percentile).  Here NumPy's
`np.percentile(chunk, q, method)` itself is modelled (`Model/ChunkPercentile.lean`: virtual index `(n-1)·q/100`,
floor / ceil / round-half-even / midpoint / lerp on the sorted chunk) and the pipeline
`percentile1d = chunks ↦ _percentile per chunk at [0] ++ q ++ [100] ↦ merge_percentiles` is proved to satisfy the
statement about the data itself, for every chunking (empty chunks included), all five methods, every validated
sort permutation:

* `chunk_pct_within`, `chunk_pct_q0`, `chunk_pct_q100` — one chunk: between the chunk's bounds; q = 0 / 100 is the
  chunk's minimum / maximum (an element, below / above all others)
* `percentile_within_data`  — every output lies between any lower and upper bound of all the data
* `percentile_monotone`     — sorted q ⇒ sorted outputs
* `percentile_q0_q100`      — where q = 0 / 100 the output IS the data's minimum / maximum (`arrange_perm`: the merged
  entries are a permutation of the inputs; `liveEntries_weight`: total weight = 100·N, so the pins of `select` fire)
* `percentile_1d_statement` — the four clauses together
* `percentile1d_ok`         — a run that returns values: every q in [0, 100], some chunk non-empty (else ValueError)
-/
namespace Dask.C32xData
open Dask.Percentile Dask.ChunkPercentile Dask.C32

/-! ## the sorted chunk -/

theorem mem_insertR {x y : Rat} {l : List Rat} : y ∈ insertR x l ↔ y = x ∨ y ∈ l := by
  induction l with
  | nil => simp [insertR]
  | cons z zs ih =>
    unfold insertR
    split
    · simp
    · simp only [List.mem_cons, ih]; tauto

theorem length_insertR (x : Rat) (l : List Rat) : (insertR x l).length = l.length + 1 := by
  induction l with
  | nil => simp [insertR]
  | cons z zs ih => unfold insertR; split <;> simp [ih]

theorem insertR_sorted {x : Rat} {l : List Rat} (h : Sorted l) : Sorted (insertR x l) := by
  induction l with
  | nil => simp [insertR]
  | cons z zs ih =>
    have hz := List.pairwise_cons.mp h
    unfold insertR
    split
    · rename_i hxz
      refine List.pairwise_cons.mpr ⟨?_, h⟩
      intro v hv
      rcases List.mem_cons.mp hv with rfl | hv'
      · exact hxz
      · exact le_trans hxz (hz.1 v hv')
    · rename_i hxz
      refine List.pairwise_cons.mpr ⟨?_, ih hz.2⟩
      intro v hv
      rcases mem_insertR.mp hv with rfl | hv'
      · exact le_of_lt (lt_of_not_ge hxz)
      · exact hz.1 v hv'

theorem isort_sorted (a : List Rat) : Sorted (isort a) := by
  induction a with
  | nil => simp [isort]
  | cons x xs ih => exact insertR_sorted ih

theorem mem_isort {y : Rat} {a : List Rat} : y ∈ isort a ↔ y ∈ a := by
  induction a with
  | nil => simp [isort]
  | cons x xs ih => simp [isort, mem_insertR, ih]

theorem length_isort (a : List Rat) : (isort a).length = a.length := by
  induction a with
  | nil => rfl
  | cons x xs ih => simp [isort, length_insertR, ih]

/-! ## floor / ceil / round-half-even as list indices -/

theorem floorN_cast {x : Rat} (hx : 0 ≤ x) : ((floorN x : Nat) : Rat) = ((⌊x⌋ : Int) : Rat) := by
  have h0 : 0 ≤ ⌊x⌋ := Int.floor_nonneg.mpr hx
  have h1 : ((floorN x : Nat) : Int) = ⌊x⌋ := Int.toNat_of_nonneg h0
  rw [← h1]; simp

theorem floorN_le {x : Rat} (hx : 0 ≤ x) : ((floorN x : Nat) : Rat) ≤ x := by
  rw [floorN_cast hx]; exact Int.floor_le x

theorem lt_floorN_add_one {x : Rat} (hx : 0 ≤ x) : x < ((floorN x : Nat) : Rat) + 1 := by
  rw [floorN_cast hx]; exact Int.lt_floor_add_one x

theorem floorN_le_of_le {x : Rat} {k : Nat} (hx : 0 ≤ x) (hk : x ≤ (k : Rat)) : floorN x ≤ k :=
  (Nat.cast_le (α := Rat)).mp (le_trans (floorN_le hx) hk)

theorem succ_floorN_le {x : Rat} {k : Nat} (_hx : 0 ≤ x) (hk : x ≤ (k : Rat)) (hlt : ((floorN x : Nat) : Rat) < x) :
    floorN x + 1 ≤ k :=
  (Nat.cast_lt (α := Rat)).mp (lt_of_lt_of_le hlt hk)

theorem ceilN_le_of_le {x : Rat} {k : Nat} (hx : 0 ≤ x) (hk : x ≤ (k : Rat)) : ceilN x ≤ k := by
  unfold ceilN
  split
  · exact floorN_le_of_le hx hk
  · rename_i hne
    exact succ_floorN_le hx hk (lt_of_le_of_ne (floorN_le hx) hne)

theorem roundN_le_of_le {x : Rat} {k : Nat} (hx : 0 ≤ x) (hk : x ≤ (k : Rat)) : roundN x ≤ k := by
  have hf := floorN_le_of_le hx hk
  unfold roundN
  split
  · exact hf
  · rename_i h1
    have hlt : ((floorN x : Nat) : Rat) < x := by
      have : (1 : Rat) / 2 ≤ x - ((floorN x : Nat) : Rat) := le_of_not_gt h1
      linarith
    have := succ_floorN_le hx hk hlt
    split
    · exact this
    · split
      · exact hf
      · exact this

theorem floorN_natCast (k : Nat) : floorN (k : Rat) = k := by
  show (⌊((k : Nat) : Rat)⌋).toNat = k
  rw [Int.floor_natCast]; simp

theorem ceilN_natCast (k : Nat) : ceilN (k : Rat) = k := by
  unfold ceilN; rw [floorN_natCast]; simp

theorem roundN_natCast (k : Nat) : roundN (k : Rat) = k := by
  unfold roundN; rw [floorN_natCast]; simp

theorem vindex_bounds (n : Nat) {q : Rat} (h0 : 0 ≤ q) (h1 : q ≤ 100) :
    0 ≤ vindex n q ∧ vindex n q ≤ ((n - 1 : Nat) : Rat) := by
  unfold vindex
  have hk : (0 : Rat) ≤ ((n - 1 : Nat) : Rat) := Nat.cast_nonneg _
  have hq0 : (0 : Rat) ≤ q / 100 := div_nonneg h0 (by norm_num)
  have hq1 : q / 100 ≤ 1 := by rw [div_le_one (by norm_num)]; exact h1
  exact ⟨mul_nonneg hk hq0, mul_le_of_le_one_right hk hq1⟩

theorem floorN_zero : floorN 0 = 0 := by simpa using floorN_natCast 0
theorem ceilN_zero : ceilN 0 = 0 := by simpa using ceilN_natCast 0
theorem roundN_zero : roundN 0 = 0 := by simpa using roundN_natCast 0
theorem vindex_zero (n : Nat) : vindex n 0 = 0 := by simp [vindex]
theorem vindex_hundred (n : Nat) : vindex n 100 = ((n - 1 : Nat) : Rat) := by simp [vindex]

/-! ## NumPy's percentile of one chunk -/

/-- **one chunk, sorted**: every method stays between the first and the last element of the sorted chunk -/
theorem pctSorted_bounds (m : Method) {s : List Rat} (hs : Sorted s) (hne : 0 < s.length) {q : Rat}
    (h0 : 0 ≤ q) (h1 : q ≤ 100) :
    nth s 0 ≤ pctSorted m s q ∧ pctSorted m s q ≤ nth s (s.length - 1) := by
  obtain ⟨hv0, hv1⟩ := vindex_bounds s.length h0 h1
  have B : ∀ i, i ≤ s.length - 1 → nth s 0 ≤ nth s i ∧ nth s i ≤ nth s (s.length - 1) := fun i hi =>
    ⟨nth_mono hs (Nat.zero_le i) (by omega), nth_mono hs hi (by omega)⟩
  have hf := floorN_le_of_le hv0 hv1
  have hc := ceilN_le_of_le hv0 hv1
  have hr := roundN_le_of_le hv0 hv1
  cases m with
  | lower => exact B _ hf
  | higher => exact B _ hc
  | nearest => exact B _ hr
  | midpoint =>
    have a := B _ hf; have b := B _ hc
    simp only [pctSorted]
    constructor <;> linarith [a.1, a.2, b.1, b.2]
  | linear =>
    simp only [pctSorted]
    have hhi : min (floorN (vindex s.length q) + 1) (s.length - 1) ≤ s.length - 1 := Nat.min_le_right _ _
    have hlohi : floorN (vindex s.length q) ≤ min (floorN (vindex s.length q) + 1) (s.length - 1) := by omega
    have a := B _ hf; have b := B _ hhi
    have hab := nth_mono hs hlohi (by omega)
    have g0 : 0 ≤ vindex s.length q - ((floorN (vindex s.length q) : Nat) : Rat) := by
      have := floorN_le hv0; linarith
    have g1 : vindex s.length q - ((floorN (vindex s.length q) : Nat) : Rat) ≤ 1 := by
      have := lt_floorN_add_one hv0; linarith
    have p0 := mul_nonneg (sub_nonneg.mpr hab) g0
    have p1 := mul_le_mul_of_nonneg_left g1 (sub_nonneg.mpr hab)
    constructor <;> linarith [a.1, a.2, b.1, b.2]

theorem pctSorted_zero (m : Method) (s : List Rat) : pctSorted m s 0 = nth s 0 := by
  cases m <;> simp [pctSorted, vindex_zero, floorN_zero, ceilN_zero, roundN_zero]

theorem pctSorted_hundred (m : Method) (s : List Rat) : pctSorted m s 100 = nth s (s.length - 1) := by
  cases m <;> simp [pctSorted, vindex_hundred, floorN_natCast, ceilN_natCast, roundN_natCast]

theorem nth_mem {s : List Rat} {i : Nat} (h : i < s.length) : nth s i ∈ s := by
  rw [nth_eq_getElem s i h]; exact List.getElem_mem _

/-- **chunk_pct_within**: `np.percentile(chunk, q, method)` of a non-empty chunk lies within any bounds of the chunk -/
theorem chunk_pct_within (m : Method) (a : List Rat) (ha : a ≠ []) {q : Rat} (h0 : 0 ≤ q) (h1 : q ≤ 100)
    (lo hi : Rat) (hlo : ∀ x ∈ a, lo ≤ x) (hhi : ∀ x ∈ a, x ≤ hi) :
    lo ≤ pctSorted m (isort a) q ∧ pctSorted m (isort a) q ≤ hi := by
  have hne : 0 < (isort a).length := by rw [length_isort]; exact List.length_pos_iff.mpr ha
  obtain ⟨b0, b1⟩ := pctSorted_bounds m (isort_sorted a) hne h0 h1
  have m0 : nth (isort a) 0 ∈ a := mem_isort.mp (nth_mem hne)
  have m1 : nth (isort a) ((isort a).length - 1) ∈ a := mem_isort.mp (nth_mem (by omega))
  exact ⟨le_trans (hlo _ m0) b0, le_trans b1 (hhi _ m1)⟩

/-- **chunk_pct_q0**: at q = 0 every method returns the chunk's minimum -/
theorem chunk_pct_q0 (m : Method) (a : List Rat) (ha : a ≠ []) :
    pctSorted m (isort a) 0 ∈ a ∧ ∀ x ∈ a, pctSorted m (isort a) 0 ≤ x := by
  have hne : 0 < (isort a).length := by rw [length_isort]; exact List.length_pos_iff.mpr ha
  rw [pctSorted_zero]
  refine ⟨mem_isort.mp (nth_mem hne), fun x hx => ?_⟩
  obtain ⟨i, hi, rfl⟩ := List.getElem_of_mem (mem_isort.mpr hx)
  rw [← nth_eq_getElem _ i hi]
  exact nth_mono (isort_sorted a) (Nat.zero_le i) hi

/-- **chunk_pct_q100**: at q = 100 every method returns the chunk's maximum -/
theorem chunk_pct_q100 (m : Method) (a : List Rat) (ha : a ≠ []) :
    pctSorted m (isort a) 100 ∈ a ∧ ∀ x ∈ a, x ≤ pctSorted m (isort a) 100 := by
  have hne : 0 < (isort a).length := by rw [length_isort]; exact List.length_pos_iff.mpr ha
  rw [pctSorted_hundred]
  refine ⟨mem_isort.mp (nth_mem (by omega)), fun x hx => ?_⟩
  obtain ⟨i, hi, rfl⟩ := List.getElem_of_mem (mem_isort.mpr hx)
  rw [← nth_eq_getElem _ i hi]
  exact nth_mono (isort_sorted a) (by omega) (by omega)

/-! ## the pipeline -/

/-- the entries `merge_percentiles` merges for the array with blocks `chunks` -/
def liveEntries (m : Method) (q : List Rat) (chunks : List (List Rat)) : List Entry :=
  ((chunks.map (chunkInput m (calcQ q))).filter (fun i => i.N != 0)).flatMap entriesOf

theorem mem_zipWith_mk : ∀ (vs cs : List Rat) (e : Entry), e ∈ List.zipWith Entry.mk vs cs → e.val ∈ vs ∧ e.cnt ∈ cs
  | [], _, e, h => by simp at h
  | _ :: _, [], e, h => by simp at h
  | v :: vs, c :: cs, e, h => by
    simp only [List.zipWith_cons_cons, List.mem_cons] at h
    rcases h with rfl | h
    · simp
    · have := mem_zipWith_mk vs cs e h
      exact ⟨List.mem_cons_of_mem _ this.1, List.mem_cons_of_mem _ this.2⟩

theorem mem_liveEntries {m : Method} {q : List Rat} {chunks : List (List Rat)} {e : Entry}
    (h : e ∈ liveEntries m q chunks) :
    ∃ a ∈ chunks, a ≠ [] ∧ (∃ c ∈ calcQ q, e.val = pctSorted m (isort a) c) ∧
      e.cnt ∈ countsOf (calcQ q) (a.length : Rat) := by
  unfold liveEntries at h
  obtain ⟨i, hi, he⟩ := List.mem_flatMap.mp h
  obtain ⟨hi1, hi2⟩ := List.mem_filter.mp hi
  obtain ⟨a, ha, rfl⟩ := List.mem_map.mp hi1
  have hane : a ≠ [] := by
    intro h0; subst h0; simp [chunkInput] at hi2
  refine ⟨a, ha, hane, ?_⟩
  have hemp : a.isEmpty = false := by cases a with
    | nil => exact absurd rfl hane
    | cons _ _ => rfl
  simp only [entriesOf, chunkInput, hemp] at he
  obtain ⟨h1, h2⟩ := mem_zipWith_mk _ _ e he
  obtain ⟨c, hc, hcv⟩ := List.mem_map.mp h1
  exact ⟨⟨c, hc, hcv.symm⟩, h2⟩

theorem adj_nonneg (N : Rat) (hN : 0 ≤ N) : ∀ (l : List Rat), Sorted l →
    ∀ c ∈ List.zipWith (fun a b => (b - a) * N) l l.tail, 0 ≤ c
  | [], _, c, h => by simp at h
  | [_], _, c, h => by simp at h
  | a :: b :: t, hs, c, h => by
    simp only [List.tail_cons, List.zipWith_cons_cons, List.mem_cons] at h
    have hp := List.pairwise_cons.mp hs
    rcases h with rfl | h
    · exact mul_nonneg (sub_nonneg.mpr (hp.1 b (by simp))) hN
    · exact adj_nonneg N hN (b :: t) hp.2 c (by simpa using h)

theorem countsOf_nonneg {qs : List Rat} (hs : Sorted qs) (h0 : ∀ x ∈ qs, 0 ≤ x) {N : Rat} (hN : 0 ≤ N) :
    ∀ c ∈ countsOf qs N, 0 ≤ c := by
  cases qs with
  | nil => simp [countsOf]
  | cons q0 rest =>
    intro c hc
    simp only [countsOf, List.mem_cons] at hc
    rcases hc with rfl | hc
    · exact mul_nonneg (h0 q0 (by simp)) hN
    · exact adj_nonneg N hN (q0 :: rest) hs c hc

theorem all_inRange {q : List Rat} : q.all inRange = true ↔ ∀ x ∈ q, 0 ≤ x ∧ x ≤ 100 := by
  simp [List.all_eq_true, inRange]

theorem calcQ_range {q : List Rat} (hq : ∀ x ∈ q, 0 ≤ x ∧ x ≤ 100) : ∀ c ∈ calcQ q, 0 ≤ c ∧ c ≤ 100 := by
  intro c hc
  simp only [calcQ, List.mem_cons, List.mem_append, List.not_mem_nil, or_false] at hc
  rcases hc with rfl | hc | rfl
  · norm_num
  · exact hq c hc
  · norm_num

theorem calcQ_sorted {q : List Rat} (hs : Sorted q) (hq : ∀ x ∈ q, 0 ≤ x ∧ x ≤ 100) : Sorted (calcQ q) := by
  unfold calcQ
  refine List.pairwise_cons.mpr ⟨fun x hx => (calcQ_range hq x (List.mem_cons_of_mem _ hx)).1, ?_⟩
  refine List.pairwise_append.mpr ⟨hs, by simp, ?_⟩
  intro a ha b hb
  rw [List.mem_singleton.mp hb]; exact (hq a ha).2

theorem liveEntries_nonneg {m : Method} {q : List Rat} {chunks : List (List Rat)} (hs : Sorted q)
    (hq : ∀ x ∈ q, 0 ≤ x ∧ x ≤ 100) : ∀ e ∈ liveEntries m q chunks, 0 ≤ e.cnt := by
  intro e he
  obtain ⟨a, _, _, _, hc⟩ := mem_liveEntries he
  exact countsOf_nonneg (calcQ_sorted hs hq) (fun x hx => (calcQ_range hq x hx).1) (Nat.cast_nonneg _) _ hc

/-- the entry of a non-empty chunk at `calc_q[0] = 0` -/
theorem head_entry_mem (m : Method) (q : List Rat) {chunks : List (List Rat)} {a : List Rat} (ha : a ∈ chunks)
    (hne : a ≠ []) : (⟨pctSorted m (isort a) 0, 0 * (a.length : Rat)⟩ : Entry) ∈ liveEntries m q chunks := by
  unfold liveEntries
  refine List.mem_flatMap.mpr ⟨chunkInput m (calcQ q) a, List.mem_filter.mpr ⟨List.mem_map.mpr ⟨a, ha, rfl⟩, ?_⟩, ?_⟩
  · have : a.length ≠ 0 := fun h => hne (List.length_eq_zero_iff.mp h)
    simpa [chunkInput] using this
  · have hemp : a.isEmpty = false := by cases a with
      | nil => exact absurd rfl hne
      | cons _ _ => rfl
    simp [entriesOf, chunkInput, hemp, calcQ, countsOf]

theorem merge_some_live {order : Option (List Nat)} {m : Method} {fq : List Rat} {ins : List Input} {out : List Rat}
    (h : mergePercentilesWith order m fq ins = some (some out)) : ins.filter (fun i => i.N != 0) ≠ [] := by
  unfold mergePercentilesWith at h
  dsimp only at h
  split at h
  · simp at h
  · rename_i hne
    simpa using hne

/-- what a successful run tells: every q in range, a non-empty chunk exists, and the result is the merge -/
theorem percentile1d_ok {order : Option (List Nat)} {m : Method} {q : List Rat} {chunks : List (List Rat)}
    {out : List Rat} (h : percentile1d order m q chunks = some (some out)) :
    (∀ x ∈ q, 0 ≤ x ∧ x ≤ 100) ∧ (∃ a ∈ chunks, a ≠ []) ∧
      mergePercentilesWith order m q (chunks.map (chunkInput m (calcQ q))) = some (some out) := by
  unfold percentile1d at h
  split at h
  · rename_i hr
    refine ⟨all_inRange.mp hr, ?_, h⟩
    obtain ⟨i, hi⟩ := List.exists_mem_of_ne_nil _ (merge_some_live h)
    obtain ⟨hi1, hi2⟩ := List.mem_filter.mp hi
    obtain ⟨a, ha, rfl⟩ := List.mem_map.mp hi1
    refine ⟨a, ha, ?_⟩
    intro h0; subst h0; simp [chunkInput] at hi2
  · simp at h

/-- **percentile_within_data**: every value `da.percentile` returns lies between any lower and any upper bound of the
    data — for every chunking (empty chunks included), method, sorted q and sort permutation. -/
theorem percentile_within_data (order : Option (List Nat)) (m : Method) (q : List Rat) (chunks : List (List Rat))
    (out : List Rat) (hs : Sorted q) (h : percentile1d order m q chunks = some (some out))
    (lo hi : Rat) (hlo : ∀ x ∈ chunks.flatten, lo ≤ x) (hhi : ∀ x ∈ chunks.flatten, x ≤ hi) :
    ∀ r ∈ out, lo ≤ r ∧ r ≤ hi := by
  obtain ⟨hq, ⟨a0, ha0, hne0⟩, hm⟩ := percentile1d_ok h
  refine mergePercentilesWith_between order m q _ out lo hi (liveEntries_nonneg hs hq)
    (List.ne_nil_of_mem (head_entry_mem m q ha0 hne0)) ?_ hm
  intro e he
  obtain ⟨a, ha, hane, ⟨c, hc, hv⟩, _⟩ := mem_liveEntries he
  rw [hv]
  have hcr := calcQ_range hq c hc
  exact chunk_pct_within m a hane hcr.1 hcr.2 lo hi
    (fun x hx => hlo x (List.mem_flatten.mpr ⟨a, ha, hx⟩)) (fun x hx => hhi x (List.mem_flatten.mpr ⟨a, ha, hx⟩))

/-- **percentile_monotone**: for non-decreasing q the values `da.percentile` returns are non-decreasing. -/
theorem percentile_monotone (order : Option (List Nat)) (m : Method) (q : List Rat) (chunks : List (List Rat))
    (out : List Rat) (hs : Sorted q) (h : percentile1d order m q chunks = some (some out)) : Sorted out := by
  obtain ⟨hq, ⟨a0, ha0, hne0⟩, hm⟩ := percentile1d_ok h
  exact mergePercentilesWith_monotone order m q _ out (liveEntries_nonneg hs hq)
    (List.ne_nil_of_mem (head_entry_mem m q ha0 hne0)) hs hm

/-! ## q = 0 and q = 100 give the data's minimum and maximum -/

theorem insertBy_perm (x : Entry) (l : List Entry) : (insertBy x l).Perm (x :: l) := by
  induction l with
  | nil => simp [insertBy]
  | cons y ys ih =>
    unfold insertBy
    split
    · exact List.Perm.refl _
    · exact ((List.Perm.cons y ih).trans (List.Perm.swap x y ys))

theorem isortBy_perm (es : List Entry) : (isortBy es).Perm es := by
  induction es with
  | nil => simp [isortBy]
  | cons x xs ih => exact (insertBy_perm x _).trans (List.Perm.cons x ih)

theorem map_getD_range (es : List Entry) (d : Entry) : (List.range es.length).map (fun i => es.getD i d) = es := by
  apply List.ext_getElem
  · simp
  · intro i h1 h2
    simp at h1
    simp [List.getD_eq_getElem?_getD, h1]

/-- whatever validated permutation `np.argsort` returned, the merged entries are the input entries, rearranged -/
theorem arrange_perm {es : List Entry} {order : Option (List Nat)} {out : List Entry}
    (h : arrange es order = some out) : out.Perm es := by
  cases order with
  | none =>
    simp only [arrange] at h; injection h with h; subst h
    exact isortBy_perm es
  | some o =>
    simp only [arrange] at h
    split at h
    · rename_i hv
      injection h with h; subst h
      simp only [validOrder, Bool.and_eq_true, beq_iff_eq] at hv
      have hsub : List.range es.length ⊆ o := by
        intro i hi
        have := List.all_eq_true.mp hv.1.2 i hi
        simpa using this
      have hp : (List.range es.length).Perm o :=
        (List.subperm_of_subset List.nodup_range hsub).perm_of_length_le (by simp [hv.1.1.1])
      have := (hp.map (fun i => es.getD i ⟨0, 0⟩)).symm
      rwa [map_getD_range] at this
    · simp at h

theorem merge_unfold {order : Option (List Nat)} {m : Method} {fq : List Rat} {ins : List Input} {out : List Rat}
    (h : mergePercentilesWith order m fq ins = some (some out)) :
    ∃ entries, arrange ((ins.filter (fun i => i.N != 0)).flatMap entriesOf) order = some entries ∧
      out = fq.map fun x => select m (entries.map (·.val)) (cumsum 0 (entries.map (·.cnt)))
        (x * ((isum ((ins.filter (fun i => i.N != 0)).map (·.N)) : Nat) : Rat)) := by
  unfold mergePercentilesWith at h
  dsimp only at h
  split at h
  · simp at h
  · split at h
    · simp at h
    · rename_i entries harr
      simp only [Option.some.injEq] at h
      exact ⟨entries, harr, h.symm⟩

theorem cumsum_last : ∀ (cs : List Rat) (acc : Rat), cs ≠ [] →
    nth (cumsum acc cs) ((cumsum acc cs).length - 1) = acc + cs.sum
  | [], _, h => absurd rfl h
  | [c], acc, _ => by simp [cumsum, nth]
  | c :: d :: t, acc, _ => by
    have ih := cumsum_last (d :: t) (acc + c) (by simp)
    have hl : (cumsum (acc + c) (d :: t)).length = t.length + 1 := by simp [length_cumsum]
    rw [hl] at ih
    have hl2 : (cumsum acc (c :: d :: t)).length = t.length + 2 := by simp [length_cumsum]
    rw [hl2]
    have : nth (cumsum acc (c :: d :: t)) (t.length + 2 - 1) = nth (cumsum (acc + c) (d :: t)) (t.length + 1 - 1) := by
      simp [cumsum, nth]
    rw [this, ih]; simp only [List.sum_cons]; ring

theorem adj_sum (N : Rat) : ∀ (l : List Rat) (a z : Rat),
    (List.zipWith (fun a b => (b - a) * N) (a :: (l ++ [z])) (l ++ [z])).sum = (z - a) * N
  | [], a, z => by simp
  | b :: l, a, z => by
    have ih := adj_sum N l b z
    simp only [List.cons_append, List.zipWith_cons_cons, List.sum_cons] at ih ⊢
    rw [ih]; ring

theorem countsOf_calcQ_sum (q : List Rat) (N : Rat) : (countsOf (calcQ q) N).sum = 100 * N := by
  simp only [calcQ, countsOf, List.sum_cons]
  rw [adj_sum]; ring

theorem length_countsOf (q : List Rat) (N : Rat) : (countsOf q N).length = q.length := by
  cases q with
  | nil => rfl
  | cons a l => simp [countsOf]

theorem zipWith_mk_cnt : ∀ (vs cs : List Rat), cs.length ≤ vs.length → (List.zipWith Entry.mk vs cs).map (·.cnt) = cs
  | _, [], _ => by simp
  | [], _ :: _, h => by simp at h
  | v :: vs, c :: cs, h => by
    simp only [List.zipWith_cons_cons, List.map_cons]
    rw [zipWith_mk_cnt vs cs (by simpa using h)]

theorem zipWith_mk_val : ∀ (vs cs : List Rat), vs.length ≤ cs.length → (List.zipWith Entry.mk vs cs).map (·.val) = vs
  | [], _, _ => by simp
  | _ :: _, [], h => by simp at h
  | v :: vs, c :: cs, h => by
    simp only [List.zipWith_cons_cons, List.map_cons]
    rw [zipWith_mk_val vs cs (by simpa using h)]

theorem entriesOf_chunk {m : Method} {cq a : List Rat} (ha : a ≠ []) :
    (entriesOf (chunkInput m cq a)).map (·.val) = cq.map (pctSorted m (isort a)) ∧
    (entriesOf (chunkInput m cq a)).map (·.cnt) = countsOf cq (a.length : Rat) := by
  have hemp : a.isEmpty = false := by cases a with
    | nil => exact absurd rfl ha
    | cons _ _ => rfl
  simp only [entriesOf, chunkInput, hemp]
  exact ⟨zipWith_mk_val _ _ (by simp [length_countsOf]), zipWith_mk_cnt _ _ (by simp [length_countsOf])⟩

/-- every per-chunk percentile of a non-empty chunk is one of the merged values -/
theorem val_mem_liveEntries (m : Method) (q : List Rat) {chunks : List (List Rat)} {a : List Rat} (ha : a ∈ chunks)
    (hne : a ≠ []) {c : Rat} (hc : c ∈ calcQ q) : ∃ e ∈ liveEntries m q chunks, e.val = pctSorted m (isort a) c := by
  have hv : pctSorted m (isort a) c ∈ (entriesOf (chunkInput m (calcQ q) a)).map (·.val) := by
    rw [(entriesOf_chunk hne).1]; exact List.mem_map.mpr ⟨c, hc, rfl⟩
  obtain ⟨e, he, hev⟩ := List.mem_map.mp hv
  refine ⟨e, ?_, hev⟩
  unfold liveEntries
  refine List.mem_flatMap.mpr ⟨chunkInput m (calcQ q) a, List.mem_filter.mpr ⟨List.mem_map.mpr ⟨a, ha, rfl⟩, ?_⟩, he⟩
  have : a.length ≠ 0 := fun h => hne (List.length_eq_zero_iff.mp h)
  simpa [chunkInput] using this

/-- the total weight of the merged entries is 100 · (number of elements) -/
theorem liveEntries_weight (m : Method) (q : List Rat) : ∀ (chunks : List (List Rat)),
    ((liveEntries m q chunks).map (·.cnt)).sum =
      100 * ((isum (((chunks.map (chunkInput m (calcQ q))).filter (fun i => i.N != 0)).map (·.N)) : Nat) : Rat)
  | [] => by simp [liveEntries, isum]
  | a :: rest => by
    have ih := liveEntries_weight m q rest
    unfold liveEntries at ih ⊢
    by_cases ha : a = []
    · subst ha
      have : (chunkInput m (calcQ q) []).N = 0 := rfl
      simpa [List.filter_cons, this] using ih
    · have hN : ((chunkInput m (calcQ q) a).N != 0) = true := by
        have : a.length ≠ 0 := fun h => ha (List.length_eq_zero_iff.mp h)
        simpa [chunkInput] using this
      simp only [List.map_cons, List.filter_cons, hN, if_true, List.flatMap_cons, List.map_append, List.sum_append]
      rw [ih, (entriesOf_chunk ha).2, countsOf_calcQ_sum]
      simp only [isum, List.foldr_cons, chunkInput]
      push_cast; ring

theorem isum_pos : ∀ (l : List Nat), l ≠ [] → (∀ n ∈ l, n ≠ 0) → 0 < isum l
  | [], h, _ => absurd rfl h
  | n :: l, _, h => by
    have := h n (by simp)
    simp only [isum, List.foldr_cons]; omega

theorem zip_map_mem {α β : Type} (g : α → β) : ∀ (l : List α) (p : α × β), p ∈ l.zip (l.map g) → p.2 = g p.1
  | [], _, h => by simp at h
  | x :: l, p, h => by
    simp only [List.map_cons, List.zip_cons_cons, List.mem_cons] at h
    rcases h with rfl | h
    · rfl
    · exact zip_map_mem g l p h

/-- **percentile_q0_q100**: wherever q is 0 the pipeline returns the minimum of the data, wherever q is 100 the
    maximum (an element of the data, below / above all others) — exactly, for every chunking, method and sort
    permutation. -/
theorem percentile_q0_q100 (order : Option (List Nat)) (m : Method) (q : List Rat) (chunks : List (List Rat))
    (out : List Rat) (hs : Sorted q) (h : percentile1d order m q chunks = some (some out)) :
    out.length = q.length ∧ ∀ p ∈ q.zip out,
      (p.1 = 0 → p.2 ∈ chunks.flatten ∧ ∀ x ∈ chunks.flatten, p.2 ≤ x) ∧
      (p.1 = 100 → p.2 ∈ chunks.flatten ∧ ∀ x ∈ chunks.flatten, x ≤ p.2) := by
  obtain ⟨hq, ⟨a0, ha0, hne0⟩, hm⟩ := percentile1d_ok h
  obtain ⟨entries, harr, hout⟩ := merge_unfold hm
  have hperm := arrange_perm harr
  change entries.Perm (liveEntries m q chunks) at hperm
  obtain ⟨hsv, _, hlen⟩ := arrange_spec _ _ _ harr
  have hlive_ne : liveEntries m q chunks ≠ [] := List.ne_nil_of_mem (head_entry_mem m q ha0 hne0)
  have hent_ne : entries ≠ [] := fun h0 => hlive_ne (by simpa [h0] using hperm.symm)
  have hcnt : ∀ c ∈ entries.map (·.cnt), 0 ≤ c := by
    intro c hc
    obtain ⟨e, he, rfl⟩ := List.mem_map.mp hc
    exact liveEntries_nonneg hs hq e (hperm.mem_iff.mp he)
  -- abbreviations
  generalize hvals : entries.map (·.val) = vals at hout hsv
  generalize hcq : cumsum 0 (entries.map (·.cnt)) = cq at hout
  generalize htot : ((isum (((chunks.map (chunkInput m (calcQ q))).filter (fun i => i.N != 0)).map (·.N)) : Nat) : Rat) = total at hout
  have hc : Sorted cq := by rw [← hcq]; exact (cumsum_sorted _ 0 hcnt).1
  have hl : vals.length = cq.length := by rw [← hvals, ← hcq, length_cumsum]; simp
  have hpos : 0 < vals.length := by rw [← hvals, List.length_map]; exact List.length_pos_iff.mpr hent_ne
  have hlast : nth cq (cq.length - 1) = 100 * total := by
    rw [← hcq, cumsum_last _ 0 (by simpa using hent_ne), zero_add, (hperm.map (·.cnt)).sum_eq,
      liveEntries_weight, htot]
  have htotpos : 0 < total := by
    rw [← htot]
    have : 0 < isum (((chunks.map (chunkInput m (calcQ q))).filter (fun i => i.N != 0)).map (·.N)) := by
      apply isum_pos
      · intro h0
        exact merge_some_live hm (List.map_eq_nil_iff.mp h0)
      · intro n hn
        obtain ⟨i, hi, rfl⟩ := List.mem_map.mp hn
        simpa using (List.mem_filter.mp hi).2
    exact_mod_cast this
  have hvmem : ∀ v, v ∈ vals ↔ ∃ e ∈ liveEntries m q chunks, e.val = v := by
    intro v; rw [← hvals, List.mem_map]
    constructor
    · rintro ⟨e, he, rfl⟩; exact ⟨e, hperm.mem_iff.mp he, rfl⟩
    · rintro ⟨e, he, rfl⟩; exact ⟨e, hperm.mem_iff.mpr he, rfl⟩
  have c0 : (0 : Rat) ∈ calcQ q := by simp [calcQ]
  have c100 : (100 : Rat) ∈ calcQ q := by simp [calcQ]
  refine ⟨by rw [hout]; simp, ?_⟩
  intro p hp
  rw [hout] at hp
  have hp2 := zip_map_mem _ q p hp
  obtain ⟨Q0, Q100⟩ := q0_q100 hsv hc hl hpos m (p.1 * total)
  constructor
  · intro hp0
    have hsel : p.2 = nth vals 0 := by
      rw [hp2]; apply Q0
      · rw [hp0]; simp
      · rw [hp0, hlast]; linarith
    obtain ⟨fm, fle⟩ := first_is_min hsv hc hl hpos
    rw [hsel]
    -- the first merged value is some chunk's percentile; it is squeezed onto that chunk's minimum
    obtain ⟨e, he, hev⟩ := (hvmem _).mp fm
    obtain ⟨a, ha, hane, ⟨c, hcc, hv⟩, _⟩ := mem_liveEntries he
    obtain ⟨mina_mem, mina_le⟩ := chunk_pct_q0 m a hane
    have hcr := calcQ_range hq c hcc
    have hge : pctSorted m (isort a) 0 ≤ nth vals 0 := by
      rw [← hev, hv]
      exact (chunk_pct_within m a hane hcr.1 hcr.2 _ _ mina_le (chunk_pct_q100 m a hane).2).1
    have hle : nth vals 0 ≤ pctSorted m (isort a) 0 := fle _ ((hvmem _).mpr (val_mem_liveEntries m q ha hane c0))
    have heq : nth vals 0 = pctSorted m (isort a) 0 := le_antisymm hle hge
    refine ⟨by rw [heq]; exact List.mem_flatten.mpr ⟨a, ha, mina_mem⟩, ?_⟩
    intro x hx
    obtain ⟨b, hb, hxb⟩ := List.mem_flatten.mp hx
    have hbne : b ≠ [] := List.ne_nil_of_mem hxb
    exact le_trans (fle _ ((hvmem _).mpr (val_mem_liveEntries m q hb hbne c0))) ((chunk_pct_q0 m b hbne).2 x hxb)
  · intro hp100
    have hsel : p.2 = nth vals (vals.length - 1) := by
      rw [hp2]; apply Q100
      rw [hp100, hlast]
    obtain ⟨lm, lle⟩ := last_is_max hsv hc hl hpos
    rw [hsel]
    obtain ⟨e, he, hev⟩ := (hvmem _).mp lm
    obtain ⟨a, ha, hane, ⟨c, hcc, hv⟩, _⟩ := mem_liveEntries he
    obtain ⟨maxa_mem, maxa_le⟩ := chunk_pct_q100 m a hane
    have hcr := calcQ_range hq c hcc
    have hle : nth vals (vals.length - 1) ≤ pctSorted m (isort a) 100 := by
      rw [← hev, hv]
      exact (chunk_pct_within m a hane hcr.1 hcr.2 _ _ (chunk_pct_q0 m a hane).2 maxa_le).2
    have hge : pctSorted m (isort a) 100 ≤ nth vals (vals.length - 1) :=
      lle _ ((hvmem _).mpr (val_mem_liveEntries m q ha hane c100))
    have heq : nth vals (vals.length - 1) = pctSorted m (isort a) 100 := le_antisymm hle hge
    refine ⟨by rw [heq]; exact List.mem_flatten.mpr ⟨a, ha, maxa_mem⟩, ?_⟩
    intro x hx
    obtain ⟨b, hb, hxb⟩ := List.mem_flatten.mp hx
    have hbne : b ≠ [] := List.ne_nil_of_mem hxb
    exact le_trans ((chunk_pct_q100 m b hbne).2 x hxb) (lle _ ((hvmem _).mpr (val_mem_liveEntries m q hb hbne c100)))

/-- **The 1-d clauses of C32 about the data itself**: a run of `da.percentile` (sorted q) that returns values returns
    one per q, each between any bounds of the data, non-decreasing in q, the data's minimum wherever q = 0 and its
    maximum wherever q = 100. -/
theorem percentile_1d_statement (order : Option (List Nat)) (m : Method) (q : List Rat) (chunks : List (List Rat))
    (out : List Rat) (hs : Sorted q) (h : percentile1d order m q chunks = some (some out)) :
    out.length = q.length ∧
    (∀ lo hi : Rat, (∀ x ∈ chunks.flatten, lo ≤ x) → (∀ x ∈ chunks.flatten, x ≤ hi) → ∀ r ∈ out, lo ≤ r ∧ r ≤ hi) ∧
    Sorted out ∧
    (∀ p ∈ q.zip out, (p.1 = 0 → p.2 ∈ chunks.flatten ∧ ∀ x ∈ chunks.flatten, p.2 ≤ x) ∧
                      (p.1 = 100 → p.2 ∈ chunks.flatten ∧ ∀ x ∈ chunks.flatten, x ≤ p.2)) :=
  ⟨(percentile_q0_q100 order m q chunks out hs h).1,
   fun lo hi hlo hhi => percentile_within_data order m q chunks out hs h lo hi hlo hhi,
   percentile_monotone order m q chunks out hs h,
   (percentile_q0_q100 order m q chunks out hs h).2⟩

/-! ## non-vacuity -/

/-- 5 elements in blocks (2, 0, 3): q = [0, 50, 100] with `midpoint` gives min, 4, max (as dask does) -/
example : percentile1d none .midpoint [0, 50, 100] [[3, 1], [], [2, 7, 5]] = some (some [1, 4, 7]) := by
  decide +kernel

/-- NumPy's `nearest` rounds the virtual index half to even: 12.5 % and 37.5 % of five elements -/
example : (chunkInput .nearest [0, 25/2, 75/2, 100] [3, 1, 2, 7, 5]).v = [1, 1, 3, 7] := by decide +kernel

example : percentile1d none .linear [50, 101] [[1, 2]] = some none := by decide +kernel
example : percentile1d none .linear [50] [[], []] = some none := by decide +kernel

end Dask.C32xData
