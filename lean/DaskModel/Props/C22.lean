import DaskModel.Lemmas.ArrayReduce
import DaskModel.Lemmas.BlockScan
import DaskModel.Lemmas.BlellochAll
import DaskModel.Lemmas.TopK
import DaskModel.Lemmas.GridReduce
import DaskModel.Lemmas.TreeDepth
import DaskModel.Lemmas.Moment
import Mathlib.Tactic.SplitIfs
/-!
# C22 — array reductions and scans equal NumPy for every chunking and `split_every`

Full statement (for the modelled logic): for every blocking of the data, every `split_every = k`, every
`depth` with `n ≤ k ^ depth` (dask's float formula is checked to satisfy this), the tree of
`chunk → combine* → aggregate` returns one block whose value is NumPy's reduction of the concatenated
data; sequential and Blelloch scans return the global scan.  What is proved here:

* K1 `treeReduce_eq_fold` (in `Lemmas/ArrayReduce.lean`) and `split_every_irrelevant`;
* `*_eq_numpy` for sum, prod, any, all, min, max, mean-as-(total, n) — exact integer algebra;
* the arg-reduction merge is a semigroup (`hom_argCombine`), so tie-breaking does not depend on the tree;
  `argmin/argmax_eq_numpy_all` (first flat index, empty blocks included), `topk_eq_sort_take`;
* several axes at once: `gridReduce_eq_fold` (commutative monoid) and its instances `sum/prod/any/all/mean_nd_eq_numpy`;
  `min_nd_eq_numpy` / `max_nd_eq_numpy` via `gridReduce_mapGrid` (the grid tree commutes with a map of the partials
  along which combine/aggregate are natural: `Option Int` with `omerge` ↪ dask's 0/1-element partial arrays);
* K2: sequential and Blelloch scans (`cumsum/cumprod_*_eq_numpy`, `blelloch_schedule_ok` for every `n`).
* the depth loop of `_tree_reduce` itself: `axesOk_treeDepth` (the depth it computes satisfies `n_i ≤ k_i ^ depth` on every
  reduced axis), `treeDepth_least`, `sum_nd_dask_depth` / `nd_tree_dask_depth` / `tree_dask_depth` (the theorems with dask's
  own depth — or any larger one — and no side condition left), `treeDepthLast_refuted` (depth from the last axis only);
* var / std / moment(order 2): `var_eq_numpy` (the Chan–Pébay merge of `moment_combine` over ℚ = the two-pass formula, empty
  blocks included, `none` iff `n ≤ ddof`), `nanvar_eq_numpy`, `var_chunking_irrelevant` (1-d / one reduced axis per kept cell);
* `nansum/nanprod/nanmin/nanmax/nanmean_eq_numpy` (NaN = `none`, dropped block by block);
Not proved (validated by the correspondence check): float round-off, moments of order ≥ 3, var over several axes at once, nanstd/nanarg*/nancumsum,
arg-reductions over several axes, median/quantile glue.
-/
namespace Dask.C22
open Dask.ArrayReduce

variable {α β γ : Type}

theorem mapM_some (c : α → β) (xs : List α) : xs.mapM (fun x => some (c x)) = some (xs.map c) := by
  induction xs with
  | nil => rfl
  | cons x xs ih => simp [List.mapM_cons, ih]

/-- A reduction whose chunk function is total returns exactly one block, `aggregate` of the
    per-block partial results, whatever `k` and `depth` (with `n ≤ k ^ depth`). -/
theorem run1_eq (r : Red α β γ) (c : List α → β) (hc : r.chunk = fun b => some (c b))
    (Hc : Hom r.combine r.combine) (Ha : Hom r.combine r.aggregate)
    (k depth : Nat) (hk : k ≠ 0) (blocks : List (List α)) (hne : blocks ≠ [])
    (hd : blocks.length ≤ k ^ depth) :
    r.run1 k depth blocks = some [r.aggregate (blocks.map c)] := by
  unfold Red.run1
  rw [hc, mapM_some]
  simp only [Option.map_some]
  rw [treeReduce_eq_fold r.combine r.aggregate Hc Ha k depth hk _ (by simpa using hne) (by simpa using hd)]

/-- **The result does not depend on `split_every`** (nor on the depth dask happens to compute). -/
theorem split_every_irrelevant (r : Red α β γ) (c : List α → β) (hc : r.chunk = fun b => some (c b))
    (Hc : Hom r.combine r.combine) (Ha : Hom r.combine r.aggregate)
    (k d k' d' : Nat) (hk : k ≠ 0) (hk' : k' ≠ 0) (blocks : List (List α)) (hne : blocks ≠ [])
    (hd : blocks.length ≤ k ^ d) (hd' : blocks.length ≤ k' ^ d') :
    r.run1 k d blocks = r.run1 k' d' blocks := by
  rw [run1_eq r c hc Hc Ha k d hk blocks hne hd, run1_eq r c hc Hc Ha k' d' hk' blocks hne hd']

/-! ## sum / prod / any / all -/

theorem isum_monoid : IsMonoid (fun a b : Int => a + b) 0 := ⟨Int.add_assoc, Int.zero_add, Int.add_zero⟩
theorem iprod_monoid : IsMonoid (fun a b : Int => a * b) 1 := ⟨Int.mul_assoc, Int.one_mul, Int.mul_one⟩
theorem bor_monoid : IsMonoid (fun a b : Bool => a || b) false :=
  ⟨by intro a b c; cases a <;> cases b <;> cases c <;> rfl, by intro a; rfl, by intro a; cases a <;> rfl⟩
theorem band_monoid : IsMonoid (fun a b : Bool => a && b) true :=
  ⟨by intro a b c; cases a <;> cases b <;> cases c <;> rfl, by intro a; rfl, by intro a; cases a <;> rfl⟩

theorem hom_isum : Hom isum isum := hom_monoid isum_monoid
theorem hom_iprod : Hom iprod iprod := hom_monoid iprod_monoid
theorem hom_bor : Hom bor bor := hom_monoid bor_monoid
theorem hom_band : Hom band band := hom_monoid band_monoid

theorem foldr_flatten_monoid {op : β → β → β} {e : β} (h : IsMonoid op e) (gs : List (List β)) :
    (gs.map (fun g => g.foldr op e)).foldr op e = gs.flatten.foldr op e := by
  induction gs with
  | nil => rfl
  | cons g gs ih =>
    simp only [List.map_cons, List.foldr_cons, List.flatten_cons, List.foldr_append, ih]
    generalize gs.flatten.foldr op e = t
    induction g with
    | nil => simp [h.id_left]
    | cons x xs ihx => simp only [List.foldr_cons, h.assoc, ihx]

theorem isum_flatten (gs : List (List Int)) : isum (gs.map isum) = isum gs.flatten :=
  foldr_flatten_monoid isum_monoid gs
theorem iprod_flatten (gs : List (List Int)) : iprod (gs.map iprod) = iprod gs.flatten :=
  foldr_flatten_monoid iprod_monoid gs
theorem bor_flatten (gs : List (List Bool)) : bor (gs.map bor) = bor gs.flatten :=
  foldr_flatten_monoid bor_monoid gs
theorem band_flatten (gs : List (List Bool)) : band (gs.map band) = band gs.flatten :=
  foldr_flatten_monoid band_monoid gs

/-- `da.sum` = `np.sum` of the concatenated data, for every blocking (empty blocks allowed), `k`, depth. -/
theorem sum_eq_numpy (k depth : Nat) (hk : k ≠ 0) (blocks : List (List Int)) (hne : blocks ≠ [])
    (hd : blocks.length ≤ k ^ depth) :
    redSum.run1 k depth blocks = some [isum blocks.flatten] := by
  rw [run1_eq redSum isum rfl hom_isum hom_isum k depth hk blocks hne hd]
  exact congrArg (fun v => some [v]) (isum_flatten blocks)

theorem prod_eq_numpy (k depth : Nat) (hk : k ≠ 0) (blocks : List (List Int)) (hne : blocks ≠ [])
    (hd : blocks.length ≤ k ^ depth) :
    redProd.run1 k depth blocks = some [iprod blocks.flatten] := by
  rw [run1_eq redProd iprod rfl hom_iprod hom_iprod k depth hk blocks hne hd]
  exact congrArg (fun v => some [v]) (iprod_flatten blocks)

theorem any_eq_numpy (k depth : Nat) (hk : k ≠ 0) (blocks : List (List Int)) (hne : blocks ≠ [])
    (hd : blocks.length ≤ k ^ depth) :
    redAny.run1 k depth blocks = some [bor (blocks.flatten.map (· != 0))] := by
  rw [run1_eq redAny (fun b => bor (b.map (· != 0))) rfl hom_bor hom_bor k depth hk blocks hne hd]
  have := bor_flatten (blocks.map (List.map (· != 0)))
  simp only [List.map_map, ← List.map_flatten] at this
  exact congrArg (fun v => some [v]) this

theorem all_eq_numpy (k depth : Nat) (hk : k ≠ 0) (blocks : List (List Int)) (hne : blocks ≠ [])
    (hd : blocks.length ≤ k ^ depth) :
    redAll.run1 k depth blocks = some [band (blocks.flatten.map (· != 0))] := by
  rw [run1_eq redAll (fun b => band (b.map (· != 0))) rfl hom_band hom_band k depth hk blocks hne hd]
  have := band_flatten (blocks.map (List.map (· != 0)))
  simp only [List.map_map, ← List.map_flatten] at this
  exact congrArg (fun v => some [v]) this

/-! ## mean as `(total, n)` -/

theorem hom_mean : Hom redMean.combine redMean.combine := by
  intro gs _ _
  show (isum ((gs.map redMean.combine).map (·.1)), isum ((gs.map redMean.combine).map (·.2)))
      = (isum (gs.flatten.map (·.1)), isum (gs.flatten.map (·.2)))
  have h1 : (gs.map redMean.combine).map (·.1) = (gs.map (List.map (·.1))).map isum := by
    simp [redMean, List.map_map, Function.comp_def]
  have h2 : (gs.map redMean.combine).map (·.2) = (gs.map (List.map (·.2))).map isum := by
    simp [redMean, List.map_map, Function.comp_def]
  rw [h1, h2, isum_flatten, isum_flatten, ← List.map_flatten, ← List.map_flatten]

theorem isum_lengths (blocks : List (List Int)) :
    isum (blocks.map (fun b => (b.length : Int))) = (blocks.flatten.length : Int) := by
  induction blocks with
  | nil => rfl
  | cons b bs ih =>
    have : isum ((b :: bs).map fun b => (b.length : Int)) = (b.length : Int) + isum (bs.map fun b => (b.length : Int)) := rfl
    rw [this, ih]; simp

/-- `da.mean`: the tree delivers `(Σ data, #data)`; the quotient is NumPy's mean (exact rational). -/
theorem mean_eq_numpy (k depth : Nat) (hk : k ≠ 0) (blocks : List (List Int)) (hne : blocks ≠ [])
    (hd : blocks.length ≤ k ^ depth) :
    redMean.run1 k depth blocks = some [(isum blocks.flatten, (blocks.flatten.length : Int))] := by
  rw [run1_eq redMean (fun b => (isum b, (b.length : Int))) rfl hom_mean hom_mean k depth hk blocks hne hd]
  have e1 : isum (blocks.map isum) = isum blocks.flatten := isum_flatten blocks
  have e2 := isum_lengths blocks
  simp only [redMean, List.map_map, Function.comp_def, e1, e2]

/-- non-vacuity: irregular blocks with an empty one, `k = 2`, three levels -/
example : redSum.run1 2 3 [[1, 2], [3], [4, 5, 6], [], [7]] = some [28] :=
  sum_eq_numpy 2 3 (by decide) _ (by simp) (by decide)
example : redMean.run1 2 2 [[1, 2], [], [3]] = some [(6, 3)] :=
  mean_eq_numpy 2 2 (by decide) _ (by simp) (by decide)

/-! ## min / max (with dask's empty-chunk rule) -/

/-- fold of a non-empty list, `none` for `[]` (`imin? = optFold min`, `imax? = optFold max`,
    `argCombine lt = optFold (better lt)`) -/
def optFold {α : Type} (op : α → α → α) : List α → Option α
  | [] => none
  | x :: xs => some (xs.foldl op x)

def omerge {α : Type} (op : α → α → α) : Option α → Option α → Option α
  | none, b => b
  | a, none => a
  | some a, some b => some (op a b)

theorem imin?_eq : imin? = optFold min := by funext xs; cases xs <;> rfl
theorem imax?_eq : imax? = optFold max := by funext xs; cases xs <;> rfl

theorem optFold_append {α : Type} (op : α → α → α) (assoc : ∀ a b c, op (op a b) c = op a (op b c))
    (xs ys : List α) : optFold op (xs ++ ys) = omerge op (optFold op xs) (optFold op ys) := by
  cases xs with
  | nil =>
    show optFold op ys = omerge op none (optFold op ys)
    cases optFold op ys <;> rfl
  | cons x xs =>
    cases ys with
    | nil => simp [optFold, omerge]
    | cons y ys =>
      simp only [optFold, omerge, List.cons_append, List.foldl_append, List.foldl_cons]
      rw [foldl_assoc op assoc]

theorem optFold_toList {α : Type} (op : α → α → α) (xs : List α) :
    optFold op (optFold op xs).toList = optFold op xs := by
  cases xs <;> simp [optFold]

/-- dropping to per-group results first does not change the result (empty groups contribute nothing) -/
theorem optFold_parts {α : Type} (op : α → α → α) (assoc : ∀ a b c, op (op a b) c = op a (op b c))
    (ls : List (List α)) :
    optFold op ((ls.map fun l => (optFold op l).toList).flatten) = optFold op ls.flatten := by
  induction ls with
  | nil => rfl
  | cons l ls ih =>
    simp only [List.map_cons, List.flatten_cons]
    rw [optFold_append op assoc, optFold_append op assoc, ih, optFold_toList]

theorem hom_minmax {α : Type} (op : α → α → α) (assoc : ∀ a b c, op (op a b) c = op a (op b c)) :
    Hom (fun ps : List (List α) => (optFold op ps.flatten).toList)
        (fun ps : List (List α) => (optFold op ps.flatten).toList) ∧
    Hom (fun ps : List (List α) => (optFold op ps.flatten).toList)
        (fun ps : List (List α) => optFold op ps.flatten) := by
  constructor
  · intro gs _ _
    show (optFold op ((gs.map fun g => (optFold op g.flatten).toList).flatten)).toList = _
    have := optFold_parts op assoc (gs.map List.flatten)
    simp only [List.map_map, Function.comp_def] at this
    rw [this]
    show (optFold op (gs.map List.flatten).flatten).toList = (optFold op gs.flatten.flatten).toList
    rw [List.flatten_flatten]
  · intro gs _ _
    show optFold op ((gs.map fun g => (optFold op g.flatten).toList).flatten) = _
    have := optFold_parts op assoc (gs.map List.flatten)
    simp only [List.map_map, Function.comp_def] at this
    rw [this]
    show optFold op (gs.map List.flatten).flatten = optFold op gs.flatten.flatten
    rw [List.flatten_flatten]

/-- `da.min` = `np.min` of the concatenated data for every blocking — blocks may be empty (dask's
    `chunk_min` rule); the result is `none` (NumPy raises) exactly when there is no data at all. -/
theorem min_eq_numpy (k depth : Nat) (hk : k ≠ 0) (blocks : List (List Int)) (hne : blocks ≠ [])
    (hd : blocks.length ≤ k ^ depth) :
    redMin.run1 k depth blocks = some [imin? blocks.flatten] := by
  obtain ⟨h1, h2⟩ := hom_minmax min (fun a b c => Int.min_assoc a b c)
  have e : redMin = ⟨fun b => some ((optFold min b).toList), fun ps => (optFold min ps.flatten).toList,
      fun ps => optFold min ps.flatten⟩ := by
    simp [redMin, minPart, imin?_eq]
  rw [e, run1_eq _ (fun b => (optFold min b).toList) rfl h1 h2 k depth hk blocks hne hd]
  show some [optFold min ((blocks.map fun b => (optFold min b).toList).flatten)] = _
  rw [optFold_parts min (fun a b c => Int.min_assoc a b c), imin?_eq]

theorem max_eq_numpy (k depth : Nat) (hk : k ≠ 0) (blocks : List (List Int)) (hne : blocks ≠ [])
    (hd : blocks.length ≤ k ^ depth) :
    redMax.run1 k depth blocks = some [imax? blocks.flatten] := by
  obtain ⟨h1, h2⟩ := hom_minmax max (fun a b c => Int.max_assoc a b c)
  have e : redMax = ⟨fun b => some ((optFold max b).toList), fun ps => (optFold max ps.flatten).toList,
      fun ps => optFold max ps.flatten⟩ := by
    simp [redMax, maxPart, imax?_eq]
  rw [e, run1_eq _ (fun b => (optFold max b).toList) rfl h1 h2 k depth hk blocks hne hd]
  show some [optFold max ((blocks.map fun b => (optFold max b).toList).flatten)] = _
  rw [optFold_parts max (fun a b c => Int.max_assoc a b c), imax?_eq]

/-- non-vacuity: an empty block in the middle; an all-empty array raises -/
example : redMin.run1 2 2 [[4, 2], [], [7]] = some [some 2] :=
  min_eq_numpy 2 2 (by decide) _ (by simp) (by decide)
example : redMin.run1 2 1 [[], []] = some [none] :=
  min_eq_numpy 2 1 (by decide) _ (by simp) (by decide)

/-- an empty block has no candidate (its partial result is empty and dropped by the concatenation) -/
theorem arg_empty_block_no_candidate (lt : Int → Int → Bool) (bs off tot : List Nat) :
    (argChunk lt bs off tot []).toList = [] := rfl

/-! ## arg-reductions: first occurrence of the extremum, for every chunking (1-d / raveled order) -/

/-- the merge used by `_arg_combine` (after the tie fix): better value, or equal value and smaller index -/
def better (lt : Int → Int → Bool) (b q : Int × Nat) : Int × Nat :=
  if lt q.1 b.1 || (q.1 == b.1 && decide (q.2 < b.2)) then q else b

theorem argCombine_cons (lt : Int → Int → Bool) (p : Int × Nat) (ps : List (Int × Nat)) :
    argCombine lt (p :: ps) = some (ps.foldl (better lt) p) := rfl

def ltMin : Int → Int → Bool := fun a b => decide (a < b)
def ltMax : Int → Int → Bool := fun a b => decide (a > b)

theorem better_assoc_min (a b c : Int × Nat) :
    better ltMin (better ltMin a b) c = better ltMin a (better ltMin b c) := by
  obtain ⟨a1, a2⟩ := a; obtain ⟨b1, b2⟩ := b; obtain ⟨c1, c2⟩ := c
  simp only [better, ltMin, Bool.or_eq_true, Bool.and_eq_true, decide_eq_true_eq, beq_iff_eq]
  split_ifs <;> simp only [Prod.mk.injEq] <;> omega

theorem better_assoc_max (a b c : Int × Nat) :
    better ltMax (better ltMax a b) c = better ltMax a (better ltMax b c) := by
  obtain ⟨a1, a2⟩ := a; obtain ⟨b1, b2⟩ := b; obtain ⟨c1, c2⟩ := c
  simp only [better, ltMax, Bool.or_eq_true, Bool.and_eq_true, decide_eq_true_eq, beq_iff_eq, gt_iff_lt]
  split_ifs <;> simp only [Prod.mk.injEq] <;> omega

/-- the combine/aggregate function of the arg tree as the driver runs it -/
def argComb (lt : Int → Int → Bool) (ps : List (Int × Nat)) : Int × Nat := (argCombine lt ps).getD (0, 0)

theorem argComb_eq_sfold (lt : Int → Int → Bool) : argComb lt = sfold (better lt) (0, 0) := by
  funext ps; cases ps <;> rfl

/-- the arg merge is a semigroup fold: the winner does not depend on how the tree groups the candidates -/
theorem hom_argComb_min : Hom (argComb ltMin) (argComb ltMin) := by
  rw [argComb_eq_sfold]; exact hom_sfold _ _ better_assoc_min
theorem hom_argComb_max : Hom (argComb ltMax) (argComb ltMax) := by
  rw [argComb_eq_sfold]; exact hom_sfold _ _ better_assoc_max

/-- candidates of a block: its elements with their global indices -/
def enumFrom (k : Nat) : List Int → List (Int × Nat)
  | [] => []
  | x :: xs => (x, k) :: enumFrom (k + 1) xs

theorem enumFrom_append (k : Nat) (xs ys : List Int) :
    enumFrom k (xs ++ ys) = enumFrom k xs ++ enumFrom (k + xs.length) ys := by
  induction xs generalizing k with
  | nil => simp [enumFrom]
  | cons x xs ih => simp only [List.cons_append, enumFrom, ih, List.length_cons]; congr 3; omega

/-- `argBest` (NumPy's argmin/argmax on one block: strict improvement only, so the first occurrence wins)
    is the `better`-fold over the indexed elements -/
theorem argBest_go_eq (lt : Int → Int → Bool) :
    ∀ (ys : List Int) (best : Int) (bi i : Nat), bi < i →
      argBest.go lt best bi i ys = (enumFrom i ys).foldl (better lt) (best, bi) ∧
      (argBest.go lt best bi i ys).2 < i + ys.length := by
  intro ys
  induction ys with
  | nil => intro best bi i h; exact ⟨rfl, by simpa [argBest.go] using h⟩
  | cons y ys ih =>
    intro best bi i h
    simp only [argBest.go, enumFrom, List.foldl_cons, List.length_cons]
    by_cases hlt : lt y best = true
    · have hb : better lt (best, bi) (y, i) = (y, i) := by simp [better, hlt]
      rw [if_pos hlt, hb]
      obtain ⟨h1, h2⟩ := ih y i (i + 1) (by omega)
      exact ⟨h1, by omega⟩
    · have hb : better lt (best, bi) (y, i) = (best, bi) := by
        have : ¬ (i < bi) := by omega
        simp [better, hlt, this]
      rw [if_neg hlt, hb]
      obtain ⟨h1, h2⟩ := ih best bi (i + 1) (by omega)
      exact ⟨h1, by omega⟩

theorem argBest_eq (lt : Int → Int → Bool) (xs : List Int) :
    argBest lt xs = argCombine lt (enumFrom 0 xs) := by
  cases xs with
  | nil => rfl
  | cons x xs =>
    simp only [argBest, enumFrom, argCombine_cons]
    exact congrArg some (argBest_go_eq lt xs x 0 1 (by omega)).1

/-- shifting all indices by `off` commutes with the merge -/
theorem foldl_better_shift (lt : Int → Int → Bool) (off : Nat) :
    ∀ (ys : List Int) (b : Int × Nat) (i : Nat),
      (enumFrom (off + i) ys).foldl (better lt) (b.1, off + b.2)
        = (((enumFrom i ys).foldl (better lt) b).1, off + ((enumFrom i ys).foldl (better lt) b).2) := by
  intro ys
  induction ys with
  | nil => intro b i; rfl
  | cons y ys ih =>
    intro b i
    simp only [enumFrom, List.foldl_cons]
    have hb : better lt (b.1, off + b.2) (y, off + i) = ((better lt b (y, i)).1, off + (better lt b (y, i)).2) := by
      unfold better
      have : (off + i < off + b.2) = (i < b.2) := by simp
      simp only [this]
      split <;> rfl
    rw [hb, show off + i + 1 = off + (i + 1) by omega]
    exact ih (better lt b (y, i)) (i + 1)

/-- `arg_chunk` on a 1-d block at offset `off`: value and *global* index of the block's first extremum -/
def argChunk1 (lt : Int → Int → Bool) (off : Nat) (b : List Int) : Option (Int × Nat) :=
  (argBest lt b).map fun p => (p.1, off + p.2)

theorem argChunk1_eq (lt : Int → Int → Bool) (off : Nat) (b : List Int) :
    argChunk1 lt off b = argCombine lt (enumFrom off b) := by
  cases b with
  | nil => rfl
  | cons x xs =>
    simp only [argChunk1, argBest_eq, enumFrom, argCombine_cons, Option.map_some]
    have := foldl_better_shift lt off xs (x, 0) 1
    simp only [Nat.add_zero] at this
    rw [show off + 1 = off + 1 from rfl] at this
    exact congrArg some this.symm

/-- the model's `arg_chunk` (with `unravel`/`ravel_multi_index` offsets) is that function for 1-d arrays -/
theorem argChunk_1d (lt : Int → Int → Bool) (off n : Nat) (b : List Int) :
    argChunk lt [b.length] [off] [n] b = argChunk1 lt off b := by
  unfold argChunk argChunk1
  congr 1
  funext p
  simp [unravel, ravel, Nat.add_comm]

/-- the indexed elements of every block (running offsets) -/
def cands : Nat → List (List Int) → List (List (Int × Nat))
  | _, [] => []
  | off, b :: bs => enumFrom off b :: cands (off + b.length) bs

/-- the per-block partial results `arg_chunk` produces (blocks are non-empty, see `argChunk1_isSome`) -/
def blockParts (lt : Int → Int → Bool) : Nat → List (List Int) → List (Int × Nat)
  | _, [] => []
  | off, b :: bs => (argChunk1 lt off b).getD (0, 0) :: blockParts lt (off + b.length) bs

theorem argChunk1_isSome (lt : Int → Int → Bool) (off : Nat) (b : List Int) (h : b ≠ []) :
    (argChunk1 lt off b).isSome = true := by
  cases b with
  | nil => exact absurd rfl h
  | cons x xs => simp [argChunk1, argBest]

theorem blockParts_eq (lt : Int → Int → Bool) (off : Nat) (blocks : List (List Int)) :
    blockParts lt off blocks = (cands off blocks).map (argComb lt) := by
  induction blocks generalizing off with
  | nil => rfl
  | cons b bs ih => simp only [blockParts, cands, List.map_cons, ih, argChunk1_eq, argComb]

theorem cands_flatten (off : Nat) (blocks : List (List Int)) :
    (cands off blocks).flatten = enumFrom off blocks.flatten := by
  induction blocks generalizing off with
  | nil => rfl
  | cons b bs ih => simp only [cands, List.flatten_cons, ih, enumFrom_append]

theorem cands_ne_nil (off : Nat) (blocks : List (List Int)) (h : ∀ b ∈ blocks, b ≠ []) :
    ∀ g ∈ cands off blocks, g ≠ [] := by
  induction blocks generalizing off with
  | nil => simp [cands]
  | cons b bs ih =>
    intro g hg
    simp only [cands, List.mem_cons] at hg
    rcases hg with rfl | hg
    · have := h b (by simp)
      cases b with
      | nil => exact absurd rfl this
      | cons x xs => simp [enumFrom]
    · exact ih (off + b.length) (fun x hx => h x (by simp [hx])) g hg

theorem length_cands (off : Nat) (blocks : List (List Int)) : (cands off blocks).length = blocks.length := by
  induction blocks generalizing off with
  | nil => rfl
  | cons b bs ih => simp [cands, ih]

/-- generic form: any `lt` whose merge is associative -/
theorem argreduce_den (lt : Int → Int → Bool) (hH : Hom (argComb lt) (argComb lt))
    (k depth : Nat) (hk : k ≠ 0) (blocks : List (List Int)) (hne : blocks ≠ [])
    (hnb : ∀ b ∈ blocks, b ≠ []) (hd : blocks.length ≤ k ^ depth) :
    treeReduce (argComb lt) (argComb lt) k depth (blockParts lt 0 blocks)
      = [(argBest lt blocks.flatten).getD (0, 0)] := by
  have hcne : cands 0 blocks ≠ [] := by
    intro h; have := congrArg List.length h; rw [length_cands] at this; cases blocks <;> simp_all
  rw [blockParts_eq, treeReduce_eq_fold _ _ hH hH k depth hk _ (by simpa using hcne)
    (by rw [List.length_map, length_cands]; exact hd)]
  rw [hH _ hcne (cands_ne_nil 0 blocks hnb), cands_flatten, argBest_eq]
  rfl

/-- **argreduce_den** (1-d / raveled order): for every blocking into non-empty blocks, every `k` and valid
    depth, `argmin` returns the value and the **first** global index of the minimum — `np.argmin` of the
    concatenated data; likewise `argmax`. -/
theorem argmin_eq_numpy (k depth : Nat) (hk : k ≠ 0) (blocks : List (List Int)) (hne : blocks ≠ [])
    (hnb : ∀ b ∈ blocks, b ≠ []) (hd : blocks.length ≤ k ^ depth) :
    treeReduce (argComb ltMin) (argComb ltMin) k depth (blockParts ltMin 0 blocks)
      = [(argBest ltMin blocks.flatten).getD (0, 0)] :=
  argreduce_den ltMin hom_argComb_min k depth hk blocks hne hnb hd

theorem argmax_eq_numpy (k depth : Nat) (hk : k ≠ 0) (blocks : List (List Int)) (hne : blocks ≠ [])
    (hnb : ∀ b ∈ blocks, b ≠ []) (hd : blocks.length ≤ k ^ depth) :
    treeReduce (argComb ltMax) (argComb ltMax) k depth (blockParts ltMax 0 blocks)
      = [(argBest ltMax blocks.flatten).getD (0, 0)] :=
  argreduce_den ltMax hom_argComb_max k depth hk blocks hne hnb hd

/-! ### …and with empty blocks (the code after the `arg_chunk` empty-block fix) -/

theorem argCombine_eq_optFold (lt : Int → Int → Bool) : argCombine lt = optFold (better lt) := by
  funext ps; cases ps <;> rfl

/-- per-block partial results: at most one candidate, none for an empty block -/
def argPartsL (lt : Int → Int → Bool) : Nat → List (List Int) → List (List (Int × Nat))
  | _, [] => []
  | off, b :: bs => (argChunk1 lt off b).toList :: argPartsL lt (off + b.length) bs

theorem argPartsL_eq (lt : Int → Int → Bool) (off : Nat) (blocks : List (List Int)) :
    argPartsL lt off blocks = (cands off blocks).map fun c => (optFold (better lt) c).toList := by
  induction blocks generalizing off with
  | nil => rfl
  | cons b bs ih => simp only [argPartsL, cands, List.map_cons, ih, argChunk1_eq, argCombine_eq_optFold]

/-- **arg-reductions for every blocking, empty blocks included**: the tree returns the value and FIRST global
    index of the extremum of the concatenated data, or raises (`none`) iff there is no data at all. -/
theorem arg_eq_numpy_all (lt : Int → Int → Bool)
    (assoc : ∀ a b c, better lt (better lt a b) c = better lt a (better lt b c))
    (k depth : Nat) (hk : k ≠ 0) (blocks : List (List Int)) (hne : blocks ≠ [])
    (hd : blocks.length ≤ k ^ depth) :
    treeReduce (argCombL lt) (argAggL lt) k depth (argPartsL lt 0 blocks) = [argBest lt blocks.flatten] := by
  obtain ⟨h1, h2⟩ := hom_minmax (better lt) assoc
  have e1 : argCombL lt = fun ps => (optFold (better lt) ps.flatten).toList := by
    funext ps; simp [argCombL, argCombine_eq_optFold]
  have e2 : argAggL lt = fun ps => optFold (better lt) ps.flatten := by
    funext ps; simp [argAggL, argCombine_eq_optFold]
  have hlen : (argPartsL lt 0 blocks).length = blocks.length := by
    rw [argPartsL_eq, List.length_map, length_cands]
  rw [e1, e2, treeReduce_eq_fold _ _ h1 h2 k depth hk _
    (by intro h; rw [h] at hlen; cases blocks <;> simp_all) (by rw [hlen]; exact hd)]
  congr 1
  rw [argPartsL_eq, optFold_parts (better lt) assoc, cands_flatten, ← argCombine_eq_optFold, argBest_eq]

theorem argmin_eq_numpy_all (k depth : Nat) (hk : k ≠ 0) (blocks : List (List Int)) (hne : blocks ≠ [])
    (hd : blocks.length ≤ k ^ depth) :
    treeReduce (argCombL ltMin) (argAggL ltMin) k depth (argPartsL ltMin 0 blocks) = [argBest ltMin blocks.flatten] :=
  arg_eq_numpy_all ltMin better_assoc_min k depth hk blocks hne hd

theorem argmax_eq_numpy_all (k depth : Nat) (hk : k ≠ 0) (blocks : List (List Int)) (hne : blocks ≠ [])
    (hd : blocks.length ≤ k ^ depth) :
    treeReduce (argCombL ltMax) (argAggL ltMax) k depth (argPartsL ltMax 0 blocks) = [argBest ltMax blocks.flatten] :=
  arg_eq_numpy_all ltMax better_assoc_max k depth hk blocks hne hd

/-- `argBest` really is "first index of the minimum": ties keep the earlier index -/
example : argBest ltMin [3, 1, 2, 1] = some (1, 1) ∧ argBest ltMax [3, 1, 3] = some (3, 0) := by decide

/-! ## top-k -/

theorem topkPart_parts (k : Int) (ls : List (List Int)) :
    topkPart k ((ls.map (topkPart k)).flatten) = topkPart k ls.flatten := by
  unfold topkPart
  split
  · exact topk_parts desc_order k.toNat ls
  · exact topk_parts asc_order (-k).toNat ls

theorem hom_topk (k : Int) : Hom (redTopk k).combine (redTopk k).combine := by
  intro gs _ _
  show topkPart k ((gs.map fun g => topkPart k g.flatten).flatten) = topkPart k gs.flatten.flatten
  have := topkPart_parts k (gs.map List.flatten)
  simp only [List.map_map, Function.comp_def] at this
  rw [this, List.flatten_flatten]

/-- **topk_eq_sort_take**: `da.topk(x, k)` = the `k` largest (`k > 0`, descending) / `-k` smallest (`k < 0`,
    ascending) elements of the whole array, for every blocking, `split_every` and valid depth. -/
theorem topk_eq_sort_take (k : Int) (kk depth : Nat) (hk : kk ≠ 0) (blocks : List (List Int)) (hne : blocks ≠ [])
    (hd : blocks.length ≤ kk ^ depth) :
    (redTopk k).run1 kk depth blocks = some [topkPart k blocks.flatten] := by
  rw [run1_eq (redTopk k) (topkPart k) rfl (hom_topk k) (hom_topk k) kk depth hk blocks hne hd]
  show some [topkPart k ((blocks.map (topkPart k)).flatten)] = _
  rw [topkPart_parts]

example : (redTopk 2).run1 2 2 [[4, 2], [9], [7, 1]] = some [[9, 7]] := by
  rw [topk_eq_sort_take 2 2 2 (by decide) _ (by simp) (by decide)]; decide
example : (redTopk (-2)).run1 2 2 [[4, 2], [9], [7, 1]] = some [[1, 2]] := by
  rw [topk_eq_sort_take (-2) 2 2 (by decide) _ (by simp) (by decide)]; decide

/-! ## n-d: reductions over several axes at once -/

theorem isum_comm : IsCommMonoid (fun a b : Int => a + b) 0 := ⟨isum_monoid, Int.add_comm⟩
theorem iprod_comm : IsCommMonoid (fun a b : Int => a * b) 1 := ⟨iprod_monoid, Int.mul_comm⟩
theorem bor_comm : IsCommMonoid (fun a b : Bool => a || b) false := ⟨bor_monoid, Bool.or_comm⟩
theorem band_comm : IsCommMonoid (fun a b : Bool => a && b) true := ⟨band_monoid, Bool.and_comm⟩

/-- **sum over several axes** (`x.sum(axis=(…))`, `x.sum()` on an n-d array): for every block grid `nb`, every
    per-axis `split_every` `ks` and every depth with `n_i ≤ k_i ^ depth` on each axis, the n-d tree returns a single
    block with NumPy's sum of all the data — in particular independent of `split_every`. -/
theorem sum_nd_eq_numpy (d : Nat) (ks nb : List Nat) (blocks : List (List Int)) (h : AxesOk (d + 1) ks nb)
    (hl : blocks.length = (cartesian (nb.map List.range)).length) :
    redSum.run nb (ks.map some) false (d + 1) blocks = some [([], isum blocks.flatten)] := by
  unfold Red.run
  show ((blocks.mapM fun b => some (isum b)).bind _) = _
  rw [mapM_some]
  simp only [Option.bind_some]
  have := gridReduce_eq_fold isum_comm d ks nb (blocks.map isum) h (by simpa using hl)
  rw [show redSum.combine = (fun xs : List Int => xs.foldr (· + ·) 0) from rfl,
    show redSum.aggregate = (fun xs : List Int => xs.foldr (· + ·) 0) from rfl, this]
  exact congrArg (fun v => some [([], v)]) (isum_flatten blocks)

theorem prod_nd_eq_numpy (d : Nat) (ks nb : List Nat) (blocks : List (List Int)) (h : AxesOk (d + 1) ks nb)
    (hl : blocks.length = (cartesian (nb.map List.range)).length) :
    redProd.run nb (ks.map some) false (d + 1) blocks = some [([], iprod blocks.flatten)] := by
  unfold Red.run
  show ((blocks.mapM fun b => some (iprod b)).bind _) = _
  rw [mapM_some]
  simp only [Option.bind_some]
  have := gridReduce_eq_fold iprod_comm d ks nb (blocks.map iprod) h (by simpa using hl)
  rw [show redProd.combine = (fun xs : List Int => xs.foldr (· * ·) 1) from rfl,
    show redProd.aggregate = (fun xs : List Int => xs.foldr (· * ·) 1) from rfl, this]
  exact congrArg (fun v => some [([], v)]) (iprod_flatten blocks)

theorem any_nd_eq_numpy (d : Nat) (ks nb : List Nat) (blocks : List (List Int)) (h : AxesOk (d + 1) ks nb)
    (hl : blocks.length = (cartesian (nb.map List.range)).length) :
    redAny.run nb (ks.map some) false (d + 1) blocks = some [([], bor (blocks.flatten.map (· != 0)))] := by
  unfold Red.run
  show ((blocks.mapM fun b => some (bor (b.map (· != 0)))).bind _) = _
  rw [mapM_some]
  simp only [Option.bind_some]
  have := gridReduce_eq_fold bor_comm d ks nb (blocks.map fun b => bor (b.map (· != 0))) h (by simpa using hl)
  rw [show redAny.combine = (fun xs : List Bool => xs.foldr (· || ·) false) from rfl,
    show redAny.aggregate = (fun xs : List Bool => xs.foldr (· || ·) false) from rfl, this]
  have hb := bor_flatten (blocks.map (List.map (· != 0)))
  simp only [List.map_map, ← List.map_flatten] at hb
  exact congrArg (fun v => some [([], v)]) hb

theorem all_nd_eq_numpy (d : Nat) (ks nb : List Nat) (blocks : List (List Int)) (h : AxesOk (d + 1) ks nb)
    (hl : blocks.length = (cartesian (nb.map List.range)).length) :
    redAll.run nb (ks.map some) false (d + 1) blocks = some [([], band (blocks.flatten.map (· != 0)))] := by
  unfold Red.run
  show ((blocks.mapM fun b => some (band (b.map (· != 0)))).bind _) = _
  rw [mapM_some]
  simp only [Option.bind_some]
  have := gridReduce_eq_fold band_comm d ks nb (blocks.map fun b => band (b.map (· != 0))) h (by simpa using hl)
  rw [show redAll.combine = (fun xs : List Bool => xs.foldr (· && ·) true) from rfl,
    show redAll.aggregate = (fun xs : List Bool => xs.foldr (· && ·) true) from rfl, this]
  have hb := band_flatten (blocks.map (List.map (· != 0)))
  simp only [List.map_map, ← List.map_flatten] at hb
  exact congrArg (fun v => some [([], v)]) hb

/-- generic n-d statement for any reduction whose combine/aggregate is the fold of a commutative monoid -/
theorem nd_tree_eq_fold {β : Type} {op : β → β → β} {e : β} (hM : IsCommMonoid op e) (d : Nat) (ks nb : List Nat)
    (parts : List β) (h : AxesOk (d + 1) ks nb) (hl : parts.length = (cartesian (nb.map List.range)).length) :
    gridReduce (fun xs => xs.foldr op e) (fun xs => xs.foldr op e) nb (ks.map some) false (d + 1) (mkGrid nb parts)
      = some [([], parts.foldr op e)] :=
  gridReduce_eq_fold hM d ks nb parts h hl

/-- non-vacuity: a 3 × 2 grid of blocks, `split_every = (2, 2)`, two levels -/
example : AxesOk 2 [2, 2] [3, 2] := by
  unfold AxesOk; refine List.Forall₂.cons ⟨by decide, by decide, by decide⟩ (List.Forall₂.cons ⟨by decide, by decide, by decide⟩ List.Forall₂.nil)


/-! ## the depth `_tree_reduce` computes (the hypothesis `n_i ≤ k_i ^ depth` discharged) -/

/-- a larger depth is harmless (the float `ceil(log(n, k))` may overshoot by one at exact powers) -/
theorem axesOk_mono {d d' : Nat} {ks nb : List Nat} (h : AxesOk d ks nb) (hd : d ≤ d') : AxesOk d' ks nb := by
  induction h with
  | nil => exact List.Forall₂.nil
  | @cons k n ks nb hkn _ ih =>
    refine List.Forall₂.cons ⟨hkn.1, hkn.2.1, Nat.le_trans hkn.2.2 (Nat.pow_le_pow_right ?_ hd)⟩ ih
    have := hkn.1; omega

theorem axesOk_of_depthLoop : ∀ (ks nb : List Nat) (d0 D : Nat), ks.length = nb.length → (∀ k ∈ ks, 2 ≤ k) →
    (∀ n ∈ nb, 1 ≤ n) → depthLoop (ks.map some) nb d0 ≤ D → AxesOk D ks nb
  | [], [], _, _, _, _, _, _ => List.Forall₂.nil
  | [], _ :: _, _, _, h, _, _, _ => by simp at h
  | _ :: _, [], _, _, h, _, _, _ => by simp at h
  | k :: ks, n :: nb, d0, D, hlen, hk, hn, hD => by
    have hk2 : 2 ≤ k := hk k (by simp)
    simp only [List.map_cons, depthLoop] at hD
    refine List.Forall₂.cons ⟨by omega, hn n (by simp), ?_⟩
      (axesOk_of_depthLoop ks nb _ D (by simpa using hlen) (fun k' hk' => hk k' (by simp [hk']))
        (fun n' hn' => hn n' (by simp [hn'])) hD)
    have h1 : ceilLog k n ≤ depthStep d0 (some k) n := by
      have hk1 : k ≠ 1 := by omega
      simp only [depthStep, if_neg hk1]; exact Nat.le_max_right _ _
    have h2 := le_depthLoop (ks.map some) nb (depthStep d0 (some k) n)
    exact Nat.le_trans (le_pow_ceilLog hk2 n) (Nat.pow_le_pow_right (by omega) (by omega))

/-- **the depth loop of `_tree_reduce` satisfies the hypothesis of the tree theorems on every reduced axis**
    (group sizes ≥ 2 — dask's normalisation `max(int(k ** (1/naxes)), 2)` / the documented `int >= 2` —, at least one
    block per axis), and so does every larger depth. -/
theorem axesOk_treeDepth (ks nb : List Nat) (hlen : ks.length = nb.length) (hk : ∀ k ∈ ks, 2 ≤ k)
    (hn : ∀ n ∈ nb, 1 ≤ n) : AxesOk (treeDepth (ks.map some) nb) ks nb :=
  axesOk_of_depthLoop ks nb 1 _ hlen hk hn (Nat.le_refl _)

/-- **sum over several axes with the depth dask itself computes** — no side condition on the depth left -/
theorem sum_nd_dask_depth (ks nb : List Nat) (blocks : List (List Int)) (hlen : ks.length = nb.length)
    (hk : ∀ k ∈ ks, 2 ≤ k) (hn : ∀ n ∈ nb, 1 ≤ n)
    (hl : blocks.length = (cartesian (nb.map List.range)).length) (extra : Nat) :
    redSum.run nb (ks.map some) false (treeDepth (ks.map some) nb + extra) blocks = some [([], isum blocks.flatten)] := by
  obtain ⟨d, hd⟩ : ∃ d, treeDepth (ks.map some) nb + extra = d + 1 :=
    ⟨treeDepth (ks.map some) nb + extra - 1, by have := one_le_treeDepth (ks.map some) nb; omega⟩
  rw [hd]
  exact sum_nd_eq_numpy d ks nb blocks (hd ▸ axesOk_mono (axesOk_treeDepth ks nb hlen hk hn) (Nat.le_add_right _ _)) hl

/-- the same for any commutative-monoid reduction (prod, any, all, mean pairs, min/max through `omerge`) -/
theorem nd_tree_dask_depth {β : Type} {op : β → β → β} {e : β} (hM : IsCommMonoid op e) (ks nb : List Nat)
    (parts : List β) (hlen : ks.length = nb.length) (hk : ∀ k ∈ ks, 2 ≤ k) (hn : ∀ n ∈ nb, 1 ≤ n)
    (hl : parts.length = (cartesian (nb.map List.range)).length) (extra : Nat) :
    gridReduce (fun xs => xs.foldr op e) (fun xs => xs.foldr op e) nb (ks.map some) false
        (treeDepth (ks.map some) nb + extra) (mkGrid nb parts) = some [([], parts.foldr op e)] := by
  obtain ⟨d, hd⟩ : ∃ d, treeDepth (ks.map some) nb + extra = d + 1 :=
    ⟨treeDepth (ks.map some) nb + extra - 1, by have := one_le_treeDepth (ks.map some) nb; omega⟩
  rw [hd]
  exact gridReduce_eq_fold hM d ks nb parts (hd ▸ axesOk_mono (axesOk_treeDepth ks nb hlen hk hn) (Nat.le_add_right _ _)) hl

/-- 1-d: `treeReduce` with dask's own depth -/
theorem tree_dask_depth {β γ : Type} (combine : List β → β) (aggregate : List β → γ)
    (Hc : Hom combine combine) (Ha : Hom combine aggregate) (k : Nat) (hk : 2 ≤ k) (xs : List β) (hne : xs ≠ [])
    (extra : Nat) :
    treeReduce combine aggregate k (treeDepth [some k] [xs.length] + extra) xs = [aggregate xs] := by
  apply treeReduce_eq_fold combine aggregate Hc Ha k _ (by omega) xs hne
  have h := axesOk_mono (axesOk_treeDepth [k] [xs.length] rfl (by simpa using hk)
    (by simp; cases xs with | nil => exact absurd rfl hne | cons => simp)) (Nat.le_add_right _ extra)
  cases h with
  | cons hkn _ => exact hkn.2.2

/-- … and it is the least depth that works: no level is wasted (exact arithmetic) -/
theorem treeDepth_least : ∀ (ks nb : List Nat) (d0 D : Nat), d0 ≤ D → AxesOk D ks nb →
    depthLoop (ks.map some) nb d0 ≤ D
  | [], _, _, _, h, _ => by simpa [depthLoop] using h
  | _ :: _, [], _, _, h, _ => by simpa [depthLoop] using h
  | k :: ks, n :: nb, d0, D, h0, hok => by
    cases hok with
    | cons hkn hrest =>
      simp only [List.map_cons, depthLoop]
      apply treeDepth_least ks nb _ D _ hrest
      show (match some k with | some k => if k = 1 then d0 else max d0 (ceilLog k n) | none => d0) ≤ D
      simp only
      split
      · exact h0
      · exact Nat.max_le.mpr ⟨h0, ceilLog_le hkn.2.2⟩

/-! ### the depth decided by the last reduced axis only (independently seeded defect C30-1) is too small -/

theorem pa4_6 : partitionAll 4 (List.range 6) = [[0, 1, 2, 3], [4, 5]] := by
  simp [List.range, List.range.loop, partitionAll_cons, partitionAll_nil]
theorem pa4_2 : partitionAll 4 (List.range 2) = [[0, 1]] := by
  simp [List.range, List.range.loop, partitionAll_cons, partitionAll_nil]

/-- a 6 × 2 grid of blocks with `split_every = 4` per axis: the true loop gives depth 2, the last-axis loop depth 1 -/
theorem treeDepthLast_too_small :
    treeDepth [some 4, some 4] [6, 2] = 2 ∧ treeDepthLast [some 4, some 4] [6, 2] = 1 ∧
    ¬ AxesOk (treeDepthLast [some 4, some 4] [6, 2]) [4, 4] [6, 2] := by
  refine ⟨by decide, by decide, ?_⟩
  intro h
  have e : treeDepthLast [some 4, some 4] [6, 2] = 1 := by decide
  rw [e] at h
  cases h with
  | cons hkn _ => have := hkn.2.2; omega

/-- … and the tree then ends with TWO aggregate tasks writing the same output key (the later one wins): the sum of
    twelve blocks of `[1]` is reported as 4 -/
theorem treeDepthLast_refuted :
    redSum.run [6, 2] [some 4, some 4] false (treeDepthLast [some 4, some 4] [6, 2]) (List.replicate 12 [1])
      = some [([], 8), ([], 4)] ∧
    Grid.get? [(([] : List Nat), (8 : Int)), ([], 4)] [] = some 4 := by
  have e : treeDepthLast [some 4, some 4] [6, 2] = 1 := by decide
  rw [e]
  constructor
  · simp only [Red.run, gridReduce, roundPlan, List.zipWith, axisParts, Option.getD, pa4_6, pa4_2]
    decide
  · decide

/-- non-vacuity of the depth theorems: the same grid with the real depth gives 12 -/
example : redSum.run [6, 2] [some 4, some 4] false (treeDepth [some 4, some 4] [6, 2]) (List.replicate 12 [1])
    = some [([], 12)] := by
  have := sum_nd_dask_depth [4, 4] [6, 2] (List.replicate 12 [1]) rfl (by decide) (by decide) (by decide) 0
  have e : isum (List.replicate 12 [(1 : Int)]).flatten = 12 := by decide
  rw [e] at this
  exact this

/-! ## n-d mean / min / max: transport of the grid tree along a map of partials -/
section transport
variable {β β' γ γ' : Type}

def mapGrid (φ : β' → β) (g : Grid β') : Grid β := g.map fun p => (p.1, φ p.2)

theorem get?_mapGrid (φ : β' → β) (g : Grid β') (k : List Nat) :
    (mapGrid φ g).get? k = (g.get? k).map φ := by
  unfold Grid.get? mapGrid
  rw [← List.map_reverse, List.find?_map]
  simp only [Function.comp_def, Option.map_map]

theorem mapM_get?_mapGrid (φ : β' → β) (g : Grid β') (ins : List (List Nat)) :
    ins.mapM (mapGrid φ g).get? = (ins.mapM g.get?).map (List.map φ) := by
  induction ins with
  | nil => rfl
  | cons k ks ih =>
    simp only [List.mapM_cons, get?_mapGrid, ih]
    cases g.get? k <;> simp
    cases ks.mapM g.get? <;> simp

theorem mapM_natural {X Y Y' : Type} (F : X → Option Y) (F' : X → Option Y') (ψ : Y' → Y)
    (h : ∀ x, F x = (F' x).map ψ) (xs : List X) : xs.mapM F = (xs.mapM F').map (List.map ψ) := by
  induction xs with
  | nil => rfl
  | cons x xs ih =>
    simp only [List.mapM_cons, h x, ih]
    cases F' x <;> simp
    cases xs.mapM F' <;> simp

theorem roundEval_mapGrid (φ : β' → β) (ψ : γ' → γ) (f : List β → γ) (f' : List β' → γ')
    (hf : ∀ xs, f (xs.map φ) = ψ (f' xs)) (plan : List (List Nat × List (List Nat))) (g : Grid β') :
    roundEval f plan (mapGrid φ g) = (roundEval f' plan g).map (mapGrid ψ) := by
  unfold roundEval mapGrid
  apply mapM_natural
  intro p
  obtain ⟨k, ins⟩ := p
  show ((ins.mapM (mapGrid φ g).get?).bind fun vs => some (k, f vs)) = ((ins.mapM g.get?).bind fun vs => some (k, f' vs)).map _
  rw [mapM_get?_mapGrid]
  cases ins.mapM g.get? with
  | none => rfl
  | some vs => simp [hf]

/-- the grid tree commutes with a map `φ` of the partials along which `combine` and `aggregate` are natural -/
theorem gridReduce_mapGrid (φ : β' → β) (ψ : γ' → γ) (comb : List β → β) (agg : List β → γ)
    (comb' : List β' → β') (agg' : List β' → γ')
    (hc : ∀ xs, comb (xs.map φ) = φ (comb' xs)) (ha : ∀ xs, agg (xs.map φ) = ψ (agg' xs))
    (split : List (Option Nat)) (kd : Bool) :
    ∀ (d : Nat) (nb : List Nat) (g : Grid β'),
      gridReduce comb agg nb split kd d (mapGrid φ g) = (gridReduce comb' agg' nb split kd d g).map (mapGrid ψ) := by
  intro d
  induction d with
  | zero => intro nb g; rfl
  | succ d ih =>
    intro nb g
    cases d with
    | zero =>
      show roundEval agg _ _ = (roundEval agg' _ _).map _
      exact roundEval_mapGrid φ ψ agg agg' ha _ g
    | succ d =>
      rw [gridReduce, gridReduce]
      case x_2 => exact Nat.succ_ne_zero d
      case x_2 => exact Nat.succ_ne_zero d
      simp only [Option.bind_eq_bind]
      rw [roundEval_mapGrid φ φ comb comb' hc]
      cases roundEval comb' (roundPlan nb split true) g with
      | none => rfl
      | some g' =>
        simp only [Option.map_some, Option.bind_some]
        exact ih _ g'

theorem mkGrid_map (φ : β' → β) (nb : List Nat) (vs : List β') :
    mkGrid nb (vs.map φ) = mapGrid φ (mkGrid nb vs) := by
  unfold mkGrid mapGrid
  rw [List.zip_map_right]
  simp [Prod.map]

end transport

/-! ### mean -/

def padd (a b : Int × Int) : Int × Int := (a.1 + b.1, a.2 + b.2)

theorem padd_comm : IsCommMonoid padd (0, 0) :=
  ⟨⟨fun a b c => by simp [padd, Int.add_assoc], fun a => by simp [padd], fun a => by simp [padd]⟩,
   fun a b => by simp [padd, Int.add_comm]⟩

theorem mean_combine_eq (ps : List (Int × Int)) :
    (isum (ps.map (·.1)), isum (ps.map (·.2))) = ps.foldr padd (0, 0) := by
  induction ps with
  | nil => rfl
  | cons p ps ih =>
    simp only [List.map_cons, List.foldr_cons, ← ih, padd]
    rfl

/-- **mean over several axes**: the n-d tree returns `(Σ all data, number of elements)` — NumPy's mean after the
    final division — for every block grid, per-axis `split_every` and valid depth. -/
theorem mean_nd_eq_numpy (d : Nat) (ks nb : List Nat) (blocks : List (List Int)) (h : AxesOk (d + 1) ks nb)
    (hl : blocks.length = (cartesian (nb.map List.range)).length) :
    redMean.run nb (ks.map some) false (d + 1) blocks
      = some [([], (isum blocks.flatten, (blocks.flatten.length : Int)))] := by
  unfold Red.run
  show ((blocks.mapM fun b => some (isum b, (b.length : Int))).bind _) = _
  rw [mapM_some]
  simp only [Option.bind_some]
  have hcomb : redMean.combine = fun xs => xs.foldr padd (0, 0) := by
    funext ps; exact mean_combine_eq ps
  have hagg : redMean.aggregate = fun xs => xs.foldr padd (0, 0) := by
    funext ps; exact mean_combine_eq ps
  rw [hcomb, hagg, gridReduce_eq_fold padd_comm d ks nb _ h (by simpa using hl), ← mean_combine_eq]
  simp only [List.map_map, Function.comp_def]
  have h1 := isum_flatten blocks
  have h2 := isum_lengths blocks
  rw [h1]
  exact congrArg (fun v => some [([], (isum blocks.flatten, v))]) h2

/-! ### min / max -/

theorem omerge_comm {α : Type} (op : α → α → α) (assoc : ∀ a b c, op (op a b) c = op a (op b c))
    (comm : ∀ a b, op a b = op b a) : IsCommMonoid (omerge op) none :=
  ⟨⟨fun a b c => by cases a <;> cases b <;> cases c <;> simp [omerge, assoc],
    fun a => by cases a <;> rfl, fun a => by cases a <;> rfl⟩,
   fun a b => by cases a <;> cases b <;> simp [omerge, comm]⟩

theorem optFold_toLists {α : Type} (op : α → α → α) (assoc : ∀ a b c, op (op a b) c = op a (op b c))
    (xs : List (Option α)) : optFold op (xs.map Option.toList).flatten = xs.foldr (omerge op) none := by
  induction xs with
  | nil => rfl
  | cons x xs ih =>
    simp only [List.map_cons, List.flatten_cons, List.foldr_cons]
    rw [optFold_append op assoc, ih]
    cases x <;> simp [optFold, Option.toList]

theorem minmax_nd {op : Int → Int → Int} (assoc : ∀ a b c, op (op a b) c = op a (op b c)) (comm : ∀ a b, op a b = op b a)
    (d : Nat) (ks nb : List Nat) (blocks : List (List Int)) (h : AxesOk (d + 1) ks nb)
    (hl : blocks.length = (cartesian (nb.map List.range)).length) :
    gridReduce (fun ps : List (List Int) => (optFold op ps.flatten).toList) (fun ps => optFold op ps.flatten)
        nb (ks.map some) false (d + 1) (mkGrid nb (blocks.map fun b => (optFold op b).toList))
      = some [([], optFold op blocks.flatten)] := by
  have e : (blocks.map fun b => (optFold op b).toList) = (blocks.map (optFold op)).map Option.toList := by
    simp [List.map_map, Function.comp_def]
  rw [e, mkGrid_map]
  rw [gridReduce_mapGrid Option.toList id _ _ (fun xs => xs.foldr (omerge op) none) (fun xs => xs.foldr (omerge op) none)
    (fun xs => by simp only [optFold_toLists op assoc]) (fun xs => by simp only [optFold_toLists op assoc, id])]
  rw [gridReduce_eq_fold (omerge_comm op assoc comm) d ks nb _ h (by simpa using hl)]
  simp only [Option.map_some, mapGrid, List.map_cons, List.map_nil, id]
  rw [← optFold_toLists op assoc, ← e, optFold_parts op assoc]

/-- **min over several axes** = NumPy's min of all the data (`none` = NumPy raises on a zero-size array), for every
    block grid — empty blocks included —, per-axis `split_every` and valid depth. -/
theorem min_nd_eq_numpy (d : Nat) (ks nb : List Nat) (blocks : List (List Int)) (h : AxesOk (d + 1) ks nb)
    (hl : blocks.length = (cartesian (nb.map List.range)).length) :
    redMin.run nb (ks.map some) false (d + 1) blocks = some [([], imin? blocks.flatten)] := by
  have e : redMin = ⟨fun b => some ((optFold min b).toList), fun ps => (optFold min ps.flatten).toList,
      fun ps => optFold min ps.flatten⟩ := by
    simp [redMin, minPart, imin?_eq]
  rw [e, imin?_eq]
  unfold Red.run
  show ((blocks.mapM fun b => some ((optFold min b).toList)).bind _) = _
  rw [mapM_some]
  simp only [Option.bind_some]
  exact minmax_nd (fun a b c => Int.min_assoc a b c) (fun a b => Int.min_comm a b) d ks nb blocks h hl

theorem max_nd_eq_numpy (d : Nat) (ks nb : List Nat) (blocks : List (List Int)) (h : AxesOk (d + 1) ks nb)
    (hl : blocks.length = (cartesian (nb.map List.range)).length) :
    redMax.run nb (ks.map some) false (d + 1) blocks = some [([], imax? blocks.flatten)] := by
  have e : redMax = ⟨fun b => some ((optFold max b).toList), fun ps => (optFold max ps.flatten).toList,
      fun ps => optFold max ps.flatten⟩ := by
    simp [redMax, maxPart, imax?_eq]
  rw [e, imax?_eq]
  unfold Red.run
  show ((blocks.mapM fun b => some ((optFold max b).toList)).bind _) = _
  rw [mapM_some]
  simp only [Option.bind_some]
  exact minmax_nd (fun a b c => Int.max_assoc a b c) (fun a b => Int.max_comm a b) d ks nb blocks h hl

/-! ## var / std / moment(order 2): the Chan–Pébay merge of `(n, Σx, Σ(x-mean)²)` (exact rationals) -/
section variance
open Dask.Moment

/-- **var_eq_numpy**: for every blocking (empty blocks included), every `split_every = k` and valid depth, the
    `moment_chunk → moment_combine* → moment_agg` tree returns NumPy's two-pass variance
    `Σ(x - mean)² / (n - ddof)` of the concatenated data; `none` on both sides exactly when `n ≤ ddof`
    (NumPy: nan / inf with a warning).  `da.std` is its square root (`np.sqrt`, trusted). -/
theorem var_eq_numpy (ddof k depth : Nat) (hk : k ≠ 0) (blocks : List (List Rat)) (hne : blocks ≠ [])
    (hd : blocks.length ≤ k ^ depth) :
    (redVar ddof).run1 k depth blocks = some [varSpec ddof blocks.flatten] := by
  unfold Red.run1
  show ((blocks.mapM fun b => some (momChunk b)).map _) = _
  rw [mapM_some]
  simp only [Option.map_some]
  show some (treeReduce momCombine (momAgg ddof) k depth (blocks.map momChunk)) = _
  rw [treeReduce_map momChunk id momCombine (momAgg ddof) List.flatten (fun ds => varSpec ddof ds.flatten)
    momCombine_chunks (fun ys => momAgg_chunks ddof ys)]
  have hagg : Hom (List.flatten : List (List Rat) → List Rat) (fun ds => varSpec ddof ds.flatten) := by
    intro gs _ _
    show varSpec ddof (gs.map List.flatten).flatten = varSpec ddof gs.flatten.flatten
    rw [List.flatten_flatten]
  rw [treeReduce_eq_fold _ _ hom_flatten hagg k depth hk blocks hne hd]
  simp

/-- the variance does not depend on `split_every` nor on the chunking -/
theorem var_chunking_irrelevant (ddof k d k' d' : Nat) (hk : k ≠ 0) (hk' : k' ≠ 0) (bs bs' : List (List Rat))
    (hne : bs ≠ []) (hne' : bs' ≠ []) (hd : bs.length ≤ k ^ d) (hd' : bs'.length ≤ k' ^ d')
    (hsame : bs.flatten = bs'.flatten) :
    (redVar ddof).run1 k d bs = (redVar ddof).run1 k' d' bs' := by
  rw [var_eq_numpy ddof k d hk bs hne hd, var_eq_numpy ddof k' d' hk' bs' hne' hd', hsame]

theorem filterMap_id_flatten {α : Type} (bs : List (List (Option α))) :
    (bs.map (List.filterMap id)).flatten = bs.flatten.filterMap id := by
  induction bs with
  | nil => rfl
  | cons b bs ih => simp only [List.map_cons, List.flatten_cons, List.filterMap_append, ih]

/-- `nanvar`: NaN entries (`none`) are dropped by `chunk.nansum` / `nannumel` in every block — the result is the
    variance of the non-NaN data -/
theorem nanvar_eq_numpy (ddof k depth : Nat) (hk : k ≠ 0) (blocks : List (List (Option Rat))) (hne : blocks ≠ [])
    (hd : blocks.length ≤ k ^ depth) :
    (redVar ddof).run1 k depth (blocks.map (List.filterMap id)) = some [varSpec ddof (blocks.flatten.filterMap id)] := by
  rw [var_eq_numpy ddof k depth hk _ (by simpa using hne) (by simpa using hd), filterMap_id_flatten]

/-- non-vacuity: blocks `[1, 2]`, `[]`, `[6]`: mean 3, Σ(x-3)² = 14, var = 14/3, with ddof = 1: 7;
    a single value with ddof = 1 has no degrees of freedom -/
example : (redVar 0).run1 2 2 [[1, 2], [], [6]] = some [some (14 / 3)] ∧ (redVar 1).run1 2 2 [[1, 2], [], [6]] = some [some 7]
    ∧ (redVar 1).run1 2 1 [[5], []] = some [none] := by
  refine ⟨?_, ?_, ?_⟩
  · rw [var_eq_numpy 0 2 2 (by decide) _ (by simp) (by decide)]; decide +kernel
  · rw [var_eq_numpy 1 2 2 (by decide) _ (by simp) (by decide)]; decide +kernel
  · rw [var_eq_numpy 1 2 1 (by decide) _ (by simp) (by decide)]; decide +kernel

end variance

/-! ## nan-variants: `nansum`, `nanprod`, `nanmin`, `nanmax`, `nanmean` drop the NaN entries (`none`) block by block
(`chunk.nansum`, `nannumel`, `_nanmin_skip` …) — the result is the plain reduction of the non-NaN data -/

theorem nansum_eq_numpy (k depth : Nat) (hk : k ≠ 0) (blocks : List (List (Option Int))) (hne : blocks ≠ [])
    (hd : blocks.length ≤ k ^ depth) :
    redSum.run1 k depth (blocks.map (List.filterMap id)) = some [isum (blocks.flatten.filterMap id)] := by
  rw [sum_eq_numpy k depth hk _ (by simpa using hne) (by simpa using hd), filterMap_id_flatten]

theorem nanprod_eq_numpy (k depth : Nat) (hk : k ≠ 0) (blocks : List (List (Option Int))) (hne : blocks ≠ [])
    (hd : blocks.length ≤ k ^ depth) :
    redProd.run1 k depth (blocks.map (List.filterMap id)) = some [iprod (blocks.flatten.filterMap id)] := by
  rw [prod_eq_numpy k depth hk _ (by simpa using hne) (by simpa using hd), filterMap_id_flatten]

/-- `none` = every entry is NaN (NumPy: RuntimeWarning "All-NaN slice", result NaN) or there is no data -/
theorem nanmin_eq_numpy (k depth : Nat) (hk : k ≠ 0) (blocks : List (List (Option Int))) (hne : blocks ≠ [])
    (hd : blocks.length ≤ k ^ depth) :
    redMin.run1 k depth (blocks.map (List.filterMap id)) = some [imin? (blocks.flatten.filterMap id)] := by
  rw [min_eq_numpy k depth hk _ (by simpa using hne) (by simpa using hd), filterMap_id_flatten]

theorem nanmax_eq_numpy (k depth : Nat) (hk : k ≠ 0) (blocks : List (List (Option Int))) (hne : blocks ≠ [])
    (hd : blocks.length ≤ k ^ depth) :
    redMax.run1 k depth (blocks.map (List.filterMap id)) = some [imax? (blocks.flatten.filterMap id)] := by
  rw [max_eq_numpy k depth hk _ (by simpa using hne) (by simpa using hd), filterMap_id_flatten]

theorem nanmean_eq_numpy (k depth : Nat) (hk : k ≠ 0) (blocks : List (List (Option Int))) (hne : blocks ≠ [])
    (hd : blocks.length ≤ k ^ depth) :
    redMean.run1 k depth (blocks.map (List.filterMap id))
      = some [(isum (blocks.flatten.filterMap id), ((blocks.flatten.filterMap id).length : Int))] := by
  rw [mean_eq_numpy k depth hk _ (by simpa using hne) (by simpa using hd), filterMap_id_flatten]

example : redSum.run1 2 2 ([[some 1, none], [], [none, some 5]].map (List.filterMap id)) = some [6] := by
  rw [nansum_eq_numpy 2 2 (by decide) _ (by simp) (by decide)]; decide
example : redMin.run1 2 1 ([[none, none], [none]].map (List.filterMap id)) = some [none] := by
  rw [nanmin_eq_numpy 2 1 (by decide) _ (by simp) (by decide)]; decide

/-! ## K2: cumulative reductions -/
section scans
open Dask.BlockScan

/-- `cumsum`/`cumprod` (sequential method) = NumPy's scan of the concatenated data, for **every**
    chunking, zero-length blocks included (this is the code after the `_cumreduction_carry` fix). -/
theorem cumsum_sequential_eq_numpy (blocks : List (List Int)) :
    (seqScan (· + ·) 0 blocks).flatten = scanIncl (· + ·) blocks.flatten :=
  seqScan_eq_scan _ 0 Int.add_assoc Int.zero_add blocks

theorem cumprod_sequential_eq_numpy (blocks : List (List Int)) :
    (seqScan (· * ·) 1 blocks).flatten = scanIncl (· * ·) blocks.flatten :=
  seqScan_eq_scan _ 1 Int.mul_assoc Int.one_mul blocks

theorem cum_sequential_keeps_chunks (blocks : List (List Int)) :
    (seqScan (· + ·) 0 blocks).map List.length = blocks.map List.length :=
  seqScan_lengths _ 0 blocks

/-- **dask's Blelloch schedule passes the (proved sound) interval checker for every `n_vals`**
    (`Lemmas/BlellochAll.lean`: invariants of the up-sweep and the down-sweep over powers of two). -/
theorem blelloch_schedule_ok : ∀ n, schedOk n = true := schedOk_all

/-- `cumsum(method="blelloch")` = NumPy for **every** chunking (zero-length blocks included, any number of blocks) -/
theorem cumsum_blelloch_eq_numpy (blocks : List (List Int)) :
    ∃ out, blelloch (· + ·) 0 blocks = some out ∧ out.flatten = scanIncl (· + ·) blocks.flatten ∧
      out.map List.length = blocks.map List.length :=
  blelloch_eq_scan _ 0 isum_monoid blocks (schedOk_all _)

theorem cumprod_blelloch_eq_numpy (blocks : List (List Int)) :
    ∃ out, blelloch (· * ·) 1 blocks = some out ∧ out.flatten = scanIncl (· * ·) blocks.flatten ∧
      out.map List.length = blocks.map List.length :=
  blelloch_eq_scan _ 1 iprod_monoid blocks (schedOk_all _)

/-- over any monoid -/
theorem cum_blelloch_eq_numpy {α : Type} (op : α → α → α) (e : α) (h : IsMonoid op e) (blocks : List (List α)) :
    ∃ out, blelloch op e blocks = some out ∧ out.flatten = scanIncl op blocks.flatten :=
  let ⟨out, h1, h2, _⟩ := blelloch_eq_scan op e h blocks (schedOk_all _); ⟨out, h1, h2⟩

/-- unconditional form: *if* the schedule checker accepts `n_vals`, Blelloch = NumPy (any monoid) -/
theorem cum_blelloch_eq_numpy_of_schedOk {α : Type} (op : α → α → α) (e : α) (h : IsMonoid op e)
    (blocks : List (List α)) (hok : schedOk (blocks.length - 1) = true) :
    ∃ out, blelloch op e blocks = some out ∧ out.flatten = scanIncl op blocks.flatten :=
  let ⟨out, h1, h2, _⟩ := blelloch_eq_scan op e h blocks hok; ⟨out, h1, h2⟩

example : (seqScan (· + ·) 0 [[1, 2], [], [3]]).flatten = [1, 3, 6] := by decide
example : blelloch (· + ·) 0 [[1, 2], [], [3], [4, 5], [6]] = some [[1, 3], [], [6], [10, 15], [21]] := by decide

end scans

/-! ## the kernel theorems, re-exported under this property (proved in `Lemmas/`) -/

theorem K1_treeReduce_eq_fold {β γ : Type} (combine : List β → β) (aggregate : List β → γ)
    (Hc : Hom combine combine) (Ha : Hom combine aggregate) (k depth : Nat) (hk : k ≠ 0) (xs : List β)
    (hne : xs ≠ []) (hd : xs.length ≤ k ^ depth) :
    treeReduce combine aggregate k depth xs = [aggregate xs] :=
  treeReduce_eq_fold combine aggregate Hc Ha k depth hk xs hne hd

theorem K1_gridReduce_eq_fold {β : Type} {op : β → β → β} {e : β} (hM : IsCommMonoid op e) (d : Nat)
    (ks nb : List Nat) (vs : List β) (h : AxesOk (d + 1) ks nb)
    (hl : vs.length = (cartesian (nb.map List.range)).length) :
    gridReduce (fun xs => xs.foldr op e) (fun xs => xs.foldr op e) nb (ks.map some) false (d + 1) (mkGrid nb vs)
      = some [([], vs.foldr op e)] :=
  gridReduce_eq_fold hM d ks nb vs h hl

theorem K2_seqScan_eq_scan {α : Type} (op : α → α → α) (e : α) (assoc : ∀ a b c, op (op a b) c = op a (op b c))
    (idl : ∀ a, op e a = a) (blocks : List (List α)) :
    (Dask.BlockScan.seqScan op e blocks).flatten = Dask.BlockScan.scanIncl op blocks.flatten :=
  Dask.BlockScan.seqScan_eq_scan op e assoc idl blocks

theorem K2_blelloch_prefix_eq_fold {α : Type} (op : α → α → α) (d : α)
    (assoc : ∀ a b c, op (op a b) c = op a (op b c)) (batches : List α) :
    ∃ pv, Dask.BlockScan.runSched op (Dask.BlockScan.schedule batches.length) batches = some pv ∧
      pv.length = batches.length ∧
      ∀ i, i < batches.length → pv[i]? = some (sfold op d (batches.take (i + 1))) :=
  Dask.BlockScan.blelloch_sound op d assoc batches _ (by
    have := Dask.BlockScan.schedOk_all batches.length
    unfold Dask.BlockScan.schedOk at this
    simpa using this)

end Dask.C22
