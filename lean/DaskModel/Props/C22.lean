import DaskModel.Lemmas.ArrayReduce
import DaskModel.Lemmas.BlockScan
import DaskModel.Lemmas.BlellochTable
/-!
# C22 — array reductions and scans equal NumPy for every chunking and `split_every`

Full statement (for the modelled logic): for every blocking of the data, every `split_every = k`, every
`depth` with `n ≤ k ^ depth` (dask's float formula is checked to satisfy this), the tree of
`chunk → combine* → aggregate` returns one block whose value is NumPy's reduction of the concatenated
data; sequential and Blelloch scans return the global scan.  What is proved here:

* K1 `treeReduce_eq_fold` (in `Lemmas/ArrayReduce.lean`) and `split_every_irrelevant`;
* `*_eq_numpy` for sum, prod, any, all, min, max, mean-as-(total, n) — exact integer algebra;
* the arg-reduction merge is a semigroup (`hom_argCombine`), so tie-breaking does not depend on the tree.
Not proved (validated by the correspondence check): float round-off, var/std/moment, nan-variants,
multi-axis value equality, median/quantile glue.
-/
namespace Dask.C22
open Dask.ArrayReduce

variable {α β γ : Type}

theorem mapM_some (c : α → β) (xs : List α) : xs.mapM (fun x => some (c x)) = some (xs.map c) := by
  induction xs with
  | nil => rfl
  | cons x xs ih => simp [List.mapM_cons, ih]

/-- A reduction whose chunk function is total returns exactly one block, `aggregate` of the
    per-block partial results, whatever `k` and `depth` (with `n ≤ k ^ depth`). -/
theorem run1_eq (r : Red α β γ) (c : List α → β) (hc : r.chunk = fun b => some (c b))
    (Hc : Hom r.combine r.combine) (Ha : Hom r.combine r.aggregate)
    (k depth : Nat) (hk : k ≠ 0) (blocks : List (List α)) (hne : blocks ≠ [])
    (hd : blocks.length ≤ k ^ depth) :
    r.run1 k depth blocks = some [r.aggregate (blocks.map c)] := by
  unfold Red.run1
  rw [hc, mapM_some]
  simp only [Option.map_some]
  rw [treeReduce_eq_fold r.combine r.aggregate Hc Ha k depth hk _ (by simpa using hne) (by simpa using hd)]

/-- **The result does not depend on `split_every`** (nor on the depth dask happens to compute). -/
theorem split_every_irrelevant (r : Red α β γ) (c : List α → β) (hc : r.chunk = fun b => some (c b))
    (Hc : Hom r.combine r.combine) (Ha : Hom r.combine r.aggregate)
    (k d k' d' : Nat) (hk : k ≠ 0) (hk' : k' ≠ 0) (blocks : List (List α)) (hne : blocks ≠ [])
    (hd : blocks.length ≤ k ^ d) (hd' : blocks.length ≤ k' ^ d') :
    r.run1 k d blocks = r.run1 k' d' blocks := by
  rw [run1_eq r c hc Hc Ha k d hk blocks hne hd, run1_eq r c hc Hc Ha k' d' hk' blocks hne hd']

/-! ## sum / prod / any / all -/

theorem isum_monoid : IsMonoid (fun a b : Int => a + b) 0 := ⟨Int.add_assoc, Int.zero_add, Int.add_zero⟩
theorem iprod_monoid : IsMonoid (fun a b : Int => a * b) 1 := ⟨Int.mul_assoc, Int.one_mul, Int.mul_one⟩
theorem bor_monoid : IsMonoid (fun a b : Bool => a || b) false :=
  ⟨by intro a b c; cases a <;> cases b <;> cases c <;> rfl, by intro a; rfl, by intro a; cases a <;> rfl⟩
theorem band_monoid : IsMonoid (fun a b : Bool => a && b) true :=
  ⟨by intro a b c; cases a <;> cases b <;> cases c <;> rfl, by intro a; rfl, by intro a; cases a <;> rfl⟩

theorem hom_isum : Hom isum isum := hom_monoid isum_monoid
theorem hom_iprod : Hom iprod iprod := hom_monoid iprod_monoid
theorem hom_bor : Hom bor bor := hom_monoid bor_monoid
theorem hom_band : Hom band band := hom_monoid band_monoid

theorem foldr_flatten_monoid {op : β → β → β} {e : β} (h : IsMonoid op e) (gs : List (List β)) :
    (gs.map (fun g => g.foldr op e)).foldr op e = gs.flatten.foldr op e := by
  induction gs with
  | nil => rfl
  | cons g gs ih =>
    simp only [List.map_cons, List.foldr_cons, List.flatten_cons, List.foldr_append, ih]
    generalize gs.flatten.foldr op e = t
    induction g with
    | nil => simp [h.id_left]
    | cons x xs ihx => simp only [List.foldr_cons, h.assoc, ihx]

theorem isum_flatten (gs : List (List Int)) : isum (gs.map isum) = isum gs.flatten :=
  foldr_flatten_monoid isum_monoid gs
theorem iprod_flatten (gs : List (List Int)) : iprod (gs.map iprod) = iprod gs.flatten :=
  foldr_flatten_monoid iprod_monoid gs
theorem bor_flatten (gs : List (List Bool)) : bor (gs.map bor) = bor gs.flatten :=
  foldr_flatten_monoid bor_monoid gs
theorem band_flatten (gs : List (List Bool)) : band (gs.map band) = band gs.flatten :=
  foldr_flatten_monoid band_monoid gs

/-- `da.sum` = `np.sum` of the concatenated data, for every blocking (empty blocks allowed), `k`, depth. -/
theorem sum_eq_numpy (k depth : Nat) (hk : k ≠ 0) (blocks : List (List Int)) (hne : blocks ≠ [])
    (hd : blocks.length ≤ k ^ depth) :
    redSum.run1 k depth blocks = some [isum blocks.flatten] := by
  rw [run1_eq redSum isum rfl hom_isum hom_isum k depth hk blocks hne hd]
  exact congrArg (fun v => some [v]) (isum_flatten blocks)

theorem prod_eq_numpy (k depth : Nat) (hk : k ≠ 0) (blocks : List (List Int)) (hne : blocks ≠ [])
    (hd : blocks.length ≤ k ^ depth) :
    redProd.run1 k depth blocks = some [iprod blocks.flatten] := by
  rw [run1_eq redProd iprod rfl hom_iprod hom_iprod k depth hk blocks hne hd]
  exact congrArg (fun v => some [v]) (iprod_flatten blocks)

theorem any_eq_numpy (k depth : Nat) (hk : k ≠ 0) (blocks : List (List Int)) (hne : blocks ≠ [])
    (hd : blocks.length ≤ k ^ depth) :
    redAny.run1 k depth blocks = some [bor (blocks.flatten.map (· != 0))] := by
  rw [run1_eq redAny (fun b => bor (b.map (· != 0))) rfl hom_bor hom_bor k depth hk blocks hne hd]
  have := bor_flatten (blocks.map (List.map (· != 0)))
  simp only [List.map_map, ← List.map_flatten] at this
  exact congrArg (fun v => some [v]) this

theorem all_eq_numpy (k depth : Nat) (hk : k ≠ 0) (blocks : List (List Int)) (hne : blocks ≠ [])
    (hd : blocks.length ≤ k ^ depth) :
    redAll.run1 k depth blocks = some [band (blocks.flatten.map (· != 0))] := by
  rw [run1_eq redAll (fun b => band (b.map (· != 0))) rfl hom_band hom_band k depth hk blocks hne hd]
  have := band_flatten (blocks.map (List.map (· != 0)))
  simp only [List.map_map, ← List.map_flatten] at this
  exact congrArg (fun v => some [v]) this

/-! ## mean as `(total, n)` -/

theorem hom_mean : Hom redMean.combine redMean.combine := by
  intro gs _ _
  show (isum ((gs.map redMean.combine).map (·.1)), isum ((gs.map redMean.combine).map (·.2)))
      = (isum (gs.flatten.map (·.1)), isum (gs.flatten.map (·.2)))
  have h1 : (gs.map redMean.combine).map (·.1) = (gs.map (List.map (·.1))).map isum := by
    simp [redMean, List.map_map, Function.comp_def]
  have h2 : (gs.map redMean.combine).map (·.2) = (gs.map (List.map (·.2))).map isum := by
    simp [redMean, List.map_map, Function.comp_def]
  rw [h1, h2, isum_flatten, isum_flatten, ← List.map_flatten, ← List.map_flatten]

theorem isum_lengths (blocks : List (List Int)) :
    isum (blocks.map (fun b => (b.length : Int))) = (blocks.flatten.length : Int) := by
  induction blocks with
  | nil => rfl
  | cons b bs ih =>
    have : isum ((b :: bs).map fun b => (b.length : Int)) = (b.length : Int) + isum (bs.map fun b => (b.length : Int)) := rfl
    rw [this, ih]; simp

/-- `da.mean`: the tree delivers `(Σ data, #data)`; the quotient is NumPy's mean (exact rational). -/
theorem mean_eq_numpy (k depth : Nat) (hk : k ≠ 0) (blocks : List (List Int)) (hne : blocks ≠ [])
    (hd : blocks.length ≤ k ^ depth) :
    redMean.run1 k depth blocks = some [(isum blocks.flatten, (blocks.flatten.length : Int))] := by
  rw [run1_eq redMean (fun b => (isum b, (b.length : Int))) rfl hom_mean hom_mean k depth hk blocks hne hd]
  have e1 : isum (blocks.map isum) = isum blocks.flatten := isum_flatten blocks
  have e2 := isum_lengths blocks
  simp only [redMean, List.map_map, Function.comp_def, e1, e2]

/-- non-vacuity: irregular blocks with an empty one, `k = 2`, three levels -/
example : redSum.run1 2 3 [[1, 2], [3], [4, 5, 6], [], [7]] = some [28] :=
  sum_eq_numpy 2 3 (by decide) _ (by simp) (by decide)
example : redMean.run1 2 2 [[1, 2], [], [3]] = some [(6, 3)] :=
  mean_eq_numpy 2 2 (by decide) _ (by simp) (by decide)

/-! ## K2: cumulative reductions -/
section scans
open Dask.BlockScan

/-- `cumsum`/`cumprod` (sequential method) = NumPy's scan of the concatenated data, for **every**
    chunking, zero-length blocks included (this is the code after the `_cumreduction_carry` fix). -/
theorem cumsum_sequential_eq_numpy (blocks : List (List Int)) :
    (seqScan (· + ·) 0 blocks).flatten = scanIncl (· + ·) blocks.flatten :=
  seqScan_eq_scan _ 0 Int.add_assoc Int.zero_add blocks

theorem cumprod_sequential_eq_numpy (blocks : List (List Int)) :
    (seqScan (· * ·) 1 blocks).flatten = scanIncl (· * ·) blocks.flatten :=
  seqScan_eq_scan _ 1 Int.mul_assoc Int.one_mul blocks

theorem cum_sequential_keeps_chunks (blocks : List (List Int)) :
    (seqScan (· + ·) 0 blocks).map List.length = blocks.map List.length :=
  seqScan_lengths _ 0 blocks

/-- dask's Blelloch schedule passes the (proved sound) interval checker for every `n_vals ≤ 32`
    — kernel evaluation of a finite table (`Lemmas/BlellochTable.lean`), *not* the general statement. -/
theorem schedOk_le_32 : ∀ n, n ≤ 32 → schedOk n = true := schedOk_table

/-- Full statement (`∀ n, schedOk n = true`) is validated by the harness for n ≤ 300, proved for n ≤ 32. -/
def BlellochFullStatement : Prop := ∀ n, schedOk n = true

/-- `cumsum(method="blelloch")` = NumPy for every chunking with at most 33 blocks on the scan axis
    (`_partial`: the bound comes from `schedOk_le_32`; `blelloch_eq_scan` itself has no bound). -/
theorem cumsum_blelloch_eq_numpy_partial (blocks : List (List Int)) (hn : blocks.length ≤ 33) :
    ∃ out, blelloch (· + ·) 0 blocks = some out ∧ out.flatten = scanIncl (· + ·) blocks.flatten ∧
      out.map List.length = blocks.map List.length :=
  blelloch_eq_scan _ 0 isum_monoid blocks (schedOk_le_32 _ (by omega))

theorem cumprod_blelloch_eq_numpy_partial (blocks : List (List Int)) (hn : blocks.length ≤ 33) :
    ∃ out, blelloch (· * ·) 1 blocks = some out ∧ out.flatten = scanIncl (· * ·) blocks.flatten ∧
      out.map List.length = blocks.map List.length :=
  blelloch_eq_scan _ 1 iprod_monoid blocks (schedOk_le_32 _ (by omega))

/-- unconditional form: *if* the schedule checker accepts `n_vals`, Blelloch = NumPy (any monoid) -/
theorem cum_blelloch_eq_numpy_of_schedOk {α : Type} (op : α → α → α) (e : α) (h : IsMonoid op e)
    (blocks : List (List α)) (hok : schedOk (blocks.length - 1) = true) :
    ∃ out, blelloch op e blocks = some out ∧ out.flatten = scanIncl op blocks.flatten :=
  let ⟨out, h1, h2, _⟩ := blelloch_eq_scan op e h blocks hok; ⟨out, h1, h2⟩

example : (seqScan (· + ·) 0 [[1, 2], [], [3]]).flatten = [1, 3, 6] := by decide
example : blelloch (· + ·) 0 [[1, 2], [], [3], [4, 5], [6]] = some [[1, 3], [], [6], [10, 15], [21]] := by decide

end scans

end Dask.C22
