import DaskModel.Lemmas.TruthfulPaths
import DaskModel.Props.C45
import DaskModel.Props.C40
/-! # C41 — known divisions always describe the partitions truthfully (theorems)

`Truthful key divs parts` (Lemmas/Truthful.lean) is the statement's predicate. One theorem per
construction path that can report known divisions. -/
namespace Dask.C41
open Dask.Divs Dask.Repart Dask.SDL Dask.C45

/-- **Filtering** keeps known divisions truthful (`Filter._divisions` forwards the frame's divisions). -/
theorem filter_preserves {α : Type} (key : α → Nat) (divs : List Nat) (parts : List (List α))
    (pred : α → Bool) (h : Truthful key divs parts) :
    Truthful key divs (parts.map (·.filter pred)) :=
  h.map _ fun _ r hr => ⟨r, (List.mem_filter.mp hr).1, rfl⟩

/-- **Shuffle-free blockwise operations** that transform rows one by one without touching the index
    (assign, projection, arithmetic, `map_partitions` of such functions) keep divisions truthful. -/
theorem blockwise_preserves {α β : Type} (key : α → Nat) (key' : β → Nat) (divs : List Nat)
    (parts : List (List α)) (g : α → β) (hg : ∀ r, key' (g r) = key r) (h : Truthful key divs parts) :
    Truthful key' divs (parts.map (·.map g)) :=
  h.map _ fun _ r hr => by
    obtain ⟨r', hr', rfl⟩ := List.mem_map.mp hr
    exact ⟨r', hr', hg r'⟩

/-- partition-wise operations returning any sub-multiset / reordering of the partition's rows
    (`head`-per-partition, sorting inside a partition, dropping duplicates) keep divisions truthful -/
theorem partitionwise_subset_preserves {α : Type} (key : α → Nat) (divs : List Nat) (parts : List (List α))
    (f : List α → List α) (hf : ∀ p, ∀ r ∈ f p, r ∈ p) (h : Truthful key divs parts) :
    Truthful key divs (parts.map f) :=
  h.map f fun p r hr => ⟨r, hf p r hr, rfl⟩

/-- **truthfulB_iff** (re-exported): the executable oracle used by the tie decides exactly `Truthful` -/
theorem truthfulB_decides (divs : List Nat) (parts : List (List Nat)) :
    truthfulB divs parts = true ↔ Truthful (fun k => k) divs parts := truthfulB_iff divs parts


/-- every element of a strictly increasing list is `≤` its last element -/
theorem le_last_of_strict (bs : List Nat) (l : Nat) (hp : bs.Pairwise (· < ·)) (hl : bs.getLast? = some l) :
    ∀ a ∈ bs, a ≤ l :=
  le_last_of_mono bs l (hp.imp (fun h => Nat.le_of_lt h)) hl

/-- in a strictly increasing list only the last position holds the last value -/
theorem idx_of_last (bs : List Nat) (l : Nat) (hp : bs.Pairwise (· < ·)) (hl : bs.getLast? = some l)
    (j : Nat) (hj : bs[j]? = some l) : j + 1 = bs.length := by
  obtain ⟨hjlt, hje⟩ := List.getElem?_eq_some_iff.mp hj
  rcases Nat.lt_or_ge (j + 1) bs.length with hlt | hge
  · exfalso
    have hlast : bs[bs.length - 1]? = some l := by rw [← List.getLast?_eq_getElem?]; exact hl
    obtain ⟨hl1, hl2⟩ := List.getElem?_eq_some_iff.mp hlast
    have := (List.pairwise_iff_getElem.mp hp) j (bs.length - 1) hjlt hl1 (by omega)
    omega
  · omega

/-- **from_pandas_truthful**: partitions cut at the locations planned by `sorted_division_locations`
    are described truthfully by the planned divisions — for every sorted frame, both modes. -/
theorem from_pandas_truthful {α : Type} (key : α → Nat) (rows : List α) (m : Mode) (divs locs : List Nat)
    (hs : Sorted (rows.map key)) (h : sdl (rows.map key) m = some (divs, locs)) :
    Truthful key divs (cut rows locs) := by
  have hseq : ∀ (t : Nat) (r : α), rows[t]? = some r → (rows.map key)[t]? = some (key r) := by
    intro t r ht; simp [List.getElem?_map, ht]
  obtain ⟨h0, hlast, hpw⟩ := sdl_locations_strict hs h
  have hval := sdl_division_is_value_at_location hs h
  have hfo := sdl_boundary_first_occurrence hs h
  have hlen : divs.length = locs.length := hval.length_eq
  have hlocs_pos : 0 < locs.length := by
    cases locs with
    | nil => simp at h0
    | cons _ _ => simp
  have hle := le_last_of_strict locs _ hpw hlast
  have hmaplen : (rows.map key).length = rows.length := List.length_map _
  rw [cut_eq_chunks]
  refine ⟨by rw [chunks_length]; omega, ?_, ?_⟩
  · -- divisions sorted
    rw [List.pairwise_iff_getElem]
    intro i j hi hj hij
    have hil : i < locs.length := by omega
    have hjl : j < locs.length := by omega
    have hli := List.getElem?_eq_getElem hil
    have hlj := List.getElem?_eq_getElem hjl
    have hlt : locs[i] < locs[j] := (List.pairwise_iff_getElem.mp hpw) i j hil hjl hij
    have hjle : locs[j] ≤ (rows.map key).length := hle _ (List.getElem_mem hjl)
    have hRi := hval.get i divs[i] locs[i] (List.getElem?_eq_getElem hi) hli
    have hRj := hval.get j divs[j] locs[j] (List.getElem?_eq_getElem hj) hlj
    rw [if_neg (by omega)] at hRi
    split at hRj
    · rename_i hje
      have hlastseq : (rows.map key)[(rows.map key).length - 1]? = some divs[j] := by
        rw [← List.getLast?_eq_getElem?]; exact hRj
      exact sorted_get_le hs (by omega) hRi hlastseq
    · exact sorted_get_le hs (Nat.le_of_lt hlt) hRi hRj
  · intro i p lo hi hp hlo hhi r hr
    obtain ⟨a, b, ha, hb, rfl⟩ := (chunks_getElem? rows locs i p).mp hp
    obtain ⟨t, hat, htb, hrt⟩ := mem_pySlice rows a b r hr
    have hkt := hseq t r hrt
    have hab : a < b := by omega
    have hble : b ≤ (rows.map key).length := hle b (List.mem_of_getElem? hb)
    have hRa := hval.get i lo a hlo ha
    rw [if_neg (by omega)] at hRa
    refine ⟨sorted_get_le hs hat hRa hkt, ?_⟩
    have hRb := hval.get (i + 1) hi b hhi hb
    split at hRb
    · rename_i hbe
      right
      have hidx := idx_of_last locs _ hpw hlast (i + 1) (by rw [hb, hbe])
      refine ⟨by rw [chunks_length]; omega, ?_⟩
      have hlastseq : (rows.map key)[(rows.map key).length - 1]? = some hi := by
        rw [← List.getLast?_eq_getElem?]; exact hRb
      exact sorted_get_le hs (by omega) hkt hlastseq
    · rename_i hbne
      left
      obtain ⟨v, hv, hbefore⟩ := hfo b (List.mem_of_getElem? hb) (by omega) hbne
      rw [hRb] at hv
      cases hv
      obtain ⟨w, hw, hwv⟩ := hbefore t htb
      rw [hkt] at hw
      cases hw
      exact hwv



/-- **partitions_truthful**: selecting partitions in increasing order (`df.partitions[sel]`, `get_partition`,
    the partition pruning of `.loc`) keeps the divisions truthful. -/
theorem partitions_truthful {α : Type} (key : α → Nat) (divs : List Nat) (parts : List (List α))
    (sel : List Nat) (d' : List Nat) (ps' : List (List α))
    (hsel : sel.Pairwise (· < ·)) (h : Truthful key divs parts)
    (hd : partitionsDivs divs sel = some d') (hp : partitionsParts parts sel = some ps') :
    Truthful key d' ps' := by
  obtain ⟨hlen, hsorted, hrows⟩ := h
  unfold partitionsDivs at hd
  simp only [Option.bind_eq_bind, Option.bind_eq_some_iff, Option.pure_def, Option.some.injEq] at hd
  obtain ⟨lastSel, hlast, ds, hds, dl, hdl, rfl⟩ := hd
  unfold partitionsParts at hp
  obtain ⟨hdslen, hdsget⟩ := mapM_getElem? _ sel ds hds
  obtain ⟨hpslen, hpsget⟩ := mapM_getElem? _ sel ps' hp
  have hsel_pos : 0 < sel.length := by
    cases sel with
    | nil => simp at hlast
    | cons _ _ => simp
  have hlastidx : sel[sel.length - 1]? = some lastSel := by rw [← List.getLast?_eq_getElem?]; exact hlast
  -- value of d' at a position
  have hd'get : ∀ (j : Nat), j < sel.length → ∃ s, sel[j]? = some s ∧ (ds ++ [dl])[j]? = divs[s]? ∧ (ds ++ [dl])[j]? ≠ none := by
    intro j hj
    have hs := List.getElem?_eq_getElem hj
    obtain ⟨y, hy, hfy⟩ := hdsget j _ hs
    refine ⟨sel[j], hs, ?_, ?_⟩
    · rw [List.getElem?_append_left (by omega), hy, hfy]
    · rw [List.getElem?_append_left (by omega), hy]; simp
  have hd'last : (ds ++ [dl])[sel.length]? = some dl := by
    rw [List.getElem?_append_right (by omega)]; simp [hdslen]
  have hmono : ∀ (i j a b : Nat), i < j → sel[i]? = some a → sel[j]? = some b → a < b := by
    intro i j a b hij ha hb
    obtain ⟨hi', rfl⟩ := List.getElem?_eq_some_iff.mp ha
    obtain ⟨hj', rfl⟩ := List.getElem?_eq_some_iff.mp hb
    exact (List.pairwise_iff_getElem.mp hsel) i j hi' hj' hij
  have hdiv_le : ∀ (a b x y : Nat), a ≤ b → divs[a]? = some x → divs[b]? = some y → x ≤ y := by
    intro a b x y hab hx hy
    rcases Nat.eq_or_lt_of_le hab with rfl | hlt
    · rw [hx] at hy; cases hy; exact Nat.le_refl _
    · obtain ⟨ha', rfl⟩ := List.getElem?_eq_some_iff.mp hx
      obtain ⟨hb', rfl⟩ := List.getElem?_eq_some_iff.mp hy
      exact (List.pairwise_iff_getElem.mp hsorted) a b ha' hb' hlt
  refine ⟨by simp [hpslen, hdslen], ?_, ?_⟩
  · -- sorted
    rw [List.pairwise_iff_getElem]
    intro i j hi hj hij
    have hlen' : (ds ++ [dl]).length = sel.length + 1 := by simp [hdslen]
    have hi' : i < sel.length := by omega
    obtain ⟨si, hsi, hvi, _⟩ := hd'get i hi'
    rw [List.getElem?_eq_getElem hi] at hvi
    rcases Nat.lt_or_ge j sel.length with hjl | hjl
    · obtain ⟨sj, hsj, hvj, _⟩ := hd'get j hjl
      rw [List.getElem?_eq_getElem hj] at hvj
      exact hdiv_le si sj _ _ (Nat.le_of_lt (hmono i j si sj hij hsi hsj)) hvi.symm hvj.symm
    · have hje : j = sel.length := by omega
      subst hje
      have : (ds ++ [dl])[sel.length] = dl := by
        have := List.getElem?_eq_getElem hj
        rw [hd'last] at this; exact (Option.some.inj this).symm
      rw [this]
      have hsle : si ≤ lastSel := by
        rcases Nat.eq_or_lt_of_le (show i ≤ sel.length - 1 by omega) with he | hl
        · rw [he] at hsi; rw [hsi] at hlastidx; cases hlastidx; exact Nat.le_refl _
        · exact Nat.le_of_lt (hmono i (sel.length - 1) si lastSel hl hsi hlastidx)
      exact hdiv_le si (lastSel + 1) _ _ (by omega) hvi.symm hdl
  · intro j p lo hi hpj hlo hhi r hr
    have hjlt : j < ps'.length := (List.getElem?_eq_some_iff.mp hpj).1
    have hj : j < sel.length := by omega
    obtain ⟨sj, hsj, hvj, _⟩ := hd'get j hj
    obtain ⟨y, hy, hfy⟩ := hpsget j sj hsj
    rw [hpj] at hy; cases hy
    rw [hlo] at hvj
    -- bounds of the source partition
    have hsjlt : sj < parts.length := (List.getElem?_eq_some_iff.mp hfy).1
    have hhi_src := List.getElem?_eq_getElem (l := divs) (i := sj + 1) (by omega)
    obtain ⟨hlow, hup⟩ := hrows sj p lo _ hfy hvj.symm hhi_src r hr
    refine ⟨hlow, ?_⟩
    rcases Nat.lt_or_ge (j + 1) sel.length with hnl | hl
    · -- not the last selected partition
      obtain ⟨sn, hsn, hvn, _⟩ := hd'get (j + 1) hnl
      rw [hhi] at hvn
      have hlt := hmono j (j + 1) sj sn (by omega) hsj hsn
      obtain ⟨pn, _, hfn⟩ := hpsget (j + 1) sn hsn
      have hsnlt : sn < parts.length := (List.getElem?_eq_some_iff.mp hfn).1
      left
      rcases hup with h1 | ⟨h2, _⟩
      · exact Nat.lt_of_lt_of_le h1 (hdiv_le (sj + 1) sn _ _ (by omega) hhi_src hvn.symm)
      · omega
    · -- the last selected partition
      have hje : j + 1 = sel.length := by omega
      have hsje : sj = lastSel := by
        have : sel[j]? = sel[sel.length - 1]? := by congr 1; omega
        rw [hsj, hlastidx] at this; exact Option.some.inj this
      subst hsje
      rw [hje, hd'last] at hhi
      have hidl : dl = hi := Option.some.inj hhi
      rw [hdl] at hhi_src
      have hval : divs[sj + 1] = hi := by rw [← hidl]; exact (Option.some.inj hhi_src).symm
      rw [hval] at hup
      rcases hup with h1 | ⟨_, h2⟩
      · left; exact h1
      · right; exact ⟨by omega, h2⟩

/-- without the ordering hypothesis the claim fails: `partitions[[1, 0]]` reports unsorted divisions -/
example : partitionsDivs [0, 5, 9] [1, 0] = some [5, 0, 5] := by decide
example : partitionsDivs [0, 5, 9, 12] [0, 2] = some [0, 9, 12] := by decide


/-- **tofewer_truthful**: `RepartitionToFewer` (and every "concatenate contiguous partitions" layer, e.g.
    `RepartitionSize` without splitting) keeps known divisions truthful: output `j` concatenates the input
    partitions `bs[j] … bs[j+1]-1` and reports the divisions `divs[bs[j]]`. -/
theorem tofewer_truthful {α : Type} (key : α → Nat) (divs : List Nat) (parts : List (List α))
    (bs d' : List Nat) (h : Truthful key divs parts)
    (hpw : bs.Pairwise (· < ·)) (hlast : bs.getLast? = some parts.length)
    (hd : toFewerDivs divs bs = some d') :
    Truthful key d' ((chunks parts bs).map List.flatten) := by
  obtain ⟨hlen, hsorted, hrows⟩ := h
  unfold toFewerDivs at hd
  obtain ⟨hdlen, hdget⟩ := mapM_getElem? _ bs d' hd
  have hle := le_last_of_strict bs _ hpw hlast
  have hdiv_le : ∀ (a b x y : Nat), a ≤ b → divs[a]? = some x → divs[b]? = some y → x ≤ y := by
    intro a b x y hab hx hy
    rcases Nat.eq_or_lt_of_le hab with rfl | hlt
    · rw [hx] at hy; cases hy; exact Nat.le_refl _
    · obtain ⟨ha', rfl⟩ := List.getElem?_eq_some_iff.mp hx
      obtain ⟨hb', rfl⟩ := List.getElem?_eq_some_iff.mp hy
      exact (List.pairwise_iff_getElem.mp hsorted) a b ha' hb' hlt
  have hbs_pos : 0 < bs.length := by
    cases bs with
    | nil => simp at hlast
    | cons _ _ => simp
  refine ⟨by rw [List.length_map, chunks_length]; omega, ?_, ?_⟩
  · rw [List.pairwise_iff_getElem]
    intro i j hi hj hij
    have hib : i < bs.length := by omega
    have hjb : j < bs.length := by omega
    obtain ⟨y1, hy1, hf1⟩ := hdget i _ (List.getElem?_eq_getElem hib)
    obtain ⟨y2, hy2, hf2⟩ := hdget j _ (List.getElem?_eq_getElem hjb)
    rw [List.getElem?_eq_getElem hi] at hy1
    rw [List.getElem?_eq_getElem hj] at hy2
    cases hy1; cases hy2
    have := (List.pairwise_iff_getElem.mp hpw) i j hib hjb hij
    exact hdiv_le _ _ _ _ (Nat.le_of_lt this) hf1 hf2
  · intro j p lo hi hp hlo hhi r hr
    rw [List.getElem?_map, Option.map_eq_some_iff] at hp
    obtain ⟨ch, hch, rfl⟩ := hp
    obtain ⟨a, b, ha, hb, rfl⟩ := (chunks_getElem? parts bs j ch).mp hch
    obtain ⟨pq, hpq, hrq⟩ := List.mem_flatten.mp hr
    obtain ⟨q, haq, hqb, hq⟩ := mem_pySlice parts a b pq hpq
    have hqlt : q < parts.length := (List.getElem?_eq_some_iff.mp hq).1
    obtain ⟨ya, hya, hfa⟩ := hdget j a ha
    obtain ⟨yb, hyb, hfb⟩ := hdget (j + 1) b hb
    rw [hlo] at hya; cases hya
    rw [hhi] at hyb; cases hyb
    have hdq := List.getElem?_eq_getElem (l := divs) (i := q) (by omega)
    have hdq1 := List.getElem?_eq_getElem (l := divs) (i := q + 1) (by omega)
    obtain ⟨hlow, hup⟩ := hrows q pq _ _ hq hdq hdq1 r hrq
    refine ⟨Nat.le_trans (hdiv_le a q _ _ haq hfa hdq) hlow, ?_⟩
    have hble : b ≤ parts.length := hle b (List.mem_of_getElem? hb)
    rcases hup with h1 | ⟨h2, h3⟩
    · left; exact Nat.lt_of_lt_of_le h1 (hdiv_le (q + 1) b _ _ (by omega) hdq1 hfb)
    · right
      have hbe : b = parts.length := by omega
      have hidx := idx_of_last bs _ hpw hlast (j + 1) (by rw [hb, hbe])
      refine ⟨by rw [List.length_map, chunks_length]; omega, ?_⟩
      have : divs[q + 1]? = some hi := by
        have : q + 1 = b := by omega
        rw [this]; exact hfb
      rw [hdq1] at this
      cases this
      exact h3

example : toFewerDivs [0, 3, 5, 9, 12] [0, 2, 4] = some [0, 5, 12] := by decide


/-- FULL STATEMENT for `.loc[a:b]` (`LocSlice`), `a ≤ b` or an open end -/
def LocSliceFullStatement : Prop :=
  ∀ (α : Type) (key : α → Nat) (divs : List Nat) (parts : List (List α)) (a b : Option Nat) (pl : LocPlan)
    (ps' : List (List α)),
    Truthful key divs parts → (∀ x y, a = some x → b = some y → x ≤ y) →
    locSlice divs a b = some pl → locSliceParts key parts pl a b = some ps' → Truthful key pl.divisions ps'

/-- **loc_slice_truthful — `_partial`: the selection falls into one partition** (`start = stop`; this is also
    the shape of `.loc[k]` / `LocElement`). The reported divisions are the slice bounds themselves and the
    single output partition holds exactly the rows with `a ≤ key ≤ b`. (The multi-partition case —
    trimmed first/last partition, untouched middle ones — is validated by the tie; its statement is
    `LocSliceFullStatement`.) -/
theorem loc_slice_truthful_partial {α : Type} (key : α → Nat) (divs : List Nat) (parts : List (List α))
    (x y : Nat) (hxy : x ≤ y) (pl : LocPlan) (ps' : List (List α))
    (hpl : locSlice divs (some x) (some y) = some pl) (hone : pl.stop = pl.start)
    (hps : locSliceParts key parts pl (some x) (some y) = some ps') :
    Truthful key pl.divisions ps' := by
  have hdivs : pl.divisions = [x, y] := by
    unfold locSlice at hpl
    split at hpl
    · cases hpl
    · split at hpl
      · unfold locSliceCore at hpl
        simp only at hpl
        split at hpl
        · cases hpl; rfl
        · rename_i hne
          split at hpl
          · cases hpl; exact absurd hone hne
          · cases hpl
      · cases hpl
  unfold locSliceParts at hps
  simp only [hone, if_true, Option.bind_eq_bind, Option.bind_eq_some_iff, Option.pure_def, Option.some.injEq] at hps
  obtain ⟨p, _, rfl⟩ := hps
  rw [hdivs]
  refine ⟨rfl, by simp [hxy], ?_⟩
  intro i q lo hi hq hlo hhi r hr
  cases i with
  | zero =>
    simp at hq hlo hhi
    subst hq hlo hhi
    unfold locRows at hr
    simp only [List.mem_filter, Bool.and_eq_true, decide_eq_true_eq] at hr
    exact ⟨hr.2.1, Or.inr ⟨rfl, hr.2.2⟩⟩
  | succ i => simp at hq

example : locSlice [0, 5, 18, 25, 28] (some 17) (some 31) = some ⟨1, 3, [17, 18, 25, 28]⟩ := by decide
example : locSlice [0, 5, 18, 25, 28] (some 6) (some 9) = some ⟨1, 1, [6, 9]⟩ := by decide



theorem partitionOf_eq_spp (divs : List Nat) (v : Nat) (h2 : 2 ≤ divs.length) :
    partitionOf divs v = Dask.Shuffle.setPartitionsPre divs (some v) true true := by
  unfold partitionOf Dask.Shuffle.setPartitionsPre
  have hb : bisectRight divs v = Dask.Shuffle.bisectRight divs v := rfl
  simp only [if_true]
  rw [← hb]
  have hle : bisectRight divs v ≤ divs.length := by
    unfold bisectRight; exact (List.takeWhile_sublist _).length_le
  split
  · omega
  · split <;> omega

/-- `_partition_of_index_value`: the interval of the divisions that contains the value (clamped at both ends) -/
theorem partitionOf_spec (divs : List Nat) (v d0 dl : Nat) (hs : divs.Pairwise (· ≤ ·)) (h2 : 2 ≤ divs.length)
    (h0 : divs.head? = some d0) (hl : divs.getLast? = some dl) :
    partitionOf divs v + 2 ≤ divs.length ∧
    (d0 ≤ v → v < dl → ∃ lo hi, divs[partitionOf divs v]? = some lo ∧ divs[partitionOf divs v + 1]? = some hi ∧ lo ≤ v ∧ v < hi) ∧
    (dl ≤ v → partitionOf divs v = divs.length - 2) ∧ (v < d0 → partitionOf divs v = 0) := by
  rw [partitionOf_eq_spp divs v h2]
  exact Dask.C40.set_partitions_pre_spec divs v true d0 dl hs h2 h0 hl



theorem getElem?_last_of_cons_append {β : Type} (a z : β) (mid : List β) (k : Nat) (hk : k = mid.length + 1) :
    (a :: (mid ++ [z]))[k]? = some z := by
  subst hk
  simp [List.getElem?_append_right]

theorem div_le_of_sorted {divs : List Nat} (hsorted : divs.Pairwise (· ≤ ·)) (a b x y : Nat) (hab : a ≤ b)
    (hx : divs[a]? = some x) (hy : divs[b]? = some y) : x ≤ y := by
  rcases Nat.eq_or_lt_of_le hab with rfl | hlt
  · rw [hx] at hy; cases hy; exact Nat.le_refl _
  · obtain ⟨ha', rfl⟩ := List.getElem?_eq_some_iff.mp hx
    obtain ⟨hb', rfl⟩ := List.getElem?_eq_some_iff.mp hy
    exact (List.pairwise_iff_getElem.mp hsorted) a b ha' hb' hlt

/-- **loc_slice_truthful** (closed slice `.loc[x:y]`, `x ≤ y`, selection spanning several partitions): the first
    and last selected partitions are trimmed to the slice, the ones in between are untouched, and the reported
    divisions `(max(x, d_start), d_start+1, …, d_stop, min(y, d_stop+1))` describe them truthfully. -/
theorem loc_slice_truthful_multi {α : Type} (key : α → Nat) (divs : List Nat) (parts : List (List α))
    (x y : Nat) (pl : LocPlan) (ps' : List (List α)) (h : Truthful key divs parts)
    (hpl : locSlice divs (some x) (some y) = some pl) (hne : pl.stop ≠ pl.start)
    (hps : locSliceParts key parts pl (some x) (some y) = some ps') :
    Truthful key pl.divisions ps' := by
  obtain ⟨hlen, hsorted, hrows⟩ := h
  -- unpack the plan
  have h2' : 2 ≤ divs.length := by
    apply Nat.le_of_not_lt
    intro hcon
    simp [locSlice, hcon] at hpl
  have h2 : ¬ divs.length < 2 := by omega
  obtain ⟨d0, hd0⟩ : ∃ d0, divs.head? = some d0 := by
    cases divs with
    | nil => simp at h2'
    | cons a _ => exact ⟨a, rfl⟩
  obtain ⟨dl, hdl⟩ : ∃ dl, divs.getLast? = some dl := by
    cases hq : divs.getLast? with
    | none => rw [List.getLast?_eq_none_iff] at hq; subst hq; simp at h2'
    | some v => exact ⟨v, rfl⟩
  simp only [locSlice, h2, if_false, hd0, hdl] at hpl
  unfold locSliceCore at hpl
  simp only at hpl
  have hne' : ¬ partitionOf divs y = partitionOf divs x := by
    intro heq
    simp only [heq, if_true, Option.some.injEq] at hpl
    subst hpl
    exact hne rfl
  simp only [hne', if_false] at hpl
  obtain ⟨a0', ha0'⟩ : ∃ v, divs[partitionOf divs x]? = some v := by
    cases hq : divs[partitionOf divs x]? with
    | none => simp [hq] at hpl
    | some v => exact ⟨v, rfl⟩
  obtain ⟨b1', hb1'⟩ : ∃ v, divs[partitionOf divs y + 1]? = some v := by
    cases hq : divs[partitionOf divs y + 1]? with
    | none => simp [ha0', hq] at hpl
    | some v => exact ⟨v, rfl⟩
  simp only [ha0', hb1', Option.map_some, Option.some.injEq] at hpl
  subst hpl
  simp only at hne hps ⊢
  -- abbreviations
  obtain ⟨hsb, hsin, hshi, hslo⟩ := partitionOf_spec divs x d0 dl hsorted h2' hd0 hdl
  obtain ⟨hpb, hpin, hphi, hplo⟩ := partitionOf_spec divs y d0 dl hsorted h2' hd0 hdl
  -- the partitions
  unfold locSliceParts at hps
  simp only [hne, if_false, Option.bind_eq_bind] at hps
  split at hps
  · cases hps
  rename_i hnlt
  have hlt : (partitionOf divs x) < (partitionOf divs y) :=
    Nat.lt_of_le_of_ne (Nat.le_of_not_lt hnlt) (fun h => hne h.symm)
  simp only [Option.bind_eq_some_iff, Option.pure_def, Option.some.injEq] at hps
  obtain ⟨first, hfirst, last, hlastp, rfl⟩ := hps
  have hn : (partitionOf divs y) + 1 ≤ parts.length := by omega
  -- values of the divisions involved
  obtain ⟨a0, ha0⟩ : ∃ a0, a0 = a0' ∧ True := ⟨a0', rfl, trivial⟩
  obtain ⟨rfl, _⟩ := ha0
  obtain ⟨b1, hb1x⟩ : ∃ b1, b1 = b1' ∧ True := ⟨b1', rfl, trivial⟩
  obtain ⟨rfl, _⟩ := hb1x
  have ha0 : divs[(partitionOf divs x)]? = some a0 := ha0'
  have hb1 : divs[(partitionOf divs y) + 1]? = some b1 := hb1'
  have ha1 := List.getElem?_eq_getElem (l := divs) (i := (partitionOf divs x) + 1) (by omega)
  have hbs := List.getElem?_eq_getElem (l := divs) (i := (partitionOf divs y)) (by omega)
  -- x is below the division after `(partitionOf divs x)`, y is at or above the division at `(partitionOf divs y)`
  have hx1 : x < divs[(partitionOf divs x) + 1] := by
    rcases Nat.lt_or_ge x d0 with hxl | hxg
    · have hd0' : divs[0]? = some d0 := by
        cases divs with
        | nil => simp at h2'
        | cons a _ => simpa using hd0
      have := div_le_of_sorted hsorted 0 ((partitionOf divs x) + 1) d0 _ (Nat.zero_le _) hd0' ha1
      exact Nat.lt_of_lt_of_le hxl this
    · rcases Nat.lt_or_ge x dl with hxl | hxg2
      · obtain ⟨lo, hi, hlo, hhi, _, hxhi⟩ := hsin hxg hxl
        rw [ha1] at hhi; cases hhi; exact hxhi
      · have := hshi hxg2; omega
  have hy1 : divs[(partitionOf divs y)] ≤ y := by
    rcases Nat.lt_or_ge y d0 with hyl | hyg
    · have := hplo hyl; omega
    · rcases Nat.lt_or_ge y dl with hyl | hyg2
      · obtain ⟨lo, hi, hlo, _, hloy, _⟩ := hpin hyg hyl
        rw [hbs] at hlo; cases hlo; exact hloy
      · have hlast' : divs[divs.length - 1]? = some dl := by rw [← List.getLast?_eq_getElem?]; exact hdl
        have := div_le_of_sorted hsorted (partitionOf divs y) (divs.length - 1) _ dl (by omega) hbs hlast'
        omega
  -- shape of the middle divisions
  have hmidlen : ((divs.drop ((partitionOf divs x) + 1)).take ((partitionOf divs y) + 1 - ((partitionOf divs x) + 1))).length = (partitionOf divs y) - (partitionOf divs x) := by
    rw [List.length_take, List.length_drop]; omega
  have hmidget : ∀ (j : Nat), j < (partitionOf divs y) - (partitionOf divs x) →
      ((divs.drop ((partitionOf divs x) + 1)).take ((partitionOf divs y) + 1 - ((partitionOf divs x) + 1)))[j]? = divs[(partitionOf divs x) + 1 + j]? := by
    intro j hj
    rw [List.getElem?_take, if_pos (by omega), List.getElem?_drop]
  have hpmidlen : ((parts.drop ((partitionOf divs x) + 1)).take ((partitionOf divs y) - (partitionOf divs x) - 1)).length = (partitionOf divs y) - (partitionOf divs x) - 1 := by
    rw [List.length_take, List.length_drop]; omega
  have hpmidget : ∀ (j : Nat), j < (partitionOf divs y) - (partitionOf divs x) - 1 →
      ((parts.drop ((partitionOf divs x) + 1)).take ((partitionOf divs y) - (partitionOf divs x) - 1))[j]? = parts[(partitionOf divs x) + 1 + j]? := by
    intro j hj
    rw [List.getElem?_take, if_pos (by omega), List.getElem?_drop]
  -- every reported division by position
  have hd'get : ∀ (j : Nat), 1 ≤ j → j ≤ (partitionOf divs y) - (partitionOf divs x) →
      (max x a0 :: ((divs.drop ((partitionOf divs x) + 1)).take ((partitionOf divs y) + 1 - ((partitionOf divs x) + 1)) ++ [min y b1]))[j]? = divs[(partitionOf divs x) + j]? := by
    intro j hj1 hj2
    obtain ⟨j', rfl⟩ : ∃ j', j = j' + 1 := ⟨j - 1, by omega⟩
    rw [List.getElem?_cons_succ, List.getElem?_append_left (by omega), hmidget j' (by omega)]
    congr 1; omega
  have hd'last : (max x a0 :: ((divs.drop ((partitionOf divs x) + 1)).take ((partitionOf divs y) + 1 - ((partitionOf divs x) + 1)) ++ [min y b1]))[(partitionOf divs y) - (partitionOf divs x) + 1]? = some (min y b1) := by
    rw [List.getElem?_cons_succ, List.getElem?_append_right (by omega), hmidlen]; simp
  refine ⟨by simp [hmidlen, hpmidlen]; omega, ?_, ?_⟩
  · -- sorted
    rw [List.pairwise_iff_getElem]
    intro i j hi hj hij
    have hlen' : (max x a0 :: ((divs.drop ((partitionOf divs x) + 1)).take ((partitionOf divs y) + 1 - ((partitionOf divs x) + 1)) ++ [min y b1])).length = (partitionOf divs y) - (partitionOf divs x) + 2 := by
      simp only [List.length_cons, List.length_append, hmidlen, List.length_nil]
    -- value at a position, as a bound
    have lower : ∀ (t : Nat) (ht : t < (partitionOf divs y) - (partitionOf divs x) + 2) (v : Nat),
        (max x a0 :: ((divs.drop ((partitionOf divs x) + 1)).take ((partitionOf divs y) + 1 - ((partitionOf divs x) + 1)) ++ [min y b1]))[t]? = some v →
        (t = 0 → v = max x a0) ∧ (1 ≤ t → t ≤ (partitionOf divs y) - (partitionOf divs x) → divs[(partitionOf divs x) + t]? = some v) ∧ (t = (partitionOf divs y) - (partitionOf divs x) + 1 → v = min y b1) := by
      intro t ht v hv
      refine ⟨?_, ?_, ?_⟩
      · intro h0; subst h0; simpa using hv.symm
      · intro h1 h2; rw [hd'get t h1 h2] at hv; exact hv
      · intro h3; subst h3; rw [hd'last] at hv; exact (Option.some.inj hv).symm
    have hvi := List.getElem?_eq_getElem hi
    have hvj := List.getElem?_eq_getElem hj
    obtain ⟨li0, limid, lilast⟩ := lower i (by omega) _ hvi
    obtain ⟨lj0, ljmid, ljlast⟩ := lower j (by omega) _ hvj
    have hmax_le : max x a0 ≤ divs[(partitionOf divs x) + 1] := by
      have := div_le_of_sorted hsorted (partitionOf divs x) ((partitionOf divs x) + 1) a0 _ (by omega) ha0 ha1
      omega
    have hmin_ge : divs[(partitionOf divs y)] ≤ min y b1 := by
      have := div_le_of_sorted hsorted (partitionOf divs y) ((partitionOf divs y) + 1) _ b1 (by omega) hbs hb1
      omega
    rcases Nat.eq_zero_or_pos i with hi0 | hipos
    · rw [li0 hi0]
      rcases Nat.lt_or_ge j ((partitionOf divs y) - (partitionOf divs x) + 1) with hjm | hjl
      · have hjv := ljmid (by omega) (by omega)
        have := div_le_of_sorted hsorted ((partitionOf divs x) + 1) ((partitionOf divs x) + j) _ _ (by omega) ha1 hjv
        omega
      · rw [ljlast (by omega)]
        have := div_le_of_sorted hsorted ((partitionOf divs x) + 1) (partitionOf divs y) _ _ (by omega) ha1 hbs
        omega
    · have hiv := limid hipos (by omega)
      rcases Nat.lt_or_ge j ((partitionOf divs y) - (partitionOf divs x) + 1) with hjm | hjl
      · exact div_le_of_sorted hsorted ((partitionOf divs x) + i) ((partitionOf divs x) + j) _ _ (by omega) hiv (ljmid (by omega) (by omega))
      · rw [ljlast (by omega)]
        have := div_le_of_sorted hsorted ((partitionOf divs x) + i) (partitionOf divs y) _ _ (by omega) hiv hbs
        omega
  · -- row bounds
    intro j p lo hi hp hlo hhi r hr
    have hplen : (locRows key first (some x) none :: ((parts.drop ((partitionOf divs x) + 1)).take ((partitionOf divs y) - (partitionOf divs x) - 1) ++ [locRows key last none (some y)])).length = (partitionOf divs y) - (partitionOf divs x) + 1 := by
      simp [hpmidlen]; omega
    have hjlt : j < (partitionOf divs y) - (partitionOf divs x) + 1 := by
      have := (List.getElem?_eq_some_iff.mp hp).1; omega
    rcases Nat.eq_zero_or_pos j with hj0 | hjpos
    · -- first selected partition
      subst hj0
      simp only [List.getElem?_cons_zero, Option.some.injEq] at hp hlo
      subst hp; subst hlo
      rw [hd'get 1 (by omega) (by omega), ha1] at hhi
      cases hhi
      unfold locRows at hr
      simp only [List.mem_filter, Bool.and_eq_true, decide_eq_true_eq, Bool.and_true] at hr
      obtain ⟨hrf, hxr⟩ := hr
      obtain ⟨hlow, hup⟩ := hrows (partitionOf divs x) first a0 _ hfirst ha0 ha1 r hrf
      refine ⟨by omega, Or.inl ?_⟩
      rcases hup with h1 | ⟨h2, _⟩
      · exact h1
      · omega
    · rcases Nat.lt_or_ge j ((partitionOf divs y) - (partitionOf divs x)) with hjm | hjl
      · -- an untouched middle partition
        obtain ⟨j', rfl⟩ : ∃ j', j = j' + 1 := ⟨j - 1, by omega⟩
        rw [List.getElem?_cons_succ, List.getElem?_append_left (by omega), hpmidget j' (by omega)] at hp
        rw [hd'get (j' + 1) (by omega) (by omega)] at hlo
        rw [hd'get (j' + 1 + 1) (by omega) (by omega)] at hhi
        have e1 : (partitionOf divs x) + 1 + j' = (partitionOf divs x) + (j' + 1) := by omega
        have e2 : (partitionOf divs x) + (j' + 1 + 1) = (partitionOf divs x) + (j' + 1) + 1 := by omega
        rw [e1] at hp; rw [e2] at hhi
        obtain ⟨hlow, hup⟩ := hrows ((partitionOf divs x) + (j' + 1)) p lo hi hp hlo hhi r hr
        refine ⟨hlow, Or.inl ?_⟩
        rcases hup with h1 | ⟨h2, _⟩
        · exact h1
        · omega
      · -- last selected partition
        have hje : j = (partitionOf divs y) - (partitionOf divs x) := by omega
        subst hje
        have hpl' := getElem?_last_of_cons_append (locRows key first (some x) none) (locRows key last none (some y))
          ((parts.drop ((partitionOf divs x) + 1)).take ((partitionOf divs y) - (partitionOf divs x) - 1))
          ((partitionOf divs y) - (partitionOf divs x)) (by rw [hpmidlen]; omega)
        rw [hpl'] at hp
        have hp2 := Option.some.inj hp
        subst hp2
        rw [hd'get ((partitionOf divs y) - (partitionOf divs x)) (by omega) (by omega)] at hlo
        have e3 : (partitionOf divs x) + ((partitionOf divs y) - (partitionOf divs x)) = (partitionOf divs y) := by omega
        rw [e3, hbs] at hlo
        cases hlo
        rw [hd'last] at hhi
        cases hhi
        unfold locRows at hr
        simp only [List.mem_filter, Bool.and_eq_true, decide_eq_true_eq, Bool.true_and] at hr
        obtain ⟨hrl, hry⟩ := hr
        obtain ⟨hlow, hup⟩ := hrows (partitionOf divs y) last _ b1 hlastp hbs hb1 r hrl
        refine ⟨hlow, Or.inr ⟨by omega, ?_⟩⟩
        rcases hup with h1 | ⟨_, h2⟩ <;> omega


/-- **loc_slice_truthful** (closed slice `.loc[x:y]`): whatever the number of partitions the selection touches,
    the reported divisions describe the resulting partitions truthfully. (Open-ended slices `.loc[x:]`, `.loc[:y]`
    are validated by the tie; `LocSliceFullStatement` is the statement including them.) -/
theorem loc_slice_truthful {α : Type} (key : α → Nat) (divs : List Nat) (parts : List (List α))
    (x y : Nat) (hxy : x ≤ y) (pl : LocPlan) (ps' : List (List α)) (h : Truthful key divs parts)
    (hpl : locSlice divs (some x) (some y) = some pl)
    (hps : locSliceParts key parts pl (some x) (some y) = some ps') :
    Truthful key pl.divisions ps' := by
  by_cases hone : pl.stop = pl.start
  · exact loc_slice_truthful_partial key divs parts x y hxy pl ps' hpl hone hps
  · exact loc_slice_truthful_multi key divs parts x y pl ps' h hpl hone hps

/-! non-vacuity -/
example : sdl ([(0 : Nat), 0, 1, 1, 1, 1, 2, 2, 4, 5, 5, 5, 5].map id) (.npartitions 4) =
    some ([0, 1, 2, 5, 5], [0, 2, 6, 9, 13]) := by decide

example : Truthful (fun (k : Nat) => k) [0, 3, 5, 5] [[0, 2, 2], [3, 4], [5, 5]] := by
  refine ⟨rfl, by decide, ?_⟩
  intro i p lo hi hp hlo hhi r hr
  match i with
  | 0 => simp at hp hlo hhi; subst hp hlo hhi; simp at hr; rcases hr with rfl | rfl <;> simp
  | 1 => simp at hp hlo hhi; subst hp hlo hhi; simp at hr; rcases hr with rfl | rfl <;> simp
  | 2 => simp at hp hlo hhi; subst hp hlo hhi; simp at hr; subst hr; simp
  | n + 3 => simp at hp

end Dask.C41
