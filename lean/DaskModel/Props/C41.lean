import DaskModel.Lemmas.TruthfulPaths
import DaskModel.Props.C45
import DaskModel.Props.C40
import DaskModel.Lemmas.RepartDivs
import DaskModel.Lemmas.RepartWalk
/-! # C41 — known divisions always describe the partitions truthfully (theorems)

`Truthful key divs parts` (Lemmas/Truthful.lean) is the statement's predicate. One theorem per
construction path that can report known divisions. -/
namespace Dask.C41
open Dask.Divs Dask.Repart Dask.SDL Dask.C45

/-- **Filtering** keeps known divisions truthful (`Filter._divisions` forwards the frame's divisions). -/
theorem filter_preserves {α : Type} (key : α → Nat) (divs : List Nat) (parts : List (List α))
    (pred : α → Bool) (h : Truthful key divs parts) :
    Truthful key divs (parts.map (·.filter pred)) :=
  h.map _ fun _ r hr => ⟨r, (List.mem_filter.mp hr).1, rfl⟩

/-- **Shuffle-free blockwise operations** that transform rows one by one without touching the index
    (assign, projection, arithmetic, `map_partitions` of such functions) keep divisions truthful. -/
theorem blockwise_preserves {α β : Type} (key : α → Nat) (key' : β → Nat) (divs : List Nat)
    (parts : List (List α)) (g : α → β) (hg : ∀ r, key' (g r) = key r) (h : Truthful key divs parts) :
    Truthful key' divs (parts.map (·.map g)) :=
  h.map _ fun _ r hr => by
    obtain ⟨r', hr', rfl⟩ := List.mem_map.mp hr
    exact ⟨r', hr', hg r'⟩

/-- partition-wise operations returning any sub-multiset / reordering of the partition's rows
    (`head`-per-partition, sorting inside a partition, dropping duplicates) keep divisions truthful -/
theorem partitionwise_subset_preserves {α : Type} (key : α → Nat) (divs : List Nat) (parts : List (List α))
    (f : List α → List α) (hf : ∀ p, ∀ r ∈ f p, r ∈ p) (h : Truthful key divs parts) :
    Truthful key divs (parts.map f) :=
  h.map f fun p r hr => ⟨r, hf p r hr, rfl⟩

/-- **truthfulB_iff** (re-exported): the executable oracle used by the tie decides exactly `Truthful` -/
theorem truthfulB_decides (divs : List Nat) (parts : List (List Nat)) :
    truthfulB divs parts = true ↔ Truthful (fun k => k) divs parts := truthfulB_iff divs parts


/-- every element of a strictly increasing list is `≤` its last element -/
theorem le_last_of_strict (bs : List Nat) (l : Nat) (hp : bs.Pairwise (· < ·)) (hl : bs.getLast? = some l) :
    ∀ a ∈ bs, a ≤ l :=
  le_last_of_mono bs l (hp.imp (fun h => Nat.le_of_lt h)) hl

/-- in a strictly increasing list only the last position holds the last value -/
theorem idx_of_last (bs : List Nat) (l : Nat) (hp : bs.Pairwise (· < ·)) (hl : bs.getLast? = some l)
    (j : Nat) (hj : bs[j]? = some l) : j + 1 = bs.length := by
  obtain ⟨hjlt, hje⟩ := List.getElem?_eq_some_iff.mp hj
  rcases Nat.lt_or_ge (j + 1) bs.length with hlt | hge
  · exfalso
    have hlast : bs[bs.length - 1]? = some l := by rw [← List.getLast?_eq_getElem?]; exact hl
    obtain ⟨hl1, hl2⟩ := List.getElem?_eq_some_iff.mp hlast
    have := (List.pairwise_iff_getElem.mp hp) j (bs.length - 1) hjlt hl1 (by omega)
    omega
  · omega

/-- **from_pandas_truthful**: partitions cut at the locations planned by `sorted_division_locations`
    are described truthfully by the planned divisions — for every sorted frame, both modes. -/
theorem from_pandas_truthful {α : Type} (key : α → Nat) (rows : List α) (m : Mode) (divs locs : List Nat)
    (hs : Sorted (rows.map key)) (h : sdl (rows.map key) m = some (divs, locs)) :
    Truthful key divs (cut rows locs) := by
  have hseq : ∀ (t : Nat) (r : α), rows[t]? = some r → (rows.map key)[t]? = some (key r) := by
    intro t r ht; simp [List.getElem?_map, ht]
  obtain ⟨h0, hlast, hpw⟩ := sdl_locations_strict hs h
  have hval := sdl_division_is_value_at_location hs h
  have hfo := sdl_boundary_first_occurrence hs h
  have hlen : divs.length = locs.length := hval.length_eq
  have hlocs_pos : 0 < locs.length := by
    cases locs with
    | nil => simp at h0
    | cons _ _ => simp
  have hle := le_last_of_strict locs _ hpw hlast
  have hmaplen : (rows.map key).length = rows.length := List.length_map _
  rw [cut_eq_chunks]
  refine ⟨by rw [chunks_length]; omega, ?_, ?_⟩
  · -- divisions sorted
    rw [List.pairwise_iff_getElem]
    intro i j hi hj hij
    have hil : i < locs.length := by omega
    have hjl : j < locs.length := by omega
    have hli := List.getElem?_eq_getElem hil
    have hlj := List.getElem?_eq_getElem hjl
    have hlt : locs[i] < locs[j] := (List.pairwise_iff_getElem.mp hpw) i j hil hjl hij
    have hjle : locs[j] ≤ (rows.map key).length := hle _ (List.getElem_mem hjl)
    have hRi := hval.get i divs[i] locs[i] (List.getElem?_eq_getElem hi) hli
    have hRj := hval.get j divs[j] locs[j] (List.getElem?_eq_getElem hj) hlj
    rw [if_neg (by omega)] at hRi
    split at hRj
    · rename_i hje
      have hlastseq : (rows.map key)[(rows.map key).length - 1]? = some divs[j] := by
        rw [← List.getLast?_eq_getElem?]; exact hRj
      exact sorted_get_le hs (by omega) hRi hlastseq
    · exact sorted_get_le hs (Nat.le_of_lt hlt) hRi hRj
  · intro i p lo hi hp hlo hhi r hr
    obtain ⟨a, b, ha, hb, rfl⟩ := (chunks_getElem? rows locs i p).mp hp
    obtain ⟨t, hat, htb, hrt⟩ := mem_pySlice rows a b r hr
    have hkt := hseq t r hrt
    have hab : a < b := by omega
    have hble : b ≤ (rows.map key).length := hle b (List.mem_of_getElem? hb)
    have hRa := hval.get i lo a hlo ha
    rw [if_neg (by omega)] at hRa
    refine ⟨sorted_get_le hs hat hRa hkt, ?_⟩
    have hRb := hval.get (i + 1) hi b hhi hb
    split at hRb
    · rename_i hbe
      right
      have hidx := idx_of_last locs _ hpw hlast (i + 1) (by rw [hb, hbe])
      refine ⟨by rw [chunks_length]; omega, ?_⟩
      have hlastseq : (rows.map key)[(rows.map key).length - 1]? = some hi := by
        rw [← List.getLast?_eq_getElem?]; exact hRb
      exact sorted_get_le hs (by omega) hkt hlastseq
    · rename_i hbne
      left
      obtain ⟨v, hv, hbefore⟩ := hfo b (List.mem_of_getElem? hb) (by omega) hbne
      rw [hRb] at hv
      cases hv
      obtain ⟨w, hw, hwv⟩ := hbefore t htb
      rw [hkt] at hw
      cases hw
      exact hwv



/-- **partitions_truthful**: selecting partitions in increasing order (`df.partitions[sel]`, `get_partition`,
    the partition pruning of `.loc`) keeps the divisions truthful. -/
theorem partitions_truthful {α : Type} (key : α → Nat) (divs : List Nat) (parts : List (List α))
    (sel : List Nat) (d' : List Nat) (ps' : List (List α))
    (hsel : sel.Pairwise (· < ·)) (h : Truthful key divs parts)
    (hd : partitionsDivs divs sel = some d') (hp : partitionsParts parts sel = some ps') :
    Truthful key d' ps' := by
  obtain ⟨hlen, hsorted, hrows⟩ := h
  unfold partitionsDivs at hd
  simp only [Option.bind_eq_bind, Option.bind_eq_some_iff, Option.pure_def, Option.some.injEq] at hd
  obtain ⟨lastSel, hlast, ds, hds, dl, hdl, rfl⟩ := hd
  unfold partitionsParts at hp
  obtain ⟨hdslen, hdsget⟩ := mapM_getElem? _ sel ds hds
  obtain ⟨hpslen, hpsget⟩ := mapM_getElem? _ sel ps' hp
  have hsel_pos : 0 < sel.length := by
    cases sel with
    | nil => simp at hlast
    | cons _ _ => simp
  have hlastidx : sel[sel.length - 1]? = some lastSel := by rw [← List.getLast?_eq_getElem?]; exact hlast
  -- value of d' at a position
  have hd'get : ∀ (j : Nat), j < sel.length → ∃ s, sel[j]? = some s ∧ (ds ++ [dl])[j]? = divs[s]? ∧ (ds ++ [dl])[j]? ≠ none := by
    intro j hj
    have hs := List.getElem?_eq_getElem hj
    obtain ⟨y, hy, hfy⟩ := hdsget j _ hs
    refine ⟨sel[j], hs, ?_, ?_⟩
    · rw [List.getElem?_append_left (by omega), hy, hfy]
    · rw [List.getElem?_append_left (by omega), hy]; simp
  have hd'last : (ds ++ [dl])[sel.length]? = some dl := by
    rw [List.getElem?_append_right (by omega)]; simp [hdslen]
  have hmono : ∀ (i j a b : Nat), i < j → sel[i]? = some a → sel[j]? = some b → a < b := by
    intro i j a b hij ha hb
    obtain ⟨hi', rfl⟩ := List.getElem?_eq_some_iff.mp ha
    obtain ⟨hj', rfl⟩ := List.getElem?_eq_some_iff.mp hb
    exact (List.pairwise_iff_getElem.mp hsel) i j hi' hj' hij
  have hdiv_le : ∀ (a b x y : Nat), a ≤ b → divs[a]? = some x → divs[b]? = some y → x ≤ y := by
    intro a b x y hab hx hy
    rcases Nat.eq_or_lt_of_le hab with rfl | hlt
    · rw [hx] at hy; cases hy; exact Nat.le_refl _
    · obtain ⟨ha', rfl⟩ := List.getElem?_eq_some_iff.mp hx
      obtain ⟨hb', rfl⟩ := List.getElem?_eq_some_iff.mp hy
      exact (List.pairwise_iff_getElem.mp hsorted) a b ha' hb' hlt
  refine ⟨by simp [hpslen, hdslen], ?_, ?_⟩
  · -- sorted
    rw [List.pairwise_iff_getElem]
    intro i j hi hj hij
    have hlen' : (ds ++ [dl]).length = sel.length + 1 := by simp [hdslen]
    have hi' : i < sel.length := by omega
    obtain ⟨si, hsi, hvi, _⟩ := hd'get i hi'
    rw [List.getElem?_eq_getElem hi] at hvi
    rcases Nat.lt_or_ge j sel.length with hjl | hjl
    · obtain ⟨sj, hsj, hvj, _⟩ := hd'get j hjl
      rw [List.getElem?_eq_getElem hj] at hvj
      exact hdiv_le si sj _ _ (Nat.le_of_lt (hmono i j si sj hij hsi hsj)) hvi.symm hvj.symm
    · have hje : j = sel.length := by omega
      subst hje
      have : (ds ++ [dl])[sel.length] = dl := by
        have := List.getElem?_eq_getElem hj
        rw [hd'last] at this; exact (Option.some.inj this).symm
      rw [this]
      have hsle : si ≤ lastSel := by
        rcases Nat.eq_or_lt_of_le (show i ≤ sel.length - 1 by omega) with he | hl
        · rw [he] at hsi; rw [hsi] at hlastidx; cases hlastidx; exact Nat.le_refl _
        · exact Nat.le_of_lt (hmono i (sel.length - 1) si lastSel hl hsi hlastidx)
      exact hdiv_le si (lastSel + 1) _ _ (by omega) hvi.symm hdl
  · intro j p lo hi hpj hlo hhi r hr
    have hjlt : j < ps'.length := (List.getElem?_eq_some_iff.mp hpj).1
    have hj : j < sel.length := by omega
    obtain ⟨sj, hsj, hvj, _⟩ := hd'get j hj
    obtain ⟨y, hy, hfy⟩ := hpsget j sj hsj
    rw [hpj] at hy; cases hy
    rw [hlo] at hvj
    -- bounds of the source partition
    have hsjlt : sj < parts.length := (List.getElem?_eq_some_iff.mp hfy).1
    have hhi_src := List.getElem?_eq_getElem (l := divs) (i := sj + 1) (by omega)
    obtain ⟨hlow, hup⟩ := hrows sj p lo _ hfy hvj.symm hhi_src r hr
    refine ⟨hlow, ?_⟩
    rcases Nat.lt_or_ge (j + 1) sel.length with hnl | hl
    · -- not the last selected partition
      obtain ⟨sn, hsn, hvn, _⟩ := hd'get (j + 1) hnl
      rw [hhi] at hvn
      have hlt := hmono j (j + 1) sj sn (by omega) hsj hsn
      obtain ⟨pn, _, hfn⟩ := hpsget (j + 1) sn hsn
      have hsnlt : sn < parts.length := (List.getElem?_eq_some_iff.mp hfn).1
      left
      rcases hup with h1 | ⟨h2, _⟩
      · exact Nat.lt_of_lt_of_le h1 (hdiv_le (sj + 1) sn _ _ (by omega) hhi_src hvn.symm)
      · omega
    · -- the last selected partition
      have hje : j + 1 = sel.length := by omega
      have hsje : sj = lastSel := by
        have : sel[j]? = sel[sel.length - 1]? := by congr 1; omega
        rw [hsj, hlastidx] at this; exact Option.some.inj this
      subst hsje
      rw [hje, hd'last] at hhi
      have hidl : dl = hi := Option.some.inj hhi
      rw [hdl] at hhi_src
      have hval : divs[sj + 1] = hi := by rw [← hidl]; exact (Option.some.inj hhi_src).symm
      rw [hval] at hup
      rcases hup with h1 | ⟨_, h2⟩
      · left; exact h1
      · right; exact ⟨by omega, h2⟩

/-- without the ordering hypothesis the claim fails: `partitions[[1, 0]]` reports unsorted divisions -/
example : partitionsDivs [0, 5, 9] [1, 0] = some [5, 0, 5] := by decide
example : partitionsDivs [0, 5, 9, 12] [0, 2] = some [0, 9, 12] := by decide


/-- **tofewer_truthful**: `RepartitionToFewer` (and every "concatenate contiguous partitions" layer, e.g.
    `RepartitionSize` without splitting) keeps known divisions truthful: output `j` concatenates the input
    partitions `bs[j] … bs[j+1]-1` and reports the divisions `divs[bs[j]]`. -/
theorem tofewer_truthful {α : Type} (key : α → Nat) (divs : List Nat) (parts : List (List α))
    (bs d' : List Nat) (h : Truthful key divs parts)
    (hpw : bs.Pairwise (· < ·)) (hlast : bs.getLast? = some parts.length)
    (hd : toFewerDivs divs bs = some d') :
    Truthful key d' ((chunks parts bs).map List.flatten) := by
  obtain ⟨hlen, hsorted, hrows⟩ := h
  unfold toFewerDivs at hd
  obtain ⟨hdlen, hdget⟩ := mapM_getElem? _ bs d' hd
  have hle := le_last_of_strict bs _ hpw hlast
  have hdiv_le : ∀ (a b x y : Nat), a ≤ b → divs[a]? = some x → divs[b]? = some y → x ≤ y := by
    intro a b x y hab hx hy
    rcases Nat.eq_or_lt_of_le hab with rfl | hlt
    · rw [hx] at hy; cases hy; exact Nat.le_refl _
    · obtain ⟨ha', rfl⟩ := List.getElem?_eq_some_iff.mp hx
      obtain ⟨hb', rfl⟩ := List.getElem?_eq_some_iff.mp hy
      exact (List.pairwise_iff_getElem.mp hsorted) a b ha' hb' hlt
  have hbs_pos : 0 < bs.length := by
    cases bs with
    | nil => simp at hlast
    | cons _ _ => simp
  refine ⟨by rw [List.length_map, chunks_length]; omega, ?_, ?_⟩
  · rw [List.pairwise_iff_getElem]
    intro i j hi hj hij
    have hib : i < bs.length := by omega
    have hjb : j < bs.length := by omega
    obtain ⟨y1, hy1, hf1⟩ := hdget i _ (List.getElem?_eq_getElem hib)
    obtain ⟨y2, hy2, hf2⟩ := hdget j _ (List.getElem?_eq_getElem hjb)
    rw [List.getElem?_eq_getElem hi] at hy1
    rw [List.getElem?_eq_getElem hj] at hy2
    cases hy1; cases hy2
    have := (List.pairwise_iff_getElem.mp hpw) i j hib hjb hij
    exact hdiv_le _ _ _ _ (Nat.le_of_lt this) hf1 hf2
  · intro j p lo hi hp hlo hhi r hr
    rw [List.getElem?_map, Option.map_eq_some_iff] at hp
    obtain ⟨ch, hch, rfl⟩ := hp
    obtain ⟨a, b, ha, hb, rfl⟩ := (chunks_getElem? parts bs j ch).mp hch
    obtain ⟨pq, hpq, hrq⟩ := List.mem_flatten.mp hr
    obtain ⟨q, haq, hqb, hq⟩ := mem_pySlice parts a b pq hpq
    have hqlt : q < parts.length := (List.getElem?_eq_some_iff.mp hq).1
    obtain ⟨ya, hya, hfa⟩ := hdget j a ha
    obtain ⟨yb, hyb, hfb⟩ := hdget (j + 1) b hb
    rw [hlo] at hya; cases hya
    rw [hhi] at hyb; cases hyb
    have hdq := List.getElem?_eq_getElem (l := divs) (i := q) (by omega)
    have hdq1 := List.getElem?_eq_getElem (l := divs) (i := q + 1) (by omega)
    obtain ⟨hlow, hup⟩ := hrows q pq _ _ hq hdq hdq1 r hrq
    refine ⟨Nat.le_trans (hdiv_le a q _ _ haq hfa hdq) hlow, ?_⟩
    have hble : b ≤ parts.length := hle b (List.mem_of_getElem? hb)
    rcases hup with h1 | ⟨h2, h3⟩
    · left; exact Nat.lt_of_lt_of_le h1 (hdiv_le (q + 1) b _ _ (by omega) hdq1 hfb)
    · right
      have hbe : b = parts.length := by omega
      have hidx := idx_of_last bs _ hpw hlast (j + 1) (by rw [hb, hbe])
      refine ⟨by rw [List.length_map, chunks_length]; omega, ?_⟩
      have : divs[q + 1]? = some hi := by
        have : q + 1 = b := by omega
        rw [this]; exact hfb
      rw [hdq1] at this
      cases this
      exact h3

example : toFewerDivs [0, 3, 5, 9, 12] [0, 2, 4] = some [0, 5, 12] := by decide


theorem partitionOf_eq_spp (divs : List Nat) (v : Nat) (h2 : 2 ≤ divs.length) :
    partitionOf divs v = Dask.Shuffle.setPartitionsPre divs (some v) true true := by
  unfold partitionOf Dask.Shuffle.setPartitionsPre
  have hb : bisectRight divs v = Dask.Shuffle.bisectRight divs v := rfl
  simp only [if_true]
  rw [← hb]
  have hle : bisectRight divs v ≤ divs.length := by
    unfold bisectRight; exact (List.takeWhile_sublist _).length_le
  split
  · omega
  · split <;> omega

/-- `_partition_of_index_value`: the interval of the divisions that contains the value (clamped at both ends) -/
theorem partitionOf_spec (divs : List Nat) (v d0 dl : Nat) (hs : divs.Pairwise (· ≤ ·)) (h2 : 2 ≤ divs.length)
    (h0 : divs.head? = some d0) (hl : divs.getLast? = some dl) :
    partitionOf divs v + 2 ≤ divs.length ∧
    (d0 ≤ v → v < dl → ∃ lo hi, divs[partitionOf divs v]? = some lo ∧ divs[partitionOf divs v + 1]? = some hi ∧ lo ≤ v ∧ v < hi) ∧
    (dl ≤ v → partitionOf divs v = divs.length - 2) ∧ (v < d0 → partitionOf divs v = 0) := by
  rw [partitionOf_eq_spp divs v h2]
  exact Dask.C40.set_partitions_pre_spec divs v true d0 dl hs h2 h0 hl



theorem getElem?_last_of_cons_append {β : Type} (a z : β) (mid : List β) (k : Nat) (hk : k = mid.length + 1) :
    (a :: (mid ++ [z]))[k]? = some z := by
  subst hk
  simp [List.getElem?_append_right]

theorem div_le_of_sorted {divs : List Nat} (hsorted : divs.Pairwise (· ≤ ·)) (a b x y : Nat) (hab : a ≤ b)
    (hx : divs[a]? = some x) (hy : divs[b]? = some y) : x ≤ y := by
  rcases Nat.eq_or_lt_of_le hab with rfl | hlt
  · rw [hx] at hy; cases hy; exact Nat.le_refl _
  · obtain ⟨ha', rfl⟩ := List.getElem?_eq_some_iff.mp hx
    obtain ⟨hb', rfl⟩ := List.getElem?_eq_some_iff.mp hy
    exact (List.pairwise_iff_getElem.mp hsorted) a b ha' hb' hlt

/-- **window of partitions**: keep partitions `s … e` (`s < e`) of a truthful frame, trim the first to rows with
    key `≥ ds` and the last to rows with key `≤ de`; the divisions `(ds, divs[s+1], …, divs[e], de)` describe the
    result truthfully whenever `ds ≤ divs[s+1]` and `divs[e] ≤ de`. (Shape of `LocSlice._layer` / `_divisions`
    for closed and open-ended slices.) -/
theorem window_truthful {α : Type} (key : α → Nat) (divs : List Nat) (parts : List (List α))
    (s e ds de : Nat) (first last first' last' : List α) (h : Truthful key divs parts)
    (hse : s < e) (he : e + 1 ≤ parts.length)
    (hfirst : parts[s]? = some first) (hlastp : parts[e]? = some last)
    (hf' : ∀ r ∈ first', r ∈ first ∧ ds ≤ key r) (hl' : ∀ r ∈ last', r ∈ last ∧ key r ≤ de)
    (hds : ∀ v, divs[s + 1]? = some v → ds ≤ v) (hde : ∀ v, divs[e]? = some v → v ≤ de) :
    Truthful key (ds :: ((divs.drop (s + 1)).take (e + 1 - (s + 1)) ++ [de]))
      (first' :: ((parts.drop (s + 1)).take (e - s - 1) ++ [last'])) := by
  obtain ⟨hlen, hsorted, hrows⟩ := h
  have ha1 := List.getElem?_eq_getElem (l := divs) (i := s + 1) (by omega)
  have hbs := List.getElem?_eq_getElem (l := divs) (i := e) (by omega)
  have ha0 := List.getElem?_eq_getElem (l := divs) (i := s) (by omega)
  have hb1 := List.getElem?_eq_getElem (l := divs) (i := e + 1) (by omega)
  have hmidlen : ((divs.drop (s + 1)).take (e + 1 - (s + 1))).length = e - s := by
    rw [List.length_take, List.length_drop]; omega
  have hmidget : ∀ (j : Nat), j < e - s →
      ((divs.drop (s + 1)).take (e + 1 - (s + 1)))[j]? = divs[s + 1 + j]? := by
    intro j hj
    rw [List.getElem?_take, if_pos (by omega), List.getElem?_drop]
  have hpmidlen : ((parts.drop (s + 1)).take (e - s - 1)).length = e - s - 1 := by
    rw [List.length_take, List.length_drop]; omega
  have hpmidget : ∀ (j : Nat), j < e - s - 1 →
      ((parts.drop (s + 1)).take (e - s - 1))[j]? = parts[s + 1 + j]? := by
    intro j hj
    rw [List.getElem?_take, if_pos (by omega), List.getElem?_drop]
  have hd'get : ∀ (j : Nat), 1 ≤ j → j ≤ e - s →
      (ds :: ((divs.drop (s + 1)).take (e + 1 - (s + 1)) ++ [de]))[j]? = divs[s + j]? := by
    intro j hj1 hj2
    obtain ⟨j', rfl⟩ : ∃ j', j = j' + 1 := ⟨j - 1, by omega⟩
    rw [List.getElem?_cons_succ, List.getElem?_append_left (by omega), hmidget j' (by omega)]
    congr 1; omega
  have hd'last : (ds :: ((divs.drop (s + 1)).take (e + 1 - (s + 1)) ++ [de]))[e - s + 1]? = some de := by
    rw [List.getElem?_cons_succ, List.getElem?_append_right (by omega), hmidlen]; simp
  have hds' : ds ≤ divs[s + 1] := hds _ ha1
  have hde' : divs[e] ≤ de := hde _ hbs
  refine ⟨by simp [hmidlen, hpmidlen]; omega, ?_, ?_⟩
  · rw [List.pairwise_iff_getElem]
    intro i j hi hj hij
    have hlen' : (ds :: ((divs.drop (s + 1)).take (e + 1 - (s + 1)) ++ [de])).length = e - s + 2 := by
      simp only [List.length_cons, List.length_append, hmidlen, List.length_nil]
    have lower : ∀ (t : Nat) (_ : t < e - s + 2) (v : Nat),
        (ds :: ((divs.drop (s + 1)).take (e + 1 - (s + 1)) ++ [de]))[t]? = some v →
        (t = 0 → v = ds) ∧ (1 ≤ t → t ≤ e - s → divs[s + t]? = some v) ∧ (t = e - s + 1 → v = de) := by
      intro t ht v hv
      refine ⟨?_, ?_, ?_⟩
      · intro h0; subst h0; simpa using hv.symm
      · intro h1 h2; rw [hd'get t h1 h2] at hv; exact hv
      · intro h3; subst h3; rw [hd'last] at hv; exact (Option.some.inj hv).symm
    have hvi := List.getElem?_eq_getElem hi
    have hvj := List.getElem?_eq_getElem hj
    obtain ⟨li0, limid, lilast⟩ := lower i (by omega) _ hvi
    obtain ⟨lj0, ljmid, ljlast⟩ := lower j (by omega) _ hvj
    rcases Nat.eq_zero_or_pos i with hi0 | hipos
    · rw [li0 hi0]
      rcases Nat.lt_or_ge j (e - s + 1) with hjm | hjl
      · have hjv := ljmid (by omega) (by omega)
        have := div_le_of_sorted hsorted (s + 1) (s + j) _ _ (by omega) ha1 hjv
        omega
      · rw [ljlast (by omega)]
        have := div_le_of_sorted hsorted (s + 1) e _ _ (by omega) ha1 hbs
        omega
    · have hiv := limid hipos (by omega)
      rcases Nat.lt_or_ge j (e - s + 1) with hjm | hjl
      · exact div_le_of_sorted hsorted (s + i) (s + j) _ _ (by omega) hiv (ljmid (by omega) (by omega))
      · rw [ljlast (by omega)]
        have := div_le_of_sorted hsorted (s + i) e _ _ (by omega) hiv hbs
        omega
  · intro j p lo hi hp hlo hhi r hr
    have hplen : (first' :: ((parts.drop (s + 1)).take (e - s - 1) ++ [last'])).length = e - s + 1 := by
      simp [hpmidlen]; omega
    have hjlt : j < e - s + 1 := by
      have := (List.getElem?_eq_some_iff.mp hp).1; omega
    rcases Nat.eq_zero_or_pos j with hj0 | hjpos
    · subst hj0
      simp only [List.getElem?_cons_zero, Option.some.injEq] at hp hlo
      subst hp; subst hlo
      rw [hd'get 1 (by omega) (by omega), ha1] at hhi
      cases hhi
      obtain ⟨hrf, hxr⟩ := hf' r hr
      obtain ⟨hlow, hup⟩ := hrows s first _ _ hfirst ha0 ha1 r hrf
      refine ⟨hxr, Or.inl ?_⟩
      rcases hup with h1 | ⟨h2, _⟩
      · exact h1
      · omega
    · rcases Nat.lt_or_ge j (e - s) with hjm | hjl
      · obtain ⟨j', rfl⟩ : ∃ j', j = j' + 1 := ⟨j - 1, by omega⟩
        rw [List.getElem?_cons_succ, List.getElem?_append_left (by omega), hpmidget j' (by omega)] at hp
        rw [hd'get (j' + 1) (by omega) (by omega)] at hlo
        rw [hd'get (j' + 1 + 1) (by omega) (by omega)] at hhi
        have e1 : s + 1 + j' = s + (j' + 1) := by omega
        have e2 : s + (j' + 1 + 1) = s + (j' + 1) + 1 := by omega
        rw [e1] at hp; rw [e2] at hhi
        obtain ⟨hlow, hup⟩ := hrows (s + (j' + 1)) p lo hi hp hlo hhi r hr
        refine ⟨hlow, Or.inl ?_⟩
        rcases hup with h1 | ⟨h2, _⟩
        · exact h1
        · omega
      · have hje : j = e - s := by omega
        subst hje
        have hpl' := getElem?_last_of_cons_append first' last'
          ((parts.drop (s + 1)).take (e - s - 1)) (e - s) (by rw [hpmidlen]; omega)
        rw [hpl'] at hp
        have hp2 := Option.some.inj hp
        subst hp2
        rw [hd'get (e - s) (by omega) (by omega)] at hlo
        have e3 : s + (e - s) = e := by omega
        rw [e3, hbs] at hlo
        cases hlo
        rw [hd'last] at hhi
        cases hhi
        obtain ⟨hrl, hry⟩ := hl' r hr
        obtain ⟨hlow, hup⟩ := hrows e last _ _ hlastp hbs hb1 r hrl
        exact ⟨hlow, Or.inr ⟨by omega, hry⟩⟩


theorem single_truthful {α : Type} (key : α → Nat) (lo' hi' : Nat) (p' : List α) (hle : lo' ≤ hi')
    (hr : ∀ r ∈ p', lo' ≤ key r ∧ key r ≤ hi') : Truthful key [lo', hi'] [p'] := by
  refine ⟨rfl, by simp [hle], ?_⟩
  intro i q lo hi hq hlo hhi r hrq
  cases i with
  | zero =>
    simp at hq hlo hhi
    subst hq hlo hhi
    exact ⟨(hr r hrq).1, Or.inr ⟨rfl, (hr r hrq).2⟩⟩
  | succ i => simp at hq

theorem mem_locRows {α : Type} {key : α → Nat} {rows : List α} {a b : Option Nat} {r : α}
    (h : r ∈ locRows key rows a b) :
    r ∈ rows ∧ (∀ x, a = some x → x ≤ key r) ∧ (∀ y, b = some y → key r ≤ y) := by
  unfold locRows at h
  simp only [List.mem_filter, Bool.and_eq_true] at h
  obtain ⟨hm, h1, h2⟩ := h
  refine ⟨hm, ?_, ?_⟩
  · intro x hx; subst hx; simpa using h1
  · intro y hy; subst hy; simpa using h2

/-- facts about a frame's division vector used by the `.loc` theorems -/
structure DivFacts (divs : List Nat) (d0 dl : Nat) : Prop where
  two : 2 ≤ divs.length
  sorted : divs.Pairwise (· ≤ ·)
  head : divs.head? = some d0
  last : divs.getLast? = some dl

theorem DivFacts.get0 {divs : List Nat} {d0 dl : Nat} (f : DivFacts divs d0 dl) : divs[0]? = some d0 := by
  have := f.head
  cases divs with
  | nil => cases this
  | cons a _ => simpa using this

theorem DivFacts.getL {divs : List Nat} {d0 dl : Nat} (f : DivFacts divs d0 dl) :
    divs[divs.length - 1]? = some dl := by
  rw [← List.getLast?_eq_getElem?]; exact f.last

/-- lower end of a `.loc` selection: start partition `s = locStart divs a`, first reported division `ds` -/
theorem lower_end {divs : List Nat} {d0 dl : Nat} (f : DivFacts divs d0 dl) (a b : Option Nat) :
    locStart divs a + 2 ≤ divs.length ∧
    ∀ ds, locDStart divs d0 a b = some ds →
      (locStart divs a + 3 ≤ divs.length → ∀ v, divs[locStart divs a + 1]? = some v → ds ≤ v) ∧
      (∀ a0, divs[locStart divs a]? = some a0 → a0 ≤ ds) ∧ (∀ x, a = some x → x ≤ ds) ∧
      (a = none → divs[locStart divs a]? = some ds) := by
  cases a with
  | none =>
    simp only [locStart, locDStart]
    refine ⟨by have := f.two; omega, ?_⟩
    intro ds hds
    cases hds
    refine ⟨fun _ v hv => div_le_of_sorted f.sorted 0 1 _ _ (by omega) f.get0 hv, ?_, ?_, fun _ => f.get0⟩
    · intro a0 ha0; rw [f.get0] at ha0; cases ha0; exact Nat.le_refl _
    · intro x hx; cases hx
  | some x =>
    simp only [locStart, locDStart, locIStart]
    obtain ⟨hsb, hsin, hshi, hslo⟩ := partitionOf_spec divs x d0 dl f.sorted f.two f.head f.last
    refine ⟨hsb, ?_⟩
    intro ds hds
    simp only [Option.map_eq_some_iff] at hds
    obtain ⟨a0, ha0, rfl⟩ := hds
    refine ⟨?_, ?_, ?_, fun h => by cases h⟩
    · intro h3 v hv
      have hav := div_le_of_sorted f.sorted _ _ _ _ (Nat.le_succ _) ha0 hv
      have hx1 : x < v := by
        rcases Nat.lt_or_ge x d0 with hxl | hxg
        · have := div_le_of_sorted f.sorted 0 (partitionOf divs x + 1) d0 _ (Nat.zero_le _) f.get0 hv
          omega
        · rcases Nat.lt_or_ge x dl with hxl | hxg2
          · obtain ⟨lo, hi, hlo, hhi, _, hxhi⟩ := hsin hxg hxl
            rw [hv] at hhi; cases hhi; exact hxhi
          · have h1 := hshi hxg2
            omega
      omega
    · intro a0' ha0'; rw [ha0] at ha0'; cases ha0'; omega
    · intro x' hx'; cases hx'; omega

/-- upper end of a `.loc` selection: stop partition `e = locStop divs b`, last reported division `de` -/
theorem upper_end {divs : List Nat} {d0 dl : Nat} (f : DivFacts divs d0 dl) (a b : Option Nat) :
    locStop divs b + 2 ≤ divs.length ∧
    ∀ de, locDStop divs dl a b = some de →
      (1 ≤ locStop divs b → ∀ v, divs[locStop divs b]? = some v → v ≤ de) ∧
      (∀ b1, divs[locStop divs b + 1]? = some b1 → de ≤ b1) ∧ (∀ y, b = some y → de ≤ y) ∧
      (b = none → divs[locStop divs b + 1]? = some de ∧ locStop divs b + 2 = divs.length) := by
  cases b with
  | none =>
    simp only [locStop, locDStop]
    refine ⟨by have := f.two; omega, ?_⟩
    intro de hde
    cases hde
    have hL : divs[divs.length - 2 + 1]? = some dl := by
      rw [← f.getL]; congr 1; have := f.two; omega
    refine ⟨fun _ v hv => div_le_of_sorted f.sorted _ _ _ _ (Nat.le_succ _) hv hL, ?_, ?_,
      fun _ => ⟨hL, by have := f.two; omega⟩⟩
    · intro b1 hb1; rw [hL] at hb1; cases hb1; exact Nat.le_refl _
    · intro y hy; cases hy
  | some y =>
    simp only [locStop, locDStop, locIStop]
    obtain ⟨hpb, hpin, hphi, hplo⟩ := partitionOf_spec divs y d0 dl f.sorted f.two f.head f.last
    refine ⟨hpb, ?_⟩
    intro de hde
    simp only [Option.map_eq_some_iff] at hde
    obtain ⟨b1, hb1, rfl⟩ := hde
    refine ⟨?_, ?_, ?_, fun h => by cases h⟩
    · intro h1 v hv
      have hvb := div_le_of_sorted f.sorted _ _ _ _ (Nat.le_succ _) hv hb1
      have hy1 : v ≤ y := by
        rcases Nat.lt_or_ge y d0 with hyl | hyg
        · have := hplo hyl; omega
        · rcases Nat.lt_or_ge y dl with hyl | hyg2
          · obtain ⟨lo, hi, hlo, _, hloy, _⟩ := hpin hyg hyl
            rw [hv] at hlo; cases hlo; exact hloy
          · have := div_le_of_sorted f.sorted (partitionOf divs y) (divs.length - 1) _ dl (by omega) hv f.getL
            omega
      omega
    · intro b1' hb1'; rw [hb1] at hb1'; cases hb1'; omega
    · intro y' hy'; cases hy'; omega

/-- FULL STATEMENT for `.loc[a:b]` (`LocSlice`), `a ≤ b` or an open end -/
def LocSliceFullStatement : Prop :=
  ∀ (α : Type) (key : α → Nat) (divs : List Nat) (parts : List (List α)) (a b : Option Nat) (pl : LocPlan)
    (ps' : List (List α)),
    Truthful key divs parts → (∀ x y, a = some x → b = some y → x ≤ y) →
    locSlice divs a b = some pl → locSliceParts key parts pl a b = some ps' → Truthful key pl.divisions ps'

/-- **`.loc[a:b]` keeps divisions truthful — full statement**: closed slices, `.loc[x:]`, `.loc[:y]`, `.loc[:]`;
    selection inside one partition (divisions = `(istart, istop)`) or spanning several (first and last
    partition trimmed, the ones in between untouched, divisions `(div_start, d_start+1, …, d_stop, div_stop)`). -/
theorem loc_slice_truthful_full : LocSliceFullStatement := by
  intro α key divs parts a b pl ps' h hab hpl hps
  have h2' : 2 ≤ divs.length := by
    apply Nat.le_of_not_lt
    intro hcon
    simp [locSlice, hcon] at hpl
  have h2 : ¬ divs.length < 2 := by omega
  obtain ⟨d0, hd0⟩ : ∃ d0, divs.head? = some d0 := by
    cases divs with
    | nil => simp at h2'
    | cons a _ => exact ⟨a, rfl⟩
  obtain ⟨dl, hdl⟩ : ∃ dl, divs.getLast? = some dl := by
    cases hq : divs.getLast? with
    | none => rw [List.getLast?_eq_none_iff] at hq; subst hq; simp at h2'
    | some v => exact ⟨v, rfl⟩
  have f : DivFacts divs d0 dl := ⟨h2', h.2.1, hd0, hdl⟩
  simp only [locSlice, h2, if_false, hd0, hdl] at hpl
  obtain ⟨hlen, hsorted, hrows⟩ := h
  obtain ⟨hsb, hlow⟩ := lower_end f a b
  obtain ⟨heb, hupp⟩ := upper_end f a b
  unfold locSliceCore at hpl
  simp only at hpl
  by_cases hone : locStop divs b = locStart divs a
  · -- the selection falls into one partition
    simp only [hone, if_true, Option.some.injEq] at hpl
    subst hpl
    unfold locSliceParts at hps
    simp only [if_true, Option.bind_eq_bind, Option.bind_eq_some_iff, Option.pure_def, Option.some.injEq] at hps
    obtain ⟨p, hp, rfl⟩ := hps
    have hs1 := List.getElem?_eq_getElem (l := divs) (i := locStart divs a) (by omega)
    have hs2 := List.getElem?_eq_getElem (l := divs) (i := locStart divs a + 1) (by omega)
    have hkeys : ∀ r ∈ p, divs[locStart divs a] ≤ key r ∧ key r ≤ divs[locStart divs a + 1] := by
      intro r hr
      have := hrows _ p _ _ hp hs1 hs2 r hr
      refine ⟨this.1, ?_⟩
      rcases this.2 with h1 | ⟨_, h1⟩ <;> omega
    have hd0le : d0 ≤ divs[locStart divs a] := div_le_of_sorted hsorted 0 _ _ _ (Nat.zero_le _) f.get0 hs1
    have hdlge : divs[locStart divs a + 1] ≤ dl :=
      div_le_of_sorted hsorted _ (divs.length - 1) _ _ (by omega) hs2 f.getL
    cases a with
    | none =>
      cases b with
      | none =>
        refine single_truthful key _ _ _ ?_ ?_
        · simp only [locIStart, locIStop]
          exact div_le_of_sorted hsorted 0 (divs.length - 1) _ _ (Nat.zero_le _) f.get0 f.getL
        · intro r hr
          obtain ⟨hm, _, _⟩ := mem_locRows hr
          have := hkeys r hm
          simp only [locIStart, locIStop]; omega
      | some y =>
        refine single_truthful key _ _ _ ?_ ?_
        · simp only [locIStart, locIStop]; omega
        · intro r hr
          obtain ⟨hm, _, h2⟩ := mem_locRows hr
          have := hkeys r hm
          have := h2 y rfl
          simp only [locIStart, locIStop]; omega
    | some x =>
      cases b with
      | none =>
        refine single_truthful key _ _ _ ?_ ?_
        · simp only [locIStart, locIStop]; omega
        · intro r hr
          obtain ⟨hm, h1, _⟩ := mem_locRows hr
          have := hkeys r hm
          have := h1 x rfl
          simp only [locIStart, locIStop]; omega
      | some y =>
        refine single_truthful key _ _ _ ?_ ?_
        · simp only [locIStart, locIStop]; exact hab x y rfl rfl
        · intro r hr
          obtain ⟨hm, h1, h2⟩ := mem_locRows hr
          have := h1 x rfl
          have := h2 y rfl
          simp only [locIStart, locIStop]; omega
  · -- several partitions
    simp only [hone, if_false] at hpl
    cases hds : locDStart divs d0 a b with
    | none => rw [hds] at hpl; simp at hpl
    | some ds =>
      cases hde : locDStop divs dl a b with
      | none => rw [hds, hde] at hpl; simp at hpl
      | some de =>
        rw [hds, hde] at hpl
        simp only [Option.some.injEq] at hpl
        subst hpl
        unfold locSliceParts at hps
        simp only [hone, if_false, Option.bind_eq_bind] at hps
        split at hps
        · cases hps
        rename_i hnlt
        have hlt : locStart divs a < locStop divs b :=
          Nat.lt_of_le_of_ne (Nat.le_of_not_lt hnlt) (fun h => hone h.symm)
        simp only [Option.bind_eq_some_iff, Option.pure_def, Option.some.injEq] at hps
        obtain ⟨first, hfirst, last, hlastp, rfl⟩ := hps
        obtain ⟨hl1, hl2, hl3, hl4⟩ := hlow ds hds
        obtain ⟨hu1, hu2, hu3, hu4⟩ := hupp de hde
        have hs1 := List.getElem?_eq_getElem (l := divs) (i := locStart divs a) (by omega)
        have he1 := List.getElem?_eq_getElem (l := divs) (i := locStop divs b) (by omega)
        have he2 := List.getElem?_eq_getElem (l := divs) (i := locStop divs b + 1) (by omega)
        refine window_truthful key divs parts (locStart divs a) (locStop divs b) ds de first last _ _
          ⟨hlen, hsorted, hrows⟩ hlt (by omega) hfirst hlastp ?_ ?_ (hl1 (by omega)) (hu1 (by omega))
        · intro r hr
          obtain ⟨hm, h1, _⟩ := mem_locRows hr
          refine ⟨hm, ?_⟩
          cases a with
          | none =>
            have := hl4 rfl
            rw [hs1] at this; cases this
            exact (hrows _ first _ _ hfirst hs1 (List.getElem?_eq_getElem (by omega)) r hm).1
          | some x =>
            -- ds = max x a0
            simp only [locDStart, locIStart, Option.map_eq_some_iff] at hds
            obtain ⟨a0, ha0, rfl⟩ := hds
            have hk := (hrows _ first _ _ hfirst ha0 (List.getElem?_eq_getElem (by omega)) r hm).1
            have := h1 x rfl
            omega
        · intro r hr
          obtain ⟨hm, _, h2⟩ := mem_locRows hr
          refine ⟨hm, ?_⟩
          have hk := (hrows _ last _ _ hlastp he1 he2 r hm).2
          cases b with
          | none =>
            obtain ⟨h5, h6⟩ := hu4 rfl
            rw [he2] at h5; cases h5
            rcases hk with hk | ⟨_, hk⟩ <;> omega
          | some y =>
            simp only [locDStop, locIStop, Option.map_eq_some_iff] at hde
            obtain ⟨b1, hb1, rfl⟩ := hde
            rw [he2] at hb1; cases hb1
            have := h2 y rfl
            rcases hk with hk | ⟨_, hk⟩ <;> omega

/-- **loc_slice_truthful** (closed slice `.loc[x:y]`, `x ≤ y`) — instance of the full statement -/
theorem loc_slice_truthful {α : Type} (key : α → Nat) (divs : List Nat) (parts : List (List α))
    (x y : Nat) (hxy : x ≤ y) (pl : LocPlan) (ps' : List (List α)) (h : Truthful key divs parts)
    (hpl : locSlice divs (some x) (some y) = some pl)
    (hps : locSliceParts key parts pl (some x) (some y) = some ps') :
    Truthful key pl.divisions ps' :=
  loc_slice_truthful_full α key divs parts (some x) (some y) pl ps' h
    (fun x' y' hx hy => by cases hx; cases hy; exact hxy) hpl hps

example : locSlice [0, 5, 18, 25, 28] (some 17) (some 31) = some ⟨1, 3, [17, 18, 25, 28]⟩ := by decide
example : locSlice [0, 5, 18, 25, 28] (some 6) (some 9) = some ⟨1, 1, [6, 9]⟩ := by decide
example : locSlice [0, 5, 18, 25, 28] (some 6) none = some ⟨1, 3, [6, 18, 25, 28]⟩ := by decide
example : locSlice [0, 5, 18, 25, 28] none (some 20) = some ⟨0, 2, [0, 5, 18, 20]⟩ := by decide
example : locSlice [0, 5, 18, 25, 28] none none = some ⟨0, 3, [0, 5, 18, 25, 28]⟩ := by decide
example : locSlice [0, 5, 18, 25, 28] (some 40) none = some ⟨3, 3, [40, 40]⟩ := by decide
example : locSliceParts (fun (k : Nat) => k) [[0, 2], [5, 9], [18, 20], [25, 28]] ⟨1, 3, [6, 18, 25, 28]⟩ (some 6) none =
    some [[9], [18, 20], [25, 28]] := by decide

theorem bisectLeft_mono {xs : List Nat} {x y : Nat} (hxy : x ≤ y) : bisectLeft xs x ≤ bisectLeft xs y := by
  unfold bisectLeft
  induction xs with
  | nil => simp
  | cons a as ih =>
    simp only [List.takeWhile_cons]
    by_cases h1 : a < x
    · have h2 : a < y := by omega
      simp only [h1, h2, decide_true, if_true, List.length_cons]
      omega
    · simp [h1]

theorem bisectLeft_zero_of_le {xs : List Nat} {x : Nat} (h : ∀ a ∈ xs, x ≤ a) : bisectLeft xs x = 0 := by
  unfold bisectLeft
  cases xs with
  | nil => rfl
  | cons a as =>
    have := h a List.mem_cons_self
    have h1 : ¬ a < x := by omega
    simp [List.takeWhile_cons, h1]

/-- on a sorted list everything from position `bisect_left xs x` on is `≥ x` -/
theorem bisectLeft_ge_from {xs : List Nat} (hs : Sorted xs) (x t v : Nat) (ht : bisectLeft xs x ≤ t)
    (hv : xs[t]? = some v) : x ≤ v := by
  have htl := (List.getElem?_eq_some_iff.mp hv).1
  have hb : bisectLeft xs x < xs.length := by omega
  have hbv := List.getElem?_eq_getElem hb
  have h1 := bisectLeft_ge xs x _ hbv
  have h2 := sorted_get_le hs ht hbv hv
  omega

/-- **`dd.repartition(pandas_frame, divisions)`** (`FromPandasDivisions`): the sorted frame cut at the first position
    at or after each division value is described truthfully by the divisions and keeps all rows in order — for every
    sorted frame and every non-decreasing division vector (two entries at least) that spans the data. -/
theorem from_pandas_divisions_truthful {α : Type} (key : α → Nat) (rows : List α) (b : List Nat) (b0 bL : Nat)
    (hs : Sorted (rows.map key)) (hb : b.Pairwise (· ≤ ·)) (hb2 : 2 ≤ b.length)
    (h0 : b.head? = some b0) (hl : b.getLast? = some bL)
    (hspan : ∀ r ∈ rows, b0 ≤ key r ∧ key r ≤ bL) :
    Truthful key b (cut rows (pandasDivLocs (rows.map key) b)) ∧
      (cut rows (pandasDivLocs (rows.map key) b)).flatten = rows := by
  have hklen : (rows.map key).length = rows.length := List.length_map _
  have hdl : b.dropLast.length = b.length - 1 := List.length_dropLast
  have hloclen : (pandasDivLocs (rows.map key) b).length = b.length := by
    simp only [pandasDivLocs, List.length_append, List.length_map, hdl, List.length_cons, List.length_nil]; omega
  -- a location by position
  have hlocget : ∀ j, j + 1 < b.length → ∀ y, b[j]? = some y →
      (pandasDivLocs (rows.map key) b)[j]? = some (bisectLeft (rows.map key) y) := by
    intro j hj y hy
    unfold pandasDivLocs
    rw [List.getElem?_append_left (by simp only [List.length_map, hdl]; omega), List.getElem?_map,
      List.getElem?_dropLast, if_pos (by omega), hy]; rfl
  have hloclast : (pandasDivLocs (rows.map key) b)[b.length - 1]? = some rows.length := by
    unfold pandasDivLocs
    rw [List.getElem?_append_right (by simp only [List.length_map, hdl]; omega)]
    simp [hdl, hklen]
  have hb0 : b[0]? = some b0 := by cases b with | nil => cases h0 | cons x _ => simpa using h0
  have hbLi : b[b.length - 1]? = some bL := by rw [← List.getLast?_eq_getElem?]; exact hl
  have hblle : ∀ x, bisectLeft (rows.map key) x ≤ rows.length := by
    intro x; rw [← hklen]; exact bisectLeft_le_length _ _
  -- the locations: start at 0, end at len, non-decreasing
  have hhead : (pandasDivLocs (rows.map key) b).head? = some 0 := by
    have := hlocget 0 (by omega) b0 hb0
    rw [bisectLeft_zero_of_le (x := b0) (by
      intro a ha
      obtain ⟨r, hr, rfl⟩ := List.mem_map.mp ha
      exact (hspan r hr).1)] at this
    cases hq : pandasDivLocs (rows.map key) b with
    | nil => rw [hq] at this; simp at this
    | cons x _ => rw [hq] at this; simpa using this
  have hlast : (pandasDivLocs (rows.map key) b).getLast? = some rows.length := by
    unfold pandasDivLocs; rw [List.getLast?_append]; simp [hklen]
  have hmono : (pandasDivLocs (rows.map key) b).Pairwise (· ≤ ·) := by
    unfold pandasDivLocs
    rw [List.pairwise_append]
    refine ⟨?_, List.pairwise_singleton _ _, ?_⟩
    · rw [List.pairwise_map]
      exact (List.Pairwise.sublist (List.dropLast_sublist b) hb).imp (fun h => bisectLeft_mono h)
    · intro x hx y hy
      simp only [List.mem_singleton] at hy
      subst hy
      obtain ⟨u, _, rfl⟩ := List.mem_map.mp hx
      rw [hklen]; exact hblle u
  refine ⟨⟨by rw [cut_eq_chunks, chunks_length, hloclen]; omega, hb, ?_⟩, ?_⟩
  · intro j p lo hi hp hlo hhi r hr
    rw [cut_eq_chunks] at hp
    obtain ⟨la, lb, hla, hlb, rfl⟩ := (chunks_getElem? rows _ j p).mp hp
    obtain ⟨t, hat, htb, hrt⟩ := mem_pySlice rows la lb r hr
    have hkt : (rows.map key)[t]? = some (key r) := by simp [List.getElem?_map, hrt]
    have hj1 : j + 1 < b.length := by
      have := (List.getElem?_eq_some_iff.mp hhi).1; omega
    rw [hlocget j hj1 lo hlo] at hla
    cases hla
    refine ⟨bisectLeft_ge_from hs lo t _ hat hkt, ?_⟩
    rcases Nat.lt_or_ge (j + 2) b.length with hnl | hl'
    · -- not the last partition: position below the first occurrence of the next division
      rw [hlocget (j + 1) hnl hi hhi] at hlb
      cases hlb
      obtain ⟨v, hv, hvlt⟩ := bisectLeft_lt (rows.map key) hi t htb
      rw [hkt] at hv; cases hv
      exact Or.inl hvlt
    · -- the last partition: closed by the span hypothesis
      have hje : j + 1 = b.length - 1 := by omega
      rw [hje, hbLi] at hhi
      cases hhi
      right
      refine ⟨by rw [cut_eq_chunks, chunks_length, hloclen]; omega, ?_⟩
      exact (hspan r (List.mem_of_getElem? hrt)).2
  · rw [cut_eq_chunks, chunks_flatten rows _ 0 rows.length hhead hlast hmono, pySlice_full]

example : pandasDivLocs [0, 1, 2, 3, 4, 5, 6, 7, 8, 9] [0, 5, 12, 15] = [0, 5, 10, 10] := by decide
example : cut [0, 1, 2, 3, 4, 5, 6, 7, 8, 9] (pandasDivLocs [0, 1, 2, 3, 4, 5, 6, 7, 8, 9] [0, 5, 12, 15]) =
    [[0, 1, 2, 3, 4], [5, 6, 7, 8, 9], []] := by decide
example : pandasDivLocs [0, 0, 2, 3, 3, 5, 6, 9, 9, 9] [0, 4, 9, 9] = [0, 5, 7, 10] := by decide


/-- **`set_index` with divisions that span the data** (given by the user, or computed as quantiles) reports truthful
    divisions: `set_partitions_pre` routes every row to the interval of the divisions holding its key, the staged task
    shuffle delivers exactly those rows, and the per-partition sort keeps them — proved in the C40 development
    (`C40.set_index_tasks_truthful`, all shuffle hypotheses discharged; `C40.set_index_truthful` for any shuffle that
    only delivers input rows to the partition named by `_partitions`; `C40.set_index_presorted_truthful` for the
    shortcut that publishes `mins + [maxes[-1]]`). Re-exported here as the C41 path theorem. What is NOT covered is
    the optimizer moving a Filter / Head / Tail below a set_index with COMPUTED divisions (known findings). -/
theorem set_index_truthful {β : Type} (key : β → Nat) (divs : List Nat) (k S : Nat) (parts : List (List β)) (d0 dl : Nat)
    (hs : divs.Pairwise (· ≤ ·)) (h2 : 2 ≤ divs.length) (h0 : divs.head? = some d0) (hl : divs.getLast? = some dl)
    (hspan : ∀ r ∈ parts.flatten, d0 ≤ key r ∧ key r ≤ dl)
    (hk : 0 < k) (hkS : parts.length ≤ k ^ S) (hpos : 0 < parts.length) :
    Truthful key divs (Dask.SortValues.sortValuesTasks (fun r => some (key r)) divs true true k S parts) :=
  Dask.C40.set_index_tasks_truthful key divs k S parts d0 dl hs h2 h0 hl hspan hk hkS hpos

example : Dask.SortValues.sortValuesTasks (fun (r : Nat) => some r) [0, 3, 5] true true 2 1 [[4, 0, 3], [5, 1]] =
    [[0, 1], [3, 4, 5]] := by decide

/-- **index-aligned binary operations** (index merge / join, `concat(axis=1)`, arithmetic between co-aligned
    frames — after `align_partitions` both inputs have the same divisions): if every row of output partition `j`
    carries the index key of some row of partition `j` of one of the inputs, the common divisions stay truthful. -/
theorem aligned_binary_truthful {α β γ : Type} (keyL : α → Nat) (keyR : β → Nat) (key : γ → Nat) (divs : List Nat)
    (L : List (List α)) (R : List (List β)) (out : List (List γ))
    (hL : Truthful keyL divs L) (hR : Truthful keyR divs R) (hlen : out.length = L.length)
    (hrows : ∀ (j : Nat) o l r, out[j]? = some o → L[j]? = some l → R[j]? = some r →
      ∀ x ∈ o, (∃ y ∈ l, key x = keyL y) ∨ (∃ z ∈ r, key x = keyR z)) :
    Truthful key divs out := by
  obtain ⟨hLlen, hsorted, hLrows⟩ := hL
  obtain ⟨hRlen, _, hRrows⟩ := hR
  refine ⟨by omega, hsorted, ?_⟩
  intro j o lo hi ho hlo hhi x hx
  have hj : j < out.length := (List.getElem?_eq_some_iff.mp ho).1
  have hjl := List.getElem?_eq_getElem (l := L) (i := j) (by omega)
  have hjr := List.getElem?_eq_getElem (l := R) (i := j) (by omega)
  rcases hrows j o _ _ ho hjl hjr x hx with ⟨y, hy, hk⟩ | ⟨z, hz, hk⟩
  · have := hLrows j _ lo hi hjl hlo hhi y hy
    rw [hk]
    refine ⟨this.1, ?_⟩
    rcases this.2 with h | ⟨h1, h2⟩
    · exact Or.inl h
    · exact Or.inr ⟨by omega, h2⟩
  · have := hRrows j _ lo hi hjr hlo hhi z hz
    rw [hk]
    refine ⟨this.1, ?_⟩
    rcases this.2 with h | ⟨h1, h2⟩
    · exact Or.inl h
    · exact Or.inr ⟨by omega, h2⟩

/-- **`concat` of frames with ordered, non-overlapping divisions** (`d1[-1] < d2[0]`): partitions are simply listed
    one after the other and the divisions `d1[:-1] + d2` describe them truthfully (the formerly closed last
    partition of the first frame becomes the half-open `[d1[-2], d2[0])`). -/
theorem concat_monotonic_truthful {α : Type} (key : α → Nat) (d1 d2 : List Nat) (p1 p2 : List (List α))
    (h1 : Truthful key d1 p1) (h2 : Truthful key d2 p2) (hp1 : p1 ≠ [])
    (hlt : ∀ l f, d1.getLast? = some l → d2.head? = some f → l < f) :
    Truthful key (concatMonoDivs d1 d2) (p1 ++ p2) := by
  obtain ⟨hl1, hs1, hr1⟩ := h1
  obtain ⟨hl2, hs2, hr2⟩ := h2
  have hn1 : 0 < p1.length := List.length_pos_iff.mpr hp1
  have hdl : d1.dropLast.length = p1.length := by rw [List.length_dropLast]; omega
  have hget1 : ∀ i, i < p1.length → (concatMonoDivs d1 d2)[i]? = d1[i]? := by
    intro i hi
    unfold concatMonoDivs
    rw [List.getElem?_append_left (by omega), List.getElem?_dropLast, if_pos (by omega)]
  have hget2 : ∀ i, p1.length ≤ i → (concatMonoDivs d1 d2)[i]? = d2[i - p1.length]? := by
    intro i hi
    unfold concatMonoDivs
    rw [List.getElem?_append_right (by omega), hdl]
  obtain ⟨l, hl⟩ : ∃ l, d1.getLast? = some l := by
    cases hq : d1.getLast? with
    | none => rw [List.getLast?_eq_none_iff] at hq; subst hq; simp at hl1
    | some v => exact ⟨v, rfl⟩
  have hlidx : d1[p1.length]? = some l := by
    rw [List.getLast?_eq_getElem?] at hl
    rw [← hl]; congr 1; omega
  have hf0 : d2[0]? = d2.head? := by cases d2 <;> simp
  refine ⟨by simp only [concatMonoDivs, List.length_append, hdl]; omega, ?_, ?_⟩
  · unfold concatMonoDivs
    rw [List.pairwise_append]
    refine ⟨List.Pairwise.sublist (List.dropLast_sublist _) hs1, hs2, ?_⟩
    intro a ha b hb
    have ha' : a ≤ l := le_last_of_mono d1 l hs1 hl a ((List.dropLast_sublist _).subset ha)
    obtain ⟨f, hf⟩ : ∃ f, d2.head? = some f := by
      cases d2 with
      | nil => cases hb
      | cons x _ => exact ⟨x, rfl⟩
    have hlf := hlt l f hl hf
    have hfb : f ≤ b := by
      cases d2 with
      | nil => cases hb
      | cons x xs =>
        simp only [List.head?_cons, Option.some.injEq] at hf
        subst hf
        rcases List.mem_cons.mp hb with rfl | hb'
        · exact Nat.le_refl _
        · exact (List.pairwise_cons.mp hs2).1 b hb'
    omega
  · intro i p lo hi hp hlo hhi r hr
    rcases Nat.lt_or_ge i p1.length with hi1 | hi2
    · -- a partition of the first frame
      rw [List.getElem?_append_left hi1] at hp
      rw [hget1 i hi1] at hlo
      rcases Nat.lt_or_ge (i + 1) p1.length with hn | hn
      · rw [hget1 (i + 1) hn] at hhi
        have := hr1 i p lo hi hp hlo hhi r hr
        refine ⟨this.1, Or.inl ?_⟩
        rcases this.2 with h | ⟨h, _⟩
        · exact h
        · omega
      · -- the last partition of the first frame: its closed end `l` is below the next division `d2[0]`
        have hie : i + 1 = p1.length := by omega
        rw [hget2 (i + 1) (by omega)] at hhi
        have h0 : i + 1 - p1.length = 0 := by omega
        rw [h0, hf0] at hhi
        have hil : d1[i + 1]? = some l := by rw [hie]; exact hlidx
        have := hr1 i p lo l hp hlo hil r hr
        have hlf := hlt l hi hl hhi
        refine ⟨this.1, Or.inl ?_⟩
        rcases this.2 with h | ⟨_, h⟩ <;> omega
    · -- a partition of the second frame
      rw [List.getElem?_append_right hi2] at hp
      rw [hget2 i hi2] at hlo
      rw [hget2 (i + 1) (by omega)] at hhi
      have e : i + 1 - p1.length = i - p1.length + 1 := by omega
      rw [e] at hhi
      have := hr2 (i - p1.length) p lo hi hp hlo hhi r hr
      refine ⟨this.1, ?_⟩
      rcases this.2 with h | ⟨h, h'⟩
      · exact Or.inl h
      · refine Or.inr ⟨?_, h'⟩
        simp only [List.length_append]; omega

/-- **`repartition(divisions = b)` reports truthful divisions** (full: both walks of `RepartitionDivisions._layer`
    proved, `Lemmas/RepartWalk.lean`): for every frame truthful for legal divisions `a` with partitions in index order
    and every legal `b` the guards accept, the layer is built, evaluates, and the result is truthful for `b`. -/
theorem repartition_divisions_truthful {α : Type} (key : α → Nat) (parts : List (List α)) (a b : List Nat)
    (force : Bool) (hva : ValidDivs a) (hvb : ValidDivs b) (ht : Truthful key a parts)
    (hsorted : ∀ p ∈ parts, KeySorted key p) (g : Nat × Nat × Nat × Nat) (hg : dlGuards a b force = some g) :
    ∃ out, repartitionDivisions key parts a b force = some out ∧ Truthful key b out := by
  obtain ⟨out, h1, _, h3⟩ := divisions_walk_correct (key := key) ⟨ht, hsorted, hva⟩ hvb hg
  exact ⟨out, h1, h3⟩

/-- the same for every layer that passes the run-time certificate (`_partial`: certified layers, see
    `C44.divisions_rows_order_truthful_partial`): for every frame truthful for `a` with partitions in index order and
    every layer of `RepartitionDivisions` that passes `layerOK a b`, the result is truthful for `b`. -/
theorem repartition_divisions_truthful_partial {α : Type} (key : α → Nat) (parts : List (List α)) (a b : List Nat)
    (force : Bool) (L : DLayer) (ht : Truthful key a parts) (hsorted : ∀ p ∈ parts, KeySorted key p)
    (hb : b.Pairwise (· ≤ ·)) (hL : divisionsLayer a b force = some L) (hok : layerOK a b L = true) :
    ∃ out, repartitionDivisions key parts a b force = some out ∧ Truthful key b out := by
  have hb1 : b ≠ [] := by
    intro he
    have := divisionsLayer_count a b force L hL
    rw [he] at this
    simp at this
  obtain ⟨out, h1, _, h3⟩ := layer_sound key parts a b L ht hsorted hb hb1 hok
  refine ⟨out, ?_, h3⟩
  unfold repartitionDivisions
  rw [hL]; exact h1

example : concatMonoDivs [0, 3, 5] [7, 9, 9] = [0, 3, 7, 9, 9] := by decide

-- `aligned_binary_truthful` instantiated: an index join of two co-aligned frames (rows = keys; output partition `j` holds the
-- keys present on both sides)
example : Truthful (fun (k : Nat) => k) [0, 3, 5] [[2], [3, 5]] :=
  aligned_binary_truthful (fun k => k) (fun k => k) (fun k => k) [0, 3, 5] [[0, 2], [3, 5]] [[2, 2], [3, 4, 5]] [[2], [3, 5]]
    ((truthfulB_iff _ _).mp (by decide)) ((truthfulB_iff _ _).mp (by decide)) rfl (by
      intro j o l r ho hl hr x hx
      match j with
      | 0 => simp at ho hl; subst ho hl; simp at hx; subst hx; exact Or.inl ⟨2, by simp, rfl⟩
      | 1 => simp at ho hl; subst ho hl; simp at hx; rcases hx with rfl | rfl <;> exact Or.inl ⟨_, by simp, rfl⟩
      | n + 2 => simp at ho)
-- non-vacuity of the hypotheses of `concat_monotonic_truthful`, `aligned_binary_truthful`,
-- `repartition_divisions_truthful_partial`: concrete truthful frames
example : Truthful (fun (k : Nat) => k) [0, 3, 5] [[0, 2], [3, 5]] := (truthfulB_iff _ _).mp (by decide)
example : Truthful (fun (k : Nat) => k) [7, 9, 9] [[7, 8], [9]] := (truthfulB_iff _ _).mp (by decide)
example : Truthful (fun (k : Nat) => k) (concatMonoDivs [0, 3, 5] [7, 9, 9]) ([[0, 2], [3, 5]] ++ [[7, 8], [9]]) :=
  (truthfulB_iff _ _).mp (by decide)
example : (divisionsLayer [0, 3, 5] [0, 2, 4, 5] false).map (layerOK [0, 3, 5] [0, 2, 4, 5]) = some true := by decide
example : repartitionDivisions (fun (k : Nat) => k) [[0, 2], [3, 5]] [0, 3, 5] [0, 2, 4, 5] false =
    some [[0], [2, 3], [5]] := by decide

/-! non-vacuity -/
example : sdl ([(0 : Nat), 0, 1, 1, 1, 1, 2, 2, 4, 5, 5, 5, 5].map id) (.npartitions 4) =
    some ([0, 1, 2, 5, 5], [0, 2, 6, 9, 13]) := by decide

example : Truthful (fun (k : Nat) => k) [0, 3, 5, 5] [[0, 2, 2], [3, 4], [5, 5]] := by
  refine ⟨rfl, by decide, ?_⟩
  intro i p lo hi hp hlo hhi r hr
  match i with
  | 0 => simp at hp hlo hhi; subst hp hlo hhi; simp at hr; rcases hr with rfl | rfl <;> simp
  | 1 => simp at hp hlo hhi; subst hp hlo hhi; simp at hr; rcases hr with rfl | rfl <;> simp
  | 2 => simp at hp hlo hhi; subst hp hlo hhi; simp at hr; subst hr; simp
  | n + 3 => simp at hp

end Dask.C41
