import DaskModel.Lemmas.TruthfulPaths
import DaskModel.Props.C45
/-! # C41 — known divisions always describe the partitions truthfully (theorems)

`Truthful key divs parts` (Lemmas/Truthful.lean) is the statement's predicate. One theorem per
construction path that can report known divisions. -/
namespace Dask.C41
open Dask.Divs Dask.Repart Dask.SDL Dask.C45

/-- **Filtering** keeps known divisions truthful (`Filter._divisions` forwards the frame's divisions). -/
theorem filter_preserves {α : Type} (key : α → Nat) (divs : List Nat) (parts : List (List α))
    (pred : α → Bool) (h : Truthful key divs parts) :
    Truthful key divs (parts.map (·.filter pred)) :=
  h.map _ fun _ r hr => ⟨r, (List.mem_filter.mp hr).1, rfl⟩

/-- **Shuffle-free blockwise operations** that transform rows one by one without touching the index
    (assign, projection, arithmetic, `map_partitions` of such functions) keep divisions truthful. -/
theorem blockwise_preserves {α β : Type} (key : α → Nat) (key' : β → Nat) (divs : List Nat)
    (parts : List (List α)) (g : α → β) (hg : ∀ r, key' (g r) = key r) (h : Truthful key divs parts) :
    Truthful key' divs (parts.map (·.map g)) :=
  h.map _ fun _ r hr => by
    obtain ⟨r', hr', rfl⟩ := List.mem_map.mp hr
    exact ⟨r', hr', hg r'⟩

/-- partition-wise operations returning any sub-multiset / reordering of the partition's rows
    (`head`-per-partition, sorting inside a partition, dropping duplicates) keep divisions truthful -/
theorem partitionwise_subset_preserves {α : Type} (key : α → Nat) (divs : List Nat) (parts : List (List α))
    (f : List α → List α) (hf : ∀ p, ∀ r ∈ f p, r ∈ p) (h : Truthful key divs parts) :
    Truthful key divs (parts.map f) :=
  h.map f fun p r hr => ⟨r, hf p r hr, rfl⟩

/-- **truthfulB_iff** (re-exported): the executable oracle used by the tie decides exactly `Truthful` -/
theorem truthfulB_decides (divs : List Nat) (parts : List (List Nat)) :
    truthfulB divs parts = true ↔ Truthful (fun k => k) divs parts := truthfulB_iff divs parts


/-- every element of a strictly increasing list is `≤` its last element -/
theorem le_last_of_strict (bs : List Nat) (l : Nat) (hp : bs.Pairwise (· < ·)) (hl : bs.getLast? = some l) :
    ∀ a ∈ bs, a ≤ l :=
  le_last_of_mono bs l (hp.imp (fun h => Nat.le_of_lt h)) hl

/-- in a strictly increasing list only the last position holds the last value -/
theorem idx_of_last (bs : List Nat) (l : Nat) (hp : bs.Pairwise (· < ·)) (hl : bs.getLast? = some l)
    (j : Nat) (hj : bs[j]? = some l) : j + 1 = bs.length := by
  obtain ⟨hjlt, hje⟩ := List.getElem?_eq_some_iff.mp hj
  rcases Nat.lt_or_ge (j + 1) bs.length with hlt | hge
  · exfalso
    have hlast : bs[bs.length - 1]? = some l := by rw [← List.getLast?_eq_getElem?]; exact hl
    obtain ⟨hl1, hl2⟩ := List.getElem?_eq_some_iff.mp hlast
    have := (List.pairwise_iff_getElem.mp hp) j (bs.length - 1) hjlt hl1 (by omega)
    omega
  · omega

/-- **from_pandas_truthful**: partitions cut at the locations planned by `sorted_division_locations`
    are described truthfully by the planned divisions — for every sorted frame, both modes. -/
theorem from_pandas_truthful {α : Type} (key : α → Nat) (rows : List α) (m : Mode) (divs locs : List Nat)
    (hs : Sorted (rows.map key)) (h : sdl (rows.map key) m = some (divs, locs)) :
    Truthful key divs (cut rows locs) := by
  have hseq : ∀ (t : Nat) (r : α), rows[t]? = some r → (rows.map key)[t]? = some (key r) := by
    intro t r ht; simp [List.getElem?_map, ht]
  obtain ⟨h0, hlast, hpw⟩ := sdl_locations_strict hs h
  have hval := sdl_division_is_value_at_location hs h
  have hfo := sdl_boundary_first_occurrence hs h
  have hlen : divs.length = locs.length := hval.length_eq
  have hlocs_pos : 0 < locs.length := by
    cases locs with
    | nil => simp at h0
    | cons _ _ => simp
  have hle := le_last_of_strict locs _ hpw hlast
  have hmaplen : (rows.map key).length = rows.length := List.length_map _
  rw [cut_eq_chunks]
  refine ⟨by rw [chunks_length]; omega, ?_, ?_⟩
  · -- divisions sorted
    rw [List.pairwise_iff_getElem]
    intro i j hi hj hij
    have hil : i < locs.length := by omega
    have hjl : j < locs.length := by omega
    have hli := List.getElem?_eq_getElem hil
    have hlj := List.getElem?_eq_getElem hjl
    have hlt : locs[i] < locs[j] := (List.pairwise_iff_getElem.mp hpw) i j hil hjl hij
    have hjle : locs[j] ≤ (rows.map key).length := hle _ (List.getElem_mem hjl)
    have hRi := hval.get i divs[i] locs[i] (List.getElem?_eq_getElem hi) hli
    have hRj := hval.get j divs[j] locs[j] (List.getElem?_eq_getElem hj) hlj
    rw [if_neg (by omega)] at hRi
    split at hRj
    · rename_i hje
      have hlastseq : (rows.map key)[(rows.map key).length - 1]? = some divs[j] := by
        rw [← List.getLast?_eq_getElem?]; exact hRj
      exact sorted_get_le hs (by omega) hRi hlastseq
    · exact sorted_get_le hs (Nat.le_of_lt hlt) hRi hRj
  · intro i p lo hi hp hlo hhi r hr
    obtain ⟨a, b, ha, hb, rfl⟩ := (chunks_getElem? rows locs i p).mp hp
    obtain ⟨t, hat, htb, hrt⟩ := mem_pySlice rows a b r hr
    have hkt := hseq t r hrt
    have hab : a < b := by omega
    have hble : b ≤ (rows.map key).length := hle b (List.mem_of_getElem? hb)
    have hRa := hval.get i lo a hlo ha
    rw [if_neg (by omega)] at hRa
    refine ⟨sorted_get_le hs hat hRa hkt, ?_⟩
    have hRb := hval.get (i + 1) hi b hhi hb
    split at hRb
    · rename_i hbe
      right
      have hidx := idx_of_last locs _ hpw hlast (i + 1) (by rw [hb, hbe])
      refine ⟨by rw [chunks_length]; omega, ?_⟩
      have hlastseq : (rows.map key)[(rows.map key).length - 1]? = some hi := by
        rw [← List.getLast?_eq_getElem?]; exact hRb
      exact sorted_get_le hs (by omega) hkt hlastseq
    · rename_i hbne
      left
      obtain ⟨v, hv, hbefore⟩ := hfo b (List.mem_of_getElem? hb) (by omega) hbne
      rw [hRb] at hv
      cases hv
      obtain ⟨w, hw, hwv⟩ := hbefore t htb
      rw [hkt] at hw
      cases hw
      exact hwv



/-- **partitions_truthful**: selecting partitions in increasing order (`df.partitions[sel]`, `get_partition`,
    the partition pruning of `.loc`) keeps the divisions truthful. -/
theorem partitions_truthful {α : Type} (key : α → Nat) (divs : List Nat) (parts : List (List α))
    (sel : List Nat) (d' : List Nat) (ps' : List (List α))
    (hsel : sel.Pairwise (· < ·)) (h : Truthful key divs parts)
    (hd : partitionsDivs divs sel = some d') (hp : partitionsParts parts sel = some ps') :
    Truthful key d' ps' := by
  obtain ⟨hlen, hsorted, hrows⟩ := h
  unfold partitionsDivs at hd
  simp only [Option.bind_eq_bind, Option.bind_eq_some_iff, Option.pure_def, Option.some.injEq] at hd
  obtain ⟨lastSel, hlast, ds, hds, dl, hdl, rfl⟩ := hd
  unfold partitionsParts at hp
  obtain ⟨hdslen, hdsget⟩ := mapM_getElem? _ sel ds hds
  obtain ⟨hpslen, hpsget⟩ := mapM_getElem? _ sel ps' hp
  have hsel_pos : 0 < sel.length := by
    cases sel with
    | nil => simp at hlast
    | cons _ _ => simp
  have hlastidx : sel[sel.length - 1]? = some lastSel := by rw [← List.getLast?_eq_getElem?]; exact hlast
  -- value of d' at a position
  have hd'get : ∀ (j : Nat), j < sel.length → ∃ s, sel[j]? = some s ∧ (ds ++ [dl])[j]? = divs[s]? ∧ (ds ++ [dl])[j]? ≠ none := by
    intro j hj
    have hs := List.getElem?_eq_getElem hj
    obtain ⟨y, hy, hfy⟩ := hdsget j _ hs
    refine ⟨sel[j], hs, ?_, ?_⟩
    · rw [List.getElem?_append_left (by omega), hy, hfy]
    · rw [List.getElem?_append_left (by omega), hy]; simp
  have hd'last : (ds ++ [dl])[sel.length]? = some dl := by
    rw [List.getElem?_append_right (by omega)]; simp [hdslen]
  have hmono : ∀ (i j a b : Nat), i < j → sel[i]? = some a → sel[j]? = some b → a < b := by
    intro i j a b hij ha hb
    obtain ⟨hi', rfl⟩ := List.getElem?_eq_some_iff.mp ha
    obtain ⟨hj', rfl⟩ := List.getElem?_eq_some_iff.mp hb
    exact (List.pairwise_iff_getElem.mp hsel) i j hi' hj' hij
  have hdiv_le : ∀ (a b x y : Nat), a ≤ b → divs[a]? = some x → divs[b]? = some y → x ≤ y := by
    intro a b x y hab hx hy
    rcases Nat.eq_or_lt_of_le hab with rfl | hlt
    · rw [hx] at hy; cases hy; exact Nat.le_refl _
    · obtain ⟨ha', rfl⟩ := List.getElem?_eq_some_iff.mp hx
      obtain ⟨hb', rfl⟩ := List.getElem?_eq_some_iff.mp hy
      exact (List.pairwise_iff_getElem.mp hsorted) a b ha' hb' hlt
  refine ⟨by simp [hpslen, hdslen], ?_, ?_⟩
  · -- sorted
    rw [List.pairwise_iff_getElem]
    intro i j hi hj hij
    have hlen' : (ds ++ [dl]).length = sel.length + 1 := by simp [hdslen]
    have hi' : i < sel.length := by omega
    obtain ⟨si, hsi, hvi, _⟩ := hd'get i hi'
    rw [List.getElem?_eq_getElem hi] at hvi
    rcases Nat.lt_or_ge j sel.length with hjl | hjl
    · obtain ⟨sj, hsj, hvj, _⟩ := hd'get j hjl
      rw [List.getElem?_eq_getElem hj] at hvj
      exact hdiv_le si sj _ _ (Nat.le_of_lt (hmono i j si sj hij hsi hsj)) hvi.symm hvj.symm
    · have hje : j = sel.length := by omega
      subst hje
      have : (ds ++ [dl])[sel.length] = dl := by
        have := List.getElem?_eq_getElem hj
        rw [hd'last] at this; exact (Option.some.inj this).symm
      rw [this]
      have hsle : si ≤ lastSel := by
        rcases Nat.eq_or_lt_of_le (show i ≤ sel.length - 1 by omega) with he | hl
        · rw [he] at hsi; rw [hsi] at hlastidx; cases hlastidx; exact Nat.le_refl _
        · exact Nat.le_of_lt (hmono i (sel.length - 1) si lastSel hl hsi hlastidx)
      exact hdiv_le si (lastSel + 1) _ _ (by omega) hvi.symm hdl
  · intro j p lo hi hpj hlo hhi r hr
    have hjlt : j < ps'.length := (List.getElem?_eq_some_iff.mp hpj).1
    have hj : j < sel.length := by omega
    obtain ⟨sj, hsj, hvj, _⟩ := hd'get j hj
    obtain ⟨y, hy, hfy⟩ := hpsget j sj hsj
    rw [hpj] at hy; cases hy
    rw [hlo] at hvj
    -- bounds of the source partition
    have hsjlt : sj < parts.length := (List.getElem?_eq_some_iff.mp hfy).1
    have hhi_src := List.getElem?_eq_getElem (l := divs) (i := sj + 1) (by omega)
    obtain ⟨hlow, hup⟩ := hrows sj p lo _ hfy hvj.symm hhi_src r hr
    refine ⟨hlow, ?_⟩
    rcases Nat.lt_or_ge (j + 1) sel.length with hnl | hl
    · -- not the last selected partition
      obtain ⟨sn, hsn, hvn, _⟩ := hd'get (j + 1) hnl
      rw [hhi] at hvn
      have hlt := hmono j (j + 1) sj sn (by omega) hsj hsn
      obtain ⟨pn, _, hfn⟩ := hpsget (j + 1) sn hsn
      have hsnlt : sn < parts.length := (List.getElem?_eq_some_iff.mp hfn).1
      left
      rcases hup with h1 | ⟨h2, _⟩
      · exact Nat.lt_of_lt_of_le h1 (hdiv_le (sj + 1) sn _ _ (by omega) hhi_src hvn.symm)
      · omega
    · -- the last selected partition
      have hje : j + 1 = sel.length := by omega
      have hsje : sj = lastSel := by
        have : sel[j]? = sel[sel.length - 1]? := by congr 1; omega
        rw [hsj, hlastidx] at this; exact Option.some.inj this
      subst hsje
      rw [hje, hd'last] at hhi
      have hidl : dl = hi := Option.some.inj hhi
      rw [hdl] at hhi_src
      have hval : divs[sj + 1] = hi := by rw [← hidl]; exact (Option.some.inj hhi_src).symm
      rw [hval] at hup
      rcases hup with h1 | ⟨_, h2⟩
      · left; exact h1
      · right; exact ⟨by omega, h2⟩

/-- without the ordering hypothesis the claim fails: `partitions[[1, 0]]` reports unsorted divisions -/
example : partitionsDivs [0, 5, 9] [1, 0] = some [5, 0, 5] := by decide
example : partitionsDivs [0, 5, 9, 12] [0, 2] = some [0, 9, 12] := by decide


/-- **tofewer_truthful**: `RepartitionToFewer` (and every "concatenate contiguous partitions" layer, e.g.
    `RepartitionSize` without splitting) keeps known divisions truthful: output `j` concatenates the input
    partitions `bs[j] … bs[j+1]-1` and reports the divisions `divs[bs[j]]`. -/
theorem tofewer_truthful {α : Type} (key : α → Nat) (divs : List Nat) (parts : List (List α))
    (bs d' : List Nat) (h : Truthful key divs parts)
    (hpw : bs.Pairwise (· < ·)) (hlast : bs.getLast? = some parts.length)
    (hd : toFewerDivs divs bs = some d') :
    Truthful key d' ((chunks parts bs).map List.flatten) := by
  obtain ⟨hlen, hsorted, hrows⟩ := h
  unfold toFewerDivs at hd
  obtain ⟨hdlen, hdget⟩ := mapM_getElem? _ bs d' hd
  have hle := le_last_of_strict bs _ hpw hlast
  have hdiv_le : ∀ (a b x y : Nat), a ≤ b → divs[a]? = some x → divs[b]? = some y → x ≤ y := by
    intro a b x y hab hx hy
    rcases Nat.eq_or_lt_of_le hab with rfl | hlt
    · rw [hx] at hy; cases hy; exact Nat.le_refl _
    · obtain ⟨ha', rfl⟩ := List.getElem?_eq_some_iff.mp hx
      obtain ⟨hb', rfl⟩ := List.getElem?_eq_some_iff.mp hy
      exact (List.pairwise_iff_getElem.mp hsorted) a b ha' hb' hlt
  have hbs_pos : 0 < bs.length := by
    cases bs with
    | nil => simp at hlast
    | cons _ _ => simp
  refine ⟨by rw [List.length_map, chunks_length]; omega, ?_, ?_⟩
  · rw [List.pairwise_iff_getElem]
    intro i j hi hj hij
    have hib : i < bs.length := by omega
    have hjb : j < bs.length := by omega
    obtain ⟨y1, hy1, hf1⟩ := hdget i _ (List.getElem?_eq_getElem hib)
    obtain ⟨y2, hy2, hf2⟩ := hdget j _ (List.getElem?_eq_getElem hjb)
    rw [List.getElem?_eq_getElem hi] at hy1
    rw [List.getElem?_eq_getElem hj] at hy2
    cases hy1; cases hy2
    have := (List.pairwise_iff_getElem.mp hpw) i j hib hjb hij
    exact hdiv_le _ _ _ _ (Nat.le_of_lt this) hf1 hf2
  · intro j p lo hi hp hlo hhi r hr
    rw [List.getElem?_map, Option.map_eq_some_iff] at hp
    obtain ⟨ch, hch, rfl⟩ := hp
    obtain ⟨a, b, ha, hb, rfl⟩ := (chunks_getElem? parts bs j ch).mp hch
    obtain ⟨pq, hpq, hrq⟩ := List.mem_flatten.mp hr
    obtain ⟨q, haq, hqb, hq⟩ := mem_pySlice parts a b pq hpq
    have hqlt : q < parts.length := (List.getElem?_eq_some_iff.mp hq).1
    obtain ⟨ya, hya, hfa⟩ := hdget j a ha
    obtain ⟨yb, hyb, hfb⟩ := hdget (j + 1) b hb
    rw [hlo] at hya; cases hya
    rw [hhi] at hyb; cases hyb
    have hdq := List.getElem?_eq_getElem (l := divs) (i := q) (by omega)
    have hdq1 := List.getElem?_eq_getElem (l := divs) (i := q + 1) (by omega)
    obtain ⟨hlow, hup⟩ := hrows q pq _ _ hq hdq hdq1 r hrq
    refine ⟨Nat.le_trans (hdiv_le a q _ _ haq hfa hdq) hlow, ?_⟩
    have hble : b ≤ parts.length := hle b (List.mem_of_getElem? hb)
    rcases hup with h1 | ⟨h2, h3⟩
    · left; exact Nat.lt_of_lt_of_le h1 (hdiv_le (q + 1) b _ _ (by omega) hdq1 hfb)
    · right
      have hbe : b = parts.length := by omega
      have hidx := idx_of_last bs _ hpw hlast (j + 1) (by rw [hb, hbe])
      refine ⟨by rw [List.length_map, chunks_length]; omega, ?_⟩
      have : divs[q + 1]? = some hi := by
        have : q + 1 = b := by omega
        rw [this]; exact hfb
      rw [hdq1] at this
      cases this
      exact h3

example : toFewerDivs [0, 3, 5, 9, 12] [0, 2, 4] = some [0, 5, 12] := by decide


/-- FULL STATEMENT for `.loc[a:b]` (`LocSlice`), `a ≤ b` or an open end -/
def LocSliceFullStatement : Prop :=
  ∀ (α : Type) (key : α → Nat) (divs : List Nat) (parts : List (List α)) (a b : Option Nat) (pl : LocPlan)
    (ps' : List (List α)),
    Truthful key divs parts → (∀ x y, a = some x → b = some y → x ≤ y) →
    locSlice divs a b = some pl → locSliceParts key parts pl a b = some ps' → Truthful key pl.divisions ps'

/-- **loc_slice_truthful — `_partial`: the selection falls into one partition** (`start = stop`; this is also
    the shape of `.loc[k]` / `LocElement`). The reported divisions are the slice bounds themselves and the
    single output partition holds exactly the rows with `a ≤ key ≤ b`. (The multi-partition case —
    trimmed first/last partition, untouched middle ones — is validated by the tie; its statement is
    `LocSliceFullStatement`.) -/
theorem loc_slice_truthful_partial {α : Type} (key : α → Nat) (divs : List Nat) (parts : List (List α))
    (x y : Nat) (hxy : x ≤ y) (pl : LocPlan) (ps' : List (List α))
    (hpl : locSlice divs (some x) (some y) = some pl) (hone : pl.stop = pl.start)
    (hps : locSliceParts key parts pl (some x) (some y) = some ps') :
    Truthful key pl.divisions ps' := by
  have hdivs : pl.divisions = [x, y] := by
    unfold locSlice at hpl
    split at hpl
    · cases hpl
    · split at hpl
      · unfold locSliceCore at hpl
        simp only at hpl
        split at hpl
        · cases hpl; rfl
        · rename_i hne
          split at hpl
          · cases hpl; exact absurd hone hne
          · cases hpl
      · cases hpl
  unfold locSliceParts at hps
  simp only [hone, if_true, Option.bind_eq_bind, Option.bind_eq_some_iff, Option.pure_def, Option.some.injEq] at hps
  obtain ⟨p, _, rfl⟩ := hps
  rw [hdivs]
  refine ⟨rfl, by simp [hxy], ?_⟩
  intro i q lo hi hq hlo hhi r hr
  cases i with
  | zero =>
    simp at hq hlo hhi
    subst hq hlo hhi
    unfold locRows at hr
    simp only [List.mem_filter, Bool.and_eq_true, decide_eq_true_eq] at hr
    exact ⟨hr.2.1, Or.inr ⟨rfl, hr.2.2⟩⟩
  | succ i => simp at hq

example : locSlice [0, 5, 18, 25, 28] (some 17) (some 31) = some ⟨1, 3, [17, 18, 25, 28]⟩ := by decide
example : locSlice [0, 5, 18, 25, 28] (some 6) (some 9) = some ⟨1, 1, [6, 9]⟩ := by decide


/-! non-vacuity -/
example : sdl ([(0 : Nat), 0, 1, 1, 1, 1, 2, 2, 4, 5, 5, 5, 5].map id) (.npartitions 4) =
    some ([0, 1, 2, 5, 5], [0, 2, 6, 9, 13]) := by decide

example : Truthful (fun (k : Nat) => k) [0, 3, 5, 5] [[0, 2, 2], [3, 4], [5, 5]] := by
  refine ⟨rfl, by decide, ?_⟩
  intro i p lo hi hp hlo hhi r hr
  match i with
  | 0 => simp at hp hlo hhi; subst hp hlo hhi; simp at hr; rcases hr with rfl | rfl <;> simp
  | 1 => simp at hp hlo hhi; subst hp hlo hhi; simp at hr; rcases hr with rfl | rfl <;> simp
  | 2 => simp at hp hlo hhi; subst hp hlo hhi; simp at hr; subst hr; simp
  | n + 3 => simp at hp

end Dask.C41
