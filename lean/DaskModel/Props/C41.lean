import DaskModel.Lemmas.Truthful
/-! # C41 — known divisions always describe the partitions truthfully (theorems)

`Truthful key divs parts` (Lemmas/Truthful.lean) is the statement's predicate. One theorem per
construction path that can report known divisions. -/
namespace Dask.C41
open Dask.Divs

/-- **Filtering** keeps known divisions truthful (`Filter._divisions` forwards the frame's divisions). -/
theorem filter_preserves {α : Type} (key : α → Nat) (divs : List Nat) (parts : List (List α))
    (pred : α → Bool) (h : Truthful key divs parts) :
    Truthful key divs (parts.map (·.filter pred)) :=
  h.map _ fun _ r hr => ⟨r, (List.mem_filter.mp hr).1, rfl⟩

/-- **Shuffle-free blockwise operations** that transform rows one by one without touching the index
    (assign, projection, arithmetic, `map_partitions` of such functions) keep divisions truthful. -/
theorem blockwise_preserves {α β : Type} (key : α → Nat) (key' : β → Nat) (divs : List Nat)
    (parts : List (List α)) (g : α → β) (hg : ∀ r, key' (g r) = key r) (h : Truthful key divs parts) :
    Truthful key' divs (parts.map (·.map g)) :=
  h.map _ fun _ r hr => by
    obtain ⟨r', hr', rfl⟩ := List.mem_map.mp hr
    exact ⟨r', hr', hg r'⟩

/-- partition-wise operations returning any sub-multiset / reordering of the partition's rows
    (`head`-per-partition, sorting inside a partition, dropping duplicates) keep divisions truthful -/
theorem partitionwise_subset_preserves {α : Type} (key : α → Nat) (divs : List Nat) (parts : List (List α))
    (f : List α → List α) (hf : ∀ p, ∀ r ∈ f p, r ∈ p) (h : Truthful key divs parts) :
    Truthful key divs (parts.map f) :=
  h.map f fun p r hr => ⟨r, hf p r hr, rfl⟩

/-! non-vacuity -/
example : Truthful (fun (k : Nat) => k) [0, 3, 5, 5] [[0, 2, 2], [3, 4], [5, 5]] := by
  refine ⟨rfl, by decide, ?_⟩
  intro i p lo hi hp hlo hhi r hr
  match i with
  | 0 => simp at hp hlo hhi; subst hp hlo hhi; simp at hr; rcases hr with rfl | rfl <;> simp
  | 1 => simp at hp hlo hhi; subst hp hlo hhi; simp at hr; rcases hr with rfl | rfl <;> simp
  | 2 => simp at hp hlo hhi; subst hp hlo hhi; simp at hr; subst hr; simp
  | n + 3 => simp at hp

end Dask.C41
