import DaskModel.Lemmas.SchedInit4
/-!
# C01 — local schedulers compute exactly the values the task graph denotes

Model: `Model/Sched.lean` (`get_async` of dask/local.py).  Values are symbolic: every theorem holds for
every value type `α` and every task function `apply` (take `α` = terms and `apply` = the term
constructor to read "equals recursive evaluation" as term equality).

Quantifiers of the statement ↦ Lean:
* every acyclic graph        ↦ `Hyp.acyclic` (a rank function decreasing along dependencies, no size bound)
* any worker count           ↦ `Hyp.nw : 1 ≤ cfg.nw`
* any dispatch batch size    ↦ `Hyp.cs : cfg.cs = -1 ∨ 1 ≤ cfg.cs`
* any completion order       ↦ `∀ choices : List Nat` (which outstanding batch completes next, at every iteration)
* any priorities             ↦ `cfg.prio` arbitrary (ties allowed)

The theorems of section `Run` take the hypothesis `StartOK` (the state built by `start_state_from_dask`
satisfies the scheduler invariant); it is discharged for every closed graph by `Dask.Sched.startState_ok`
(Lemmas/SchedInit*.lean, a loop-invariant proof for the explicit-stack traversal incl. sufficiency of the fuel).
Section `Full` states the property without it: `start_ok`, `get_async_correct`.
-/
namespace Dask.C01
open Dask.Sched
variable {α : Type}

/-- hypotheses of the property on graph and configuration -/
structure Hyp (cfg : Cfg) (rank : Key → Nat) : Prop where
  acyclic : ∀ k deps d, cfg.g.get? k = some (.task deps) → d ∈ deps → rank d < rank k
  nw : 1 ≤ cfg.nw
  cs : cfg.cs = -1 ∨ 1 ≤ cfg.cs

/-- direct recursive evaluation of the graph -/
def den (cfg : Cfg) (P : Params α) (rank : Key → Nat) : Key → α := fun k => denote cfg.g P (rank k + 1) k

/-- the recursive evaluation satisfies the graph equations: a task's value is its function applied to
the values of its dependencies, a data node's value is its datum -/
theorem den_fixpoint (cfg : Cfg) (P : Params α) (rank : Key → Nat) (h : Hyp cfg rank) :
    IsDen cfg.g P (den cfg P rank) :=
  denote_isDen P rank h.acyclic

/-- any two solutions of the graph equations agree on a closed acyclic graph: the denotation is unique,
so "the value the graph denotes" is well defined -/
theorem den_unique (cfg : Cfg) (P : Params α) (rank : Key → Nat) (h : Hyp cfg rank)
    (hclosed : ∀ k deps d, cfg.g.get? k = some (.task deps) → d ∈ deps → ∃ nd, cfg.g.get? d = some nd)
    (d1 d2 : Key → α) (h1 : IsDen cfg.g P d1) (h2 : IsDen cfg.g P d2) :
    ∀ n k nd, rank k < n → cfg.g.get? k = some nd → d1 k = d2 k := by
  intro n
  induction n with
  | zero => intro k nd hk; omega
  | succ n ih =>
    intro k nd hk hg
    cases nd with
    | data => rw [h1.data k hg, h2.data k hg]
    | task deps =>
      rw [h1.task k deps hg, h2.task k deps hg]
      congr 1
      apply List.map_congr_left
      intro d hd
      have hr := h.acyclic k deps d hg hd
      obtain ⟨nd', hgd⟩ := hclosed k deps d hg hd
      exact ih d nd' (by omega) hgd

section Run
variable {cfg : Cfg} {P : Params α} {rank : Key → Nat} {st0 : State α}

/-- **no internal error, whatever the completion order**: the main loop never raises `KeyError`,
`AssertionError`, `IndexError`, `ZeroDivisionError` (the `chunksize=-1` defect, repaired) and never
blocks on an empty queue (`hang`); the only error the model can return is a malformed adversary. -/
theorem sched_no_internal_error (h : Hyp cfg rank) (hs : StartOK cfg (den cfg P rank) st0)
    (choices : List Nat) (e : Err) (he : mainLoop cfg P choices (sys0 st0) = .error e) : e = .badChoice := by
  rcases mainLoop_spec P (den_fixpoint cfg P rank h) h.nw h.cs rank h.acyclic choices (sys0 st0) hs.sysInv with
    ⟨hbad, _⟩ | ⟨s', o, hok, _⟩
  · rw [hbad] at he; cases he; rfl
  · rw [hok] at he; cases he

/-- **`sched_cache_sound`**: in every state reached under any completion order (success, failure or
still running), every cached value is the value the graph denotes. -/
theorem sched_cache_sound (h : Hyp cfg rank) (hs : StartOK cfg (den cfg P rank) st0)
    (choices : List Nat) (s' : Sys α) (o : Outcome) (hrun : mainLoop cfg P choices (sys0 st0) = .ok (s', o)) :
    ∀ k v, s'.st.cache.get? k = some v → v = den cfg P rank k := by
  rcases mainLoop_spec P (den_fixpoint cfg P rank h) h.nw h.cs rank h.acyclic choices (sys0 st0) hs.sysInv with
    ⟨hbad, _⟩ | ⟨s1, o1, hok, hdone, hstarved, hfailed, _⟩
  · rw [hbad] at hrun; cases hrun
  · rw [hok] at hrun
    cases hrun
    cases o with
    | done => exact (hdone rfl).1.sound
    | starved => exact (hstarved rfl).1.sound
    | failed k =>
      obtain ⟨_, rest', hB, _⟩ := hfailed k rfl
      exact hB.sound

/-- **`sched_progress`**: when the loop condition holds, `fire_tasks` followed by the wait on the queue
always has an outstanding batch to wait for (one iteration never hangs and never raises). -/
theorem sched_progress (h : Hyp cfg rank) {s : Sys α} (hinv : SysInv cfg (den cfg P rank) s)
    (hl : loopCond s.st = true) (choice : Nat) :
    iter cfg P choice s = .error .badChoice ∨ ∃ s' o, iter cfg P choice s = .ok (s', o) := by
  rcases iter_spec P (den_fixpoint cfg P rank h) h.nw h.cs rank h.acyclic hinv hl choice with ⟨hb, _⟩ | ⟨s', o, hok, _⟩
  · exact Or.inl hb
  · exact Or.inr ⟨s', o, hok⟩

/-- **`sched_terminates`**: every iteration that does not fail finishes at least one task, so the loop
runs at most (number of visited keys) times: with more adversary choices than that it cannot still be
running. -/
theorem sched_terminates (h : Hyp cfg rank) (hs : StartOK cfg (den cfg P rank) st0)
    (choices : List Nat) (hlen : st0.dependencies.length < choices.length)
    (s' : Sys α) (o : Outcome) (hrun : mainLoop cfg P choices (sys0 st0) = .ok (s', o)) : o ≠ .starved := by
  rcases mainLoop_spec P (den_fixpoint cfg P rank h) h.nw h.cs rank h.acyclic choices (sys0 st0) hs.sysInv with
    ⟨hbad, _⟩ | ⟨s1, o1, hok, _, hstarved, _, _, hdeps, _, _⟩
  · rw [hbad] at hrun; cases hrun
  · rw [hok] at hrun
    cases hrun
    intro ho
    obtain ⟨hinv, _, hge⟩ := hstarved ho
    have hle := hinv.inv.finished_le
    rw [hdeps] at hle
    have : (sys0 st0).st.dependencies = st0.dependencies := rfl
    rw [this] at hle
    omega

/-- **`sched_result`**: when the loop ends normally, `nested_get(result, cache)` returns, in the same
nesting as the request, exactly the values a direct recursive evaluation gives. -/
theorem sched_result (h : Hyp cfg rank) (hs : StartOK cfg (den cfg P rank) st0)
    (choices : List Nat) (s' : Sys α) (hrun : mainLoop cfg P choices (sys0 st0) = .ok (s', .done))
    (req : Req) (hreq : ∀ k ∈ req.flat, k ∈ cfg.results) :
    nestedGet s'.st.cache.get? req = nestedGet (fun k => some (den cfg P rank k)) req := by
  rcases mainLoop_spec P (den_fixpoint cfg P rank h) h.nw h.cs rank h.acyclic choices (sys0 st0) hs.sysInv with
    ⟨hbad, _⟩ | ⟨s1, o1, hok, hdone, _, _, _, hdeps, _, _⟩
  · rw [hbad] at hrun; cases hrun
  · rw [hok] at hrun
    cases hrun
    obtain ⟨hinv, hl⟩ := hdone rfl
    apply nestedGet_congr
    intro k hk
    have hkr := hreq k hk
    have hseen : s'.st.seen k := by
      obtain ⟨ds, hds⟩ := hs.resultsSeen k hkr
      exact ⟨ds, by rw [hdeps]; exact hds⟩
    obtain ⟨v, hv⟩ := hinv.inv.done_result_cached hl hkr hseen
    rw [hv, hinv.sound k v hv]

/-- the whole call: `get_async` ends with outcome `done` ⇒ its final cache gives the denoted values
for the request (what `nested_get` returns), under every completion order. -/
theorem getAsync_result (h : Hyp cfg rank) (hst : startState cfg P = .ok st0)
    (hs : StartOK cfg (den cfg P rank) st0) (choices : List Nat)
    (hdone : (getAsync cfg P choices).outcome = .ok .done)
    (req : Req) (hreq : ∀ k ∈ req.flat, k ∈ cfg.results) :
    nestedGet (getAsync cfg P choices).final.cache.get? req = nestedGet (fun k => some (den cfg P rank k)) req := by
  rw [getAsync_eq hst (hs.accessible rank h.acyclic) choices] at hdone ⊢
  cases hml : mainLoop cfg P choices (sys0 st0) with
  | error e => rw [hml] at hdone; cases hdone
  | ok r =>
    obtain ⟨s', o⟩ := r
    rw [hml] at hdone
    cases o with
    | done => exact sched_result h hs choices s' hml req hreq
    | starved => cases hdone
    | failed k => cases hdone

/-- the call never raises "Found no accessible jobs in dask" on an acyclic graph -/
theorem accessible_jobs (h : Hyp cfg rank) (hs : StartOK cfg (den cfg P rank) st0) :
    ¬ (!st0.waiting.isEmpty ∧ st0.ready.isEmpty) := hs.accessible rank h.acyclic

end Run

/-! ## same nesting -/
inductive Shape where
  | leaf
  | node (l : List Shape)

mutual
def reqShape : Req → Shape
  | .key _ => .leaf
  | .list rs => .node (reqShapes rs)
def reqShapes : List Req → List Shape
  | [] => []
  | r :: rs => reqShape r :: reqShapes rs
end

mutual
def packedShape : Packed α → Shape
  | .val _ => .leaf
  | .tuple vs => .node (packedShapes vs)
def packedShapes : List (Packed α) → List Shape
  | [] => []
  | v :: vs => packedShape v :: packedShapes vs
end

mutual
/-- `nested_get` packs its result in exactly the nesting of the request (lists become tuples of the same length,
recursively), whatever the lookup is -/
theorem nestedGet_shape (look : Key → Option α) : ∀ (r : Req) (p : Packed α), nestedGet look r = some p →
    packedShape p = reqShape r
  | .key k, p, h => by
    simp only [nestedGet] at h
    cases hl : look k with
    | none => rw [hl] at h; cases h
    | some v => rw [hl] at h; cases h; rfl
  | .list rs, p, h => by
    simp only [nestedGet] at h
    cases hl : nestedGetList look rs with
    | none => rw [hl] at h; cases h
    | some vs =>
      rw [hl] at h
      cases h
      simp only [packedShape, reqShape]
      rw [nestedGetList_shape look rs vs hl]
theorem nestedGetList_shape (look : Key → Option α) : ∀ (rs : List Req) (vs : List (Packed α)),
    nestedGetList look rs = some vs → packedShapes vs = reqShapes rs
  | [], vs, h => by
    simp only [nestedGetList] at h
    cases h
    rfl
  | r :: rs, vs, h => by
    simp only [nestedGetList] at h
    cases h1 : nestedGet look r with
    | none => rw [h1] at h; cases h
    | some v =>
      cases h2 : nestedGetList look rs with
      | none => rw [h1, h2] at h; cases h
      | some vs' =>
        rw [h1, h2] at h
        cases h
        simp only [packedShapes, reqShapes]
        rw [nestedGet_shape look r v h1, nestedGetList_shape look rs vs' h2]
end

/-! ## the full statement (no hypothesis on the start state) -/
section Full
variable {cfg : Cfg} {P : Params α} {rank : Key → Nat}

/-- `start_state_from_dask` never raises on a closed graph and its state satisfies the invariant -/
theorem start_ok (h : Hyp cfg rank) (hG : GraphOK cfg.g cfg.results) :
    ∃ st0, startState cfg P = .ok st0 ∧ StartOK cfg (den cfg P rank) st0 := by
  obtain ⟨st0, h1, h2, _⟩ := startState_ok cfg P (den_fixpoint cfg P rank h) hG
  exact ⟨st0, h1, h2⟩

/-- the keys visited by `start_state_from_dask` are exactly those reachable from the request -/
theorem seen_iff_reachable (h : Hyp cfg rank) (hG : GraphOK cfg.g cfg.results) {st0 : State α}
    (hst : startState cfg P = .ok st0) (k : Key) : st0.seen k ↔ Reach cfg.g cfg.results k := by
  obtain ⟨st1, h1, _, h3⟩ := startState_ok cfg P (den_fixpoint cfg P rank h) hG
  rw [hst] at h1
  cases h1
  exact h3 k

theorem startOK_of_eq (h : Hyp cfg rank) (hG : GraphOK cfg.g cfg.results) {st0 : State α}
    (hst : startState cfg P = .ok st0) : StartOK cfg (den cfg P rank) st0 := by
  obtain ⟨st1, h1, h2⟩ := start_ok (P := P) h hG
  rw [hst] at h1
  cases h1
  exact h2

/-- **C01, full**: for every closed acyclic graph (dependencies exist and are listed once, requested keys exist),
every `num_workers ≥ 1`, `chunksize ∈ {-1} ∪ ℕ⁺`, arbitrary priorities, and EVERY order in which outstanding batches
complete (`choices`), a whole `get_async` call
* never raises an internal error (`KeyError`, `AssertionError`, `ZeroDivisionError`, `IndexError`, "Missing
  dependency", "Found no accessible jobs") and never waits on an empty queue;
* when it ends normally, `nested_get` of its final cache gives - in the nesting of the request - exactly the values of
  the recursive evaluation of the graph;
* it cannot still be running after more iterations than there are keys. -/
theorem get_async_correct (h : Hyp cfg rank) (hG : GraphOK cfg.g cfg.results) (choices : List Nat) :
    (∀ e, (getAsync cfg P choices).outcome = .error e → e = .badChoice) ∧
    ((getAsync cfg P choices).outcome = .ok .done → ∀ req : Req, (∀ k ∈ req.flat, k ∈ cfg.results) →
      nestedGet (getAsync cfg P choices).final.cache.get? req = nestedGet (fun k => some (den cfg P rank k)) req) ∧
    (∀ st0, startState cfg P = .ok st0 → st0.dependencies.length < choices.length →
      (getAsync cfg P choices).outcome ≠ .ok .starved) := by
  obtain ⟨st0, hst, hs⟩ := start_ok (P := P) h hG
  refine ⟨?_, fun hdone req hreq => getAsync_result h hst hs choices hdone req hreq, ?_⟩
  · intro e he
    rw [getAsync_eq hst (hs.accessible rank h.acyclic) choices] at he
    cases hml : mainLoop cfg P choices (sys0 st0) with
    | error e' =>
      rw [hml] at he
      simp only [Except.error.injEq] at he
      subst he
      exact sched_no_internal_error h hs choices e' hml
    | ok r =>
      obtain ⟨s', o⟩ := r
      rw [hml] at he
      cases o <;> cases he
  · intro st1 hst1 hlen hstarved
    rw [hst] at hst1
    cases hst1
    rw [getAsync_eq hst (hs.accessible rank h.acyclic) choices] at hstarved
    cases hml : mainLoop cfg P choices (sys0 st0) with
    | error e' => rw [hml] at hstarved; cases hstarved
    | ok r =>
      obtain ⟨s', o⟩ := r
      rw [hml] at hstarved
      have hne := sched_terminates h hs choices hlen s' o hml
      cases o with
      | done => cases hstarved
      | starved => exact hne rfl
      | failed k => cases hstarved
/-- **the synchronous scheduler** (`get_sync`: every batch completes as soon as it is submitted, i.e. the FIFO
adversary `choices = 0, 0, …`): the run is never rejected, never raises an internal error, and with as many iterations
as there are visited keys it has ended - normally, with the denoted values, or with the exception of a failing task. -/
theorem sync_scheduler_terminates (h : Hyp cfg rank) (hG : GraphOK cfg.g cfg.results) (n : Nat) :
    ∃ st0, startState cfg P = .ok st0 ∧
      (st0.dependencies.length < n →
        ∃ s' o, mainLoop cfg P (List.replicate n 0) (sys0 st0) = .ok (s', o) ∧ (o = .done ∨ ∃ k, o = .failed k ∧ P.fails k = true)) := by
  obtain ⟨st0, hst, hs⟩ := start_ok (P := P) h hG
  refine ⟨st0, hst, ?_⟩
  intro hn
  rcases mainLoop_spec P (den_fixpoint cfg P rank h) h.nw h.cs rank h.acyclic (List.replicate n 0) (sys0 st0) hs.sysInv with
    ⟨_, c, hc, hpos⟩ | ⟨s', o, hok, _, _, hfailed, _⟩
  · have := List.eq_of_mem_replicate hc
    omega
  · refine ⟨s', o, hok, ?_⟩
    have hne := sched_terminates h hs (List.replicate n 0) (by simpa using hn) s' o hok
    cases o with
    | done => exact Or.inl rfl
    | starved => exact absurd rfl hne
    | failed k => exact Or.inr ⟨k, rfl, (hfailed k rfl).1⟩

end Full

/-! ## a caller-supplied cache (`get(dsk, keys, cache=…)`)
The executable model covers it (`startStateC`, `getAsyncC`: tied to the code by the `start`/`trace` sections of the
check); the theorems of this file are for the empty start cache, which is what these two facts connect them to. -/
theorem startStateC_nil (cfg : Cfg) (P : Params α) : startStateC cfg P [] (some cfg.results) = startState cfg P := rfl
theorem getAsyncC_nil (cfg : Cfg) (P : Params α) (choices : List Nat) : getAsyncC cfg P [] choices = getAsync cfg P choices := rfl

/-! ## non-vacuity: a diamond `0:data, 1:task[0], 2:task[0], 3:task[1,2]`, request `[3]`, two workers -/
section Example
def exCfg (cs : Int) : Cfg :=
  { g := [(0, .data), (1, .task [0]), (2, .task [0]), (3, .task [1, 2])], results := [3],
    prio := fun k => k, nw := 2, cs := cs }
def exP : Params Nat :=
  { dataVal := fun _ => 7, apply := fun k vals => k * 100 + vals.sum, fails := fun _ => false }

def isDone (r : Run Nat) : Bool := match r.outcome with | .ok .done => true | _ => false

example : Hyp (exCfg 1) id := by
  refine ⟨?_, by decide, by decide⟩
  intro k deps d hk hd
  match k, hk with
  | 0, hk => simp [exCfg, Map.get?] at hk
  | 1, hk => simp [exCfg, Map.get?] at hk; subst hk; simp at hd; subst hd; decide
  | 2, hk => simp [exCfg, Map.get?] at hk; subst hk; simp at hd; subst hd; decide
  | 3, hk => simp [exCfg, Map.get?] at hk; subst hk; simp at hd; rcases hd with rfl | rfl <;> decide
  | k + 4, hk => simp [exCfg, Map.get?] at hk

/-- the hypothesis `GraphOK` of the `Full` section holds for the diamond: the hypotheses of `get_async_correct` are
jointly satisfiable (with the `Hyp` example above) -/
example : GraphOK (exCfg 1).g (exCfg 1).results := by
  refine ⟨?_, ?_, ?_⟩
  · intro k deps d hk hd
    match k, hk with
    | 0, hk => simp [exCfg, Map.get?] at hk
    | 1, hk => simp [exCfg, Map.get?] at hk; subst hk; simp at hd; subst hd; exact ⟨_, rfl⟩
    | 2, hk => simp [exCfg, Map.get?] at hk; subst hk; simp at hd; subst hd; exact ⟨_, rfl⟩
    | 3, hk => simp [exCfg, Map.get?] at hk; subst hk; simp at hd; rcases hd with rfl | rfl <;> exact ⟨_, rfl⟩
    | k + 4, hk => simp [exCfg, Map.get?] at hk
  · intro k deps hk
    match k, hk with
    | 0, hk => simp [exCfg, Map.get?] at hk
    | 1, hk => simp [exCfg, Map.get?] at hk; subst hk; simp
    | 2, hk => simp [exCfg, Map.get?] at hk; subst hk; simp
    | 3, hk => simp [exCfg, Map.get?] at hk; subst hk; simp
    | k + 4, hk => simp [exCfg, Map.get?] at hk
  · intro r hr
    simp [exCfg] at hr
    subst hr
    exact ⟨_, rfl⟩

/-- the model really runs: both completion orders of the two middle tasks give the denoted value -/
example : isDone (getAsync (exCfg 1) exP [0, 0, 0]) = true ∧ (getAsync (exCfg 1) exP [0, 0, 0]).final.cache.get? 3 = some 614 := by
  decide
example : isDone (getAsync (exCfg 1) exP [1, 0, 0]) = true ∧ (getAsync (exCfg 1) exP [1, 0, 0]).final.cache.get? 3 = some 614 := by
  decide
example : den (exCfg 1) exP id 3 = 614 := by decide
/-- a caller-supplied cache (`cache={1: 107}`, the value key 1 denotes): task 1 is not run again, the result is the same -/
example : isDone (getAsyncC (exCfg 1) exP [(1, 107)] [0, 0]) = true ∧
    (getAsyncC (exCfg 1) exP [(1, 107)] [0, 0]).final.cache.get? 3 = some 614 ∧
    (getAsyncC (exCfg 1) exP [(1, 107)] [0, 0]).log.filterMap (fun e => match e.1 with | .pretask k => some k | _ => none) = [2, 3] := by
  decide
/-- `chunksize = -1` (the repaired branch; the second `fire_tasks` sees `ready = []` while a task is running) -/
example : isDone (getAsync (exCfg (-1)) exP [0, 0, 0]) = true := by decide
end Example

end Dask.C01
