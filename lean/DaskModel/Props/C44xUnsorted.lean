import DaskModel.Model.FromPandasUnsorted
import DaskModel.Lemmas.Repart
/-! C44 extension: `from_pandas(df, npartitions=… | chunksize=…, sort=False)` on an index that is NOT monotonic
    (and `from_pandas` of an empty frame): the branches of `FromPandas._divisions_and_locations` that do not go through
    `sorted_division_locations`.  Rows and order are kept, the partition count is `ceil(n / chunksize)`, and a
    requested `npartitions` is an upper bound of the count. -/
namespace Dask.C44x
open Dask.Repart Dask.FPU

theorem mul_lt_of_lt_ceilDiv {n c i : Nat} (hc : 0 < c) (h : i < ceilDiv n c) : i * c < n := by
  unfold ceilDiv at h
  have h1 : (i + 1) * c ≤ n + c - 1 := (Nat.le_div_iff_mul_le hc).1 h
  rw [Nat.succ_mul] at h1
  omega

theorem ceilDiv_pos {n c : Nat} (hn : 0 < n) (hc : 0 < c) : 0 < ceilDiv n c := by
  unfold ceilDiv
  exact Nat.div_pos (by omega) hc

theorem locs_pairwise (n c : Nat) (hc : 0 < c) : (rangeStep n c ++ [n]).Pairwise (· ≤ ·) := by
  rw [List.pairwise_append]
  refine ⟨?_, List.pairwise_singleton _ _, ?_⟩
  · unfold rangeStep
    rw [List.pairwise_map]
    exact (List.pairwise_lt_range).imp (fun h => Nat.mul_le_mul_right c (Nat.le_of_lt h))
  · intro a ha b hb
    simp only [List.mem_singleton] at hb
    subst hb
    unfold rangeStep at ha
    obtain ⟨i, hi, rfl⟩ := List.mem_map.1 ha
    exact Nat.le_of_lt (mul_lt_of_lt_ceilDiv hc (List.mem_range.1 hi))

theorem locs_head (n c : Nat) (hn : 0 < n) (hc : 0 < c) : (rangeStep n c ++ [n]).head? = some 0 := by
  obtain ⟨k, hk⟩ := Nat.exists_eq_succ_of_ne_zero (Nat.pos_iff_ne_zero.1 (ceilDiv_pos hn hc))
  unfold rangeStep
  rw [hk, List.range_succ_eq_map]
  simp

/-- **unsorted_rows**: whenever the location plan exists, the partitions `data.iloc[loc[i]:loc[i+1]]` concatenate to
    the frame (same rows, same order), and there is one partition per consecutive pair of locations. -/
theorem unsorted_rows {α : Type} (rows : List α) (np cs : Option Nat) (out : List (List α))
    (h : fromPandasUnsorted rows np cs = some out) : out.flatten = rows := by
  unfold fromPandasUnsorted at h
  obtain ⟨locs, hl, rfl⟩ := Option.map_eq_some_iff.1 h
  unfold locations at hl
  by_cases hn : rows.length = 0
  · rw [if_pos hn] at hl
    have hr : rows = [] := List.eq_nil_of_length_eq_zero hn
    subst hr
    simp [cut, pySlice]
  · rw [if_neg hn] at hl
    by_cases hc : chunkOf rows.length np cs = 0
    · rw [if_pos hc] at hl; cases hl
    · rw [if_neg hc] at hl
      injection hl with hl
      subst hl
      have hn' : 0 < rows.length := Nat.pos_of_ne_zero hn
      have hc' : 0 < chunkOf rows.length np cs := Nat.pos_of_ne_zero hc
      rw [cut_eq_chunks, chunks_flatten rows _ 0 rows.length (locs_head _ _ hn' hc') (by simp)
        (locs_pairwise _ _ hc'), pySlice_full]

/-- **unsorted_npartitions**: a non-empty unsorted frame gets exactly `ceil(n / chunksize)` partitions;
    an empty frame gets `npartitions or 1` (empty) partitions. -/
theorem unsorted_npartitions {α : Type} (rows : List α) (np cs : Option Nat) (out : List (List α))
    (h : fromPandasUnsorted rows np cs = some out) :
    out.length = if rows.length = 0 then npOr1 np else ceilDiv rows.length (chunkOf rows.length np cs) := by
  unfold fromPandasUnsorted at h
  obtain ⟨locs, hl, rfl⟩ := Option.map_eq_some_iff.1 h
  rw [cut_eq_chunks, chunks_length]
  unfold locations at hl
  by_cases hn : rows.length = 0
  · rw [if_pos hn] at hl; rw [if_pos hn]
    injection hl with hl; subst hl; simp
  · rw [if_neg hn] at hl; rw [if_neg hn]
    by_cases hc : chunkOf rows.length np cs = 0
    · rw [if_pos hc] at hl; cases hl
    · rw [if_neg hc] at hl
      injection hl with hl; subst hl
      simp [rangeStep]

/-- `p * ceil(n / p) ≥ n` -/
theorem le_mul_ceilDiv (n p : Nat) (hp : 0 < p) : n ≤ p * ceilDiv n p := by
  unfold ceilDiv
  have h1 := Nat.div_add_mod (n + p - 1) p
  have h2 := Nat.mod_lt (n + p - 1) hp
  omega

/-- **unsorted_npartitions_le**: with `npartitions=p` the unsorted branch uses chunks of `ceil(n / p)` rows and
    therefore yields AT MOST `p` partitions (possibly fewer: 5 rows, `npartitions=4` gives 3). -/
theorem unsorted_npartitions_le (n p : Nat) (hn : 0 < n) (hp : 0 < p) :
    0 < chunkOf n (some p) none ∧ ceilDiv n (chunkOf n (some p) none) ≤ p := by
  have hc : 0 < ceilDiv n p := ceilDiv_pos hn hp
  refine ⟨hc, ?_⟩
  show ceilDiv n (ceilDiv n p) ≤ p
  have hle := le_mul_ceilDiv n p hp
  generalize ceilDiv n p = c at hc hle
  unfold ceilDiv
  apply Nat.le_of_lt_succ
  rw [Nat.div_lt_iff_lt_mul hc, Nat.succ_mul]
  omega

/-- with `chunksize=c` the count is exactly `ceil(n / c)` and every location but the last is a multiple of `c` -/
theorem unsorted_locations_chunksize (n c : Nat) (hn : 0 < n) (hc : 0 < c) :
    locations n none (some c) = some ((List.range (ceilDiv n c)).map (· * c) ++ [n]) := by
  unfold locations
  have : chunkOf n none (some c) = c := rfl
  rw [if_neg (by omega), this, if_neg (by omega)]
  rfl

example : fromPandasUnsorted [3, 1, 2, 0, 4] (some 4) none = some [[3, 1], [2, 0], [4]] := by decide
example : locations 5 none (some 2) = some [0, 2, 4, 5] := by decide
example : locations 0 (some 3) none = some [0, 0, 0, 0] := by decide
example : locations 4 none (some 0) = none := by decide

end Dask.C44x
