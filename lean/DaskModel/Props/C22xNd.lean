import DaskModel.Lemmas.GridReduceKd
import DaskModel.Lemmas.ArgNd
/-!
# C22, extension: var / std and arg-reductions over SEVERAL axes at once

`Props/C22.lean` proves `var_eq_numpy` for one reduced axis (a list of blocks) and `gridReduce_eq_fold` for commutative
monoids over an n-d grid of blocks.  Here:

* `var_nd_eq_numpy` — `x.var(axis=(…))` / `x.var()` on an n-d array: for every grid of blocks `nb` (every chunking of every
  reduced axis, empty blocks included), every per-axis `split_every`, every depth with `n_i ≤ k_i ^ depth`, and both
  `keepdims` settings, the tree `moment_chunk → moment_combine* → moment_agg` returns ONE block (key `()` or `(0,…,0)`)
  holding NumPy's two-pass variance of all the data; `none` iff `n ≤ ddof`.  `var_nd_eq_numpy_perm`: of the data in any
  order (NumPy ravels in C order, the blocks enumerate the same elements block by block).  `var_nd_dask_depth`: with the
  depth the `_tree_reduce` loop itself computes (or any larger one), no depth hypothesis left.
  `da.std` = `sqrt` of it (trusted), `nanvar` = the same on the non-NaN data (`nanvar_nd_eq_numpy`).
* `argmin_nd_eq_numpy` / `argmax_nd_eq_numpy` — `da.argmin(x)` / `da.argmax(x)` (`axis=None`) on an n-d array given as a
  function of the global multi-index, for EVERY chunking of every axis (zero-length chunks included): the per-block
  partials are computed as `arg_chunk` does (`np.argmin` of the block, `unravel_index` in the block shape, plus the block
  offset, `ravel_multi_index` in the total shape — `Model/ArgNd.lean`), merged by `arg_combine` / `arg_agg` over the n-d tree
  (every per-axis `split_every`, every valid depth, both `keepdims`): the result is `argBest` of NumPy's C-order ravel —
  value and FIRST flat index of the extremum (`argBest_first_min/max`, `argmin/argmax_nd_first_index`), `none` (NumPy
  raises) iff the array is empty.
-/
namespace Dask.C22x
open Dask.ArrayReduce Dask.Moment Dask.C22

/-- **var over several axes at once** (order-2 moment partials over an n-d block grid) -/
theorem var_nd_eq_numpy (ddof : Nat) (kd : Bool) (d : Nat) (ks nb : List Nat) (blocks : List (List Rat))
    (h : AxesOk (d + 1) ks nb) (hl : blocks.length = (cartesian (nb.map List.range)).length) :
    (redVar ddof).run nb (ks.map some) kd (d + 1) blocks = some [(finalKey kd nb, varSpec ddof blocks.flatten)] := by
  unfold Red.run
  show ((blocks.mapM fun b => some (momChunk b)).bind _) = _
  rw [mapM_some]
  simp only [Option.bind_some]
  exact var_grid ddof kd d ks nb blocks h hl

/-- … which is NumPy's variance of the same elements in ANY order (in particular the C-order ravel of the array) -/
theorem var_nd_eq_numpy_perm (ddof : Nat) (kd : Bool) (d : Nat) (ks nb : List Nat) (blocks : List (List Rat))
    (h : AxesOk (d + 1) ks nb) (hl : blocks.length = (cartesian (nb.map List.range)).length)
    (flat : List Rat) (hp : flat.Perm blocks.flatten) :
    (redVar ddof).run nb (ks.map some) kd (d + 1) blocks = some [(finalKey kd nb, varSpec ddof flat)] := by
  rw [var_nd_eq_numpy ddof kd d ks nb blocks h hl, varSpec_perm ddof hp]

/-- with the depth of the `_tree_reduce` loop (group sizes ≥ 2, at least one block per axis) or any larger depth -/
theorem var_nd_dask_depth (ddof : Nat) (kd : Bool) (ks nb : List Nat) (blocks : List (List Rat))
    (hlen : ks.length = nb.length) (hk : ∀ k ∈ ks, 2 ≤ k) (hn : ∀ n ∈ nb, 1 ≤ n)
    (hl : blocks.length = (cartesian (nb.map List.range)).length) (extra : Nat) :
    (redVar ddof).run nb (ks.map some) kd (treeDepth (ks.map some) nb + extra) blocks
      = some [(finalKey kd nb, varSpec ddof blocks.flatten)] := by
  obtain ⟨d, hd⟩ : ∃ d, treeDepth (ks.map some) nb + extra = d + 1 :=
    ⟨treeDepth (ks.map some) nb + extra - 1, by have := one_le_treeDepth (ks.map some) nb; omega⟩
  rw [hd]
  exact var_nd_eq_numpy ddof kd d ks nb blocks
    (hd ▸ axesOk_mono (axesOk_treeDepth ks nb hlen hk hn) (Nat.le_add_right _ _)) hl

/-- the result depends neither on the chunking of any axis nor on `split_every` nor on `keepdims` (up to the key) -/
theorem var_nd_chunking_irrelevant (ddof : Nat) (kd : Bool) (d d' : Nat) (ks nb ks' nb' : List Nat)
    (bs bs' : List (List Rat)) (h : AxesOk (d + 1) ks nb) (h' : AxesOk (d' + 1) ks' nb')
    (hl : bs.length = (cartesian (nb.map List.range)).length)
    (hl' : bs'.length = (cartesian (nb'.map List.range)).length) (hsame : bs.flatten.Perm bs'.flatten) :
    ((redVar ddof).run nb (ks.map some) kd (d + 1) bs).map (List.map (·.2))
      = ((redVar ddof).run nb' (ks'.map some) kd (d' + 1) bs').map (List.map (·.2)) := by
  rw [var_nd_eq_numpy ddof kd d ks nb bs h hl, var_nd_eq_numpy ddof kd d' ks' nb' bs' h' hl',
    varSpec_perm ddof hsame]
  rfl

/-- `nanvar` over several axes: NaN entries (`none`) are dropped block by block -/
theorem nanvar_nd_eq_numpy (ddof : Nat) (kd : Bool) (d : Nat) (ks nb : List Nat) (blocks : List (List (Option Rat)))
    (h : AxesOk (d + 1) ks nb) (hl : blocks.length = (cartesian (nb.map List.range)).length) :
    (redVar ddof).run nb (ks.map some) kd (d + 1) (blocks.map (List.filterMap id))
      = some [(finalKey kd nb, varSpec ddof (blocks.flatten.filterMap id))] := by
  rw [var_nd_eq_numpy ddof kd d ks nb _ h (by simpa using hl), filterMap_id_flatten]

/-- non-vacuity: a 3 × 2 grid of blocks (one of them empty), `split_every = (2, 2)`, two levels, both `keepdims` -/
theorem axesOk_example : AxesOk 2 [2, 2] [3, 2] := by
  unfold AxesOk
  exact List.Forall₂.cons ⟨by decide, by decide, by decide⟩
    (List.Forall₂.cons ⟨by decide, by decide, by decide⟩ List.Forall₂.nil)

example : (redVar 0).run [3, 2] [some 2, some 2] false 2 [[1, 2], [], [6], [3, 3], [0], [6]]
      = some [([], some (32 / 7))]
    ∧ (redVar 1).run [3, 2] [some 2, some 2] true 2 [[1, 2], [], [6], [3, 3], [0], [6]]
      = some [([0, 0], some (16 / 3))] := by
  constructor
  · rw [show [some 2, some 2] = [2, 2].map some from rfl,
      var_nd_eq_numpy 0 false 1 [2, 2] [3, 2] _ axesOk_example (by decide)]
    decide +kernel
  · rw [show [some 2, some 2] = [2, 2].map some from rfl,
      var_nd_eq_numpy 1 true 1 [2, 2] [3, 2] _ axesOk_example (by decide)]
    decide +kernel

/-! ## arg-reductions with `axis=None` on n-d arrays -/

/-- **argmin over all axes of an n-d array** = value and FIRST C-order flat index of the minimum, for every chunking -/
theorem argmin_nd_eq_numpy (kd : Bool) (d : Nat) (ks : List Nat) (chunks : List (List Nat)) (f : List Nat → Int)
    (h : AxesOk (d + 1) ks (chunks.map List.length)) :
    argTreeNd ltMin chunks ks kd (d + 1) f
      = some [(finalKey kd (chunks.map List.length), argBest ltMin (flatData chunks f))] :=
  argTreeNd_eq ltMin better_assoc_min better_comm_min kd d ks chunks f h

theorem argmax_nd_eq_numpy (kd : Bool) (d : Nat) (ks : List Nat) (chunks : List (List Nat)) (f : List Nat → Int)
    (h : AxesOk (d + 1) ks (chunks.map List.length)) :
    argTreeNd ltMax chunks ks kd (d + 1) f
      = some [(finalKey kd (chunks.map List.length), argBest ltMax (flatData chunks f))] :=
  argTreeNd_eq ltMax better_assoc_max better_comm_max kd d ks chunks f h

/-- with the depth of the `_tree_reduce` loop (or any larger one): every axis has at least one chunk, group sizes ≥ 2 -/
theorem argmin_nd_dask_depth (kd : Bool) (ks : List Nat) (chunks : List (List Nat)) (f : List Nat → Int)
    (hlen : ks.length = chunks.length) (hk : ∀ k ∈ ks, 2 ≤ k) (hn : ∀ c ∈ chunks, c ≠ []) (extra : Nat) :
    argTreeNd ltMin chunks ks kd (treeDepth (ks.map some) (chunks.map List.length) + extra) f
      = some [(finalKey kd (chunks.map List.length), argBest ltMin (flatData chunks f))] := by
  obtain ⟨d, hd⟩ : ∃ d, treeDepth (ks.map some) (chunks.map List.length) + extra = d + 1 :=
    ⟨treeDepth (ks.map some) (chunks.map List.length) + extra - 1,
      by have := one_le_treeDepth (ks.map some) (chunks.map List.length); omega⟩
  rw [hd]
  refine argmin_nd_eq_numpy kd d ks chunks f (hd ▸ axesOk_mono (axesOk_treeDepth ks _ (by simpa using hlen) hk ?_)
    (Nat.le_add_right _ _))
  intro n hn'
  obtain ⟨c, hc, rfl⟩ := List.mem_map.mp hn'
  have := hn c hc
  cases c with
  | nil => exact absurd rfl this
  | cons => simp

theorem argmax_nd_dask_depth (kd : Bool) (ks : List Nat) (chunks : List (List Nat)) (f : List Nat → Int)
    (hlen : ks.length = chunks.length) (hk : ∀ k ∈ ks, 2 ≤ k) (hn : ∀ c ∈ chunks, c ≠ []) (extra : Nat) :
    argTreeNd ltMax chunks ks kd (treeDepth (ks.map some) (chunks.map List.length) + extra) f
      = some [(finalKey kd (chunks.map List.length), argBest ltMax (flatData chunks f))] := by
  obtain ⟨d, hd⟩ : ∃ d, treeDepth (ks.map some) (chunks.map List.length) + extra = d + 1 :=
    ⟨treeDepth (ks.map some) (chunks.map List.length) + extra - 1,
      by have := one_le_treeDepth (ks.map some) (chunks.map List.length); omega⟩
  rw [hd]
  refine argmax_nd_eq_numpy kd d ks chunks f (hd ▸ axesOk_mono (axesOk_treeDepth ks _ (by simpa using hlen) hk ?_)
    (Nat.le_add_right _ _))
  intro n hn'
  obtain ⟨c, hc, rfl⟩ := List.mem_map.mp hn'
  have := hn c hc
  cases c with
  | nil => exact absurd rfl this
  | cons => simp

/-- `argmin`: value `v` at flat index `i`, strictly larger values before, no smaller value after -/
theorem argBest_first_min (xs : List Int) (v : Int) (i : Nat) (h : argBest ltMin xs = some (v, i)) :
    ∃ l1 l2, xs = l1 ++ v :: l2 ∧ l1.length = i ∧ (∀ x ∈ l1, v < x) ∧ (∀ x ∈ l2, v ≤ x) := by
  obtain ⟨l1, l2, e, hl, p1, p2⟩ := argBest_first ltMin
    (by intro a b c; simp only [ltMin, decide_eq_true_eq]; omega)
    (by intro a b c; simp only [ltMin, decide_eq_true_eq, decide_eq_false_iff_not]; omega) xs v i h
  refine ⟨l1, l2, e, hl, ?_, ?_⟩
  · intro x hx; simpa [ltMin] using p1 x hx
  · intro x hx; have := p2 x hx; simp only [ltMin, decide_eq_false_iff_not] at this; omega

theorem argBest_first_max (xs : List Int) (v : Int) (i : Nat) (h : argBest ltMax xs = some (v, i)) :
    ∃ l1 l2, xs = l1 ++ v :: l2 ∧ l1.length = i ∧ (∀ x ∈ l1, x < v) ∧ (∀ x ∈ l2, x ≤ v) := by
  obtain ⟨l1, l2, e, hl, p1, p2⟩ := argBest_first ltMax
    (by intro a b c; simp only [ltMax, decide_eq_true_eq, gt_iff_lt]; omega)
    (by intro a b c; simp only [ltMax, decide_eq_true_eq, decide_eq_false_iff_not, gt_iff_lt]; omega) xs v i h
  refine ⟨l1, l2, e, hl, ?_, ?_⟩
  · intro x hx; simpa [ltMax] using p1 x hx
  · intro x hx; have := p2 x hx; simp only [ltMax, decide_eq_false_iff_not, gt_iff_lt] at this; omega

theorem argBest_none_iff (lt : Int → Int → Bool) (xs : List Int) : argBest lt xs = none ↔ xs = [] := by
  cases xs <;> simp [argBest]


/-- **the statement in full**: whatever the chunking, `split_every`, depth and `keepdims`, if the n-d tree answers
    `(v, i)` then `v` sits at flat index `i` of the C-order ravel, every earlier element is strictly larger and no later
    element is smaller; and it raises exactly when the array has no element -/
theorem argmin_nd_first_index (kd : Bool) (d : Nat) (ks : List Nat) (chunks : List (List Nat)) (f : List Nat → Int)
    (h : AxesOk (d + 1) ks (chunks.map List.length)) :
    (∀ v i key, argTreeNd ltMin chunks ks kd (d + 1) f = some [(key, some (v, i))] →
      ∃ l1 l2, flatData chunks f = l1 ++ v :: l2 ∧ l1.length = i ∧ (∀ x ∈ l1, v < x) ∧ (∀ x ∈ l2, v ≤ x)) ∧
    (argTreeNd ltMin chunks ks kd (d + 1) f = some [(finalKey kd (chunks.map List.length), none)]
      ↔ flatData chunks f = []) := by
  rw [argmin_nd_eq_numpy kd d ks chunks f h]
  constructor
  · intro v i key hk
    simp only [Option.some.injEq, List.cons.injEq, Prod.mk.injEq, and_true] at hk
    exact argBest_first_min _ v i hk.2
  · simp only [Option.some.injEq, List.cons.injEq, Prod.mk.injEq, and_true, true_and]
    exact argBest_none_iff ltMin _

theorem argmax_nd_first_index (kd : Bool) (d : Nat) (ks : List Nat) (chunks : List (List Nat)) (f : List Nat → Int)
    (h : AxesOk (d + 1) ks (chunks.map List.length)) :
    (∀ v i key, argTreeNd ltMax chunks ks kd (d + 1) f = some [(key, some (v, i))] →
      ∃ l1 l2, flatData chunks f = l1 ++ v :: l2 ∧ l1.length = i ∧ (∀ x ∈ l1, x < v) ∧ (∀ x ∈ l2, x ≤ v)) ∧
    (argTreeNd ltMax chunks ks kd (d + 1) f = some [(finalKey kd (chunks.map List.length), none)]
      ↔ flatData chunks f = []) := by
  rw [argmax_nd_eq_numpy kd d ks chunks f h]
  constructor
  · intro v i key hk
    simp only [Option.some.injEq, List.cons.injEq, Prod.mk.injEq, and_true] at hk
    exact argBest_first_max _ v i hk.2
  · simp only [Option.some.injEq, List.cons.injEq, Prod.mk.injEq, and_true, true_and]
    exact argBest_none_iff ltMax _

/-- the per-block partial is what `arg_chunk` computes from the block alone, and it is the best candidate of the block -/
theorem arg_chunk_nd_den (lt : Int → Int → Bool) (chunks : List (List Nat)) (f : List Nat → Int) (B : List (Nat × Nat))
    (hB : B ∈ gridBlocks chunks) :
    argPartNd lt (shapeOf chunks) f B
      = (optFold (better lt) ((blockIdx B).map fun idx => (f idx, ravel (shapeOf chunks) idx))).toList :=
  argPartNd_eq lt _ f B (block_bounds chunks B hB)

/-- the blocks enumerate every element of the array exactly once -/
theorem blocks_tile_array (chunks : List (List Nat)) :
    ((gridBlocks chunks).flatMap blockIdx).Perm (cartesian ((shapeOf chunks).map List.range)) :=
  blocks_tile chunks

/-- non-vacuity: the 3 × 3 array `[[3, 1, 2], [1, 0, 0], [3, 0, 3]]`, chunks `((2, 1), (1, 0, 2))` (a zero-length chunk),
    `split_every = 2` per axis, two levels: ties between blocks go to the smallest flat index (4 for the minimum 0 —
    the blocks are NOT visited in flat-index order —, 0 for the maximum 3) -/
def exF : List Nat → Int := fun idx => ([3, 1, 2, 1, 0, 0, 3, 0, 3] : List Int).getD (ravel [3, 3] idx) 0

theorem axesOk_example2 : AxesOk 2 [2, 2] [2, 3] := by
  unfold AxesOk
  exact List.Forall₂.cons ⟨by decide, by decide, by decide⟩
    (List.Forall₂.cons ⟨by decide, by decide, by decide⟩ List.Forall₂.nil)

example : argTreeNd ltMin [[2, 1], [1, 0, 2]] [2, 2] false 2 exF = some [([], some (0, 4))]
    ∧ argTreeNd ltMax [[2, 1], [1, 0, 2]] [2, 2] true 2 exF = some [([0, 0], some (3, 0))] := by
  constructor
  · rw [argmin_nd_eq_numpy false 1 [2, 2] [[2, 1], [1, 0, 2]] exF axesOk_example2]; decide
  · rw [argmax_nd_eq_numpy true 1 [2, 2] [[2, 1], [1, 0, 2]] exF axesOk_example2]; decide

example : argPartsNd ltMin [[2, 1], [1, 0, 2]] exF = [[(1, 3)], [], [(0, 4)], [(3, 6)], [], [(0, 7)]] := by decide

end Dask.C22x
