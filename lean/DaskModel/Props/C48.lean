import DaskModel.Model.BagOps
import DaskModel.Model.BagShuffle
import DaskModel.Lemmas.BagReduce
/-! # C48 — bag operations equal their Python reference (theorems) -/
namespace Dask.C48
open Dask.BagReduce Dask.BagOps Dask.BagShuffle

variable {α β : Type}

/-- **`bag_reduction_eq`**: if `h` is a list homomorphism with combiner `agg`
    (`agg (qs.map h) = h qs.flatten` for every list of lists), then `Bag.reduction(h, agg, split_every)`
    returns `h` of the concatenated sequence — for every `split_every ≥ 2`, every partitioning and every
    pattern of empty partitions. In particular the result does not depend on `split_every`. -/
theorem bag_reduction_eq (h : List α → β) (agg : List β → β)
    (hom : ∀ qs : List (List α), agg (qs.map h) = h qs.flatten)
    (se : Nat) (hse : 2 ≤ se) (b : Bag α) : reduction h agg se b = some (h (den b)) := by
  have hsome := reductionIx_isSome (fun _ => h) (fun _ _ => agg) se hse b
  obtain ⟨r, hr⟩ := Option.isSome_iff_exists.mp hsome
  have := reductionIx_inv (fun q r => r = h q) (fun _ => h) (fun _ _ => agg) (fun _ _ => rfl)
    (by
      intro d i qs rs hall
      have : rs = qs.map h := by
        induction hall with
        | nil => rfl
        | cons hab _ ih => simp [hab, ih]
      rw [this]; exact hom qs) se b r hr
  simp only [reduction, hr, this, den]

theorem split_every_irrelevant (h : List α → β) (agg : List β → β)
    (hom : ∀ qs : List (List α), agg (qs.map h) = h qs.flatten)
    (se se' : Nat) (hse : 2 ≤ se) (hse' : 2 ≤ se') (b : Bag α) : reduction h agg se b = reduction h agg se' b := by
  rw [bag_reduction_eq h agg hom se hse, bag_reduction_eq h agg hom se' hse']

end Dask.C48
